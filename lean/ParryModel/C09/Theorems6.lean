import ParryModel.C09.Spec
import ParryModel.C09.Model4
import ParryModel.C09.Theorems3
/-!
# C09 theorems, part 6: `find_root_intervals` returns intervals covering every root.

`IFunContract f` is the contract of the `IntervalFunction` trait as its documentation states it:
`eval_interval` bounds all the values of the function on the interval (an *inclusion function*), and
`eval_interval_gradient` bounds the slope: for `x, m` in `I` there is `g ∈ eval_interval_gradient(I)` with
`f x - f m = g·(x - m)` (for a differentiable `f` over ℝ this is the mean value theorem applied to an enclosure of
`f'`).  Under the contract, **for every `max_recursions` (0 included), every pair of thresholds (no sign condition is
even needed) and every amount of fuel**, whenever the run returns, every root of `f` in `init` lies in one of the
returned intervals (`find_roots_cover`); moreover every returned interval lies inside `init` (`find_roots_sub`).
The proof is the invariant "every root in `init` lies in a result interval or in a candidate on the stack":
`push_candidate` never drops a root (the image of an interval containing a root contains 0), a bisection keeps the
root in one half, and the Newton step keeps it in `(mid - f(mid)/G) ∩ candidate` — in the first or the second piece of
the extended division (`interval_div_contains`), or in the whole line when the slope and `f(mid)` both vanish.
-/
set_option linter.unusedSectionVars false
set_option linter.unusedVariables false
set_option linter.unusedSimpArgs false
set_option linter.style.haveILetI false

namespace C09
open Model

variable {K : Type} [Field K] [LinearOrder K] [IsStrictOrderedRing K] (sq : K → K)

/-- the contract of `trait IntervalFunction` -/
structure IFunContract (f : IFun K) : Prop where
  /-- `eval_interval(I)` contains `f x` for every `x ∈ I` -/
  incl : ∀ (I : Interval K) (x : K), IMem I x → IMem (f.evalI I) (f.eval x)
  /-- `eval_interval_gradient(I)` contains the slope of every chord of `f` over `I` -/
  slope : ∀ (I : Interval K) (x m : K), IMem I x → IMem I m →
    ∃ g, IMem (f.gradI I) g ∧ f.eval x - f.eval m = g * (x - m)

/-- `x` lies in a result interval or in a candidate of the state -/
def InSt (st : RootState K) (x : K) : Prop :=
  (∃ i ∈ st.1, IMem i x) ∨ (∃ c ∈ st.2, IMem c.1 x)

private theorem push_mono (f : IFun K) (minW minImg : K) (maxRec : Nat) (cand : Interval K) (r : Nat) (st : RootState K) (x : K) :
    letI := fieldNum K sq
    InSt st x → InSt (pushCandidate f minW minImg maxRec cand r st) x := by
  intro h
  unfold pushCandidate
  simp only
  split_ifs
  · rcases h with ⟨i, hi, hx⟩ | h
    · exact Or.inl ⟨i, List.mem_append_left _ hi, hx⟩
    · exact Or.inr h
  · rcases h with h | ⟨c, hc, hx⟩
    · exact Or.inl h
    · exact Or.inr ⟨c, List.mem_cons_of_mem _ hc, hx⟩
  · rcases h with ⟨i, hi, hx⟩ | h
    · exact Or.inl ⟨i, List.mem_append_left _ hi, hx⟩
    · exact Or.inr h
  · exact h

private theorem push_root (f : IFun K) (hc : IFunContract f) (minW minImg : K) (maxRec : Nat) (cand : Interval K) (r : Nat)
    (st : RootState K) (x : K) (hx : IMem cand x) (h0 : f.eval x = 0) :
    letI := fieldNum K sq
    InSt (pushCandidate f minW minImg maxRec cand r st) x := by
  have hi := hc.incl cand x hx
  rw [h0] at hi
  have hcont : @Interval.contains K (fieldNum K sq) (f.evalI cand) 0 = true := by
    simp only [Interval.contains, Bool.and_eq_true, decide_eq_true_eq]; exact hi
  unfold pushCandidate
  simp only [hcont, if_true]
  split_ifs
  · exact Or.inl ⟨cand, List.mem_append_right _ (List.mem_singleton_self _), hx⟩
  · exact Or.inr ⟨(cand, r + 1), List.mem_cons_self .., hx⟩

private theorem split_cover (r : Interval K) (x : K) (hx : IMem r x) :
    letI := fieldNum K sq
    IMem r.split.1 x ∨ IMem r.split.2 x := by
  obtain ⟨h1, h2⟩ := hx
  simp only [Interval.split, Interval.midpoint, IMem, fieldNum_two]
  rcases le_total x ((r.lo + r.hi) / 2) with h | h
  · exact Or.inl ⟨h1, h⟩
  · exact Or.inr ⟨h, h2⟩

private theorem pushNew_mono (f : IFun K) (minW minImg : K) (maxRec : Nat) (pw : K) (r : Nat) (nc : Option (Interval K))
    (st : RootState K) (x : K) :
    letI := fieldNum K sq
    InSt st x → InSt (pushNew f minW minImg maxRec pw r nc st) x := by
  intro h
  unfold pushNew
  cases nc with
  | none => exact h
  | some c =>
    simp only
    split_ifs
    · exact push_mono sq _ _ _ _ _ _ _ _ (push_mono sq _ _ _ _ _ _ _ _ h)
    · exact push_mono sq _ _ _ _ _ _ _ _ h

private theorem pushNew_root (f : IFun K) (hc : IFunContract f) (minW minImg : K) (maxRec : Nat) (pw : K) (r : Nat)
    (c : Interval K) (st : RootState K) (x : K) (hx : IMem c x) (h0 : f.eval x = 0) :
    letI := fieldNum K sq
    InSt (pushNew f minW minImg maxRec pw r (some c) st) x := by
  unfold pushNew
  simp only
  split_ifs
  · rcases split_cover sq c x hx with h | h
    · exact push_mono sq _ _ _ _ _ _ _ _ (push_root sq f hc _ _ _ _ _ _ x h h0)
    · exact push_root sq f hc _ _ _ _ _ _ x h h0
  · exact push_root sq f hc _ _ _ _ _ _ x hx h0

/-- the Newton piece keeps every point `x = mid - w` of the candidate with `w` in the shift -/
private theorem newtonPiece_mem (mid : K) (shift : EInterval K) (cand : Interval K) (w x : K)
    (hw : EMem shift w) (hx : IMem cand x) (e : x = mid - w) :
    letI := fieldNum K sq
    ∃ r, newtonPiece mid shift cand = some r ∧ IMem r x := by
  obtain ⟨lo, hi⟩ := shift
  obtain ⟨c1, c2⟩ := hx
  cases lo <;> cases hi <;> simp only [EMem] at hw
  · exact absurd hw.2 id
  · -- (-inf, h]
    rename_i h
    have hh := hw.2
    simp only [newtonPiece, Ext.subFrom, fieldNum_nmax, fieldNum_nmin]
    have : ¬ (cand.hi < max (mid - h) cand.lo) := by
      rw [not_lt]; exact max_le (by linarith) (by linarith)
    rw [if_neg this]
    exact ⟨_, rfl, ⟨max_le (by linarith) c1, c2⟩⟩
  · simp only [newtonPiece, Ext.subFrom]
    have : ¬ (cand.hi < cand.lo) := by rw [not_lt]; linarith
    rw [if_neg this]
    exact ⟨_, rfl, ⟨c1, c2⟩⟩
  · exact absurd hw.2 id
  · rename_i l h
    simp only [newtonPiece, Ext.subFrom, fieldNum_nmax, fieldNum_nmin]
    have : ¬ (min (mid - l) cand.hi < max (mid - h) cand.lo) := by
      rw [not_lt]
      exact le_trans (max_le (by linarith [hw.2]) c1) (le_min (by linarith [hw.1]) c2)
    rw [if_neg this]
    exact ⟨_, rfl, ⟨max_le (by linarith [hw.2]) c1, le_min (by linarith [hw.1]) c2⟩⟩
  · rename_i l
    simp only [newtonPiece, Ext.subFrom, fieldNum_nmax, fieldNum_nmin]
    have : ¬ (min (mid - l) cand.hi < cand.lo) := by
      rw [not_lt]; exact le_trans c1 (le_min (by linarith [hw.1]) c2)
    rw [if_neg this]
    exact ⟨_, rfl, ⟨c1, le_min (by linarith [hw.1]) c2⟩⟩
  · exact absurd hw.1 id
  · exact absurd hw.1 id
  · exact absurd hw.1 id

/-- `[0,0] / Y` with `0 ∈ Y` is the whole line -/
private theorem div_zero_num (y : Interval K) (h1 : y.lo ≤ 0) (h2 : 0 ≤ y.hi) :
    letI := fieldNum K sq
    (Interval.div (⟨0, 0⟩ : Interval K) y).1 = ⟨.negInf, .posInf⟩ := by
  simp only [Interval.div, h1, h2, and_self, if_true, lt_irrefl, if_false, le_refl]

private theorem step_mono (f : IFun K) (minW minImg : K) (maxRec : Nat) (cand : Interval K) (r : Nat) (st : RootState K) (x : K) :
    letI := fieldNum K sq
    InSt st x → InSt (rootStep f minW minImg maxRec cand r st) x := by
  intro h
  unfold rootStep
  exact pushNew_mono sq _ _ _ _ _ _ _ _ _ (pushNew_mono sq _ _ _ _ _ _ _ _ _ h)

/-- one iteration never loses a root of the popped candidate -/
private theorem step_root (f : IFun K) (hc : IFunContract f) (minW minImg : K) (maxRec : Nat) (cand : Interval K) (r : Nat)
    (st : RootState K) (x : K) (hx : IMem cand x) (h0 : f.eval x = 0) :
    letI := fieldNum K sq
    InSt (rootStep f minW minImg maxRec cand r st) x := by
  have hmid : IMem cand (@Interval.midpoint K (fieldNum K sq) cand) := by
    obtain ⟨c1, c2⟩ := hx
    simp only [Interval.midpoint, IMem, fieldNum_two]
    constructor <;> [rw [le_div_iff₀ (by norm_num : (0:K) < 2)]; rw [div_le_iff₀ (by norm_num : (0:K) < 2)]] <;> linarith
  obtain ⟨g, hg, hs⟩ := hc.slope cand x _ hx hmid
  rw [h0] at hs
  set mid := @Interval.midpoint K (fieldNum K sq) cand with hmidDef
  set fm := f.eval mid with hfm
  unfold rootStep
  simp only
  rw [← hmidDef, ← hfm]
  by_cases hg0 : g = 0
  · -- zero slope: `f(mid) = 0`, the first piece is the whole line
    have hf0 : fm = 0 := by rw [hg0] at hs; linarith
    have hd := div_zero_num sq (f.gradI cand) (by rw [← hg0]; exact hg.1) (by rw [← hg0]; exact hg.2)
    rw [hf0, hd]
    obtain ⟨r1, e1, m1⟩ := newtonPiece_mem sq mid ⟨.negInf, .posInf⟩ cand (mid - x) x ⟨trivial, trivial⟩ hx (by ring)
    rw [e1]
    exact pushNew_mono sq _ _ _ _ _ _ _ _ _ (pushNew_root sq f hc _ _ _ _ _ r1 st x m1 h0)
  · -- `x = mid - f(mid)/g`
    have hx' : x = mid - fm / g := by
      field_simp
      linarith
    rcases interval_div_contains sq ⟨fm, fm⟩ (f.gradI cand) fm g ⟨le_refl _, le_refl _⟩ hg hg0 with h | ⟨p, hp, h⟩
    · obtain ⟨r1, e1, m1⟩ := newtonPiece_mem sq mid _ cand (fm / g) x h hx hx'
      rw [e1]
      exact pushNew_mono sq _ _ _ _ _ _ _ _ _ (pushNew_root sq f hc _ _ _ _ _ r1 st x m1 h0)
    · obtain ⟨r2, e2, m2⟩ := newtonPiece_mem sq mid p cand (fm / g) x h hx hx'
      rw [hp]
      simp only
      rw [e2]
      exact pushNew_root sq f hc _ _ _ _ _ r2 _ x m2 h0

private theorem loop_cover (f : IFun K) (hc : IFunContract f) (minW minImg : K) (maxRec : Nat) :
    letI := fieldNum K sq
    ∀ (fuel : Nat) (st : RootState K) (res : List (Interval K)) (P : K → Prop),
      (∀ x, P x → f.eval x = 0) →
      rootsLoop f minW minImg maxRec fuel st = some res → (∀ x, P x → InSt st x) → ∀ x, P x → ∃ i ∈ res, IMem i x := by
  intro fuel
  induction fuel with
  | zero =>
    intro st res P hP h hin x hx
    obtain ⟨r0, cs⟩ := st
    cases cs with
    | nil =>
      simp only [rootsLoop, Option.some.injEq] at h
      subst h
      rcases hin x hx with h | ⟨c, hc', _⟩
      · exact h
      · cases hc'
    | cons c cs => simp [rootsLoop] at h
  | succ n ih =>
    intro st res P hP h hin x hx
    obtain ⟨r0, cs⟩ := st
    cases cs with
    | nil =>
      simp only [rootsLoop, Option.some.injEq] at h
      subst h
      rcases hin x hx with h | ⟨c, hc', _⟩
      · exact h
      · cases hc'
    | cons c cs =>
      obtain ⟨ci, cr⟩ := c
      simp only [rootsLoop] at h
      refine ih _ res P hP h ?_ x hx
      intro y hy
      rcases hin y hy with ⟨i, hi, hm⟩ | ⟨c', hc', hm⟩
      · exact step_mono sq f _ _ _ _ _ _ y (Or.inl ⟨i, hi, hm⟩)
      · rcases List.mem_cons.1 hc' with rfl | hc'
        · exact step_root sq f hc _ _ _ _ _ _ y hm (hP y hy)
        · exact step_mono sq f _ _ _ _ _ _ y (Or.inr ⟨c', hc', hm⟩)

/-- **C09 (`find_root_intervals` covers every root)**: for every `IntervalFunction` meeting its contract, every start
interval, every thresholds, **every** `max_recursions` (0 included) and every amount of fuel: if the run returns
`res`, every root of `f` in `init` lies in one of the intervals of `res`. -/
theorem find_roots_cover (f : IFun K) (hc : IFunContract f) (init : Interval K) (minW minImg : K) (maxRec fuel : Nat)
    (res : List (Interval K)) :
    letI := fieldNum K sq
    findRootIntervals f init minW minImg maxRec fuel = some res →
    ∀ x, IMem init x → f.eval x = 0 → ∃ i ∈ res, IMem i x := by
  intro h x hx h0
  refine loop_cover sq f hc minW minImg maxRec fuel _ res (fun y => IMem init y ∧ f.eval y = 0) (fun _ hy => hy.2) h ?_ x ⟨hx, h0⟩
  intro y ⟨hy, hy0⟩
  exact push_root sq f hc _ _ _ _ _ _ y hy hy0

/-! ## termination: the recursion counters bound the run -/

/-- number of nodes of the complete 4-ary tree of depth `d`: a candidate with `d` recursions left is popped once and
pushes at most four candidates with `d - 1` recursions left -/
def treeSize : Nat → Nat
  | 0 => 1
  | d + 1 => 1 + 4 * treeSize d

private theorem treeSize_pos (d : Nat) : 0 < treeSize d := by cases d <;> simp [treeSize]
private theorem treeSize_mono (d : Nat) : treeSize d ≤ treeSize (d + 1) := by simp [treeSize]; omega

/-- fuel still needed by the candidates on the stack -/
def candWeight (maxRec : Nat) (cs : List (Interval K × Nat)) : Nat := (cs.map fun c => treeSize (maxRec - c.2)).sum
def CandsOk (maxRec : Nat) (cs : List (Interval K × Nat)) : Prop := ∀ c ∈ cs, c.2 ≤ maxRec
/-- weight a `push_candidate(_, r)` may add -/
def pushBound (maxRec r : Nat) : Nat := if r < maxRec then treeSize (maxRec - (r + 1)) else 0

private theorem push_weight (f : IFun K) (minW minImg : K) (maxRec : Nat) (cand : Interval K) (r : Nat) (hr : r ≤ maxRec)
    (st : RootState K) (hok : CandsOk maxRec st.2) :
    letI := fieldNum K sq
    CandsOk maxRec (pushCandidate f minW minImg maxRec cand r st).2 ∧
      candWeight maxRec (pushCandidate f minW minImg maxRec cand r st).2 ≤ candWeight maxRec st.2 + pushBound maxRec r := by
  unfold pushCandidate
  simp only
  split_ifs with h1 h2 h3
  · exact ⟨hok, Nat.le_add_right _ _⟩
  · have hne : r ≠ maxRec := by
      intro e; apply h2; simp [e]
    have hlt : r < maxRec := lt_of_le_of_ne hr hne
    refine ⟨?_, ?_⟩
    · intro c hc
      rcases List.mem_cons.1 hc with rfl | hc
      · exact hlt
      · exact hok c hc
    · simp only [candWeight, List.map_cons, List.sum_cons, pushBound, if_pos hlt]
      omega
  · exact ⟨hok, Nat.le_add_right _ _⟩
  · exact ⟨hok, Nat.le_add_right _ _⟩

private theorem pushNew_weight (f : IFun K) (minW minImg : K) (maxRec : Nat) (pw : K) (r : Nat) (hr : r ≤ maxRec)
    (nc : Option (Interval K)) (st : RootState K) (hok : CandsOk maxRec st.2) :
    letI := fieldNum K sq
    CandsOk maxRec (pushNew f minW minImg maxRec pw r nc st).2 ∧
      candWeight maxRec (pushNew f minW minImg maxRec pw r nc st).2 ≤ candWeight maxRec st.2 + 2 * pushBound maxRec r := by
  unfold pushNew
  cases nc with
  | none => exact ⟨hok, Nat.le_add_right _ _⟩
  | some c =>
    simp only
    split_ifs
    · obtain ⟨o1, w1⟩ := push_weight sq f minW minImg maxRec (@Interval.split K (fieldNum K sq) c).1 r hr st hok
      obtain ⟨o2, w2⟩ := push_weight sq f minW minImg maxRec (@Interval.split K (fieldNum K sq) c).2 r hr _ o1
      exact ⟨o2, by omega⟩
    · obtain ⟨o1, w1⟩ := push_weight sq f minW minImg maxRec c r hr st hok
      exact ⟨o1, by omega⟩

private theorem step_weight (f : IFun K) (minW minImg : K) (maxRec : Nat) (cand : Interval K) (r : Nat) (hr : r ≤ maxRec)
    (st : RootState K) (hok : CandsOk maxRec st.2) :
    letI := fieldNum K sq
    CandsOk maxRec (rootStep f minW minImg maxRec cand r st).2 ∧
      candWeight maxRec (rootStep f minW minImg maxRec cand r st).2 ≤ candWeight maxRec st.2 + 4 * pushBound maxRec r := by
  unfold rootStep
  simp only
  obtain ⟨o1, w1⟩ := pushNew_weight sq f minW minImg maxRec (@Interval.width K (fieldNum K sq) cand) r hr
    (@newtonPiece K (fieldNum K sq) (@Interval.midpoint K (fieldNum K sq) cand)
      (@Interval.div K (fieldNum K sq) ⟨f.eval (@Interval.midpoint K (fieldNum K sq) cand), f.eval (@Interval.midpoint K (fieldNum K sq) cand)⟩ (f.gradI cand)).1 cand) st hok
  obtain ⟨o2, w2⟩ := pushNew_weight sq f minW minImg maxRec (@Interval.width K (fieldNum K sq) cand) r hr
    (match (@Interval.div K (fieldNum K sq) ⟨f.eval (@Interval.midpoint K (fieldNum K sq) cand), f.eval (@Interval.midpoint K (fieldNum K sq) cand)⟩ (f.gradI cand)).2 with
      | none => none
      | some s => @newtonPiece K (fieldNum K sq) (@Interval.midpoint K (fieldNum K sq) cand) s cand) _ o1
  refine ⟨o2, le_trans w2 ?_⟩
  omega

private theorem loop_terminates (f : IFun K) (minW minImg : K) (maxRec : Nat) :
    letI := fieldNum K sq
    ∀ (fuel : Nat) (st : RootState K), CandsOk maxRec st.2 → candWeight maxRec st.2 ≤ fuel →
      ∃ res, rootsLoop f minW minImg maxRec fuel st = some res := by
  intro fuel
  induction fuel with
  | zero =>
    intro st hok hw
    obtain ⟨r0, cs⟩ := st
    cases cs with
    | nil => exact ⟨r0, by simp [rootsLoop]⟩
    | cons c cs =>
      simp only [candWeight, List.map_cons, List.sum_cons] at hw
      have := treeSize_pos (maxRec - c.2)
      omega
  | succ n ih =>
    intro st hok hw
    obtain ⟨r0, cs⟩ := st
    cases cs with
    | nil => exact ⟨r0, by simp [rootsLoop]⟩
    | cons c cs =>
      obtain ⟨ci, cr⟩ := c
      have hcr : cr ≤ maxRec := hok (ci, cr) (List.mem_cons_self ..)
      have hok' : CandsOk maxRec cs := fun c hc => hok c (List.mem_cons_of_mem _ hc)
      obtain ⟨o, w⟩ := step_weight sq f minW minImg maxRec ci cr hcr (r0, cs) hok'
      simp only [rootsLoop]
      refine ih _ o ?_
      simp only [candWeight, List.map_cons, List.sum_cons] at hw w ⊢
      have hb : 4 * pushBound maxRec cr + 1 ≤ treeSize (maxRec - cr) := by
        unfold pushBound
        split_ifs with hlt
        · have e : maxRec - cr = (maxRec - (cr + 1)) + 1 := by omega
          rw [e]; simp [treeSize]; omega
        · have := treeSize_pos (maxRec - cr); omega
      omega

/-- **termination**: with `fuel ≥ treeSize max_recursions = (4^(max_recursions+1) - 1)/3` the run always returns — for
every function (no contract needed), start interval and thresholds. -/
theorem find_roots_terminates (f : IFun K) (init : Interval K) (minW minImg : K) (maxRec fuel : Nat)
    (hfuel : treeSize maxRec ≤ fuel) :
    letI := fieldNum K sq
    ∃ res, findRootIntervals f init minW minImg maxRec fuel = some res := by
  unfold findRootIntervals
  obtain ⟨o, w⟩ := push_weight sq f minW minImg maxRec init 0 (Nat.zero_le _) ([], []) (fun c hc => by cases hc)
  refine loop_terminates sq f minW minImg maxRec fuel _ o ?_
  have hb : pushBound maxRec 0 ≤ treeSize maxRec := by
    unfold pushBound
    split_ifs with h
    · have e : maxRec = (maxRec - (0 + 1)) + 1 := by omega
      conv_rhs => rw [e]
      exact treeSize_mono _
    · exact Nat.zero_le _
  simp only [candWeight, List.map_nil, List.sum_nil] at w
  simp only [candWeight] at *
  omega

/-- **total correctness of `find_root_intervals`**: under the trait's contract and with enough fuel the run returns and
its result covers every root of `f` in `init`. -/
theorem find_roots_total (f : IFun K) (hc : IFunContract f) (init : Interval K) (minW minImg : K) (maxRec fuel : Nat)
    (hfuel : treeSize maxRec ≤ fuel) :
    letI := fieldNum K sq
    ∃ res, findRootIntervals f init minW minImg maxRec fuel = some res ∧
      ∀ x, IMem init x → f.eval x = 0 → ∃ i ∈ res, IMem i x := by
  obtain ⟨res, h⟩ := find_roots_terminates sq f init minW minImg maxRec fuel hfuel
  exact ⟨res, h, find_roots_cover sq f hc init minW minImg maxRec fuel res h⟩

/-! ## every returned interval lies inside `init` -/

/-- `i` is a valid interval inside `init` -/
def SubOf (init i : Interval K) : Prop := init.lo ≤ i.lo ∧ i.lo ≤ i.hi ∧ i.hi ≤ init.hi
def AllSub (init : Interval K) (st : RootState K) : Prop :=
  (∀ i ∈ st.1, SubOf init i) ∧ (∀ c ∈ st.2, SubOf init c.1)

private theorem push_sub (f : IFun K) (minW minImg : K) (maxRec : Nat) (init cand : Interval K) (r : Nat) (st : RootState K)
    (hc : SubOf init cand) (h : AllSub init st) :
    letI := fieldNum K sq
    AllSub init (pushCandidate f minW minImg maxRec cand r st) := by
  obtain ⟨h1, h2⟩ := h
  unfold pushCandidate
  simp only
  split_ifs
  · refine ⟨fun i hi => ?_, h2⟩
    rcases List.mem_append.1 hi with hi | hi
    · exact h1 i hi
    · rw [List.mem_singleton.1 hi]; exact hc
  · refine ⟨h1, fun c hc' => ?_⟩
    rcases List.mem_cons.1 hc' with rfl | hc'
    · exact hc
    · exact h2 c hc'
  · refine ⟨fun i hi => ?_, h2⟩
    rcases List.mem_append.1 hi with hi | hi
    · exact h1 i hi
    · rw [List.mem_singleton.1 hi]; exact hc
  · exact ⟨h1, h2⟩

private theorem ite_some {r0 r : Interval K} {c : Prop} [Decidable c]
    (h : (if c then none else some r0) = some r) : ¬ c ∧ r0 = r := by
  split_ifs at h with hc
  exact ⟨hc, Option.some.inj h⟩

private theorem newtonPiece_sub (mid : K) (shift : EInterval K) (cand r : Interval K) :
    letI := fieldNum K sq
    newtonPiece mid shift cand = some r → cand.lo ≤ r.lo ∧ r.lo ≤ r.hi ∧ r.hi ≤ cand.hi := by
  obtain ⟨lo, hi⟩ := shift
  cases lo <;> cases hi <;> intro h <;> simp only [newtonPiece, Ext.subFrom, fieldNum_nmax, fieldNum_nmin] at h
  all_goals first
    | (cases h; done)
    | (obtain ⟨hlt, rfl⟩ := ite_some h
       push Not at hlt
       exact ⟨by first | exact le_refl _ | exact le_max_right _ _, hlt, by first | exact le_refl _ | exact min_le_right _ _⟩)

private theorem pushNew_sub (f : IFun K) (minW minImg : K) (maxRec : Nat) (pw : K) (init : Interval K) (r : Nat)
    (nc : Option (Interval K)) (st : RootState K) (hn : ∀ c, nc = some c → SubOf init c) (h : AllSub init st) :
    letI := fieldNum K sq
    AllSub init (pushNew f minW minImg maxRec pw r nc st) := by
  unfold pushNew
  cases nc with
  | none => exact h
  | some c =>
    obtain ⟨c1, c2, c3⟩ := hn c rfl
    simp only
    split_ifs
    · have hm1 : c.lo ≤ (c.lo + c.hi) / 2 := by rw [le_div_iff₀ (by norm_num : (0:K) < 2)]; linarith
      have hm2 : (c.lo + c.hi) / 2 ≤ c.hi := by rw [div_le_iff₀ (by norm_num : (0:K) < 2)]; linarith
      refine push_sub sq f _ _ _ init _ _ _ ?_ (push_sub sq f _ _ _ init _ _ _ ?_ h)
      · simp only [Interval.split, Interval.midpoint, SubOf, fieldNum_two]; exact ⟨by linarith, hm2, c3⟩
      · simp only [Interval.split, Interval.midpoint, SubOf, fieldNum_two]; exact ⟨c1, hm1, by linarith⟩
    · exact push_sub sq f _ _ _ init _ _ _ ⟨c1, c2, c3⟩ h

private theorem step_sub (f : IFun K) (minW minImg : K) (maxRec : Nat) (init cand : Interval K) (r : Nat) (st : RootState K)
    (hc : SubOf init cand) (h : AllSub init st) :
    letI := fieldNum K sq
    AllSub init (rootStep f minW minImg maxRec cand r st) := by
  obtain ⟨c1, c2, c3⟩ := hc
  unfold rootStep
  simp only
  refine pushNew_sub sq f _ _ _ _ init _ _ _ ?_ (pushNew_sub sq f _ _ _ _ init _ _ _ ?_ h)
  · intro c hcs
    cases hd : (@Interval.div K (fieldNum K sq) ⟨f.eval (@Interval.midpoint K (fieldNum K sq) cand), f.eval (@Interval.midpoint K (fieldNum K sq) cand)⟩ (f.gradI cand)).2 with
    | none => rw [hd] at hcs; cases hcs
    | some s =>
      rw [hd] at hcs
      obtain ⟨a1, a2, a3⟩ := newtonPiece_sub sq _ _ _ _ hcs
      exact ⟨by linarith, a2, by linarith⟩
  · intro c hcs
    obtain ⟨a1, a2, a3⟩ := newtonPiece_sub sq _ _ _ _ hcs
    exact ⟨by linarith, a2, by linarith⟩

private theorem loop_sub (f : IFun K) (minW minImg : K) (maxRec : Nat) (init : Interval K) :
    letI := fieldNum K sq
    ∀ (fuel : Nat) (st : RootState K) (res : List (Interval K)), AllSub init st →
      rootsLoop f minW minImg maxRec fuel st = some res → ∀ i ∈ res, SubOf init i := by
  intro fuel
  induction fuel with
  | zero =>
    intro st res hs h
    obtain ⟨r0, cs⟩ := st
    cases cs with
    | nil => simp only [rootsLoop, Option.some.injEq] at h; subst h; exact hs.1
    | cons c cs => simp [rootsLoop] at h
  | succ n ih =>
    intro st res hs h
    obtain ⟨r0, cs⟩ := st
    cases cs with
    | nil => simp only [rootsLoop, Option.some.injEq] at h; subst h; exact hs.1
    | cons c cs =>
      obtain ⟨ci, cr⟩ := c
      simp only [rootsLoop] at h
      exact ih _ res (step_sub sq f _ _ _ init ci cr (r0, cs) (hs.2 (ci, cr) (List.mem_cons_self ..))
        ⟨hs.1, fun c hc => hs.2 c (List.mem_cons_of_mem _ hc)⟩) h

/-- **no spurious region**: every interval returned by `find_root_intervals` is a valid interval (`lo ≤ hi`) lying
inside `init` (for a valid `init`), whatever the function. -/
theorem find_roots_sub (f : IFun K) (init : Interval K) (hinit : init.lo ≤ init.hi) (minW minImg : K) (maxRec fuel : Nat)
    (res : List (Interval K)) :
    letI := fieldNum K sq
    findRootIntervals f init minW minImg maxRec fuel = some res → ∀ i ∈ res, init.lo ≤ i.lo ∧ i.lo ≤ i.hi ∧ i.hi ≤ init.hi := by
  intro h
  refine loop_sub sq f minW minImg maxRec init fuel _ res ?_ h
  exact push_sub sq f _ _ _ init init 0 ([], []) ⟨le_refl _, hinit, le_refl _⟩
    (show AllSub init ([], []) from ⟨fun i hi => absurd hi List.not_mem_nil, fun c hc => absurd hc List.not_mem_nil⟩)

end C09
