import ParryModel.C09.Theorems5
/-!
# C09 theorems, part 17: the 2-D crate (`parry2d`) — every convex shape kind through `dyn Shape`

`BShape2.aabb` / `sphere` / `swept` model `Shape::compute_aabb`, `compute_bounding_sphere`, `compute_swept_aabb` of parry2d
(Ball, Cuboid, Capsule, Segment, Triangle, ConvexPolygon, RoundShape of those).  For every unit-complex pose the
returned box / bounding circle / swept box contains every point of the posed shape (`shape2_aabb_contains`,
`shape2_sphere_contains`, `shape2_swept_contains`).  The closed-form 2-D boxes of Ball, Cuboid (`|R|·he`), Capsule and
Triangle and all the 2-D bounding circles are proved here; Segment, ConvexPolygon and the RoundShape box come from parts 4/5.
-/
set_option linter.unusedSectionVars false
set_option linter.unusedVariables false
set_option linter.unusedSimpArgs false
set_option linter.style.haveILetI false

namespace C09
open Model

variable {K : Type} [Field K] [LinearOrder K] [IsStrictOrderedRing K] (sq : K → K)

/-- point of a circle (specification) -/
def SMem2 (s : Sphere2 K) (p : V2 K) : Prop :=
  (p.x - s.center.x) * (p.x - s.center.x) + (p.y - s.center.y) * (p.y - s.center.y) ≤ s.radius * s.radius

private theorem ss2 (x y : K) : 0 ≤ x * x + y * y := add_nonneg (mul_self_nonneg _) (mul_self_nonneg _)

/-- a unit complex number preserves distances -/
theorem act_dist2 (m : Iso2 K) (p q : V2 K) (hq : m.re * m.re + m.im * m.im = 1) :
    letI := fieldNum K sq
    ((m.act p).sub (m.act q)).normSq = (p.sub q).normSq := by
  simp only [Iso2.act, Iso2.rot, V2.add, V2.sub, V2.normSq, V2.dot]
  linear_combination ((p.x - q.x) * (p.x - q.x) + (p.y - q.y) * (p.y - q.y)) * hq

private theorem dot_le2 (ux uy vx vy r s : K) (hr : 0 ≤ r) (hs : 0 ≤ s)
    (hU : ux * ux + uy * uy ≤ r * r) (hV : vx * vx + vy * vy ≤ s * s) : ux * vx + uy * vy ≤ r * s := by
  have h1 : (ux * vx + uy * vy) ^ 2 ≤ (ux * ux + uy * uy) * (vx * vx + vy * vy) := by nlinarith [sq_nonneg (ux * vy - uy * vx)]
  have h2 : (ux * ux + uy * uy) * (vx * vx + vy * vy) ≤ (r * r) * (s * s) := mul_le_mul hU hV (ss2 _ _) (mul_self_nonneg r)
  have h3 : (ux * vx + uy * vy) ^ 2 ≤ (r * s) ^ 2 := by nlinarith
  exact (abs_le_of_sq_le_sq' h3 (mul_nonneg hr hs)).2

private theorem tri_ineq2 (ux uy vx vy r s : K) (hr : 0 ≤ r) (hs : 0 ≤ s)
    (hU : ux * ux + uy * uy ≤ r * r) (hV : vx * vx + vy * vy ≤ s * s) :
    (ux + vx) * (ux + vx) + (uy + vy) * (uy + vy) ≤ (r + s) * (r + s) := by
  have := dot_le2 ux uy vx vy r s hr hs hU hV
  nlinarith

private theorem ball_convex2 (ax ay bx b_y cx cy R u v : K) (hu : 0 ≤ u) (hv : 0 ≤ v) (huv : u + v ≤ 1)
    (hA : ax * ax + ay * ay ≤ R) (hB : bx * bx + b_y * b_y ≤ R) (hC : cx * cx + cy * cy ≤ R) :
    (ax + (bx - ax) * u + (cx - ax) * v) * (ax + (bx - ax) * u + (cx - ax) * v)
      + (ay + (b_y - ay) * u + (cy - ay) * v) * (ay + (b_y - ay) * u + (cy - ay) * v) ≤ R := by
  have hw : 0 ≤ 1 - u - v := by linarith
  have h01 := mul_nonneg (mul_nonneg hw hu) (ss2 (ax - bx) (ay - b_y))
  have h02 := mul_nonneg (mul_nonneg hw hv) (ss2 (ax - cx) (ay - cy))
  have h12 := mul_nonneg (mul_nonneg hu hv) (ss2 (bx - cx) (b_y - cy))
  have hA' := mul_le_mul_of_nonneg_left hA hw
  have hB' := mul_le_mul_of_nonneg_left hB hu
  have hC' := mul_le_mul_of_nonneg_left hC hv
  linarith [h01, h02, h12, hA', hB', hC']

/-- **`BoundingSphere::transform_by` (2-D)** -/
theorem sphere2_transformBy_contains (s : Sphere2 K) (m : Iso2 K) (p : V2 K) (hq : m.re * m.re + m.im * m.im = 1) :
    letI := fieldNum K sq
    SMem2 (s.transformBy m) (m.act p) ↔ SMem2 s p := by
  have hd := act_dist2 sq m p s.center hq
  simp only [SMem2, Sphere2.transformBy, V2.normSq, V2.dot, V2.sub] at hd ⊢
  rw [hd]

/-! ## `point_cloud_bounding_sphere` (2-D) -/

private theorem foldmax_spec2 {α : Type} (g : α → K) (l : List α) :
    ∀ acc : K, acc ≤ l.foldl (fun acc p => if acc < g p then g p else acc) acc ∧
      ∀ q ∈ l, g q ≤ l.foldl (fun acc p => if acc < g p then g p else acc) acc := by
  induction l with
  | nil => intro acc; exact ⟨le_refl _, (fun q hq => by simp at hq)⟩
  | cons x xs ih =>
    intro acc
    simp only [List.foldl_cons, List.mem_cons]
    obtain ⟨h1, h2⟩ := ih (if acc < g x then g x else acc)
    have hacc : acc ≤ (if acc < g x then g x else acc) := by
      split_ifs with h
      · exact h.le
      · exact le_refl _
    have hx : g x ≤ (if acc < g x then g x else acc) := by
      split_ifs with h
      · exact le_refl _
      · exact not_lt.1 h
    refine ⟨le_trans hacc h1, ?_⟩
    rintro q (rfl | hq)
    · exact le_trans hx h1
    · exact h2 q hq

private theorem pcs_core2 (c : V2 K) (l : List (V2 K)) (hsq : LawfulSqrt sq) :
    (0 ≤ sq (l.foldl (fun acc p =>
        if acc < (c.x - p.x) * (c.x - p.x) + (c.y - p.y) * (c.y - p.y)
        then (c.x - p.x) * (c.x - p.x) + (c.y - p.y) * (c.y - p.y) else acc) 0)) ∧
    ∀ q ∈ l, SMem2 ⟨c, sq (l.foldl (fun acc p =>
        if acc < (c.x - p.x) * (c.x - p.x) + (c.y - p.y) * (c.y - p.y)
        then (c.x - p.x) * (c.x - p.x) + (c.y - p.y) * (c.y - p.y) else acc) 0)⟩ q := by
  obtain ⟨h0, h1⟩ := foldmax_spec2 (fun p : V2 K => (c.x - p.x) * (c.x - p.x) + (c.y - p.y) * (c.y - p.y)) l 0
  refine ⟨hsq.nonneg _ h0, fun q hq => ?_⟩
  simp only [SMem2]
  rw [hsq.sq_mul _ h0]
  have := h1 q hq
  have e : ∀ a b : K, (a - b) * (a - b) = (b - a) * (b - a) := by intros; ring
  rw [e q.x, e q.y]
  exact this

/-- 2-D `point_cloud_bounding_sphere`: non-negative radius, contains every point of the cloud -/
theorem pointCloudSphere2_spec (p0 : V2 K) (ps : List (V2 K)) (hsq : LawfulSqrt sq) :
    letI := fieldNum K sq
    0 ≤ (pointCloudSphere2 p0 ps).radius ∧ ∀ q ∈ p0 :: ps, SMem2 (pointCloudSphere2 p0 ps) q :=
  pcs_core2 sq _ (p0 :: ps) hsq

/-- a disc that contains the generators contains their convex hull -/
theorem hull_in_sphere2 (S : Sphere2 K) (pts : List (V2 K)) (q : V2 K) :
    letI := fieldNum K sq
    (∀ v ∈ pts, SMem2 S v) → hullMem2 pts q → SMem2 S q := by
  intro hpts hh
  have key := C10.hull2_le sq ⟨q.x - S.center.x, q.y - S.center.y⟩
    ((q.x - S.center.x) * S.center.x + (q.y - S.center.y) * S.center.y
      + (S.radius * S.radius + ((q.x - S.center.x) * (q.x - S.center.x) + (q.y - S.center.y) * (q.y - S.center.y))) / 2)
    pts q hh (fun v hv => by
      have h := hpts v hv
      simp only [SMem2] at h
      simp only [V2.dot]
      nlinarith [sq_nonneg ((v.x - S.center.x) - (q.x - S.center.x)), sq_nonneg ((v.y - S.center.y) - (q.y - S.center.y))])
  simp only [V2.dot, SMem2] at key ⊢
  nlinarith [key]

/-! ## the shape descriptors of parry2d -/

def shapeMem2 : BShape2 K → V2 K → Prop
  | .ball r => @Ball.Mem2 K (fieldNum K sq) ⟨r⟩
  | .cuboid he => @Cuboid2.Mem K (fieldNum K sq) ⟨he⟩
  | .capsule a b r => @Capsule2.Mem K (fieldNum K sq) ⟨a, b, r⟩
  | .segment a b => @Segment2.Mem K (fieldNum K sq) ⟨a, b⟩
  | .triangle a b c => @Triangle2.Mem K (fieldNum K sq) ⟨a, b, c⟩
  | .poly pts => @hullMem2 K (fieldNum K sq) pts
  | .halfspace n => @HalfSpace2.Mem K (fieldNum K sq) ⟨n⟩
  | .round inner br => @roundMem2 K (fieldNum K sq) (shapeMem2 inner) br

def shapeOk2 : BShape2 K → Prop
  | .ball r => 0 ≤ r
  | .cuboid _ => True
  | .capsule _ _ r => 0 ≤ r
  | .segment _ _ => True
  | .triangle _ _ _ => True
  | .poly _ => True
  | .halfspace _ => False
  | .round inner br => 0 ≤ br ∧ shapeOk2 inner

private theorem sq_le_abs (x h : K) (h1 : -h ≤ x) (h2 : x ≤ h) : x * x ≤ h * h := by
  nlinarith [mul_nonneg (sub_nonneg.2 h2) (by linarith : (0:K) ≤ x + h)]

/-- **`compute_local_bounding_sphere` (2-D), every convex kind**: non-negative radius, contains the shape. -/
theorem shape2_local_sphere_contains (hsq : LawfulSqrt sq) (rmax : K) :
    letI := fieldNum K sq
    ∀ (s : BShape2 K) (S : Sphere2 K), shapeOk2 s → s.localSphere rmax = some S →
      0 ≤ S.radius ∧ ∀ p, shapeMem2 sq s p → SMem2 S p := by
  intro s
  induction s with
  | ball r =>
    intro S hok h; simp only [BShape2.localSphere, Option.some.injEq] at h; subst h
    refine ⟨hok, fun p hp => ?_⟩
    simp only [shapeMem2, Ball.Mem2, V2.normSq, V2.dot] at hp
    simp only [SMem2, V2.zero, sub_zero]; exact hp
  | cuboid he =>
    intro S _ h; simp only [BShape2.localSphere, Option.some.injEq] at h; subst h
    have hn := ss2 he.x he.y
    refine ⟨hsq.nonneg _ hn, fun p hp => ?_⟩
    obtain ⟨⟨a1, a2⟩, b1, b2⟩ := hp
    simp only [SMem2, V2.zero, sub_zero, V2.norm, V2.normSq, V2.dot, fieldNum_sqrt]
    rw [hsq.sq_mul _ hn]
    have := sq_le_abs _ _ a1 a2; have := sq_le_abs _ _ b1 b2
    linarith
  | capsule a b r =>
    intro S hok h; simp only [BShape2.localSphere, Option.some.injEq] at h; subst h
    have hl : ((mkRat 1 2 : Rat) : K) = 1/2 := by norm_num
    have hn := ss2 (b.x - a.x) (b.y - a.y)
    have hs0 := hsq.nonneg _ hn
    have hs1 := hsq.sq_mul _ hn
    refine ⟨?_, ?_⟩
    · simp only [V2.norm, V2.normSq, V2.dot, V2.sub, fieldNum_sqrt, fieldNum_two]
      have h2 : 0 ≤ sq ((b.x - a.x) * (b.x - a.x) + (b.y - a.y) * (b.y - a.y)) / 2 := by positivity
      exact add_nonneg hok h2
    · rintro p ⟨q, ⟨t, h0, h1, hqe⟩, hd⟩
      rw [hqe] at hd
      simp only [SMem2, V2.center, V2.norm, V2.normSq, V2.dot, V2.add, V2.sub, V2.smul, fieldNum_sqrt, fieldNum_two, fieldNum_lit, hl] at hd ⊢
      set n := sq ((b.x - a.x) * (b.x - a.x) + (b.y - a.y) * (b.y - a.y)) with hn_def
      have ht : (t - 1/2) * (t - 1/2) ≤ 1/4 := by nlinarith
      have hV : ((t - 1/2) * (b.x - a.x)) * ((t - 1/2) * (b.x - a.x)) + ((t - 1/2) * (b.y - a.y)) * ((t - 1/2) * (b.y - a.y))
          ≤ (n / 2) * (n / 2) := by
        have : (n / 2) * (n / 2) = 1/4 * ((b.x - a.x) * (b.x - a.x) + (b.y - a.y) * (b.y - a.y)) := by rw [← hs1]; ring
        rw [this]
        nlinarith [mul_le_mul_of_nonneg_right ht hn]
      have := tri_ineq2 _ _ _ _ r (n / 2) hok (by positivity) hd hV
      convert this using 2 <;> ring
  | segment a b =>
    intro S _ h; simp only [BShape2.localSphere, Option.some.injEq] at h; subst h
    obtain ⟨hr, hpts⟩ := pointCloudSphere2_spec sq a [b] hsq
    refine ⟨hr, ?_⟩
    rintro p ⟨t, h0, h1, rfl⟩
    have hA := hpts a (by simp); have hB := hpts b (by simp)
    simp only [SMem2, V2.add, V2.sub, V2.smul] at hA hB ⊢
    generalize (@pointCloudSphere2 K (fieldNum K sq) a [b]).center = ce at hA hB ⊢
    generalize (@pointCloudSphere2 K (fieldNum K sq) a [b]).radius = ra at hA hB ⊢
    have := ball_convex2 (a.x - ce.x) (a.y - ce.y) (b.x - ce.x) (b.y - ce.y) (a.x - ce.x) (a.y - ce.y) (ra * ra) t 0 h0 (le_refl _)
      (by linarith) hA hB hA
    convert this using 2 <;> ring
  | triangle a b c =>
    intro S _ h; simp only [BShape2.localSphere, Option.some.injEq] at h; subst h
    obtain ⟨hr, hpts⟩ := pointCloudSphere2_spec sq a [b, c] hsq
    refine ⟨hr, ?_⟩
    rintro p ⟨u, v, hu, hv, huv, rfl⟩
    have hA := hpts a (by simp); have hB := hpts b (by simp); have hC := hpts c (by simp)
    simp only [SMem2, V2.add, V2.sub, V2.smul] at hA hB hC ⊢
    generalize (@pointCloudSphere2 K (fieldNum K sq) a [b, c]).center = ce at hA hB hC ⊢
    generalize (@pointCloudSphere2 K (fieldNum K sq) a [b, c]).radius = ra at hA hB hC ⊢
    have := ball_convex2 (a.x - ce.x) (a.y - ce.y) (b.x - ce.x) (b.y - ce.y) (c.x - ce.x) (c.y - ce.y) (ra * ra) u v hu hv huv hA hB hC
    convert this using 2 <;> ring
  | poly pts =>
    intro S _ h
    cases pts with
    | nil => simp [BShape2.localSphere] at h
    | cons p0 ps =>
      simp only [BShape2.localSphere, Option.some.injEq] at h; subst h
      obtain ⟨hr, hpts⟩ := pointCloudSphere2_spec sq p0 ps hsq
      exact ⟨hr, fun p hp => hull_in_sphere2 sq _ (p0 :: ps) p hpts hp⟩
  | halfspace n => intro S hok; exact absurd hok id
  | round inner br ih =>
    intro S hok h
    simp only [BShape2.localSphere, Option.map_eq_some_iff] at h
    obtain ⟨S', hS', rfl⟩ := h
    obtain ⟨hr, hin⟩ := ih S' hok.2 hS'
    refine ⟨add_nonneg hr hok.1, ?_⟩
    rintro p ⟨q, hqm, hd⟩
    have hq' := hin q hqm
    simp only [SMem2, V2.normSq, V2.dot, V2.sub] at hq' hd ⊢
    have := tri_ineq2 _ _ _ _ _ _ hr hok.1 hq' hd
    convert this using 2 <;> ring

/-- **`Shape::compute_bounding_sphere(pos)` (2-D), every convex kind** -/
theorem shape2_sphere_contains (hsq : LawfulSqrt sq) (rmax : K) (m : Iso2 K) (hq : m.re * m.re + m.im * m.im = 1)
    (s : BShape2 K) (S : Sphere2 K) (hok : shapeOk2 s) :
    letI := fieldNum K sq
    s.sphere rmax m = some S → ∀ p, shapeMem2 sq s p → SMem2 S (m.act p) := by
  intro h p hp
  simp only [BShape2.sphere, Option.map_eq_some_iff] at h
  obtain ⟨S', hS', rfl⟩ := h
  exact (sphere2_transformBy_contains sq S' m p hq).2 ((shape2_local_sphere_contains sq hsq rmax s S' hok hS').2 p hp)

/-! ## boxes -/

private theorem coord2_le (dx dy r : K) (hr : 0 ≤ r) (h : dx * dx + dy * dy ≤ r * r) : (-r ≤ dx ∧ dx ≤ r) ∧ (-r ≤ dy ∧ dy ≤ r) := by
  have sx := mul_self_nonneg dx; have sy := mul_self_nonneg dy
  exact ⟨abs_le.1 (abs_le_of_sq_le_sq' (by nlinarith) hr |> abs_le.2), abs_le.1 (abs_le_of_sq_le_sq' (by nlinarith) hr |> abs_le.2)⟩

private theorem conv3' (a b c u v lo hi : K) (hu : 0 ≤ u) (hv : 0 ≤ v) (huv : u + v ≤ 1)
    (ha : lo ≤ a ∧ a ≤ hi) (hb : lo ≤ b ∧ b ≤ hi) (hc : lo ≤ c ∧ c ≤ hi) :
    lo ≤ a + (b - a) * u + (c - a) * v ∧ a + (b - a) * u + (c - a) * v ≤ hi := by
  have hw : 0 ≤ 1 - u - v := by linarith
  constructor
  · nlinarith [mul_nonneg hw (sub_nonneg.2 ha.1), mul_nonneg hu (sub_nonneg.2 hb.1), mul_nonneg hv (sub_nonneg.2 hc.1)]
  · nlinarith [mul_nonneg hw (sub_nonneg.2 ha.2), mul_nonneg hu (sub_nonneg.2 hb.2), mul_nonneg hv (sub_nonneg.2 hc.2)]

private theorem lin2 (r1 r2 d1 d2 h1 h2 : K) (e1 : -h1 ≤ d1 ∧ d1 ≤ h1) (e2 : -h2 ≤ d2 ∧ d2 ≤ h2) :
    -(|r1| * h1 + |r2| * h2) ≤ r1 * d1 + r2 * d2 ∧ r1 * d1 + r2 * d2 ≤ |r1| * h1 + |r2| * h2 := by
  have a1 : |r1 * d1| ≤ |r1| * h1 := by rw [abs_mul]; exact mul_le_mul_of_nonneg_left (abs_le.2 e1) (abs_nonneg _)
  have a2 : |r2 * d2| ≤ |r2| * h2 := by rw [abs_mul]; exact mul_le_mul_of_nonneg_left (abs_le.2 e2) (abs_nonneg _)
  rw [abs_le] at a1 a2
  constructor <;> linarith [a1.1, a1.2, a2.1, a2.2]

/-- **`Shape::compute_aabb(pos)` (2-D), every convex kind** -/
theorem shape2_aabb_contains (hsq : LawfulSqrt sq) (hm : K) (m : Iso2 K) (hq : m.re * m.re + m.im * m.im = 1) :
    letI := fieldNum K sq
    ∀ (s : BShape2 K) (B : Aabb2 K), shapeOk2 s → s.aabb hm m = some B → ∀ p, shapeMem2 sq s p → BMem2 B (m.act p) := by
  intro s
  induction s with
  | ball r =>
    intro B hok h p hp; simp only [BShape2.aabb, Option.some.injEq] at h; subst h
    have hd := act_dist2 sq m p (@V2.zero K (fieldNum K sq)) hq
    simp only [shapeMem2, Ball.Mem2, V2.normSq, V2.dot] at hp
    simp only [Iso2.act, Iso2.rot, V2.add, V2.sub, V2.normSq, V2.dot, V2.zero, mul_zero, sub_zero, add_zero, zero_add] at hd
    have hh : (m.re * p.x - m.im * p.y) * (m.re * p.x - m.im * p.y) + (m.im * p.x + m.re * p.y) * (m.im * p.x + m.re * p.y) ≤ r * r := by
      have : (m.re * p.x - m.im * p.y) * (m.re * p.x - m.im * p.y) + (m.im * p.x + m.re * p.y) * (m.im * p.x + m.re * p.y)
          = p.x * p.x + p.y * p.y := by linear_combination (p.x * p.x + p.y * p.y) * hq
      rw [this]; exact hp
    obtain ⟨⟨x1, x2⟩, y1, y2⟩ := coord2_le _ _ r hok hh
    simp only [ballAabb2, BMem2, Iso2.act, Iso2.rot, V2.add]
    refine ⟨⟨?_, ?_⟩, ?_, ?_⟩ <;> linarith
  | cuboid he =>
    intro B _ h p hp; simp only [BShape2.aabb, Option.some.injEq] at h; subst h
    obtain ⟨e1, e2⟩ := hp
    have bx := lin2 m.re (-m.im) p.x p.y he.x he.y e1 e2
    have by' := lin2 m.im m.re p.x p.y he.x he.y e1 e2
    simp only [cuboidAabb2, Aabb2.fromHalfExtents, Iso2.absTransform, BMem2, Iso2.act, Iso2.rot, V2.add, V2.sub, fieldNum_nabs]
    refine ⟨⟨?_, ?_⟩, ?_, ?_⟩ <;> linarith [bx.1, bx.2, by'.1, by'.2]
  | capsule a b r =>
    intro B hok h p hp; simp only [BShape2.aabb, Option.some.injEq] at h; subst h
    obtain ⟨q, hqs, hd⟩ := hp
    obtain ⟨t, t0, t1, hQ⟩ := act_segment2 sq m a b q hqs
    have hdist := act_dist2 sq m p q hq
    simp only [V2.normSq, V2.dot, V2.sub] at hd hdist
    obtain ⟨⟨x1, x2⟩, y1, y2⟩ := coord2_le _ _ r hok (by rw [hdist]; exact hd)
    simp only [capsuleAabb2, capsuleLocalAabb2, BMem2, V2.inf, V2.sup, V2.sub, V2.add, fieldNum_nmin, fieldNum_nmax]
    set A := @Iso2.act K (fieldNum K sq) m a
    set B := @Iso2.act K (fieldNum K sq) m b
    set Q := @Iso2.act K (fieldNum K sq) m q
    set P := @Iso2.act K (fieldNum K sq) m p
    have between : ∀ u v : K, min u v ≤ u + (v - u) * t ∧ u + (v - u) * t ≤ max u v := by
      intro u v
      rcases le_total u v with h | h
      · rw [min_eq_left h, max_eq_right h]; constructor <;> nlinarith
      · rw [min_eq_right h, max_eq_left h]; constructor <;> nlinarith
    have ex : Q.x = A.x + (B.x - A.x) * t := by rw [hQ]; simp only [V2.add, V2.sub, V2.smul]
    have ey : Q.y = A.y + (B.y - A.y) * t := by rw [hQ]; simp only [V2.add, V2.sub, V2.smul]
    have mx := between A.x B.x; rw [← ex] at mx
    have my := between A.y B.y; rw [← ey] at my
    refine ⟨⟨?_, ?_⟩, ?_, ?_⟩ <;> linarith [mx.1, mx.2, my.1, my.2]
  | segment a b =>
    intro B _ h p hp; simp only [BShape2.aabb, Option.some.injEq] at h; subst h
    exact (segment_aabb2_contains_tight sq a b m).1 p hp
  | triangle a b c =>
    intro B _ h p hp; simp only [BShape2.aabb, Option.some.injEq] at h; subst h
    obtain ⟨u, v, hu, hv, huv, rfl⟩ := hp
    have e : @Iso2.act K (fieldNum K sq) m (@V2.add K (fieldNum K sq) (@V2.add K (fieldNum K sq) a (@V2.smul K (fieldNum K sq) (@V2.sub K (fieldNum K sq) b a) u))
        (@V2.smul K (fieldNum K sq) (@V2.sub K (fieldNum K sq) c a) v)) =
        ⟨(@Iso2.act K (fieldNum K sq) m a).x + ((@Iso2.act K (fieldNum K sq) m b).x - (@Iso2.act K (fieldNum K sq) m a).x) * u
          + ((@Iso2.act K (fieldNum K sq) m c).x - (@Iso2.act K (fieldNum K sq) m a).x) * v,
         (@Iso2.act K (fieldNum K sq) m a).y + ((@Iso2.act K (fieldNum K sq) m b).y - (@Iso2.act K (fieldNum K sq) m a).y) * u
          + ((@Iso2.act K (fieldNum K sq) m c).y - (@Iso2.act K (fieldNum K sq) m a).y) * v⟩ := by
      simp only [Iso2.act, Iso2.rot, V2.add, V2.sub, V2.smul, V2.mk.injEq]
      constructor <;> ring
    rw [e]
    simp only [triangleAabb2, triangleLocalAabb2, BMem2, fieldNum_nmin, fieldNum_nmax]
    refine ⟨conv3' _ _ _ u v _ _ hu hv huv ?_ ?_ ?_, conv3' _ _ _ u v _ _ hu hv huv ?_ ?_ ?_⟩ <;>
      simp only [min_le_iff, le_max_iff, le_refl, true_or, or_true, and_self]
  | poly pts =>
    intro B _ h p hp
    cases pts with
    | nil => simp [BShape2.aabb] at h
    | cons p0 ps =>
      simp only [BShape2.aabb, Option.some.injEq] at h; subst h
      exact polygon_aabb_contains sq m p0 ps p hp
  | halfspace n => intro B hok; exact absurd hok id
  | round inner br ih =>
    intro B hok h p hp
    simp only [BShape2.aabb, Option.map_eq_some_iff] at h
    obtain ⟨B', hB', rfl⟩ := h
    obtain ⟨q, hqm, hd⟩ := hp
    refine (round_aabb2_contains_tight sq (fun x => ∃ q, shapeMem2 sq inner q ∧ x = @Iso2.act K (fieldNum K sq) m q) B' br hok.1).1 ?_ _
      ⟨_, ⟨q, hqm, rfl⟩, ?_⟩
    · rintro x ⟨q', hq', rfl⟩; exact ih B' hok.2 hB' q' hq'
    · rw [act_dist2 sq m p q hq]; exact hd

example : shapeOk2 (BShape2.round (BShape2.cuboid (⟨1, 2⟩ : V2 ℚ)) (1/2)) := by simp [shapeOk2]

/-- **`Shape::compute_swept_aabb(start, end)` (2-D), every convex kind**: the swept box exists, contains the shape at
both poses and every straight segment between a point at the start pose and a point at the end pose. -/
theorem shape2_swept_contains (hsq : LawfulSqrt sq) (hm : K) (m1 m2 : Iso2 K)
    (hq1 : m1.re * m1.re + m1.im * m1.im = 1) (hq2 : m2.re * m2.re + m2.im * m2.im = 1)
    (s : BShape2 K) (hok : shapeOk2 s) (b1 b2 : Aabb2 K) :
    letI := fieldNum K sq
    s.aabb hm m1 = some b1 → s.aabb hm m2 = some b2 →
    ∃ b, s.swept hm m1 m2 = some b ∧
      (∀ p, shapeMem2 sq s p → BMem2 b (m1.act p) ∧ BMem2 b (m2.act p)) ∧
      (∀ p1 p2 t, shapeMem2 sq s p1 → shapeMem2 sq s p2 → 0 ≤ t → t ≤ 1 →
        BMem2 b ((m1.act p1).add (((m2.act p2).sub (m1.act p1)).smul t))) := by
  intro e1 e2
  refine ⟨@Aabb2.merged K (fieldNum K sq) b1 b2, by simp only [BShape2.swept, e1, e2], ?_, ?_⟩
  · intro p hp
    obtain ⟨⟨a1, a2⟩, a3, a4⟩ := shape2_aabb_contains sq hsq hm m1 hq1 s b1 hok e1 p hp
    obtain ⟨⟨d1, d2⟩, d3, d4⟩ := shape2_aabb_contains sq hsq hm m2 hq2 s b2 hok e2 p hp
    simp only [Aabb2.merged, V2.inf, V2.sup, BMem2, fieldNum_nmin, fieldNum_nmax, min_le_iff, le_max_iff]
    exact ⟨⟨⟨Or.inl a1, Or.inl a2⟩, Or.inl a3, Or.inl a4⟩, ⟨Or.inr d1, Or.inr d2⟩, Or.inr d3, Or.inr d4⟩
  · intro p1 p2 t hp1 hp2 t0 t1
    obtain ⟨⟨a1, a2⟩, a3, a4⟩ := shape2_aabb_contains sq hsq hm m1 hq1 s b1 hok e1 p1 hp1
    obtain ⟨⟨d1, d2⟩, d3, d4⟩ := shape2_aabb_contains sq hsq hm m2 hq2 s b2 hok e2 p2 hp2
    have s0 : 0 ≤ 1 - t := by linarith
    simp only [Aabb2.merged, V2.inf, V2.sup, BMem2, V2.add, V2.sub, V2.smul, fieldNum_nmin, fieldNum_nmax]
    have lo : ∀ (x y l1 l2 : K), l1 ≤ x → l2 ≤ y → min l1 l2 ≤ x + (y - x) * t := by
      intro x y l1 l2 hx hy
      have h1 := min_le_left l1 l2; have h2 := min_le_right l1 l2
      nlinarith [mul_nonneg t0 (sub_nonneg.2 (le_trans h2 hy)), mul_nonneg s0 (sub_nonneg.2 (le_trans h1 hx))]
    have hi : ∀ (x y u1 u2 : K), x ≤ u1 → y ≤ u2 → x + (y - x) * t ≤ max u1 u2 := by
      intro x y u1 u2 hx hy
      have h1 := le_max_left u1 u2; have h2 := le_max_right u1 u2
      nlinarith [mul_nonneg t0 (sub_nonneg.2 (le_trans hy h2)), mul_nonneg s0 (sub_nonneg.2 (le_trans hx h1))]
    exact ⟨⟨lo _ _ _ _ a1 d1, hi _ _ _ _ a2 d2⟩, lo _ _ _ _ a3 d3, hi _ _ _ _ a4 d4⟩

end C09
