import ParryModel.Field
import ParryModel.C09.Model
import ParryModel.C09.Spec
import ParryModel.C09.Theorems2
import ParryModel.C09.Theorems3
import ParryModel.C09.Theorems4
import ParryModel.C09.Theorems5
/-!
# C09 property theorems: interval enclosures and box algebra, for every linearly ordered field.
Statements only quantify over the model functions of `C09/Model.lean`, instantiated at the lawful
instance `fieldNum K sq`.
-/
namespace C09
open Model

variable {K : Type} [Field K] [LinearOrder K] [IsStrictOrderedRing K] (sq : K → K)


theorem interval_contains_iff (x : Interval K) (u : K) :
    letI := fieldNum K sq
    x.contains u = true ↔ IMem x u := by
  simp [Interval.contains, IMem]

theorem interval_add_contains (x y : Interval K) (u v : K) (hu : IMem x u) (hv : IMem y v) :
    letI := fieldNum K sq
    IMem (x.add y) (u + v) := by
  obtain ⟨h1, h2⟩ := hu; obtain ⟨h3, h4⟩ := hv
  simp only [Interval.add, IMem]; constructor <;> linarith

theorem interval_sub_contains (x y : Interval K) (u v : K) (hu : IMem x u) (hv : IMem y v) :
    letI := fieldNum K sq
    IMem (x.sub y) (u - v) := by
  obtain ⟨h1, h2⟩ := hu; obtain ⟨h3, h4⟩ := hv
  simp only [Interval.sub, IMem]; constructor <;> linarith

theorem interval_neg_contains (x : Interval K) (u : K) (hu : IMem x u) :
    letI := fieldNum K sq
    IMem x.neg (-u) := by
  obtain ⟨h1, h2⟩ := hu
  simp only [Interval.neg, IMem]; constructor <;> linarith

theorem interval_mulS_contains (x : Interval K) (r u : K) (hu : IMem x u) :
    letI := fieldNum K sq
    IMem (x.mulS r) (u * r) := by
  obtain ⟨h1, h2⟩ := hu
  simp only [Interval.mulS, IMem]
  split_ifs with h <;> constructor <;> nlinarith

/-- corrected mixed-sign case: a1<0<a2, b1<0<b2 -/
private theorem mixed (a1 a2 b1 b2 u v : K) (ha1 : a1 < 0) (ha2 : 0 < a2) (hb1 : b1 < 0) (hb2 : 0 < b2)
    (h1 : a1 ≤ u) (h2 : u ≤ a2) (h3 : b1 ≤ v) (h4 : v ≤ b2) :
    min (a1*b2) (a2*b1) ≤ u*v ∧ u*v ≤ max (a1*b1) (a2*b2) := by
  constructor
  · rcases le_total 0 u with hu | hu <;> rcases le_total 0 v with hv | hv
    · exact (min_le_left _ _).trans (by nlinarith [mul_nonneg hu hv])
    · exact (min_le_right _ _).trans (by nlinarith [mul_nonneg (sub_nonneg.2 h2) (sub_nonneg.2 h3), mul_nonneg hu (neg_nonneg.2 hv)])
    · exact (min_le_left _ _).trans (by nlinarith [mul_nonneg (sub_nonneg.2 h1) (sub_nonneg.2 h4), mul_nonneg (neg_nonneg.2 hu) hv])
    · exact (min_le_left _ _).trans (by nlinarith [mul_nonneg (neg_nonneg.2 hu) (neg_nonneg.2 hv)])
  · rcases le_total 0 u with hu | hu <;> rcases le_total 0 v with hv | hv
    · exact le_trans (by nlinarith [mul_nonneg (sub_nonneg.2 h2) hv, mul_nonneg (sub_nonneg.2 h4) ha2.le]) (le_max_right _ _)
    · exact le_trans (by nlinarith [mul_nonneg hu (neg_nonneg.2 hv), mul_pos ha2 hb2]) (le_max_right _ _)
    · exact le_trans (by nlinarith [mul_nonneg (neg_nonneg.2 hu) hv, mul_pos ha2 hb2]) (le_max_right _ _)
    · exact le_trans (by nlinarith [mul_nonneg (sub_nonneg.2 h1) (neg_nonneg.2 hv), mul_nonneg (sub_nonneg.2 h3) (neg_nonneg.2 ha1.le)]) (le_max_left _ _)

/-- **C09 (interval product)**: for all intervals of any sign pattern, `x*y ∋ u*v`. -/
theorem interval_mul_contains (x y : Interval K) (u v : K) (hu : IMem x u) (hv : IMem y v) :
    letI := fieldNum K sq
    IMem (x.mul y) (u * v) := by
  obtain ⟨h1, h2⟩ := hu; obtain ⟨h3, h4⟩ := hv
  simp only [Interval.mul, IMem]
  split_ifs with c1 c2 c3 c4 c5 c6 c7 c8
  · constructor <;> nlinarith
  · constructor <;> nlinarith
  · constructor <;> nlinarith
  · constructor <;> nlinarith
  · push Not at c1 c5
    rw [fieldNum_nmin, fieldNum_nmax]
    exact mixed _ _ _ _ u v c4 c1 c6 c5 h1 h2 h3 h4
  · constructor <;> nlinarith
  · constructor <;> nlinarith
  · constructor <;> nlinarith
  · constructor <;> nlinarith

example : IMem (⟨-1, 10⟩ : Interval ℚ) 10 ∧ IMem (⟨-2, 1⟩ : Interval ℚ) (-2) := by
  unfold IMem; norm_num

theorem interval_enclose_contains (x : Interval K) (t u : K) (hx : x.lo ≤ x.hi) (hu : IMem x u ∨ u = t) :
    letI := fieldNum K sq
    IMem (x.enclose t) u := by
  simp only [Interval.enclose, IMem]
  rcases hu with ⟨h1, h2⟩ | rfl <;> split_ifs with c1 c2 <;> constructor <;> first | linarith | (push Not at *; linarith)

/-- `intersect` is the meet: membership in the result ⇔ membership in both; `none` ⇔ no common point. -/
theorem interval_intersect_spec (x y : Interval K) :
    letI := fieldNum K sq
    match x.intersect y with
    | some r => ∀ u, IMem r u ↔ (IMem x u ∧ IMem y u)
    | none => ∀ u, ¬ (IMem x u ∧ IMem y u) := by
  simp only [Interval.intersect]
  split_ifs with h
  · intro u ⟨⟨a, b⟩, c, d⟩
    rw [fieldNum_nmin, fieldNum_nmax] at h
    have := max_le a c; have := le_min b d; linarith
  · intro u
    simp only [IMem]
    rw [fieldNum_nmin, fieldNum_nmax, max_le_iff, le_min_iff]
    tauto

/-! ## boxes -/


theorem aabb_containsLocalPoint_iff (b : Aabb3 K) (p : V3 K) :
    letI := fieldNum K sq
    b.containsLocalPoint p = true ↔ BMem b p := by
  simp only [Aabb3.containsLocalPoint, BMem, Bool.and_eq_true, Bool.not_eq_true', Bool.or_eq_false_iff,
    decide_eq_false_iff_not, not_lt, and_assoc]

theorem aabb_merged_contains (a b : Aabb3 K) (p : V3 K) (h : BMem a p ∨ BMem b p) :
    letI := fieldNum K sq
    BMem (a.merged b) p := by
  simp only [Aabb3.merged, V3.inf, V3.sup, BMem, fieldNum_nmin, fieldNum_nmax, min_le_iff, le_max_iff]
  rcases h with ⟨⟨h1, h2⟩, ⟨h3, h4⟩, h5, h6⟩ | ⟨⟨h1, h2⟩, ⟨h3, h4⟩, h5, h6⟩ <;> tauto

/-- `merged` is the least box containing both. -/
theorem aabb_merged_least (a b c : Aabb3 K)
    (ha : ∀ p, BMem a p → BMem c p) (hb : ∀ p, BMem b p → BMem c p)
    (hva : BMem a a.mins ∧ BMem a a.maxs) (hvb : BMem b b.mins ∧ BMem b b.maxs) (p : V3 K) :
    letI := fieldNum K sq
    BMem (a.merged b) p → BMem c p := by
  intro hp
  simp only [Aabb3.merged, V3.inf, V3.sup, BMem, fieldNum_nmin, fieldNum_nmax] at hp
  have a1 := ha _ hva.1; have a2 := ha _ hva.2; have b1 := hb _ hvb.1; have b2 := hb _ hvb.2
  simp only [BMem] at a1 a2 b1 b2 ⊢
  obtain ⟨⟨h1, h2⟩, ⟨h3, h4⟩, h5, h6⟩ := hp
  refine ⟨⟨?_, ?_⟩, ⟨?_, ?_⟩, ?_, ?_⟩
  · rcases min_choice a.mins.x b.mins.x with e | e <;> rw [e] at h1 <;> linarith [a1.1.1, b1.1.1]
  · rcases max_choice a.maxs.x b.maxs.x with e | e <;> rw [e] at h2 <;> linarith [a2.1.2, b2.1.2]
  · rcases min_choice a.mins.y b.mins.y with e | e <;> rw [e] at h3 <;> linarith [a1.2.1.1, b1.2.1.1]
  · rcases max_choice a.maxs.y b.maxs.y with e | e <;> rw [e] at h4 <;> linarith [a2.2.1.2, b2.2.1.2]
  · rcases min_choice a.mins.z b.mins.z with e | e <;> rw [e] at h5 <;> linarith [a1.2.2.1, b1.2.2.1]
  · rcases max_choice a.maxs.z b.maxs.z with e | e <;> rw [e] at h6 <;> linarith [a2.2.2.2, b2.2.2.2]

theorem aabb_loosened_contains (a : Aabb3 K) (m : K) (hm : 0 ≤ m) (p : V3 K) (h : BMem a p) :
    letI := fieldNum K sq
    BMem (a.loosened m) p := by
  obtain ⟨⟨h1, h2⟩, ⟨h3, h4⟩, h5, h6⟩ := h
  simp only [Aabb3.loosened, V3.add, BMem]
  refine ⟨⟨?_, ?_⟩, ⟨?_, ?_⟩, ?_, ?_⟩ <;> linarith

/-- `intersection` is the meet; `none` exactly when the boxes share no point. -/
theorem aabb_intersection_spec (a b : Aabb3 K) :
    letI := fieldNum K sq
    match a.intersection b with
    | some r => ∀ p, BMem r p ↔ (BMem a p ∧ BMem b p)
    | none => ∀ p, ¬ (BMem a p ∧ BMem b p) := by
  simp only [Aabb3.intersection, V3.inf, V3.sup, fieldNum_nmin, fieldNum_nmax]
  split_ifs with h1 h2 h3
  · intro p ⟨⟨⟨a1, a2⟩, _⟩, ⟨b1, b2⟩, _⟩
    have := max_le a1 b1; have := le_min a2 b2; linarith
  · intro p ⟨⟨_, ⟨a1, a2⟩, _⟩, _, ⟨b1, b2⟩, _⟩
    have := max_le a1 b1; have := le_min a2 b2; linarith
  · intro p ⟨⟨_, _, a1, a2⟩, _, _, b1, b2⟩
    have := max_le a1 b1; have := le_min a2 b2; linarith
  · intro p
    simp only [BMem, max_le_iff, le_min_iff]
    tauto

/-- `intersects` ⇔ the boxes share a point (for valid boxes). -/
theorem aabb_intersects_iff (a b : Aabb3 K) (ha : BMem a a.mins) (hb : BMem b b.mins) :
    letI := fieldNum K sq
    a.intersects b = true ↔ ∃ p, BMem a p ∧ BMem b p := by
  simp only [Aabb3.intersects, Aabb3.ple, Bool.and_eq_true, decide_eq_true_eq]
  constructor
  · rintro ⟨⟨⟨h1, h2⟩, h3⟩, ⟨h4, h5⟩, h6⟩
    refine ⟨⟨max a.mins.x b.mins.x, max a.mins.y b.mins.y, max a.mins.z b.mins.z⟩, ?_, ?_⟩
    · simp only [BMem, le_max_iff, max_le_iff, le_refl, true_or, true_and]
      exact ⟨⟨ha.1.2, h4⟩, ⟨ha.2.1.2, h5⟩, ha.2.2.2, h6⟩
    · simp only [BMem, le_max_iff, max_le_iff, le_refl, or_true, true_and]
      exact ⟨⟨h1, hb.1.2⟩, ⟨h2, hb.2.1.2⟩, h3, hb.2.2.2⟩
  · rintro ⟨p, ⟨⟨a1, a2⟩, ⟨a3, a4⟩, a5, a6⟩, ⟨b1, b2⟩, ⟨b3, b4⟩, b5, b6⟩
    refine ⟨⟨⟨?_, ?_⟩, ?_⟩, ⟨?_, ?_⟩, ?_⟩ <;> linarith

/-- `contains` ⇔ every point of `b` is a point of `a` (for a valid `b`). -/
theorem aabb_contains_iff (a b : Aabb3 K) (hb : BMem b b.mins ∧ BMem b b.maxs) :
    letI := fieldNum K sq
    a.contains b = true ↔ ∀ p, BMem b p → BMem a p := by
  simp only [Aabb3.contains, Aabb3.ple, Bool.and_eq_true, decide_eq_true_eq]
  constructor
  · rintro ⟨⟨⟨h1, h2⟩, h3⟩, ⟨h4, h5⟩, h6⟩ p ⟨⟨a1, a2⟩, ⟨a3, a4⟩, a5, a6⟩
    refine ⟨⟨?_, ?_⟩, ⟨?_, ?_⟩, ?_, ?_⟩ <;> linarith
  · intro h
    have m := h _ hb.1; have M := h _ hb.2
    exact ⟨⟨⟨m.1.1, m.2.1.1⟩, m.2.2.1⟩, ⟨M.1.2, M.2.1.2⟩, M.2.2.2⟩

private theorem scale1 (lo hi s x : K) (h1 : lo ≤ x) (h2 : x ≤ hi) :
    min (lo * s) (hi * s) ≤ x * s ∧ x * s ≤ max (lo * s) (hi * s) := by
  rcases le_total 0 s with hs | hs
  · exact ⟨(min_le_left _ _).trans (mul_le_mul_of_nonneg_right h1 hs),
           le_trans (mul_le_mul_of_nonneg_right h2 hs) (le_max_right _ _)⟩
  · exact ⟨(min_le_right _ _).trans (mul_le_mul_of_nonpos_right h2 hs),
           le_trans (mul_le_mul_of_nonpos_right h1 hs) (le_max_left _ _)⟩

/-- **C09 (scaling, any sign)**: `scaled` contains `s∘p` for every `p` of the box and every scale vector. -/
theorem aabb_scaled_contains (a : Aabb3 K) (s p : V3 K) (h : BMem a p) :
    letI := fieldNum K sq
    BMem (a.scaled s) (p.cmul s) := by
  obtain ⟨⟨h1, h2⟩, ⟨h3, h4⟩, h5, h6⟩ := h
  simp only [Aabb3.scaled, V3.cmul, V3.inf, V3.sup, BMem, fieldNum_nmin, fieldNum_nmax]
  exact ⟨scale1 _ _ _ _ h1 h2, scale1 _ _ _ _ h3 h4, scale1 _ _ _ _ h5 h6⟩

private theorem lin_bound (r1 r2 r3 d1 d2 d3 h1 h2 h3 : K)
    (e1 : |d1| ≤ h1) (e2 : |d2| ≤ h2) (e3 : |d3| ≤ h3) :
    |r1 * d1 + r2 * d2 + r3 * d3| ≤ |r1| * h1 + |r2| * h2 + |r3| * h3 := by
  have a1 : |r1 * d1| ≤ |r1| * h1 := by rw [abs_mul]; exact mul_le_mul_of_nonneg_left e1 (abs_nonneg _)
  have a2 : |r2 * d2| ≤ |r2| * h2 := by rw [abs_mul]; exact mul_le_mul_of_nonneg_left e2 (abs_nonneg _)
  have a3 : |r3 * d3| ≤ |r3| * h3 := by rw [abs_mul]; exact mul_le_mul_of_nonneg_left e3 (abs_nonneg _)
  calc |r1 * d1 + r2 * d2 + r3 * d3| ≤ |r1 * d1 + r2 * d2| + |r3 * d3| := abs_add_le _ _
    _ ≤ |r1 * d1| + |r2 * d2| + |r3 * d3| := by linarith [abs_add_le (r1 * d1) (r2 * d2)]
    _ ≤ _ := by linarith

private theorem half_bound (lo hi x : K) (h1 : lo ≤ x) (h2 : x ≤ hi) :
    |x - (lo + hi) * (1/2)| ≤ (hi - lo) * (1/2) := by
  rw [abs_le]; constructor <;> linarith

/-- for a unit quaternion the quaternion sandwich equals the rotation matrix of `to_rotation_matrix` -/
theorem rot_eq_mat (m : Iso3 K) (v : V3 K)
    (hq : m.qi * m.qi + m.qj * m.qj + m.qk * m.qk + m.qw * m.qw = 1) :
    letI := fieldNum K sq
    (m.rot v).x = m.mat.1.x * v.x + m.mat.1.y * v.y + m.mat.1.z * v.z ∧
    (m.rot v).y = m.mat.2.1.x * v.x + m.mat.2.1.y * v.y + m.mat.2.1.z * v.z ∧
    (m.rot v).z = m.mat.2.2.x * v.x + m.mat.2.2.y * v.y + m.mat.2.2.z * v.z := by
  simp only [Iso3.rot, Iso3.rotQ, Iso3.qv, Iso3.mat, V3.add, V3.smul, V3.cross, fieldNum_two]
  refine ⟨?_, ?_, ?_⟩
  · linear_combination (-v.x) * hq
  · linear_combination (-v.y) * hq
  · linear_combination (-v.z) * hq

/-- **C09 (box under an isometry)**: for a unit quaternion, `transform_by m` contains `m • p` for every `p` of
the box (the `|R|·half_extents` bound). -/
theorem aabb_transformBy_contains (a : Aabb3 K) (m : Iso3 K) (p : V3 K)
    (hq : m.qi * m.qi + m.qj * m.qj + m.qk * m.qk + m.qw * m.qw = 1) (h : BMem a p) :
    letI := fieldNum K sq
    BMem (a.transformBy m) (m.act p) := by
  obtain ⟨⟨h1, h2⟩, ⟨h3, h4⟩, h5, h6⟩ := h
  have ex := half_bound _ _ _ h1 h2
  have ey := half_bound _ _ _ h3 h4
  have ez := half_bound _ _ _ h5 h6
  obtain ⟨px, py, pz⟩ := rot_eq_mat sq m p hq
  obtain ⟨cx, cy, cz⟩ := rot_eq_mat sq m (@Aabb3.center K (fieldNum K sq) a) hq
  have hl : ((mkRat 1 2 : Rat) : K) = 1/2 := by norm_num
  simp only [Aabb3.transformBy, Iso3.act, V3.add, V3.neg, BMem, px, py, pz, cx, cy, cz]
  simp only [Iso3.absTransform, Aabb3.halfExtents, Aabb3.center, V3.center, V3.add, V3.sub, V3.smul, fieldNum_nabs, fieldNum_lit, hl]
  generalize (@Iso3.mat K (fieldNum K sq) m).1.x = r00; generalize (@Iso3.mat K (fieldNum K sq) m).1.y = r01
  generalize (@Iso3.mat K (fieldNum K sq) m).1.z = r02
  generalize (@Iso3.mat K (fieldNum K sq) m).2.1.x = r10; generalize (@Iso3.mat K (fieldNum K sq) m).2.1.y = r11
  generalize (@Iso3.mat K (fieldNum K sq) m).2.1.z = r12
  generalize (@Iso3.mat K (fieldNum K sq) m).2.2.x = r20; generalize (@Iso3.mat K (fieldNum K sq) m).2.2.y = r21
  generalize (@Iso3.mat K (fieldNum K sq) m).2.2.z = r22
  have bx := lin_bound r00 r01 r02 _ _ _ _ _ _ ex ey ez
  have by' := lin_bound r10 r11 r12 _ _ _ _ _ _ ex ey ez
  have bz := lin_bound r20 r21 r22 _ _ _ _ _ _ ex ey ez
  rw [abs_le] at bx by' bz
  refine ⟨⟨?_, ?_⟩, ⟨?_, ?_⟩, ?_, ?_⟩ <;> linarith [bx.1, bx.2, by'.1, by'.2, bz.1, bz.2]

/-! ## composites under `scaled` (QBVH root box = `Aabb::scaled` of the root box) -/

/-- **`TriMesh::scaled(s).local_aabb()`** (`Qbvh::scaled` replaces the root box by `root.scaled(s)`): for every scale
vector, of any signs, the scaled root box contains `s∘p` for every point `p` of every triangle of the mesh — the
box follows the mirrored vertices. -/
theorem trimesh_scaled_aabb_contains (rmax : K) (vs : List (V3 K)) (idx : List (Nat × Nat × Nat)) (box : Aabb3 K) (s : V3 K) :
    letI := fieldNum K sq
    trimeshLocalAabb3 rmax vs idx = some box →
    ∀ t ∈ idx, ∀ a b c, vs[t.1]? = some a → vs[t.2.1]? = some b → vs[t.2.2]? = some c →
      ∀ p, (Triangle3.mk a b c).Mem p → BMem (box.scaled s) (p.cmul s) :=
  fun h t ht a b c ha hb hc p hp =>
    aabb_scaled_contains sq box s p (trimesh_local_aabb_contains sq rmax vs idx box h t ht a b c ha hb hc p hp)

/-- **`Polyline::scaled(s).local_aabb()`** -/
theorem polyline_scaled_aabb_contains (rmax : K) (vs : List (V3 K)) (idx : List (Nat × Nat)) (box : Aabb3 K) (s : V3 K) :
    letI := fieldNum K sq
    polylineLocalAabb3 rmax vs idx = some box →
    ∀ t ∈ idx, ∀ a b, vs[t.1]? = some a → vs[t.2]? = some b →
      ∀ p, (Segment3.mk a b).Mem p → BMem (box.scaled s) (p.cmul s) :=
  fun h t ht a b ha hb p hp =>
    aabb_scaled_contains sq box s p (polyline_local_aabb_contains sq rmax vs idx box h t ht a b ha hb p hp)

end C09
