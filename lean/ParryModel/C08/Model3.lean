import ParryModel.C08.Model2
/-!
# C08 model, part 3: `Qbvh::traverse_modified_bvtt_with_stack` (traversal.rs)

The per-node step is the one of `traverse_bvtt_with_stack` (`bvttVisit`, `Model.lean`); the only differences are the
root test `qbvh1.nodes[0].is_changed()` and the `if !node1.is_changed() { continue; }` at the top of the loop.
The parallel variants `traverse_bvtt_parallel` / `traverse_bvtt_node_parallel` run the same per-node step on the same
entries in a schedule-dependent order: their visited pair *set* is the one of `traverseBvtt`.
-/
namespace Model
namespace Qbvh
variable {K : Type} [Num K]

/-- the loop of `traverse_modified_bvtt_with_stack`; `none` = index panic or fuel exhausted -/
def bvttModLoop (q1 q2 : Q K) (pos : Option (Iso3 K)) : Nat → List (Nat × Nat) → List (Nat × Nat) → Option (List (Nat × Nat))
  | _, [], out => some out.reverse
  | 0, _ :: _, _ => none
  | fuel + 1, (e1, e2) :: stack, out =>
    match q1.nodes[e1]?, q2.nodes[e2]? with
    | some n1, some _ =>
      if !n1.changed then bvttModLoop q1 q2 pos fuel stack out
      else
        match bvttVisit q1 q2 pos e1 e2 stack out with
        | none => none
        | some r => bvttModLoop q1 q2 pos fuel r.1 r.2
    | _, _ => none

/-- `q1.traverse_modified_bvtt(&q2, &mut BoundingVolumeIntersectionsSimultaneousVisitor::…)` -/
def traverseModifiedBvtt (q1 q2 : Q K) (pos : Option (Iso3 K)) : Option (List (Nat × Nat)) :=
  match q1.nodes[0]? with
  | none => some []
  | some r1 =>
    if q2.nodes.size = 0 || !r1.changed then some []
    else bvttModLoop q1 q2 pos (16 * (q1.nodes.size + 1) * (q2.nodes.size + 1)) [(0, 0)] []

end Qbvh
end Model
