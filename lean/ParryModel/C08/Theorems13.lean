import ParryModel.Field
import ParryModel.C08.Theorems12
/-!
# C08 property theorems, part 13: the exact (run-time) form of the size condition

`u32Guard` (`Theorems10.lean`) is computed from the operation list alone and is therefore coarse (its bound for
`rebalance` quadruples).  `smallRun` is the exact condition: it runs the model and tests the two counts of every state
met.  It is equivalent to `AllSmall` (`smallRun_iff_allSmall`), so for a CONCRETE history the size hypothesis of every
history theorem can be decided by evaluation, however many rebalances it contains.
-/
namespace C08
open Model Model.Qbvh

section structural
variable {K : Type} [Num K]

/-- executable `SmallState` -/
def smallB (q : Q K) : Bool := decide (q.nodes.size + 8 ≤ MAXN) && decide (4 * q.proxies.size + 2 ≤ MAXN)

/-- run the model and test the counts of every state met (a step that fails ends the test: nothing follows it) -/
def smallRun (fixRoot : Bool) : World K → List (Op2 K) → Bool
  | w, [] => smallB w.q
  | w, op :: ops => smallB w.q && (match step2 fixRoot w op with
    | none => true
    | some w' => smallRun fixRoot w' ops)

theorem smallB_iff (q : Q K) : smallB q = true ↔ SmallState q := by
  simp [smallB, SmallState]

/-- **`smallRun` decides `AllSmall`** -/
theorem smallRun_iff_allSmall (fixRoot : Bool) (ops : List (Op2 K)) :
    ∀ w : World K, smallRun fixRoot w ops = true ↔ AllSmall fixRoot w ops := by
  induction ops with
  | nil => intro w; simp only [smallRun, AllSmall]; exact smallB_iff w.q
  | cons op ops ih =>
    intro w
    simp only [smallRun, AllSmall, Bool.and_eq_true, smallB_iff]
    constructor
    · rintro ⟨h1, h2⟩
      refine ⟨h1, ?_⟩
      intro w' hs
      rw [hs] at h2
      exact (ih w').1 h2
    · rintro ⟨h1, h2⟩
      refine ⟨h1, ?_⟩
      cases hs : step2 fixRoot w op with
      | none => rfl
      | some w' => exact (ih w').2 (h2 w' hs)

/-- the coarse guard implies the exact one -/
theorem u32Guard_smallRun (fixRoot : Bool) (ops : List (Op2 K)) (hok : ∀ op ∈ ops, Op2Ok op)
    (hg : u32Guard (0, 0) ops = true) : smallRun fixRoot World.empty ops = true :=
  (smallRun_iff_allSmall fixRoot ops World.empty).2
    (u32Guard_allSmall fixRoot ops World.empty 0 0 inv_empty dataOk_empty hok (by simp [World.empty, Q.empty])
      (by simp [World.empty, Q.empty]) hg)

/-- **the invariant after every finite history whose run stays small** — size condition in decidable form -/
theorem run2_preserves_inv_smallRun (fixRoot : Bool) (ops : List (Op2 K)) (w' : World K)
    (hok : ∀ op ∈ ops, Op2Ok op) (hs : smallRun fixRoot World.empty ops = true)
    (hr : run2 fixRoot World.empty ops = some w') : Inv w'.q ∧ DataOk w'.q :=
  run2_preserves_inv fixRoot ops World.empty w' inv_empty dataOk_empty hok
    ((smallRun_iff_allSmall fixRoot ops World.empty).1 hs) hr

end structural

/-! ## a history the coarse guard rejects and the exact test accepts -/
section examples

/-- `histPark` followed by sixteen refit + rebalance rounds: the coarse running bound exceeds `u32::MAX` … -/
def histMany : List (Op2 ℚ) :=
  histPark ++ (List.replicate 16 [Op2.base (.refit 0), Op2.rebalance 0]).flatten

example : u32Guard (0, 0) histMany = false := by decide +kernel

/-- … while the model run never has more than a handful of nodes -/
example : smallRun true World.empty histMany = true := by decide +kernel

end examples

end C08
