import ParryModel.C08.Model
/-!
# C08: the structural invariant `Inv` and the step lemmas used by `Theorems.lean` (core Lean only).
-/
namespace C08
open Model Model.Qbvh
set_option linter.unusedSectionVars false
variable {K : Type}

/-- a node slot that is not on the free list -/
def Live (q : Q K) (n : Nat) : Prop := n ∉ q.freeList

/-- **The structural invariant** (Prop form of `Model.Qbvh.checkInv`; `check_topology` strengthened).
* `root`   – the root, if any, is a live internal node;
* `child`  – every non-sentinel child of a live internal node is a live non-root node whose parent pointer is that lane;
* `par`    – every live non-root node sits in the lane `plane` of its live internal parent;
* `leafProxy` / `proxyLeaf` – leaf lanes and attached proxies point at each other;
* `depth`  – a rank function exists (parent chains reach the root: no cycles);
* `freeNodup`, `freeBound` – the free list is duplicate-free and holds node indices;
* `small`, `psmall` – node and proxy indices fit `u32` below the sentinel (the `as u32` casts are not modelled). -/
structure Inv (q : Q K) : Prop where
  root : q.nodes.size = 0 ∨ ((∃ r : Node K, q.nodes[0]? = some r ∧ r.leaf = false) ∧ Live q 0)
  child : ∀ (n : Nat) (nd : Node K), q.nodes[n]? = some nd → Live q n → nd.leaf = false →
    ∀ (l c : Nat), nd.children[l]? = some c → c ≠ MAXN →
      c ≠ 0 ∧ Live q c ∧ ∃ cn : Node K, q.nodes[c]? = some cn ∧ cn.parent = n ∧ cn.plane = l
  par : ∀ (n : Nat) (nd : Node K), q.nodes[n]? = some nd → Live q n → n ≠ 0 →
    Live q nd.parent ∧ ∃ pn : Node K, q.nodes[nd.parent]? = some pn ∧ pn.leaf = false ∧ pn.children[nd.plane]? = some n
  leafProxy : ∀ (n : Nat) (nd : Node K), q.nodes[n]? = some nd → Live q n → nd.leaf = true →
    ∀ (l p : Nat), nd.children[l]? = some p → p ≠ MAXN →
      ∃ pr : Proxy, q.proxies[p]? = some pr ∧ pr.node = n ∧ pr.lane = l
  proxyLeaf : ∀ (p : Nat) (pr : Proxy), q.proxies[p]? = some pr → pr.node ≠ MAXN →
    Live q pr.node ∧ ∃ nd : Node K, q.nodes[pr.node]? = some nd ∧ nd.leaf = true ∧ nd.children[pr.lane]? = some p
  depth : ∃ d : Nat → Nat, d 0 = 0 ∧ ∀ (n : Nat) (nd : Node K), q.nodes[n]? = some nd → Live q n → n ≠ 0 →
    d n = d nd.parent + 1
  freeNodup : q.freeList.Nodup
  freeBound : ∀ n ∈ q.freeList, n < q.nodes.size
  small : q.nodes.size ≤ MAXN
  psmall : q.proxies.size ≤ MAXN

/-- two states with the same topology: same free list, same proxy back-references, and node-wise the same
children / parent / leaf flag (boxes, CHANGED, DIRTY, the dirty list, proxy data and the root box may differ) -/
structure TopoEq (q q' : Q K) : Prop where
  free : q'.freeList = q.freeList
  size : q'.nodes.size = q.nodes.size
  node : ∀ (n : Nat) (nd' : Node K), q'.nodes[n]? = some nd' →
    ∃ nd : Node K, q.nodes[n]? = some nd ∧ nd'.children = nd.children ∧ nd'.parent = nd.parent ∧
      nd'.plane = nd.plane ∧ nd'.leaf = nd.leaf
  psize : q'.proxies.size = q.proxies.size
  proxy : ∀ (p : Nat) (pr' : Proxy), q'.proxies[p]? = some pr' →
    ∃ pr : Proxy, q.proxies[p]? = some pr ∧ pr'.node = pr.node ∧ pr'.lane = pr.lane

theorem TopoEq.node' {q q' : Q K} (h : TopoEq q q') (n : Nat) (nd : Node K) (hn : q.nodes[n]? = some nd) :
    ∃ nd' : Node K, q'.nodes[n]? = some nd' ∧ nd'.children = nd.children ∧ nd'.parent = nd.parent ∧
      nd'.plane = nd.plane ∧ nd'.leaf = nd.leaf := by
  have hlt : n < q'.nodes.size := by rw [h.size]; exact (Array.getElem?_eq_some_iff.mp hn).1
  obtain ⟨nd0, h0, h1⟩ := h.node n q'.nodes[n] (by simp [hlt])
  rw [hn] at h0; cases h0
  exact ⟨_, by simp [hlt], h1⟩

theorem TopoEq.proxy' {q q' : Q K} (h : TopoEq q q') (p : Nat) (pr : Proxy) (hp : q.proxies[p]? = some pr) :
    ∃ pr' : Proxy, q'.proxies[p]? = some pr' ∧ pr'.node = pr.node ∧ pr'.lane = pr.lane := by
  have hlt : p < q'.proxies.size := by rw [h.psize]; exact (Array.getElem?_eq_some_iff.mp hp).1
  obtain ⟨pr0, h0, h1⟩ := h.proxy p q'.proxies[p] (by simp [hlt])
  rw [hp] at h0; cases h0
  exact ⟨_, by simp [hlt], h1⟩

/-- `Inv` only looks at the topology -/
theorem Inv.of_topoEq {q q' : Q K} (h : Inv q) (e : TopoEq q q') : Inv q' := by
  have hl : ∀ n, Live q' n ↔ Live q n := by intro n; simp [Live, e.free]
  refine ⟨?_, ?_, ?_, ?_, ?_, ?_, ?_, ?_, ?_, ?_⟩
  · rcases h.root with h0 | ⟨⟨r, hr, hrl⟩, hlive⟩
    · left; rw [e.size]; exact h0
    · right
      obtain ⟨r', hr', _, _, _, hleaf⟩ := e.node' 0 r hr
      exact ⟨⟨r', hr', by rw [hleaf]; exact hrl⟩, (hl 0).2 hlive⟩
  · intro n nd' hn hlive hleaf l c hc hcm
    obtain ⟨nd, hnd, hch, hpa, hpl, hlf⟩ := e.node n nd' hn
    obtain ⟨h1, h2, cn, hcn, h3, h4⟩ := h.child n nd hnd ((hl n).1 hlive) (by rw [← hlf]; exact hleaf) l c (by rw [← hch]; exact hc) hcm
    obtain ⟨cn', hcn', _, hpa', hpl', _⟩ := e.node' c cn hcn
    exact ⟨h1, (hl c).2 h2, cn', hcn', by rw [hpa']; exact h3, by rw [hpl']; exact h4⟩
  · intro n nd' hn hlive hn0
    obtain ⟨nd, hnd, hch, hpa, hpl, hlf⟩ := e.node n nd' hn
    obtain ⟨h1, pn, hpn, h2, h3⟩ := h.par n nd hnd ((hl n).1 hlive) hn0
    obtain ⟨pn', hpn', hch', _, _, hlf'⟩ := e.node' nd.parent pn hpn
    rw [hpa, hpl]
    exact ⟨(hl _).2 h1, pn', hpn', by rw [hlf']; exact h2, by rw [hch']; exact h3⟩
  · intro n nd' hn hlive hleaf l p hc hcm
    obtain ⟨nd, hnd, hch, hpa, hpl, hlf⟩ := e.node n nd' hn
    obtain ⟨pr, hpr, h1, h2⟩ := h.leafProxy n nd hnd ((hl n).1 hlive) (by rw [← hlf]; exact hleaf) l p (by rw [← hch]; exact hc) hcm
    obtain ⟨pr', hpr', h3, h4⟩ := e.proxy' p pr hpr
    exact ⟨pr', hpr', by rw [h3]; exact h1, by rw [h4]; exact h2⟩
  · intro p pr' hp hne
    obtain ⟨pr, hpr, h1, h2⟩ := e.proxy p pr' hp
    obtain ⟨h3, nd, hnd, h4, h5⟩ := h.proxyLeaf p pr hpr (by rw [← h1]; exact hne)
    obtain ⟨nd', hnd', hch', _, _, hlf'⟩ := e.node' pr.node nd hnd
    rw [h1, h2]
    exact ⟨(hl _).2 h3, nd', hnd', by rw [hlf']; exact h4, by rw [hch']; exact h5⟩
  · obtain ⟨d, hd0, hd⟩ := h.depth
    refine ⟨d, hd0, ?_⟩
    intro n nd' hn hlive hn0
    obtain ⟨nd, hnd, hch, hpa, hpl, hlf⟩ := e.node n nd' hn
    rw [hpa]; exact hd n nd hnd ((hl n).1 hlive) hn0
  · rw [e.free]; exact h.freeNodup
  · intro n hn; rw [e.size]; exact h.freeBound n (by rw [← e.free]; exact hn)
  · rw [e.size]; exact h.small
  · rw [e.psize]; exact h.psmall

theorem TopoEq.refl (q : Q K) : TopoEq q q :=
  ⟨rfl, rfl, fun _ nd h => ⟨nd, h, rfl, rfl, rfl, rfl⟩, rfl, fun _ pr h => ⟨pr, h, rfl, rfl⟩⟩

theorem TopoEq.trans {a b c : Q K} (h1 : TopoEq a b) (h2 : TopoEq b c) : TopoEq a c := by
  refine ⟨by rw [h2.free, h1.free], by rw [h2.size, h1.size], ?_, by rw [h2.psize, h1.psize], ?_⟩
  · intro n nd hn
    obtain ⟨x, hx, a1, a2, a3, a4⟩ := h2.node n nd hn
    obtain ⟨y, hy, b1, b2, b3, b4⟩ := h1.node n x hx
    exact ⟨y, hy, a1.trans b1, a2.trans b2, a3.trans b3, a4.trans b4⟩
  · intro p pr hp
    obtain ⟨x, hx, a1, a2⟩ := h2.proxy p pr hp
    obtain ⟨y, hy, b1, b2⟩ := h1.proxy p x hx
    exact ⟨y, hy, a1.trans b1, a2.trans b2⟩

/-- overwriting one node by a node with the same topology fields -/
theorem TopoEq.setNode (q : Q K) (n : Nat) (nd nd' : Node K) (dl : List Nat) (hn : q.nodes[n]? = some nd)
    (h1 : nd'.children = nd.children) (h2 : nd'.parent = nd.parent) (h3 : nd'.plane = nd.plane) (h4 : nd'.leaf = nd.leaf) :
    TopoEq q { q with nodes := q.nodes.setIfInBounds n nd', dirtyNodes := dl } := by
  refine ⟨rfl, by simp, ?_, rfl, fun _ pr h => ⟨pr, h, rfl, rfl⟩⟩
  intro m md hm
  simp only [Array.getElem?_setIfInBounds] at hm
  split at hm
  · rename_i hnm; subst hnm
    split at hm
    · cases hm; exact ⟨nd, hn, h1, h2, h3, h4⟩
    · cases hm
  · exact ⟨md, hm, rfl, rfl, rfl, rfl⟩

variable [Num K]

theorem vec4_lane {α} (v : Vector α 4) (l : Nat) (x : α) (h : v[l]? = some x) : l = 0 ∨ l = 1 ∨ l = 2 ∨ l = 3 := by
  have : l < 4 := by
    by_cases hl : l < 4
    · exact hl
    · rw [Vector.getElem?_eq_none (by omega)] at h; cases h
  omega

theorem inv_ensureRoot (q : Q K) (h : Inv q) : Inv (ensureRoot q) := by
  unfold ensureRoot
  split
  · rename_i h0
    have hfree : q.freeList = [] := by
      cases hf : q.freeList with
      | nil => rfl
      | cons a l => have := h.freeBound a (by simp [hf]); omega
    have hprox : ∀ (p : Nat) (pr : Proxy), q.proxies[p]? = some pr → pr.node = MAXN := by
      intro p pr hp
      by_cases hne : pr.node = MAXN
      · exact hne
      · obtain ⟨_, nd, hnd, _⟩ := h.proxyLeaf p pr hp hne
        have := (Array.getElem?_eq_some_iff.mp hnd).1; omega
    have hcase : ∀ (n : Nat) (nd : Node K), (#[{ (emptyNode : Node K) with children := #v[1, MAXN, MAXN, MAXN] }, emptyLeaf 0 0] : Array (Node K))[n]? = some nd →
        (n = 0 ∧ nd = { (emptyNode : Node K) with children := #v[1, MAXN, MAXN, MAXN] }) ∨ (n = 1 ∧ nd = emptyLeaf 0 0) := by
      intro n nd hn
      have := (Array.getElem?_eq_some_iff.mp hn).1
      have hn' : n = 0 ∨ n = 1 := by simp at this; omega
      rcases hn' with rfl | rfl <;> simp at hn <;> simp [hn]
    refine ⟨?_, ?_, ?_, ?_, ?_, ?_, ?_, ?_, ?_, h.psmall⟩
    · right; simp [Live, hfree, emptyNode]
    · intro n nd hn hlive hleaf l c hc hcm
      rcases hcase n nd hn with ⟨rfl, rfl⟩ | ⟨rfl, rfl⟩
      · rcases vec4_lane _ l c hc with rfl | rfl | rfl | rfl <;> simp at hc <;> subst hc <;>
          simp [MAXN, Live, hfree, emptyLeaf, emptyNode] at *
      · simp [emptyLeaf] at hleaf
    · intro n nd hn hlive hn0
      rcases hcase n nd hn with ⟨rfl, rfl⟩ | ⟨rfl, rfl⟩
      · exact absurd rfl hn0
      · simp [emptyLeaf, emptyNode, Live, hfree]
    · intro n nd hn hlive hleaf l p hc hcm
      rcases hcase n nd hn with ⟨rfl, rfl⟩ | ⟨rfl, rfl⟩
      · simp [emptyNode] at hleaf
      · rcases vec4_lane _ l p hc with rfl | rfl | rfl | rfl <;> simp [emptyLeaf, emptyNode] at hc <;> exact absurd hc.symm hcm
    · intro p pr hp hne; exact absurd (hprox p pr hp) hne
    · refine ⟨fun n => n, rfl, ?_⟩
      intro n nd hn hlive hn0
      rcases hcase n nd hn with ⟨rfl, rfl⟩ | ⟨rfl, rfl⟩
      · exact absurd rfl hn0
      · simp [emptyLeaf]
    · exact h.freeNodup
    · intro n hn; rw [hfree] at hn; cases hn
    · simp [MAXN]
  · exact h

/-- replacing the proxy array by one that agrees on all attached entries -/
theorem inv_proxies (q : Q K) (ps : Array Proxy) (h : Inv q)
    (h1 : ∀ (p : Nat) (pr' : Proxy), ps[p]? = some pr' → pr'.node ≠ MAXN →
      ∃ pr : Proxy, q.proxies[p]? = some pr ∧ pr'.node = pr.node ∧ pr'.lane = pr.lane)
    (h2 : ∀ (p : Nat) (pr : Proxy), q.proxies[p]? = some pr → pr.node ≠ MAXN →
      ∃ pr' : Proxy, ps[p]? = some pr' ∧ pr'.node = pr.node ∧ pr'.lane = pr.lane)
    (h3 : ps.size ≤ MAXN) :
    Inv { q with proxies := ps } := by
  refine ⟨h.root, h.child, h.par, ?_, ?_, h.depth, h.freeNodup, h.freeBound, h.small, h3⟩
  · intro n nd hn hlive hleaf l p hc hcm
    obtain ⟨pr, hpr, e1, e2⟩ := h.leafProxy n nd hn hlive hleaf l p hc hcm
    have hne : pr.node ≠ MAXN := by
      have hlt : n < q.nodes.size := (Array.getElem?_eq_some_iff.mp hn).1
      have := h.small; omega
    obtain ⟨pr', hpr', e3, e4⟩ := h2 p pr hpr hne
    exact ⟨pr', hpr', by rw [e3]; exact e1, by rw [e4]; exact e2⟩
  · intro p pr' hp hne
    obtain ⟨pr, hpr, e1, e2⟩ := h1 p pr' hp hne
    rw [e1, e2]
    exact h.proxyLeaf p pr hpr (by rw [← e1]; exact hne)

theorem inv_ensureProxy (q : Q K) (id : Nat) (h : Inv q) (hid : id < MAXN) : Inv (ensureProxy q id) := by
  unfold ensureProxy
  have key : ∀ ps : Array Proxy, (∀ (p : Nat), p < q.proxies.size → ps[p]? = q.proxies[p]?) →
      (∀ (p : Nat) (pr : Proxy), q.proxies.size ≤ p → ps[p]? = some pr → pr.node = MAXN) →
      ps.size ≤ MAXN →
      Inv (match ps[id]? with
        | some pr => { q with proxies := ps.setIfInBounds id { pr with data := id } }
        | none => { q with proxies := ps }) := by
    intro ps hps hps' hsz
    split
    · rename_i pr hpr
      apply inv_proxies q _ h
      · intro p pr' hp hne
        simp only [Array.getElem?_setIfInBounds] at hp
        by_cases hlt : p < q.proxies.size
        · have := hps p hlt; grind
        · grind
      · intro p pr0 hp hne
        have hlt := (Array.getElem?_eq_some_iff.mp hp).1
        have := hps p hlt
        simp only [Array.getElem?_setIfInBounds]; grind
      · simpa using hsz
    · apply inv_proxies q _ h
      · intro p pr' hp hne
        by_cases hlt : p < q.proxies.size
        · have := hps p hlt; grind
        · grind
      · intro p pr0 hp hne
        have hlt := (Array.getElem?_eq_some_iff.mp hp).1
        have := hps p hlt; grind
      · exact hsz
  apply key
  · intro p hp; split
    · simp [Array.getElem?_append, hp]
    · rfl
  · intro p pr hp hpr; split at hpr
    · simp [Array.getElem?_append, Array.getElem?_replicate] at hpr
      have : ¬ p < q.proxies.size := by omega
      simp [this] at hpr; rw [← hpr.2]; rfl
    · have := (Array.getElem?_eq_some_iff.mp hpr).1; omega
  · have := h.psmall; split
    · simp; omega
    · exact this

theorem inv_addRootLeaf (q : Q K) (root : Node K) (ii : Nat) (h : Inv q) (hroot : q.nodes[0]? = some root)
    (hch : root.children[ii]? = some MAXN) (hsz : q.nodes.size + 1 ≤ MAXN) : Inv (addRootLeaf q root ii) := by
  have hpos : 0 < q.nodes.size := (Array.getElem?_eq_some_iff.mp hroot).1
  have hrootI : root.leaf = false ∧ Live q 0 := by
    rcases h.root with h0 | ⟨⟨r, hr, hrl⟩, hl⟩
    · omega
    · rw [hroot] at hr; cases hr; exact ⟨hrl, hl⟩
  have hnew : Live q q.nodes.size := fun hm => Nat.lt_irrefl _ (h.freeBound _ hm)
  have hii : ii < 4 := by
    rcases vec4_lane _ _ _ hch with rfl | rfl | rfl | rfl <;> omega
  unfold addRootLeaf
  refine ⟨?_, ?_, ?_, ?_, ?_, ?_, ?_, ?_, ?_, h.psmall⟩
  · right; simp [Live] at *; grind
  · have := h.child; simp [Live, emptyLeaf, emptyNode] at *; grind
  · have := h.par; simp [Live, emptyLeaf, emptyNode] at *; grind
  · have := h.leafProxy; simp [Live, emptyLeaf, emptyNode] at *; grind
  · have := h.proxyLeaf; simp [Live, emptyLeaf, emptyNode] at *; grind
  · obtain ⟨d, hd0, hd⟩ := h.depth
    have hz : (0:Nat) ≠ q.nodes.size := by omega
    refine ⟨fun n => if n = q.nodes.size then 1 else d n, by simp [hz, hd0], ?_⟩
    have := h.par
    simp [Live, emptyLeaf, emptyNode] at *; grind
  · exact h.freeNodup
  · have := h.freeBound; simp; grind
  · simp; omega

theorem firstFree_spec (ch : Vector Nat 4) (kk : Nat) (h : firstFree ch = some kk) : ch[kk]? = some MAXN := by
  unfold firstFree at h
  split at h
  · cases h; simp [*]
  · split at h
    · cases h; simp [*]
    · split at h
      · cases h; simp [*]
      · split at h
        · cases h; simp [*]
        · cases h

theorem inv_attachProxy (q : Q K) (id child kk : Nat) (cn : Node K) (pr : Proxy) (h : Inv q)
    (hcn : q.nodes[child]? = some cn) (hleaf : cn.leaf = true) (hlive : Live q child)
    (hkk : cn.children[kk]? = some MAXN) (hpr : q.proxies[id]? = some pr) (hdet : pr.node = MAXN) :
    Inv (attachProxy q id child kk cn) := by
  have hlt : child < q.nodes.size := (Array.getElem?_eq_some_iff.mp hcn).1
  have hne : child ≠ MAXN := by have := h.small; omega
  have hidlt : id < q.proxies.size := (Array.getElem?_eq_some_iff.mp hpr).1
  -- no live leaf lane refers to the detached proxy
  have hnoref : ∀ (n : Nat) (nd : Node K), q.nodes[n]? = some nd → Live q n → nd.leaf = true →
      ∀ l : Nat, nd.children[l]? = some id → id = MAXN := by
    intro n nd hn hl hlf l hc
    by_cases hid : id = MAXN
    · exact hid
    · obtain ⟨pr', hpr', e1, _⟩ := h.leafProxy n nd hn hl hlf l id hc hid
      rw [hpr] at hpr'; cases hpr'
      have := (Array.getElem?_eq_some_iff.mp hn).1; have := h.small; omega
  have hps := h.psmall
  unfold attachProxy
  simp only [hpr]
  refine ⟨?_, ?_, ?_, ?_, ?_, ?_, ?_, ?_, ?_, ?_⟩
  · have := h.root; simp [Live] at *; grind
  · have := h.child; simp [Live] at *; grind
  · have := h.par; simp [Live] at *; grind
  · have := h.leafProxy; simp [Live] at *; grind
  · have := h.proxyLeaf; have := h.leafProxy; simp [Live] at *; grind
  · obtain ⟨d, hd0, hd⟩ := h.depth
    refine ⟨d, hd0, ?_⟩
    simp [Live] at *; grind
  · exact h.freeNodup
  · have := h.freeBound; simp; grind
  · simp; exact h.small
  · simp; exact h.psmall

theorem getElem?_reparent (ns : Array (Node K)) (c L i : Nat) :
    (reparent ns c L)[i]? = if i = c then (ns[i]?).map (fun cn => { cn with parent := L }) else ns[i]? := by
  unfold reparent
  split
  · rename_i cn hcn
    simp only [Array.getElem?_setIfInBounds]
    have := (Array.getElem?_eq_some_iff.mp hcn).1
    grind
  · rename_i hcn
    grind

theorem size_reparent (ns : Array (Node K)) (c L : Nat) : (reparent ns c L).size = ns.size := by
  unfold reparent; split <;> simp

theorem size_splitNodes (q : Q K) (root : Node K) (id : Nat) : (splitNodes q root id).size = q.nodes.size + 2 := by
  unfold splitNodes; simp only; split <;> simp [size_reparent]

/-- the node array after the root split, looked up pointwise -/
theorem getElem?_splitNodes (q : Q K) (root : Node K) (id : Nat) (hroot : q.nodes[0]? = some root)
    (h0 : root.children[0] ≠ 0 ∧ root.children[1] ≠ 0 ∧ root.children[2] ≠ 0 ∧ root.children[3] ≠ 0) (n : Nat) :
    (splitNodes q root id)[n]? =
      if n = 0 then some { root with children := #v[q.nodes.size, q.nodes.size + 1, MAXN, MAXN] }
      else if n = q.nodes.size then some { root with parent := 0, plane := 0 }
      else if n = q.nodes.size + 1 then
        some { (emptyLeaf 0 1 : Node K) with children := #v[id, MAXN, MAXN, MAXN], dirty := true }
      else (q.nodes[n]?).map fun nd =>
        if (n = root.children[0] ∨ n = root.children[1] ∨ n = root.children[2] ∨ n = root.children[3])
        then { nd with parent := q.nodes.size } else nd := by
  have hpos : 0 < q.nodes.size := (Array.getElem?_eq_some_iff.mp hroot).1
  unfold splitNodes
  simp only
  have hget0 : (((reparent (reparent (reparent (reparent q.nodes root.children[0] q.nodes.size) root.children[1] q.nodes.size)
                  root.children[2] q.nodes.size) root.children[3] q.nodes.size).push
                  { root with parent := 0, plane := 0 }).push
                  { (emptyLeaf 0 1 : Node K) with children := #v[id, MAXN, MAXN, MAXN], dirty := true })[0]? = some root := by
    simp only [Array.getElem?_push, Array.size_push, size_reparent, getElem?_reparent]
    grind
  simp only [hget0]
  simp only [Array.getElem?_setIfInBounds, Array.getElem?_push, Array.size_push, size_reparent, getElem?_reparent]
  by_cases hn0 : n = 0
  · subst hn0; simp
  · by_cases hn1 : n = q.nodes.size
    · subst hn1; simp [hn0]; omega
    · by_cases hn2 : n = q.nodes.size + 1
      · subst hn2; simp
      · have e0 : ¬ (0 = n) := fun h => hn0 h.symm
        simp only [hn0, hn1, hn2, e0, if_false]
        cases hq : q.nodes[n]? with
        | none => simp
        | some nd => simp; grind

theorem v4_get (a b c d l x : Nat) :
    (#v[a, b, c, d] : Vector Nat 4)[l]? = some x ↔ (l = 0 ∧ x = a) ∨ (l = 1 ∧ x = b) ∨ (l = 2 ∧ x = c) ∨ (l = 3 ∧ x = d) := by
  constructor
  · intro h
    rcases vec4_lane _ _ _ h with rfl | rfl | rfl | rfl <;> simp at h <;> simp [h]
  · rintro (⟨rfl, rfl⟩ | ⟨rfl, rfl⟩ | ⟨rfl, rfl⟩ | ⟨rfl, rfl⟩) <;> simp

/-- `c` is one of the four children of `root` -/
def IsRootChild (root : Node K) (c : Nat) : Prop :=
  c = root.children[0] ∨ c = root.children[1] ∨ c = root.children[2] ∨ c = root.children[3]

theorem isRootChild_of_get (root : Node K) (l c : Nat) (hc : root.children[l]? = some c) : IsRootChild root c := by
  unfold IsRootChild
  rcases vec4_lane _ _ _ hc with e | e | e | e <;> rw [e] at hc <;> simp at hc <;> omega

theorem get_of_isRootChild (root : Node K) (c : Nat) (h : IsRootChild root c) : ∃ l : Nat, root.children[l]? = some c := by
  rcases h with e | e | e | e
  · exact ⟨0, by simp [e]⟩
  · exact ⟨1, by simp [e]⟩
  · exact ⟨2, by simp [e]⟩
  · exact ⟨3, by simp [e]⟩

/-- the new root, the moved old root and the new leaf after a split -/
def newRoot (q : Q K) (root : Node K) : Node K := { root with children := #v[q.nodes.size, q.nodes.size + 1, MAXN, MAXN] }
def movedRoot (root : Node K) : Node K := { root with parent := 0, plane := 0 }
def splitLeaf (id : Nat) : Node K := { (emptyLeaf 0 1 : Node K) with children := #v[id, MAXN, MAXN, MAXN], dirty := true }

/-- pointwise description of `splitNodes` in a form convenient for case analysis -/
structure SplitView (q : Q K) (root : Node K) (id : Nat) : Prop where
  g0 : (splitNodes q root id)[0]? = some (newRoot q root)
  gL : (splitNodes q root id)[q.nodes.size]? = some (movedRoot root)
  gL1 : (splitNodes q root id)[q.nodes.size + 1]? = some (splitLeaf id)
  gc : ∀ (c : Nat) (cn : Node K), q.nodes[c]? = some cn → c ≠ 0 → IsRootChild root c →
        (splitNodes q root id)[c]? = some { cn with parent := q.nodes.size }
  go : ∀ (c : Nat) (cn : Node K), q.nodes[c]? = some cn → c ≠ 0 → ¬ IsRootChild root c →
        (splitNodes q root id)[c]? = some cn
  inv : ∀ (n : Nat) (nd : Node K), (splitNodes q root id)[n]? = some nd →
        (n = 0 ∧ nd = newRoot q root) ∨ (n = q.nodes.size ∧ nd = movedRoot root) ∨
        (n = q.nodes.size + 1 ∧ nd = splitLeaf id) ∨
        (n ≠ 0 ∧ n < q.nodes.size ∧ ∃ nd0 : Node K, q.nodes[n]? = some nd0 ∧
          ((IsRootChild root n ∧ nd = { nd0 with parent := q.nodes.size }) ∨ (¬ IsRootChild root n ∧ nd = nd0)))

theorem splitView (q : Q K) (root : Node K) (id : Nat) (hroot : q.nodes[0]? = some root)
    (h00 : root.children[0] ≠ 0 ∧ root.children[1] ≠ 0 ∧ root.children[2] ≠ 0 ∧ root.children[3] ≠ 0) :
    SplitView q root id := by
  have hpos : 0 < q.nodes.size := (Array.getElem?_eq_some_iff.mp hroot).1
  have hget := getElem?_splitNodes q root id hroot h00
  refine ⟨?_, ?_, ?_, ?_, ?_, ?_⟩
  · rw [hget]; simp [newRoot]
  · rw [hget]; have : q.nodes.size ≠ 0 := by omega
    simp [this, movedRoot]
  · rw [hget]; simp [splitLeaf]
  · intro c cn hcn hc0 hmem
    have hclt : c < q.nodes.size := (Array.getElem?_eq_some_iff.mp hcn).1
    have e1 : c ≠ q.nodes.size := by omega
    have e2 : c ≠ q.nodes.size + 1 := by omega
    unfold IsRootChild at hmem
    rw [hget]; simp only [hc0, e1, e2, if_false, hcn, Option.map_some, hmem, if_true]
  · intro c cn hcn hc0 hmem
    have hclt : c < q.nodes.size := (Array.getElem?_eq_some_iff.mp hcn).1
    have e1 : c ≠ q.nodes.size := by omega
    have e2 : c ≠ q.nodes.size + 1 := by omega
    unfold IsRootChild at hmem
    rw [hget]; simp only [hc0, e1, e2, if_false, hcn, Option.map_some, hmem]
  · intro n nd hn
    rw [hget] at hn
    split at hn
    · left; cases hn; exact ⟨by assumption, rfl⟩
    · split at hn
      · right; left; cases hn; exact ⟨by assumption, rfl⟩
      · split at hn
        · right; right; left; cases hn; exact ⟨by assumption, rfl⟩
        · right; right; right
          rename_i hn0 hnL hnL1
          cases hq : q.nodes[n]? with
          | none => rw [hq] at hn; cases hn
          | some nd0 =>
            rw [hq] at hn; simp only [Option.map_some] at hn
            have hlt : n < q.nodes.size := (Array.getElem?_eq_some_iff.mp hq).1
            refine ⟨hn0, hlt, nd0, rfl, ?_⟩
            split at hn
            · left; cases hn; exact ⟨by assumption, rfl⟩
            · right; cases hn; exact ⟨by assumption, rfl⟩

attribute [local irreducible] splitNodes

theorem root_facts (q : Q K) (root : Node K) (h : Inv q) (hroot : q.nodes[0]? = some root) :
    root.leaf = false ∧ Live q 0 ∧
    (∀ (l c : Nat), root.children[l]? = some c → c ≠ MAXN →
        c ≠ 0 ∧ Live q c ∧ ∃ cn : Node K, q.nodes[c]? = some cn ∧ cn.parent = 0 ∧ cn.plane = l) ∧
    (root.children[0] ≠ 0 ∧ root.children[1] ≠ 0 ∧ root.children[2] ≠ 0 ∧ root.children[3] ≠ 0) := by
  have hpos : 0 < q.nodes.size := (Array.getElem?_eq_some_iff.mp hroot).1
  obtain ⟨hrleaf, hrlive⟩ : root.leaf = false ∧ Live q 0 := by
    rcases h.root with h0 | ⟨⟨r, hr, hrl⟩, hl⟩
    · omega
    · rw [hroot] at hr; cases hr; exact ⟨hrl, hl⟩
  have hrc := h.child 0 root hroot hrlive hrleaf
  refine ⟨hrleaf, hrlive, hrc, ?_⟩
  have hM : MAXN ≠ 0 := by simp [MAXN]
  refine ⟨?_, ?_, ?_, ?_⟩
  · by_cases e : root.children[0] = MAXN
    · rw [e]; exact hM
    · exact (hrc 0 _ (by simp) e).1
  · by_cases e : root.children[1] = MAXN
    · rw [e]; exact hM
    · exact (hrc 1 _ (by simp) e).1
  · by_cases e : root.children[2] = MAXN
    · rw [e]; exact hM
    · exact (hrc 2 _ (by simp) e).1
  · by_cases e : root.children[3] = MAXN
    · rw [e]; exact hM
    · exact (hrc 3 _ (by simp) e).1

theorem inv_splitRootPinned (q q' : Q K) (id : Nat) (pr : Proxy) (h : Inv q)
    (hpr : q.proxies[id]? = some pr) (hdet : pr.node = MAXN) (hsz : q.nodes.size + 2 ≤ MAXN)
    (hs : splitRootPinned q id = some q') : Inv q' := by
  unfold splitRootPinned at hs
  split at hs
  · cases hs
  · rename_i root hroot
    simp only [hpr] at hs
    cases hs
    have hpos : 0 < q.nodes.size := (Array.getElem?_eq_some_iff.mp hroot).1
    obtain ⟨hrleaf, hrlive, hrc, h00⟩ := root_facts q root h hroot
    have v := splitView q root id hroot h00
    have hL : Live q q.nodes.size := fun hm => Nat.lt_irrefl _ (h.freeBound _ hm)
    have hL1 : Live q (q.nodes.size + 1) := fun hm => by have := h.freeBound _ hm; omega
    have hidlt : id < q.proxies.size := (Array.getElem?_eq_some_iff.mp hpr).1
    have hsmall := h.small
    have hpsmall := h.psmall
    -- a root child is not the root and is live
    have hrcc : ∀ c : Nat, IsRootChild root c → c ≠ MAXN →
        c ≠ 0 ∧ Live q c ∧ ∃ cn : Node K, q.nodes[c]? = some cn ∧ cn.parent = 0 := by
      intro c hc hcm
      obtain ⟨l, hl⟩ := get_of_isRootChild root c hc
      obtain ⟨a, b, cn, hcn, e, _⟩ := hrc l c hl hcm
      exact ⟨a, b, cn, hcn, e⟩
    refine ⟨?_, ?_, ?_, ?_, ?_, ?_, h.freeNodup, ?_, ?_, ?_⟩
    · right; exact ⟨⟨_, v.g0, hrleaf⟩, hrlive⟩
    · -- child
      intro n nd hn hlive hleaf l c hc hcm
      rcases v.inv n nd hn with ⟨e1, e2⟩ | ⟨e1, e2⟩ | ⟨e1, e2⟩ | ⟨hn0, hnlt, nd0, hq, hcase⟩
      · subst e1; subst e2
        rw [newRoot, v4_get] at hc
        rcases hc with ⟨rfl, rfl⟩ | ⟨rfl, rfl⟩ | ⟨rfl, rfl⟩ | ⟨rfl, rfl⟩
        · refine ⟨by omega, hL, movedRoot root, ?_, ?_, ?_⟩
          · exact v.gL
          · rfl
          · rfl
        · refine ⟨by omega, hL1, splitLeaf id, ?_, ?_, ?_⟩
          · exact v.gL1
          · rfl
          · rfl
        · exact absurd rfl hcm
        · exact absurd rfl hcm
      · subst e1; subst e2
        obtain ⟨c0, clive, cn, hcn, cp, cl⟩ := hrc l c hc hcm
        exact ⟨c0, clive, _, v.gc c cn hcn c0 (isRootChild_of_get root l c hc), rfl, cl⟩
      · subst e2; simp [splitLeaf, emptyLeaf] at hleaf
      · have hch : nd.children = nd0.children ∧ nd.leaf = nd0.leaf := by
          rcases hcase with ⟨_, rfl⟩ | ⟨_, rfl⟩ <;> exact ⟨rfl, rfl⟩
        obtain ⟨c0, clive, cn, hcn, cp, cl⟩ := h.child n nd0 hq hlive (by rw [← hch.2]; exact hleaf) l c (by rw [← hch.1]; exact hc) hcm
        have hnr : ¬ IsRootChild root c := by
          intro hmem
          obtain ⟨_, _, cn', hcn', cp'⟩ := hrcc c hmem hcm
          rw [hcn] at hcn'; cases hcn'; omega
        exact ⟨c0, clive, cn, v.go c cn hcn c0 hnr, cp, cl⟩
    · -- par
      intro n nd hn hlive hn0
      rcases v.inv n nd hn with ⟨e1, e2⟩ | ⟨e1, e2⟩ | ⟨e1, e2⟩ | ⟨_, hnlt, nd0, hq, hcase⟩
      · exact absurd e1 hn0
      · subst e1; subst e2
        exact ⟨hrlive, _, v.g0, hrleaf, by simp [movedRoot, newRoot]⟩
      · subst e1; subst e2
        exact ⟨hrlive, _, v.g0, hrleaf, by simp [splitLeaf, emptyLeaf, newRoot]⟩
      · obtain ⟨plive, pn, hpn, pleaf, pch⟩ := h.par n nd0 hq hlive hn0
        rcases hcase with ⟨hrc', rfl⟩ | ⟨hnrc, rfl⟩
        · -- a child of the old root: its parent is now the moved root
          have hnM : n ≠ MAXN := by omega
          obtain ⟨_, _, cn, hcn, cp⟩ := hrcc n hrc' hnM
          rw [hq] at hcn; cases hcn
          rw [cp, hroot] at hpn; cases hpn
          exact ⟨hL, _, v.gL, hrleaf, pch⟩
        · -- any other node keeps its parent, which is not the root
          have hp0 : nd.parent ≠ 0 := by
            intro e
            rw [e, hroot] at hpn; cases hpn
            exact hnrc (isRootChild_of_get _ nd.plane n pch)
          by_cases hprc : IsRootChild root nd.parent
          · exact ⟨plive, _, v.gc _ pn hpn hp0 hprc, pleaf, pch⟩
          · exact ⟨plive, _, v.go _ pn hpn hp0 hprc, pleaf, pch⟩
    · -- leafProxy
      intro n nd hn hlive hleaf l p hc hcm
      rcases v.inv n nd hn with ⟨e1, e2⟩ | ⟨e1, e2⟩ | ⟨e1, e2⟩ | ⟨hn0, hnlt, nd0, hq, hcase⟩
      · subst e2; simp [newRoot, hrleaf] at hleaf
      · subst e2; simp [movedRoot, hrleaf] at hleaf
      · subst e1; subst e2
        rw [splitLeaf, v4_get] at hc
        rcases hc with ⟨rfl, rfl⟩ | ⟨rfl, rfl⟩ | ⟨rfl, rfl⟩ | ⟨rfl, rfl⟩
        · exact ⟨⟨q.nodes.size + 1, 0, pr.data⟩, by simp [hidlt], rfl, rfl⟩
        · exact absurd rfl hcm
        · exact absurd rfl hcm
        · exact absurd rfl hcm
      · have hch : nd.children = nd0.children ∧ nd.leaf = nd0.leaf := by
          rcases hcase with ⟨_, rfl⟩ | ⟨_, rfl⟩ <;> exact ⟨rfl, rfl⟩
        obtain ⟨pr0, hpr0, e1, e2⟩ := h.leafProxy n nd0 hq hlive (by rw [← hch.2]; exact hleaf) l p (by rw [← hch.1]; exact hc) hcm
        have hpid : p ≠ id := by
          intro e; subst e; rw [hpr] at hpr0; cases hpr0; omega
        exact ⟨pr0, by simp only [Array.getElem?_setIfInBounds]; simp [Ne.symm hpid, hpr0], e1, e2⟩
    · -- proxyLeaf
      intro p pr' hp hne
      simp only [Array.getElem?_setIfInBounds] at hp
      by_cases hpid : id = p
      · subst hpid
        simp [hidlt] at hp; subst hp
        exact ⟨hL1, _, v.gL1, rfl, by simp [splitLeaf]⟩
      · simp only [hpid, if_false] at hp
        obtain ⟨plive, nd, hnd, pleaf, pch⟩ := h.proxyLeaf p pr' hp hne
        have hn0 : pr'.node ≠ 0 := by
          intro e; rw [e, hroot] at hnd; cases hnd; rw [hrleaf] at pleaf; cases pleaf
        by_cases hprc : IsRootChild root pr'.node
        · exact ⟨plive, _, v.gc _ nd hnd hn0 hprc, pleaf, pch⟩
        · exact ⟨plive, _, v.go _ nd hnd hn0 hprc, pleaf, pch⟩
    · -- depth
      obtain ⟨d, hd0, hd⟩ := h.depth
      refine ⟨fun n => if n = 0 then 0 else if n = q.nodes.size ∨ n = q.nodes.size + 1 then 1 else d n + 1, by simp, ?_⟩
      intro n nd hn hlive hn0
      rcases v.inv n nd hn with ⟨e1, e2⟩ | ⟨e1, e2⟩ | ⟨e1, e2⟩ | ⟨_, hnlt, nd0, hq, hcase⟩
      · exact absurd e1 hn0
      · subst e1; subst e2; simp [movedRoot, hn0]
      · subst e1; subst e2; simp [splitLeaf, emptyLeaf]
      · have e1 : n ≠ q.nodes.size := by omega
        have e2 : n ≠ q.nodes.size + 1 := by omega
        obtain ⟨plive, pn, hpn, pleaf, pch⟩ := h.par n nd0 hq hlive hn0
        have hdn := hd n nd0 hq hlive hn0
        rcases hcase with ⟨hrc', rfl⟩ | ⟨hnrc, rfl⟩
        · have hnM : n ≠ MAXN := by omega
          obtain ⟨_, _, cn, hcn, cp⟩ := hrcc n hrc' hnM
          rw [hq] at hcn; cases hcn
          have hz : q.nodes.size ≠ 0 := by omega
          simp [hn0, e1, e2, hz]; rw [hdn, cp, hd0]
        · have hp0 : nd.parent ≠ 0 := by
            intro e
            rw [e, hroot] at hpn; cases hpn
            exact hnrc (isRootChild_of_get _ nd.plane n pch)
          have hplt : nd.parent < q.nodes.size := (Array.getElem?_eq_some_iff.mp hpn).1
          have e3 : nd.parent ≠ q.nodes.size := by omega
          have e4 : nd.parent ≠ q.nodes.size + 1 := by omega
          simp [hn0, e1, e2, hp0, e3, e4]; exact hdn
    · intro n hn; have := h.freeBound n hn; simp [size_splitNodes]; omega
    · simp [size_splitNodes]; omega
    · simp; exact h.psmall

theorem topoEq_dirtyList (q : Q K) (dl : List Nat) : TopoEq q { q with dirtyNodes := dl } :=
  ⟨rfl, rfl, fun _ nd h => ⟨nd, h, rfl, rfl, rfl, rfl⟩, rfl, fun _ pr h => ⟨pr, h, rfl, rfl⟩⟩

theorem topoEq_scheduleRoot (wasDirty : Bool) (L : Nat) (q : Q K) : TopoEq q (scheduleRoot wasDirty L q) := by
  unfold scheduleRoot
  split
  · exact topoEq_dirtyList q _
  · split
    · rename_i r hr
      exact TopoEq.setNode q 0 r _ _ hr rfl rfl rfl rfl
    · exact TopoEq.refl q

theorem inv_splitRoot (fixRoot : Bool) (q q' : Q K) (id : Nat) (pr : Proxy) (h : Inv q)
    (hpr : q.proxies[id]? = some pr) (hdet : pr.node = MAXN) (hsz : q.nodes.size + 2 ≤ MAXN)
    (hs : splitRoot fixRoot q id = some q') : Inv q' := by
  unfold splitRoot at hs
  split at hs
  · cases hs
  · rename_i root hroot
    cases hp : splitRootPinned q id with
    | none => rw [hp] at hs; cases hs
    | some q1 =>
      rw [hp] at hs; simp only [Option.map_some] at hs; cases hs
      have h1 := inv_splitRootPinned q q1 id pr h hpr hdet hsz hp
      split
      · exact h1.of_topoEq (topoEq_scheduleRoot _ _ _)
      · exact h1

theorem topoEq_markDirty (q : Q K) (n : Nat) (nd : Node K) (hn : q.nodes[n]? = some nd) : TopoEq q (markDirty q n nd) := by
  unfold markDirty
  exact TopoEq.setNode q n nd _ _ hn rfl rfl rfl rfl

/-- the second-path loop: preserves `Inv`, never panics on an `Inv` state, keeps the proxy table when it falls through -/
theorem inv_attachLoop (id : Nat) (pr : Proxy) (lanes : List Nat) :
    ∀ (q : Q K), Inv q → q.proxies[id]? = some pr → pr.node = MAXN → (∀ l ∈ lanes, l < 4) → 0 < q.nodes.size →
      q.nodes.size + lanes.length ≤ MAXN →
      ∃ (q' : Q K) (b : Bool), attachLoop id lanes q = some (q', b) ∧ Inv q' ∧
        (b = false → q'.proxies = q.proxies) ∧ q'.nodes.size ≤ q.nodes.size + lanes.length := by
  induction lanes with
  | nil => intro q h _ _ _ _ _; exact ⟨q, false, rfl, h, fun _ => rfl, by simp⟩
  | cons ii rest ih =>
    intro q h hpr hdet hl hpos hsz
    have hii : ii < 4 := hl ii (by simp)
    have hl' : ∀ l ∈ rest, l < 4 := fun l hm => hl l (by simp [hm])
    simp only [List.length_cons] at hsz
    obtain ⟨root, hroot⟩ : ∃ root : Node K, q.nodes[0]? = some root := ⟨q.nodes[0], by simp [hpos]⟩
    obtain ⟨hrleaf, hrlive, hrc, h00⟩ := root_facts q root h hroot
    obtain ⟨child0, hchild0⟩ : ∃ c : Nat, root.children[ii]? = some c := ⟨root.children[ii], by simp [hii]⟩
    unfold attachLoop
    simp only [hroot, hchild0]
    by_cases hmiss : child0 = MAXN
    · -- missing child: create it, it has room
      subst hmiss
      simp only [if_true]
      have h1 := inv_addRootLeaf q root ii h hroot hchild0 (by omega)
      have hnew : (addRootLeaf q root ii).nodes[q.nodes.size]? = some (emptyLeaf 0 ii) := by
        unfold addRootLeaf
        simp only [Array.getElem?_setIfInBounds, Array.getElem?_push]
        have : (0:Nat) ≠ q.nodes.size := by omega
        simp [this]
      simp only [hnew]
      have hff : firstFree (emptyLeaf 0 ii : Node K).children = some 0 := by
        simp [firstFree, emptyLeaf, emptyNode]
      have hlf : (emptyLeaf 0 ii : Node K).leaf = true := rfl
      simp only [hlf, hff, Bool.not_true, Bool.false_eq_true, if_false]
      have hprox1 : (addRootLeaf q root ii).proxies[id]? = some pr := hpr
      have hlive1 : Live (addRootLeaf q root ii) q.nodes.size := fun hm => Nat.lt_irrefl _ (h.freeBound _ hm)
      refine ⟨_, true, rfl, ?_, by simp, ?_⟩
      · exact inv_attachProxy _ id q.nodes.size 0 _ pr h1 hnew hlf hlive1 (by simp [emptyLeaf, emptyNode]) hprox1 hdet
      · simp [attachProxy, addRootLeaf]
    · -- existing child
      simp only [hmiss, if_false]
      obtain ⟨c0, clive, cn, hcn, cp, cl⟩ := hrc ii child0 hchild0 hmiss
      simp only [hcn]
      by_cases hleaf : cn.leaf = true
      · simp only [hleaf, Bool.not_true, Bool.false_eq_true, if_false]
        cases hff : firstFree cn.children with
        | none =>
          simp only
          obtain ⟨q', b, e1, e2, e3, e4⟩ := ih q h hpr hdet hl' hpos (by omega)
          exact ⟨q', b, e1, e2, e3, by simp; omega⟩
        | some kk =>
          simp only
          refine ⟨_, true, rfl, ?_, by simp, ?_⟩
          · exact inv_attachProxy q id child0 kk cn pr h hcn hleaf clive (firstFree_spec _ _ hff) hpr hdet
          · simp [attachProxy]
      · have hleaf' : cn.leaf = false := by cases hc : cn.leaf <;> simp_all
        simp only [hleaf', Bool.not_false, if_true]
        obtain ⟨q', b, e1, e2, e3, e4⟩ := ih q h hpr hdet hl' hpos (by omega)
        exact ⟨q', b, e1, e2, e3, by simp; omega⟩

theorem ensureRoot_size (q : Q K) : 0 < (ensureRoot q).nodes.size ∧ (ensureRoot q).nodes.size ≤ q.nodes.size + 2 := by
  unfold ensureRoot; split
  · simp
  · constructor <;> omega

theorem ensureProxy_nodes (q : Q K) (id : Nat) : (ensureProxy q id).nodes = q.nodes := by
  unfold ensureProxy; simp only; split <;> rfl

theorem ensureProxy_get (q : Q K) (id : Nat) : ∃ pr : Proxy, (ensureProxy q id).proxies[id]? = some pr := by
  unfold ensureProxy
  simp only
  split
  · rename_i pr hpr
    have := (Array.getElem?_eq_some_iff.mp hpr).1
    exact ⟨⟨pr.node, pr.lane, id⟩, by simp [this]⟩
  · rename_i hnone
    exfalso
    split at hnone
    · rename_i hle
      simp [Array.getElem?_append, Array.getElem?_replicate] at hnone
      have e1 : ¬ id < q.proxies.size := by omega
      have e2 : id - q.proxies.size < id + 1 - q.proxies.size := by omega
      simp [e1, e2] at hnone
    · simp at hnone; omega

theorem attachLoop_size_mono (id : Nat) (lanes : List Nat) :
    ∀ (q q' : Q K) (b : Bool), attachLoop id lanes q = some (q', b) → q.nodes.size ≤ q'.nodes.size := by
  induction lanes with
  | nil => intro q q' b h; simp [attachLoop] at h; rw [← h.1]; exact Nat.le_refl _
  | cons ii rest ih =>
    intro q q' b h
    unfold attachLoop at h
    split at h
    · cases h
    · split at h
      · cases h
      · rename_i _ root hroot _ child0 hchild0
        have hq1 : q.nodes.size ≤ (if child0 = MAXN then addRootLeaf q root ii else q).nodes.size := by
          split
          · simp [addRootLeaf]
          · exact Nat.le_refl _
        simp only at h
        split at h
        · cases h
        · split at h
          · exact Nat.le_trans hq1 (ih _ _ _ h)
          · split at h
            · exact Nat.le_trans hq1 (ih _ _ _ h)
            · cases h
              simp only [attachProxy, Array.size_setIfInBounds]
              exact hq1

theorem splitRoot_some (fixRoot : Bool) (q : Q K) (id : Nat) (hpos : 0 < q.nodes.size) :
    ∃ q' : Q K, splitRoot fixRoot q id = some q' ∧ q'.nodes.size = q.nodes.size + 2 := by
  obtain ⟨root, hroot⟩ : ∃ root : Node K, q.nodes[0]? = some root := ⟨q.nodes[0], by simp [hpos]⟩
  unfold splitRoot splitRootPinned
  simp only [hroot, Option.map_some]
  refine ⟨_, rfl, ?_⟩
  split
  · unfold scheduleRoot
    split
    · simp [size_splitNodes]
    · split <;> simp [size_splitNodes]
  · simp [size_splitNodes]

/-- **`pre_update_or_insert` preserves the invariant and does not panic**, all three paths. -/
theorem inv_preUpdateOrInsert (fixRoot : Bool) (q : Q K) (id : Nat) (h : Inv q) (hid : id < MAXN)
    (hsz : q.nodes.size + 8 ≤ MAXN) :
    ∃ q' : Q K, preUpdateOrInsert fixRoot q id = some q' ∧ Inv q' ∧ q'.nodes.size ≤ q.nodes.size + 8 := by
  have h1 : Inv (ensureProxy (ensureRoot q) id) := inv_ensureProxy _ id (inv_ensureRoot q h) hid
  obtain ⟨hpos, hle⟩ := ensureRoot_size q
  have hnodes := ensureProxy_nodes (ensureRoot q) id
  obtain ⟨pr, hpr⟩ := ensureProxy_get (ensureRoot q) id
  unfold preUpdateOrInsert
  simp only [hpr]
  by_cases hdet : pr.node = MAXN
  · simp only [hdet, if_true]
    obtain ⟨q2, b, e1, e2, e3, e4⟩ := inv_attachLoop id pr [0, 1, 2, 3] _ h1 hpr hdet (by simp)
      (by rw [hnodes]; exact hpos) (by rw [hnodes]; simp; omega)
    have e5 := attachLoop_size_mono id _ _ _ _ e1
    rw [hnodes] at e4 e5; simp at e4
    rw [e1]
    cases b with
    | true => exact ⟨q2, rfl, e2, by omega⟩
    | false =>
      simp only
      have hpr2 : q2.proxies[id]? = some pr := by rw [e3 rfl]; exact hpr
      obtain ⟨q3, hs, hs2⟩ := splitRoot_some fixRoot q2 id (by omega)
      exact ⟨q3, hs, inv_splitRoot fixRoot q2 q3 id pr e2 hpr2 hdet (by omega) hs, by omega⟩
  · simp only [hdet, if_false]
    obtain ⟨plive, nd, hnd, _, _⟩ := h1.proxyLeaf id pr hpr hdet
    simp only [hnd]
    split
    · exact ⟨_, rfl, h1, by rw [hnodes]; omega⟩
    · exact ⟨_, rfl, h1.of_topoEq (topoEq_markDirty _ _ _ hnd), by simp [markDirty, hnodes]; omega⟩

theorem inv_empty : Inv (Q.empty : Q K) := by
  refine ⟨Or.inl rfl, ?_, ?_, ?_, ?_, ⟨fun _ => 0, rfl, ?_⟩, List.nodup_nil, ?_, by simp [Q.empty], by simp [Q.empty]⟩
  all_goals (intros; simp [Q.empty] at *)

/-- `remove` never panics on an `Inv` state and preserves `Inv` -/
theorem inv_remove (q : Q K) (id : Nat) (h : Inv q) :
    ∃ (q' : Q K) (b : Bool), remove q id = some (q', b) ∧ Inv q' ∧ q'.nodes.size = q.nodes.size := by
  unfold remove
  split
  · exact ⟨q, false, rfl, h, rfl⟩
  · rename_i pr hpr
    split
    · exact ⟨q, false, rfl, h, rfl⟩
    · rename_i nd hnd
      have hlt : pr.node < q.nodes.size := (Array.getElem?_eq_some_iff.mp hnd).1
      have hne : pr.node ≠ MAXN := by have := h.small; omega
      obtain ⟨hlive, nd', hnd', hleaf, hback⟩ := h.proxyLeaf id pr hpr hne
      rw [hnd] at hnd'; cases hnd'
      have hl : pr.lane < 4 := by rcases vec4_lane _ _ _ hback with e | e | e | e <;> omega
      simp only [hl, if_true]
      refine ⟨_, true, rfl, ?_, by simp⟩
      refine ⟨?_, ?_, ?_, ?_, ?_, ?_, h.freeNodup, ?_, ?_, ?_⟩
      · have := h.root; simp [Live] at *; grind
      · have := h.child; simp [Live] at *; grind
      · have := h.par; simp [Live] at *; grind
      · have := h.leafProxy; simp [Live] at *; grind
      · have := h.proxyLeaf; have := h.leafProxy; simp [Live, invalidProxy] at *; grind
      · obtain ⟨d, hd0, hd⟩ := h.depth
        refine ⟨d, hd0, ?_⟩
        simp [Live] at *; grind
      · have := h.freeBound; simp; exact this
      · have := h.small; simp; exact this
      · have := h.psmall; simp; exact this

/-! ### refit only touches boxes and flags -/

theorem topoEq_flagParent (q : Q K) (p : Nat) (parents : List Nat) : TopoEq q (flagParent q p parents).1 := by
  unfold flagParent
  split
  · rename_i pn hpn
    split
    · exact TopoEq.setNode _ _ pn _ _ hpn rfl rfl rfl rfl
    · exact TopoEq.refl q
  · exact TopoEq.refl q

theorem topoEq_refitNode (cur : Nat → Aabb3 K) (margin : K) (first : Bool) (st : Q K × List Nat × Nat) (id : Nat) :
    TopoEq st.1 (refitNode cur margin first st id).1 := by
  obtain ⟨q, parents, num⟩ := st
  unfold refitNode
  simp only
  split
  · exact TopoEq.refl q
  · rename_i nd hnd
    split
    · have e1 := TopoEq.setNode q id nd
          ({ nd with dirty := false, changed := true, boxes := (freshBoxes q cur nd).map (loosenBox margin) } : Node K)
          q.dirtyNodes hnd rfl rfl rfl rfl
      exact e1.trans (topoEq_flagParent _ _ _)
    · exact TopoEq.setNode q id nd _ q.dirtyNodes hnd rfl rfl rfl rfl

theorem topoEq_foldl_refitNode (cur : Nat → Aabb3 K) (margin : K) (first : Bool) (l : List Nat) :
    ∀ st : Q K × List Nat × Nat, TopoEq st.1 (l.foldl (refitNode cur margin first) st).1 := by
  induction l with
  | nil => intro st; exact TopoEq.refl _
  | cons a l ih => intro st; exact (topoEq_refitNode cur margin first st a).trans (ih _)

theorem topoEq_refitRound (cur : Nat → Aabb3 K) (margin : K) (first : Bool) (q : Q K) (num : Nat) :
    TopoEq q (refitRound cur margin first q num).1 := by
  unfold refitRound
  exact ((topoEq_dirtyList q []).trans (topoEq_foldl_refitNode cur margin first q.dirtyNodes ({ q with dirtyNodes := [] }, [], num))).trans (topoEq_dirtyList _ _)

theorem topoEq_refitLoop (cur : Nat → Aabb3 K) (margin : K) (fuel : Nat) :
    ∀ (first : Bool) (q : Q K) (num : Nat) (r : Q K × Nat), refitLoop cur margin fuel first q num = some r → TopoEq q r.1 := by
  induction fuel with
  | zero =>
    intro first q num r h
    unfold refitLoop at h
    split at h
    · cases h; exact TopoEq.refl q
    · cases h
  | succ fuel ih =>
    intro first q num r h
    unfold refitLoop at h
    split at h
    · cases h; exact TopoEq.refl q
    · exact (topoEq_refitRound cur margin first q num).trans (ih _ _ _ _ h)

@[simp] theorem syncRootAabb_nodes (q : Q K) : (syncRootAabb q).nodes = q.nodes := by
  unfold syncRootAabb; split <;> rfl
@[simp] theorem syncRootAabb_proxies (q : Q K) : (syncRootAabb q).proxies = q.proxies := by
  unfold syncRootAabb; split <;> rfl
@[simp] theorem syncRootAabb_dirtyNodes (q : Q K) : (syncRootAabb q).dirtyNodes = q.dirtyNodes := by
  unfold syncRootAabb; split <;> rfl
@[simp] theorem syncRootAabb_freeList (q : Q K) : (syncRootAabb q).freeList = q.freeList := by
  unfold syncRootAabb; split <;> rfl

theorem topoEq_syncRootAabb (q : Q K) : TopoEq q (syncRootAabb q) :=
  ⟨by simp, by simp, fun _ nd h => ⟨nd, by simpa using h, rfl, rfl, rfl, rfl⟩, by simp,
    fun _ pr h => ⟨pr, by simpa using h, rfl, rfl⟩⟩

/-- `refit` = the pinned loops followed by `syncRootAabb` -/
theorem refit_eq (q : Q K) (cur : Nat → Aabb3 K) (margin : K) (r : Q K × Nat) (h : refit q cur margin = some r) :
    ∃ r0 : Q K × Nat, refitLoop cur margin (q.nodes.size + 2) true q 0 = some r0 ∧ r = (syncRootAabb r0.1, r0.2) := by
  unfold refit refitPinned at h
  cases h0 : refitLoop cur margin (q.nodes.size + 2) true q 0 with
  | none => rw [h0] at h; cases h
  | some r0 => rw [h0] at h; cases h; exact ⟨r0, rfl, rfl⟩

theorem topoEq_refit (q : Q K) (cur : Nat → Aabb3 K) (margin : K) (r : Q K × Nat) (h : refit q cur margin = some r) :
    TopoEq q r.1 := by
  obtain ⟨r0, h0, rfl⟩ := refit_eq q cur margin r h
  exact (topoEq_refitLoop cur margin _ _ _ _ _ h0).trans (topoEq_syncRootAabb _)

theorem all_range_iff (n : Nat) (f : Nat → Bool) : (List.range n).all f = true ↔ ∀ i, i < n → f i = true := by
  simp [List.all_eq_true, List.mem_range]

theorem isLive_iff (q : Q K) (n : Nat) : isLive q n = true ↔ Live q n := by
  simp [isLive, Live]

theorem climb_mono (q : Q K) : ∀ (f m k : Nat), climb q f m = some k → climb q (f + 1) m = some k := by
  intro f
  induction f with
  | zero =>
    intro m k h
    cases m with
    | zero => simp [climb] at h ⊢; exact h
    | succ m => simp [climb] at h
  | succ f ih =>
    intro m k h
    cases m with
    | zero => simp [climb] at h ⊢; exact h
    | succ m =>
      simp only [climb] at h ⊢
      cases hn : q.nodes[m + 1]? with
      | none => rw [hn] at h; cases h
      | some nd =>
        rw [hn] at h
        simp only at h ⊢
        cases hc : climb q f nd.parent with
        | none => rw [hc] at h; cases h
        | some j => rw [hc] at h; rw [ih _ _ hc]; exact h

theorem checkFree_nodup : ∀ l : List Nat, checkFree l = true → l.Nodup := by
  intro l
  induction l with
  | nil => intro _; exact List.nodup_nil
  | cons x xs ih =>
    intro h
    simp only [checkFree, Bool.and_eq_true, Bool.not_eq_true', List.contains_eq_mem, decide_eq_false_iff_not] at h
    exact List.nodup_cons.2 ⟨h.1, ih h.2⟩

/-- **the executable check is sound**: a state accepted by `checkInv` (what the oracle evaluates on every dumped Rust
state) satisfies the invariant `Inv` the theorems are about -/
theorem checkInv_sound (q : Q K) (h : checkInv q = true) : Inv q := by
  simp only [checkInv, Bool.and_eq_true, decide_eq_true_eq] at h
  obtain ⟨⟨⟨⟨⟨⟨⟨⟨⟨hroot, hchild⟩, hpar⟩, hlp⟩, hpl⟩, hdepth⟩, hfree⟩, hfb⟩, hsmall⟩, hpsmall⟩ := h
  refine ⟨?_, ?_, ?_, ?_, ?_, ?_, checkFree_nodup _ hfree, ?_, hsmall, hpsmall⟩
  · -- root
    simp only [checkRoot, Bool.or_eq_true, Bool.and_eq_true, beq_iff_eq] at hroot
    rcases hroot with h0 | ⟨h1, h2⟩
    · exact Or.inl h0
    · right
      cases hq : q.nodes[0]? with
      | none => rw [hq] at h1; cases h1
      | some r => rw [hq] at h1; exact ⟨⟨r, rfl, by simpa using h1⟩, (isLive_iff q 0).1 h2⟩
  · -- child
    intro n nd hn hlive hleaf l c hc hcm
    have hlt := (Array.getElem?_eq_some_iff.mp hn).1
    have := (all_range_iff _ _).1 hchild n hlt
    simp only [hn, Bool.or_eq_true, Bool.not_eq_true'] at this
    rcases this with (hl | hl) | hl
    · exact absurd ((isLive_iff q n).2 hlive) (by simp [hl])
    · rw [hleaf] at hl; cases hl
    · have hl4 : l < 4 := by rcases vec4_lane _ _ _ hc with e | e | e | e <;> omega
      have := (all_range_iff _ _).1 hl l hl4
      simp only [hc, Bool.or_eq_true, beq_iff_eq, Bool.and_eq_true, bne_iff_ne] at this
      rcases this with e | ⟨⟨c0, cl⟩, hcn⟩
      · exact absurd e hcm
      · cases hq : q.nodes[c]? with
        | none => rw [hq] at hcn; cases hcn
        | some cn =>
          rw [hq] at hcn
          simp only [Bool.and_eq_true, beq_iff_eq] at hcn
          exact ⟨c0, (isLive_iff q c).1 cl, cn, rfl, hcn.1, hcn.2⟩
  · -- par
    intro n nd hn hlive hn0
    have hlt := (Array.getElem?_eq_some_iff.mp hn).1
    have := (all_range_iff _ _).1 hpar n hlt
    simp only [hn, Bool.or_eq_true, Bool.not_eq_true', beq_iff_eq, Bool.and_eq_true] at this
    rcases this with (hl | hl) | ⟨pl, hpn⟩
    · exact absurd ((isLive_iff q n).2 hlive) (by simp [hl])
    · exact absurd hl hn0
    · cases hq : q.nodes[nd.parent]? with
      | none => rw [hq] at hpn; cases hpn
      | some pn =>
        rw [hq] at hpn
        simp only [Bool.and_eq_true, Bool.not_eq_true', beq_iff_eq] at hpn
        exact ⟨(isLive_iff q _).1 pl, pn, rfl, hpn.1, hpn.2⟩
  · -- leafProxy
    intro n nd hn hlive hleaf l p hc hcm
    have hlt := (Array.getElem?_eq_some_iff.mp hn).1
    have := (all_range_iff _ _).1 hlp n hlt
    simp only [hn, Bool.or_eq_true, Bool.not_eq_true'] at this
    rcases this with (hl | hl) | hl
    · exact absurd ((isLive_iff q n).2 hlive) (by simp [hl])
    · rw [hleaf] at hl; cases hl
    · have hl4 : l < 4 := by rcases vec4_lane _ _ _ hc with e | e | e | e <;> omega
      have := (all_range_iff _ _).1 hl l hl4
      simp only [hc, Bool.or_eq_true, beq_iff_eq] at this
      rcases this with e | hpr
      · exact absurd e hcm
      · cases hq : q.proxies[p]? with
        | none => rw [hq] at hpr; cases hpr
        | some pr =>
          rw [hq] at hpr
          simp only [Bool.and_eq_true, beq_iff_eq] at hpr
          exact ⟨pr, rfl, hpr.1, hpr.2⟩
  · -- proxyLeaf
    intro p pr hp hne
    have hlt := (Array.getElem?_eq_some_iff.mp hp).1
    have := (all_range_iff _ _).1 hpl p hlt
    simp only [hp, Bool.or_eq_true, beq_iff_eq, Bool.and_eq_true] at this
    rcases this with e | ⟨pl, hnd⟩
    · exact absurd e hne
    · cases hq : q.nodes[pr.node]? with
      | none => rw [hq] at hnd; cases hnd
      | some nd =>
        rw [hq] at hnd
        simp only [Bool.and_eq_true, beq_iff_eq] at hnd
        exact ⟨(isLive_iff q _).1 pl, nd, rfl, hnd.1, hnd.2⟩
  · -- depth
    refine ⟨fun n => (climb q q.nodes.size n).getD 0, by cases hs : q.nodes.size <;> simp [climb], ?_⟩
    intro n nd hn hlive hn0
    have hlt := (Array.getElem?_eq_some_iff.mp hn).1
    have := (all_range_iff _ _).1 hdepth n hlt
    simp only [Bool.or_eq_true, Bool.not_eq_true'] at this
    rcases this with hl | hsome
    · exact absurd ((isLive_iff q n).2 hlive) (by simp [hl])
    · obtain ⟨m, rfl⟩ : ∃ m, n = m + 1 := ⟨n - 1, by omega⟩
      obtain ⟨f, hf⟩ : ∃ f, q.nodes.size = f + 1 := ⟨q.nodes.size - 1, by omega⟩
      rw [hf] at hsome ⊢
      simp only [climb, hn] at hsome ⊢
      cases hc : climb q f nd.parent with
      | none => rw [hc] at hsome; simp at hsome
      | some j =>
        rw [climb_mono q f _ j hc]
        simp
  · -- freeBound
    intro n hn
    simp only [checkFreeBound, List.all_eq_true, decide_eq_true_eq] at hfb
    exact hfb n hn

end C08
