import ParryModel.C08.TravLemmas
import ParryModel.C08.OnceLemmas
/-!
# C08: the maintainers' validator `Qbvh::check_topology` accepts every state satisfying the invariants
-/
namespace C08
open Model Model.Qbvh
set_option linter.unusedSectionVars false
set_option linter.unusedVariables false
set_option linter.unusedSimpArgs false
variable {K : Type} [Num K]

/-- "if this node is changed, its parent is changed too" (an `assert!` of `check_topology`; an invariant of `refit`,
which sets CHANGED on a node and queues its parent, and of `rebalance` / `clear_and_rebuild`, which write fresh nodes) -/
def ChangedUp (q : Q K) : Prop :=
  ∀ (n : Nat) (nd pn : Node K), q.nodes[n]? = some nd → Live q n → n ≠ 0 → nd.changed = true →
    q.nodes[nd.parent]? = some pn → pn.changed = true

/-- executable form of `ChangedUp` -/
def checkChangedUp (q : Q K) : Bool :=
  (List.range q.nodes.size).all fun n =>
    match q.nodes[n]? with
    | none => true
    | some nd =>
      !isLive q n || n == 0 || !nd.changed ||
        match q.nodes[nd.parent]? with
        | some pn => pn.changed
        | none => true

theorem checkChangedUp_sound (q : Q K) (h : checkChangedUp q = true) : ChangedUp q := by
  intro n nd pn hn hl h0 hc hpn
  unfold checkChangedUp at h
  rw [all_range_iff] at h
  have := h n (Array.getElem?_eq_some_iff.mp hn).1
  simp only [hn, hpn, Bool.or_eq_true, Bool.not_eq_true', beq_iff_eq] at this
  rcases this with ((hl' | h0') | hc') | hp
  · have := (isLive_iff q n).2 hl; simp [hl'] at this
  · exact absurd h0' h0
  · simp [hc] at hc'
  · exact hp

/-- a live node lies below the root -/
theorem anc_root {q : Q K} (hinv : Inv q) {d : Nat → Nat} (hd : IsDepth q d) :
    ∀ (k n : Nat), d n = k → Live q n → (∃ nd : Node K, q.nodes[n]? = some nd) → Anc q 0 n := by
  intro k
  induction k with
  | zero =>
    intro n hk hl ⟨nd, hn⟩
    by_cases h0 : n = 0
    · subst h0; exact Anc.refl
    · have := hd.2 n nd hn hl h0; omega
  | succ k ih =>
    intro n hk hl ⟨nd, hn⟩
    by_cases h0 : n = 0
    · subst h0; exact Anc.refl
    · have hdn := hd.2 n nd hn hl h0
      obtain ⟨pl, pn, hpn, _, _⟩ := hinv.par n nd hn hl h0
      exact Anc.up n nd hn hl h0 (ih nd.parent (by omega) pl ⟨pn, hpn⟩)

/-- a proper descendant lies below a child -/
theorem Anc.below_child {q : Q K} {s n : Nat} (h : Anc q s n) (hne : n ≠ s) : ∃ c, IsChild q s c ∧ Anc q c n := by
  induction h with
  | refl => exact absurd rfl hne
  | up n nd hn hl hn0 h' ih =>
    by_cases e : nd.parent = s
    · exact ⟨n, ⟨nd, hn, e, hl, hn0⟩, Anc.refl⟩
    · obtain ⟨c, hc, ha⟩ := ih e
      exact ⟨c, hc, Anc.up n nd hn hl hn0 ha⟩

/-- what `ctPush` pushes for lane `l` -/
def ctLane (nd : Node K) (l : Nat) : Option Nat :=
  match nd.children[l]? with
  | some c => if c = MAXN then none else some c
  | none => none

theorem ctPush_eq (nd : Node K) (stack : List Nat) : ctPush nd stack = (lanes4.filterMap (ctLane nd)).reverse ++ stack := by
  rw [← foldl_push_spec]
  unfold ctPush
  congr 1
  funext st l
  unfold ctLane
  cases hc : nd.children[l]? with
  | none => rfl
  | some c => by_cases e : c = MAXN <;> simp [e]

/-- the leaf-lane loop marks exactly the proxies of the lanes it walks through, and no assertion fails -/
theorem ctLeafLanes_spec {q : Q K} (hinv : Inv q) (cur : Nat → Aabb3 K) (aabbs : Bool) (id : Nat) (nd : Node K)
    (hnd : q.nodes[id]? = some nd) (hlive : Live q id) (hleaf : nd.leaf = true)
    (hbox : aabbs = true → GoodNode q cur nd) :
    ∀ (ls : List Nat), ls.Nodup → (∀ l ∈ ls, l < 4) → ∀ (pf : Array Bool), pf.size = q.proxies.size →
      (∀ l ∈ ls, ∀ p : Nat, nd.children[l]? = some p → p ≠ MAXN → pf[p]? = some false) →
      ∃ pf' : Array Bool, ctLeafLanes q cur aabbs id nd ls pf = some pf' ∧ pf'.size = q.proxies.size ∧
        ∀ x : Nat, pf'[x]? = some true ↔ (pf[x]? = some true ∨ ∃ l ∈ ls, nd.children[l]? = some x ∧ x ≠ MAXN) := by
  intro ls
  induction ls with
  | nil => intro _ _ pf hs _; exact ⟨pf, rfl, hs, by simp⟩
  | cons l ls ih =>
    intro hnodup hl4 pf hs hfresh
    have hl : l < 4 := hl4 l (by simp)
    have hc : nd.children[l]? = some nd.children[l] := by simp [hl]
    generalize nd.children[l] = p at hc
    have hnd' := List.nodup_cons.1 hnodup
    simp only [ctLeafLanes, hc]
    by_cases hpm : p = MAXN
    · simp only [hpm, if_true]
      obtain ⟨pf', e1, e2, e3⟩ := ih hnd'.2 (fun x hx => hl4 x (by simp [hx])) pf hs
        (fun l' hl' => hfresh l' (by simp [hl']))
      refine ⟨pf', e1, e2, fun x => ?_⟩
      rw [e3 x]
      constructor
      · rintro (h | ⟨l', hl', h1, h2⟩)
        · exact Or.inl h
        · exact Or.inr ⟨l', by simp [hl'], h1, h2⟩
      · rintro (h | ⟨l', hl', h1, h2⟩)
        · exact Or.inl h
        · rcases List.mem_cons.1 hl' with rfl | hl''
          · rw [hc] at h1; cases h1; exact absurd hpm h2
          · exact Or.inr ⟨l', hl'', h1, h2⟩
    · simp only [hpm, if_false]
      have hpf := hfresh l (by simp) p hc hpm
      obtain ⟨pr, hpr, hnode, hlane⟩ := hinv.leafProxy id nd hnd hlive hleaf l p hc hpm
      have hb : nd.boxes[l]? = some nd.boxes[l] := by simp [hl]
      simp only [hpf, hpr, hb]
      have hcont : aabbs = true → boxContains nd.boxes[l] (cur pr.data) = true := by
        intro ha
        have hf := fresh_leaf_lane q cur nd l p hleaf hc
        rw [hpr] at hf
        exact containsAll_lane _ _ (hbox ha) l _ _ hb hf
      have c1 : (aabbs && !(boxContains nd.boxes[l] (cur pr.data))) = false := by
        cases aabbs with
        | false => rfl
        | true => simp [hcont rfl]
      have c2 : (!(pr.node == id && pr.lane == l)) = false := by simp [hnode, hlane]
      simp only [c1, c2, Bool.false_eq_true, if_false]
      have hplt : p < pf.size := by
        rw [hs]; exact (Array.getElem?_eq_some_iff.mp hpr).1
      obtain ⟨pf', e1, e2, e3⟩ := ih hnd'.2 (fun x hx => hl4 x (by simp [hx])) (pf.setIfInBounds p true) (by simpa using hs)
        (fun l' hl' p' hc' hpm' => by
          have hne : p' ≠ p := by
            intro e; subst e
            obtain ⟨pr', hpr', _, hlane'⟩ := hinv.leafProxy id nd hnd hlive hleaf l' p' hc' hpm'
            rw [hpr] at hpr'; cases hpr'
            exact hnd'.1 (by rw [← hlane, hlane']; exact hl')
          rw [Array.getElem?_setIfInBounds]
          rw [if_neg (Ne.symm hne)]
          exact hfresh l' (by simp [hl']) p' hc' hpm')
      refine ⟨pf', e1, e2, fun x => ?_⟩
      rw [e3 x, Array.getElem?_setIfInBounds]
      constructor
      · rintro (h | ⟨l', hl', h1, h2⟩)
        · split at h
          · rename_i e; subst e
            exact Or.inr ⟨l, by simp, hc, hpm⟩
          · exact Or.inl h
        · exact Or.inr ⟨l', by simp [hl'], h1, h2⟩
      · rintro (h | ⟨l', hl', h1, h2⟩)
        · left
          split
          · rename_i e; simp [hplt]
          · exact h
        · rcases List.mem_cons.1 hl' with rfl | hl''
          · rw [hc] at h1; cases h1
            left; simp [hplt]
          · exact Or.inr ⟨l', hl'', h1, h2⟩

/-- the loop invariant of `check_topology` -/
structure CtInv (q : Q K) (stack done : List Nat) (nf pf : Array Bool) : Prop where
  front : Front q stack done
  nfSize : nf.size = q.nodes.size
  nfMark : ∀ n : Nat, nf[n]? = some true ↔ n ∈ done
  pfSize : pf.size = q.proxies.size
  pfMark : ∀ x : Nat, pf[x]? = some true ↔ ∃ pr : Proxy, q.proxies[x]? = some pr ∧ pr.node ≠ MAXN ∧ pr.node ∈ done
  cover : ∀ n, Anc q 0 n → n ∈ done ∨ ∃ s ∈ stack, Anc q s n

/-- **the loop of `check_topology` runs to completion without a failed `assert!`** and ends with exactly the attached
proxies marked -/
theorem ctLoop_spec {q : Q K} (hinv : Inv q) {d : Nat → Nat} (hd : IsDepth q d) (cur : Nat → Aabb3 K) (aabbs : Bool)
    (hch : ChangedUp q) (hbox : aabbs = true → BoxInv q cur) :
    ∀ (fuel : Nat) (stack done : List Nat) (nf pf : Array Bool), CtInv q stack done nf pf →
      q.nodes.size ≤ fuel + done.length →
      ∃ pf' : Array Bool, ctLoop q cur aabbs fuel stack nf pf = some pf' ∧ pf'.size = q.proxies.size ∧
        ∀ x : Nat, pf'[x]? = some true ↔ ∃ pr : Proxy, q.proxies[x]? = some pr ∧ pr.node ≠ MAXN := by
  intro fuel
  induction fuel with
  | zero =>
    intro stack done nf pf I hfu
    cases stack with
    | nil =>
      refine ⟨pf, rfl, I.pfSize, fun x => ?_⟩
      rw [I.pfMark x]
      constructor
      · rintro ⟨pr, a, b, _⟩; exact ⟨pr, a, b⟩
      · rintro ⟨pr, a, b⟩
        obtain ⟨pl, nd, hnd, _, _⟩ := hinv.proxyLeaf x pr a b
        rcases I.cover pr.node (anc_root hinv hd _ _ rfl pl ⟨nd, hnd⟩) with h | ⟨s, hs, _⟩
        · exact ⟨pr, a, b, h⟩
        · simp at hs
    | cons s st => have := I.front.done_length; omega
  | succ fuel ih =>
    intro stack done nf pf I hfu
    cases stack with
    | nil =>
      refine ⟨pf, rfl, I.pfSize, fun x => ?_⟩
      rw [I.pfMark x]
      constructor
      · rintro ⟨pr, a, b, _⟩; exact ⟨pr, a, b⟩
      · rintro ⟨pr, a, b⟩
        obtain ⟨pl, nd, hnd, _, _⟩ := hinv.proxyLeaf x pr a b
        rcases I.cover pr.node (anc_root hinv hd _ _ rfl pl ⟨nd, hnd⟩) with h | ⟨s, hs, _⟩
        · exact ⟨pr, a, b, h⟩
        · simp at hs
    | cons s st =>
      obtain ⟨slive, slt⟩ := I.front.live s (by simp)
      have hnd : q.nodes[s]? = some q.nodes[s] := by simp [slt]
      generalize q.nodes[s] = nd at hnd
      have hsnd : s ∉ done := I.front.not_done
      have hnf : nf[s]? = some false := by
        have hlt : s < nf.size := by rw [I.nfSize]; exact slt
        have : nf[s]? = some nf[s] := by simp [hlt]
        cases hb : nf[s] with
        | false => rw [this, hb]
        | true => rw [hb] at this; exact absurd ((I.nfMark s).1 this) hsnd
      -- the checks against the parent
      have hpar : (s != 0 && !(ctParentOk q aabbs s nd)) = false := by
        by_cases h0 : s = 0
        · simp [h0]
        · obtain ⟨pl, pn, hpn, pleaf, pch⟩ := hinv.par s nd hnd slive h0
          have hl4 : nd.plane < 4 := by rcases vec4_lane _ _ _ pch with h | h | h | h <;> omega
          have hbx : pn.boxes[nd.plane]? = some pn.boxes[nd.plane] := by simp [hl4]
          have c1 : (!aabbs || boxContains pn.boxes[nd.plane] (mergedBox nd.boxes)) = true := by
            cases ha : aabbs with
            | false => rfl
            | true =>
              have hf := fresh_internal_lane q cur pn nd.plane s pleaf pch
              rw [hnd] at hf
              simp [containsAll_lane _ _ (hbox ha nd.parent pn hpn pl) nd.plane _ _ hbx hf]
          have c2 : (!nd.changed || pn.changed) = true := by
            cases hc : nd.changed with
            | false => rfl
            | true => simp [hch s nd pn hnd slive h0 hc hpn]
          have : ctParentOk q aabbs s nd = true := by
            unfold ctParentOk
            simp only [hpn, pleaf, pch, hbx, Bool.not_false, Bool.true_and, beq_self_eq_true]
            simp [c1, c2]
          simp [this]
      have hfront' : ∀ cs : List Nat, cs.Nodup → (∀ c ∈ cs, IsChild q s c ∧ c < q.nodes.size) → Front q (cs ++ st) (s :: done) :=
        fun cs h1 h2 => I.front.step hd h1 h2
      have hnf' : ∀ n : Nat, (nf.setIfInBounds s true)[n]? = some true ↔ n ∈ s :: done := by
        intro n
        rw [Array.getElem?_setIfInBounds]
        have hlt : s < nf.size := by rw [I.nfSize]; exact slt
        constructor
        · intro h
          split at h
          · rename_i e; subst e; simp
          · exact List.mem_cons_of_mem _ ((I.nfMark n).1 h)
        · intro h
          split
          · simp [hlt]
          · rename_i e
            rcases List.mem_cons.1 h with rfl | h
            · exact absurd rfl e
            · exact (I.nfMark n).2 h
      simp only [ctLoop, hnd, hnf, hpar, Bool.false_eq_true, if_false]
      by_cases hleaf : nd.leaf = true
      · simp only [hleaf, if_true]
        -- not yet marked: the proxies of this leaf are attached to a node that is not done
        have hfresh : ∀ l ∈ lanes4, ∀ p : Nat, nd.children[l]? = some p → p ≠ MAXN → pf[p]? = some false := by
          intro l _ p hc hpm
          obtain ⟨pr, hpr, hnode, _⟩ := hinv.leafProxy s nd hnd slive hleaf l p hc hpm
          have hlt : p < pf.size := by rw [I.pfSize]; exact (Array.getElem?_eq_some_iff.mp hpr).1
          have : pf[p]? = some pf[p] := by simp [hlt]
          cases hb : pf[p] with
          | false => rw [this, hb]
          | true =>
            rw [hb] at this
            obtain ⟨pr', a, _, c⟩ := (I.pfMark p).1 this
            rw [hpr] at a; cases a
            rw [hnode] at c; exact absurd c hsnd
        obtain ⟨pf1, e1, e2, e3⟩ := ctLeafLanes_spec hinv cur aabbs s nd hnd slive hleaf
          (fun ha => hbox ha s nd hnd slive) lanes4 lanes4_nodup (by simp [lanes4]) pf I.pfSize hfresh
        rw [e1]
        have hpop : Front q st (s :: done) := by simpa using hfront' [] List.nodup_nil (by simp)
        refine ih st (s :: done) _ pf1 ⟨hpop, by simpa using I.nfSize, hnf', e2, ?_, ?_⟩ (by simp only [List.length_cons]; omega)
        · intro x
          rw [e3 x, I.pfMark x]
          constructor
          · rintro (⟨pr, a, b, c⟩ | ⟨l, hl, hc, hxm⟩)
            · exact ⟨pr, a, b, List.mem_cons_of_mem _ c⟩
            · obtain ⟨pr, hpr, hnode, _⟩ := hinv.leafProxy s nd hnd slive hleaf l x hc hxm
              refine ⟨pr, hpr, ?_, by rw [hnode]; simp⟩
              rw [hnode]; have := hinv.small; omega
          · rintro ⟨pr, a, b, c⟩
            rcases List.mem_cons.1 c with e | c
            · right
              obtain ⟨_, nd', hnd', _, hch'⟩ := hinv.proxyLeaf x pr a b
              rw [e, hnd] at hnd'; cases hnd'
              refine ⟨pr.lane, lane_mem4 _ _ _ hch', hch', ?_⟩
              have := (Array.getElem?_eq_some_iff.mp a).1
              have := hinv.psmall
              omega
            · exact Or.inl ⟨pr, a, b, c⟩
        · intro n hn
          rcases I.cover n hn with h | ⟨t, ht, ha⟩
          · exact Or.inl (List.mem_cons_of_mem _ h)
          · rcases List.mem_cons.1 ht with rfl | ht
            · by_cases e : n = t
              · subst e; exact Or.inl (by simp)
              · -- a leaf has no child
                obtain ⟨c, ⟨cn, hcn, hpa, cl, c0⟩, _⟩ := ha.below_child e
                obtain ⟨_, pn, hpn, pleaf, _⟩ := hinv.par c cn hcn cl c0
                rw [hpa, hnd] at hpn; cases hpn
                rw [hleaf] at pleaf; cases pleaf
            · exact Or.inr ⟨t, ht, ha⟩
      · simp only [Bool.not_eq_true] at hleaf
        simp only [hleaf, Bool.false_eq_true, if_false]
        rw [ctPush_eq]
        have hcs := children_filterMap hinv s nd hnd slive hleaf (ctLane nd) (fun l c h => by
          unfold ctLane at h
          cases hc : nd.children[l]? with
          | none => simp [hc] at h
          | some c' =>
            simp only [hc] at h
            split at h
            · cases h
            · rename_i hne; cases h; exact ⟨rfl, hne⟩)
        have f' := hfront' (lanes4.filterMap (ctLane nd)).reverse (List.nodup_reverse.2 hcs.1)
          (fun c hc => hcs.2 c (List.mem_reverse.1 hc))
        refine ih _ (s :: done) _ pf ⟨f', by simpa using I.nfSize, hnf', I.pfSize, ?_, ?_⟩ (by simp only [List.length_cons]; omega)
        · intro x
          rw [I.pfMark x]
          constructor
          · rintro ⟨pr, a, b, c⟩; exact ⟨pr, a, b, List.mem_cons_of_mem _ c⟩
          · rintro ⟨pr, a, b, c⟩
            rcases List.mem_cons.1 c with e | c
            · -- no proxy is attached to an internal node
              obtain ⟨_, nd', hnd', hl', _⟩ := hinv.proxyLeaf x pr a b
              rw [e, hnd] at hnd'; cases hnd'
              rw [hleaf] at hl'; cases hl'
            · exact ⟨pr, a, b, c⟩
        · intro n hn
          rcases I.cover n hn with h | ⟨t, ht, ha⟩
          · exact Or.inl (List.mem_cons_of_mem _ h)
          · rcases List.mem_cons.1 ht with rfl | ht
            · by_cases e : n = t
              · subst e; exact Or.inl (by simp)
              · obtain ⟨c, hc, hac⟩ := ha.below_child e
                refine Or.inr ⟨c, List.mem_append_left _ (List.mem_reverse.2 ?_), hac⟩
                obtain ⟨cn, hcn, hpa, cl, c0⟩ := hc
                obtain ⟨_, pn, hpn, _, pch⟩ := hinv.par c cn hcn cl c0
                rw [hpa, hnd] at hpn; cases hpn
                refine List.mem_filterMap.2 ⟨cn.plane, lane_mem4 _ _ _ pch, ?_⟩
                unfold ctLane
                have hcm : c ≠ MAXN := by
                  have := (Array.getElem?_eq_some_iff.mp hcn).1
                  have := hinv.small
                  omega
                simp [pch, hcm]
            · exact Or.inr ⟨t, List.mem_append_right _ ht, ha⟩

/-- two Boolean arrays / lists with pointwise equal marks have the same count -/
theorem count_eq_of_marks (pf : Array Bool) (ps : Array Proxy) (hs : pf.size = ps.size)
    (h : ∀ x : Nat, pf[x]? = some true ↔ ∃ pr : Proxy, ps[x]? = some pr ∧ pr.node ≠ MAXN) :
    (pf.toList.filter id).length = (ps.toList.filter fun p => p.node != MAXN).length := by
  have e : pf.toList = ps.toList.map fun p => p.node != MAXN := by
    apply List.ext_getElem?
    intro i
    simp only [Array.getElem?_toList, List.getElem?_map]
    by_cases hi : i < ps.size
    · have h1 : ps[i]? = some ps[i] := by simp [hi]
      have h2 : pf[i]? = some pf[i] := by simp [hs, hi]
      rw [h1, h2]
      simp only [Option.map_some, Option.some.injEq]
      cases hb : pf[i] with
      | true =>
        rw [hb] at h2
        obtain ⟨pr, a, b⟩ := (h i).1 h2
        rw [h1] at a; cases a
        simp [b]
      | false =>
        by_cases hn : ps[i].node = MAXN
        · simp [hn]
        · have := (h i).2 ⟨ps[i], h1, hn⟩
          rw [h2, hb] at this; cases this
    · have h1 : ps[i]? = none := Array.getElem?_eq_none (by omega)
      have h2 : pf[i]? = none := Array.getElem?_eq_none (by omega)
      rw [h1, h2]; rfl
  rw [e, List.filter_map, List.length_map]
  rfl

end C08
