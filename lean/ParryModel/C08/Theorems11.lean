import ParryModel.Field
import ParryModel.C08.Theorems7
import ParryModel.C08.Theorems9
import ParryModel.C08.Theorems10
/-!
# C08 property theorems, part 11: the clauses of the property for every REACHABLE state

`Theorems10.lean` replaces the size hypotheses of the history theorems by the computable `u32Guard` of the history.  Here
the remaining clauses — "every live leaf is reachable exactly once", "no removed leaf is reachable", "the simultaneous
traversal terminates and reports each pair once", "all counts fit `u32`" — are stated for every state that a guarded
history of the five operations reaches from the empty tree (not only for abstract states satisfying `Inv`).
-/
namespace C08
open Model Model.Qbvh

section structural
variable {K : Type} [Num K]

/-- along a run all of whose states are small, the final state is small -/
theorem allSmall_final (fixRoot : Bool) (ops : List (Op2 K)) :
    ∀ (w w' : World K), AllSmall fixRoot w ops → run2 fixRoot w ops = some w' → SmallState w'.q := by
  induction ops with
  | nil => intro w w' h hr; simp only [run2] at hr; cases hr; exact h
  | cons op ops ih =>
    intro w w' h hr
    simp only [run2] at hr
    cases hs : step2 fixRoot w op with
    | none => rw [hs] at hr; cases hr
    | some w1 => rw [hs] at hr; exact ih w1 w' (h.2 w1 hs) hr

/-- **the size guard is preserved along the history**: every state reached by a guarded history from the empty tree has
`nodes.len() + 8 ≤ u32::MAX` and `4·proxies.len() + 2 ≤ u32::MAX` — every `as u32` cast of the NEXT operation is exact. -/
theorem reachable_sizes_fit (fixRoot : Bool) (ops : List (Op2 K)) (w' : World K) (hok : ∀ op ∈ ops, Op2Ok op)
    (hg : u32Guard (0, 0) ops = true) (hr : run2 fixRoot World.empty ops = some w') :
    w'.q.nodes.size + 8 ≤ MAXN ∧ 4 * w'.q.proxies.size + 2 ≤ MAXN :=
  allSmall_final fixRoot ops World.empty w'
    (u32Guard_allSmall fixRoot ops World.empty 0 0 inv_empty dataOk_empty hok (by simp [World.empty, Q.empty])
      (by simp [World.empty, Q.empty]) hg) hr

/-- **totality with the guard**: every guarded finite history of the five operations (`rebalance` only called with an
empty `dirty_nodes` list) runs to completion from the empty tree — no index panic, no hang — and ends valid. -/
theorem full_history_total_guarded (fixRoot : Bool) (ops : List (Op2 K)) (hok : ∀ op ∈ ops, Op2Ok op)
    (hwt : WellPlacedT false ops) (hg : u32Guard (0, 0) ops = true) :
    ∃ w' : World K, run2 fixRoot World.empty ops = some w' ∧ Inv w'.q ∧ DataOk w'.q := by
  obtain ⟨w', hr, h, hd, _⟩ := full_history_total fixRoot ops false World.empty inv_empty dataOk_empty aux2_empty
    (fun hf => by cases hf) hok hwt
    (u32Guard_allSmall fixRoot ops World.empty 0 0 inv_empty dataOk_empty hok (by simp [World.empty, Q.empty])
      (by simp [World.empty, Q.empty]) hg)
  exact ⟨w', hr, h, hd⟩

/-- **every live leaf exactly once, in every reachable state**: in the state reached by ANY guarded history of the five
operations from the empty tree (refit or not), the depth-first collection of the leaves below the root has no
repetition, contains only attached proxies (no removed leaf is reachable) and contains every attached proxy. -/
theorem reachable_leaves_exactly_once (fixRoot : Bool) (ops : List (Op2 K)) (w' : World K) (hok : ∀ op ∈ ops, Op2Ok op)
    (hg : u32Guard (0, 0) ops = true) (hr : run2 fixRoot World.empty ops = some w') :
    (∀ fuel, (collect w'.q fuel 0).Nodup) ∧
    (∀ fuel p, p ∈ collect w'.q fuel 0 → ∃ pr : Proxy, w'.q.proxies[p]? = some pr ∧ pr.node ≠ MAXN) ∧
    (∀ (p : Nat) (pr : Proxy), w'.q.proxies[p]? = some pr → pr.node ≠ MAXN →
      ∀ fuel, w'.q.nodes.size ≤ fuel → p ∈ collect w'.q fuel 0) :=
  leaves_exactly_once w'.q (run2_preserves_inv_guarded fixRoot ops w' hok hg hr).1

/-- **the simultaneous traversal of two reachable trees terminates and reports each pair once**: for the states reached
by any two guarded histories, `traverse_bvtt` returns (no index panic, the stack loop ends) and its list of pairs has no
repetition — with `bvtt_sound` / `bvtt_complete`: exactly the pairs of live leaves with intersecting lane boxes. -/
theorem reachable_bvtt_terminates_each_pair_once (fixRoot : Bool) (ops1 ops2 : List (Op2 K)) (w1 w2 : World K)
    (pos : Option (Iso3 K)) (hok1 : ∀ op ∈ ops1, Op2Ok op) (hok2 : ∀ op ∈ ops2, Op2Ok op)
    (hg1 : u32Guard (0, 0) ops1 = true) (hg2 : u32Guard (0, 0) ops2 = true)
    (hr1 : run2 fixRoot World.empty ops1 = some w1) (hr2 : run2 fixRoot World.empty ops2 = some w2) :
    ∃ res : List (Nat × Nat), traverseBvtt w1.q w2.q pos = some res ∧ res.Nodup := by
  obtain ⟨i1, d1⟩ := run2_preserves_inv_guarded fixRoot ops1 w1 hok1 hg1 hr1
  obtain ⟨i2, d2⟩ := run2_preserves_inv_guarded fixRoot ops2 w2 hok2 hg2 hr2
  have s1 := (reachable_sizes_fit fixRoot ops1 w1 hok1 hg1 hr1).1
  have s2 := (reachable_sizes_fit fixRoot ops2 w2 hok2 hg2 hr2).1
  exact bvtt_terminates_each_pair_once w1.q w2.q pos i1 i2 (by omega) (by omega) d1 d2

/-! ## the cast sites -/

/-- `x as u32` for a `usize` value -/
def castU32 (x : Nat) : Nat := x % 4294967296

/-- **every `as u32` cast of one operation is exact on a small state.**  The operands of the casts in `update.rs` /
`build.rs` are: `self.nodes.len()` (update.rs:86, 122, 139, 184, 370, 399; build.rs:409), `self.nodes.len() as u32 + 1`
(update.rs:129 — the addition is done in `u32`), `self.nodes.len() as u32 - 1` after a push (update.rs:464, 473),
`self.proxies.len()` (update.rs:389), a proxy id `proxy_id` / `*id` (update.rs:103, 131; build.rs:349) and a freshly
pushed node index `nid` / `my_id` (update.rs:595; build.rs:350, 364) which is below the node count after the operation.
On a state with `nodes.len() + 8 ≤ u32::MAX` and `4·proxies.len() + 2 ≤ u32::MAX` (what `u32Guard` maintains) and for
every `n` up to the node count after the operation (`≤ u32::MAX` by `sizeStep_sound`): the cast returns its operand, the
`u32` addition does not overflow, and no node index or proxy id collides with the sentinel `u32::MAX`. -/
theorem casts_exact (q : Q K) (hs : SmallState q) (id : Nat) (hid : id < MAXN) (n : Nat) (hn : n ≤ MAXN) :
    castU32 q.nodes.size = q.nodes.size ∧ castU32 q.nodes.size + 1 < 4294967296 ∧
    castU32 (q.nodes.size + 1) = q.nodes.size + 1 ∧ q.nodes.size + 1 ≠ MAXN ∧
    castU32 q.proxies.size = q.proxies.size ∧ castU32 id = id ∧ castU32 n = n ∧ (n < MAXN → castU32 n ≠ MAXN) := by
  obtain ⟨h1, h2⟩ := hs
  unfold MAXN at *
  unfold castU32
  refine ⟨by omega, by omega, by omega, by omega, by omega, by omega, by omega, by omega⟩

end structural

section boxes
variable {K : Type} [Field K] [LinearOrder K] [IsStrictOrderedRing K] (sq : K → K)

/-- **`rebalance` preserves the box invariant under a size bound on its INPUT only** (`rebalance_preserves_boxInv`
without the hypothesis that the result fits `u32`). -/
theorem rebalance_preserves_boxInv_sized (q : Q K) (margin : K) (cur : Nat → Aabb3 K) :
    letI := fieldNum K sq
    0 ≤ margin → Inv q → DataOk q → 4 * q.nodes.size + 3 * q.proxies.size ≤ MAXN → 4 * q.proxies.size + 2 ≤ MAXN →
      BoxInv q cur → ∃ q' : Q K, rebalance q margin = some q' ∧ Inv q' ∧ BoxInv q' cur := by
  letI := fieldNum K sq
  intro hm hinv hd hn hp hb
  obtain ⟨q', e, _, _, _, hsz, _⟩ := rebalance_preserves_inv_sized q margin hinv hd hn hp
  exact ⟨q', e, rebalance_preserves_boxInv sq q q' margin cur hm hinv hd hp (by omega) e hb⟩

end boxes

/-! ## non-vacuity -/
section examples

/-- the hypotheses of the reachable-state theorems hold on `histPark` (rebuild of six leaves, three removes, refit,
rebalance), and the model run completes on it (`rebalance_parks_free_list` decides the final state) -/
example : (∀ op ∈ histPark, Op2Ok op) ∧ u32Guard (K := ℚ) (0, 0) histPark = true ∧
    (run2 true World.empty histPark).isSome = true := by
  refine ⟨?_, by decide +kernel, by decide +kernel⟩
  intro op hop
  simp only [histPark, List.mem_cons, List.not_mem_nil, or_false] at hop
  rcases hop with rfl | rfl | rfl | rfl | rfl | rfl
  · refine ⟨by decide, ?_, by decide⟩
    intro it hit
    simp only [List.mem_map, List.mem_range] at hit
    obtain ⟨i, hi, rfl⟩ := hit
    show i < MAXN
    unfold MAXN; omega
  all_goals trivial

/-- the hypotheses of `rebalance_preserves_inv_sized` / `rebalance_preserves_boxInv_sized` hold on a non-trivial state: the
tree reached by the first five operations of `histPark` (six leaves rebuilt, three removed, refit; 6 nodes, 6 proxies) -/
example : ∃ w : World ℚ, run2 true World.empty (histPark.take 5) = some w ∧ Inv w.q ∧ DataOk w.q ∧
    4 * w.q.nodes.size + 3 * w.q.proxies.size ≤ MAXN ∧ 4 * w.q.proxies.size + 2 ≤ MAXN ∧ 0 < w.q.nodes.size := by
  have hs : (run2 true World.empty (histPark.take 5)).map (fun w => (w.q.nodes.size, w.q.proxies.size)) = some (6, 6) := by
    decide +kernel
  have hok : ∀ op ∈ histPark.take 5, Op2Ok op := by
    intro op hop
    simp only [histPark, List.take, List.mem_cons, List.not_mem_nil, or_false] at hop
    rcases hop with rfl | rfl | rfl | rfl | rfl
    · refine ⟨by decide, ?_, by decide⟩
      intro it hit
      simp only [List.mem_map, List.mem_range] at hit
      obtain ⟨i, hi, rfl⟩ := hit
      show i < MAXN
      unfold MAXN; omega
    all_goals trivial
  cases h : run2 true World.empty (histPark.take 5) with
  | none => rw [h] at hs; cases hs
  | some w =>
    rw [h] at hs
    simp only [Option.map_some, Option.some.injEq, Prod.mk.injEq] at hs
    obtain ⟨hi, hd⟩ := run2_preserves_inv_guarded true (histPark.take 5) w hok (by decide +kernel) h
    obtain ⟨e1, e2⟩ := hs
    refine ⟨w, rfl, hi, hd, ?_, ?_, by omega⟩ <;> (unfold MAXN; omega)

end examples

end C08
