import ParryModel.C08.BuildLemmas
import ParryModel.C08.TrackedLemmas
import ParryModel.C08.TermLemmas
/-!
# C08: `clear_and_rebuild` establishes the structural invariant (core Lean only)
-/
namespace C08
open Model Model.Qbvh
set_option linter.unusedSectionVars false
set_option linter.unusedVariables false
set_option linter.unusedSimpArgs false
variable {K : Type} [Num K]

/-- the root pushed by `clear_and_rebuild_with_splitter` -/
def rebuildRoot : Node K := ⟨Vector.replicate 4 invalidBox, #v[1, MAXN, MAXN, MAXN], MAXN, 0, false, false, false⟩

/-- the root at the end: lane 0 holds the box of the whole tree -/
def rebuiltRoot (aabb : Aabb3 K) : Node K :=
  { (rebuildRoot : Node K) with boxes := #v[aabb, invalidBox, invalidBox, invalidBox] }

/-- everything `clear_and_rebuild` guarantees structurally -/
structure RebuildOut (q q' : Q K) (items : List (Nat × Aabb3 K)) : Prop where
  inv : Inv q'
  noFree : q'.freeList = []
  dirtyList : q'.dirtyNodes = q.dirtyNodes
  rootPar : ∀ r : Node K, q'.nodes[0]? = some r → r.parent = MAXN
  attached : ∀ (p : Nat) (pr : Proxy), q'.proxies[p]? = some pr → (pr.node ≠ MAXN ↔ p ∈ items.map (·.1))
  data : ∀ p ∈ items.map (·.1), ∃ pr : Proxy, q'.proxies[p]? = some pr ∧ pr.data = p
  count : q'.nodes.size ≤ 4 * items.length + 2
  clean : ∀ (n : Nat) (nd : Node K), q'.nodes[n]? = some nd → nd.dirty = false

/-- unfolding of `rebuild` -/
theorem rebuild_eq (q : Q K) (items : List (Nat × Aabb3 K)) (dil : K) (ps : Array Proxy) (aabbs : Array (Aabb3 K))
    (indices : Array Nat)
    (hf : fillProxies items (Array.replicate items.length invalidProxy, Array.replicate items.length invalidBox, #[]) =
      (ps, aabbs, indices)) :
    rebuild q items dil =
      match buildRec aabbs dil indices.size { q with freeList := [], nodes := #[rebuildRoot], proxies := ps } indices 0 0 with
      | none => none
      | some (q1, _, aabb) =>
        match q1.nodes[0]? with
        | none => none
        | some r =>
          some { q1 with rootAabb := aabb,
                         nodes := q1.nodes.setIfInBounds 0 { r with boxes := #v[aabb, invalidBox, invalidBox, invalidBox] } } := by
  unfold rebuild
  simp only [hf]
  rfl

/-- **`clear_and_rebuild` never panics, terminates within its fuel and establishes the invariant**, for every list of
leaves with pairwise different ids `< u32::MAX` — whatever the boxes (identical, degenerate, inverted, …). -/
theorem rebuild_spec (q : Q K) (items : List (Nat × Aabb3 K)) (dil : K)
    (hnd : (items.map (·.1)).Nodup) (hid : ∀ it ∈ items, it.1 < MAXN) (hlen : 4 * items.length + 2 ≤ MAXN) :
    ∃ q' : Q K, rebuild q items dil = some q' ∧ RebuildOut q q' items := by
  -- the filling loop
  cases hf : fillProxies items (Array.replicate items.length invalidProxy, Array.replicate items.length invalidBox, #[])
    with | mk ps rest =>
  obtain ⟨aabbs, indices⟩ := rest
  obtain ⟨f1, f2, f3, f4, f5, f6, f7⟩ := fillProxies_spec items _ _ _ _ _ _ hf (by simp)
  simp only [Array.toList_empty, List.nil_append, Array.size_replicate] at f1 f2 f3 f5
  have hdet : AllDetached ps := f4 (by
    intro p pr hp
    simp only [Array.getElem?_replicate] at hp
    split at hp
    · cases hp; exact ⟨rfl, rfl⟩
    · cases hp)
  have hpsmall : ps.size ≤ MAXN := f5 MAXN (by omega) hid
  have hdata := f6 (by intro x hx; simp at hx)
  have hix : ∀ x, x ∈ indices ↔ x ∈ items.map (·.1) := by
    intro x; rw [← f3]; simp
  have hixnd : indices.toList.Nodup := by rw [f3]; exact hnd
  have hrange : ∀ x ∈ indices, x < aabbs.size ∧ x < ps.size := by
    intro x hx
    obtain ⟨pr, e, _⟩ := hdata x hx
    have := (Array.getElem?_eq_some_iff.mp e).1
    exact ⟨by omega, this⟩
  -- the recursive build
  obtain ⟨⟨q1, c, aabb⟩, hb⟩ := buildRec_total aabbs dil indices.size
    { q with freeList := [], nodes := #[rebuildRoot], proxies := ps } indices 0 0 (Nat.le_refl _) hrange
  have fr := buildRec_frame aabbs dil _ _ _ _ _ _ hb
  obtain ⟨sub, pfr, pdat⟩ := buildRec_sub aabbs dil _ _ _ _ _ _ hb hixnd (fun x hx => (hrange x hx).1)
  have cnt := buildRec_count aabbs dil _ _ _ _ _ _ hb (fun x hx => (hrange x hx).1)
  dsimp only at fr sub pfr pdat cnt
  have hone : (#[rebuildRoot] : Array (Node K)).size = 1 := rfl
  rw [hone] at sub cnt
  have hsz1 : 1 < q1.nodes.size := by have := fr.lt; rw [hone] at this; exact this
  have hcount : q1.nodes.size ≤ 4 * items.length + 2 := by
    have : nodeBound indices.size ≤ 4 * items.length + 1 := by
      have : indices.size = items.length := by
        have := congrArg List.length f3; simpa using this
      unfold nodeBound; split <;> omega
    omega
  have hroot1 : q1.nodes[0]? = some rebuildRoot := by
    have := fr.old 0 (by simp)
    simpa using this
  rw [rebuild_eq q items dil ps aabbs indices hf, hb]
  simp only [hroot1]
  refine ⟨_, rfl, ?_⟩
  -- the final state
  show RebuildOut q ({ q1 with rootAabb := aabb, nodes := q1.nodes.setIfInBounds 0 (rebuiltRoot aabb) } : Q K) items
  generalize hq' : ({ q1 with rootAabb := aabb, nodes := q1.nodes.setIfInBounds 0 (rebuiltRoot aabb) } : Q K) = q'
  have hsize : q'.nodes.size = q1.nodes.size := by rw [← hq']; simp
  have hprox : q'.proxies = q1.proxies := by rw [← hq']
  have hfree : q'.freeList = [] := by rw [← hq']; exact fr.free
  have hn0 : q'.nodes[0]? = some (rebuiltRoot aabb) := by
    rw [← hq']
    simp only [Array.getElem?_setIfInBounds, if_true]
    rw [if_pos (by omega)]
  have hnpos : ∀ i, i ≠ 0 → q'.nodes[i]? = q1.nodes[i]? := by
    intro i hi; rw [← hq']; simp [Array.getElem?_setIfInBounds, Ne.symm hi]
  have sub' : SubOk q' 1 q1.nodes.size 0 0 (fun p => p ∈ indices) := by
    exact sub.frame (fun i a b => hnpos i (by omega)) (fun p _ => by rw [hprox]) (by omega)
  have hlive : ∀ n, Live q' n := by intro n; simp [Live, hfree]
  have hnode_some : ∀ i, i < q'.nodes.size → ∃ x, q'.nodes[i]? = some x := fun i hi => ⟨q'.nodes[i], by simp [hi]⟩
  -- proxies outside the slice stay detached
  have hdetached : ∀ (p : Nat) (pr : Proxy), q'.proxies[p]? = some pr → p ∉ indices → pr.node = MAXN := by
    intro p pr hp hni
    rw [hprox, pfr p hni] at hp
    exact (hdet p pr hp).1
  have hattached : ∀ (p : Nat) (pr : Proxy), q'.proxies[p]? = some pr → p ∈ indices → pr.node ≠ MAXN := by
    intro p pr hp hi
    obtain ⟨pr', e, a1, a2, _⟩ := sub'.proxyLeaf p hi
    rw [hp] at e; cases e
    have := hlen
    omega
  have hcase : ∀ n, n < q'.nodes.size → n = 0 ∨ (1 ≤ n ∧ n < q1.nodes.size) := by intro n hn; omega
  have hlt : ∀ (n : Nat) (nd : Node K), q'.nodes[n]? = some nd → n < q'.nodes.size :=
    fun n nd h => (Array.getElem?_eq_some_iff.mp h).1
  refine ⟨⟨?_, ?_, ?_, ?_, ?_, ?_, ?_, ?_, ?_, ?_⟩, hfree, ?_, ?_, ?_, ?_, ?_, ?_⟩
  · right; exact ⟨⟨_, hn0, rfl⟩, hlive 0⟩
  · intro n nd hn _ hleaf l c hc hcm
    rcases hcase n (hlt n nd hn) with rfl | ⟨a, b⟩
    · rw [hn0] at hn; cases hn
      simp only [rebuiltRoot, rebuildRoot] at hc
      rcases vec4_lane _ l c hc with rfl | rfl | rfl | rfl <;> simp at hc <;> subst hc
      · obtain ⟨cn, hcn⟩ := hnode_some 1 (by omega)
        obtain ⟨e1, e2⟩ := sub'.rootPar cn hcn
        exact ⟨by omega, hlive 1, cn, hcn, e1, e2⟩
      · exact absurd rfl hcm
      · exact absurd rfl hcm
      · exact absurd rfl hcm
    · obtain ⟨a1, a2, rest⟩ := sub'.child n nd a b hn hleaf l c hc hcm
      exact ⟨by omega, hlive c, rest⟩
  · intro n nd hn _ hn0'
    rcases hcase n (hlt n nd hn) with rfl | ⟨a, b⟩
    · exact absurd rfl hn0'
    · by_cases h1 : n = 1
      · subst h1
        obtain ⟨e1, e2⟩ := sub'.rootPar nd hn
        rw [e1, e2]
        exact ⟨hlive 0, _, hn0, rfl, rfl⟩
      · obtain ⟨_, _, rest⟩ := sub'.par n nd (by omega) b hn
        exact ⟨hlive _, rest⟩
  · intro n nd hn _ hleaf l p hc hcm
    rcases hcase n (hlt n nd hn) with rfl | ⟨a, b⟩
    · rw [hn0] at hn; cases hn; simp [rebuiltRoot, rebuildRoot] at hleaf
    · exact (sub'.leafProxy n nd a b hn hleaf l p hc hcm).2
  · intro p pr hp hne
    by_cases hi : p ∈ indices
    · obtain ⟨pr', e, a1, a2, rest⟩ := sub'.proxyLeaf p hi
      rw [hp] at e; cases e
      exact ⟨hlive _, rest⟩
    · exact absurd (hdetached p pr hp hi) hne
  · refine ⟨depthOf q', by rw [depthOf], ?_⟩
    intro n nd hn _ hn0'
    apply depthOf_step q' n nd hn0' hn
    rcases hcase n (hlt n nd hn) with rfl | ⟨a, b⟩
    · exact absurd rfl hn0'
    · by_cases h1 : n = 1
      · subst h1; rw [(sub'.rootPar nd hn).1]; omega
      · exact (sub'.par n nd (by omega) b hn).2.1
  · rw [hfree]; exact List.nodup_nil
  · intro n hn; rw [hfree] at hn; cases hn
  · rw [hsize]; omega
  · rw [hprox, fr.psize]; exact hpsmall
  · rw [← hq']; exact fr.dirty
  · intro r hr; rw [hn0] at hr; cases hr; rfl
  · intro p pr hp
    rw [← hix]
    exact ⟨fun h => by
      by_cases hi : p ∈ indices
      · exact hi
      · exact absurd (hdetached p pr hp hi) h, hattached p pr hp⟩
  · intro p hp
    rw [← hix] at hp
    obtain ⟨pr0, e0, d0⟩ := hdata p hp
    obtain ⟨pr, pr', a1, a2, a3⟩ := pdat p hp
    rw [e0] at a1; cases a1
    exact ⟨pr', by rw [hprox]; exact a2, by rw [a3]; exact d0⟩
  · rw [hsize]; omega
  · intro n nd hn
    by_cases hn0' : n = 0
    · subst hn0'; rw [hn0] at hn; cases hn; rfl
    · rw [hnpos n hn0'] at hn
      refine buildRec_clean aabbs dil _ _ _ _ _ _ hb ?_ n nd hn
      intro m y hy
      dsimp only at hy
      have hm : m = 0 := by
        have := (Array.getElem?_eq_some_iff.mp hy).1
        simpa using this
      subst hm
      simp at hy
      subst hy; rfl
