import ParryModel.C08.BuildLemmas
import ParryModel.C08.Model5
/-!
# C08 property theorems, part 17 (round fu5): the cutting splitter registers every piece with ITS OWN box

`QbvhNonOverlappingDataSplitter::split_dataset` cuts leaves that straddle the snapped plane; the user callback is told the
two pieces, and `BuilderProxies::insert` registers each piece in the builder's `aabbs` — the boxes the leaf nodes and all
their ancestors are computed from.  The clause "every stored box contains the current box of its leaf" needs the
builder's box of a piece to BE the box the user was told.  `Agrees` states it; `cutLoop_agrees` /
`splitDatasetCutting_agrees` prove that both cutting loops of one `split_dataset` call preserve it, for every scalar type
(also `Float`), whatever the boxes, epsilon and refusal pattern (a piece registered with its sibling's box breaks it).
-/
namespace C08
open Model Model.Qbvh
variable {K : Type} [Num K]

/-- the most recent box the callback recorded for `id` (the record is kept most recent first) -/
def lastRecord (id : Nat) : List (Nat × Aabb3 K) → Option (Aabb3 K)
  | [] => none
  | it :: rest => if it.1 = id then some it.2 else lastRecord id rest

/-- the builder's `proxies` and `aabbs` have one length, and the builder's box of every leaf the callback has a record
for is the most recently recorded box of that leaf -/
def Agrees (ps : Array Proxy) (bs : Array (Aabb3 K)) (cuts : List (Nat × Aabb3 K)) : Prop :=
  ps.size = bs.size ∧ ∀ (id : Nat) (b : Aabb3 K), lastRecord id cuts = some b → bs[id]? = some b

private theorem builderInsert_spec (ps : Array Proxy) (bs : Array (Aabb3 K)) (index : Nat) (box : Aabb3 K)
    (hs : ps.size = bs.size) :
    (builderInsert ps bs index box).1.size = (builderInsert ps bs index box).2.size ∧
    (builderInsert ps bs index box).2[index]? = some box ∧
    ∀ j, j ≠ index → ∀ b, bs[j]? = some b → (builderInsert ps bs index box).2[j]? = some b := by
  unfold builderInsert
  by_cases hle : ps.size ≤ index
  · have hle' : bs.size ≤ index := by omega
    simp only [hle, if_true, Array.size_setIfInBounds, Array.size_append, Array.size_replicate]
    refine ⟨by omega, ?_, ?_⟩
    · rw [Array.getElem?_setIfInBounds]
      simp only [Array.size_append, Array.size_replicate]
      have : index < bs.size + (index + 1 - bs.size) := by omega
      simp [this]
    · intro j hj b hb
      rw [Array.getElem?_setIfInBounds]
      have hjlt : j < bs.size := (Array.getElem?_eq_some_iff.mp hb).1
      have hne : ¬ index = j := fun e => hj e.symm
      simp only [hne, if_false]
      rw [getElem?_append_replicate]
      simp only [hjlt, if_true]; exact hb
  · have hlt : index < bs.size := by omega
    simp only [hle, if_false, Array.size_setIfInBounds]
    refine ⟨hs, ?_, ?_⟩
    · rw [Array.getElem?_setIfInBounds]; simp [hlt]
    · intro j hj b hb
      rw [Array.getElem?_setIfInBounds]
      have hne : ¬ index = j := fun e => hj e.symm
      simp only [hne, if_false]; exact hb

/-- registering the two pieces of a cut keeps the agreement -/
private theorem agrees_cut (ps : Array Proxy) (bs : Array (Aabb3 K)) (cuts : List (Nat × Aabb3 K)) (dl dr : Nat)
    (l r : Aabb3 K) (h : Agrees ps bs cuts) :
    Agrees (builderInsert (builderInsert ps bs dl l).1 (builderInsert ps bs dl l).2 dr r).1
           (builderInsert (builderInsert ps bs dl l).1 (builderInsert ps bs dl l).2 dr r).2
           ((dr, r) :: (dl, l) :: cuts) := by
  obtain ⟨hs, hrec⟩ := h
  obtain ⟨hs1, hset1, hkeep1⟩ := builderInsert_spec ps bs dl l hs
  obtain ⟨hs2, hset2, hkeep2⟩ := builderInsert_spec _ _ dr r hs1
  refine ⟨hs2, ?_⟩
  intro id b hb
  simp only [lastRecord] at hb
  by_cases h1 : dr = id
  · simp only [h1, if_true, Option.some.injEq] at hb
    subst hb; rw [← h1]; exact hset2
  · simp only [h1, if_false] at hb
    have hne : id ≠ dr := fun e => h1 e.symm
    by_cases h2 : dl = id
    · simp only [h2, if_true, Option.some.injEq] at hb
      subst hb
      exact hkeep2 id hne _ (by rw [← h2]; exact hset1)
    · simp only [h2, if_false] at hb
      have hne2 : id ≠ dl := fun e => h2 e.symm
      exact hkeep2 id hne b (hkeep1 id hne2 b (hrec id b hb))

/-- **one cutting loop keeps the agreement** between the builder's boxes and the callback's record -/
theorem cutLoop_agrees (eps : K) (refuse dim : Nat) (bias : K) :
    ∀ (n k : Nat) (ws : Array Nat) (ps : Array Proxy) (bs : Array (Aabb3 K)) (next : Nat) (cuts : List (Nat × Aabb3 K))
      (ws' : Array Nat) (ps' : Array Proxy) (bs' : Array (Aabb3 K)) (next' : Nat) (cuts' : List (Nat × Aabb3 K)),
      Agrees ps bs cuts → cutLoop eps refuse dim bias n k (ws, ps, bs, next, cuts) = some (ws', ps', bs', next', cuts') →
      Agrees ps' bs' cuts' := by
  intro n
  induction n with
  | zero =>
    intro k ws ps bs next cuts ws' ps' bs' next' cuts' ha h
    simp only [cutLoop, Option.some.injEq, Prod.mk.injEq] at h
    obtain ⟨_, rfl, rfl, _, rfl⟩ := h
    exact ha
  | succ n ih =>
    intro k ws ps bs next cuts ws' ps' bs' next' cuts' ha h
    simp only [cutLoop] at h
    split at h
    · cases h
    · split at h
      · cases h
      · split at h
        · exact ih _ _ _ _ _ _ _ _ _ _ _ ha h
        · split at h
          · cases h
          · split at h
            · exact ih _ _ _ _ _ _ _ _ _ _ _ ha h
            · exact ih _ _ _ _ _ _ _ _ _ _ _ (agrees_cut _ _ _ _ _ _ _ ha) h

/-- **`split_dataset` of the cutting splitter keeps the agreement**: after both loops (one per subdivision axis) the
builder's box of every piece is the box the callback was told last — so the leaf nodes built from `aabbs` store each
piece under ITS OWN box. -/
theorem splitDatasetCutting_agrees (eps : K) (refuse d0 d1 : Nat) (center : V3 K) (indices : Array Nat)
    (ps : Array Proxy) (bs : Array (Aabb3 K)) (next : Nat) (cuts : List (Nat × Aabb3 K))
    (parts : Array Nat × Array Nat × Array Nat × Array Nat) (ps' : Array Proxy) (bs' : Array (Aabb3 K)) (next' : Nat)
    (cuts' : List (Nat × Aabb3 K)) (ha : Agrees ps bs cuts)
    (h : splitDatasetCutting eps refuse d0 d1 center indices ps bs next cuts = some (parts, ps', bs', next', cuts')) :
    Agrees ps' bs' cuts' := by
  unfold splitDatasetCutting at h
  simp only at h
  split at h
  · cases h
  · split at h
    · cases h
    · split at h
      · cases h
      · rename_i ws1 ps1 bs1 next1 cuts1 hc1
        split at h
        · cases h
        · rename_i ws2 ps2 bs2 next2 cuts2 hc2
          split at h
          · cases h
          · simp only [Option.some.injEq, Prod.mk.injEq] at h
            obtain ⟨_, rfl, rfl, _, rfl⟩ := h
            exact cutLoop_agrees eps refuse d1 _ _ _ _ _ _ _ _ _ _ _ _ _
              (cutLoop_agrees eps refuse d0 _ _ _ _ _ _ _ _ _ _ _ _ _ ha hc1) hc2

/-- the agreement holds when a build starts: nothing has been recorded yet (`fillProxies` keeps both lengths equal) -/
theorem agrees_nil (ps : Array Proxy) (bs : Array (Aabb3 K)) (h : ps.size = bs.size) : Agrees ps bs [] :=
  ⟨h, by intro id b hb; simp [lastRecord] at hb⟩

private theorem buildLeafLoop_psize (aabbs : Array (Aabb3 K)) (myId : Nat) :
    ∀ (ids : List Nat) (k : Nat) (bx : Vector (Aabb3 K) 4) (ch : Vector Nat 4) (ps : Array Proxy)
      (bx' : Vector (Aabb3 K) 4) (ch' : Vector Nat 4) (ps' : Array Proxy),
      buildLeafLoop aabbs myId ids k (bx, ch, ps) = some (bx', ch', ps') → ps'.size = ps.size := by
  intro ids
  induction ids with
  | nil =>
    intro k bx ch ps bx' ch' ps' h
    simp only [buildLeafLoop, Option.some.injEq, Prod.mk.injEq] at h
    obtain ⟨_, _, rfl⟩ := h; rfl
  | cons id rest ih =>
    intro k bx ch ps bx' ch' ps' h
    simp only [buildLeafLoop] at h
    split at h
    · split at h
      · have := ih _ _ _ _ _ _ _ h
        simpa only [Array.size_setIfInBounds] using this
      · cases h
    · cases h

/-- **the whole recursion keeps the agreement**, for every splitter: whatever `do_recurse_build_generic` does below a
node — cutting loops of the non-overlapping splitter, leaf nodes written, proxies attached — when it returns, the
builder's box of every recorded piece is still the box the callback was told last. -/
theorem buildRecG_agrees (spl : Splitter K) (dil : K) :
    ∀ (fuel : Nat) (st : GSt K) (indices : Array Nat) (par plane : Nat) (st' : GSt K) (id : Nat) (bb : Aabb3 K),
      Agrees st.q.proxies st.aabbs st.cuts → buildRecG spl dil fuel st indices par plane = some (st', id, bb) →
      Agrees st'.q.proxies st'.aabbs st'.cuts := by
  intro fuel
  induction fuel with
  | zero =>
    intro st indices par plane st' id bb ha h
    unfold buildRecG at h
    split at h
    · simp only at h
      split at h
      · cases h
      · rename_i bx ids ps hl
        simp only [Option.some.injEq, Prod.mk.injEq] at h
        obtain ⟨rfl, _, _⟩ := h
        exact ⟨by simpa only [buildLeafLoop_psize _ _ _ _ _ _ _ _ _ _ hl] using ha.1, ha.2⟩
    · cases h
  | succ n ih =>
    intro st indices par plane st' id bb ha h
    unfold buildRecG at h
    split at h
    · simp only at h
      split at h
      · cases h
      · rename_i bx ids ps hl
        simp only [Option.some.injEq, Prod.mk.injEq] at h
        obtain ⟨rfl, _, _⟩ := h
        exact ⟨by simpa only [buildLeafLoop_psize _ _ _ _ _ _ _ _ _ _ hl] using ha.1, ha.2⟩
    · simp only at h
      split at h
      · cases h
      · rename_i center d0 d1 hc
        -- the state handed to the four recursive calls agrees
        split at h
        · cases h
        · rename_i s0 s1 s2 s3 st0 hsplit
          have ha0 : Agrees st0.q.proxies st0.aabbs st0.cuts := by
            cases spl with
            | center fb =>
              simp only [Option.map_eq_some_iff] at hsplit
              obtain ⟨parts, _, hp⟩ := hsplit
              simp only [Prod.mk.injEq] at hp
              obtain ⟨_, rfl⟩ := hp
              exact ha
            | cutting eps refuse =>
              simp only [Option.map_eq_some_iff] at hsplit
              obtain ⟨⟨parts, ps, bs, next, cuts⟩, hsd, hp⟩ := hsplit
              simp only [Prod.mk.injEq] at hp
              obtain ⟨_, rfl⟩ := hp
              exact splitDatasetCutting_agrees eps refuse d0 d1 center indices _ _ _ _ parts ps bs next cuts ha hsd
          split at h
          · cases h
          · rename_i st1 c0 b0 h0
            have ha1 := ih _ _ _ _ _ _ _ ha0 h0
            split at h
            · cases h
            · rename_i st2 c1 b1 h1
              have ha2 := ih _ _ _ _ _ _ _ ha1 h1
              split at h
              · cases h
              · rename_i st3 c2 b2 h2
                have ha3 := ih _ _ _ _ _ _ _ ha2 h2
                split at h
                · cases h
                · rename_i st4 c3 b3 h3
                  have ha4 := ih _ _ _ _ _ _ _ ha3 h3
                  split at h
                  · cases h
                  · simp only [Option.some.injEq, Prod.mk.injEq] at h
                    obtain ⟨rfl, _, _⟩ := h
                    exact ha4

end C08
