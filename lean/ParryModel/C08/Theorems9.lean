import ParryModel.C08.SchedLemmas
import ParryModel.C08.BvttOnceLemmas
import ParryModel.C08.Theorems8
/-!
# C08 property theorems, part 9: all schedules — the parallel traversals as nondeterministic work-lists

`Run succ pending visited` (`SchedLemmas.lean`) is a work-list run in which ANY pending entry may be taken next.  The
sequential traversals pop the last pushed entry; the rayon traversals (`traverse_depth_first_node_parallel`,
`traverse_bvtt_node_parallel`) process the pushed entries by fork-join in an order that depends on the number of threads
and on work stealing.  Both are runs, and every run visits the same set.  The tie to the code: the harness runs the real
parallel traversals on the global pool and on pools of 1, 2 and 8 threads and compares the visited SETS with the model's
sequential result and with brute force (`travall`, `bvttall`, `dfsxp`).
-/
namespace C08
open Model Model.Qbvh

section structural
variable {K : Type} [Num K]

/-- **`dfs_any_schedule`: every schedule of the single-tree traversal visits the nodes the sequential traversal visits.**
For a visitor whose mask depends on the node only and which never exits early: any work-list run from the root over the
per-node step (children whose lane passes the mask and the range guard) visits exactly the nodes of the sequential
depth-first visit order `dfsTrace` — in a valid tree each of them once. -/
theorem dfs_any_schedule (q : Q K) (hinv : Inv q) (hsz : q.nodes.size < MAXN) (hpos : 0 < q.nodes.size)
    (maskOf : Node K → Vector Bool 4) (visited : List Nat) (h : Run (MStep q maskOf) [0] visited) :
    ∃ T : List Nat, dfsTrace q maskOf (4 * q.nodes.size + 8) [0] = some T ∧ T.Nodup ∧ ∀ n, n ∈ visited ↔ n ∈ T := by
  obtain ⟨T, hT, hnodup, _, hreach⟩ := dfsTrace_root hinv hsz hpos maskOf (4 * q.nodes.size + 8) (by omega)
  refine ⟨T, hT, hnodup, fun n => ?_⟩
  rw [h.visited_iff n, hreach n, mreach_iff_star]
  simp

/-- **the leaves reported by a box query do not depend on the schedule**: under any work-list run with the mask of
`BoundingVolumeIntersectionsVisitor` (`traverse_depth_first_parallel` with the box predicate, any thread count), the
leaves reported at the visited nodes are exactly those `intersect_aabb` returns -/
theorem box_query_any_schedule (q : Q K) (b : Aabb3 K) (hinv : Inv q) (hsz : q.nodes.size < MAXN) (hpos : 0 < q.nodes.size)
    (ids : List Nat) (hids : intersectAabb q b = some ids) (visited : List Nat) (h : Run (MStep q (bvMask b)) [0] visited) :
    ∀ x, x ∈ ids ↔ ∃ n ∈ visited, x ∈ nodeReports q b n := by
  obtain ⟨T, hT, _, hv⟩ := dfs_any_schedule q hinv hsz hpos (bvMask b) visited h
  rw [intersectAabb_eq_trace q b hpos, hT] at hids
  simp only [Option.map_some, Option.some.injEq] at hids
  subst hids
  intro x
  simp only [List.mem_flatMap]
  constructor
  · rintro ⟨n, hn, hx⟩; exact ⟨n, (hv n).2 hn, hx⟩
  · rintro ⟨n, hn, hx⟩; exact ⟨n, (hv n).1 hn, hx⟩

/-- **`bvtt_any_schedule`: every schedule of the simultaneous traversal reports the pairs the sequential traversal
reports.**  Any work-list run from `(0, 0)` over the per-node step of `traverse_bvtt` (`StepTo`: the entries pushed in
the four (leaf / internal) × (leaf / internal) arms) visits a set of entries at which exactly the pairs returned by the
sequential stack traversal are reported. -/
theorem bvtt_any_schedule (q1 q2 : Q K) (pos : Option (Iso3 K)) (res : List (Nat × Nat))
    (hres : traverseBvtt q1 q2 pos = some res) (visited : List (Nat × Nat)) (h : Run (StepTo q1 q2 pos) [(0, 0)] visited) :
    ∀ x, x ∈ res ↔ ∃ e ∈ visited, ReportsAt q1 q2 pos e x := by
  intro x
  rw [traverseBvtt_spec q1 q2 pos res hres x]
  unfold BvttSet
  constructor
  · rintro ⟨e, hr, hx⟩
    exact ⟨e, (h.visited_iff e).2 ⟨(0, 0), by simp, (reach_iff_star q1 q2 pos _ _).1 hr⟩, hx⟩
  · rintro ⟨e, he, hx⟩
    obtain ⟨z, hz, hs⟩ := (h.visited_iff e).1 he
    simp only [List.mem_singleton] at hz
    subst hz
    exact ⟨e, (reach_iff_star q1 q2 pos _ _).2 hs, hx⟩

/-- **`bvtt_terminates_each_pair_once`: the simultaneous traversal returns, and reports no pair twice.**  On two trees
satisfying `Inv` and `DataOk` (fewer than `u32::MAX` nodes each), `traverse_bvtt` with the library's
`BoundingVolumeIntersectionsSimultaneousVisitor` pops every entry `(node1, node2)` at most once — the entries on the
stack span pairwise disjoint products of subtrees —, so the stack loop ends after at most `nodes1 * nodes2` pops
(no index panic; the model's fuel is never the reason for `none`) and the list of reported pairs has no repetition.
Together with `bvtt_sound` and `bvtt_complete`: exactly the pairs of live leaves whose lane boxes intersect, each once. -/
theorem bvtt_terminates_each_pair_once (q1 q2 : Q K) (pos : Option (Iso3 K)) (h1 : Inv q1) (h2 : Inv q2)
    (s1 : q1.nodes.size < MAXN) (s2 : q2.nodes.size < MAXN) (dt1 : DataOk q1) (dt2 : DataOk q2) :
    ∃ res : List (Nat × Nat), traverseBvtt q1 q2 pos = some res ∧ res.Nodup := by
  unfold traverseBvtt
  by_cases h0 : (decide (q1.nodes.size = 0) || decide (q2.nodes.size = 0)) = true
  · rw [if_pos h0]; exact ⟨[], rfl, List.nodup_nil⟩
  · rw [if_neg h0]
    simp only [Bool.or_eq_true, decide_eq_true_eq, not_or] at h0
    obtain ⟨d1, hd1⟩ := h1.depth
    obtain ⟨d2, hd2⟩ := h2.depth
    have hd1' : IsDepth q1 d1 := hd1
    have hd2' : IsDepth q2 d2 := hd2
    refine bvttLoop_once pos h1 h2 s1 s2 dt1 dt2 hd1' hd2' _ [(0, 0)] [] [] (Front2.root h1 h2 (by omega) (by omega))
      ⟨List.nodup_nil, by simp⟩ ?_
    simp only [List.length_nil, Nat.add_zero]
    exact Nat.mul_le_mul (by omega) (by omega)

/-- the same for `traverse_modified_bvtt` (the CHANGED-pruned variant) -/
theorem bvtt_modified_terminates_each_pair_once (q1 q2 : Q K) (pos : Option (Iso3 K)) (h1 : Inv q1) (h2 : Inv q2)
    (s1 : q1.nodes.size < MAXN) (s2 : q2.nodes.size < MAXN) (dt1 : DataOk q1) (dt2 : DataOk q2) :
    ∃ res : List (Nat × Nat), traverseModifiedBvtt q1 q2 pos = some res ∧ res.Nodup := by
  unfold traverseModifiedBvtt
  cases hr : q1.nodes[0]? with
  | none => exact ⟨[], rfl, List.nodup_nil⟩
  | some r1 =>
    simp only
    by_cases h0 : (decide (q2.nodes.size = 0) || !r1.changed) = true
    · rw [if_pos h0]; exact ⟨[], rfl, List.nodup_nil⟩
    · rw [if_neg h0]
      simp only [Bool.or_eq_true, decide_eq_true_eq, not_or] at h0
      have p1 : 0 < q1.nodes.size := (Array.getElem?_eq_some_iff.mp hr).1
      obtain ⟨d1, hd1⟩ := h1.depth
      obtain ⟨d2, hd2⟩ := h2.depth
      have hd1' : IsDepth q1 d1 := hd1
      have hd2' : IsDepth q2 d2 := hd2
      refine bvttModLoop_once pos h1 h2 s1 s2 dt1 dt2 hd1' hd2' _ [(0, 0)] [] [] (Front2.root h1 h2 p1 (by omega))
        ⟨List.nodup_nil, by simp⟩ ?_
      simp only [List.length_nil, Nat.add_zero]
      exact Nat.mul_le_mul (by omega) (by omega)

/-- the sequential stack order is itself a run (non-vacuity of `Run`): a two-entry example with a branching step -/
example : Run (fun a b : Nat => a = 0 ∧ (b = 1 ∨ b = 2)) [0] [0, 2, 1] := by
  have h2 : Run (fun a b : Nat => a = 0 ∧ (b = 1 ∨ b = 2)) [] [] := Run.done
  have h1 : Run (fun a b : Nat => a = 0 ∧ (b = 1 ∨ b = 2)) [1] [1] :=
    Run.pick [] [] 1 [] [] (by intro y; simp) h2
  have h0 : Run (fun a b : Nat => a = 0 ∧ (b = 1 ∨ b = 2)) [1, 2] [2, 1] :=
    Run.pick [1] [] 2 [] [1] (by intro y; simp) (by simpa using h1)
  exact Run.pick [] [] 0 [1, 2] [2, 1] (by intro y; simp) (by simpa using h0)

end structural
end C08
