import ParryModel.Field
import ParryModel.C08.RebuildBoxLemmas
/-!
# C08: the order facts about boxes (`BoxLaws`, `DilateLaws`) over any linearly ordered field
-/
namespace C08
open Model Model.Qbvh

variable {K : Type} [Field K] [LinearOrder K] [IsStrictOrderedRing K] (sq : K → K)

theorem boxContains_iff' (a b : Aabb3 K) :
    letI := fieldNum K sq
    boxContains a b = true ↔
      (a.mins.x ≤ b.mins.x ∧ a.mins.y ≤ b.mins.y ∧ a.mins.z ≤ b.mins.z) ∧
      (b.maxs.x ≤ a.maxs.x ∧ b.maxs.y ≤ a.maxs.y ∧ b.maxs.z ≤ a.maxs.z) := by
  simp [boxContains, and_assoc]

/-- containment is a preorder, `loosen(m)` with `m ≥ 0` is extensive, `to_merged_aabb` is the least box containing
the four lanes (same statement as `boxLaws_field` of `Theorems.lean`, available to the lemma files) -/
theorem boxLaws_fieldNum : @BoxLaws K (fieldNum K sq) := by
  letI := fieldNum K sq
  refine ⟨?_, ?_, ?_, ?_, ?_⟩
  · intro a; rw [boxContains_iff']; simp
  · intro a b c h1 h2
    rw [boxContains_iff'] at *
    obtain ⟨⟨a1, a2, a3⟩, a4, a5, a6⟩ := h1
    obtain ⟨⟨b1, b2, b3⟩, b4, b5, b6⟩ := h2
    exact ⟨⟨a1.trans b1, a2.trans b2, a3.trans b3⟩, b4.trans a4, b5.trans a5, b6.trans a6⟩
  · intro m b hm
    rw [boxContains_iff']
    simp only [loosenBox]
    refine ⟨⟨?_, ?_, ?_⟩, ?_, ?_, ?_⟩ <;> linarith
  · intro v l b hb
    rw [boxContains_iff']
    simp only [mergedBox, fieldNum_nmin, fieldNum_nmax]
    rcases vec4_lane _ _ _ hb with rfl | rfl | rfl | rfl <;> simp at hb <;> subst hb <;>
      simp [le_max_iff, min_le_iff]
  · intro v x h
    have h0 := (boxContains_iff' sq _ _).1 (h 0 v[0] (by simp))
    have h1 := (boxContains_iff' sq _ _).1 (h 1 v[1] (by simp))
    have h2 := (boxContains_iff' sq _ _).1 (h 2 v[2] (by simp))
    have h3 := (boxContains_iff' sq _ _).1 (h 3 v[3] (by simp))
    rw [boxContains_iff']
    simp only [mergedBox, fieldNum_nmin, fieldNum_nmax, le_min_iff, max_le_iff]
    tauto

/-- `Real::MAX` is positive -/
theorem big_pos : (0 : K) < @big K (fieldNum K sq) := by
  unfold big
  show (0 : K) < (((((2 : Int) ^ 1024 - (2 : Int) ^ 971 : Int) : Rat)) : K)
  have h : (2 : Int) ^ 971 < (2 : Int) ^ 1024 := pow_lt_pow_right₀ (by norm_num) (by norm_num)
  have : (0 : Int) < (2 : Int) ^ 1024 - (2 : Int) ^ 971 := sub_pos.mpr h
  exact_mod_cast this

/-- **`dilate_by_factor(dil)` with `dil ≥ 0`** enlarges valid boxes (and keeps them valid), leaves the invalid sentinel
alone; the merged box of four lanes that are valid or the sentinel is valid or the sentinel -/
theorem dilateLaws_fieldNum (dil : K) (hd : 0 ≤ dil) : @DilateLaws K (fieldNum K sq) dil (@VoS K (fieldNum K sq)) := by
  let _ := fieldNum K sq
  have hbig := big_pos (K := K) sq
  have hinvd : dilateBox dil (invalidBox : Aabb3 K) = invalidBox := by
    have hn : ¬ ((@big K (fieldNum K sq)) ≤ -(@big K (fieldNum K sq))) := by
      intro h; linarith
    simp only [dilateBox, invalidBox, hn, if_false, mul_zero, sub_zero, add_zero]
  refine ⟨?_, Or.inr rfl, ?_⟩
  · intro b hb
    rcases hb with hb | rfl
    · obtain ⟨hx, hy, hz⟩ := hb
      have dx : 0 ≤ b.maxs.x * dil - b.mins.x * dil := by nlinarith
      have dy : 0 ≤ b.maxs.y * dil - b.mins.y * dil := by nlinarith
      have dz : 0 ≤ b.maxs.z * dil - b.mins.z * dil := by nlinarith
      constructor
      · left
        simp only [ValidBox, dilateBox, hx, if_true]
        refine ⟨?_, ?_, ?_⟩ <;> linarith
      · rw [boxContains_iff']
        simp only [dilateBox, hx, if_true]
        refine ⟨⟨?_, ?_, ?_⟩, ?_, ?_, ?_⟩ <;> linarith
    · rw [hinvd]; exact ⟨Or.inr rfl, (boxLaws_fieldNum sq).refl _⟩
  · intro v hv
    by_cases hex : ∃ (l : Nat) (b : Aabb3 K), v[l]? = some b ∧ ValidBox b
    · obtain ⟨l, b, hb, ⟨hx, hy, hz⟩⟩ := hex
      have hc := (boxContains_iff' sq _ _).1 ((boxLaws_fieldNum sq).merged v l b hb)
      obtain ⟨⟨a1, a2, a3⟩, a4, a5, a6⟩ := hc
      exact Or.inl ⟨by linarith, by linarith, by linarith⟩
    · right
      have hall : ∀ l (hl : l < 4), v[l] = invalidBox := by
        intro l hl
        rcases hv l v[l] (by simp [hl]) with h | h
        · exact absurd ⟨l, v[l], by simp [hl], h⟩ hex
        · exact h
      simp only [mergedBox, hall 0 (by omega), hall 1 (by omega), hall 2 (by omega), hall 3 (by omega), invalidBox,
        fieldNum_nmin, fieldNum_nmax, min_self, max_self]

/-- **`dilate_by_factor(0)` changes no box at all** (valid or not) -/
theorem dilateLaws_zero : @DilateLaws K (fieldNum K sq) 0 (fun _ => True) := by
  let _ := fieldNum K sq
  refine ⟨fun b _ => ⟨trivial, ?_⟩, trivial, fun _ _ => trivial⟩
  have : dilateBox (0 : K) b = b := by
    simp only [dilateBox, ite_self, mul_zero, sub_zero, add_zero]
  rw [this]; exact (boxLaws_fieldNum sq).refl _

/-- `Aabb::merge` contains both arguments -/
theorem mergeBox_contains (a b : Aabb3 K) :
    letI := fieldNum K sq
    boxContains (mergeBox a b) a = true ∧ boxContains (mergeBox a b) b = true := by
  let _ := fieldNum K sq
  constructor <;> rw [boxContains_iff'] <;>
    simp [mergeBox, V3.inf, V3.sup, fieldNum_nmin, fieldNum_nmax]
