import ParryModel.C08.DriverBase
import ParryModel.C08.Model4
/-!
C08 protocol handlers, round fu3 (see `harness/src/c08_ext.rs`):
`topo` (`check_topology` after every operation), `acc` (`node_aabb` / `leaf_data`), `scal` (`Qbvh::scaled` + a query on the
scaled tree), `dfsx` (early-exit depth-first traversals, ordered), `dfsxp` (the same through the rayon traversal; oracle only).
-/
namespace C08
open Model Model.Qbvh Proto

/-! ## `topo` -/

def bit (b : Bool) : String := if b then "1" else "0"

def topoModel (ops : List POp) : String := Id.run do
  let mut w : World Float := World.empty
  let mut out : Array String := #[]
  for op in ops do
    match stepModel w op with
    | none =>
      out := out.push "PANIC"
      break
    | some (w', _, _) =>
      w := w'
      out := out.push (bit (checkTopology w.q w.cur false) ++ bit (checkTopology w.q w.cur true))
  return " ".intercalate out.toList

/-- The code's own validator must accept the tree after every operation of a history (`check_aabbs = false`), and with
`check_aabbs = true` whenever no update is pending: after a `refit`, and after a `rebalance` / `clear_and_rebuild` that
follows one (decided from the history alone: `settled` is set by `F`, cleared by `I` / `R`, kept by `B` / `C`). -/
def topoOracle (ops : List POp) (out : List String) : String := Id.run do
  if out.contains "PANIC" then return "fail panic"
  if out.length != ops.length then return "fail unparsable-output"
  let mut settled := true
  let mut k := 0
  for (op, t) in ops.zip out do
    match op with
    | .ins _ _ => settled := false
    | .rem _ => settled := false
    | .refit _ => settled := true
    | _ => pure ()
    match t.toList with
    | [a, b] =>
      if a != '1' then return s!"fail check_topology-panics op={k}"
      if settled && b != '1' then return s!"fail check_topology-with-aabbs-panics-on-settled-tree op={k}"
    | _ => return s!"fail unparsable-output op={k}"
    k := k + 1
  return "pass"

/-! ## `acc` -/

def optNat : Option Nat → String
  | some x => toString x
  | none => "-"

def accModel (ops : List POp) : String :=
  match finalModel ops with
  | none => "PANIC"
  | some w =>
    let q := w.q
    let ps := (List.range q.proxies.size).map fun i =>
      match q.proxies[i]? with
      | none => "?"
      | some p =>
        match leafData q p.node p.lane, nodeAabb q p.node p.lane with
        | some d, some b => s!"p {i} {optNat d} {match b with | some bx => joinBits (boxKey bx) | none => "-"}"
        | _, _ => "PANIC"
    let ns := (List.range (q.nodes.size + 1)).map fun i =>
      let ds := lanes4.map fun l => match leafData q i l with
        | some d => optNat d
        | none => "PANIC"
      let has := (lanes4.filter fun l => match nodeAabb q i l with
        | some (some _) => true
        | _ => false).length
      s!"n {i} {" ".intercalate ds} {has}"
    let rs := if q.nodes.size = 0 then [] else lanes4.map fun l =>
      match nodeAabb q 0 l with
      | some (some bx) => s!"r {joinBits (boxKey bx)}"
      | _ => "PANIC"
    " ".intercalate (ps ++ ns ++ rs)

/-- split a token list into records starting at one of the keys -/
def records (keys : List String) (toks : List String) : List (List String) :=
  let rec go (acc : List String) (recs : List (List String)) : List String → List (List String)
    | [] => (if acc.isEmpty then recs else acc.reverse :: recs).reverse
    | t :: rest => if keys.contains t then go [t] (if acc.isEmpty then recs else acc.reverse :: recs) rest else go (t :: acc) recs rest
  go [] [] toks

/-- `node_aabb(proxy.node)` of every live leaf contains its current box (after refit) and `leaf_data(proxy.node)` is the
leaf itself; detached / never-inserted proxies answer `None` to both; every live leaf is some lane's `leaf_data`; the
out-of-range node index answers `None` on all four lanes -/
def accOracle (ops : List POp) (out : List String) : String :=
  if out.head? == some "PANIC" || out.contains "PANIC" then "fail panic" else
  if !(refitLast ops) && !ops.isEmpty then "skip history-does-not-end-with-refit" else
  let live := liveAfter ops
  let recs := records ["p", "n", "r"] out
  let prox := recs.filter (·.head? == some "p")
  let nodes := recs.filter (·.head? == some "n")
  let badP := prox.findSome? fun r =>
    match r with
    | "p" :: i :: d :: rest =>
      match i.toNat? with
      | none => some "fail unparsable-output"
      | some i =>
        match live.find? (·.1 == i) with
        | some (_, bx) =>
          if d != toString i then some s!"fail leaf_data-of-live-leaf-wrong {i}"
          else match floatsOf rest with
            | some fs =>
              if fs.length != 6 then some s!"fail node_aabb-of-live-leaf-missing {i}"
              else if !(boxContains (qbox (box6 fs)) (qbox bx)) then some s!"fail node_aabb-does-not-contain-current-box {i}"
              else none
            | none => some s!"fail node_aabb-of-live-leaf-missing {i}"
        | none => if d != "-" || rest != ["-"] then some s!"fail accessor-answers-for-dead-leaf {i}" else none
    | _ => some "fail unparsable-output"
  match badP with
  | some w => w
  | none =>
    match live.find? (fun (i, _) => !(prox.any fun r => (r.drop 1).head? == some (toString i))) with
    | some (i, _) => s!"fail live-leaf-has-no-proxy-record {i}"
    | none =>
      let datas := nodes.flatMap fun r => ((r.drop 2).take 4).filterMap String.toNat?
      match live.find? (fun (i, _) => !datas.contains i) with
      | some (i, _) => s!"fail live-leaf-not-found-by-leaf_data {i}"
      | none =>
        match nodes.getLast? with
        | some ("n" :: _ :: rest) => if rest == ["-", "-", "-", "-", "0"] then "pass" else "fail out-of-range-node-index-answers"
        | _ => "fail unparsable-output"

/-! ## `scal` -/

def pscal : P (List POp × V3 Float × Aabb3 Float) := do
  let ops ← plist pop; let s ← pv3; let b ← pbox; pend; pure (ops, s, b)

def scalModel (ops : List POp) (s : V3 Float) (qb : Aabb3 Float) : String :=
  match finalModel ops with
  | none => "PANIC"
  | some w =>
    let q2 := scaled w.q s
    match intersectAabb q2 qb with
    | none => "PANIC"
    | some ids => (dumpDelta q2 {} "S" 0).1 ++ " Q " ++ " ".intercalate (ids.map toString)

/-- every lane box on the way from the lane `(n, l)` up to the root is finite and contains `t` -/
def leafPathOk (s : Q Float) (t : Aabb3 Rat) : Nat → Nat → Nat → Bool
  | 0, _, _ => false
  | fuel + 1, n, l =>
    match s.nodes[n]? with
    | none => false
    | some nd =>
      match nd.boxes[l]? with
      | none => false
      | some b => finiteBox b && boxContains (qbox b) t && (n == 0 || leafPathOk s t fuel nd.parent nd.plane)

/-- The scaled tree has the topology of the original (valid, the live leaves reachable exactly once), every lane box
on the path from the root to a live leaf contains that leaf's box scaled by the same `Aabb::scaled` (box-to-box
containment is NOT demanded: `Aabb::scaled` turns the invalid box of an empty lane into a valid huge one),
and `intersect_aabb` on it reports every live leaf whose scaled box overlaps the query, no dead leaf, nothing twice. -/
def scalOracle (ops : List POp) (sc : V3 Float) (qb : Aabb3 Float) (out : List String) : String :=
  if out.head? == some "PANIC" then "fail panic" else
  if !(refitLast ops) && !ops.isEmpty then "skip history-does-not-end-with-refit" else
  if !(finite3 sc) then "skip non-finite-scale" else
  let dumpToks := out.takeWhile (· != "Q")
  let ids? := ((out.dropWhile (· != "Q")).drop 1).mapM String.toNat?
  match splitSegs dumpToks, ids? with
  | [seg], some ids =>
    match applySegment Q.empty seg with
    | none => "fail unparsable-output"
    | some (s, _) =>
      let live := liveAfter ops
      let cur' : Nat → Aabb3 Float := fun d => match live.find? (·.1 == d) with
        | some (_, b) => scaleBox sc b
        | none => invalidBox
      if !checkRoot s then "fail inv-root"
      else if !checkChildren s then "fail inv-child-backpointer"
      else if !checkParents s then "fail inv-parent-backpointer"
      else if !checkLeafProxy s then "fail inv-leaf-proxy"
      else if !checkProxyLeaf s then "fail inv-proxy-leaf"
      else if !checkDepth s then "fail inv-cycle"
      else if !checkFree s.freeList then "fail inv-free-list-duplicate"
      else if !checkFreeBound s then "fail inv-free-list-out-of-range"
      else if sortNat (collect s (s.nodes.size + 1) 0) != sortNat (live.map (·.1)) then "fail reachable-leaves-differ-from-live-set"
      else if !checkData s then "fail proxy-data-differs-from-index"
      else if !(live.all fun (i, _) => match s.proxies[i]? with
          | some pr => leafPathOk s (qbox (cur' i)) (s.nodes.size + 1) pr.node pr.lane
          | none => false) then "fail scaled-lane-box-on-root-path-not-containing-scaled-leaf-box"
      else if ids.eraseDups.length != ids.length then "fail leaf-reported-twice"
      else match ids.find? (fun i => !(live.any (·.1 == i))) with
        | some i => s!"fail dead-leaf-reported {i}"
        | none =>
          let tol : Rat := 1 / 1000000000
          match live.find? (fun (i, _) => overlapBy tol (qbox (cur' i)) (qbox qb) && !ids.contains i) with
          | some (i, _) => s!"fail overlapping-leaf-missed {i}"
          | none => "pass"
  | _, _ => "fail unparsable-output"

/-! ## `dfsx`, `dfsxp` -/

def pdfsx : P (List POp × Aabb3 Float × Nat) := do
  let ops ← plist pop; let b ← pbox; let k ← pnat; pend; pure (ops, b, k)

def dfsxModel (ops : List POp) (qb : Aabb3 Float) (limit : Nat) : String :=
  match finalModel ops with
  | none => "PANIC"
  | some w =>
    match traverseDepthFirst w.q (bvVisit qb limit) 0 ([] : List Nat),
          traverseDepthFirstCtx w.q (bvCtxVisit qb limit) 0 0 ([] : List (Nat × Nat)) with
    | some (o1, r1), some (o2, r2) =>
      let a := " ".intercalate (o1.reverse.map toString)
      let b := " ".intercalate (o2.reverse.map fun (x, d) => s!"{x}@{d}")
      s!"s {bit r1} {a} c {bit r2} {b}"
    | _, _ => "PANIC"

/-- Early-exit semantics judged by brute force: only live leaves, none twice; when the traversal returns `true` the
callback never answered `false` (fewer than `limit` reports) and every live leaf whose box overlaps the query was
reported (`MaybeContinue` masks respected: nothing pruned wrongly); when it returns `false` it stopped AT the report on
which the callback answered `false`: exactly `limit` reports. -/
def dfsxJudge (live : List (Nat × Aabb3 Float)) (qb : Aabb3 Float) (limit : Nat) (k : String) (ret : String) (ids : List Nat) :
    Option String :=
  let tol : Rat := 1 / 1000000000
  if ids.eraseDups.length != ids.length then some s!"fail {k} leaf-reported-twice"
  else match ids.find? (fun i => !(live.any (·.1 == i))) with
    | some i => some s!"fail {k} dead-leaf-reported {i}"
    | none =>
      if ret == "1" then
        if !(ids.length < limit) then some s!"fail {k} continued-after-callback-answered-false"
        else (live.find? (fun (i, bx) => overlapBy tol (qbox bx) (qbox qb) && !ids.contains i)).map fun (i, _) =>
          s!"fail {k} overlapping-leaf-missed {i}"
      else if ret == "0" then
        if ids.length != max limit 1 then some s!"fail {k} early-exit-at-wrong-report {ids.length}" else none
      else some s!"fail unparsable-output {k}"

def dfsxOracle (ops : List POp) (qb : Aabb3 Float) (limit : Nat) (out : List String) : String :=
  if out.head? == some "PANIC" then "fail panic" else
  if !(refitLast ops) && !ops.isEmpty then "skip history-does-not-end-with-refit" else
  let live := liveAfter ops
  match out with
  | "s" :: r1 :: rest =>
    let a := rest.takeWhile (· != "c")
    match (rest.dropWhile (· != "c")) with
    | "c" :: r2 :: b =>
      match a.mapM String.toNat?, b.mapM (fun t => (t.splitOn "@").head?.bind String.toNat?),
            b.mapM (fun t => ((t.splitOn "@").drop 1).head?.bind String.toNat?) with
      | some i1, some i2, some ds =>
        match dfsxJudge live qb limit "with_stack" r1 i1, dfsxJudge live qb limit "with_context" r2 i2 with
        | some w, _ => w
        | _, some w => w
        | none, none =>
          -- the context handed down is the depth: a leaf node below the root sits at depth ≥ 1
          if ds.any (· == 0) then "fail context-not-propagated" else "pass"
      | _, _, _ => "fail unparsable-output"
    | _ => "fail unparsable-output"
  | _ => "fail unparsable-output"

def dfsxpLabels : List String := ["par", "par1", "par2", "par8"]

/-- the rayon traversal with the same early-exit predicate: whatever the schedule, only live leaves are reported, none
twice, and either everything overlapping was reported or at least `limit` leaves were -/
def dfsxpOracle (ops : List POp) (qb : Aabb3 Float) (limit : Nat) (out : List String) : String :=
  if out.head? == some "PANIC" then "fail panic" else
  if !(refitLast ops) && !ops.isEmpty then "skip history-does-not-end-with-refit" else
  let live := liveAfter ops
  let tol : Rat := 1 / 1000000000
  let bad := dfsxpLabels.findSome? fun k =>
    match (segOf dfsxpLabels out k).bind (fun ts => ts.mapM String.toNat?) with
    | none => some s!"fail unparsable-output {k}"
    | some ids =>
      if ids.eraseDups.length != ids.length then some s!"fail {k} leaf-reported-twice"
      else match ids.find? (fun i => !(live.any (·.1 == i))) with
        | some i => some s!"fail {k} dead-leaf-reported {i}"
        | none =>
          if limit ≤ ids.length then none
          else (live.find? (fun (i, bx) => overlapBy tol (qbox bx) (qbox qb) && !ids.contains i)).map fun (i, _) =>
            s!"fail {k} overlapping-leaf-missed-without-early-exit {i}"
  bad.getD "pass"

/-! ## `mixq`, `mixb` (round fu4): long histories with interleaved queries and a shared workspace -/

def pmix : P (List (Nat × Aabb3 Float × V3 Float) × List POp) := do
  let cps ← plist (do let c ← pnat; let b ← pbox; let p ← pv3; pure (c, b, p))
  let ops ← plist pop
  pend
  pure (cps, ops)

/-- the model replays the history; after operation number `cut` it answers every checkpoint with that `cut` through the
transliterated `intersect_aabb` (ordered), then goes on.  The update workspace is not part of the model state: `refit`
and `rebalance` start with `workspace.clear()`, so the foreign tree sharing the workspace on the Rust side is invisible. -/
def mixqModel (cps : List (Nat × Aabb3 Float × V3 Float)) (ops : List POp) : String := Id.run do
  let mut w : World Float := World.empty
  let mut out : Array String := #[]
  let mut n := 0
  for op in ops do
    match stepModel w op with
    | none =>
      out := out.push "PANIC ;"
      break
    | some (w', _, _) =>
      w := w'
      n := n + 1
      for (cut, qb, _) in cps do
        if cut == n then
          match intersectAabb w.q qb with
          | some ids => out := out.push (" ".intercalate ("q" :: ids.map toString ++ [";"]))
          | none => out := out.push "PANIC ;"
  return " ".intercalate out.toList

/-- no update is pending after the prefix: `F` settles, `I` / `R` unsettle, `B` keeps, `C` rebuilds every box afresh;
a `B` on an unsettled tree (outside the documented domain of `rebalance`) voids the box clauses until the next `C` -/
def settledAfter (ops : List POp) : Bool :=
  let r := ops.foldl (fun (st : Bool × Bool) op => match op with
    | .ins _ _ => (false, st.2)
    | .rem _ => (false, st.2)
    | .refit _ => (true, st.2)
    | .rebalance _ => (st.1, st.2 || !st.1)
    | .rebuild _ _ => (true, false)
    | .rebuildS _ _ _ => (true, false)
    | .rebuildN _ _ _ _ _ => (true, false)) (false, false)
  r.1 && !r.2

/-- Oracle for `mixq` / `mixb`: one answer per checkpoint, in order.  At every checkpoint whose prefix is settled the
answer is judged by brute force over the leaves live at that moment (from the arguments alone): `intersect_aabb` reports
every live leaf whose current box overlaps the query box, no dead leaf, nothing twice; the best-first search returns a
live leaf at the exact minimum squared distance (`none` iff no leaf is live). -/
def mixOracle (isq : Bool) (cps : List (Nat × Aabb3 Float × V3 Float)) (ops : List POp) (out : List String) : String := Id.run do
  if out.contains "PANIC" then return "fail panic"
  let segs := (splitSegs out).filter (fun s => !s.isEmpty)
  if segs.length != cps.length then return s!"fail unparsable-output segments={segs.length} checkpoints={cps.length}"
  let mut judged := 0
  let mut k := 0
  for ((cut, qb, pt), seg) in cps.zip segs do
    let pre := ops.take cut
    if settledAfter pre then
      let live := liveAfter pre
      if isq then
        match seg with
        | "q" :: rest =>
          match rest.mapM String.toNat? with
          | none => return s!"fail unparsable-output cp={k}"
          | some ids =>
            if ids.eraseDups.length != ids.length then return s!"fail leaf-reported-twice cp={k} op={cut}"
            match ids.find? (fun i => !(live.any (·.1 == i))) with
            | some i => return s!"fail dead-leaf-reported {i} cp={k} op={cut}"
            | none =>
              match live.find? (fun (i, bx) => overlapQ (qbox bx) (qbox qb) && !ids.contains i) with
              | some (i, _) => return s!"fail overlapping-leaf-missed {i} cp={k} op={cut}"
              | none => judged := judged + 1
        | _ => return s!"fail unparsable-output cp={k}"
      else
        let P := q3 pt
        let best : Option Rat := live.foldl (fun acc (_, bx) =>
          let d := dist2Q P (qbox bx)
          match acc with
          | none => some d
          | some m => some (min m d)) none
        match seg with
        | ["b", "none"] =>
          if best.isSome then return s!"fail nothing-found-although-leaves-exist cp={k} op={cut}"
          judged := judged + 1
        | ["b", c, i] =>
          match pfloatTok c, i.toNat?, best with
          | some cost, some id, some m =>
            match live.find? (·.1 == id) with
            | none => return s!"fail dead-leaf-returned {id} cp={k} op={cut}"
            | some (_, bx) =>
              let d := dist2Q P (qbox bx)
              let cq := q cost
              if !(leTol d cq tolDefault && leTol cq d tolDefault) then return s!"fail cost-differs-from-leaf-distance {id} cp={k}"
              if !(leTol d m tolDefault) then return s!"fail not-the-nearest-leaf {id} cp={k} op={cut}"
              judged := judged + 1
          | _, _, none => return s!"fail leaf-returned-from-empty-tree cp={k} op={cut}"
          | _, _, _ => return s!"fail unparsable-output cp={k}"
        | _ => return s!"fail unparsable-output cp={k}"
    k := k + 1
  if judged == 0 then return "skip no-settled-checkpoint"
  return "pass"

def handlerExt (fn : String) : Option Handler :=
  match fn with
  | "mixq" => some {
      model := fun a => (run pmix a).map fun (cps, ops) => mixqModel cps ops
      oracle := fun a o => match run pmix a with
        | some (cps, ops) => mixOracle true cps ops o
        | none => "skip bad-args" }
  | "mixb" => some {
      model := fun _ => some "-"
      oracle := fun a o => match run pmix a with
        | some (cps, ops) => mixOracle false cps ops o
        | none => "skip bad-args" }
  | "topo" => some {
      model := fun a => (run phist a).map topoModel
      oracle := fun a o => match run phist a with
        | some ops => topoOracle ops o
        | none => "skip bad-args" }
  | "acc" => some {
      model := fun a => (run phist a).map accModel
      oracle := fun a o => match run phist a with
        | some ops => accOracle ops o
        | none => "skip bad-args" }
  | "scal" => some {
      model := fun a => (run pscal a).map fun (ops, s, b) => scalModel ops s b
      oracle := fun a o => match run pscal a with
        | some (ops, s, b) => scalOracle ops s b o
        | none => "skip bad-args" }
  | "dfsx" => some {
      model := fun a => (run pdfsx a).map fun (ops, b, k) => dfsxModel ops b k
      oracle := fun a o => match run pdfsx a with
        | some (ops, b, k) => dfsxOracle ops b k o
        | none => "skip bad-args" }
  | "dfsxp" => some {
      model := fun _ => some "-"
      oracle := fun a o => match run pdfsx a with
        | some (ops, b, k) => dfsxpOracle ops b k o
        | none => "skip bad-args" }
  | _ => none

end C08
