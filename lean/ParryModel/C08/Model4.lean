import ParryModel.C08.Model3
/-!
# C08 model, part 4: the observation points and the remaining single-tree traversals

* `checkTopology` — `Qbvh::check_topology(check_aabbs, aabb_builder)` (`update.rs`), the maintainers' own validator:
  the `while let Some(id) = stack.pop()` loop with its two `found` arrays and every `assert!`;
* `nodeAabb`, `leafData` — `Qbvh::node_aabb`, `Qbvh::leaf_data` (`qbvh.rs`);
* `scaled` — `Qbvh::scaled` with `Aabb::scaled` / `SimdAabb::scaled` (`a = mins * s; b = maxs * s; inf / sup`);
* `dfsLoop` — `Qbvh::traverse_depth_first_node_with_stack` for an arbitrary visitor (state `S`; the visitor returns
  `none` = `SimdVisitStatus::ExitEarly` or `some mask` = `MaybeContinue(mask)`), and `dfsCtxLoop` —
  `traverse_depth_first_node_with_stack_and_context`;
* `bvVisit` — `BoundingVolumeIntersectionsVisitor::visit` with a callback that records the leaf and answers
  `out.len() < limit` (so the traversal exits early at the `limit`-th report).

Same conventions as `Model.lean`: every Rust `v[i]` is `a[i]?` with an explicit panic branch (`none`), a failed
`assert!` is a panic (`none`) too, stacks are lists whose head is the top.
-/
namespace Model
namespace Qbvh
variable {K : Type} [Num K]

/-! ## `Qbvh::node_aabb`, `Qbvh::leaf_data` -/

/-- `Qbvh::node_aabb(NodeIndex { index, lane })`.  Outer `none` = `extract(lane)` panics (`lane ≥ 4`). -/
def nodeAabb (q : Q K) (index lane : Nat) : Option (Option (Aabb3 K)) :=
  match q.nodes[index]? with
  | none => some none
  | some nd =>
    match nd.boxes[lane]? with
    | none => none
    | some b => some (some b)

/-- `Qbvh::leaf_data(NodeIndex { index, lane })`.  Outer `none` = `node.children[lane]` panics (`lane ≥ 4`). -/
def leafData (q : Q K) (index lane : Nat) : Option (Option Nat) :=
  match q.nodes[index]? with
  | none => some none
  | some nd =>
    if !nd.leaf then some none
    else
      match nd.children[lane]? with
      | none => none
      | some c =>
        match q.proxies[c]? with
        | none => some none
        | some pr => some (some pr.data)

/-! ## `Qbvh::scaled` -/

/-- `Aabb::scaled(scale)` = one lane of `SimdAabb::scaled(splat(scale))`:
`a = mins.component_mul(scale); b = maxs.component_mul(scale); Aabb { mins: a.inf(b), maxs: a.sup(b) }` -/
def scaleBox (s : V3 K) (b : Aabb3 K) : Aabb3 K :=
  let a := b.mins.cmul s
  let c := b.maxs.cmul s
  ⟨a.inf c, a.sup c⟩

/-- `Qbvh::scaled(self, scale)`: the root box and the four lane boxes of EVERY slot of `nodes` (also free-listed ones) -/
def scaled (q : Q K) (s : V3 K) : Q K :=
  { q with rootAabb := scaleBox s q.rootAabb,
           nodes := q.nodes.map fun nd => { nd with boxes := nd.boxes.map (scaleBox s) } }

/-! ## `Qbvh::check_topology` -/

/-- the `for ii in 0..SIMD_WIDTH` loop of the leaf case; state = `proxy_id_found`; `none` = panic (index or assert) -/
def ctLeafLanes (q : Q K) (cur : Nat → Aabb3 K) (aabbs : Bool) (id : Nat) (nd : Node K) :
    List Nat → Array Bool → Option (Array Bool)
  | [], pf => some pf
  | ii :: rest, pf =>
    match nd.children[ii]? with
    | none => none
    | some p =>
      if p = MAXN then ctLeafLanes q cur aabbs id nd rest pf
      else
        match pf[p]? with
        | none => none                             -- `proxy_id_found[proxy_id]` out of bounds
        | some true => none                        -- `assert!(!proxy_id_found[proxy_id])`
        | some false =>
          match q.proxies[p]?, nd.boxes[ii]? with
          | some pr, some bx =>
            -- `if check_aabbs { assert!(aabb.contains(&aabb_builder(&proxy.data))) }`
            if aabbs && !(boxContains bx (cur pr.data)) then none
            -- `assert_eq!(self.proxies[proxy_id].node, NodeIndex::new(id, ii))`
            else if !(pr.node == id && pr.lane == ii) then none
            else ctLeafLanes q cur aabbs id nd rest (pf.setIfInBounds p true)
          | _, _ => none

/-- `for child in node.children { if child != u32::MAX { stack.push(child) } }` -/
def ctPush (nd : Node K) (stack : List Nat) : List Nat :=
  lanes4.foldl (fun st l =>
    match nd.children[l]? with
    | some c => if c = MAXN then st else c :: st
    | none => st) stack

/-- the checks made on a popped node other than the root against its parent; `false` = an `assert!` fails or an
index is out of bounds -/
def ctParentOk (q : Q K) (aabbs : Bool) (id : Nat) (nd : Node K) : Bool :=
  match q.nodes[nd.parent]? with
  | none => false
  | some pn =>
    !pn.leaf && (pn.children[nd.plane]? == some id) &&
    (!aabbs ||
      match pn.boxes[nd.plane]? with
      | some b => boxContains b (mergedBox nd.boxes)
      | none => false) &&
    (!nd.changed || pn.changed)

/-- the `while let Some(id) = stack.pop()` loop; state = stack, `node_id_found`, `proxy_id_found`.
`none` = panic (index, `assert!`) or fuel exhausted; result = the final `proxy_id_found`. -/
def ctLoop (q : Q K) (cur : Nat → Aabb3 K) (aabbs : Bool) :
    Nat → List Nat → Array Bool → Array Bool → Option (Array Bool)
  | _, [], _, pf => some pf
  | 0, _ :: _, _, _ => none
  | fuel + 1, id :: stack, nf, pf =>
    match q.nodes[id]?, nf[id]? with
    | some nd, some false =>
      if id != 0 && !(ctParentOk q aabbs id nd) then none
      else if nd.leaf then
        match ctLeafLanes q cur aabbs id nd lanes4 pf with
        | none => none
        | some pf1 => ctLoop q cur aabbs fuel stack (nf.setIfInBounds id true) pf1
      else ctLoop q cur aabbs fuel (ctPush nd stack) (nf.setIfInBounds id true) pf
    | _, _ => none                                  -- index panic, or `assert!(!node_id_found[id])`

/-- number of `true` entries -/
def countTrue (a : Array Bool) : Nat := (a.toList.filter id).length

/-- number of proxies that are not detached (`!p.is_detached()`: `node.index != u32::MAX`) -/
def countAttached (q : Q K) : Nat := (q.proxies.toList.filter fun p => p.node != MAXN).length

/-- `Qbvh::check_topology(check_aabbs, aabb_builder)`: `true` = returns normally, `false` = panics.
Every successful pop marks a fresh slot of `node_id_found`, so `nodes.len() + 1` iterations cannot be exceeded
(`checkTopology_fuel` in `Theorems7.lean`). -/
def checkTopology (q : Q K) (cur : Nat → Aabb3 K) (aabbs : Bool) : Bool :=
  if q.nodes.size = 0 then true
  else
    match ctLoop q cur aabbs (q.nodes.size + 1) [0] (Array.replicate q.nodes.size false)
        (Array.replicate q.proxies.size false) with
    | none => false
    | some pf => countTrue pf == countAttached q

/-! ## `traverse_depth_first_node_with_stack` with an arbitrary visitor -/

/-- `array![|ii| Some(&self.proxies.get(node.children[ii] as usize)?.data); SIMD_WIDTH]` for a leaf, `None` otherwise -/
def leafDataOf (q : Q K) (nd : Node K) : Option (Vector (Option Nat) 4) :=
  if nd.leaf then some (nd.children.map fun c => (q.proxies[c]?).map (·.data)) else none

/-- the `for ii in 0..SIMD_WIDTH` loop after `MaybeContinue(mask)`: children of an internal node whose mask bit is set
and which pass the range guard `children[ii] <= nodes.len()` are pushed in lane order -/
def dfsPush (q : Q K) (nd : Node K) (mask : Vector Bool 4) (stack : List Nat) : List Nat :=
  lanes4.foldl (fun st ii =>
    match mask[ii]?, nd.children[ii]? with
    | some true, some c => if !nd.leaf && decide (c ≤ q.nodes.size) then c :: st else st
    | _, _ => st) stack

/-- `Qbvh::traverse_depth_first_node_with_stack(visitor, stack, start_node)` after `stack.clear(); stack.push(start)`.
`visit s nd data = (s', none)` is `ExitEarly`, `(s', some mask)` is `MaybeContinue(mask)`.
Result: the visitor's final state and the returned `bool` (`false` = exited early); `none` = `self.nodes[entry]`
panics or the fuel ran out. -/
def dfsLoop {S : Type} (q : Q K) (visit : S → Node K → Option (Vector (Option Nat) 4) → S × Option (Vector Bool 4)) :
    Nat → List Nat → S → Option (S × Bool)
  | _, [], s => some (s, true)
  | 0, _ :: _, _ => none
  | fuel + 1, entry :: stack, s =>
    match q.nodes[entry]? with
    | none => none
    | some nd =>
      match visit s nd (leafDataOf q nd) with
      | (s1, none) => some (s1, false)
      | (s1, some mask) => dfsLoop q visit fuel (dfsPush q nd mask stack) s1

/-- `traverse_depth_first_node_with_stack` (`traverse_depth_first`, `_node`, `_with_stack` are this with
`start_node = 0` / a fresh stack) -/
def traverseDepthFirst {S : Type} (q : Q K)
    (visit : S → Node K → Option (Vector (Option Nat) 4) → S × Option (Vector Bool 4)) (start : Nat) (s : S) :
    Option (S × Bool) :=
  if q.nodes.size = 0 then some (s, true) else dfsLoop q visit (4 * q.nodes.size + 8) [start] s

/-- the context variant: the visitor also receives the context of the popped entry and returns one context per lane -/
def dfsCtxPush {C : Type} (q : Q K) (nd : Node K) (mask : Vector Bool 4) (ctxs : Vector C 4) (stack : List (Nat × C)) :
    List (Nat × C) :=
  lanes4.foldl (fun st ii =>
    match mask[ii]?, nd.children[ii]?, ctxs[ii]? with
    | some true, some c, some cx => if !nd.leaf && decide (c ≤ q.nodes.size) then (c, cx) :: st else st
    | _, _, _ => st) stack

/-- `Qbvh::traverse_depth_first_node_with_stack_and_context` -/
def dfsCtxLoop {S C : Type} (q : Q K)
    (visit : S → Node K → Option (Vector (Option Nat) 4) → C → S × Option (Vector Bool 4) × Vector C 4) :
    Nat → List (Nat × C) → S → Option (S × Bool)
  | _, [], s => some (s, true)
  | 0, _ :: _, _ => none
  | fuel + 1, (entry, cx) :: stack, s =>
    match q.nodes[entry]? with
    | none => none
    | some nd =>
      match visit s nd (leafDataOf q nd) cx with
      | (s1, none, _) => some (s1, false)
      | (s1, some mask, ctxs) => dfsCtxLoop q visit fuel (dfsCtxPush q nd mask ctxs stack) s1

def traverseDepthFirstCtx {S C : Type} (q : Q K)
    (visit : S → Node K → Option (Vector (Option Nat) 4) → C → S × Option (Vector Bool 4) × Vector C 4)
    (start : Nat) (cx : C) (s : S) : Option (S × Bool) :=
  if q.nodes.size = 0 then some (s, true) else dfsCtxLoop q visit (4 * q.nodes.size + 8) [(start, cx)] s

/-! ## `BoundingVolumeIntersectionsVisitor` with a counting callback -/

/-- `bv.intersects(&self.bv)` lane by lane -/
def bvMask (qb : Aabb3 K) (nd : Node K) : Vector Bool 4 := nd.boxes.map fun b => boxIntersects b qb

/-- the `for (ii, data) in data.iter().enumerate()` loop of `BoundingVolumeIntersectionsVisitor::visit` with the callback
`|d| { out.push(*d); out.len() < limit }`: state `(out reversed, exited)` -/
def bvReport (limit : Nat) (mask : Vector Bool 4) (data : Vector (Option Nat) 4) (out : List Nat) : List Nat × Bool :=
  lanes4.foldl (fun (st : List Nat × Bool) ii =>
    if st.2 then st
    else
      match mask[ii]?, data[ii]? with
      | some true, some (some d) => (d :: st.1, !(decide (st.1.length + 1 < limit)))
      | _, _ => st) (out, false)

/-- `BoundingVolumeIntersectionsVisitor::visit`; visitor state = the reports so far, newest first -/
def bvVisit (qb : Aabb3 K) (limit : Nat) (out : List Nat) (nd : Node K) (data : Option (Vector (Option Nat) 4)) :
    List Nat × Option (Vector Bool 4) :=
  let mask := bvMask qb nd
  match data with
  | some d =>
    let r := bvReport limit mask d out
    if r.2 then (r.1, none) else (r.1, some mask)
  | none => (out, some mask)

/-- the harness' context visitor: the same box predicate, context = depth (`[ctx + 1; SIMD_WIDTH]` for the children),
reports `(leaf, depth)`, same counting callback -/
def bvCtxVisit (qb : Aabb3 K) (limit : Nat) (out : List (Nat × Nat)) (nd : Node K) (data : Option (Vector (Option Nat) 4))
    (depth : Nat) : List (Nat × Nat) × Option (Vector Bool 4) × Vector Nat 4 :=
  let mask := bvMask qb nd
  let ctxs : Vector Nat 4 := Vector.replicate 4 (depth + 1)
  match data with
  | some d =>
    let r := lanes4.foldl (fun (st : List (Nat × Nat) × Bool) ii =>
      if st.2 then st
      else
        match mask[ii]?, d[ii]? with
        | some true, some (some x) => ((x, depth) :: st.1, !(decide (st.1.length + 1 < limit)))
        | _, _ => st) (out, false)
    if r.2 then (r.1, none, ctxs) else (r.1, some mask, ctxs)
  | none => (out, some mask, ctxs)

end Qbvh
end Model
