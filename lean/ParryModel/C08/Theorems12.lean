import ParryModel.Field
import ParryModel.C08.Theorems11
/-!
# C08 property theorems, part 12: the traversal clause for every reachable state

"Consequently every traversal visits every leaf whose box satisfies the visitor's predicate", stated for the states that
guarded histories reach from the empty tree (the earlier theorems are stated for abstract states satisfying `Inv` and
`BoxInv`).
-/
namespace C08
open Model Model.Qbvh

section boxes
variable {K : Type} [Field K] [LinearOrder K] [IsStrictOrderedRing K] (sq : K → K)

/-- **after ANY guarded history that ends with `refit`, `intersect_aabb` returns exactly the live leaves whose current
box intersects the query, each once.**  For every finite history of the five operations followed by a `refit` (ids
`< u32::MAX`, margins / dilations `≥ 0`, `rebalance` only on a settled tree, `u32Guard`): the model run from the empty
tree completes; on the final tree the transliterated `Qbvh::intersect_aabb` returns (no index panic, the stack loop
ends); its result has no repetition, contains only attached leaves (a removed leaf is never reported) and contains every
attached leaf whose CURRENT box intersects the query box. -/
theorem reachable_query_exact (ops : List (Op2 K)) (m : K) (b : Aabb3 K) :
    letI := fieldNum K sq
    (∀ op ∈ ops, Op2OkB sq op) → 0 ≤ m → WellPlaced false (ops ++ [.base (.refit m)]) →
      WellPlacedT false (ops ++ [.base (.refit m)]) → u32Guard (0, 0) (ops ++ [.base (.refit m)]) = true →
      ∃ (w' : World K) (ids : List Nat), run2 true World.empty (ops ++ [.base (.refit m)]) = some w' ∧
        intersectAabb w'.q b = some ids ∧ ids.Nodup ∧
        (∀ x ∈ ids, ∃ (p : Nat) (pr : Proxy), w'.q.proxies[p]? = some pr ∧ pr.node ≠ MAXN ∧ pr.data = x) ∧
        (∀ (p : Nat) (pr : Proxy), w'.q.proxies[p]? = some pr → pr.node ≠ MAXN →
          boxIntersects (w'.cur pr.data) b = true → pr.data ∈ ids) := by
  letI := fieldNum K sq
  intro hok hm hwp hwt hg
  obtain ⟨w', hr, hinv, hbox⟩ := every_full_history_ends_valid_guarded sq ops m hok hm hwp hwt hg
  have hokS : ∀ op ∈ ops ++ [Op2.base (Op.refit m)], Op2Ok op := by
    intro op hop
    simp only [List.mem_append, List.mem_singleton] at hop
    rcases hop with hop | rfl
    · have := hok op hop
      cases op with
      | base o =>
        cases o with
        | insert id box => exact this
        | remove id => trivial
        | refit m' => trivial
      | rebalance m' => trivial
      | rebuild items dil => exact ⟨this.1, this.2.1, this.2.2.1⟩
    · trivial
  have hd := (run2_preserves_inv_guarded true _ w' hokS hg hr).2
  have hsz : w'.q.nodes.size < MAXN := by
    have := (reachable_sizes_fit true _ w' hokS hg hr).1
    omega
  obtain ⟨ids, hi⟩ := intersectAabb_total w'.q b hinv hsz
  refine ⟨w', ids, hr, hi, intersectAabb_nodup w'.q b hinv hd hsz ids hi, ?_, ?_⟩
  · intro x hx
    obtain ⟨p, pr, _, _, h1, h2, h3, _⟩ := intersectAabb_sound w'.q b hinv hsz ids hi x hx
    exact ⟨p, pr, h1, h2, h3⟩
  · exact intersectAabb_complete sq w'.q w'.cur b ids hinv hbox hsz hi

/-- well-formedness of the operations of a history that ends with `refit m`, in the structural form -/
theorem op2Ok_of_okB (ops : List (Op2 K)) (m : K) :
    letI := fieldNum K sq
    (∀ op ∈ ops, Op2OkB sq op) → ∀ op ∈ ops ++ [Op2.base (Op.refit m)], Op2Ok op := by
  letI := fieldNum K sq
  intro hok op hop
  simp only [List.mem_append, List.mem_singleton] at hop
  rcases hop with hop | rfl
  · have := hok op hop
    cases op with
    | base o =>
      cases o with
      | insert id box => exact this
      | remove id => trivial
      | refit m' => trivial
    | rebalance m' => trivial
    | rebuild items dil => exact ⟨this.1, this.2.1, this.2.2.1⟩
  · trivial

/-- **after ANY two guarded histories that end with `refit`, the simultaneous traversal returns exactly the pairs of
live leaves whose current boxes intersect — each once.**  `traverse_bvtt` (and, by `bvtt_any_schedule`, every schedule of
the parallel variants) on the two final trees, relative pose absent or a unit quaternion: it returns (no index panic,
the stack loop ends), reports no pair twice, and reports every pair of attached leaves whose CURRENT boxes intersect. -/
theorem reachable_bvtt_exact (ops1 ops2 : List (Op2 K)) (m1 m2 : K) (pos : Option (Iso3 K)) :
    letI := fieldNum K sq
    (∀ mm, pos = some mm → mm.qi * mm.qi + mm.qj * mm.qj + mm.qk * mm.qk + mm.qw * mm.qw = 1) →
    (∀ op ∈ ops1, Op2OkB sq op) → (∀ op ∈ ops2, Op2OkB sq op) → 0 ≤ m1 → 0 ≤ m2 →
    WellPlaced false (ops1 ++ [.base (.refit m1)]) → WellPlacedT false (ops1 ++ [.base (.refit m1)]) →
    WellPlaced false (ops2 ++ [.base (.refit m2)]) → WellPlacedT false (ops2 ++ [.base (.refit m2)]) →
    u32Guard (0, 0) (ops1 ++ [.base (.refit m1)]) = true → u32Guard (0, 0) (ops2 ++ [.base (.refit m2)]) = true →
      ∃ (w1 w2 : World K) (res : List (Nat × Nat)),
        run2 true World.empty (ops1 ++ [.base (.refit m1)]) = some w1 ∧
        run2 true World.empty (ops2 ++ [.base (.refit m2)]) = some w2 ∧
        traverseBvtt w1.q w2.q pos = some res ∧ res.Nodup ∧
        ∀ (p1 p2 : Nat) (pr1 pr2 : Proxy), w1.q.proxies[p1]? = some pr1 → w2.q.proxies[p2]? = some pr2 →
          pr1.node ≠ MAXN → pr2.node ≠ MAXN →
          boxIntersects (w1.cur pr1.data) (posedBox pos (w2.cur pr2.data)) = true → (pr1.data, pr2.data) ∈ res := by
  letI := fieldNum K sq
  intro hq hok1 hok2 hm1 hm2 hwp1 hwt1 hwp2 hwt2 hg1 hg2
  obtain ⟨w1, hr1, hinv1, hbox1⟩ := every_full_history_ends_valid_guarded sq ops1 m1 hok1 hm1 hwp1 hwt1 hg1
  obtain ⟨w2, hr2, hinv2, hbox2⟩ := every_full_history_ends_valid_guarded sq ops2 m2 hok2 hm2 hwp2 hwt2 hg2
  obtain ⟨res, hres, hnd⟩ := reachable_bvtt_terminates_each_pair_once true _ _ w1 w2 pos
    (op2Ok_of_okB sq ops1 m1 hok1) (op2Ok_of_okB sq ops2 m2 hok2) hg1 hg2 hr1 hr2
  exact ⟨w1, w2, res, hr1, hr2, hres, hnd,
    bvtt_complete sq w1.q w2.q pos w1.cur w2.cur res hq hinv1 hinv2 hbox1 hbox2 hres⟩

end boxes

/-! ## non-vacuity -/
section examples

/-- all placement and size hypotheses of `reachable_query_exact` / `reachable_bvtt_exact` hold on `histPark` (rebuild of
six leaves, three removes, refit, rebalance) followed by a refit; the well-formedness of its operations (`Op2OkB`) is
the `example` after `full_history_valid_after_refit` in `Theorems4.lean` -/
example : WellPlaced (K := ℚ) false (histPark ++ [.base (.refit 0)]) ∧
    WellPlacedT (K := ℚ) false (histPark ++ [.base (.refit 0)]) ∧
    u32Guard (K := ℚ) (0, 0) (histPark ++ [.base (.refit 0)]) = true := by
  refine ⟨by simp [histPark, WellPlaced, isRebalance, settles], by simp [histPark, WellPlacedT, isRebal, flagT],
    by decide +kernel⟩

end examples

end C08
