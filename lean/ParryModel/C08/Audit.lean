import ParryModel.C08.Theorems
#print axioms C08.remove_preserves_inv
