import ParryModel.C08.Theorems
#print axioms C08.empty_inv
#print axioms C08.remove_preserves_inv
#print axioms C08.preUpdateOrInsert_preserves_inv
#print axioms C08.splitRoot_preserves_inv
#print axioms C08.refit_preserves_inv
#print axioms C08.step_preserves_inv
#print axioms C08.run_preserves_inv
#print axioms C08.step_total
#print axioms C08.boxContains_iff
#print axioms C08.boxLaws_field
#print axioms C08.refit_establishes_boxInv
#print axioms C08.boxInv_semantic
