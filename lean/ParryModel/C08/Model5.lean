import ParryModel.C08.Model2
/-!
# C08 model, part 5 (round fu5): `clear_and_rebuild_with_splitter` for EVERY splitter of `build.rs`

`do_recurse_build_generic` is generic in a `QbvhDataSplitter`; `Model2.buildRec` is its instance for
`CenterDataSplitter { enable_fallback_split: true }` (what `clear_and_rebuild` uses).  Here the recursion is transliterated
once more with the splitter as a parameter:

* `Splitter.center fallback` — `CenterDataSplitter { enable_fallback_split: fallback }`;
* `Splitter.cutting eps refuse` — `QbvhNonOverlappingDataSplitter { canonical_split, epsilon: eps }` with the user callback of
  the harness: leaf `id` is cut into `(id, left piece)` and `(fresh id, right piece)`, fresh ids are handed out by a
  counter; the callback refuses (answers `Negative`) when `refuse > 0 ∧ id % refuse = 0`.

The cutting splitter changes the leaf set while the tree is being built (`BuilderProxies::insert` grows `proxies` and
`aabbs`), so `aabbs`, the fresh-id counter and the user's record of the pieces are part of the threaded state.
Without the fallback split the recursion of the Rust code need not terminate (more than four boxes with one common
centre: the documented reason for the flag); the model takes fuel and answers `none` when it runs out.
-/
namespace Model
namespace Qbvh
variable {K : Type} [Num K]

/-- `Aabb::canonical_split(axis, bias, epsilon)`; `none` = `Positive` / `Negative` (not cut) -/
def canonicalSplit (b : Aabb3 K) (axis : Nat) (bias eps : K) : Option (Aabb3 K × Aabb3 K) :=
  if bias - eps ≤ b.mins.get axis then none
  else if b.maxs.get axis ≤ bias + eps then none
  else some (⟨b.mins, b.maxs.set axis bias⟩, ⟨b.mins.set axis bias, b.maxs⟩)

inductive Splitter (K : Type) where
  | center (fallback : Bool)
  | cutting (eps : K) (refuse : Nat)

/-- builder state: the tree under construction (`proxies` inside), the builder's `aabbs`, the callback's fresh-id counter
and its record of the pieces (most recent first) -/
structure GSt (K : Type) where
  q : Q K
  aabbs : Array (Aabb3 K)
  next : Nat
  cuts : List (Nat × Aabb3 K)

/-- `BuilderProxies::insert(data, aabb)` -/
def builderInsert (ps : Array Proxy) (bs : Array (Aabb3 K)) (index : Nat) (box : Aabb3 K) : Array Proxy × Array (Aabb3 K) :=
  let ps1 := if ps.size ≤ index then ps ++ Array.replicate (index + 1 - ps.size) invalidProxy else ps
  let bs1 := if ps.size ≤ index then bs ++ Array.replicate (index + 1 - bs.size) invalidBox else bs
  (ps1.setIfInBounds index ⟨MAXN, 0, index⟩, bs1.setIfInBounds index box)

/-- step 1, first inner loop for one `dim`: snap to the largest `maxs[dim] <= center[dim]` / smallest `mins[dim] >= center[dim]` -/
def snapLoop (aabbs : Array (Aabb3 K)) (c : K) (dim : Nat) : List Nat → K × K → Option (K × K)
  | [], st => some st
  | i :: rest, (sp, spr) =>
    match aabbs[i]? with
    | none => none
    | some b =>
      let mx := b.maxs.get dim
      let mn := b.mins.get dim
      let sp' := if mx ≤ c ∧ sp < mx then mx else sp
      let spr' := if c ≤ mn ∧ mn < spr then mn else spr
      snapLoop aabbs c dim rest (sp', spr')

/-- step 1, the "try to at least find a splitting point aligned with any Aabb side" loop (with its `break`s) -/
def alignLoop (aabbs : Array (Aabb3 K)) (dim : Nat) (cmin cmax : K) : List Nat → K → Option K
  | [], sp => some sp
  | i :: rest, sp =>
    match aabbs[i]? with
    | none => none
    | some b =>
      let mn := b.mins.get dim
      let mx := b.maxs.get dim
      if mn < cmin then some cmin
      else
        let sp1 := if cmin < mn then mn else sp
        if cmax < mx then some cmax
        else
          let sp2 := if mx < cmax then mx else sp1
          alignLoop aabbs dim cmin cmax rest sp2

def isBig (x : K) : Bool := neq x (-big) || neq x big

/-- step 1 for one `dim`: the new `split_pt[dim]` -/
def snapDim (aabbs : Array (Aabb3 K)) (center : V3 K) (indices : Array Nat) (dim : Nat) : Option K :=
  let c := center.get dim
  match snapLoop aabbs c dim indices.toList (-big, big) with
  | none => none
  | some (sp, spr) =>
    let sp1 := if nabs (spr - c) < nabs (sp - c) then spr else sp
    if isBig sp1 then
      match indices[0]? with
      | none => none
      | some i0 =>
        match aabbs[i0]? with
        | none => none
        | some b0 => alignLoop aabbs dim (b0.mins.get dim) (b0.maxs.get dim) indices.toList sp1
    else some sp1

/-- the user callback of the harness: `none` = refuses to cut -/
def userCut (refuse : Nat) (next : Nat) (data : Nat) : Option (Nat × Nat) :=
  if refuse > 0 ∧ data % refuse = 0 then none else some (data, next)

/-- step 2, the `for k in 0..len` loop for one `dim` (`len` fixed when the loop starts) -/
def cutLoop (eps : K) (refuse : Nat) (dim : Nat) (bias : K) :
    Nat → Nat → Array Nat × Array Proxy × Array (Aabb3 K) × Nat × List (Nat × Aabb3 K) →
    Option (Array Nat × Array Proxy × Array (Aabb3 K) × Nat × List (Nat × Aabb3 K))
  | 0, _, st => some st
  | n + 1, k, (ws, ps, bs, next, cuts) =>
    match ws[k]? with
    | none => none
    | some i =>
      match bs[i]? with
      | none => none
      | some b =>
        match canonicalSplit b dim bias eps with
        | none => cutLoop eps refuse dim bias n (k + 1) (ws, ps, bs, next, cuts)
        | some (l, r) =>
          match ps[i]? with
          | none => none
          | some pr =>
            match userCut refuse next pr.data with
            | none => cutLoop eps refuse dim bias n (k + 1) (ws, ps, bs, next, cuts)
            | some (dl, dr) =>
              let ws1 := (ws.setIfInBounds k dl).push dr
              let (ps1, bs1) := builderInsert ps bs dl l
              let (ps2, bs2) := builderInsert ps1 bs1 dr r
              cutLoop eps refuse dim bias n (k + 1) (ws1, ps2, bs2, next + 1, (dr, r) :: (dl, l) :: cuts)

/-- `<QbvhNonOverlappingDataSplitter as QbvhDataSplitter>::split_dataset` -/
def splitDatasetCutting (eps : K) (refuse : Nat) (d0 d1 : Nat) (center : V3 K) (indices : Array Nat)
    (ps : Array Proxy) (bs : Array (Aabb3 K)) (next : Nat) (cuts : List (Nat × Aabb3 K)) :
    Option ((Array Nat × Array Nat × Array Nat × Array Nat) × Array Proxy × Array (Aabb3 K) × Nat × List (Nat × Aabb3 K)) :=
  let sp0 : V3 K := ⟨-big, -big, -big⟩
  match snapDim bs center indices d0 with
  | none => none
  | some s0 =>
    let spA := sp0.set d0 s0
    match snapDim bs center indices d1 with
    | none => none
    | some s1 =>
      let spB := spA.set d1 s1
      let sp := if isBig (spB.get d0) && isBig (spB.get d1) then center else spB
      match cutLoop eps refuse d0 (sp.get d0) indices.size 0 (indices, ps, bs, next, cuts) with
      | none => none
      | some (ws1, ps1, bs1, next1, cuts1) =>
        match cutLoop eps refuse d1 (sp.get d1) ws1.size 0 (ws1, ps1, bs1, next1, cuts1) with
        | none => none
        | some (ws2, ps2, bs2, next2, cuts2) =>
          match splitDataset bs2 false d0 d1 sp ws2 with
          | none => none
          | some parts => some (parts, ps2, bs2, next2, cuts2)

/-- `do_recurse_build_generic` with the splitter as a parameter -/
def buildRecG (spl : Splitter K) (dil : K) : Nat → GSt K → Array Nat → Nat → Nat → Option (GSt K × Nat × Aabb3 K)
  | fuel, st, indices, par, plane =>
    if indices.size ≤ 4 then
      let myId := st.q.nodes.size
      match buildLeafLoop st.aabbs myId indices.toList 0 (Vector.replicate 4 invalidBox, Vector.replicate 4 MAXN, st.q.proxies) with
      | none => none
      | some (bx, ids, ps) =>
        let node : Node K := ⟨bx.map (dilateBox dil), ids, par, plane, true, false, false⟩
        some ({ st with q := { st.q with nodes := st.q.nodes.push node, proxies := ps } }, myId, mergedBox node.boxes)
    else
      match fuel with
      | 0 => none
      | fuel + 1 =>
        match centerDims st.aabbs indices with
        | none => none
        | some (center, d0, d1) =>
          let id := st.q.nodes.size
          let node : Node K := ⟨Vector.replicate 4 invalidBox, Vector.replicate 4 0, par, plane, false, false, false⟩
          let q0 : Q K := { st.q with nodes := st.q.nodes.push node }
          let split : Option ((Array Nat × Array Nat × Array Nat × Array Nat) × GSt K) :=
            match spl with
            | .center fb => (splitDataset st.aabbs fb d0 d1 center indices).map fun parts => (parts, { st with q := q0 })
            | .cutting eps refuse =>
              (splitDatasetCutting eps refuse d0 d1 center indices q0.proxies st.aabbs st.next st.cuts).map
                fun (parts, ps, bs, next, cuts) => (parts, ⟨{ q0 with proxies := ps }, bs, next, cuts⟩)
          match split with
          | none => none
          | some ((s0, s1, s2, s3), st0) =>
            match buildRecG spl dil fuel st0 s0 id 0 with
            | none => none
            | some (st1, c0, b0) =>
              match buildRecG spl dil fuel st1 s1 id 1 with
              | none => none
              | some (st2, c1, b1) =>
                match buildRecG spl dil fuel st2 s2 id 2 with
                | none => none
                | some (st3, c2, b2) =>
                  match buildRecG spl dil fuel st3 s3 id 3 with
                  | none => none
                  | some (st4, c3, b3) =>
                    match st4.q.nodes[id]? with
                    | none => none
                    | some nd =>
                      let boxes : Vector (Aabb3 K) 4 := (#v[b0, b1, b2, b3] : Vector (Aabb3 K) 4).map (dilateBox dil)
                      let nd' : Node K := { nd with children := #v[c0, c1, c2, c3], boxes := boxes }
                      some ({ st4 with q := { st4.q with nodes := st4.q.nodes.setIfInBounds id nd' } }, id, mergedBox boxes)

/-- recursion budget of `rebuildG`.  With the fallback split the number of indices suffices (`build_terminates`: every
recursive call is on a strictly shorter slice) — the budget `rebuild` uses.  Without it, and with the cutting splitter,
the Rust recursion is unbounded (a stack overflow when it does not terminate): a generous budget, `none` beyond it. -/
def buildFuel : Splitter K → Nat → Nat
  | .center true, n => n
  | _, n => 4 * n + 256

/-- `Qbvh::clear_and_rebuild_with_splitter(data_gen, splitter, dilation_factor)`; also returns the callback's record of
the pieces in call order.  `base` = the first fresh id of the callback. -/
def rebuildG (spl : Splitter K) (base : Nat) (q : Q K) (items : List (Nat × Aabb3 K)) (dil : K) :
    Option (Q K × List (Nat × Aabb3 K)) :=
  let n := items.length
  let (ps, aabbs, indices) := fillProxies items (Array.replicate n invalidProxy, Array.replicate n invalidBox, #[])
  let root : Node K := ⟨Vector.replicate 4 invalidBox, #v[1, MAXN, MAXN, MAXN], MAXN, 0, false, false, false⟩
  let q0 : Q K := { q with freeList := [], nodes := #[root], proxies := ps }
  match buildRecG spl dil (buildFuel spl indices.size) ⟨q0, aabbs, base, []⟩ indices 0 0 with
  | none => none
  | some (st, _, aabb) =>
    let q1 := st.q
    match q1.nodes[0]? with
    | none => none
    | some r =>
      some ({ q1 with rootAabb := aabb,
                      nodes := q1.nodes.setIfInBounds 0 { r with boxes := #v[aabb, invalidBox, invalidBox, invalidBox] } },
            st.cuts.reverse)

/-- the user's current boxes after a cutting build: the items, then the pieces in call order -/
def curAfterCuts (cuts : List (Nat × Aabb3 K)) (cur : Nat → Aabb3 K) : Nat → Aabb3 K :=
  cuts.foldl (fun c (it : Nat × Aabb3 K) => fun d => if d = it.1 then it.2 else c d) cur

end Qbvh
end Model
