import ParryModel.C08.TravLemmas
import ParryModel.C08.TermLemmas
/-!
# C08: every live leaf is reachable from the root exactly once — the depth-first collection `collect` (what the oracle
evaluates on every dumped Rust state) has no repetition, contains only attached proxies and contains all of them
-/
namespace C08
open Model Model.Qbvh
set_option linter.unusedSectionVars false
set_option linter.unusedVariables false
set_option linter.unusedSimpArgs false
variable {K : Type} [Num K]

theorem vec4_toList {α : Type} (v : Vector α 4) : v.toList = [v[0], v[1], v[2], v[3]] := by
  rcases v with ⟨⟨l⟩, h⟩
  match l, h with
  | [a, b, c, d], _ => rfl

theorem vec4_get_lanes {α : Type} (v : Vector α 4) : v.toList = lanes4.filterMap fun l => v[l]? := by
  rw [vec4_toList]; simp [lanes4]

/-- the lanes of a leaf: its non-sentinel children, as a `filterMap` over the lanes -/
theorem leaf_children_eq (nd : Node K) :
    nd.children.toList.filter (· != MAXN) = lanes4.filterMap fun l =>
      match nd.children[l]? with
      | some p => if p = MAXN then none else some p
      | none => none := by
  rw [vec4_toList]
  simp only [lanes4, List.filterMap_cons, List.filterMap_nil]
  have e : ∀ i (h : i < 4), nd.children[i]? = some nd.children[i] := fun i h => by simp [h]
  rw [e 0 (by omega), e 1 (by omega), e 2 (by omega), e 3 (by omega)]
  simp only [List.filter_cons, List.filter_nil, bne_iff_ne, ne_eq, ite_not]
  by_cases h0 : nd.children[0] = MAXN <;> by_cases h1 : nd.children[1] = MAXN <;> by_cases h2 : nd.children[2] = MAXN <;>
    by_cases h3 : nd.children[3] = MAXN <;> simp [h0, h1, h2, h3]

/-- the subtrees of an internal node, as a `flatMap` over the lanes -/
theorem internal_children_eq (q : Q K) (fuel : Nat) (nd : Node K) :
    (nd.children.toList.flatMap fun c => if c == MAXN then [] else collect q fuel c) =
      lanes4.flatMap fun l =>
        match nd.children[l]? with
        | some c => if c = MAXN then [] else collect q fuel c
        | none => [] := by
  rw [vec4_toList]
  have e : ∀ i (h : i < 4), nd.children[i]? = some nd.children[i] := fun i h => by simp [h]
  simp only [lanes4, List.flatMap_cons, List.flatMap_nil, e 0 (by omega), e 1 (by omega), e 2 (by omega), e 3 (by omega),
    beq_iff_eq]

/-- **no leaf is reachable twice**: the collection below a live node has no repetition and consists of attached proxies
whose leaf node lies below that node -/
theorem collect_spec {q : Q K} (hinv : Inv q) {d : Nat → Nat} (hd : IsDepth q d) :
    ∀ (fuel n : Nat), Live q n → n < q.nodes.size →
      (collect q fuel n).Nodup ∧ ∀ p ∈ collect q fuel n, ∃ pr : Proxy, q.proxies[p]? = some pr ∧ pr.node ≠ MAXN ∧ Anc q n pr.node := by
  intro fuel
  induction fuel with
  | zero => intro n _ _; simp [collect]
  | succ fuel ih =>
    intro n hlive hlt
    have hnd : q.nodes[n]? = some q.nodes[n] := by simp [hlt]
    generalize q.nodes[n] = nd at hnd
    simp only [collect, hnd]
    by_cases hleaf : nd.leaf = true
    · simp only [hleaf, if_true]
      rw [leaf_children_eq]
      have key : ∀ (l p : Nat), (match nd.children[l]? with
          | some p => if p = MAXN then none else some p
          | none => none) = some p → ∃ pr : Proxy, q.proxies[p]? = some pr ∧ pr.node = n ∧ pr.lane = l ∧ p ≠ MAXN := by
        intro l p h
        cases hc : nd.children[l]? with
        | none => simp [hc] at h
        | some c =>
          simp only [hc] at h
          split at h
          · cases h
          · rename_i hne
            cases h
            obtain ⟨pr, e1, e2, e3⟩ := hinv.leafProxy n nd hnd hlive hleaf l p hc hne
            exact ⟨pr, e1, e2, e3, hne⟩
      constructor
      · apply List.Nodup.filterMap _ lanes4_nodup
        intro l l' p h1 h2
        obtain ⟨pr, a1, _, a3, _⟩ := key l p (by simpa using h1)
        obtain ⟨pr', b1, _, b3, _⟩ := key l' p (by simpa using h2)
        rw [a1] at b1; cases b1; omega
      · intro p hp
        obtain ⟨l, _, hl⟩ := List.mem_filterMap.1 hp
        obtain ⟨pr, a1, a2, _, _⟩ := key l p hl
        refine ⟨pr, a1, ?_, by rw [a2]; exact Anc.refl⟩
        rw [a2]; have := hinv.small; omega
    · simp only [Bool.not_eq_true] at hleaf
      simp only [hleaf, Bool.false_eq_true, if_false]
      rw [internal_children_eq]
      -- the piece of lane `l`
      have piece : ∀ (l : Nat), ∀ p ∈ (match nd.children[l]? with
          | some c => if c = MAXN then [] else collect q fuel c
          | none => []), ∃ c, nd.children[l]? = some c ∧ c ≠ MAXN ∧ IsChild q n c ∧ c < q.nodes.size ∧ p ∈ collect q fuel c := by
        intro l p hp
        cases hc : nd.children[l]? with
        | none => simp [hc] at hp
        | some c =>
          simp only [hc] at hp
          split at hp
          · simp at hp
          · rename_i hne
            obtain ⟨h0, cl, cn, hcn, hpa, _⟩ := hinv.child n nd hnd hlive hleaf l c hc hne
            exact ⟨c, rfl, hne, ⟨cn, hcn, hpa, cl, h0⟩, (Array.getElem?_eq_some_iff.mp hcn).1, hp⟩
      constructor
      · rw [List.nodup_flatMap]
        constructor
        · intro l _
          cases hc : nd.children[l]? with
          | none => exact List.nodup_nil
          | some c =>
            simp only
            split
            · exact List.nodup_nil
            · rename_i hne
              obtain ⟨h0, cl, cn, hcn, _, _⟩ := hinv.child n nd hnd hlive hleaf l c hc hne
              exact (ih c cl (Array.getElem?_eq_some_iff.mp hcn).1).1
        · refine List.Pairwise.imp_of_mem ?_ lanes4_nodup
          intro l l' _ _ hne p hp hp'
          obtain ⟨c, hc, hcm, hch, hclt, hpc⟩ := piece l p hp
          obtain ⟨c', hc', hcm', hch', hclt', hpc'⟩ := piece l' p hp'
          obtain ⟨cn, hcn, _, cl, _⟩ := hch
          obtain ⟨cn', hcn', _, cl', _⟩ := hch'
          obtain ⟨pr, a1, _, a3⟩ := (ih c cl hclt).2 p hpc
          obtain ⟨pr', b1, _, b3⟩ := (ih c' cl' hclt').2 p hpc'
          rw [a1] at b1; cases b1
          have hcc : c ≠ c' := by
            intro e; subst e
            obtain ⟨_, _, x, hx, _, hpl⟩ := hinv.child n nd hnd hlive hleaf l c hc hcm
            obtain ⟨_, _, x', hx', _, hpl'⟩ := hinv.child n nd hnd hlive hleaf l' c hc' hcm
            rw [hx] at hx'; cases hx'
            omega
          have s1 : IsChild q n c := by
            obtain ⟨h0, _, x, hx, hpa, _⟩ := hinv.child n nd hnd hlive hleaf l c hc hcm
            exact ⟨x, hx, hpa, cl, h0⟩
          have s2 : IsChild q n c' := by
            obtain ⟨h0, _, x, hx, hpa, _⟩ := hinv.child n nd hnd hlive hleaf l' c' hc' hcm'
            exact ⟨x, hx, hpa, cl', h0⟩
          rcases Anc.chain a3 b3 with h | h
          · exact sibling_unrel hd s1 s2 hcc h
          · exact sibling_unrel hd s2 s1 (Ne.symm hcc) h
      · intro p hp
        obtain ⟨l, _, hl⟩ := List.mem_flatMap.1 hp
        obtain ⟨c, hc, hcm, hch, hclt, hpc⟩ := piece l p hl
        obtain ⟨cn, hcn, hpa, cl, h0⟩ := hch
        obtain ⟨pr, a1, a2, a3⟩ := (ih c cl hclt).2 p hpc
        exact ⟨pr, a1, a2, (IsChild.anc ⟨cn, hcn, hpa, cl, h0⟩).trans a3⟩

/-- the collection of the parent contains the collection of the child (one more unit of fuel) -/
theorem collect_up {q : Q K} (hinv : Inv q) (x : Nat) (nd : Node K) (hx : q.nodes[x]? = some nd) (hl : Live q x) (h0 : x ≠ 0)
    (fuel p : Nat) (hp : p ∈ collect q fuel x) : p ∈ collect q (fuel + 1) nd.parent := by
  obtain ⟨plive, pn, hpn, pleaf, pch⟩ := hinv.par x nd hx hl h0
  simp only [collect, hpn, pleaf, Bool.false_eq_true, if_false]
  rw [internal_children_eq]
  have hlane : nd.plane ∈ lanes4 := lane_mem4 _ _ _ pch
  refine List.mem_flatMap.2 ⟨nd.plane, hlane, ?_⟩
  have hxm : x ≠ MAXN := by
    have := (Array.getElem?_eq_some_iff.mp hx).1
    have := hinv.small
    omega
  simp [pch, hxm, hp]

/-- **every live leaf is reachable**: an attached proxy is in the collection from the root as soon as the fuel exceeds
the depth of its leaf node -/
theorem collect_complete {q : Q K} (hinv : Inv q) {d : Nat → Nat} (hd : IsDepth q d) (p : Nat) (pr : Proxy)
    (hp : q.proxies[p]? = some pr) (hne : pr.node ≠ MAXN) : ∀ fuel, d pr.node < fuel → p ∈ collect q fuel 0 := by
  obtain ⟨plive, nd, hnd, hleaf, hch⟩ := hinv.proxyLeaf p pr hp hne
  have hpm : p ≠ MAXN := by
    have := (Array.getElem?_eq_some_iff.mp hp).1
    have := hinv.psmall
    omega
  -- at the leaf node itself
  have base : ∀ fuel, 0 < fuel → p ∈ collect q fuel pr.node := by
    intro fuel hf
    obtain ⟨f, rfl⟩ : ∃ f, fuel = f + 1 := ⟨fuel - 1, by omega⟩
    simp only [collect, hnd, hleaf, if_true]
    rw [leaf_children_eq]
    exact List.mem_filterMap.2 ⟨pr.lane, lane_mem4 _ _ _ hch, by simp [hch, hpm]⟩
  -- climb to the root
  have climb : ∀ (k x : Nat), d x = k → Live q x → (∃ nx : Node K, q.nodes[x]? = some nx) →
      ∀ j, (∀ fuel, j < fuel → p ∈ collect q fuel x) → ∀ fuel, j + k < fuel → p ∈ collect q fuel 0 := by
    intro k
    induction k with
    | zero =>
      intro x hk hl ⟨nx, hx⟩ j hj fuel hf
      by_cases hx0 : x = 0
      · subst hx0; exact hj fuel (by omega)
      · have := hd.2 x nx hx hl hx0; omega
    | succ k ih =>
      intro x hk hl ⟨nx, hx⟩ j hj fuel hf
      by_cases hx0 : x = 0
      · subst hx0; exact hj fuel (by omega)
      · have hdx := hd.2 x nx hx hl hx0
        obtain ⟨pl, pn, hpn, _, _⟩ := hinv.par x nx hx hl hx0
        refine ih nx.parent (by omega) pl ⟨pn, hpn⟩ (j + 1) ?_ fuel (by omega)
        intro f hf'
        obtain ⟨f', rfl⟩ : ∃ f', f = f' + 1 := ⟨f - 1, by omega⟩
        exact collect_up hinv x nx hx hl hx0 f' p (hj f' (by omega))
  intro fuel hf
  exact climb (d pr.node) pr.node rfl plive ⟨nd, hnd⟩ 0 (fun f hf' => base f hf') fuel (by omega)

end C08
