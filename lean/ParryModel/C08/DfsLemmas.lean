import ParryModel.C08.TravLemmas
/-!
# C08: the masked depth-first visit order `dfsTrace`; `traverse_depth_first_node_with_stack` (any visitor, early exit) and
`intersect_aabb` expressed through it
-/
namespace C08
open Model Model.Qbvh
set_option linter.unusedSectionVars false
set_option linter.unusedVariables false
set_option linter.unusedSimpArgs false
variable {K : Type} [Num K]

/-- **the node visit order of the masked depth-first stack traversal** when no visit exits early: pop, visit, push the
children selected by `maskOf` (lane order, range guard) — the skeleton shared by `traverse_depth_first_node_with_stack`,
`intersect_aabb` and (as a set) the rayon traversal -/
def dfsTrace (q : Q K) (maskOf : Node K → Vector Bool 4) : Nat → List Nat → Option (List Nat)
  | _, [] => some []
  | 0, _ :: _ => none
  | fuel + 1, entry :: stack =>
    match q.nodes[entry]? with
    | none => none
    | some nd => (dfsTrace q maskOf fuel (dfsPush q nd (maskOf nd) stack)).map (entry :: ·)

/-- what `dfsPush` pushes for lane `l` -/
def pushLane (q : Q K) (nd : Node K) (mask : Vector Bool 4) (l : Nat) : Option Nat :=
  match mask[l]?, nd.children[l]? with
  | some true, some c => if !nd.leaf && decide (c ≤ q.nodes.size) then some c else none
  | _, _ => none

theorem dfsPush_eq (q : Q K) (nd : Node K) (mask : Vector Bool 4) (stack : List Nat) :
    dfsPush q nd mask stack = (lanes4.filterMap (pushLane q nd mask)).reverse ++ stack := by
  rw [← foldl_push_spec]
  unfold dfsPush
  congr 1
  funext st l
  unfold pushLane
  cases hm : mask[l]? with
  | none => simp
  | some m =>
    cases m with
    | false => simp
    | true =>
      cases hc : nd.children[l]? with
      | none => simp
      | some c => by_cases hg : (!nd.leaf && decide (c ≤ q.nodes.size)) = true <;> simp [hg]

/-- one masked step of the traversal: from an internal node to a child whose lane passes the mask and the range guard -/
def MStep (q : Q K) (maskOf : Node K → Vector Bool 4) (s c : Nat) : Prop :=
  ∃ nd : Node K, q.nodes[s]? = some nd ∧ ∃ l ∈ lanes4, pushLane q nd (maskOf nd) l = some c

/-- the nodes ANY schedule of the masked traversal visits below `s` -/
inductive MReach (q : Q K) (maskOf : Node K → Vector Bool 4) : Nat → Nat → Prop
  | refl (s : Nat) : MReach q maskOf s s
  | step {s c n : Nat} : MStep q maskOf s c → MReach q maskOf c n → MReach q maskOf s n

theorem pushLane_spec (q : Q K) (nd : Node K) (mask : Vector Bool 4) (l c : Nat) (h : pushLane q nd mask l = some c) :
    mask[l]? = some true ∧ nd.children[l]? = some c ∧ nd.leaf = false ∧ c ≤ q.nodes.size := by
  unfold pushLane at h
  split at h
  · rename_i c' hm hc
    split at h
    · rename_i hg
      cases h
      simp only [Bool.and_eq_true, Bool.not_eq_true', decide_eq_true_eq] at hg
      exact ⟨hm, hc, hg.1, hg.2⟩
    · cases h
  · cases h

/-- **the visit order on a valid tree**: from a front, the trace exists within the fuel (`nodes.len()` pops at most), no
node occurs twice, none was visited before, and the nodes visited are exactly those reachable by masked steps from the
entries on the stack -/
theorem dfsTrace_spec {q : Q K} (hinv : Inv q) (hsz : q.nodes.size < MAXN) {d : Nat → Nat} (hd : IsDepth q d)
    (maskOf : Node K → Vector Bool 4) :
    ∀ (fuel : Nat) (stack done : List Nat), Front q stack done → q.nodes.size ≤ fuel + done.length →
      ∃ T : List Nat, dfsTrace q maskOf fuel stack = some T ∧ T.Nodup ∧ (∀ n ∈ T, n ∉ done ∧ Live q n ∧ n < q.nodes.size) ∧
        (∀ n, n ∈ T ↔ ∃ s ∈ stack, MReach q maskOf s n) := by
  intro fuel
  induction fuel with
  | zero =>
    intro stack done f hfu
    cases stack with
    | nil => exact ⟨[], rfl, List.nodup_nil, by simp, by simp⟩
    | cons s st => have := f.done_length; omega
  | succ fuel ih =>
    intro stack done f hfu
    cases stack with
    | nil => exact ⟨[], rfl, List.nodup_nil, by simp, by simp⟩
    | cons s st =>
      obtain ⟨slive, slt⟩ := f.live s (by simp)
      have hnd : q.nodes[s]? = some q.nodes[s] := by simp [slt]
      generalize q.nodes[s] = nd at hnd
      have hcs : (lanes4.filterMap (pushLane q nd (maskOf nd))).Nodup ∧
          ∀ c ∈ lanes4.filterMap (pushLane q nd (maskOf nd)), IsChild q s c ∧ c < q.nodes.size := by
        by_cases hleaf : nd.leaf = false
        · exact children_filterMap hinv s nd hnd slive hleaf _ (fun l c h => by
            obtain ⟨_, h2, _, h4⟩ := pushLane_spec q nd _ l c h
            exact ⟨h2, by omega⟩)
        · have : lanes4.filterMap (pushLane q nd (maskOf nd)) = [] := by
            apply List.filterMap_eq_nil_iff.2
            intro l _
            cases hp : pushLane q nd (maskOf nd) l with
            | none => rfl
            | some c => exact absurd (pushLane_spec q nd _ l c hp).2.2.1 hleaf
          rw [this]; exact ⟨List.nodup_nil, by simp⟩
      have f' : Front q ((lanes4.filterMap (pushLane q nd (maskOf nd))).reverse ++ st) (s :: done) :=
        f.step hd (List.nodup_reverse.2 hcs.1) (fun c hc => hcs.2 c (List.mem_reverse.1 hc))
      obtain ⟨T, hT, hnodup, hprop, hreach⟩ := ih _ _ f' (by simp only [List.length_cons]; omega)
      refine ⟨s :: T, ?_, ?_, ?_, ?_⟩
      · simp only [dfsTrace, hnd, dfsPush_eq, hT, Option.map_some]
      · exact List.nodup_cons.2 ⟨fun h => (hprop s h).1 (by simp), hnodup⟩
      · intro n hn
        rcases List.mem_cons.1 hn with rfl | hn
        · exact ⟨f.not_done, slive, slt⟩
        · obtain ⟨h1, h2, h3⟩ := hprop n hn
          exact ⟨fun h => h1 (by simp [h]), h2, h3⟩
      · intro n
        constructor
        · intro hn
          rcases List.mem_cons.1 hn with rfl | hn
          · exact ⟨_, by simp, MReach.refl _⟩
          · obtain ⟨x, hx, hr⟩ := (hreach n).1 hn
            rcases List.mem_append.1 hx with hx | hx
            · obtain ⟨l, hl, hpl⟩ := List.mem_filterMap.1 (List.mem_reverse.1 hx)
              exact ⟨s, by simp, MReach.step ⟨nd, hnd, l, hl, hpl⟩ hr⟩
            · exact ⟨x, by simp [hx], hr⟩
        · rintro ⟨x, hx, hr⟩
          rcases List.mem_cons.1 hx with rfl | hx
          · cases hr with
            | refl => simp
            | step hs hr' =>
              obtain ⟨nd', hnd', l, hl, hpl⟩ := hs
              rw [hnd] at hnd'; cases hnd'
              refine List.mem_cons_of_mem _ ((hreach n).2 ⟨_, ?_, hr'⟩)
              exact List.mem_append_left _ (List.mem_reverse.2 (List.mem_filterMap.2 ⟨l, hl, hpl⟩))
          · exact List.mem_cons_of_mem _ ((hreach n).2 ⟨x, List.mem_append_right _ hx, hr⟩)

/-- the trace from the root -/
theorem dfsTrace_root {q : Q K} (hinv : Inv q) (hsz : q.nodes.size < MAXN) (hpos : 0 < q.nodes.size)
    (maskOf : Node K → Vector Bool 4) (fuel : Nat) (hfu : q.nodes.size ≤ fuel) :
    ∃ T : List Nat, dfsTrace q maskOf fuel [0] = some T ∧ T.Nodup ∧ (∀ n ∈ T, Live q n ∧ n < q.nodes.size) ∧
      (∀ n, n ∈ T ↔ MReach q maskOf 0 n) := by
  obtain ⟨d, hd⟩ := hinv.depth
  obtain ⟨T, h1, h2, h3, h4⟩ := dfsTrace_spec hinv hsz (d := d) hd maskOf fuel [0] [] (Front.root hinv hpos) (by simpa using hfu)
  exact ⟨T, h1, h2, fun n hn => (h3 n hn).2, fun n => by simpa using h4 n⟩

/-! ## early exit: the traversal with any visitor is a prefix of the trace -/

/-- fold the visitor along the visit order, stopping at the first node where it exits -/
def runPrefix {S : Type} (q : Q K) (upd : S → Node K → Option (Vector (Option Nat) 4) → S)
    (stop : S → Node K → Option (Vector (Option Nat) 4) → Bool) : List Nat → S → S × Bool
  | [], s => (s, true)
  | n :: T, s =>
    match q.nodes[n]? with
    | none => (s, true)
    | some nd =>
      if stop s nd (leafDataOf q nd) then (upd s nd (leafDataOf q nd), false)
      else runPrefix q upd stop T (upd s nd (leafDataOf q nd))

/-- **`ExitEarly` stops the traversal, `MaybeContinue(mask)` follows the mask**: for a visitor whose mask depends on the
node only, `traverse_depth_first_node_with_stack` visits the nodes of the full traversal's visit order, in that order,
up to and including the first node at which the visitor answers `ExitEarly`; it returns `false` exactly in that case. -/
theorem dfsLoop_eq_runPrefix {S : Type} (q : Q K) (maskOf : Node K → Vector Bool 4)
    (upd : S → Node K → Option (Vector (Option Nat) 4) → S) (stop : S → Node K → Option (Vector (Option Nat) 4) → Bool)
    (visit : S → Node K → Option (Vector (Option Nat) 4) → S × Option (Vector Bool 4))
    (hv : ∀ s nd data, visit s nd data = (upd s nd data, if stop s nd data then none else some (maskOf nd))) :
    ∀ (fuel : Nat) (stack T : List Nat) (s : S), dfsTrace q maskOf fuel stack = some T →
      dfsLoop q visit fuel stack s = some (runPrefix q upd stop T s) := by
  intro fuel
  induction fuel with
  | zero =>
    intro stack T s h
    cases stack with
    | nil => simp only [dfsTrace, Option.some.injEq] at h; subst h; rfl
    | cons e st => simp [dfsTrace] at h
  | succ fuel ih =>
    intro stack T s h
    cases stack with
    | nil => simp only [dfsTrace, Option.some.injEq] at h; subst h; rfl
    | cons e st =>
      simp only [dfsTrace] at h
      cases hnd : q.nodes[e]? with
      | none => simp [hnd] at h
      | some nd =>
        simp only [hnd] at h
        cases hT : dfsTrace q maskOf fuel (dfsPush q nd (maskOf nd) st) with
        | none => simp [hT] at h
        | some T' =>
          simp only [hT, Option.map_some, Option.some.injEq] at h
          subst h
          simp only [dfsLoop, hnd, hv, runPrefix]
          by_cases hs : stop s nd (leafDataOf q nd) = true
          · simp [hs]
          · simp only [hs, Bool.false_eq_true, if_false]
            exact ih _ _ _ hT

/-! ## `intersect_aabb` through the trace -/

/-- what `intersect_aabb` reports at lane `l` of a node -/
def reportLane (q : Q K) (b : Aabb3 K) (nd : Node K) (l : Nat) : Option Nat :=
  match nd.boxes[l]?, nd.children[l]? with
  | some bx, some c =>
    if boxIntersects bx b && nd.leaf then (q.proxies[c]?).map (·.data) else none
  | _, _ => none

/-- the leaves reported when node `n` is visited, in lane order -/
def nodeReports (q : Q K) (b : Aabb3 K) (n : Nat) : List Nat :=
  match q.nodes[n]? with
  | some nd => lanes4.filterMap (reportLane q b nd)
  | none => []

theorem foldl_pair_spec {α β : Type} (g1 : Nat → Option α) (g2 : Nat → Option β)
    (f : List α × List β → Nat → List α × List β)
    (hf : ∀ so l, f so l = ((match g1 l with
      | some x => x :: so.1
      | none => so.1), (match g2 l with
      | some y => y :: so.2
      | none => so.2))) :
    ∀ (ls : List Nat) (st : List α) (out : List β),
      ls.foldl f (st, out) = ((ls.filterMap g1).reverse ++ st, (ls.filterMap g2).reverse ++ out) := by
  intro ls
  induction ls with
  | nil => intro st out; simp
  | cons l ls ih =>
    intro st out
    simp only [List.foldl_cons, List.filterMap_cons, hf]
    cases h1 : g1 l <;> cases h2 : g2 l <;> simp [ih]

theorem bvMask_get (b : Aabb3 K) (nd : Node K) (l : Nat) :
    (bvMask b nd)[l]? = (nd.boxes[l]?).map fun bx => boxIntersects bx b := by
  unfold bvMask
  rw [Vector.getElem?_map]

theorem intersectLanes_eq (q : Q K) (b : Aabb3 K) (nd : Node K) (stack out : List Nat) :
    intersectLanes q b nd stack out =
      (dfsPush q nd (bvMask b nd) stack, (lanes4.filterMap (reportLane q b nd)).reverse ++ out) := by
  rw [dfsPush_eq]
  unfold intersectLanes
  have := foldl_pair_spec (pushLane q nd (bvMask b nd)) (reportLane q b nd)
    (fun (so : List Nat × List Nat) ii =>
      match nd.boxes[ii]?, nd.children[ii]? with
      | some bx, some c =>
        if boxIntersects bx b then
          if nd.leaf then
            match q.proxies[c]? with
            | some pr => (so.1, pr.data :: so.2)
            | none => so
          else if c ≤ q.nodes.size then (c :: so.1, so.2) else so
        else so
      | _, _ => so) ?_ [0, 1, 2, 3] stack out
  · exact this
  · intro so l
    unfold pushLane reportLane
    rw [bvMask_get]
    cases hb : nd.boxes[l]? with
    | none => simp
    | some bx =>
      cases hc : nd.children[l]? with
      | none => simp
      | some c =>
        simp only [Option.map_some]
        by_cases hi : boxIntersects bx b = true
        · by_cases hl : nd.leaf = true
          · simp only [hi, hl, if_true, Bool.and_self, Bool.not_true, Bool.false_and, Bool.false_eq_true, if_false]
            cases q.proxies[c]? <;> simp
          · simp only [Bool.not_eq_true] at hl
            simp only [hi, hl, if_true, Bool.and_false, Bool.false_eq_true, if_false, Bool.not_false, Bool.true_and,
              decide_eq_true_eq]
            by_cases hle : c ≤ q.nodes.size <;> simp [hle]
        · simp only [Bool.not_eq_true] at hi
          simp [hi]

/-- **`intersect_aabb` = the reports of the visited nodes, in visit order** -/
theorem intersectLoop_eq (q : Q K) (b : Aabb3 K) :
    ∀ (fuel : Nat) (stack out : List Nat),
      intersectLoop q b fuel stack out =
        (dfsTrace q (bvMask b) fuel stack).map fun T => out.reverse ++ T.flatMap (nodeReports q b) := by
  intro fuel
  induction fuel with
  | zero =>
    intro stack out
    cases stack with
    | nil => simp [intersectLoop, dfsTrace]
    | cons e st => simp [intersectLoop, dfsTrace]
  | succ fuel ih =>
    intro stack out
    cases stack with
    | nil => simp [intersectLoop, dfsTrace]
    | cons e st =>
      simp only [intersectLoop, dfsTrace]
      cases hnd : q.nodes[e]? with
      | none => simp
      | some nd =>
        simp only [intersectLanes_eq, ih]
        cases hT : dfsTrace q (bvMask b) fuel (dfsPush q nd (bvMask b nd) st) with
        | none => simp
        | some T => simp [nodeReports, hnd]

/-! ## completeness along a path of containing lane boxes -/

/-- a mask that accepts every lane whose box contains `t` -/
def MaskAccepts (maskOf : Node K → Vector Bool 4) (t : Aabb3 K) : Prop :=
  ∀ (nd : Node K) (l : Nat) (bx : Aabb3 K), nd.boxes[l]? = some bx → boxContains bx t = true → (maskOf nd)[l]? = some true

/-- along a path of lane boxes containing `t`, a mask accepting such lanes leads to the leaf node holding `p` -/
theorem mreach_of_path {q : Q K} (maskOf : Node K → Vector Bool 4) (p : Nat) (t : Aabb3 K) (hm : MaskAccepts maskOf t) :
    ∀ a, PathTo q p t a → ∃ (n : Nat) (nd : Node K) (l : Nat) (bx : Aabb3 K), MReach q maskOf a n ∧ q.nodes[n]? = some nd ∧
      nd.leaf = true ∧ nd.children[l]? = some p ∧ nd.boxes[l]? = some bx ∧ boxContains bx t = true := by
  intro a h
  induction h with
  | leaf a nd l bx hn hl hc hb hcont => exact ⟨a, nd, l, bx, MReach.refl _, hn, hl, hc, hb, hcont⟩
  | inner a nd l c bx hn hl hc hlt hb hcont _ ih =>
    obtain ⟨n, nd', l', bx', hr, rest⟩ := ih
    refine ⟨n, nd', l', bx', MReach.step ⟨nd, hn, l, lane_mem4 _ _ _ hb, ?_⟩ hr, rest⟩
    unfold pushLane
    rw [hm nd l bx hb hcont, hc]
    simp [hl]; omega

end C08
