import ParryModel.C08.TravLemmas
/-!
# C08: the masked depth-first visit order `dfsTrace`; `traverse_depth_first_node_with_stack` (any visitor, early exit) and
`intersect_aabb` expressed through it
-/
namespace C08
open Model Model.Qbvh
set_option linter.unusedSectionVars false
set_option linter.unusedVariables false
set_option linter.unusedSimpArgs false
variable {K : Type} [Num K]

/-- **the node visit order of the masked depth-first stack traversal** when no visit exits early: pop, visit, push the
children selected by `maskOf` (lane order, range guard) — the skeleton shared by `traverse_depth_first_node_with_stack`,
`intersect_aabb` and (as a set) the rayon traversal -/
def dfsTrace (q : Q K) (maskOf : Node K → Vector Bool 4) : Nat → List Nat → Option (List Nat)
  | _, [] => some []
  | 0, _ :: _ => none
  | fuel + 1, entry :: stack =>
    match q.nodes[entry]? with
    | none => none
    | some nd => (dfsTrace q maskOf fuel (dfsPush q nd (maskOf nd) stack)).map (entry :: ·)

/-- what `dfsPush` pushes for lane `l` -/
def pushLane (q : Q K) (nd : Node K) (mask : Vector Bool 4) (l : Nat) : Option Nat :=
  match mask[l]?, nd.children[l]? with
  | some true, some c => if !nd.leaf && decide (c ≤ q.nodes.size) then some c else none
  | _, _ => none

theorem dfsPush_eq (q : Q K) (nd : Node K) (mask : Vector Bool 4) (stack : List Nat) :
    dfsPush q nd mask stack = (lanes4.filterMap (pushLane q nd mask)).reverse ++ stack := by
  rw [← foldl_push_spec]
  unfold dfsPush
  congr 1
  funext st l
  unfold pushLane
  cases hm : mask[l]? with
  | none => simp
  | some m =>
    cases m with
    | false => simp
    | true =>
      cases hc : nd.children[l]? with
      | none => simp
      | some c => by_cases hg : (!nd.leaf && decide (c ≤ q.nodes.size)) = true <;> simp [hg]

/-- one masked step of the traversal: from an internal node to a child whose lane passes the mask and the range guard -/
def MStep (q : Q K) (maskOf : Node K → Vector Bool 4) (s c : Nat) : Prop :=
  ∃ nd : Node K, q.nodes[s]? = some nd ∧ ∃ l ∈ lanes4, pushLane q nd (maskOf nd) l = some c

/-- the nodes ANY schedule of the masked traversal visits below `s` -/
inductive MReach (q : Q K) (maskOf : Node K → Vector Bool 4) : Nat → Nat → Prop
  | refl (s : Nat) : MReach q maskOf s s
  | step {s c n : Nat} : MStep q maskOf s c → MReach q maskOf c n → MReach q maskOf s n

theorem pushLane_spec (q : Q K) (nd : Node K) (mask : Vector Bool 4) (l c : Nat) (h : pushLane q nd mask l = some c) :
    mask[l]? = some true ∧ nd.children[l]? = some c ∧ nd.leaf = false ∧ c ≤ q.nodes.size := by
  unfold pushLane at h
  split at h
  · rename_i c' hm hc
    split at h
    · rename_i hg
      cases h
      simp only [Bool.and_eq_true, Bool.not_eq_true', decide_eq_true_eq] at hg
      exact ⟨hm, hc, hg.1, hg.2⟩
    · cases h
  · cases h

/-- **the visit order on a valid tree**: from a front, the trace exists within the fuel (`nodes.len()` pops at most), no
node occurs twice, none was visited before, and the nodes visited are exactly those reachable by masked steps from the
entries on the stack -/
theorem dfsTrace_spec {q : Q K} (hinv : Inv q) (hsz : q.nodes.size < MAXN) {d : Nat → Nat} (hd : IsDepth q d)
    (maskOf : Node K → Vector Bool 4) :
    ∀ (fuel : Nat) (stack done : List Nat), Front q stack done → q.nodes.size ≤ fuel + done.length →
      ∃ T : List Nat, dfsTrace q maskOf fuel stack = some T ∧ T.Nodup ∧ (∀ n ∈ T, n ∉ done ∧ Live q n ∧ n < q.nodes.size) ∧
        (∀ n, n ∈ T ↔ ∃ s ∈ stack, MReach q maskOf s n) := by
  intro fuel
  induction fuel with
  | zero =>
    intro stack done f hfu
    cases stack with
    | nil => exact ⟨[], rfl, List.nodup_nil, by simp, by simp⟩
    | cons s st => have := f.done_length; omega
  | succ fuel ih =>
    intro stack done f hfu
    cases stack with
    | nil => exact ⟨[], rfl, List.nodup_nil, by simp, by simp⟩
    | cons s st =>
      obtain ⟨slive, slt⟩ := f.live s (by simp)
      have hnd : q.nodes[s]? = some q.nodes[s] := by simp [slt]
      generalize q.nodes[s] = nd at hnd
      have hcs : (lanes4.filterMap (pushLane q nd (maskOf nd))).Nodup ∧
          ∀ c ∈ lanes4.filterMap (pushLane q nd (maskOf nd)), IsChild q s c ∧ c < q.nodes.size := by
        by_cases hleaf : nd.leaf = false
        · exact children_filterMap hinv s nd hnd slive hleaf _ (fun l c h => by
            obtain ⟨_, h2, _, h4⟩ := pushLane_spec q nd _ l c h
            exact ⟨h2, by omega⟩)
        · have : lanes4.filterMap (pushLane q nd (maskOf nd)) = [] := by
            apply List.filterMap_eq_nil_iff.2
            intro l _
            cases hp : pushLane q nd (maskOf nd) l with
            | none => rfl
            | some c => exact absurd (pushLane_spec q nd _ l c hp).2.2.1 hleaf
          rw [this]; exact ⟨List.nodup_nil, by simp⟩
      have f' : Front q ((lanes4.filterMap (pushLane q nd (maskOf nd))).reverse ++ st) (s :: done) :=
        f.step hd (List.nodup_reverse.2 hcs.1) (fun c hc => hcs.2 c (List.mem_reverse.1 hc))
      obtain ⟨T, hT, hnodup, hprop, hreach⟩ := ih _ _ f' (by simp only [List.length_cons]; omega)
      refine ⟨s :: T, ?_, ?_, ?_, ?_⟩
      · simp only [dfsTrace, hnd, dfsPush_eq, hT, Option.map_some]
      · exact List.nodup_cons.2 ⟨fun h => (hprop s h).1 (by simp), hnodup⟩
      · intro n hn
        rcases List.mem_cons.1 hn with rfl | hn
        · exact ⟨f.not_done, slive, slt⟩
        · obtain ⟨h1, h2, h3⟩ := hprop n hn
          exact ⟨fun h => h1 (by simp [h]), h2, h3⟩
      · intro n
        constructor
        · intro hn
          rcases List.mem_cons.1 hn with rfl | hn
          · exact ⟨_, by simp, MReach.refl _⟩
          · obtain ⟨x, hx, hr⟩ := (hreach n).1 hn
            rcases List.mem_append.1 hx with hx | hx
            · obtain ⟨l, hl, hpl⟩ := List.mem_filterMap.1 (List.mem_reverse.1 hx)
              exact ⟨s, by simp, MReach.step ⟨nd, hnd, l, hl, hpl⟩ hr⟩
            · exact ⟨x, by simp [hx], hr⟩
        · rintro ⟨x, hx, hr⟩
          rcases List.mem_cons.1 hx with rfl | hx
          · cases hr with
            | refl => simp
            | step hs hr' =>
              obtain ⟨nd', hnd', l, hl, hpl⟩ := hs
              rw [hnd] at hnd'; cases hnd'
              refine List.mem_cons_of_mem _ ((hreach n).2 ⟨_, ?_, hr'⟩)
              exact List.mem_append_left _ (List.mem_reverse.2 (List.mem_filterMap.2 ⟨l, hl, hpl⟩))
          · exact List.mem_cons_of_mem _ ((hreach n).2 ⟨x, List.mem_append_right _ hx, hr⟩)

/-- the trace from the root -/
theorem dfsTrace_root {q : Q K} (hinv : Inv q) (hsz : q.nodes.size < MAXN) (hpos : 0 < q.nodes.size)
    (maskOf : Node K → Vector Bool 4) (fuel : Nat) (hfu : q.nodes.size ≤ fuel) :
    ∃ T : List Nat, dfsTrace q maskOf fuel [0] = some T ∧ T.Nodup ∧ (∀ n ∈ T, Live q n ∧ n < q.nodes.size) ∧
      (∀ n, n ∈ T ↔ MReach q maskOf 0 n) := by
  obtain ⟨d, hd⟩ := hinv.depth
  obtain ⟨T, h1, h2, h3, h4⟩ := dfsTrace_spec hinv hsz (d := d) hd maskOf fuel [0] [] (Front.root hinv hpos) (by simpa using hfu)
  exact ⟨T, h1, h2, fun n hn => (h3 n hn).2, fun n => by simpa using h4 n⟩

/-! ## early exit: the traversal with any visitor is a prefix of the trace -/

/-- fold the visitor along the visit order, stopping at the first node where it exits -/
def runPrefix {S : Type} (q : Q K) (upd : S → Node K → Option (Vector (Option Nat) 4) → S)
    (stop : S → Node K → Option (Vector (Option Nat) 4) → Bool) : List Nat → S → S × Bool
  | [], s => (s, true)
  | n :: T, s =>
    match q.nodes[n]? with
    | none => runPrefix q upd stop T s
    | some nd =>
      if stop s nd (leafDataOf q nd) then (upd s nd (leafDataOf q nd), false)
      else runPrefix q upd stop T (upd s nd (leafDataOf q nd))

/-- **`ExitEarly` stops the traversal, `MaybeContinue(mask)` follows the mask**: for a visitor whose mask depends on the
node only, `traverse_depth_first_node_with_stack` visits the nodes of the full traversal's visit order, in that order,
up to and including the first node at which the visitor answers `ExitEarly`; it returns `false` exactly in that case. -/
theorem dfsLoop_eq_runPrefix {S : Type} (q : Q K) (maskOf : Node K → Vector Bool 4)
    (upd : S → Node K → Option (Vector (Option Nat) 4) → S) (stop : S → Node K → Option (Vector (Option Nat) 4) → Bool)
    (visit : S → Node K → Option (Vector (Option Nat) 4) → S × Option (Vector Bool 4))
    (hv : ∀ s nd data, visit s nd data = (upd s nd data, if stop s nd data then none else some (maskOf nd))) :
    ∀ (fuel : Nat) (stack T : List Nat) (s : S), dfsTrace q maskOf fuel stack = some T →
      dfsLoop q visit fuel stack s = some (runPrefix q upd stop T s) := by
  intro fuel
  induction fuel with
  | zero =>
    intro stack T s h
    cases stack with
    | nil => simp only [dfsTrace, Option.some.injEq] at h; subst h; rfl
    | cons e st => simp [dfsTrace] at h
  | succ fuel ih =>
    intro stack T s h
    cases stack with
    | nil => simp only [dfsTrace, Option.some.injEq] at h; subst h; rfl
    | cons e st =>
      simp only [dfsTrace] at h
      cases hnd : q.nodes[e]? with
      | none => simp [hnd] at h
      | some nd =>
        simp only [hnd] at h
        cases hT : dfsTrace q maskOf fuel (dfsPush q nd (maskOf nd) st) with
        | none => simp [hT] at h
        | some T' =>
          simp only [hT, Option.map_some, Option.some.injEq] at h
          subst h
          simp only [dfsLoop, hnd, hv, runPrefix]
          by_cases hs : stop s nd (leafDataOf q nd) = true
          · simp [hs]
          · simp only [hs, Bool.false_eq_true, if_false]
            exact ih _ _ _ hT

/-! ## `intersect_aabb` through the trace -/

/-- what `intersect_aabb` reports at lane `l` of a node -/
def reportLane (q : Q K) (b : Aabb3 K) (nd : Node K) (l : Nat) : Option Nat :=
  match nd.boxes[l]?, nd.children[l]? with
  | some bx, some c =>
    if boxIntersects bx b && nd.leaf then (q.proxies[c]?).map (·.data) else none
  | _, _ => none

/-- the leaves reported when node `n` is visited, in lane order -/
def nodeReports (q : Q K) (b : Aabb3 K) (n : Nat) : List Nat :=
  match q.nodes[n]? with
  | some nd => lanes4.filterMap (reportLane q b nd)
  | none => []

theorem foldl_pair_spec {α β : Type} (g1 : Nat → Option α) (g2 : Nat → Option β)
    (f : List α × List β → Nat → List α × List β)
    (hf : ∀ so l, f so l = ((match g1 l with
      | some x => x :: so.1
      | none => so.1), (match g2 l with
      | some y => y :: so.2
      | none => so.2))) :
    ∀ (ls : List Nat) (st : List α) (out : List β),
      ls.foldl f (st, out) = ((ls.filterMap g1).reverse ++ st, (ls.filterMap g2).reverse ++ out) := by
  intro ls
  induction ls with
  | nil => intro st out; simp
  | cons l ls ih =>
    intro st out
    simp only [List.foldl_cons, List.filterMap_cons, hf]
    cases h1 : g1 l <;> cases h2 : g2 l <;> simp [ih]

theorem bvMask_get (b : Aabb3 K) (nd : Node K) (l : Nat) :
    (bvMask b nd)[l]? = (nd.boxes[l]?).map fun bx => boxIntersects bx b := by
  unfold bvMask
  rw [Vector.getElem?_map]

theorem intersectLanes_eq (q : Q K) (b : Aabb3 K) (nd : Node K) (stack out : List Nat) :
    intersectLanes q b nd stack out =
      (dfsPush q nd (bvMask b nd) stack, (lanes4.filterMap (reportLane q b nd)).reverse ++ out) := by
  rw [dfsPush_eq]
  unfold intersectLanes
  have := foldl_pair_spec (pushLane q nd (bvMask b nd)) (reportLane q b nd)
    (fun (so : List Nat × List Nat) ii =>
      match nd.boxes[ii]?, nd.children[ii]? with
      | some bx, some c =>
        if boxIntersects bx b then
          if nd.leaf then
            match q.proxies[c]? with
            | some pr => (so.1, pr.data :: so.2)
            | none => so
          else if c ≤ q.nodes.size then (c :: so.1, so.2) else so
        else so
      | _, _ => so) ?_ [0, 1, 2, 3] stack out
  · exact this
  · intro so l
    unfold pushLane reportLane
    rw [bvMask_get]
    cases hb : nd.boxes[l]? with
    | none => simp
    | some bx =>
      cases hc : nd.children[l]? with
      | none => simp
      | some c =>
        simp only [Option.map_some]
        by_cases hi : boxIntersects bx b = true
        · by_cases hl : nd.leaf = true
          · simp only [hi, hl, if_true, Bool.and_self, Bool.not_true, Bool.false_and, Bool.false_eq_true, if_false]
            cases q.proxies[c]? <;> simp
          · simp only [Bool.not_eq_true] at hl
            simp only [hi, hl, if_true, Bool.and_false, Bool.false_eq_true, if_false, Bool.not_false, Bool.true_and,
              decide_eq_true_eq]
            by_cases hle : c ≤ q.nodes.size <;> simp [hle]
        · simp only [Bool.not_eq_true] at hi
          simp [hi]

/-- **`intersect_aabb` = the reports of the visited nodes, in visit order** -/
theorem intersectLoop_eq (q : Q K) (b : Aabb3 K) :
    ∀ (fuel : Nat) (stack out : List Nat),
      intersectLoop q b fuel stack out =
        (dfsTrace q (bvMask b) fuel stack).map fun T => out.reverse ++ T.flatMap (nodeReports q b) := by
  intro fuel
  induction fuel with
  | zero =>
    intro stack out
    cases stack with
    | nil => simp [intersectLoop, dfsTrace]
    | cons e st => simp [intersectLoop, dfsTrace]
  | succ fuel ih =>
    intro stack out
    cases stack with
    | nil => simp [intersectLoop, dfsTrace]
    | cons e st =>
      simp only [intersectLoop, dfsTrace]
      cases hnd : q.nodes[e]? with
      | none => simp
      | some nd =>
        simp only [intersectLanes_eq, ih]
        cases hT : dfsTrace q (bvMask b) fuel (dfsPush q nd (bvMask b nd) st) with
        | none => simp
        | some T => simp [nodeReports, hnd]

/-! ## completeness along a path of containing lane boxes -/

/-- a mask that accepts every lane whose box contains `t` -/
def MaskAccepts (maskOf : Node K → Vector Bool 4) (t : Aabb3 K) : Prop :=
  ∀ (nd : Node K) (l : Nat) (bx : Aabb3 K), nd.boxes[l]? = some bx → boxContains bx t = true → (maskOf nd)[l]? = some true

/-- along a path of lane boxes containing `t`, a mask accepting such lanes leads to the leaf node holding `p` -/
theorem mreach_of_path {q : Q K} (maskOf : Node K → Vector Bool 4) (p : Nat) (t : Aabb3 K) (hm : MaskAccepts maskOf t) :
    ∀ a, PathTo q p t a → ∃ (n : Nat) (nd : Node K) (l : Nat) (bx : Aabb3 K), MReach q maskOf a n ∧ q.nodes[n]? = some nd ∧
      nd.leaf = true ∧ nd.children[l]? = some p ∧ nd.boxes[l]? = some bx ∧ boxContains bx t = true := by
  intro a h
  induction h with
  | leaf a nd l bx hn hl hc hb hcont => exact ⟨a, nd, l, bx, MReach.refl _, hn, hl, hc, hb, hcont⟩
  | inner a nd l c bx hn hl hc hlt hb hcont _ ih =>
    obtain ⟨n, nd', l', bx', hr, rest⟩ := ih
    refine ⟨n, nd', l', bx', MReach.step ⟨nd, hn, l, lane_mem4 _ _ _ hb, ?_⟩ hr, rest⟩
    unfold pushLane
    rw [hm nd l bx hb hcont, hc]
    simp [hl]; omega

/-! ## `BoundingVolumeIntersectionsVisitor` with the counting callback -/

/-- the visitor's state update: the reports of the node, up to the one on which the callback answers `false` -/
def bvUpd (qb : Aabb3 K) (limit : Nat) (out : List Nat) (nd : Node K) (data : Option (Vector (Option Nat) 4)) : List Nat :=
  match data with
  | some d => (bvReport limit (bvMask qb nd) d out).1
  | none => out

/-- the visitor answers `ExitEarly` -/
def bvStop (qb : Aabb3 K) (limit : Nat) (out : List Nat) (nd : Node K) (data : Option (Vector (Option Nat) 4)) : Bool :=
  match data with
  | some d => (bvReport limit (bvMask qb nd) d out).2
  | none => false

theorem bvVisit_eq (qb : Aabb3 K) (limit : Nat) (out : List Nat) (nd : Node K) (data : Option (Vector (Option Nat) 4)) :
    bvVisit qb limit out nd data =
      (bvUpd qb limit out nd data, if bvStop qb limit out nd data then none else some (bvMask qb nd)) := by
  unfold bvVisit bvUpd bvStop
  cases data with
  | none => simp
  | some d => by_cases h : (bvReport limit (bvMask qb nd) d out).2 = true <;> simp [h]

/-- what the callback receives at lane `l` -/
def cbLane (mask : Vector Bool 4) (data : Vector (Option Nat) 4) (l : Nat) : Option Nat :=
  match mask[l]?, data[l]? with
  | some true, some (some d) => some d
  | _, _ => none

/-- the lane loop with its early `return`, on any list of lanes -/
def bvReportOn (limit : Nat) (mask : Vector Bool 4) (data : Vector (Option Nat) 4) (ls : List Nat) (st : List Nat × Bool) :
    List Nat × Bool :=
  ls.foldl (fun (st : List Nat × Bool) ii =>
    if st.2 then st
    else
      match mask[ii]?, data[ii]? with
      | some true, some (some d) => (d :: st.1, !(decide (st.1.length + 1 < limit)))
      | _, _ => st) st

theorem bvReportOn_stopped (limit : Nat) (mask : Vector Bool 4) (data : Vector (Option Nat) 4) :
    ∀ (ls : List Nat) (out : List Nat), bvReportOn limit mask data ls (out, true) = (out, true) := by
  intro ls
  induction ls with
  | nil => intro out; rfl
  | cons l ls ih => intro out; simp only [bvReportOn, List.foldl_cons, if_true]; exact ih out

/-- **the counting callback**: the loop reports the lanes' leaves in order and stops at the one that makes `limit` -/
theorem bvReportOn_spec (limit : Nat) (mask : Vector Bool 4) (data : Vector (Option Nat) 4) :
    ∀ (ls : List Nat) (out : List Nat), out.length < limit →
      bvReportOn limit mask data ls (out, false) =
        if out.length + (ls.filterMap (cbLane mask data)).length < limit then ((ls.filterMap (cbLane mask data)).reverse ++ out, false)
        else (((ls.filterMap (cbLane mask data)).take (limit - out.length)).reverse ++ out, true) := by
  intro ls
  induction ls with
  | nil => intro out h; simp [bvReportOn, h]
  | cons l ls ih =>
    intro out h
    cases hg : cbLane mask data l with
    | none =>
      have hstep : bvReportOn limit mask data (l :: ls) (out, false) = bvReportOn limit mask data ls (out, false) := by
        simp only [bvReportOn, List.foldl_cons, Bool.false_eq_true, if_false]
        congr 1
        unfold cbLane at hg
        split at hg <;> simp_all
      rw [hstep, ih out h]
      simp [List.filterMap_cons, hg]
    | some d =>
      have hm : mask[l]? = some true ∧ data[l]? = some (some d) := by
        unfold cbLane at hg
        split at hg
        · rename_i d' h1 h2; cases hg; exact ⟨h1, h2⟩
        · cases hg
      by_cases hlt : out.length + 1 < limit
      · have hstep : bvReportOn limit mask data (l :: ls) (out, false) = bvReportOn limit mask data ls (d :: out, false) := by
          simp only [bvReportOn, List.foldl_cons, Bool.false_eq_true, if_false, hm.1, hm.2, hlt, decide_true, Bool.not_true]
        rw [hstep, ih (d :: out) (by simpa using hlt)]
        simp only [List.filterMap_cons, hg, List.length_cons, List.reverse_cons, List.append_assoc, List.singleton_append]
        have e1 : out.length + 1 + (List.filterMap (cbLane mask data) ls).length
            = out.length + ((List.filterMap (cbLane mask data) ls).length + 1) := by omega
        rw [e1]
        split
        · rfl
        · have e2 : limit - out.length = (limit - (out.length + 1)) + 1 := by omega
          rw [e2, List.take_succ_cons]
          simp
      · have hstep : bvReportOn limit mask data (l :: ls) (out, false) = bvReportOn limit mask data ls (d :: out, true) := by
          simp only [bvReportOn, List.foldl_cons, Bool.false_eq_true, if_false, hm.1, hm.2, hlt, decide_false, Bool.not_false]
        rw [hstep, bvReportOn_stopped]
        simp only [List.filterMap_cons, hg, List.length_cons]
        rw [if_neg (by omega)]
        have e2 : limit - out.length = 0 + 1 := by omega
        rw [e2, List.take_succ_cons]
        simp

/-- at a leaf node the callback receives exactly what `intersect_aabb` reports -/
theorem cbLane_leaf (q : Q K) (qb : Aabb3 K) (nd : Node K) (hleaf : nd.leaf = true) (l : Nat) :
    cbLane (bvMask qb nd) (nd.children.map fun c => (q.proxies[c]?).map (·.data)) l = reportLane q qb nd l := by
  unfold cbLane reportLane
  rw [bvMask_get, Vector.getElem?_map]
  cases hb : nd.boxes[l]? with
  | none => simp
  | some bx =>
    cases hc : nd.children[l]? with
    | none => cases hi : boxIntersects bx qb <;> simp [hi]
    | some c =>
      simp only [Option.map_some, hleaf, Bool.and_true]
      cases hi : boxIntersects bx qb with
      | false => simp
      | true => cases q.proxies[c]? <;> simp

theorem nodeReports_internal (q : Q K) (qb : Aabb3 K) (n : Nat) (nd : Node K) (hnd : q.nodes[n]? = some nd)
    (hleaf : nd.leaf = false) : nodeReports q qb n = [] := by
  unfold nodeReports
  rw [hnd]
  apply List.filterMap_eq_nil_iff.2
  intro l _
  unfold reportLane
  split
  · simp [hleaf]
  · rfl

/-- **the early-exit traversal reports the first `limit` leaves of the full report order and stops there** (on the visit
order `T`) -/
theorem runPrefix_bv (q : Q K) (qb : Aabb3 K) (limit : Nat) :
    ∀ (T : List Nat) (out : List Nat), out.length < limit →
      runPrefix q (bvUpd qb limit) (bvStop qb limit) T out =
        if out.length + (T.flatMap (nodeReports q qb)).length < limit then ((T.flatMap (nodeReports q qb)).reverse ++ out, true)
        else (((T.flatMap (nodeReports q qb)).take (limit - out.length)).reverse ++ out, false) := by
  intro T
  induction T with
  | nil => intro out h; simp [runPrefix, h]
  | cons n T ih =>
    intro out h
    simp only [runPrefix, List.flatMap_cons]
    cases hnd : q.nodes[n]? with
    | none =>
      have : nodeReports q qb n = [] := by unfold nodeReports; rw [hnd]
      simp only [this, List.nil_append]
      exact ih out h
    | some nd =>
      simp only
      by_cases hleaf : nd.leaf = true
      · have hR : nodeReports q qb n = lanes4.filterMap (cbLane (bvMask qb nd) (nd.children.map fun c => (q.proxies[c]?).map (·.data))) := by
          unfold nodeReports; rw [hnd]
          show lanes4.filterMap (reportLane q qb nd) = _
          congr 1; funext l; exact (cbLane_leaf q qb nd hleaf l).symm
        have hspec := bvReportOn_spec limit (bvMask qb nd) (nd.children.map fun c => (q.proxies[c]?).map (·.data)) lanes4 out h
        rw [← hR] at hspec
        have hrep : bvReport limit (bvMask qb nd) (nd.children.map fun c => (q.proxies[c]?).map (·.data)) out
            = bvReportOn limit (bvMask qb nd) (nd.children.map fun c => (q.proxies[c]?).map (·.data)) lanes4 (out, false) := rfl
        simp only [leafDataOf, hleaf, if_true, bvStop, bvUpd, hrep, hspec]
        by_cases hlt : out.length + (nodeReports q qb n).length < limit
        · simp only [hlt, if_true, Bool.false_eq_true, if_false]
          rw [ih _ (by simp only [List.length_append, List.length_reverse]; omega)]
          simp only [List.length_append, List.length_reverse, List.reverse_append, List.append_assoc]
          have e1 : (nodeReports q qb n).length + out.length + (List.flatMap (nodeReports q qb) T).length
              = out.length + ((nodeReports q qb n).length + (List.flatMap (nodeReports q qb) T).length) := by omega
          rw [e1]
          split
          · rfl
          · rw [List.take_append]
            have e2 : List.take (limit - out.length) (nodeReports q qb n) = nodeReports q qb n :=
              List.take_of_length_le (by omega)
            have e3 : limit - out.length - (nodeReports q qb n).length = limit - ((nodeReports q qb n).length + out.length) := by omega
            rw [e2, e3]
            simp
        · simp only [hlt, if_false, if_true]
          rw [if_neg (by simp only [List.length_append]; omega)]
          rw [List.take_append_of_le_length (by omega)]
      · simp only [Bool.not_eq_true] at hleaf
        have hR := nodeReports_internal q qb n nd hnd hleaf
        simp only [leafDataOf, hleaf, Bool.false_eq_true, if_false, bvStop, bvUpd, hR, List.nil_append]
        exact ih out h

end C08
