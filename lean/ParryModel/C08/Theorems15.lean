import ParryModel.Field
import ParryModel.C08.Theorems14
/-!
# C08 property theorems, part 15 (round fu5): kernel-decided witnesses for the build paths of `Model5`
-/
namespace C08
open Model Model.Qbvh

/-! ## Decided witnesses (exact rational arithmetic, kernel evaluation of the model) -/
section examples

/-- a 3 x 2 grid of unit cells on the floor and two long planks above them (pairwise disjoint) -/
def plankItems : List (Nat × Aabb3 ℚ) :=
  ((List.range 6).map fun i =>
    (i, (⟨⟨(i % 3 : Nat), (i / 3 : Nat), 0⟩, ⟨(i % 3 : Nat) + 4 / 5, (i / 3 : Nat) + 4 / 5, 1⟩⟩ : Aabb3 ℚ))) ++
  ((List.range 2).map fun j =>
    (6 + j, (⟨⟨0, (j : Nat), 2⟩, ⟨14 / 5, (j : Nat) + 4 / 5, 3⟩⟩ : Aabb3 ℚ)))

/-- **the non-overlapping splitter with the cutting callback on the plank layout**: the build terminates, planks ARE cut
(the record of pieces is not empty), and the tree returned satisfies every executable invariant — structure (`checkInv`)
and boxes (`checkFresh` / `checkBox`: every stored box contains the box of ITS OWN piece and the boxes below) —
against the user's boxes after the cuts. -/
theorem plank_build_cuts_and_is_valid :
    (rebuildG (.cutting (0 : ℚ) 0) 8 (Q.empty : Q ℚ) plankItems 0).map
      (fun r => (checkInv r.1, checkFresh r.1 (curAfterCuts r.2 (curAfter plankItems (fun _ => invalidBox))),
                 checkBox r.1 (curAfterCuts r.2 (curAfter plankItems (fun _ => invalidBox))), decide (0 < r.2.length))) =
      some (true, true, true, true) := by
  decide +kernel

/-- the centre splitter WITHOUT the fallback split on the same layout (pairwise different centres): terminates, valid -/
theorem plank_build_center_no_fallback :
    (rebuildG (.center false) 0 (Q.empty : Q ℚ) plankItems (1 / 100)).map
      (fun r => (checkInv r.1, checkFresh r.1 (curAfter plankItems (fun _ => invalidBox)), r.2.length)) =
      some (true, true, 0) := by
  decide +kernel

/-- the hypotheses of `canonicalSplit_tiles` are satisfiable: the plank `[0, 14/5]` is cut at `x = 1` -/
example : (canonicalSplit (K := ℚ) ⟨⟨0, 0, 2⟩, ⟨14 / 5, 4 / 5, 3⟩⟩ 0 1 0).map
    (fun r => decide (r.1.maxs.x = 1) && decide (r.2.mins.x = 1) && decide (r.1.mins.x = 0) && decide (r.2.maxs.x = 14 / 5)) = some true := by
  decide +kernel

/-- the hypotheses of `cutLoop_agrees` / `splitDatasetCutting_agrees` are satisfiable and the loop really cuts: one plank
`[0, 14/5]` registered as leaf 0, plane `x = 1`: two records (leaf 0 keeps the negative piece, the fresh leaf 1 gets the
positive piece) and the builder's `aabbs` hold exactly these two boxes -/
example : (cutLoop (K := ℚ) 0 0 0 1 1 0
      (#[0], #[⟨MAXN, 0, 0⟩], #[⟨⟨0, 0, 2⟩, ⟨14 / 5, 4 / 5, 3⟩⟩], 1, [])).map
    (fun r => decide (r.1.toList = [0, 1]) && decide (r.2.2.2.1 = 2) && decide (r.2.2.2.2.length = 2) &&
      (r.2.2.1.toList.map fun b => (decide (b.mins.x = 0) && decide (b.maxs.x = 1)) || (decide (b.mins.x = 1) && decide (b.maxs.x = 14 / 5))).all id) =
    some true := by
  decide +kernel

end examples

end C08
