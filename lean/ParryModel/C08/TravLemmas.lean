import Mathlib.Data.List.Nodup
import Mathlib.Data.List.Perm.Subperm
import ParryModel.C08.Model4
import ParryModel.C08.BvttLemmas
/-!
# C08: single-tree stack traversals over the node array — the ancestor relation, the work-list ("front") invariant that
makes every node come off the stack at most once, and the masked depth-first visit order `dfsTrace`
-/
namespace C08
open Model Model.Qbvh
set_option linter.unusedSectionVars false
set_option linter.unusedVariables false
set_option linter.unusedSimpArgs false
variable {K : Type} [Num K]

/-! ## ancestors along the parent pointers of live nodes -/

/-- `Anc q a n`: `a` is `n` itself or an ancestor of `n` (parent pointers of live non-root nodes) -/
inductive Anc (q : Q K) (a : Nat) : Nat → Prop
  | refl : Anc q a a
  | up (n : Nat) (nd : Node K) (hn : q.nodes[n]? = some nd) (hl : Live q n) (hn0 : n ≠ 0) (h : Anc q a nd.parent) : Anc q a n

/-- `c` is a live non-root node whose parent pointer is `s` -/
def IsChild (q : Q K) (s c : Nat) : Prop :=
  ∃ cn : Node K, q.nodes[c]? = some cn ∧ cn.parent = s ∧ Live q c ∧ c ≠ 0

/-- a depth function of the tree (`Inv.depth`) -/
def IsDepth (q : Q K) (d : Nat → Nat) : Prop :=
  d 0 = 0 ∧ ∀ (n : Nat) (nd : Node K), q.nodes[n]? = some nd → Live q n → n ≠ 0 → d n = d nd.parent + 1

theorem Anc.trans {q : Q K} {a b c : Nat} (h1 : Anc q a b) (h2 : Anc q b c) : Anc q a c := by
  induction h2 with
  | refl => exact h1
  | up n nd hn hl hn0 _ ih => exact Anc.up n nd hn hl hn0 ih

theorem IsChild.anc {q : Q K} {s c : Nat} (h : IsChild q s c) : Anc q s c := by
  obtain ⟨cn, hcn, hp, hl, h0⟩ := h
  subst hp
  exact Anc.up c cn hcn hl h0 Anc.refl

theorem Anc.depth_le {q : Q K} {d : Nat → Nat} (hd : IsDepth q d) {a n : Nat} (h : Anc q a n) : d a ≤ d n := by
  induction h with
  | refl => exact Nat.le_refl _
  | up n nd hn hl hn0 _ ih => have := hd.2 n nd hn hl hn0; omega

theorem Anc.eq_of_depth {q : Q K} {d : Nat → Nat} (hd : IsDepth q d) {a n : Nat} (h : Anc q a n) (e : d a = d n) : a = n := by
  cases h with
  | refl => rfl
  | up n nd hn hl hn0 h' =>
    have := hd.2 n nd hn hl hn0
    have := h'.depth_le hd
    omega

/-- the ancestors of a node form a chain -/
theorem Anc.chain {q : Q K} {a b n : Nat} (h1 : Anc q a n) (h2 : Anc q b n) : Anc q a b ∨ Anc q b a := by
  induction h1 with
  | refl => exact Or.inr h2
  | up n nd hn hl hn0 h' ih =>
    cases h2 with
    | refl => exact Or.inl (Anc.up _ nd hn hl hn0 h')
    | up _ nd' hn' _ _ h2' =>
      rw [hn] at hn'; cases hn'
      exact ih h2'

theorem IsChild.depth {q : Q K} {d : Nat → Nat} (hd : IsDepth q d) {s c : Nat} (h : IsChild q s c) : d c = d s + 1 := by
  obtain ⟨cn, hcn, hp, hl, h0⟩ := h
  rw [← hp]; exact hd.2 c cn hcn hl h0

/-- two different children of one node are unrelated -/
theorem sibling_unrel {q : Q K} {d : Nat → Nat} (hd : IsDepth q d) {s c c' : Nat} (h : IsChild q s c) (h' : IsChild q s c')
    (hne : c ≠ c') : ¬ Anc q c c' := by
  intro ha
  exact hne (ha.eq_of_depth hd (by rw [h.depth hd, h'.depth hd]))

/-- an ancestor of a child is the child or an ancestor of the parent -/
theorem Anc.of_child {q : Q K} {s c t : Nat} (h : IsChild q s c) (ha : Anc q t c) : t = c ∨ Anc q t s := by
  obtain ⟨cn, hcn, hp, hl, h0⟩ := h
  cases ha with
  | refl => exact Or.inl rfl
  | up _ nd hn _ _ h' =>
    rw [hcn] at hn; cases hn
    subst hp
    exact Or.inr h'

/-! ## the work-list invariant -/

/-- neither is an ancestor of the other -/
def Unrel (q : Q K) (s t : Nat) : Prop := ¬ Anc q s t ∧ ¬ Anc q t s

/-- **the front of a stack traversal**: the entries on the stack are live nodes, pairwise unrelated (their subtrees are
disjoint), and no node already taken off the stack (`done`) lies below an entry.  Consequence: an entry popped from the
stack has never been popped before. -/
structure Front (q : Q K) (stack done : List Nat) : Prop where
  live : ∀ s ∈ stack, Live q s ∧ s < q.nodes.size
  unrel : stack.Pairwise (Unrel q)
  sep : ∀ n ∈ done, ∀ s ∈ stack, ¬ Anc q s n
  doneNodup : done.Nodup
  doneLt : ∀ n ∈ done, n < q.nodes.size

theorem Front.not_done {q : Q K} {s : Nat} {stack done : List Nat} (f : Front q (s :: stack) done) : s ∉ done :=
  fun h => f.sep s h s (by simp) Anc.refl

/-- a duplicate-free list of numbers below `n` has at most `n` elements -/
theorem nodup_bounded_length (n : Nat) (l : List Nat) (hn : l.Nodup) (hb : ∀ x ∈ l, x < n) : l.length ≤ n := by
  have h : l.Subperm (List.range n) := hn.subperm (fun x hx => List.mem_range.2 (hb x hx))
  simpa using h.length_le

theorem Front.done_length {q : Q K} {s : Nat} {stack done : List Nat} (f : Front q (s :: stack) done) :
    done.length < q.nodes.size := by
  have h : (s :: done).length ≤ q.nodes.size := by
    apply nodup_bounded_length
    · exact List.nodup_cons.2 ⟨f.not_done, f.doneNodup⟩
    · intro x hx
      rcases List.mem_cons.1 hx with rfl | hx
      · exact (f.live _ (by simp)).2
      · exact f.doneLt x hx
  simp only [List.length_cons] at h
  omega

/-- **one step**: the top entry `s` is replaced by a duplicate-free list of its children -/
theorem Front.step {q : Q K} {d : Nat → Nat} (hd : IsDepth q d) {s : Nat} {stack done cs : List Nat}
    (f : Front q (s :: stack) done) (hcs : cs.Nodup) (hch : ∀ c ∈ cs, IsChild q s c ∧ c < q.nodes.size) :
    Front q (cs ++ stack) (s :: done) := by
  have hs := f.live s (by simp)
  have hrest : ∀ t ∈ stack, Unrel q s t := (List.pairwise_cons.1 f.unrel).1
  refine ⟨?_, ?_, ?_, List.nodup_cons.2 ⟨f.not_done, f.doneNodup⟩, ?_⟩
  · intro x hx
    rcases List.mem_append.1 hx with hx | hx
    · obtain ⟨⟨cn, hcn, _, hl, _⟩, hlt⟩ := hch x hx
      exact ⟨hl, hlt⟩
    · exact f.live x (by simp [hx])
  · rw [List.pairwise_append]
    refine ⟨?_, (List.pairwise_cons.1 f.unrel).2, ?_⟩
    · -- children among themselves
      have : ∀ c ∈ cs, ∀ c' ∈ cs, c ≠ c' → Unrel q c c' := fun c hc c' hc' hne =>
        ⟨sibling_unrel hd (hch c hc).1 (hch c' hc').1 hne, sibling_unrel hd (hch c' hc').1 (hch c hc).1 (Ne.symm hne)⟩
      exact (List.pairwise_iff_forall_sublist.2 (fun {a b} hab => by
        have hm : a ∈ cs ∧ b ∈ cs := by
          have := hab.subset
          exact ⟨this (by simp), this (by simp)⟩
        have hne : a ≠ b := by
          intro e; subst e
          have := hcs.sublist hab
          simp at this
        exact this a hm.1 b hm.2 hne))
    · intro c hc t ht
      have hst := hrest t ht
      constructor
      · intro ha; exact hst.1 ((hch c hc).1.anc.trans ha)
      · intro ha
        rcases Anc.of_child (hch c hc).1 ha with e | ha'
        · subst e; exact hst.1 (hch t hc).1.anc
        · exact hst.2 ha'
  · intro n hn x hx ha
    rcases List.mem_cons.1 hn with rfl | hn
    · -- nothing on the new stack is an ancestor of `s`
      rcases List.mem_append.1 hx with hx | hx
      · have h1 := ha.depth_le hd
        have h2 := (hch x hx).1.depth hd
        omega
      · exact (hrest x hx).2 ha
    · rcases List.mem_append.1 hx with hx | hx
      · exact f.sep n hn s (by simp) ((hch x hx).1.anc.trans ha)
      · exact f.sep n hn x (by simp [hx]) ha
  · intro n hn
    rcases List.mem_cons.1 hn with rfl | hn
    · exact hs.2
    · exact f.doneLt n hn

/-- popping an entry without pushing anything -/
theorem Front.pop {q : Q K} {d : Nat → Nat} (hd : IsDepth q d) {s : Nat} {stack done : List Nat}
    (f : Front q (s :: stack) done) : Front q stack (s :: done) := by
  simpa using f.step hd (cs := []) List.nodup_nil (by simp)

/-- the initial front: the root alone -/
theorem Front.root {q : Q K} (hinv : Inv q) (hpos : 0 < q.nodes.size) : Front q [0] [] := by
  have hlive : Live q 0 := by
    rcases hinv.root with h0 | ⟨_, hl⟩
    · omega
    · exact hl
  exact ⟨by simpa using ⟨hlive, hpos⟩, by simp, by simp, by simp, by simp⟩

/-! ## children lists pushed lane by lane -/

/-- a `foldl` over lanes that pushes `g l` when it is defined -/
theorem foldl_push_spec {α : Type} (g : Nat → Option α) : ∀ (ls : List Nat) (stack : List α),
    ls.foldl (fun st l => match g l with
      | some x => x :: st
      | none => st) stack = (ls.filterMap g).reverse ++ stack := by
  intro ls
  induction ls with
  | nil => intro st; simp
  | cons l ls ih =>
    intro st
    simp only [List.foldl_cons, List.filterMap_cons]
    cases hg : g l with
    | none => simp [ih]
    | some x => simp [ih]

theorem lanes4_nodup : lanes4.Nodup := by decide

/-- the non-sentinel children of a live internal node taken from distinct lanes are distinct children -/
theorem children_filterMap {q : Q K} (hinv : Inv q) (n : Nat) (nd : Node K) (hnd : q.nodes[n]? = some nd) (hlive : Live q n)
    (hleaf : nd.leaf = false) (g : Nat → Option Nat)
    (hg : ∀ l c, g l = some c → nd.children[l]? = some c ∧ c ≠ MAXN) :
    (lanes4.filterMap g).Nodup ∧ ∀ c ∈ lanes4.filterMap g, IsChild q n c ∧ c < q.nodes.size := by
  constructor
  · apply List.Nodup.filterMap _ lanes4_nodup
    intro l l' c h1 h2
    obtain ⟨c1, m1⟩ := hg l c (by simpa using h1)
    obtain ⟨c2, m2⟩ := hg l' c (by simpa using h2)
    obtain ⟨_, _, cn, hcn, _, hp⟩ := hinv.child n nd hnd hlive hleaf l c c1 m1
    obtain ⟨_, _, cn', hcn', _, hp'⟩ := hinv.child n nd hnd hlive hleaf l' c c2 m2
    rw [hcn] at hcn'; cases hcn'
    omega
  · intro c hc
    obtain ⟨l, _, hl⟩ := List.mem_filterMap.1 hc
    obtain ⟨c1, m1⟩ := hg l c hl
    obtain ⟨h0, cl, cn, hcn, hp, _⟩ := hinv.child n nd hnd hlive hleaf l c c1 m1
    exact ⟨⟨cn, hcn, hp, cl, h0⟩, (Array.getElem?_eq_some_iff.mp hcn).1⟩

end C08
