import ParryModel.Proto
import ParryModel.C08.Model
import ParryModel.C08.Model2
import ParryModel.C08.Model3
import ParryModel.C08.Model5
/-!
C08 protocol handler.  One function `hist`: the arguments encode a whole operation history; the output is, after every
operation, the delta of the complete tree state against the state after the previous operation (see `harness/src/c08.rs`).
`model` replays the history in the Lean model at `Float` and prints the same deltas; `oracle` rebuilds every intermediate
*Rust* state from the implementation's deltas and evaluates the invariant on it in exact arithmetic.
-/
namespace C08
open Model Model.Qbvh Proto

/-- model variant used for the correspondence: `true` = with the root-split refit fix (see fixes/) -/
def useFix : Bool := true

inductive POp where
  | ins (id : Nat) (b : Aabb3 Float)
  | rem (id : Nat)
  | refit (m : Float)
  | rebalance (m : Float)
  | rebuild (items : List (Nat × Aabb3 Float)) (dil : Float)
  /-- `clear_and_rebuild_with_splitter` with `CenterDataSplitter { enable_fallback_split: fb }` -/
  | rebuildS (fb : Bool) (items : List (Nat × Aabb3 Float)) (dil : Float)
  /-- … with `QbvhNonOverlappingDataSplitter` and the cutting callback (fresh ids from `base`, refusal modulus, epsilon) -/
  | rebuildN (base refuse : Nat) (eps : Float) (items : List (Nat × Aabb3 Float)) (dil : Float)

def pbox : P (Aabb3 Float) := do let a ← pv3; let b ← pv3; pure ⟨a, b⟩

def pop : P POp := do
  let t ← tok
  match t with
  | "I" => do let id ← pnat; let b ← pbox; pure (.ins id b)
  | "R" => do let id ← pnat; pure (.rem id)
  | "F" => do let m ← pf; pure (.refit m)
  | "B" => do let m ← pf; pure (.rebalance m)
  | "C" => do
      let items ← plist (do let id ← pnat; let b ← pbox; pure (id, b))
      let dil ← pf
      pure (.rebuild items dil)
  | "S" => do
      let fb ← pbool
      let items ← plist (do let id ← pnat; let b ← pbox; pure (id, b))
      let dil ← pf
      pure (.rebuildS fb items dil)
  | "N" => do
      let base ← pnat
      let refuse ← pnat
      let eps ← pf
      let items ← plist (do let id ← pnat; let b ← pbox; pure (id, b))
      let dil ← pf
      pure (.rebuildN base refuse eps items dil)
  | _ => failure

def phist : P (List POp) := do let ops ← plist pop; pend; pure ops

/-! ## canonical printing of a state delta -/

def nanBits : UInt64 := 0x7ff8000000000000
def canon (x : Float) : UInt64 := if x.isNaN then nanBits else if x == 0.0 then 0 else x.toBits
def hexOfBits (b : UInt64) : String :=
  let n := b.toNat
  String.ofList ((List.range 16).map fun i => FloatIO.hexDigit ((n >>> (4 * (15 - i))) % 16))
def cf (b : UInt64) : String := if b == nanBits then "nan" else hexOfBits b

def boxKey (b : Aabb3 Float) : Array UInt64 :=
  #[canon b.mins.x, canon b.mins.y, canon b.mins.z, canon b.maxs.x, canon b.maxs.y, canon b.maxs.z]
def flagBits (nd : Node Float) : Nat :=
  (if nd.leaf then 1 else 0) + (if nd.changed then 2 else 0) + (if nd.dirty then 4 else 0)
def topoKey (nd : Node Float) : Array Nat :=
  #[nd.children[0], nd.children[1], nd.children[2], nd.children[3], nd.parent, nd.plane, flagBits nd]
def boxesKey (nd : Node Float) : Array UInt64 :=
  boxKey nd.boxes[0] ++ boxKey nd.boxes[1] ++ boxKey nd.boxes[2] ++ boxKey nd.boxes[3]
def proxyKey (p : Proxy) : Array Nat := #[p.node, p.lane, p.data]

structure Shadow where
  topo : Array (Array Nat) := #[]
  boxes : Array (Array UInt64) := #[]
  prox : Array (Array Nat) := #[]
  root : Option (Array UInt64) := none

def joinNat (xs : Array Nat) : String := " ".intercalate (xs.toList.map toString)
def joinBits (xs : Array UInt64) : String := " ".intercalate (xs.toList.map cf)

/-- print the delta of `q` against the shadow; returns the text and the new shadow -/
def dumpDelta (q : Q Float) (sh : Shadow) (op : String) (ret : Nat) (extra : List String := []) : String × Shadow := Id.run do
  let mut out : Array String := #[s!"{op} {ret} n {q.nodes.size} p {q.proxies.size}"]
  let mut sh := sh
  let r := boxKey q.rootAabb
  if sh.root != some r then
    out := out.push ("R " ++ joinBits r)
    sh := { sh with root := some r }
  sh := { sh with topo := sh.topo.extract 0 q.nodes.size, boxes := sh.boxes.extract 0 q.nodes.size,
                  prox := sh.prox.extract 0 q.proxies.size }
  let mut xs : Array String := #[]
  let mut topo := sh.topo
  let mut boxes := sh.boxes
  let mut i := 0
  for nd in q.nodes do
    let t := topoKey nd
    let bx := boxesKey nd
    if topo[i]? != some t then
      out := out.push s!"N {i} {joinNat t}"
      topo := if i < topo.size then topo.setIfInBounds i t else topo.push t
    if boxes[i]? != some bx then
      xs := xs.push s!"X {i} {joinBits bx}"
      boxes := if i < boxes.size then boxes.setIfInBounds i bx else boxes.push bx
    i := i + 1
  out := out ++ xs
  let mut prox := sh.prox
  let mut j := 0
  for p in q.proxies do
    let t := proxyKey p
    if prox[j]? != some t then
      out := out.push s!"P {j} {joinNat t}"
      prox := if j < prox.size then prox.setIfInBounds j t else prox.push t
    j := j + 1
  for e in extra do out := out.push e
  out := out.push (" ".intercalate ("D" :: toString q.dirtyNodes.length :: q.dirtyNodes.reverse.map toString))
  out := out.push (" ".intercalate ("F" :: toString q.freeList.length :: q.freeList.reverse.map toString))
  out := out.push ";"
  return (" ".intercalate out.toList, { sh with topo := topo, boxes := boxes, prox := prox })

/-! ## the model leg -/

/-- one operation of the model: new world and the printed return value, `none` = panic / hang -/
def cutItems (cuts : List (Nat × Aabb3 Float)) : List String :=
  cuts.map fun (id, b) => s!"K {id} {joinBits (boxKey b)}"

/-- one operation of the model, also returning the `K` items of a cutting build -/
def stepModelX (w : World Float) : POp → Option (World Float × String × Nat × List String)
  | .rebuildS fb items dil =>
    (rebuildG (.center fb) 0 w.q items dil).map fun r => (⟨r.1, curAfter items w.cur⟩, "S", 0, [])
  | .rebuildN base refuse eps items dil =>
    (rebuildG (.cutting eps refuse) base w.q items dil).map fun r =>
      (⟨r.1, curAfterCuts r.2 (curAfter items w.cur)⟩, "N", 0, cutItems r.2)
  | .ins id b =>
    (preUpdateOrInsert useFix w.q id).map fun q' => (⟨q', fun d => if d = id then b else w.cur d⟩, "I", 0, [])
  | .rem id => (remove w.q id).map fun r => (⟨r.1, w.cur⟩, "R", if r.2 then 1 else 0, [])
  | .refit m => (refit w.q w.cur m).map fun r => (⟨r.1, w.cur⟩, "F", r.2, [])
  | .rebalance m => (rebalance w.q m).map fun q' => (⟨q', w.cur⟩, "B", 0, [])
  | .rebuild items dil => (rebuild w.q items dil).map fun q' => (⟨q', curAfter items w.cur⟩, "C", 0, [])

def stepModel (w : World Float) (op : POp) : Option (World Float × String × Nat) :=
  (stepModelX w op).map fun (w', n, r, _) => (w', n, r)

/-- final world of the model, `none` on panic -/
def finalModel (ops : List POp) : Option (World Float) :=
  ops.foldlM (fun w op => (stepModel w op).map (·.1)) World.empty

def runModel (ops : List POp) : String := Id.run do
  let mut w : World Float := World.empty
  let mut sh : Shadow := {}
  let mut out : Array String := #[]
  for op in ops do
    match stepModelX w op with
    | none =>
      out := out.push "PANIC ;"
      break
    | some (w', name, ret, extra) =>
      let (s, sh') := dumpDelta w'.q sh name ret extra
      out := out.push s
      sh := sh'
      w := w'
  return " ".intercalate out.toList

/-! ## the oracle leg: rebuild the Rust states from the implementation's deltas -/

def pfloatTok (t : String) : Option Float :=
  if t = "nan" then some (0.0 / 0.0) else FloatIO.ofHex? t

def natsOf (ts : List String) : Option (List Nat) := ts.mapM String.toNat?
def floatsOf (ts : List String) : Option (List Float) := ts.mapM pfloatTok

def box6 : List Float → Aabb3 Float
  | [a, b, c, d, e, f] => ⟨⟨a, b, c⟩, ⟨d, e, f⟩⟩
  | _ => invalidBox

def growNodes (ns : Array (Node Float)) (n : Nat) : Array (Node Float) :=
  if ns.size < n then ns ++ Array.replicate (n - ns.size) (emptyNode : Node Float) else ns.extract 0 n
def growProx (ps : Array Proxy) (n : Nat) : Array Proxy :=
  if ps.size < n then ps ++ Array.replicate (n - ps.size) invalidProxy else ps.extract 0 n

/-- apply the delta items of one segment (after the header) -/
partial def applyItems (q : Q Float) : List String → Option (Q Float)
  | [] => some q
  | "R" :: rest => do
    let fs ← floatsOf (rest.take 6)
    applyItems { q with rootAabb := box6 fs } (rest.drop 6)
  | "N" :: rest => do
    let ns ← natsOf (rest.take 8)
    match ns with
    | [i, c0, c1, c2, c3, pi, pl, fl] =>
      let old := (q.nodes[i]?).getD emptyNode
      let nd : Node Float := { old with children := #v[c0, c1, c2, c3], parent := pi, plane := pl,
                                        leaf := fl % 2 == 1, changed := (fl / 2) % 2 == 1, dirty := (fl / 4) % 2 == 1 }
      applyItems { q with nodes := q.nodes.setIfInBounds i nd } (rest.drop 8)
    | _ => none
  | "X" :: rest => do
    let i ← (rest.head?).bind String.toNat?
    let fs ← floatsOf ((rest.drop 1).take 24)
    let old := (q.nodes[i]?).getD emptyNode
    let bx : Vector (Aabb3 Float) 4 :=
      #v[box6 (fs.take 6), box6 ((fs.drop 6).take 6), box6 ((fs.drop 12).take 6), box6 ((fs.drop 18).take 6)]
    applyItems { q with nodes := q.nodes.setIfInBounds i { old with boxes := bx } } (rest.drop 25)
  | "P" :: rest => do
    let ns ← natsOf (rest.take 4)
    match ns with
    | [i, nd, ln, dt] => applyItems { q with proxies := q.proxies.setIfInBounds i ⟨nd, ln, dt⟩ } (rest.drop 4)
    | _ => none
  | "K" :: rest => applyItems q (rest.drop 7)
  | "D" :: rest => do
    let k ← (rest.head?).bind String.toNat?
    let ds ← natsOf ((rest.drop 1).take k)
    applyItems { q with dirtyNodes := ds.reverse } (rest.drop (k + 1))
  | "F" :: rest => do
    let k ← (rest.head?).bind String.toNat?
    let ds ← natsOf ((rest.drop 1).take k)
    applyItems { q with freeList := ds.reverse } (rest.drop (k + 1))
  | _ => none

/-- one segment `op ret n N p M items…` -/
def applySegment (q : Q Float) (seg : List String) : Option (Q Float × Nat) :=
  match seg with
  | _ :: ret :: "n" :: nn :: "p" :: np :: items => do
    let ret ← ret.toNat?
    let nn ← nn.toNat?
    let np ← np.toNat?
    let q1 : Q Float := { q with nodes := growNodes q.nodes nn, proxies := growProx q.proxies np }
    let q2 ← applyItems q1 items
    pure (q2, ret)
  | _ => none

def splitSegs (toks : List String) : List (List String) :=
  let rec go (acc : List String) (segs : List (List String)) : List String → List (List String)
    | [] => (if acc.isEmpty then segs else acc.reverse :: segs).reverse
    | ";" :: rest => go [] (acc.reverse :: segs) rest
    | t :: rest => go (t :: acc) segs rest
  go [] [] toks

def qbox (b : Aabb3 Float) : Aabb3 Rat := ⟨q3 b.mins, q3 b.maxs⟩
def finiteBox (b : Aabb3 Float) : Bool := finite3 b.mins && finite3 b.maxs
def nodeToRat (nd : Node Float) : Node Rat :=
  { boxes := nd.boxes.map qbox, children := nd.children, parent := nd.parent, plane := nd.plane,
    leaf := nd.leaf, changed := nd.changed, dirty := nd.dirty }
def toRat (s : Q Float) : Q Rat :=
  { rootAabb := qbox s.rootAabb, nodes := s.nodes.map nodeToRat, dirtyNodes := s.dirtyNodes,
    freeList := s.freeList, proxies := s.proxies }

def insertSorted (x : Nat) : List Nat → List Nat
  | [] => [x]
  | y :: ys => if x ≤ y then x :: y :: ys else y :: insertSorted x ys
def sortNat (xs : List Nat) : List Nat := xs.foldr insertSorted []

/-- all checks on one reconstructed Rust state -/
def judgeState (s : Q Float) (cur : Nat → Aabb3 Float) (live : List Nat) (afterRefit : Bool) : Option String :=
  if !(s.nodes.all fun nd => nd.boxes.toList.all finiteBox) then some "nonfinite-box"
  else if !checkRoot s then some "inv-root"
  else if !checkChildren s then some "inv-child-backpointer"
  else if !checkParents s then some "inv-parent-backpointer"
  else if !checkLeafProxy s then some "inv-leaf-proxy"
  else if !checkProxyLeaf s then some "inv-proxy-leaf"
  else if !checkDepth s then some "inv-cycle"
  else if !checkFree s.freeList then some "inv-free-list-duplicate"
  else if !checkFreeBound s then some "inv-free-list-out-of-range"
  else if sortNat (collect s (s.nodes.size + 1) 0) != sortNat live then some "reachable-leaves-differ-from-live-set"
  else if !checkRootParent s then some "root-parent-not-invalid"
  else if !checkDirty s then some "dirty-flag-not-queued"
  else if !checkData s then some "proxy-data-differs-from-index"
  else if afterRefit then
    if !s.dirtyNodes.isEmpty then some "dirty-left-after-refit"
    else if !checkBox (toRat s) (fun d => qbox (cur d)) then some "box-not-containing-below-after-refit"
    else if !checkFresh (toRat s) (fun d => qbox (cur d)) then some "box-not-containing-fresh-after-refit"
    -- `Qbvh::root_aabb` is a stored box too: it contains the current box of every live leaf
    else if !(live.all fun i => boxContains (qbox s.rootAabb) (qbox (cur i))) then some "root-aabb-not-containing-live-leaf-after-refit"
    else none
  else none

/-- the `K <id> <box>` items of one dump segment: the user's record of the pieces of a cutting build, in callback order -/
def cutsOfSeg : List String → List (Nat × Aabb3 Float)
  | [] => []
  | "K" :: id :: rest =>
    match id.toNat?, floatsOf (rest.take 6) with
    | some i, some fs => (i, box6 fs) :: cutsOfSeg rest
    | _, _ => cutsOfSeg rest
  | _ :: rest => cutsOfSeg rest

/-- `l`, `r` are exactly the two pieces of `b` cut by an axis-aligned plane strictly inside `b`: the negative-side piece
keeps `mins`, the positive-side piece keeps `maxs`, they meet on one coordinate plane and agree with `b` elsewhere -/
def isPlaneCut (b l r : Aabb3 Rat) : Bool :=
  let eqV (a c : V3 Rat) : Bool := decide (a.x = c.x) && decide (a.y = c.y) && decide (a.z = c.z)
  eqV l.mins b.mins && eqV r.maxs b.maxs &&
  [0, 1, 2].any fun ax =>
    let s := l.maxs.get ax
    decide (r.mins.get ax = s) && decide (b.mins.get ax < s) && decide (s < b.maxs.get ax) &&
    [0, 1, 2].all fun o => o == ax || (decide (l.maxs.get o = b.maxs.get o) && decide (r.mins.get o = b.mins.get o))

/-- the pieces recorded by the callback, pair by pair: the first keeps the id of a live leaf and, together with the
second (a fresh id), tiles that leaf's current box exactly; returns the updated boxes and live set -/
def applyCuts : List (Nat × Aabb3 Float) → (Nat → Aabb3 Float) → List Nat → Except String ((Nat → Aabb3 Float) × List Nat)
  | (i, l) :: (j, r) :: rest, cur, live =>
    if !live.contains i then .error s!"cut-of-a-dead-leaf {i}"
    else if live.contains j then .error s!"piece-id-not-fresh {j}"
    else if !(finiteBox l && finiteBox r) then .error s!"nonfinite-piece {i}"
    else if !isPlaneCut (⟨q3 (cur i).mins, q3 (cur i).maxs⟩) ⟨q3 l.mins, q3 l.maxs⟩ ⟨q3 r.mins, q3 r.maxs⟩ then .error s!"pieces-do-not-tile-the-leaf {i} {j}"
    else applyCuts rest (fun d => if d = j then r else if d = i then l else cur d) (j :: live)
  | [_], _, _ => .error "odd-number-of-pieces"
  | [], cur, live => .ok (cur, live)

/-- final Rust state, current boxes and live set of a dumped history, or the first failure -/
def runOracleCore (ops : List POp) (segs : List (List String)) : Except String (Q Float × (Nat → Aabb3 Float) × List Nat × Bool) := do
  let mut s : Q Float := Q.empty
  let mut cur : Nat → Aabb3 Float := fun _ => invalidBox
  let mut live : List Nat := []
  let mut k := 0
  let mut tainted := false
  let mut settled := false
  for (op, seg) in ops.zip segs do
    if seg == ["PANIC"] then throw s!"fail panic op={k}"
    let pendingBefore := !s.dirtyNodes.isEmpty
    match applySegment s seg with
    | none => throw s!"fail unparsable-output op={k}"
    | some (s', _) =>
      s := s'
      match op with
      | .rebalance _ => if pendingBefore then tainted := true
      | .rebuild _ _ => tainted := false
      | .rebuildS _ _ _ => tainted := false
      | .rebuildN _ _ _ _ _ => tainted := false
      | _ => pure ()
      let mut afterRefit := false
      let setItems := fun (items : List (Nat × Aabb3 Float)) (c : Nat → Aabb3 Float) =>
        items.foldl (fun c (it : Nat × Aabb3 Float) => fun d => if d = it.1 then it.2 else c d) c
      match op with
      | .ins id b =>
        cur := (fun c d => if d = id then b else c d) cur
        if !live.contains id then live := id :: live
      | .rem id => live := live.filter (· != id)
      | .refit _ => afterRefit := true
      | .rebalance _ => afterRefit := s.dirtyNodes.isEmpty
      | .rebuild items _ =>
        live := (items.map (·.1)).eraseDups
        cur := setItems items cur
        afterRefit := s.dirtyNodes.isEmpty
      | .rebuildS _ items _ =>
        live := (items.map (·.1)).eraseDups
        cur := setItems items cur
        afterRefit := s.dirtyNodes.isEmpty
      | .rebuildN _ _ _ items _ =>
        live := (items.map (·.1)).eraseDups
        cur := setItems items cur
        match applyCuts (cutsOfSeg seg) cur live with
        | .error why => throw s!"fail {why} op={k}"
        | .ok (c, l) => cur := c; live := l
        afterRefit := s.dirtyNodes.isEmpty
      settled := afterRefit && !tainted
      match judgeState s cur live settled with
      | some why => throw s!"fail {why} op={k}"
      | none => pure ()
    k := k + 1
  return (s, cur, live, settled)

def runOracle (ops : List POp) (out : List String) : String :=
  let segs := splitSegs out
  if segs.length != ops.length then
    if out.contains "PANIC" then s!"fail panic op={segs.length - 1}"
    else "fail unparsable-output segment-count"
  else match runOracleCore ops segs with
    | .error why => why
    | .ok _ => "pass"

def pquery : P (List POp × Aabb3 Float) := do let ops ← plist pop; let b ← pbox; pend; pure (ops, b)

/-- exact overlap of two boxes -/
def overlapQ (a b : Aabb3 Rat) : Bool :=
  decide (a.mins.x ≤ b.maxs.x) && decide (b.mins.x ≤ a.maxs.x) &&
  decide (a.mins.y ≤ b.maxs.y) && decide (b.mins.y ≤ a.maxs.y) &&
  decide (a.mins.z ≤ b.maxs.z) && decide (b.mins.z ≤ a.maxs.z)

/-- live leaves and their current boxes after a history (from the arguments alone) -/
def liveAfter (ops : List POp) : List (Nat × Aabb3 Float) :=
  ops.foldl (fun acc op => match op with
    | .ins id b => (id, b) :: acc.filter (·.1 != id)
    | .rem id => acc.filter (·.1 != id)
    | .rebuild items _ => items.foldl (fun a it => it :: a.filter (·.1 != it.1)) []
    | .rebuildS _ items _ => items.foldl (fun a it => it :: a.filter (·.1 != it.1)) []
    -- the pieces of a cutting build are not known from the arguments alone: `bquery` reads them from the dump
    | .rebuildN _ _ _ items _ => items.foldl (fun a it => it :: a.filter (·.1 != it.1)) []
    | _ => acc) []

/-- oracle for `query`: after a history ending with `refit`, `intersect_aabb` must report every live leaf whose
current box overlaps the query box (brute force over the live leaves), nothing dead, nothing twice -/
def queryOracle (ops : List POp) (b : Aabb3 Float) (out : List String) : String :=
  match out with
  | "PANIC" :: _ => "fail panic"
  | _ =>
    match out.mapM String.toNat? with
    | none => "fail unparsable-output"
    | some ids =>
      let live := liveAfter ops
      let refitLast := match ops.getLast? with
        | some (.refit _) => true
        | _ => false
      if !refitLast then "skip history-does-not-end-with-refit"
      else if ids.eraseDups.length != ids.length then "fail leaf-reported-twice"
      else match ids.find? (fun i => !(live.any (·.1 == i))) with
        | some i => s!"fail dead-leaf-reported {i}"
        | none =>
          match live.find? (fun (i, bx) => overlapQ (qbox bx) (qbox b) && !ids.contains i) with
          | some (i, _) => s!"fail overlapping-leaf-missed {i}"
          | none => "pass"

/-! ## two-tree traversal (`bvtt`, `bvtto`) and the single-tree depth-first entry points (`dfs`) -/

def pbvtt : P (List POp × List POp × Option (Iso3 Float)) := do
  let o1 ← plist pop
  let o2 ← plist pop
  let hp ← pbool
  let m ← if hp then (do let m ← piso3; pure (some m)) else pure none
  pend
  pure (o1, o2, m)

def parsePairs (toks : List String) : Option (List (Nat × Nat)) :=
  toks.mapM fun t => match t.splitOn ":" with
    | [a, b] => do let x ← a.toNat?; let y ← b.toNat?; pure (x, y)
    | _ => none

/-- exact box of the image of `b` under the affine map `m` (from its eight corners) -/
def imageBoxQ (m : Iso3 Rat) (b : Aabb3 Rat) : Aabb3 Rat :=
  let cs : List (V3 Rat) := [b.mins.x, b.maxs.x].flatMap fun x => [b.mins.y, b.maxs.y].flatMap fun y =>
    [b.mins.z, b.maxs.z].map fun z => m.act ⟨x, y, z⟩
  match cs with
  | [] => b
  | c :: rest => rest.foldl (fun (bb : Aabb3 Rat) p =>
      ⟨⟨min bb.mins.x p.x, min bb.mins.y p.y, min bb.mins.z p.z⟩, ⟨max bb.maxs.x p.x, max bb.maxs.y p.y, max bb.maxs.z p.z⟩⟩) ⟨c, c⟩

/-- the two boxes overlap by more than `t` on every axis (pairs that merely touch are not demanded) -/
def overlapBy (t : Rat) (a b : Aabb3 Rat) : Bool :=
  decide (a.mins.x + t ≤ b.maxs.x) && decide (b.mins.x + t ≤ a.maxs.x) &&
  decide (a.mins.y + t ≤ b.maxs.y) && decide (b.mins.y + t ≤ a.maxs.y) &&
  decide (a.mins.z + t ≤ b.maxs.z) && decide (b.mins.z + t ≤ a.maxs.z)

def refitLast (ops : List POp) : Bool :=
  match ops.getLast? with
  | some (.refit _) => true
  | _ => false

/-- oracle for the two-tree traversal: every pair of live leaves whose current boxes (second one posed) overlap must be
reported; no pair with a dead leaf; no pair twice -/
def bvttOracle (o1 o2 : List POp) (pos : Option (Iso3 Float)) (out : List String) : String :=
  match out with
  | "pairs" :: rest =>
    match parsePairs rest with
    | none => "fail unparsable-output"
    | some ps =>
      if !(refitLast o1 && refitLast o2) then "skip history-does-not-end-with-refit" else
      let l1 := liveAfter o1
      let l2 := liveAfter o2
      if ps.eraseDups.length != ps.length then "fail pair-reported-twice"
      else match ps.find? (fun (a, b) => !(l1.any (·.1 == a)) || !(l2.any (·.1 == b))) with
        | some (a, b) => s!"fail dead-leaf-in-pair {a}:{b}"
        | none =>
          let tol : Rat := 1 / 1000000000
          let b2 := l2.map fun (j, bx) => (j, match pos with
            | some m => imageBoxQ (qiso3 m) (qbox bx)
            | none => qbox bx)
          let missed := l1.findSome? fun (i, bx) =>
            let B := qbox bx
            (b2.find? fun (j, C) => overlapBy tol B C && !ps.contains (i, j)).map fun (j, _) => (i, j)
          match missed with
          | some (i, j) => s!"fail overlapping-pair-missed {i}:{j}"
          | none => "pass"
  | "PANIC" :: _ => "fail panic"
  | _ => "fail unparsable-output"

def pdfs : P (List POp × Aabb3 Float × V3 Float × V3 Float × Float) := do
  let ops ← plist pop; let b ← pbox; let o ← pv3; let d ← pv3; let t ← pf; pend; pure (ops, b, o, d, t)

/-- exact slab test: the segment `o + s d`, `0 ≤ s ≤ tmax`, meets the box shrunk by `t` -/
def rayMeetsBox (o d : V3 Rat) (tmax : Rat) (b : Aabb3 Rat) (t : Rat) : Bool :=
  let axis (oo dd lo hi : Rat) (acc : Option (Rat × Rat)) : Option (Rat × Rat) :=
    match acc with
    | none => none
    | some (s0, s1) =>
      if hi - t < lo + t then none   -- thinner than the tolerance: a grazing hit is not demanded
      else if dd = 0 then (if lo + t ≤ oo ∧ oo ≤ hi - t then some (s0, s1) else none)
      else
        let a := (lo + t - oo) / dd
        let c := (hi - t - oo) / dd
        let (a, c) := if a ≤ c then (a, c) else (c, a)
        let s0' := max s0 a
        let s1' := min s1 c
        if s0' ≤ s1' then some (s0', s1') else none
  ((axis o.x d.x b.mins.x b.maxs.x (some (0, tmax))) |> axis o.y d.y b.mins.y b.maxs.y |> axis o.z d.z b.mins.z b.maxs.z).isSome

def idList (t : String) : List Nat := (t.splitOn ",").filterMap String.toNat?

def dfsOracle (ops : List POp) (qb : Aabb3 Float) (o d : V3 Float) (tmax : Float) (out : List String) : String :=
  if !(refitLast ops) then "skip history-does-not-end-with-refit" else
  -- `box <ids> ctx <id@depth,…> ray <ids>`; an empty list leaves no token
  let seg (key : String) : List String := ((out.dropWhile (· != key)).drop 1).takeWhile (fun t => t != "box" && t != "ctx" && t != "ray")
  if out.head? == some "PANIC" then "fail panic" else
  let live := liveAfter ops
  let boxIds := (seg "box").flatMap idList
  let ctxIds := (seg "ctx").flatMap fun t => (t.splitOn ",").filterMap fun u => (u.splitOn "@").head?.bind String.toNat?
  let rayIds := (seg "ray").flatMap idList
  let tol : Rat := 1 / 1000000000
  let dead (ids : List Nat) := ids.find? fun i => !(live.any (·.1 == i))
  let dup (ids : List Nat) := ids.eraseDups.length != ids.length
  if dup boxIds || dup ctxIds || dup rayIds then "fail leaf-reported-twice"
  else match dead boxIds, dead ctxIds, dead rayIds with
    | some i, _, _ => s!"fail dead-leaf-reported box {i}"
    | _, some i, _ => s!"fail dead-leaf-reported ctx {i}"
    | _, _, some i => s!"fail dead-leaf-reported ray {i}"
    | none, none, none =>
      let Q := qbox qb
      match live.find? (fun (i, bx) => overlapBy tol (qbox bx) Q && !boxIds.contains i) with
      | some (i, _) => s!"fail overlapping-leaf-missed traverse_depth_first {i}"
      | none =>
        match live.find? (fun (i, bx) => overlapBy tol (qbox bx) Q && !ctxIds.contains i) with
        | some (i, _) => s!"fail overlapping-leaf-missed traverse_depth_first_with_context {i}"
        | none =>
          if !FloatIO.isFinite tmax then "pass" else
          match live.find? (fun (i, bx) => rayMeetsBox (q3 o) (q3 d) (q tmax) (qbox bx) tol && !rayIds.contains i) with
          | some (i, _) => s!"fail ray-hit-leaf-missed {i}"
          | none => "pass"

/-! ## every entry point: `bvttall` (two trees), `travall` (depth-first, one tree), `bfirst` (best-first) -/

def pairLt (a b : Nat × Nat) : Bool := a.1 < b.1 || (a.1 == b.1 && a.2 < b.2)
def sortPairs (ps : List (Nat × Nat)) : List (Nat × Nat) := (ps.toArray.qsort pairLt).toList
def sortIds (xs : List Nat) : List Nat := (xs.toArray.qsort (· < ·)).toList
def fmtPairs (ps : List (Nat × Nat)) : String := " ".intercalate (ps.map fun (a, b) => s!"{a}:{b}")

def bvttLabels : List String := ["seq", "stk", "mod", "mods", "par", "par1", "par2", "par8", "parn"]
def travLabels : List String := ["dfn", "dfs", "ctx", "par", "par1", "par2", "par8", "parn"]

/-- the tokens following `key` up to the next label -/
def segOf (labels : List String) (out : List String) (key : String) : Option (List String) :=
  if out.contains key then some (((out.dropWhile (· != key)).drop 1).takeWhile (fun t => !labels.contains t)) else none

/-- brute-force judgement of one visited pair set of a complete two-tree traversal -/
def bvttJudge (l1 l2 : List (Nat × Aabb3 Float)) (pos : Option (Iso3 Float)) (ps : List (Nat × Nat)) (complete : Bool) : Option String :=
  if ps.eraseDups.length != ps.length then some "pair-reported-twice"
  else match ps.find? (fun (a, b) => !(l1.any (·.1 == a)) || !(l2.any (·.1 == b))) with
    | some (a, b) => some s!"dead-leaf-in-pair {a}:{b}"
    | none =>
      if !complete then none else
      let tol : Rat := 1 / 1000000000
      let b2 := l2.map fun (j, bx) => (j, match pos with
        | some m => imageBoxQ (qiso3 m) (qbox bx)
        | none => qbox bx)
      let missed := l1.findSome? fun (i, bx) =>
        let B := qbox bx
        (b2.find? fun (j, C) => overlapBy tol B C && !ps.contains (i, j)).map fun (j, _) => (i, j)
      match missed with
      | some (i, j) => some s!"overlapping-pair-missed {i}:{j}"
      | none => none

/-- oracle for `bvttall`: every complete entry point (sequential, with_stack, parallel on 1/2/8/all threads, node_parallel)
must report every overlapping pair of live leaves, no dead leaf, nothing twice; the `modified` variants (which prune on
the CHANGED flags) must report live pairs only, nothing twice, and nothing the complete traversal does not report -/
def bvttAllOracle (o1 o2 : List POp) (pos : Option (Iso3 Float)) (out : List String) : String :=
  if out.head? == some "PANIC" then "fail panic" else
  if !(refitLast o1 && refitLast o2) && !(o1.isEmpty || o2.isEmpty) then "skip history-does-not-end-with-refit" else
  let l1 := liveAfter o1
  let l2 := liveAfter o2
  let segs := bvttLabels.map fun k => (k, (segOf bvttLabels out k).bind parsePairs)
  match segs.find? (·.2.isNone) with
  | some (k, _) => s!"fail unparsable-output {k}"
  | none =>
    let seq := ((segs.find? (·.1 == "seq")).bind (·.2)).getD []
    let bad := segs.findSome? fun (k, ps) =>
      let ps := ps.getD []
      let complete := k != "mod" && k != "mods"
      match bvttJudge l1 l2 pos ps complete with
      | some why => some s!"fail {k} {why}"
      | none =>
        if !complete then (ps.find? (fun p => !seq.contains p)).map fun (a, b) => s!"fail {k} pair-not-in-complete-traversal {a}:{b}"
        else none
    bad.getD "pass"

def ptrav : P (List POp × Aabb3 Float × V3 Float) := do
  let ops ← plist pop; let b ← pbox; let p ← pv3; pend; pure (ops, b, p)

/-- oracle for `travall`: every depth-first entry point with a box predicate reports every live leaf whose current box
overlaps the query box, no dead leaf, nothing twice -/
def travAllOracle (ops : List POp) (qb : Aabb3 Float) (out : List String) : String :=
  if out.head? == some "PANIC" then "fail panic" else
  if !(refitLast ops) && !ops.isEmpty then "skip history-does-not-end-with-refit" else
  let live := liveAfter ops
  let tol : Rat := 1 / 1000000000
  let Q := qbox qb
  let bad := travLabels.findSome? fun k =>
    match (segOf travLabels out k).bind (fun ts => ts.mapM String.toNat?) with
    | none => some s!"fail unparsable-output {k}"
    | some ids =>
      if ids.eraseDups.length != ids.length then some s!"fail {k} leaf-reported-twice"
      else match ids.find? (fun i => !(live.any (·.1 == i))) with
        | some i => some s!"fail {k} dead-leaf-reported {i}"
        | none => (live.find? (fun (i, bx) => overlapBy tol (qbox bx) Q && !ids.contains i)).map fun (i, _) =>
            s!"fail {k} overlapping-leaf-missed {i}"
  bad.getD "pass"

/-- exact squared distance from a point to a box -/
def dist2Q (p : V3 Rat) (b : Aabb3 Rat) : Rat :=
  let ax (x lo hi : Rat) : Rat := let d := max (max (lo - x) 0) (x - hi); d * d
  ax p.x b.mins.x b.maxs.x + ax p.y b.mins.y b.maxs.y + ax p.z b.mins.z b.maxs.z

/-- oracle for `bfirst`: the best-first search returns a live leaf whose cost is the minimum over all live leaves of the
squared distance from the query point to the leaf's current box (`none` iff there is no live leaf) -/
def bfirstOracle (ops : List POp) (p : V3 Float) (out : List String) : String :=
  if out.head? == some "PANIC" then "fail panic" else
  if !(refitLast ops) && !ops.isEmpty then "skip history-does-not-end-with-refit" else
  let live := liveAfter ops
  let P := q3 p
  let best : Option Rat := live.foldl (fun acc (_, bx) =>
    let d := dist2Q P (qbox bx)
    match acc with
    | none => some d
    | some m => some (min m d)) none
  let judge (k : String) : Option String :=
    match segOf ["bf", "bfn"] out k with
    | some ["none"] => if best.isNone then none else some s!"fail {k} nothing-found-although-leaves-exist"
    | some [c, i] =>
      match pfloatTok c, i.toNat?, best with
      | some cost, some id, some m =>
        match live.find? (·.1 == id) with
        | none => some s!"fail {k} dead-leaf-returned {id}"
        | some (_, bx) =>
          let d := dist2Q P (qbox bx)
          let cq := q cost
          if !(leTol d cq tolDefault && leTol cq d tolDefault) then some s!"fail {k} cost-differs-from-leaf-distance {id}"
          else if !(leTol d m tolDefault) then some s!"fail {k} not-the-nearest-leaf {id}"
          else none
      | _, _, none => some s!"fail {k} leaf-returned-from-empty-tree"
      | _, _, _ => some s!"fail unparsable-output {k}"
    | _ => some s!"fail unparsable-output {k}"
  match judge "bf", judge "bfn" with
  | some w, _ => w
  | _, some w => w
  | none, none => "pass"

def handlerBase (fn : String) : Option Handler :=
  match fn with
  | "bvttall" => some {
      model := fun a => (run pbvtt a).map fun (o1, o2, m) =>
        match finalModel o1, finalModel o2 with
        | some w1, some w2 =>
          match traverseBvtt w1.q w2.q m, traverseModifiedBvtt w1.q w2.q m with
          | some ps, some ms =>
            let P := fmtPairs (sortPairs ps)
            let M := fmtPairs (sortPairs ms)
            " ".intercalate (bvttLabels.map fun k => s!"{k} {if k == "mod" || k == "mods" then M else P}")
          | _, _ => "PANIC"
        | _, _ => "PANIC"
      oracle := fun a o => match run pbvtt a with
        | some (o1, o2, m) => bvttAllOracle o1 o2 m o
        | none => "skip bad-args" }
  | "travall" => some {
      model := fun a => (run ptrav a).map fun (ops, b, _) =>
        match (finalModel ops).bind fun w => intersectAabb w.q b with
        | some ids =>
          let I := " ".intercalate ((sortIds ids).map toString)
          " ".intercalate (travLabels.map fun k => s!"{k} {I}")
        | none => "PANIC"
      oracle := fun a o => match run ptrav a with
        | some (ops, b, _) => travAllOracle ops b o
        | none => "skip bad-args" }
  | "bfirst" => some {
      model := fun _ => some "-"
      oracle := fun a o => match run ptrav a with
        | some (ops, _, p) => bfirstOracle ops p o
        | none => "skip bad-args" }
  | "bvtt" => some {
      model := fun a => (run pbvtt a).map fun (o1, o2, m) =>
        match finalModel o1, finalModel o2 with
        | some w1, some w2 =>
          match traverseBvtt w1.q w2.q m with
          | some ps => " ".intercalate ("pairs" :: ps.map fun (a, b) => s!"{a}:{b}")
          | none => "PANIC"
        | _, _ => "PANIC"
      oracle := fun a o => match run pbvtt a with
        | some (o1, o2, m) => bvttOracle o1 o2 m o
        | none => "skip bad-args" }
  | "bvtto" => some {
      model := fun _ => some "-"
      oracle := fun a o => match run pbvtt a with
        | some (o1, o2, m) => bvttOracle o1 o2 m o
        | none => "skip bad-args" }
  | "dfs" => some {
      model := fun _ => some "-"
      oracle := fun a o => match run pdfs a with
        | some (ops, b, oo, d, t) => dfsOracle ops b oo d t o
        | none => "skip bad-args" }
  | "query" => some {
      model := fun a => (run pquery a).map fun (ops, b) =>
        match (finalModel ops).bind fun w => intersectAabb w.q b with
        | some ids => " ".intercalate (ids.map toString)
        | none => "PANIC"
      oracle := fun a o => match run pquery a with
        | some (ops, b) => queryOracle ops b o
        | none => "skip bad-args" }
  | "histo" => some {
      -- same histories as `hist`, judged by the invariant oracle on the dumped Rust states only (no model comparison)
      model := fun _ => some "-"
      oracle := fun a o => match run phist a with
        | some ops => runOracle ops o
        | none => "skip bad-args" }
  | "hist" => some {
      model := fun a => (run phist a).map runModel
      oracle := fun a o => match run phist a with
        | some ops => runOracle ops o
        | none => "skip bad-args" }
  | _ => none

end C08
