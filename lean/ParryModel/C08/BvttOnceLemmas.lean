import ParryModel.C08.TravLemmas
/-!
# C08: the simultaneous traversal visits every entry at most once — each pair is reported once, and the stack loop
terminates within its fuel
-/
namespace C08
open Model Model.Qbvh
set_option linter.unusedSectionVars false
set_option linter.unusedVariables false
set_option linter.unusedSimpArgs false
variable {K : Type} [Num K]

/-! ## the lists pushed and reported by one per-node step -/

/-- the entries pushed at `(e1, e2)`, top of the stack first -/
def pushedList (q1 q2 : Q K) (pos : Option (Iso3 K)) (n1 n2 : Node K) (e1 e2 : Nat) : List (Nat × Nat) :=
  if (n1.leaf && n2.leaf) = true then []
  else if n1.leaf = true then
    (lanes4.map fun jj =>
      if (lanes4.any (fun ii => pairMask pos n1 n2 ii jj) && decide ((n2.children[jj]?).getD MAXN ≤ q2.nodes.size)) = true
      then [(e1, (n2.children[jj]?).getD MAXN)] else []).reverse.flatten
  else if n2.leaf = true then
    (lanes4.map fun ii =>
      if (lanes4.any (fun jj => pairMask pos n1 n2 ii jj) && decide ((n1.children[ii]?).getD MAXN ≤ q1.nodes.size)) = true
      then [((n1.children[ii]?).getD MAXN, e2)] else []).reverse.flatten
  else
    (lanes4.map fun ii => (lanes4.map fun jj =>
      if (pairMask pos n1 n2 ii jj && decide ((n1.children[ii]?).getD MAXN ≤ q1.nodes.size) &&
        decide ((n2.children[jj]?).getD MAXN ≤ q2.nodes.size)) = true
      then [((n1.children[ii]?).getD MAXN, (n2.children[jj]?).getD MAXN)] else []).reverse.flatten).reverse.flatten

/-- the pairs reported at `(e1, e2)`, last reported first -/
def reportedList (q1 q2 : Q K) (pos : Option (Iso3 K)) (n1 n2 : Node K) : List (Nat × Nat) :=
  if (n1.leaf && n2.leaf) = true then
    (lanes4.map fun ii =>
      match q1.proxies[(n1.children[ii]?).getD MAXN]? with
      | none => []
      | some p1 => (lanes4.map fun jj =>
          match q2.proxies[(n2.children[jj]?).getD MAXN]? with
          | none => []
          | some p2 => if pairMask pos n1 n2 ii jj = true then [(p1.data, p2.data)] else []).reverse.flatten).reverse.flatten
  else []

theorem bvttVisit_lists (q1 q2 : Q K) (pos : Option (Iso3 K)) (e1 e2 : Nat) (n1 n2 : Node K)
    (h1 : q1.nodes[e1]? = some n1) (h2 : q2.nodes[e2]? = some n2) (stack out : List (Nat × Nat)) :
    bvttVisit q1 q2 pos e1 e2 stack out =
      some (pushedList q1 q2 pos n1 n2 e1 e2 ++ stack, reportedList q1 q2 pos n1 n2 ++ out) := by
  unfold bvttVisit pushedList reportedList
  simp only [h1, h2]
  congr 1
  apply Prod.ext
  · -- the pushes
    simp only
    by_cases hl : (n1.leaf && n2.leaf) = true
    · simp [hl]
    · simp only [hl, Bool.false_eq_true, if_false]
      by_cases hl1 : n1.leaf = true
      · simp only [hl1, if_true]
        exact foldl_step _ _ (by intro st jj; split <;> simp) lanes4 stack
      · simp only [hl1, Bool.false_eq_true, if_false]
        by_cases hl2 : n2.leaf = true
        · simp only [hl2, if_true]
          exact foldl_step _ _ (by intro st ii; split <;> simp) lanes4 stack
        · simp only [hl2, Bool.false_eq_true, if_false]
          exact foldl_step _ _ (by
            intro st ii
            exact foldl_step _ _ (by intro st' jj; split <;> simp) lanes4 st) lanes4 stack
  · -- the reports
    simp only
    by_cases hl : (n1.leaf && n2.leaf) = true
    · simp only [hl, if_true]
      exact foldl_step _ _ (by
        intro st ii
        cases q1.proxies[(n1.children[ii]?).getD MAXN]? with
        | none => simp
        | some p1 =>
          dsimp only
          exact foldl_step _ _ (by
            intro st' jj
            cases q2.proxies[(n2.children[jj]?).getD MAXN]? with
            | none => simp
            | some p2 => dsimp only; split <;> simp) lanes4 st) lanes4 out
    · simp [hl]

/-- a flattened list of pairwise disjoint duplicate-free pieces, indexed by a duplicate-free list, has no duplicates -/
theorem nodup_pieces {α β : Type} (l : List α) (g : α → List β) (hl : l.Nodup) (h1 : ∀ x ∈ l, (g x).Nodup)
    (h2 : ∀ x ∈ l, ∀ y ∈ l, x ≠ y → ∀ z, z ∈ g x → z ∈ g y → False) : ((l.map g).reverse.flatten).Nodup := by
  rw [List.nodup_flatten]
  constructor
  · intro p hp
    obtain ⟨x, hx, rfl⟩ := List.mem_map.1 (List.mem_reverse.1 hp)
    exact h1 x hx
  · rw [List.pairwise_reverse, List.pairwise_map]
    refine List.Pairwise.imp_of_mem ?_ hl
    intro x y hx hy hne z hz1 hz2
    exact h2 y hy x hx (Ne.symm hne) z hz1 hz2

theorem mem_pieces {α β : Type} (l : List α) (g : α → List β) (z : β) :
    z ∈ (l.map g).reverse.flatten ↔ ∃ x ∈ l, z ∈ g x := by
  simp only [List.mem_flatten, List.mem_reverse, List.mem_map]
  constructor
  · rintro ⟨_, ⟨x, hx, rfl⟩, hz⟩; exact ⟨x, hx, hz⟩
  · rintro ⟨x, hx, hz⟩; exact ⟨_, ⟨x, hx, rfl⟩, hz⟩

/-- children of a live internal node in two lanes that pass the range guard are equal only if the lanes are -/
theorem child_lane_inj {q : Q K} (hinv : Inv q) (hsz : q.nodes.size < MAXN) (n : Nat) (nd : Node K) (hnd : q.nodes[n]? = some nd)
    (hlive : Live q n) (hleaf : nd.leaf = false) (l l' : Nat) (hl : l ∈ lanes4) (hl' : l' ∈ lanes4)
    (hle : childOf nd l ≤ q.nodes.size) (e : childOf nd l = childOf nd l') : l = l' := by
  have h4 : l < 4 := by simp [lanes4] at hl; omega
  have h4' : l' < 4 := by simp [lanes4] at hl'; omega
  have hc : nd.children[l]? = some (childOf nd l) := by simp [childOf, h4]
  have hc' : nd.children[l']? = some (childOf nd l) := by rw [e]; simp [childOf, h4']
  have hm : childOf nd l ≠ MAXN := by omega
  obtain ⟨_, _, cn, hcn, _, hp⟩ := hinv.child n nd hnd hlive hleaf l _ hc hm
  obtain ⟨_, _, cn', hcn', _, hp'⟩ := hinv.child n nd hnd hlive hleaf l' _ hc' hm
  rw [hcn] at hcn'; cases hcn'
  omega

/-- **the entries pushed by one step are pairwise different** (both trees valid) -/
theorem pushedList_nodup {q1 q2 : Q K} (pos : Option (Iso3 K)) (h1 : Inv q1) (h2 : Inv q2) (s1 : q1.nodes.size < MAXN)
    (s2 : q2.nodes.size < MAXN) (e1 e2 : Nat) (n1 n2 : Node K) (a1 : q1.nodes[e1]? = some n1) (a2 : q2.nodes[e2]? = some n2)
    (l1 : Live q1 e1) (l2 : Live q2 e2) : (pushedList q1 q2 pos n1 n2 e1 e2).Nodup := by
  unfold pushedList
  by_cases hl : (n1.leaf && n2.leaf) = true
  · simp [hl]
  · simp only [hl, Bool.false_eq_true, if_false]
    by_cases hl1 : n1.leaf = true
    · have hl2 : n2.leaf = false := by cases h : n2.leaf <;> simp_all
      simp only [hl1, if_true]
      apply nodup_pieces _ _ lanes4_nodup
      · intro jj _; split <;> simp
      · intro jj hjj jj' hjj' hne z hz hz'
        split at hz
        · rename_i hc
          split at hz'
          · simp only [List.mem_singleton] at hz hz'
            simp only [Bool.and_eq_true, decide_eq_true_eq] at hc
            rw [hz] at hz'
            exact hne (child_lane_inj h2 s2 e2 n2 a2 l2 hl2 jj jj' hjj hjj' hc.2 (by simpa [childOf] using congrArg Prod.snd hz'))
          · simp at hz'
        · simp at hz
    · simp only [hl1, Bool.false_eq_true, if_false]
      have hl1' : n1.leaf = false := by simpa using hl1
      by_cases hl2 : n2.leaf = true
      · simp only [hl2, if_true]
        apply nodup_pieces _ _ lanes4_nodup
        · intro ii _; split <;> simp
        · intro ii hii ii' hii' hne z hz hz'
          split at hz
          · rename_i hc
            split at hz'
            · simp only [List.mem_singleton] at hz hz'
              simp only [Bool.and_eq_true, decide_eq_true_eq] at hc
              rw [hz] at hz'
              exact hne (child_lane_inj h1 s1 e1 n1 a1 l1 hl1' ii ii' hii hii' hc.2 (by simpa [childOf] using congrArg Prod.fst hz'))
            · simp at hz'
          · simp at hz
      · simp only [hl2, Bool.false_eq_true, if_false]
        have hl2' : n2.leaf = false := by simpa using hl2
        apply nodup_pieces _ _ lanes4_nodup
        · intro ii hii
          apply nodup_pieces _ _ lanes4_nodup
          · intro jj _; split <;> simp
          · intro jj hjj jj' hjj' hne z hz hz'
            split at hz
            · rename_i hc
              split at hz'
              · simp only [List.mem_singleton] at hz hz'
                simp only [Bool.and_eq_true, decide_eq_true_eq] at hc
                rw [hz] at hz'
                exact hne (child_lane_inj h2 s2 e2 n2 a2 l2 hl2' jj jj' hjj hjj' hc.2 (by simpa [childOf] using congrArg Prod.snd hz'))
              · simp at hz'
            · simp at hz
        · intro ii hii ii' hii' hne z hz hz'
          obtain ⟨jj, hjj, hz⟩ := (mem_pieces _ _ z).1 hz
          obtain ⟨jj', hjj', hz'⟩ := (mem_pieces _ _ z).1 hz'
          split at hz
          · rename_i hc
            split at hz'
            · simp only [List.mem_singleton] at hz hz'
              simp only [Bool.and_eq_true, decide_eq_true_eq] at hc
              rw [hz] at hz'
              exact hne (child_lane_inj h1 s1 e1 n1 a1 l1 hl1' ii ii' hii hii' hc.1.2 (by simpa [childOf] using congrArg Prod.fst hz'))
            · simp at hz'
          · simp at hz

/-! ## the front of the two-tree traversal -/

/-- the product subtrees below two entries are disjoint: the first or the second components are unrelated -/
def PUnrel (q1 q2 : Q K) (e e' : Nat × Nat) : Prop := Unrel q1 e.1 e'.1 ∨ Unrel q2 e.2 e'.2

/-- an unrelated node stays unrelated to a child -/
theorem unrel_child {q : Q K} {s t c : Nat} (h : Unrel q s t) (hc : IsChild q s c) : Unrel q c t := by
  constructor
  · intro ha; exact h.1 (hc.anc.trans ha)
  · intro ha
    rcases Anc.of_child hc ha with e | ha'
    · subst e; exact h.1 hc.anc
    · exact h.2 ha'

/-- `x` lies strictly below `e`: each component stays or steps to a child, and at least one steps -/
def Below (q1 q2 : Q K) (e x : Nat × Nat) : Prop :=
  (x.1 = e.1 ∨ IsChild q1 e.1 x.1) ∧ (x.2 = e.2 ∨ IsChild q2 e.2 x.2) ∧ (IsChild q1 e.1 x.1 ∨ IsChild q2 e.2 x.2)

structure Front2 (q1 q2 : Q K) (stack done : List (Nat × Nat)) : Prop where
  live : ∀ e ∈ stack, GoodEntry q1 q2 e
  unrel : stack.Pairwise (PUnrel q1 q2)
  sep : ∀ d ∈ done, ∀ e ∈ stack, ¬ (Anc q1 e.1 d.1 ∧ Anc q2 e.2 d.2)
  doneNodup : done.Nodup
  doneLt : ∀ d ∈ done, d.1 < q1.nodes.size ∧ d.2 < q2.nodes.size

theorem Front2.not_done {q1 q2 : Q K} {e : Nat × Nat} {stack done : List (Nat × Nat)} (f : Front2 q1 q2 (e :: stack) done) :
    e ∉ done := fun h => f.sep e h e (by simp) ⟨Anc.refl, Anc.refl⟩

/-- a duplicate-free list of pairs below `(n, m)` has at most `n * m` elements -/
theorem nodup_pairs_length (n m : Nat) (l : List (Nat × Nat)) (hn : l.Nodup) (hb : ∀ x ∈ l, x.1 < n ∧ x.2 < m) :
    l.length ≤ n * m := by
  have h1 : (l.map fun x => x.1 * m + x.2).Nodup := by
    apply List.Nodup.map_on _ hn
    intro x hx y hy e
    obtain ⟨x1, x2⟩ := x
    obtain ⟨y1, y2⟩ := y
    have bx := (hb _ hx).2
    have by' := (hb _ hy).2
    simp only at e bx by'
    have hm : 0 < m := by omega
    have e2 : x2 = y2 := by
      have := congrArg (· % m) e
      simp only [Nat.mul_add_mod_self_right, Nat.mod_eq_of_lt bx, Nat.mod_eq_of_lt by'] at this
      exact this
    subst e2
    have e1 : x1 = y1 := by
      have : x1 * m = y1 * m := by omega
      exact Nat.eq_of_mul_eq_mul_right hm this
    subst e1; rfl
  have h2 : ∀ v ∈ l.map (fun x => x.1 * m + x.2), v < n * m := by
    intro v hv
    obtain ⟨x, hx, rfl⟩ := List.mem_map.1 hv
    obtain ⟨b1, b2⟩ := hb x hx
    calc x.1 * m + x.2 < x.1 * m + m := by omega
      _ = (x.1 + 1) * m := by rw [Nat.add_mul, Nat.one_mul]
      _ ≤ n * m := Nat.mul_le_mul_right m (by omega)
  simpa using nodup_bounded_length _ _ h1 h2

theorem Front2.done_length {q1 q2 : Q K} {e : Nat × Nat} {stack done : List (Nat × Nat)} (f : Front2 q1 q2 (e :: stack) done) :
    done.length < q1.nodes.size * q2.nodes.size := by
  have h : (e :: done).length ≤ q1.nodes.size * q2.nodes.size := by
    apply nodup_pairs_length
    · exact List.nodup_cons.2 ⟨f.not_done, f.doneNodup⟩
    · intro x hx
      rcases List.mem_cons.1 hx with rfl | hx
      · obtain ⟨_, a, _, b⟩ := f.live x List.mem_cons_self; exact ⟨a, b⟩
      · exact f.doneLt x hx
  simp only [List.length_cons] at h
  omega

/-- **one step of the two-tree traversal**: the top entry is replaced by a duplicate-free list of entries below it -/
theorem Front2.step {q1 q2 : Q K} {d1 d2 : Nat → Nat} (hd1 : IsDepth q1 d1) (hd2 : IsDepth q2 d2) {e : Nat × Nat}
    {stack done cs : List (Nat × Nat)} (f : Front2 q1 q2 (e :: stack) done) (hcs : cs.Nodup)
    (hch : ∀ x ∈ cs, Below q1 q2 e x ∧ GoodEntry q1 q2 x)
    (harm : (∀ x ∈ cs, x.1 = e.1) ∨ (∀ x ∈ cs, x.2 = e.2) ∨ (∀ x ∈ cs, IsChild q1 e.1 x.1 ∧ IsChild q2 e.2 x.2)) :
    Front2 q1 q2 (cs ++ stack) (e :: done) := by
  have he := f.live e (by simp)
  have hrest : ∀ t ∈ stack, PUnrel q1 q2 e t := (List.pairwise_cons.1 f.unrel).1
  -- ancestors of components
  have anc1 : ∀ x ∈ cs, Anc q1 e.1 x.1 := fun x hx => by
    rcases (hch x hx).1.1 with h | h
    · rw [h]; exact Anc.refl
    · exact h.anc
  have anc2 : ∀ x ∈ cs, Anc q2 e.2 x.2 := fun x hx => by
    rcases (hch x hx).1.2.1 with h | h
    · rw [h]; exact Anc.refl
    · exact h.anc
  refine ⟨?_, ?_, ?_, List.nodup_cons.2 ⟨f.not_done, f.doneNodup⟩, ?_⟩
  · intro x hx
    rcases List.mem_append.1 hx with hx | hx
    · exact (hch x hx).2
    · exact f.live x (by simp [hx])
  · rw [List.pairwise_append]
    refine ⟨?_, (List.pairwise_cons.1 f.unrel).2, ?_⟩
    · -- the pushed entries among themselves
      have key : ∀ x ∈ cs, ∀ y ∈ cs, x ≠ y → PUnrel q1 q2 x y := by
        intro x hx y hy hne
        have hxy : x.1 ≠ y.1 ∨ x.2 ≠ y.2 := by
          by_contra hcon
          simp only [not_or, not_not] at hcon
          exact hne (Prod.ext hcon.1 hcon.2)
        -- a component that differs consists of two different children
        have c1 : x.1 ≠ y.1 → Unrel q1 x.1 y.1 := by
          intro h
          rcases (hch x hx).1.1 with ex | cx
          · rcases (hch y hy).1.1 with ey | cy
            · exact absurd (ex.trans ey.symm) h
            · rcases harm with a | a | a
              · exact absurd ((a x hx).trans (a y hy).symm) h
              · -- second components fixed: both first components are children
                rcases (hch x hx).1.2.2 with cx' | cx'
                · exact ⟨sibling_unrel hd1 cx' cy h, sibling_unrel hd1 cy cx' (Ne.symm h)⟩
                · have := cx'.depth hd2; rw [a x hx] at this; omega
              · exact ⟨sibling_unrel hd1 (a x hx).1 cy h, sibling_unrel hd1 cy (a x hx).1 (Ne.symm h)⟩
          · rcases (hch y hy).1.1 with ey | cy
            · rcases harm with a | a | a
              · exact absurd ((a x hx).trans (a y hy).symm) h
              · rcases (hch y hy).1.2.2 with cy' | cy'
                · exact ⟨sibling_unrel hd1 cx cy' h, sibling_unrel hd1 cy' cx (Ne.symm h)⟩
                · have := cy'.depth hd2; rw [a y hy] at this; omega
              · exact ⟨sibling_unrel hd1 cx (a y hy).1 h, sibling_unrel hd1 (a y hy).1 cx (Ne.symm h)⟩
            · exact ⟨sibling_unrel hd1 cx cy h, sibling_unrel hd1 cy cx (Ne.symm h)⟩
        have c2 : x.2 ≠ y.2 → Unrel q2 x.2 y.2 := by
          intro h
          rcases (hch x hx).1.2.1 with ex | cx
          · rcases (hch y hy).1.2.1 with ey | cy
            · exact absurd (ex.trans ey.symm) h
            · rcases harm with a | a | a
              · rcases (hch x hx).1.2.2 with cx' | cx'
                · have := cx'.depth hd1; rw [a x hx] at this; omega
                · exact ⟨sibling_unrel hd2 cx' cy h, sibling_unrel hd2 cy cx' (Ne.symm h)⟩
              · exact absurd ((a x hx).trans (a y hy).symm) h
              · exact ⟨sibling_unrel hd2 (a x hx).2 cy h, sibling_unrel hd2 cy (a x hx).2 (Ne.symm h)⟩
          · rcases (hch y hy).1.2.1 with ey | cy
            · rcases harm with a | a | a
              · rcases (hch y hy).1.2.2 with cy' | cy'
                · have := cy'.depth hd1; rw [a y hy] at this; omega
                · exact ⟨sibling_unrel hd2 cx cy' h, sibling_unrel hd2 cy' cx (Ne.symm h)⟩
              · exact absurd ((a x hx).trans (a y hy).symm) h
              · exact ⟨sibling_unrel hd2 cx (a y hy).2 h, sibling_unrel hd2 (a y hy).2 cx (Ne.symm h)⟩
            · exact ⟨sibling_unrel hd2 cx cy h, sibling_unrel hd2 cy cx (Ne.symm h)⟩
        rcases hxy with h | h
        · exact Or.inl (c1 h)
        · exact Or.inr (c2 h)
      exact (List.pairwise_iff_forall_sublist.2 (fun {a b} hab => by
        have hm : a ∈ cs ∧ b ∈ cs := by
          have := hab.subset
          exact ⟨this (by simp), this (by simp)⟩
        have hne : a ≠ b := by
          intro e'; subst e'
          have := hcs.sublist hab
          simp at this
        exact key a hm.1 b hm.2 hne))
    · intro x hx t ht
      rcases hrest t ht with h | h
      · left
        rcases (hch x hx).1.1 with ex | cx
        · rw [ex]; exact h
        · exact unrel_child h cx
      · right
        rcases (hch x hx).1.2.1 with ex | cx
        · rw [ex]; exact h
        · exact unrel_child h cx
  · intro d hd x hx ha
    rcases List.mem_cons.1 hd with rfl | hd
    · rcases List.mem_append.1 hx with hx | hx
      · -- an entry below `d` is not above it
        rcases (hch x hx).1.2.2 with c | c
        · have h1 := ha.1.depth_le hd1
          have h2 := c.depth hd1
          omega
        · have h1 := ha.2.depth_le hd2
          have h2 := c.depth hd2
          omega
      · rcases hrest x hx with h | h
        · exact h.2 ha.1
        · exact h.2 ha.2
    · rcases List.mem_append.1 hx with hx | hx
      · exact f.sep d hd e (by simp) ⟨(anc1 x hx).trans ha.1, (anc2 x hx).trans ha.2⟩
      · exact f.sep d hd x (by simp [hx]) ha
  · intro d hd
    rcases List.mem_cons.1 hd with rfl | hd
    · exact ⟨he.2.1, he.2.2.2⟩
    · exact f.doneLt d hd

theorem Front2.root {q1 q2 : Q K} (h1 : Inv q1) (h2 : Inv q2) (p1 : 0 < q1.nodes.size) (p2 : 0 < q2.nodes.size) :
    Front2 q1 q2 [(0, 0)] [] := by
  have l1 : Live q1 0 := by
    rcases h1.root with h0 | ⟨_, hl⟩
    · omega
    · exact hl
  have l2 : Live q2 0 := by
    rcases h2.root with h0 | ⟨_, hl⟩
    · omega
    · exact hl
  exact ⟨by simpa [GoodEntry] using ⟨l1, p1, l2, p2⟩, by simp, by simp, by simp, by simp⟩

/-! ## the loop -/

theorem lists_eq_spec (q1 q2 : Q K) (pos : Option (Iso3 K)) (e1 e2 : Nat) (n1 n2 : Node K)
    (h1 : q1.nodes[e1]? = some n1) (h2 : q2.nodes[e2]? = some n2) :
    (∀ x, x ∈ pushedList q1 q2 pos n1 n2 e1 e2 ↔ Pushed q1 q2 pos n1 n2 e1 e2 x) ∧
    (∀ x, x ∈ reportedList q1 q2 pos n1 n2 ↔ Reported q1 q2 pos n1 n2 x) := by
  obtain ⟨P, O, e, hP, hO⟩ := bvttVisit_spec q1 q2 pos e1 e2 n1 n2 h1 h2 [] []
  rw [bvttVisit_lists q1 q2 pos e1 e2 n1 n2 h1 h2] at e
  simp only [List.append_nil, Option.some.injEq, Prod.mk.injEq] at e
  rw [e.1, e.2]
  exact ⟨hP, hO⟩

theorem isChild_of_lane {q : Q K} (hinv : Inv q) (hsz : q.nodes.size < MAXN) (n : Nat) (nd : Node K) (hnd : q.nodes[n]? = some nd)
    (hlive : Live q n) (hleaf : nd.leaf = false) (l : Nat) (hl : l ∈ lanes4) (hle : childOf nd l ≤ q.nodes.size) :
    IsChild q n (childOf nd l) := by
  have hl4 : l < 4 := by simp [lanes4] at hl; omega
  have hc : nd.children[l]? = some (childOf nd l) := by simp [childOf, hl4]
  have hcm : childOf nd l ≠ MAXN := by omega
  obtain ⟨h0, cl, cn, hcn, hp, _⟩ := hinv.child n nd hnd hlive hleaf l _ hc hcm
  exact ⟨cn, hcn, hp, cl, h0⟩

/-- what a reported pair says about the two proxies -/
def At (q1 q2 : Q K) (d x : Nat × Nat) : Prop :=
  ∃ pr1 pr2 : Proxy, q1.proxies[x.1]? = some pr1 ∧ pr1.node = d.1 ∧ q2.proxies[x.2]? = some pr2 ∧ pr2.node = d.2

theorem leaf_lane_inj {q : Q K} (hinv : Inv q) (hdata : DataOk q) (n : Nat) (nd : Node K) (hnd : q.nodes[n]? = some nd)
    (hlive : Live q n) (hleaf : nd.leaf = true) (l l' : Nat) (hl : l ∈ lanes4) (hl' : l' ∈ lanes4) (pr pr' : Proxy)
    (hp : q.proxies[childOf nd l]? = some pr) (hp' : q.proxies[childOf nd l']? = some pr') (e : pr.data = pr'.data) : l = l' := by
  obtain ⟨_, a2, a3⟩ := lane_proxy_attached hinv n nd hnd hlive hleaf l hl pr hp
  obtain ⟨_, b2, b3⟩ := lane_proxy_attached hinv n nd hnd hlive hleaf l' hl' pr' hp'
  have e1 := hdata _ pr hp a3
  have e2 := hdata _ pr' hp' b3
  have : childOf nd l = childOf nd l' := by rw [← e1, ← e2, e]
  rw [this, hp'] at hp
  cases hp
  omega

theorem reportedList_nodup {q1 q2 : Q K} (pos : Option (Iso3 K)) (h1 : Inv q1) (h2 : Inv q2) (dt1 : DataOk q1) (dt2 : DataOk q2)
    (e1 e2 : Nat) (n1 n2 : Node K) (a1 : q1.nodes[e1]? = some n1) (a2 : q2.nodes[e2]? = some n2)
    (l1 : Live q1 e1) (l2 : Live q2 e2) : (reportedList q1 q2 pos n1 n2).Nodup := by
  unfold reportedList
  by_cases hl : (n1.leaf && n2.leaf) = true
  · have hl' : n1.leaf = true ∧ n2.leaf = true := by simpa using hl
    simp only [hl, if_true]
    apply nodup_pieces _ _ lanes4_nodup
    · intro ii hii
      cases hp1 : q1.proxies[(n1.children[ii]?).getD MAXN]? with
      | none => simp
      | some p1 =>
        simp only
        apply nodup_pieces _ _ lanes4_nodup
        · intro jj _
          cases q2.proxies[(n2.children[jj]?).getD MAXN]? with
          | none => simp
          | some p2 => simp only; split <;> simp
        · intro jj hjj jj' hjj' hne z hz hz'
          cases hp2 : q2.proxies[(n2.children[jj]?).getD MAXN]? with
          | none => simp [hp2] at hz
          | some p2 =>
            cases hp2' : q2.proxies[(n2.children[jj']?).getD MAXN]? with
            | none => simp [hp2'] at hz'
            | some p2' =>
              simp only [hp2] at hz
              simp only [hp2'] at hz'
              split at hz
              · split at hz'
                · simp only [List.mem_singleton] at hz hz'
                  rw [hz] at hz'
                  exact hne (leaf_lane_inj h2 dt2 e2 n2 a2 l2 hl'.2 jj jj' hjj hjj' p2 p2' hp2 hp2' (congrArg Prod.snd hz'))
                · simp at hz'
              · simp at hz
    · intro ii hii ii' hii' hne z hz hz'
      cases hp1 : q1.proxies[(n1.children[ii]?).getD MAXN]? with
      | none => simp [hp1] at hz
      | some p1 =>
        cases hp1' : q1.proxies[(n1.children[ii']?).getD MAXN]? with
        | none => simp [hp1'] at hz'
        | some p1' =>
          simp only [hp1] at hz
          simp only [hp1'] at hz'
          obtain ⟨jj, hjj, hz⟩ := (mem_pieces _ _ z).1 hz
          obtain ⟨jj', hjj', hz'⟩ := (mem_pieces _ _ z).1 hz'
          cases hp2 : q2.proxies[(n2.children[jj]?).getD MAXN]? with
          | none => simp [hp2] at hz
          | some p2 =>
            cases hp2' : q2.proxies[(n2.children[jj']?).getD MAXN]? with
            | none => simp [hp2'] at hz'
            | some p2' =>
              simp only [hp2] at hz
              simp only [hp2'] at hz'
              split at hz
              · split at hz'
                · simp only [List.mem_singleton] at hz hz'
                  rw [hz] at hz'
                  exact hne (leaf_lane_inj h1 dt1 e1 n1 a1 l1 hl'.1 ii ii' hii hii' p1 p1' hp1 hp1' (congrArg Prod.fst hz'))
                · simp at hz'
              · simp at hz
  · simp [hl]

/-- the reports accumulated so far: pairwise different, each made at an entry already visited -/
structure OutOk (q1 q2 : Q K) (out done : List (Nat × Nat)) : Prop where
  nodup : out.Nodup
  made : ∀ x ∈ out, ∃ d ∈ done, At q1 q2 d x

/-- **one visit**: the front and the reports after the per-node step at the top entry -/
theorem bvtt_visit_step {q1 q2 : Q K} (pos : Option (Iso3 K)) (h1 : Inv q1) (h2 : Inv q2) (s1 : q1.nodes.size < MAXN)
    (s2 : q2.nodes.size < MAXN) (dt1 : DataOk q1) (dt2 : DataOk q2) {d1 d2 : Nat → Nat} (hd1 : IsDepth q1 d1) (hd2 : IsDepth q2 d2)
    (e1 e2 : Nat) (st done out : List (Nat × Nat)) (f : Front2 q1 q2 ((e1, e2) :: st) done) (ho : OutOk q1 q2 out done) :
    ∃ n1 n2 : Node K, q1.nodes[e1]? = some n1 ∧ q2.nodes[e2]? = some n2 ∧
      Front2 q1 q2 (pushedList q1 q2 pos n1 n2 e1 e2 ++ st) ((e1, e2) :: done) ∧
      OutOk q1 q2 (reportedList q1 q2 pos n1 n2 ++ out) ((e1, e2) :: done) ∧
      Front2 q1 q2 st ((e1, e2) :: done) ∧ OutOk q1 q2 out ((e1, e2) :: done) := by
  obtain ⟨l1, lt1, l2, lt2⟩ := f.live (e1, e2) (by simp)
  simp only at l1 lt1 l2 lt2
  have a1 : q1.nodes[e1]? = some q1.nodes[e1] := by simp [lt1]
  have a2 : q2.nodes[e2]? = some q2.nodes[e2] := by simp [lt2]
  generalize q1.nodes[e1] = n1 at a1
  generalize q2.nodes[e2] = n2 at a2
  obtain ⟨hP, hO⟩ := lists_eq_spec q1 q2 pos e1 e2 n1 n2 a1 a2
  -- the pushed entries
  have hbelow : ∀ x ∈ pushedList q1 q2 pos n1 n2 e1 e2, Below q1 q2 (e1, e2) x ∧ GoodEntry q1 q2 x := by
    intro x hx
    rcases (hP x).1 hx with ⟨_, hl2, jj, hjj, _, hle, rfl⟩ | ⟨hl1, _, ii, hii, _, hle, rfl⟩ |
      ⟨hl1, hl2, ii, hii, jj, hjj, _, hle1, hle2, rfl⟩
    · have c := isChild_of_lane h2 s2 e2 n2 a2 l2 hl2 jj hjj hle
      obtain ⟨g1, g2⟩ := child_good h2 s2 e2 n2 a2 l2 hl2 jj hjj hle
      exact ⟨⟨Or.inl rfl, Or.inr c, Or.inr c⟩, l1, lt1, g1, g2⟩
    · have c := isChild_of_lane h1 s1 e1 n1 a1 l1 hl1 ii hii hle
      obtain ⟨g1, g2⟩ := child_good h1 s1 e1 n1 a1 l1 hl1 ii hii hle
      exact ⟨⟨Or.inr c, Or.inl rfl, Or.inl c⟩, g1, g2, l2, lt2⟩
    · have c := isChild_of_lane h1 s1 e1 n1 a1 l1 hl1 ii hii hle1
      have c' := isChild_of_lane h2 s2 e2 n2 a2 l2 hl2 jj hjj hle2
      obtain ⟨g1, g2⟩ := child_good h1 s1 e1 n1 a1 l1 hl1 ii hii hle1
      obtain ⟨g3, g4⟩ := child_good h2 s2 e2 n2 a2 l2 hl2 jj hjj hle2
      exact ⟨⟨Or.inr c, Or.inr c', Or.inl c⟩, g1, g2, g3, g4⟩
  have harm : (∀ x ∈ pushedList q1 q2 pos n1 n2 e1 e2, x.1 = e1) ∨ (∀ x ∈ pushedList q1 q2 pos n1 n2 e1 e2, x.2 = e2) ∨
      (∀ x ∈ pushedList q1 q2 pos n1 n2 e1 e2, IsChild q1 e1 x.1 ∧ IsChild q2 e2 x.2) := by
    cases hl1 : n1.leaf with
    | true =>
      left
      intro x hx
      rcases (hP x).1 hx with ⟨_, _, jj, _, _, _, rfl⟩ | ⟨h, _⟩ | ⟨h, _⟩
      · rfl
      · rw [hl1] at h; cases h
      · rw [hl1] at h; cases h
    | false =>
      cases hl2 : n2.leaf with
      | true =>
        right; left
        intro x hx
        rcases (hP x).1 hx with ⟨h, _⟩ | ⟨_, _, ii, _, _, _, rfl⟩ | ⟨_, h, _⟩
        · rw [hl1] at h; cases h
        · rfl
        · rw [hl2] at h; cases h
      | false =>
        right; right
        intro x hx
        rcases (hP x).1 hx with ⟨h, _⟩ | ⟨_, h, _⟩ | ⟨_, _, ii, hii, jj, hjj, _, hle1, hle2, rfl⟩
        · rw [hl1] at h; cases h
        · rw [hl2] at h; cases h
        · exact ⟨isChild_of_lane h1 s1 e1 n1 a1 l1 hl1 ii hii hle1, isChild_of_lane h2 s2 e2 n2 a2 l2 hl2 jj hjj hle2⟩
  have f' := f.step hd1 hd2 (pushedList_nodup pos h1 h2 s1 s2 e1 e2 n1 n2 a1 a2 l1 l2) hbelow harm
  have f0 : Front2 q1 q2 st ((e1, e2) :: done) := by
    simpa using f.step hd1 hd2 (cs := []) List.nodup_nil (by simp) (Or.inl (by simp))
  -- the reports
  have hat : ∀ x ∈ reportedList q1 q2 pos n1 n2, At q1 q2 (e1, e2) x := by
    intro x hx
    obtain ⟨hl1, hl2, ii, hii, jj, hjj, p1, p2, hp1, hp2, _, rfl⟩ := (hO x).1 hx
    obtain ⟨b1, _, b3⟩ := lane_proxy_attached h1 e1 n1 a1 l1 hl1 ii hii p1 hp1
    obtain ⟨c1, _, c3⟩ := lane_proxy_attached h2 e2 n2 a2 l2 hl2 jj hjj p2 hp2
    refine ⟨p1, p2, ?_, b1, ?_, c1⟩
    · simp only; rw [dt1 _ p1 hp1 b3]; exact hp1
    · simp only; rw [dt2 _ p2 hp2 c3]; exact hp2
  have ho0 : OutOk q1 q2 out ((e1, e2) :: done) :=
    ⟨ho.nodup, fun x hx => by obtain ⟨d, hd, hat'⟩ := ho.made x hx; exact ⟨d, List.mem_cons_of_mem _ hd, hat'⟩⟩
  have ho' : OutOk q1 q2 (reportedList q1 q2 pos n1 n2 ++ out) ((e1, e2) :: done) := by
    constructor
    · rw [List.nodup_append]
      refine ⟨reportedList_nodup pos h1 h2 dt1 dt2 e1 e2 n1 n2 a1 a2 l1 l2, ho.nodup, ?_⟩
      intro x hx y hy hxy
      subst hxy
      obtain ⟨d, hd, pr1, pr2, u1, u2, u3, u4⟩ := ho.made x hy
      obtain ⟨pr1', pr2', v1, v2, v3, v4⟩ := hat x hx
      rw [u1] at v1; cases v1
      rw [u3] at v3; cases v3
      have : d = (e1, e2) := Prod.ext (u2.symm.trans v2) (u4.symm.trans v4)
      subst this
      exact f.not_done hd
    · intro x hx
      rcases List.mem_append.1 hx with hx | hx
      · exact ⟨(e1, e2), by simp, hat x hx⟩
      · exact ho0.made x hx
  exact ⟨n1, n2, a1, a2, f', ho', f0, ho0⟩

/-- **the stack loop of `traverse_bvtt` terminates within `nodes1 * nodes2` pops and reports no pair twice** -/
theorem bvttLoop_once {q1 q2 : Q K} (pos : Option (Iso3 K)) (h1 : Inv q1) (h2 : Inv q2) (s1 : q1.nodes.size < MAXN)
    (s2 : q2.nodes.size < MAXN) (dt1 : DataOk q1) (dt2 : DataOk q2) {d1 d2 : Nat → Nat} (hd1 : IsDepth q1 d1) (hd2 : IsDepth q2 d2) :
    ∀ (fuel : Nat) (stack done out : List (Nat × Nat)), Front2 q1 q2 stack done → OutOk q1 q2 out done →
      q1.nodes.size * q2.nodes.size ≤ fuel + done.length →
      ∃ res : List (Nat × Nat), bvttLoop q1 q2 pos fuel stack out = some res ∧ res.Nodup := by
  intro fuel
  induction fuel with
  | zero =>
    intro stack done out f ho hfu
    cases stack with
    | nil => exact ⟨out.reverse, rfl, List.nodup_reverse.2 ho.nodup⟩
    | cons e st => have := f.done_length; omega
  | succ fuel ih =>
    intro stack done out f ho hfu
    cases stack with
    | nil => exact ⟨out.reverse, rfl, List.nodup_reverse.2 ho.nodup⟩
    | cons e st =>
      obtain ⟨e1, e2⟩ := e
      obtain ⟨n1, n2, a1, a2, f', ho', _, _⟩ := bvtt_visit_step pos h1 h2 s1 s2 dt1 dt2 hd1 hd2 e1 e2 st done out f ho
      simp only [bvttLoop, bvttVisit_lists q1 q2 pos e1 e2 n1 n2 a1 a2]
      exact ih _ _ _ f' ho' (by simp only [List.length_cons]; omega)

/-- the same for the loop of `traverse_modified_bvtt` (entries whose first node is not CHANGED are skipped) -/
theorem bvttModLoop_once {q1 q2 : Q K} (pos : Option (Iso3 K)) (h1 : Inv q1) (h2 : Inv q2) (s1 : q1.nodes.size < MAXN)
    (s2 : q2.nodes.size < MAXN) (dt1 : DataOk q1) (dt2 : DataOk q2) {d1 d2 : Nat → Nat} (hd1 : IsDepth q1 d1) (hd2 : IsDepth q2 d2) :
    ∀ (fuel : Nat) (stack done out : List (Nat × Nat)), Front2 q1 q2 stack done → OutOk q1 q2 out done →
      q1.nodes.size * q2.nodes.size ≤ fuel + done.length →
      ∃ res : List (Nat × Nat), bvttModLoop q1 q2 pos fuel stack out = some res ∧ res.Nodup := by
  intro fuel
  induction fuel with
  | zero =>
    intro stack done out f ho hfu
    cases stack with
    | nil => exact ⟨out.reverse, rfl, List.nodup_reverse.2 ho.nodup⟩
    | cons e st => have := f.done_length; omega
  | succ fuel ih =>
    intro stack done out f ho hfu
    cases stack with
    | nil => exact ⟨out.reverse, rfl, List.nodup_reverse.2 ho.nodup⟩
    | cons e st =>
      obtain ⟨e1, e2⟩ := e
      obtain ⟨n1, n2, a1, a2, f', ho', f0, ho0⟩ := bvtt_visit_step pos h1 h2 s1 s2 dt1 dt2 hd1 hd2 e1 e2 st done out f ho
      simp only [bvttModLoop, a1, a2]
      by_cases hc : n1.changed = true
      · simp only [hc, Bool.not_true, Bool.false_eq_true, if_false, bvttVisit_lists q1 q2 pos e1 e2 n1 n2 a1 a2]
        exact ih _ _ _ f' ho' (by simp only [List.length_cons]; omega)
      · simp only [hc, Bool.not_false, if_true]
        exact ih _ _ _ f0 ho0 (by simp only [List.length_cons]; omega)

end C08
