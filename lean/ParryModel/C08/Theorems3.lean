import ParryModel.Field
import ParryModel.C08.RebalanceLemmas
import ParryModel.C08.DataLemmas
/-!
# C08 property theorems, part 3: `rebalance`, and histories over all five operations (structure)

`rebalance` = the model of `Qbvh::rebalance` (`C08/Model2.lean`): collection pass (`collectAll`, depth cap
`FULL_REBUILD_DEPTH`, `MIN_CHANGED_DEPTH`, CHANGED flags), `do_recurse_rebalance` (`rebalRec`) with free-list reuse, and
the full-rebuild path.  All statements of this file hold for every scalar type (also `Float`).
-/
namespace C08
open Model Model.Qbvh

section structural
variable {K : Type} [Num K]

/-- the collection pass never hits `self.nodes[id]` out of bounds (whatever the state) -/
theorem collect_never_panics (q : Q K) (root : Node K) : collectAll q root ≠ .panic := collectAll_noPanic q root

/-- **`do_recurse_rebalance` terminates: the fuel = number of indices suffices**, and no index panics.
`WsOk`: the workspace entries of one kind have pairwise different ids, proxies are in range, kept nodes are old node
indices; `StOk`: the free list is duplicate-free, holds old node indices only and none of the kept nodes — both hold for
the workspace and free list produced by the collection pass on any state satisfying `Inv` (proved inside
`rebalance_preserves_inv`). -/
theorem rebalance_rec_terminates (ws : Array (WsItem K)) (N0 P0 : Nat) (wok : WsOk ws N0 P0) (margin : K)
    (fuel : Nat) (q : Q K) (indices : Array Nat) (par plane : Nat) (hf : indices.size ≤ fuel) (hst : StOk ws N0 P0 q)
    (hnd : indices.toList.Nodup) (hr : ∀ i ∈ indices, i < ws.size) :
    ∃ r, rebalRec ws margin fuel q indices par plane = some r :=
  rebalRec_total ws N0 P0 wok margin fuel q indices par plane hf hst hnd hr

/-- **`rebalance_preserves_inv`: `rebalance` never panics, terminates and preserves the structural invariant**, from
EVERY state satisfying `Inv` whose attached proxies carry their own index as data (`DataOk`: true in every reachable
state) — whatever the boxes, the CHANGED/DIRTY flags, the contents of the free list and of `dirty_nodes`, on both paths:
* ordinary path: the nodes visited by the collection pass are pushed on the free list, the collected proxies and kept
  subtree roots are re-split recursively, new nodes are popped from the free list (or pushed when it is empty), node 0 is
  rewritten as the new root;
* full-rebuild path (a changed subtree deeper than `FULL_REBUILD_DEPTH`): `clear_and_rebuild` over the attached
  proxies.
Afterwards `Inv` and `DataOk` hold, `dirty_nodes` is untouched, the root carries the invalid parent index, and no DIRTY
flag appears if there was none.
Hypotheses about `u32` (the `as u32` casts are not modelled): fewer than `2^30` proxies, and the node count after the
call fits. -/
theorem rebalance_preserves_inv (q : Q K) (margin : K) (h : Inv q) (hd : DataOk q)
    (hp : 4 * q.proxies.size + 2 ≤ MAXN) (hfit : ∀ q' : Q K, rebalance q margin = some q' → q'.nodes.size ≤ MAXN) :
    ∃ q' : Q K, rebalance q margin = some q' ∧ Inv q' ∧ DataOk q' ∧ q'.dirtyNodes = q.dirtyNodes ∧
      (∀ r : Node K, q'.nodes[0]? = some r → r.parent = MAXN) ∧
      ((∀ (n : Nat) (nd : Node K), q.nodes[n]? = some nd → nd.dirty = false) →
        ∀ (n : Nat) (nd : Node K), q'.nodes[n]? = some nd → nd.dirty = false) := by
  obtain ⟨q', e, out⟩ := rebalance_spec q margin h hd hp hfit
  exact ⟨q', e, out.inv, out.data hd, out.dirtyList, out.rootPar, out.clean⟩

/-- well-formed operations of a full history: ids below the sentinel; the leaves given to `clear_and_rebuild` have
pairwise different ids and are at most `(2^32 - 3)/4` many -/
def Op2Ok : Op2 K → Prop
  | .base (.insert id _) => id < MAXN
  | .base _ => True
  | .rebalance _ => True
  | .rebuild items _ => (items.map (·.1)).Nodup ∧ (∀ it ∈ items, it.1 < MAXN) ∧ 4 * items.length + 2 ≤ MAXN

/-- the sizes fit `u32` with room for one more operation -/
def SmallState (q : Q K) : Prop := q.nodes.size + 8 ≤ MAXN ∧ 4 * q.proxies.size + 2 ≤ MAXN

/-- every state met along the run is small (the `as u32` truncations are not modelled) -/
def AllSmall (fixRoot : Bool) : World K → List (Op2 K) → Prop
  | w, [] => SmallState w.q
  | w, op :: ops => SmallState w.q ∧ ∀ w', step2 fixRoot w op = some w' → AllSmall fixRoot w' ops

theorem AllSmall.head {fixRoot : Bool} {w : World K} {ops : List (Op2 K)} (h : AllSmall fixRoot w ops) : SmallState w.q := by
  cases ops with
  | nil => exact h
  | cons op ops => exact h.1

/-- **one operation of a full history preserves `Inv` and `DataOk`** (all five operations; both root-split variants) -/
theorem step2_preserves_inv (fixRoot : Bool) (w w' : World K) (op : Op2 K) (h : Inv w.q) (hd : DataOk w.q)
    (hok : Op2Ok op) (hs : SmallState w.q) (hs' : w'.q.nodes.size ≤ MAXN) (hstep : step2 fixRoot w op = some w') :
    Inv w'.q ∧ DataOk w'.q := by
  cases op with
  | base op =>
    cases op with
    | insert id box =>
      simp only [step2, step] at hstep
      obtain ⟨q', e, h', _⟩ := inv_preUpdateOrInsert fixRoot w.q id h hok hs.1
      rw [e] at hstep; simp only [Option.map_some, Option.some.injEq] at hstep; subst hstep
      exact ⟨h', dataOk_preUpdateOrInsert fixRoot w.q q' id hd e⟩
    | remove id =>
      simp only [step2, step] at hstep
      obtain ⟨q', b, e, h', _⟩ := inv_remove w.q id h
      rw [e] at hstep; simp only [Option.map_some, Option.some.injEq] at hstep; subst hstep
      exact ⟨h', dataOk_remove w.q q' id b hd e⟩
    | refit m =>
      simp only [step2, step] at hstep
      cases hq : refit w.q w.cur m with
      | none => rw [hq] at hstep; cases hstep
      | some r =>
        rw [hq] at hstep; simp only [Option.map_some, Option.some.injEq] at hstep; subst hstep
        exact ⟨h.of_topoEq (topoEq_refit w.q w.cur m r hq), dataOk_refit w.q w.cur m r hd hq⟩
  | rebalance m =>
    simp only [step2] at hstep
    cases hq : rebalance w.q m with
    | none => rw [hq] at hstep; cases hstep
    | some q' =>
      rw [hq] at hstep; simp only [Option.map_some, Option.some.injEq] at hstep; subst hstep
      obtain ⟨q'', e, a1, a2, _⟩ := rebalance_preserves_inv w.q m h hd hs.2
        (fun x hx => by rw [hq] at hx; cases hx; exact hs')
      rw [hq] at e; cases e
      exact ⟨a1, a2⟩
  | rebuild items dil =>
    simp only [step2] at hstep
    obtain ⟨q'', e, out⟩ := rebuild_spec w.q items dil hok.1 hok.2.1 hok.2.2
    rw [e] at hstep; simp only [Option.map_some, Option.some.injEq] at hstep; subst hstep
    refine ⟨out.inv, ?_⟩
    intro p pr hpr hne
    obtain ⟨pr', h1, h2⟩ := out.data p ((out.attached p pr hpr).1 hne)
    rw [hpr] at h1; cases h1; exact h2

/-- **`run_preserves_inv` for full histories: the invariant holds after every finite history** of
`pre_update_or_insert` / `remove` / `refit` / `rebalance` / `clear_and_rebuild` calls, in any order (in particular
`rebalance` without a preceding `refit`, `rebalance` right after a rebuild, repeated rebalances that park and reuse
free-list entries), started from any state satisfying `Inv` and `DataOk` — in particular from the empty tree. -/
theorem run2_preserves_inv (fixRoot : Bool) (ops : List (Op2 K)) :
    ∀ (w w' : World K), Inv w.q → DataOk w.q → (∀ op ∈ ops, Op2Ok op) → AllSmall fixRoot w ops →
      run2 fixRoot w ops = some w' → Inv w'.q ∧ DataOk w'.q := by
  induction ops with
  | nil => intro w w' h hd _ _ hr; simp only [run2] at hr; cases hr; exact ⟨h, hd⟩
  | cons op ops ih =>
    intro w w' h hd hok hsm hr
    simp only [run2] at hr
    cases hs : step2 fixRoot w op with
    | none => rw [hs] at hr; cases hr
    | some w1 =>
      rw [hs] at hr
      have hsm1 := hsm.2 w1 hs
      have hsz1 : w1.q.nodes.size ≤ MAXN := by have := hsm1.head.1; omega
      obtain ⟨h1, hd1⟩ := step2_preserves_inv fixRoot w w1 op h hd (hok op (by simp)) hsm.1 hsz1 hs
      exact ih w1 w' h1 hd1 (fun o ho => hok o (by simp [ho])) hsm1 hr

/-- `rebalance`, `clear_and_rebuild`, `pre_update_or_insert` and `remove` steps never fail (no index panic, the recursive
builders terminate) on a state satisfying the invariant; only `refit` consumes the model's loop fuel (its termination is
`refit_terminates` in `Theorems.lean`). -/
theorem step2_total (fixRoot : Bool) (w : World K) (op : Op2 K) (h : Inv w.q) (hd : DataOk w.q) (hok : Op2Ok op)
    (hs : SmallState w.q) (hfit : ∀ w', step2 fixRoot w op = some w' → w'.q.nodes.size ≤ MAXN)
    (hop : ∀ m, op ≠ .base (.refit m)) : ∃ w', step2 fixRoot w op = some w' := by
  cases op with
  | base op =>
    cases op with
    | insert id box =>
      obtain ⟨q', e, _⟩ := inv_preUpdateOrInsert fixRoot w.q id h hok hs.1
      exact ⟨⟨q', fun d => if d = id then box else w.cur d⟩, by simp only [step2, step, e, Option.map_some]⟩
    | remove id =>
      obtain ⟨q', b, e, _⟩ := inv_remove w.q id h
      exact ⟨⟨q', w.cur⟩, by simp only [step2, step, e, Option.map_some]⟩
    | refit m => exact absurd rfl (hop m)
  | rebalance m =>
    obtain ⟨q', e, _⟩ := rebalance_preserves_inv w.q m h hd hs.2 (fun x hx => by
      have := hfit ⟨x, w.cur⟩ (by simp only [step2, hx, Option.map_some])
      exact this)
    exact ⟨⟨q', w.cur⟩, by simp only [step2, e, Option.map_some]⟩
  | rebuild items dil =>
    obtain ⟨q', e, _⟩ := rebuild_spec w.q items dil hok.1 hok.2.1 hok.2.2
    exact ⟨⟨q', curAfter items w.cur⟩, by simp only [step2, e, Option.map_some]⟩

theorem dataOk_empty : DataOk (Q.empty : Q K) := by
  intro p pr hp; simp [Q.empty] at hp

end structural

/-! ## Decided witnesses (exact rational arithmetic, kernel evaluation of the model) -/
section examples

/-- unit box number `i` of a 4-wide grid with pitch 3 -/
def gridCell (i : Nat) : Aabb3 ℚ :=
  ⟨⟨3 * (i % 4 : Nat), 3 * (i / 4 : Nat), 0⟩, ⟨3 * (i % 4 : Nat) + 1, 3 * (i / 4 : Nat) + 1, 1⟩⟩

/-- `(checkInv, checkFresh, number of nodes, length of the free list)` after a full history from the empty tree -/
def finalChecks2 (ops : List (Op2 ℚ)) : Option (Bool × Bool × Nat × Nat) :=
  (run2 true World.empty ops).map fun w => (checkInv w.q, checkFresh w.q w.cur, w.q.nodes.size, w.q.freeList.length)

/-- build six leaves, remove three, refit, rebalance -/
def histPark : List (Op2 ℚ) :=
  [.rebuild ((List.range 6).map fun i => (i, gridCell i)) 0, .base (.remove 2), .base (.remove 3), .base (.remove 4),
   .base (.refit 0), .rebalance 0]

/-- the hypotheses of `run2_preserves_inv` are satisfiable on it -/
example : ∀ op ∈ histPark, Op2Ok op := by
  intro op hop
  simp only [histPark, List.mem_cons, List.not_mem_nil, or_false] at hop
  rcases hop with rfl | rfl | rfl | rfl | rfl | rfl
  · refine ⟨by decide, ?_, by decide⟩
    intro it hit
    simp only [List.mem_map, List.mem_range] at hit
    obtain ⟨i, hi, rfl⟩ := hit
    show i < MAXN
    unfold MAXN; omega
  all_goals trivial

/-- **a rebalance that parks ids in the free list**: the pass frees all six nodes below the root, the three remaining
leaves need one node; four ids stay parked; the tree is valid (structure and boxes) -/
theorem rebalance_parks_free_list : finalChecks2 histPark = some (true, true, 6, 4) := by
  decide +kernel

/-- `clear_and_rebuild` on the same tree afterwards empties the free list again (what `seeded/C08-agent-m1` breaks) -/
theorem rebuild_clears_free_list :
    finalChecks2 (histPark ++ [.rebuild ((List.range 5).map fun i => (i, gridCell i)) 0]) = some (true, true, 6, 0) := by
  decide +kernel

end examples

end C08
