import ParryModel.C08.RebalanceLemmas
/-!
# C08: node / proxy counts after every operation (the `as u32` size guard) — core Lean only

`Qbvh` stores node and proxy indices as `u32` (`self.nodes.len() as u32`, `proxy_id as u32`); the model uses `Nat` and
is exact as long as every count stays at most `u32::MAX = MAXN`.  This file bounds the counts after each operation
*without* assuming anything about the result, so that the `hfit` / `AllSmall` hypotheses of the history theorems can be
discharged from a computable guard on the history (`Theorems10.lean`).
-/
namespace C08
open Model Model.Qbvh
set_option linter.unusedSectionVars false
set_option linter.unusedVariables false
set_option linter.unusedSimpArgs false
variable {K : Type} [Num K]

/-! ## pigeonhole -/

/-- a duplicate-free list of numbers below `n` has at most `n` elements -/
theorem nodup_lt_length : ∀ (n : Nat) (l : List Nat), l.Nodup → (∀ x ∈ l, x < n) → l.length ≤ n := by
  intro n
  induction n with
  | zero =>
    intro l _ h
    cases l with
    | nil => simp
    | cons a t => exact absurd (h a (by simp)) (by omega)
  | succ n ih =>
    intro l hnd h
    by_cases hm : n ∈ l
    · have h1 := ih (l.erase n) (hnd.erase n) (by
        intro x hx
        have hx' := (hnd.mem_erase_iff).1 hx
        have := h x hx'.2
        have := hx'.1
        omega)
      rw [List.length_erase_of_mem hm] at h1
      omega
    · have := ih l hnd (by
        intro x hx
        have := h x hx
        have : x ≠ n := fun e => hm (e ▸ hx)
        omega)
      omega

/-! ## `do_recurse_rebalance` -/

theorem allocNode_sizes (q : Q K) :
    q.nodes.size ≤ (allocNode q).1.nodes.size ∧ (allocNode q).1.nodes.size ≤ q.nodes.size + 1 ∧
      (allocNode q).1.proxies.size = q.proxies.size := by
  unfold allocNode
  split <;> simp

theorem writeNode_sizes (q q' : Q K) (i : Nat) (nd : Node K) (h : writeNode q i nd = some q') :
    q'.nodes.size = q.nodes.size ∧ q'.proxies.size = q.proxies.size := by
  unfold writeNode at h
  split at h
  · cases h; simp
  · cases h

theorem rebalLeafLoop_sizes (ws : Array (WsItem K)) (L I : Nat) :
    ∀ (l : List Nat) (k : Nat) (a a' : LeafAcc K), rebalLeafLoop ws L I l k a = some a' →
      a'.q.nodes.size = a.q.nodes.size ∧ a'.q.proxies.size = a.q.proxies.size := by
  intro l
  induction l with
  | nil => intro k a a' h; simp only [rebalLeafLoop] at h; cases h; exact ⟨rfl, rfl⟩
  | cons id rest ih =>
    intro k a a' h
    simp only [rebalLeafLoop] at h
    split at h
    · cases h
    · split at h
      · split at h
        · split at h
          · cases h
          · have := ih _ _ _ h; simpa using this
        · split at h
          · cases h
          · have := ih _ _ _ h; simpa using this
      · cases h

/-- the leaf case allocates at most two nodes, none for an empty slice, and keeps the proxy count -/
theorem rebalLeaf_sizes (ws : Array (WsItem K)) (q : Q K) (indices : Array Nat) (par plane : Nat)
    (r : Q K × Nat × Aabb3 K) (h : rebalLeaf ws q indices par plane = some r) :
    r.1.nodes.size ≤ q.nodes.size + 2 ∧ (indices.size = 0 → r.1.nodes.size = q.nodes.size) ∧
      r.1.proxies.size = q.proxies.size := by
  unfold rebalLeaf at h
  cases hfl : leafFlags ws indices.toList (false, false) with
  | none => simp only [hfl] at h; cases h
  | some fl =>
    obtain ⟨hasLeaf, hasInternal⟩ := fl
    simp only [hfl] at h
    have hempty : indices.size = 0 → hasLeaf = false ∧ hasInternal = false := by
      intro h0
      have : indices.toList = [] := by
        have : indices = #[] := Array.eq_empty_of_size_eq_zero h0
        rw [this]
      rw [this] at hfl
      simp only [leafFlags, Option.some.injEq, Prod.mk.injEq] at hfl
      exact ⟨hfl.1.symm, hfl.2.symm⟩
    cases ha : (if hasInternal = true then allocNode q else (q, MAXN)) with | mk qa I =>
    simp only [ha] at h
    cases hb : (if hasLeaf = true then allocNode qa else (qa, MAXN)) with | mk qb L =>
    simp only [hb] at h
    have sa : qa.nodes.size ≤ q.nodes.size + 1 ∧ qa.proxies.size = q.proxies.size ∧
        (hasInternal = false → qa.nodes.size = q.nodes.size) := by
      cases hasInternal
      · simp only [Bool.false_eq_true, if_false, Prod.mk.injEq] at ha
        obtain ⟨rfl, _⟩ := ha
        exact ⟨by omega, rfl, fun _ => rfl⟩
      · simp only [if_true] at ha
        have := allocNode_sizes q
        rw [ha] at this
        exact ⟨this.2.1, this.2.2, fun hh => by cases hh⟩
    have sb : qb.nodes.size ≤ qa.nodes.size + 1 ∧ qb.proxies.size = qa.proxies.size ∧
        (hasLeaf = false → qb.nodes.size = qa.nodes.size) := by
      cases hasLeaf
      · simp only [Bool.false_eq_true, if_false, Prod.mk.injEq] at hb
        obtain ⟨rfl, _⟩ := hb
        exact ⟨by omega, rfl, fun _ => rfl⟩
      · simp only [if_true] at hb
        have := allocNode_sizes qa
        rw [hb] at this
        exact ⟨this.2.1, this.2.2, fun hh => by cases hh⟩
    split at h
    · cases h
    · rename_i a hloop
      have sl := rebalLeafLoop_sizes ws L I _ _ _ _ hloop
      dsimp only at sl
      split at h
      · cases h
      · split at h
        · cases h
        · rename_i q1 hq1
          have s1 : q1.nodes.size = a.q.nodes.size ∧ q1.proxies.size = a.q.proxies.size := by
            split at hq1
            · exact writeNode_sizes _ _ _ _ hq1
            · cases hq1; exact ⟨rfl, rfl⟩
          split at h
          · cases h
          · rename_i q2 hq2
            have s2 : q2.nodes.size = q1.nodes.size ∧ q2.proxies.size = q1.proxies.size := by
              split at hq2
              · exact writeNode_sizes _ _ _ _ hq2
              · cases hq2; exact ⟨rfl, rfl⟩
            have hr : r.1 = q2 := by
              split at h <;> (cases h; rfl)
            rw [hr]
            refine ⟨by omega, ?_, by omega⟩
            intro h0
            obtain ⟨e1, e2⟩ := hempty h0
            have := sa.2.2 e2
            have := sb.2.2 e1
            omega

/-- **node count of `do_recurse_rebalance`**: a call on `n` workspace entries allocates at most `3n - 1` nodes (popped
from the free list or pushed), hence pushes at most that many; the proxy count is unchanged. -/
theorem rebalRec_sizes (ws : Array (WsItem K)) (margin : K) :
    ∀ (fuel : Nat) (q : Q K) (indices : Array Nat) (par plane : Nat) (r : Q K × Nat × Aabb3 K),
      rebalRec ws margin fuel q indices par plane = some r → (∀ x ∈ indices, x < ws.size) →
        r.1.nodes.size ≤ q.nodes.size + (3 * indices.size - 1) ∧ r.1.proxies.size = q.proxies.size := by
  refine rebalRec_induct ws margin
    (fun q indices _ _ r => (∀ x ∈ indices, x < ws.size) →
      r.1.nodes.size ≤ q.nodes.size + (3 * indices.size - 1) ∧ r.1.proxies.size = q.proxies.size) ?_ ?_
  · intro q indices par plane r hsz h _
    obtain ⟨h1, h2, h3⟩ := rebalLeaf_sizes ws q indices par plane r h
    refine ⟨?_, h3⟩
    by_cases h0 : indices.size = 0
    · have := h2 h0; omega
    · omega
  · intro q indices par plane center d0 d1 q0 nid s0 s1 s2 s3 q1 q2 q3 q4 c0 c1 c2 c3 b0 b1 b2 b3 nd hsz hcd hal hsp
      p0 p1 p2 p3 _ _ _ _ hnd hrange
    have hrange' : ∀ x ∈ indices, x < (ws.map (·.box)).size := by intro x hx; simpa using hrange x hx
    obtain ⟨t0, t1, t2, t3, hsp', perm, hlt⟩ := splitDataset_spec (ws.map (·.box)) d0 d1 center indices hrange'
    rw [hsp] at hsp'
    simp only [Option.some.injEq, Prod.mk.injEq] at hsp'
    obtain ⟨rfl, rfl, rfl, rfl⟩ := hsp'
    obtain ⟨l0, l1, l2, l3⟩ := hlt (by omega)
    have hsum : s0.size + s1.size + (s2.size + s3.size) = indices.size := by
      have := perm.size_eq
      simp only [Array.size_append] at this
      omega
    have hmem : ∀ x, (x ∈ s0 ∨ x ∈ s1 ∨ x ∈ s2 ∨ x ∈ s3) → x ∈ indices := by
      intro x hx
      apply perm.mem_iff.1
      simp only [Array.mem_append]
      rcases hx with h | h | h | h <;> simp [h]
    obtain ⟨a0, e0⟩ := p0 (fun x hx => hrange x (hmem x (Or.inl hx)))
    obtain ⟨a1, e1⟩ := p1 (fun x hx => hrange x (hmem x (Or.inr (Or.inl hx))))
    obtain ⟨a2, e2⟩ := p2 (fun x hx => hrange x (hmem x (Or.inr (Or.inr (Or.inl hx)))))
    obtain ⟨a3, e3⟩ := p3 (fun x hx => hrange x (hmem x (Or.inr (Or.inr (Or.inr hx)))))
    dsimp only at a0 a1 a2 a3 e0 e1 e2 e3
    have hq0 : q0.nodes.size ≤ q.nodes.size + 1 ∧ q0.proxies.size = q.proxies.size := by
      unfold allocOpen allocWrite at hal
      split at hal
      · rename_i n rest hf
        cases hw : writeNode { q with freeList := rest } n (openNode par plane) with
        | none => rw [hw] at hal; cases hal
        | some q' =>
          rw [hw] at hal
          simp only [Option.map_some, Option.some.injEq, Prod.mk.injEq] at hal
          obtain ⟨rfl, _⟩ := hal
          have := writeNode_sizes _ _ _ _ hw
          exact ⟨by have := this.1; simp only at this; omega, this.2⟩
      · simp only [Option.some.injEq, Prod.mk.injEq] at hal
        obtain ⟨rfl, _⟩ := hal
        simp
    dsimp only
    refine ⟨?_, ?_⟩
    · simp only [Array.size_setIfInBounds]
      omega
    · rw [e3, e2, e1, e0, hq0.2]

/-! ## the workspace of the collection pass has at most `N0 + P0` entries -/

theorem wsOk_size {ws : Array (WsItem K)} {N0 P0 : Nat} (wok : WsOk ws N0 P0) : ws.size ≤ N0 + P0 := by
  let f : Nat → Nat := fun i => match ws[i]? with
    | some a => if a.isLeaf then a.orig else P0 + a.orig
    | none => 0
  have hget : ∀ i, i < ws.size → ∃ a : WsItem K, ws[i]? = some a := fun i hi => ⟨ws[i], by simp [hi]⟩
  have h := nodup_lt_length (N0 + P0) ((List.range ws.size).map f) ?_ ?_
  · simpa using h
  · rw [List.Nodup, List.pairwise_map]
    refine (List.nodup_range (n := ws.size)).imp_of_mem ?_
    intro i j hi hj hne hf
    obtain ⟨a, ea⟩ := hget i (List.mem_range.1 hi)
    obtain ⟨b, eb⟩ := hget j (List.mem_range.1 hj)
    simp only [f, ea, eb] at hf
    apply hne
    cases hla : a.isLeaf <;> cases hlb : b.isLeaf <;> simp only [hla, hlb, if_true, if_false, Bool.false_eq_true] at hf
    · exact wok.inj i j a b ea eb (by rw [hla, hlb]) (by omega)
    · have := (wok.leafLt j b eb hlb).1; omega
    · have := (wok.leafLt i a ea hla).1; omega
    · exact wok.inj i j a b ea eb (by rw [hla, hlb]) hf
  · intro x hx
    simp only [List.mem_map, List.mem_range] at hx
    obtain ⟨i, hi, rfl⟩ := hx
    obtain ⟨a, ea⟩ := hget i hi
    simp only [f, ea]
    cases hla : a.isLeaf
    · have := (wok.keptLt i a ea hla).1
      simp only [Bool.false_eq_true, if_false]; omega
    · have := (wok.leafLt i a ea hla).1
      simp only [if_true]; omega

/-! ## `clear_and_rebuild`: proxy count -/

/-- after `clear_and_rebuild(items)` there are at most `B` proxies when there are at most `B` items, all with ids below `B` -/
theorem rebuild_psize (q q' : Q K) (items : List (Nat × Aabb3 K)) (dil : K) (h : rebuild q items dil = some q') (B : Nat)
    (hlen : items.length ≤ B) (hid : ∀ it ∈ items, it.1 < B) : q'.proxies.size ≤ B := by
  cases hf : fillProxies items (Array.replicate items.length invalidProxy, Array.replicate items.length invalidBox, #[])
    with | mk ps rest =>
  obtain ⟨aabbs, indices⟩ := rest
  obtain ⟨_, _, _, _, f5, _, _⟩ := fillProxies_spec items _ _ _ _ _ _ hf (by simp)
  have hps : ps.size ≤ B := f5 B (by simpa using hlen) hid
  rw [rebuild_eq q items dil ps aabbs indices hf] at h
  split at h
  · cases h
  · rename_i q1 c aabb hb
    have fr := buildRec_frame aabbs dil _ _ _ _ _ _ hb
    split at h
    · cases h
    · cases h
      show q1.proxies.size ≤ B
      rw [fr.psize]; exact hps

/-! ## `rebalance` -/

/-- **node and proxy counts after `rebalance`** from any state satisfying the invariant: no hypothesis about the result.
Ordinary path: the workspace holds at most `nodes + proxies` entries (pairwise different proxies and kept nodes), each
allocating fewer than three nodes; full-rebuild path: the `4n + 2` bound of `clear_and_rebuild`. -/
theorem rebalance_sizes (q : Q K) (margin : K) (hinv : Inv q) (hdata : DataOk q) (hp : 4 * q.proxies.size + 2 ≤ MAXN)
    (q' : Q K) (h : rebalance q margin = some q') :
    q'.nodes.size ≤ max (4 * q.nodes.size + 3 * q.proxies.size) (4 * q.proxies.size + 2) ∧
      q'.proxies.size ≤ q.proxies.size := by
  unfold rebalance at h
  cases hroot : q.nodes[0]? with
  | none =>
    simp only [hroot, Option.some.injEq] at h
    subst h
    exact ⟨by omega, Nat.le_refl _⟩
  | some root =>
    simp only [hroot] at h
    cases hc : collectAll q root with
    | panic => simp only [hc] at h; cases h
    | force =>
      simp only [hc] at h
      obtain ⟨items, e, a1, a2, a3, a4⟩ := allLeaves_spec hinv hdata q.proxies.toList 0 (fun i hi => by simp)
      simp only [e] at h
      have hlen : items.length ≤ q.proxies.size := by simpa using a1
      have hnd : (items.map (·.1)).Nodup := a3.imp (fun h => Nat.ne_of_lt h)
      have hidp : ∀ it ∈ items, it.1 < q.proxies.size := by
        intro it hit
        have := (a2 it hit).2
        simpa using this
      obtain ⟨q'', e', out⟩ := rebuild_spec q items 0 hnd (fun it hit => by have := hidp it hit; omega) (by omega)
      rw [e'] at h; cases h
      refine ⟨?_, rebuild_psize q q' items 0 e' _ hlen hidp⟩
      have := out.count
      omega
    | ok c =>
      simp only [hc] at h
      have hpos : 0 < q.nodes.size := (Array.getElem?_eq_some_iff.mp hroot).1
      obtain ⟨⟨_, _, hrleaf⟩, hlive0⟩ : (∃ r : Node K, q.nodes[0]? = some r ∧ r.leaf = false) ∧ Live q 0 := by
        rcases hinv.root with h | h
        · omega
        · exact h
      rename_i root' hroot'
      rw [hroot] at hroot'; cases hroot'
      obtain ⟨d, hd0, hd⟩ := hinv.depth
      have ctx : CCtx q d := ⟨hinv, hd0, hd⟩
      obtain ⟨roots, F, its, hroots, hfree, hitems, g⟩ := collectAll_spec ctx root hroot hlive0 hrleaf c hc
      have wok : WsOk c.items.reverse.toArray q.nodes.size q.proxies.size := by
        rw [hitems]; exact wsOk_of_goodF hinv g
      have hws := wsOk_size wok
      split at h
      · cases h
      · rename_i q1 id aabb hrec
        have hs := rebalRec_sizes _ margin _ _ _ _ _ _ hrec (by intro i hi; simpa using hi)
        dsimp only at hs
        simp only [Array.size_range] at hs
        split at h
        · cases h
          simp only [Array.size_setIfInBounds]
          refine ⟨?_, by rw [hs.2]⟩
          have := hs.1
          omega
        · cases h

/-! ## `pre_update_or_insert`, `remove`, `refit`: proxy count -/

theorem ensureProxy_psize (q : Q K) (id : Nat) : (ensureProxy q id).proxies.size = max q.proxies.size (id + 1) := by
  unfold ensureProxy
  simp only
  split <;> split <;> simp <;> omega

theorem attachLoop_psize (id : Nat) : ∀ (l : List Nat) (q q' : Q K) (b : Bool), attachLoop id l q = some (q', b) →
    q'.proxies.size = q.proxies.size := by
  intro l
  induction l with
  | nil => intro q q' b h; simp only [attachLoop, Option.some.injEq, Prod.mk.injEq] at h; rw [← h.1]
  | cons ii rest ih =>
    intro q q' b h
    simp only [attachLoop] at h
    split at h
    · cases h
    · rename_i root hroot
      split at h
      · cases h
      · rename_i child0 hch
        have hq1 : (if child0 = MAXN then addRootLeaf q root ii else q).proxies = q.proxies := by
          split <;> rfl
        split at h
        · cases h
        · rename_i cn hcn
          split at h
          · rw [ih _ _ _ h, hq1]
          · split at h
            · rw [ih _ _ _ h, hq1]
            · simp only [Option.some.injEq, Prod.mk.injEq] at h
              rw [← h.1]
              unfold attachProxy
              simp only
              split <;> simp [hq1]

theorem preUpdateOrInsert_psize (fixRoot : Bool) (q q' : Q K) (id : Nat) (h : preUpdateOrInsert fixRoot q id = some q') :
    q'.proxies.size = max q.proxies.size (id + 1) := by
  have h0 : (ensureProxy (ensureRoot q) id).proxies.size = max q.proxies.size (id + 1) := by
    rw [ensureProxy_psize]
    unfold ensureRoot; split <;> rfl
  unfold preUpdateOrInsert at h
  simp only at h
  split at h
  · cases h
  · split at h
    · split at h
      · cases h
      · rename_i q2 hq2
        cases h
        rw [attachLoop_psize _ _ _ _ _ hq2, h0]
      · rename_i q2 hq2
        have e2 := attachLoop_psize _ _ _ _ _ hq2
        unfold splitRoot at h
        split at h
        · cases h
        · rename_i root hroot
          unfold splitRootPinned at h
          simp only [hroot, Option.map_some, Option.some.injEq] at h
          rw [← h, ← h0, ← e2]
          split
          · unfold scheduleRoot
            split
            · split <;> simp
            · split <;> (split <;> simp)
          · split <;> simp
    · split at h
      · cases h
      · split at h
        · cases h; exact h0
        · cases h; unfold markDirty; exact h0

theorem remove_psize (q q' : Q K) (id : Nat) (b : Bool) (h : remove q id = some (q', b)) :
    q'.proxies.size = q.proxies.size ∧ q'.nodes.size = q.nodes.size := by
  unfold remove at h
  split at h
  · cases h; exact ⟨rfl, rfl⟩
  · split at h
    · cases h; exact ⟨rfl, rfl⟩
    · split at h
      · cases h; simp
      · cases h

end C08
