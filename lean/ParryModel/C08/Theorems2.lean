import ParryModel.Field
import ParryModel.C08.FieldLemmas
/-!
# C08 property theorems, part 2: `clear_and_rebuild` and `rebalance`

Statements about the model functions of `C08/Model2.lean` (`buildRec` = `do_recurse_build_generic`, `splitDataset` =
`CenterDataSplitter::split_dataset_wo_workspace`, `rebuild` = `Qbvh::clear_and_rebuild`, `rebalRec` =
`do_recurse_rebalance`, `rebalance` = `Qbvh::rebalance`).  As in `Theorems.lean` the structural theorems hold for every
scalar type (also `Float`), the box theorems at the lawful instance `fieldNum K sq`.
-/
namespace C08
open Model Model.Qbvh

section structural
variable {K : Type} [Num K]

/-- **Every recursive call of the builders is on a strictly shorter slice** (the `multiple_identical_aabb_stack_overflow`
regression as a theorem).  For every slice of length `≥ 2` whose entries index `aabbs` — whatever the boxes, in
particular when all centres coincide and the centre split puts everything on one side — `CenterDataSplitter` with the
fallback enabled never panics and returns four sub-slices that together are a permutation of the slice and are each
**strictly shorter** than it. -/
theorem split_strictly_shorter (aabbs : Array (Aabb3 K)) (d0 d1 : Nat) (center : V3 K) (indices : Array Nat)
    (hr : ∀ x ∈ indices, x < aabbs.size) (h2 : 2 ≤ indices.size) :
    ∃ (s0 s1 s2 s3 : Array Nat), splitDataset aabbs true d0 d1 center indices = some (s0, s1, s2, s3) ∧
      (s0 ++ s1 ++ (s2 ++ s3)).Perm indices ∧
      s0.size < indices.size ∧ s1.size < indices.size ∧ s2.size < indices.size ∧ s3.size < indices.size := by
  obtain ⟨s0, s1, s2, s3, e, p, h⟩ := splitDataset_spec aabbs d0 d1 center indices hr
  exact ⟨s0, s1, s2, s3, e, p, h h2⟩

/-- **`do_recurse_build_generic` terminates: the fuel = number of indices suffices.**  On every state and every slice
whose entries index `aabbs` and `proxies` (any boxes, any dilation factor, duplicates allowed) the model's recursion
with fuel `≥ indices.len()` returns a result — no index panic, no fuel exhaustion. -/
theorem build_terminates (aabbs : Array (Aabb3 K)) (dil : K) (fuel : Nat) (q : Q K) (indices : Array Nat) (par plane : Nat)
    (hf : indices.size ≤ fuel) (hr : ∀ x ∈ indices, x < aabbs.size ∧ x < q.proxies.size) :
    ∃ r, buildRec aabbs dil fuel q indices par plane = some r :=
  buildRec_total aabbs dil fuel q indices par plane hf hr

/-- **`rebuild_inv`, structure: `clear_and_rebuild` establishes the invariant from ANY previous state.**  For every list
of leaves with pairwise different ids `< u32::MAX` (at most `(2^32 - 3) / 4` of them; the boxes are arbitrary: identical,
degenerate, inverted, …) and every dilation factor, the call completes (no index panic, the recursion terminates within
its fuel) and the new tree satisfies `Inv`; the free list is empty, the root carries the invalid parent index, exactly
the listed leaves are attached, each carrying its own index as data, and at most `4·n + 2` nodes exist. -/
theorem rebuild_inv (q : Q K) (items : List (Nat × Aabb3 K)) (dil : K)
    (hnd : (items.map (·.1)).Nodup) (hid : ∀ it ∈ items, it.1 < MAXN) (hlen : 4 * items.length + 2 ≤ MAXN) :
    ∃ q' : Q K, rebuild q items dil = some q' ∧ Inv q' ∧ q'.freeList = [] ∧
      (∀ r : Node K, q'.nodes[0]? = some r → r.parent = MAXN) ∧
      (∀ (p : Nat) (pr : Proxy), q'.proxies[p]? = some pr → (pr.node ≠ MAXN ↔ p ∈ items.map (·.1))) ∧
      DataOk q' ∧ q'.nodes.size ≤ 4 * items.length + 2 := by
  obtain ⟨q', e, out⟩ := rebuild_spec q items dil hnd hid hlen
  refine ⟨q', e, out.inv, out.noFree, out.rootPar, out.attached, ?_, out.count⟩
  intro p pr hp hne
  obtain ⟨pr', e', d⟩ := out.data p ((out.attached p pr hp).1 hne)
  rw [hp] at e'; cases e'; exact d

end structural

section boxes
variable {K : Type} [Field K] [LinearOrder K] [IsStrictOrderedRing K] (sq : K → K)

/-- **`rebuild_inv`, boxes: `clear_and_rebuild` establishes the box invariant.**  Exact arithmetic over any linearly
ordered field; for every list of leaves with pairwise different ids and *valid* boxes (`mins ≤ maxs` on every axis:
identical boxes, points and flat boxes included) and every dilation factor `≥ 0`: in the tree returned every lane box
contains the current box of its leaf (the box just given) resp. the merged box of its child node, empty lanes hold the
invalid box — `BoxInv`, the invariant `refit` maintains. -/
theorem rebuild_boxInv (q q' : Q K) (items : List (Nat × Aabb3 K)) (dil : K) (cur : Nat → Aabb3 K) :
    letI := fieldNum K sq
    0 ≤ dil → (items.map (·.1)).Nodup → (∀ it ∈ items, it.1 < MAXN) → 4 * items.length + 2 ≤ MAXN →
      (∀ it ∈ items, ValidBox it.2) → rebuild q items dil = some q' → BoxInv q' (curAfter items cur) := by
  letI := fieldNum K sq
  intro hd hnd hid hlen hv h
  exact rebuild_box (boxLaws_fieldNum sq) _ q q' items dil (dilateLaws_fieldNum sq dil hd) cur hnd hid hlen
    (fun it hit => Or.inl (hv it hit)) h

end boxes

/-! ## Decided witnesses (exact rational arithmetic, kernel evaluation of the model) -/
section examples

/-- the unit box `[-1,1]³` -/
def unitBox : Aabb3 ℚ := ⟨⟨-1, -1, -1⟩, ⟨1, 1, 1⟩⟩

/-- eight leaves with one and the same box (the `multiple_identical_aabb_stack_overflow` input), dilation `1/100` -/
def identicalItems : List (Nat × Aabb3 ℚ) := (List.range 8).map fun i => (i, unitBox)

/-- the hypotheses of `rebuild_inv` / `rebuild_boxInv` are satisfiable on it … -/
example : (identicalItems.map (·.1)).Nodup ∧ (∀ it ∈ identicalItems, it.1 < MAXN) ∧
    4 * identicalItems.length + 2 ≤ MAXN ∧ (∀ it ∈ identicalItems, ValidBox it.2) := by
  refine ⟨by decide, by decide, by decide, ?_⟩
  intro it hit
  simp only [identicalItems, List.mem_map, List.mem_range] at hit
  obtain ⟨i, _, rfl⟩ := hit
  simp [ValidBox, unitBox]

/-- … and the model run terminates on it: all eight centres coincide, every centre split is one-sided, the fallback
halves the slices (8 → 4+4 → 2+2+2+2): root, one internal node and four leaves; all executable invariants hold -/
theorem identical_boxes_rebuild :
    (rebuild (Q.empty : Q ℚ) identicalItems (1 / 100)).map
      (fun q => (checkInv q, checkFresh q (curAfter identicalItems (fun _ => invalidBox)), q.nodes.size)) =
      some (true, true, 6) := by
  decide +kernel

end examples

end C08
