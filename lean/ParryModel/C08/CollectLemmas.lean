import ParryModel.C08.RebalRecLemmas
/-!
# C08: the collection pass of `rebalance` (core Lean only)

On a state satisfying `Inv` the depth-first pass frees pairwise different live nodes, collects pairwise different
proxies and kept subtree roots, and is closed under children.
-/
namespace C08
open Model Model.Qbvh
set_option linter.unusedSectionVars false
set_option linter.unusedVariables false
set_option linter.unusedSimpArgs false
variable {K : Type} [Num K]

/-- what the pass has collected for the sibling subtrees `roots` (all at depth `D`): `F` = nodes pushed to the free
list, `its` = workspace entries -/
structure GoodF (q : Q K) (d : Nat → Nat) (D : Nat) (roots : List Nat) (F : List Nat) (its : List (WsItem K)) : Prop where
  free : ∀ n ∈ F, Live q n ∧ n ≠ 0 ∧ n < q.nodes.size ∧ D ≤ d n ∧
    (n ∈ roots ∨ ∃ nd : Node K, q.nodes[n]? = some nd ∧ nd.parent ∈ F)
  nodup : F.Nodup
  kept : ∀ it ∈ its, it.isLeaf = false → Live q it.orig ∧ it.orig ≠ 0 ∧ it.orig < q.nodes.size ∧ D ≤ d it.orig ∧
    it.orig ∉ F ∧ ∃ nd : Node K, q.nodes[it.orig]? = some nd ∧ nd.leaf = false ∧ it.box = mergedBox nd.boxes ∧
      (it.orig ∈ roots ∨ nd.parent ∈ F)
  leaf : ∀ it ∈ its, it.isLeaf = true → it.orig < q.proxies.size ∧ it.orig ≠ MAXN ∧
    ∃ n ∈ F, ∃ (nd : Node K) (l : Nat), q.nodes[n]? = some nd ∧ nd.leaf = true ∧ nd.children[l]? = some it.orig ∧
      nd.boxes[l]? = some it.box
  pair : its.Pairwise (fun a b => ¬ (a.isLeaf = b.isLeaf ∧ a.orig = b.orig))
  closed : ∀ n ∈ F, ∀ nd : Node K, q.nodes[n]? = some nd →
    (nd.leaf = false → ∀ (l c : Nat), nd.children[l]? = some c → c ≠ MAXN →
      c ∈ F ∨ ∃ it ∈ its, it.isLeaf = false ∧ it.orig = c) ∧
    (nd.leaf = true → ∀ (l p : Nat), nd.children[l]? = some p → p ≠ MAXN → ∃ it ∈ its, it.isLeaf = true ∧ it.orig = p)
  roots : ∀ r ∈ roots, r ∈ F ∨ ∃ it ∈ its, it.isLeaf = false ∧ it.orig = r

theorem GoodF.nil (q : Q K) (d : Nat → Nat) (D : Nat) : GoodF q d D [] [] [] :=
  ⟨fun _ h => by simp at h, List.nodup_nil, fun _ h => by simp at h, fun _ h => by simp at h, List.Pairwise.nil,
    fun _ h => by simp at h, fun _ h => by simp at h⟩

/-- a visited node (freed or kept) of a forest: it is a root or its parent was freed, and it lies at depth `≥ D` -/
theorem GoodF.visited {q : Q K} {d : Nat → Nat} {D : Nat} {roots F : List Nat} {its : List (WsItem K)}
    (g : GoodF q d D roots F its) (n : Nat) (hn : n ∈ F ∨ ∃ it ∈ its, it.isLeaf = false ∧ it.orig = n) :
    Live q n ∧ n ≠ 0 ∧ D ≤ d n ∧ (n ∈ roots ∨ ∃ nd : Node K, q.nodes[n]? = some nd ∧ nd.parent ∈ F) := by
  rcases hn with hn | ⟨it, hit, hl, rfl⟩
  · obtain ⟨a, b, _, c, e⟩ := g.free n hn; exact ⟨a, b, c, e⟩
  · obtain ⟨a, b, _, c, _, nd, e1, _, _, e2⟩ := g.kept it hit hl
    exact ⟨a, b, c, e2.elim Or.inl (fun h => Or.inr ⟨nd, e1, h⟩)⟩

/-- two forests over different roots of the same depth have no visited node in common -/
theorem GoodF.disjoint {q : Q K} (hinv : Inv q) {d : Nat → Nat}
    (hd : ∀ (n : Nat) (nd : Node K), q.nodes[n]? = some nd → Live q n → n ≠ 0 → d n = d nd.parent + 1)
    {D : Nat} {r1 r2 F1 F2 : List Nat} {i1 i2 : List (WsItem K)}
    (g1 : GoodF q d D r1 F1 i1) (g2 : GoodF q d D r2 F2 i2)
    (hr1 : ∀ r ∈ r1, d r = D) (hr2 : ∀ r ∈ r2, d r = D) (hdis : ∀ r ∈ r1, r ∉ r2) :
    ∀ (k n : Nat), d n = D + k → (n ∈ F1 ∨ ∃ it ∈ i1, it.isLeaf = false ∧ it.orig = n) →
      (n ∈ F2 ∨ ∃ it ∈ i2, it.isLeaf = false ∧ it.orig = n) → False := by
  intro k
  induction k with
  | zero =>
    intro n hdn h1 h2
    obtain ⟨l1, z1, _, e1⟩ := g1.visited n h1
    obtain ⟨_, _, _, e2⟩ := g2.visited n h2
    have root_of : ∀ (roots F : List Nat) (its : List (WsItem K)), GoodF q d D roots F its →
        (n ∈ roots ∨ ∃ nd : Node K, q.nodes[n]? = some nd ∧ nd.parent ∈ F) → n ∈ roots := by
      intro roots F its g e
      rcases e with e | ⟨nd, hnd, hp⟩
      · exact e
      · have := hd n nd hnd l1 z1
        have := (g.free _ hp).2.2.2.1
        omega
    exact hdis n (root_of _ _ _ g1 e1) (root_of _ _ _ g2 e2)
  | succ k ih =>
    intro n hdn h1 h2
    obtain ⟨l1, z1, _, e1⟩ := g1.visited n h1
    obtain ⟨_, _, _, e2⟩ := g2.visited n h2
    have par_of : ∀ (roots F : List Nat) (its : List (WsItem K)), GoodF q d D roots F its → (∀ r ∈ roots, d r = D) →
        (n ∈ roots ∨ ∃ nd : Node K, q.nodes[n]? = some nd ∧ nd.parent ∈ F) →
        ∃ nd : Node K, q.nodes[n]? = some nd ∧ nd.parent ∈ F := by
      intro roots F its g hr e
      rcases e with e | e
      · have := hr n e; omega
      · exact e
    obtain ⟨nd, hnd, p1⟩ := par_of _ _ _ g1 hr1 e1
    obtain ⟨nd', hnd', p2⟩ := par_of _ _ _ g2 hr2 e2
    rw [hnd] at hnd'; cases hnd'
    have := hd n nd hnd l1 z1
    exact ih nd.parent (by omega) (Or.inl p1) (Or.inl p2)

/-- the forests over two disjoint sets of roots of the same depth, side by side -/
theorem GoodF.append {q : Q K} (hinv : Inv q) {d : Nat → Nat}
    (hd : ∀ (n : Nat) (nd : Node K), q.nodes[n]? = some nd → Live q n → n ≠ 0 → d n = d nd.parent + 1)
    {D : Nat} {r1 r2 F1 F2 : List Nat} {i1 i2 : List (WsItem K)}
    (g1 : GoodF q d D r1 F1 i1) (g2 : GoodF q d D r2 F2 i2)
    (hr1 : ∀ r ∈ r1, d r = D) (hr2 : ∀ r ∈ r2, d r = D) (hdis : ∀ r ∈ r1, r ∉ r2) :
    GoodF q d D (r1 ++ r2) (F1 ++ F2) (i1 ++ i2) := by
  have hvis : ∀ n, (n ∈ F1 ∨ ∃ it ∈ i1, it.isLeaf = false ∧ it.orig = n) →
      (n ∈ F2 ∨ ∃ it ∈ i2, it.isLeaf = false ∧ it.orig = n) → False := by
    intro n h1 h2
    obtain ⟨_, _, c, _⟩ := g1.visited n h1
    exact GoodF.disjoint hinv hd g1 g2 hr1 hr2 hdis (d n - D) n (by omega) h1 h2
  refine ⟨?_, ?_, ?_, ?_, ?_, ?_, ?_⟩
  · intro n hn
    simp only [List.mem_append] at hn ⊢
    rcases hn with hn | hn
    · obtain ⟨a, b, c, e, f⟩ := g1.free n hn
      exact ⟨a, b, c, e, f.elim (fun h => Or.inl (Or.inl h)) (fun ⟨nd, h1, h2⟩ => Or.inr ⟨nd, h1, Or.inl h2⟩)⟩
    · obtain ⟨a, b, c, e, f⟩ := g2.free n hn
      exact ⟨a, b, c, e, f.elim (fun h => Or.inl (Or.inr h)) (fun ⟨nd, h1, h2⟩ => Or.inr ⟨nd, h1, Or.inr h2⟩)⟩
  · rw [List.nodup_append]
    exact ⟨g1.nodup, g2.nodup, fun a ha b hb e => hvis a (Or.inl ha) (Or.inl (e ▸ hb))⟩
  · intro it hit hl
    simp only [List.mem_append] at hit ⊢
    rcases hit with hit | hit
    · obtain ⟨a, b, c, e, f, nd, g, h, i, j⟩ := g1.kept it hit hl
      refine ⟨a, b, c, e, ?_, nd, g, h, i, j.elim (fun h => Or.inl (Or.inl h)) (fun h => Or.inr (Or.inl h))⟩
      rintro (hf | hf)
      · exact f hf
      · exact hvis it.orig (Or.inr ⟨it, hit, hl, rfl⟩) (Or.inl hf)
    · obtain ⟨a, b, c, e, f, nd, g, h, i, j⟩ := g2.kept it hit hl
      refine ⟨a, b, c, e, ?_, nd, g, h, i, j.elim (fun h => Or.inl (Or.inr h)) (fun h => Or.inr (Or.inr h))⟩
      rintro (hf | hf)
      · exact hvis it.orig (Or.inl hf) (Or.inr ⟨it, hit, hl, rfl⟩)
      · exact f hf
  · intro it hit hl
    simp only [List.mem_append] at hit
    rcases hit with hit | hit
    · obtain ⟨a, b, n, hn, rest⟩ := g1.leaf it hit hl
      exact ⟨a, b, n, by simp [hn], rest⟩
    · obtain ⟨a, b, n, hn, rest⟩ := g2.leaf it hit hl
      exact ⟨a, b, n, by simp [hn], rest⟩
  · rw [List.pairwise_append]
    refine ⟨g1.pair, g2.pair, ?_⟩
    intro a ha b hb ⟨e1, e2⟩
    cases hl : a.isLeaf with
    | false =>
      exact hvis a.orig (Or.inr ⟨a, ha, hl, rfl⟩) (Or.inr ⟨b, hb, by rw [← e1, hl], e2.symm⟩)
    | true =>
      obtain ⟨_, hm, n1, hn1, nd1, l1, x1, y1, z1, _⟩ := g1.leaf a ha hl
      obtain ⟨_, _, n2, hn2, nd2, l2, x2, y2, z2, _⟩ := g2.leaf b hb (by rw [← e1, hl])
      obtain ⟨pr1, p1, q1, _⟩ := hinv.leafProxy n1 nd1 x1 (g1.free n1 hn1).1 y1 l1 a.orig z1 hm
      obtain ⟨pr2, p2, q2, _⟩ := hinv.leafProxy n2 nd2 x2 (g2.free n2 hn2).1 y2 l2 b.orig z2 (by rw [← e2]; exact hm)
      rw [← e2, p1] at p2; cases p2
      exact hvis n1 (Or.inl hn1) (Or.inl (by rw [← q1, q2]; exact hn2))
  · intro n hn nd hnd
    simp only [List.mem_append] at hn
    rcases hn with hn | hn
    · obtain ⟨c1, c2⟩ := g1.closed n hn nd hnd
      refine ⟨fun hl l c hc hcm => ?_, fun hl l p hc hcm => ?_⟩
      · rcases c1 hl l c hc hcm with h | ⟨it, h1, h2⟩
        · exact Or.inl (by simp [h])
        · exact Or.inr ⟨it, by simp [h1], h2⟩
      · obtain ⟨it, h1, h2⟩ := c2 hl l p hc hcm
        exact ⟨it, by simp [h1], h2⟩
    · obtain ⟨c1, c2⟩ := g2.closed n hn nd hnd
      refine ⟨fun hl l c hc hcm => ?_, fun hl l p hc hcm => ?_⟩
      · rcases c1 hl l c hc hcm with h | ⟨it, h1, h2⟩
        · exact Or.inl (by simp [h])
        · exact Or.inr ⟨it, by simp [h1], h2⟩
      · obtain ⟨it, h1, h2⟩ := c2 hl l p hc hcm
        exact ⟨it, by simp [h1], h2⟩
  · intro r hr
    simp only [List.mem_append] at hr
    rcases hr with hr | hr
    · rcases g1.roots r hr with h | ⟨it, h1, h2⟩
      · exact Or.inl (by simp [h])
      · exact Or.inr ⟨it, by simp [h1], h2⟩
    · rcases g2.roots r hr with h | ⟨it, h1, h2⟩
      · exact Or.inl (by simp [h])
      · exact Or.inr ⟨it, by simp [h1], h2⟩

/-! ## the entries collected from one leaf -/

/-- the workspace entry of lane `l` of a leaf, if the lane holds a proxy -/
def laneItem (np : Nat) (nd : Node K) (l : Nat) : Option (WsItem K) :=
  match nd.children[l]?, nd.boxes[l]? with
  | some p, some b => if p < np then some ⟨p, b, true⟩ else none
  | _, _ => none

theorem collectLeafLanes_eq (np : Nat) (nd : Node K) (items : List (WsItem K)) :
    collectLeafLanes np nd items =
      (laneItem np nd 3).toList ++ ((laneItem np nd 2).toList ++ ((laneItem np nd 1).toList ++
        ((laneItem np nd 0).toList ++ items))) := by
  have step : ∀ (acc : List (WsItem K)) (ii : Nat),
      (match nd.children[ii]?, nd.boxes[ii]? with
        | some p, some b => if p < np then (⟨p, b, true⟩ : WsItem K) :: acc else acc
        | _, _ => acc) = (laneItem np nd ii).toList ++ acc := by
    intro acc ii
    unfold laneItem
    split
    · split <;> simp
    · simp
  have hf : collectLeafLanes np nd items =
      [0, 1, 2, 3].foldl (fun acc ii => (laneItem np nd ii).toList ++ acc) items := by
    unfold collectLeafLanes
    congr 1
    funext acc ii
    exact step acc ii
  rw [hf]
  simp only [List.foldl]

theorem laneItem_spec (np : Nat) (nd : Node K) (l : Nat) (it : WsItem K) (h : laneItem np nd l = some it) :
    it.isLeaf = true ∧ nd.children[l]? = some it.orig ∧ nd.boxes[l]? = some it.box ∧ it.orig < np := by
  unfold laneItem at h
  split at h
  · rename_i p b hp hb
    split at h
    · cases h; exact ⟨rfl, hp, hb, by assumption⟩
    · cases h
  · cases h

theorem laneItem_some (np : Nat) (nd : Node K) (l p : Nat) (hp : nd.children[l]? = some p) (hlt : p < np) :
    ∃ it : WsItem K, laneItem np nd l = some it ∧ it.isLeaf = true ∧ it.orig = p := by
  have hl4 : l < 4 := by rcases vec4_lane _ l p hp with rfl | rfl | rfl | rfl <;> omega
  have hb : nd.boxes[l]? = some nd.boxes[l] := by simp [hl4]
  exact ⟨⟨p, nd.boxes[l], true⟩, by simp [laneItem, hp, hb, hlt], rfl, rfl⟩

theorem pairwise_toList4 {α} (R : α → α → Prop) (a b c d : Option α)
    (hab : ∀ x ∈ a, ∀ y ∈ b, R x y) (hac : ∀ x ∈ a, ∀ y ∈ c, R x y) (had : ∀ x ∈ a, ∀ y ∈ d, R x y)
    (hbc : ∀ x ∈ b, ∀ y ∈ c, R x y) (hbd : ∀ x ∈ b, ∀ y ∈ d, R x y) (hcd : ∀ x ∈ c, ∀ y ∈ d, R x y) :
    (a.toList ++ (b.toList ++ (c.toList ++ d.toList))).Pairwise R := by
  cases a <;> cases b <;> cases c <;> cases d <;> simp_all

/-- a live leaf on its own -/
theorem GoodF.leafNode {q : Q K} (hinv : Inv q) (d : Nat → Nat) (id : Nat) (nd : Node K) (hnd : q.nodes[id]? = some nd)
    (hlive : Live q id) (hid0 : id ≠ 0) (hleaf : nd.leaf = true) :
    GoodF q d (d id) [id] [id] (collectLeafLanes q.proxies.size nd []) := by
  have hlt := (Array.getElem?_eq_some_iff.mp hnd).1
  rw [collectLeafLanes_eq]
  simp only [List.append_nil]
  have hmem : ∀ it, it ∈ (laneItem q.proxies.size nd 3).toList ++ ((laneItem q.proxies.size nd 2).toList ++
      ((laneItem q.proxies.size nd 1).toList ++ (laneItem q.proxies.size nd 0).toList)) →
      ∃ l, laneItem q.proxies.size nd l = some it := by
    intro it hit
    simp only [List.mem_append, Option.mem_toList] at hit
    rcases hit with h | h | h | h <;> exact ⟨_, h⟩
  -- different lanes hold different proxies
  have hdist : ∀ l1 l2 (a b : WsItem K), l1 ≠ l2 → laneItem q.proxies.size nd l1 = some a → laneItem q.proxies.size nd l2 = some b →
      ¬ (a.isLeaf = b.isLeaf ∧ a.orig = b.orig) := by
    intro l1 l2 a b hne ha hb ⟨_, e⟩
    obtain ⟨_, ca, _, la⟩ := laneItem_spec _ _ _ _ ha
    obtain ⟨_, cb, _, lb⟩ := laneItem_spec _ _ _ _ hb
    have hm : a.orig ≠ MAXN := by have := hinv.psmall; omega
    obtain ⟨pr1, p1, _, q1⟩ := hinv.leafProxy id nd hnd hlive hleaf l1 a.orig ca hm
    obtain ⟨pr2, p2, _, q2⟩ := hinv.leafProxy id nd hnd hlive hleaf l2 b.orig cb (by rw [← e]; exact hm)
    rw [← e, p1] at p2; cases p2
    exact hne (by rw [← q1, q2])
  refine ⟨?_, by simp, ?_, ?_, ?_, ?_, ?_⟩
  · intro n hn; simp only [List.mem_singleton] at hn; subst hn
    exact ⟨hlive, hid0, hlt, Nat.le_refl _, Or.inl (by simp)⟩
  · intro it hit hl
    obtain ⟨l, h⟩ := hmem it hit
    rw [(laneItem_spec _ _ _ _ h).1] at hl; cases hl
  · intro it hit _
    obtain ⟨l, h⟩ := hmem it hit
    obtain ⟨_, c1, c2, c3⟩ := laneItem_spec _ _ _ _ h
    exact ⟨c3, by have := hinv.psmall; omega, id, by simp, nd, l, hnd, hleaf, c1, c2⟩
  · apply pairwise_toList4
    · intro x hx y hy; exact hdist 3 2 x y (by omega) hx hy
    · intro x hx y hy; exact hdist 3 1 x y (by omega) hx hy
    · intro x hx y hy; exact hdist 3 0 x y (by omega) hx hy
    · intro x hx y hy; exact hdist 2 1 x y (by omega) hx hy
    · intro x hx y hy; exact hdist 2 0 x y (by omega) hx hy
    · intro x hx y hy; exact hdist 1 0 x y (by omega) hx hy
  · intro n hn x hx
    simp only [List.mem_singleton] at hn; subst hn
    rw [hnd] at hx; cases hx
    refine ⟨fun h => (by rw [hleaf] at h; cases h), fun _ l p hc hcm => ?_⟩
    obtain ⟨pr, hp, _⟩ := hinv.leafProxy n nd hnd hlive hleaf l p hc hcm
    have hplt := (Array.getElem?_eq_some_iff.mp hp).1
    obtain ⟨it, e, e1, e2⟩ := laneItem_some q.proxies.size nd l p hc hplt
    have hl4 : l < 4 := by rcases vec4_lane _ l p hc with rfl | rfl | rfl | rfl <;> omega
    refine ⟨it, ?_, e1, e2⟩
    simp only [List.mem_append, Option.mem_toList]
    have : l = 0 ∨ l = 1 ∨ l = 2 ∨ l = 3 := by omega
    rcases this with rfl | rfl | rfl | rfl
    · exact Or.inr (Or.inr (Or.inr e))
    · exact Or.inr (Or.inr (Or.inl e))
    · exact Or.inr (Or.inl e)
    · exact Or.inl e
  · intro r hr; simp only [List.mem_singleton] at hr; subst hr; exact Or.inl (by simp)

/-- a kept internal node on its own -/
theorem GoodF.keptNode {q : Q K} (d : Nat → Nat) (id : Nat) (nd : Node K) (hnd : q.nodes[id]? = some nd)
    (hlive : Live q id) (hid0 : id ≠ 0) (hleaf : nd.leaf = false) :
    GoodF q d (d id) [id] [] [⟨id, mergedBox nd.boxes, false⟩] := by
  have hlt := (Array.getElem?_eq_some_iff.mp hnd).1
  refine ⟨fun _ h => by simp at h, List.nodup_nil, ?_, ?_, List.pairwise_singleton _ _, fun _ h => by simp at h, ?_⟩
  · intro it hit _
    simp only [List.mem_singleton] at hit; subst hit
    exact ⟨hlive, hid0, hlt, Nat.le_refl _, by simp, nd, hnd, hleaf, rfl, Or.inl (by simp)⟩
  · intro it hit hl
    simp only [List.mem_singleton] at hit; subst hit; cases hl
  · intro r hr; simp only [List.mem_singleton] at hr; subst hr
    exact Or.inr ⟨⟨r, mergedBox nd.boxes, false⟩, by simp, rfl, rfl⟩

/-- a freed internal node on top of the forest of its children -/
theorem GoodF.lift {q : Q K} (hinv : Inv q) {d : Nat → Nat} (id : Nat) (nd : Node K) (hnd : q.nodes[id]? = some nd)
    (hlive : Live q id) (hid0 : id ≠ 0) (hleaf : nd.leaf = false) {croots Fc : List Nat} {itsc : List (WsItem K)}
    (g : GoodF q d (d id + 1) croots Fc itsc)
    (hcr : ∀ c, c ∈ croots ↔ ∃ l : Nat, nd.children[l]? = some c ∧ c ≠ MAXN) :
    GoodF q d (d id) [id] (Fc ++ [id]) itsc := by
  have hlt := (Array.getElem?_eq_some_iff.mp hnd).1
  have hparent : ∀ c, c ∈ croots → ∃ cn : Node K, q.nodes[c]? = some cn ∧ cn.parent = id := by
    intro c hc
    obtain ⟨l, h1, h2⟩ := (hcr c).1 hc
    obtain ⟨_, _, cn, e1, e2, _⟩ := hinv.child id nd hnd hlive hleaf l c h1 h2
    exact ⟨cn, e1, e2⟩
  refine ⟨?_, ?_, ?_, ?_, g.pair, ?_, ?_⟩
  · intro n hn
    simp only [List.mem_append, List.mem_singleton] at hn ⊢
    rcases hn with hn | rfl
    · obtain ⟨a, b, c, e, f⟩ := g.free n hn
      refine ⟨a, b, c, by omega, Or.inr ?_⟩
      rcases f with f | ⟨x, h1, h2⟩
      · obtain ⟨cn, e1, e2⟩ := hparent n f
        exact ⟨cn, e1, Or.inr e2⟩
      · exact ⟨x, h1, Or.inl h2⟩
    · exact ⟨hlive, hid0, hlt, Nat.le_refl _, Or.inl rfl⟩
  · rw [List.nodup_append]
    refine ⟨g.nodup, by simp, ?_⟩
    intro a ha b hb e
    simp only [List.mem_singleton] at hb; subst hb; subst e
    have := (g.free a ha).2.2.2.1; omega
  · intro it hit hl
    obtain ⟨a, b, c, e, f, x, h1, h2, h3, h4⟩ := g.kept it hit hl
    refine ⟨a, b, c, by omega, ?_, x, h1, h2, h3, Or.inr ?_⟩
    · simp only [List.mem_append, List.mem_singleton, not_or]
      exact ⟨f, fun e' => by rw [e'] at e; omega⟩
    · rcases h4 with h4 | h4
      · obtain ⟨cn, e1, e2⟩ := hparent _ h4
        rw [h1] at e1; cases e1
        simp [e2]
      · simp [h4]
  · intro it hit hl
    obtain ⟨a, b, n, hn, rest⟩ := g.leaf it hit hl
    exact ⟨a, b, n, by simp [hn], rest⟩
  · intro n hn x hx
    simp only [List.mem_append, List.mem_singleton] at hn
    rcases hn with hn | rfl
    · obtain ⟨c1, c2⟩ := g.closed n hn x hx
      refine ⟨fun hl l c hc hcm => ?_, c2⟩
      rcases c1 hl l c hc hcm with h | h
      · exact Or.inl (by simp [h])
      · exact Or.inr h
    · rw [hnd] at hx; cases hx
      refine ⟨fun _ l c hc hcm => ?_, fun h => (by rw [hleaf] at h; cases h)⟩
      rcases g.roots c ((hcr c).2 ⟨l, hc, hcm⟩) with h | h
      · exact Or.inl (by simp [h])
      · exact Or.inr h
  · intro r hr; simp only [List.mem_singleton] at hr; subst hr; exact Or.inl (by simp)

/-! ## the depth-first pass -/

/-- the loop over the lanes of an internal node (children are visited with budget `b`) -/
def foldLanes (q : Q K) (b : Nat) (nd : Node K) (lanes : List Nat) (r : CollRes K) : CollRes K :=
  lanes.foldl (fun (r : CollRes K) l =>
    match r with
    | .ok c' =>
      match nd.children[l]? with
      | some ch => if ch < q.nodes.size then collectNode q b ch c' else .ok c'
      | none => .ok c'
    | other => other) r

theorem foldLanes_force (q : Q K) (b : Nat) (nd : Node K) : ∀ lanes, foldLanes q b nd lanes .force = .force := by
  intro lanes
  induction lanes with
  | nil => rfl
  | cons l rest ih => simpa [foldLanes] using ih

theorem foldLanes_panic (q : Q K) (b : Nat) (nd : Node K) : ∀ lanes, foldLanes q b nd lanes .panic = .panic := by
  intro lanes
  induction lanes with
  | nil => rfl
  | cons l rest ih => simpa [foldLanes] using ih

theorem foldLanes_cons (q : Q K) (b : Nat) (nd : Node K) (l : Nat) (rest : List Nat) (c : Coll K) :
    foldLanes q b nd (l :: rest) (.ok c) =
      foldLanes q b nd rest (match nd.children[l]? with
        | some ch => if ch < q.nodes.size then collectNode q b ch c else .ok c
        | none => .ok c) := rfl

theorem collectNode_succ (q : Q K) (budget id : Nat) (c : Coll K) (nd : Node K) (hnd : q.nodes[id]? = some nd) :
    collectNode q (budget + 1) id c =
      if nd.leaf then .ok ⟨id :: c.free, collectLeafLanes q.proxies.size nd c.items⟩
      else if nd.changed || FULL_REBUILD_DEPTH + 1 - (budget + 1) < MIN_CHANGED_DEPTH then
        foldLanes q budget nd [3, 2, 1, 0] (.ok ⟨id :: c.free, c.items⟩)
      else .ok ⟨c.free, ⟨id, mergedBox nd.boxes, false⟩ :: c.items⟩ := by
  rw [collectNode]
  simp only [hnd]
  rfl

/-- the context of the pass: a state satisfying `Inv` with its depth function -/
structure CCtx (q : Q K) (d : Nat → Nat) : Prop where
  inv : Inv q
  d0 : d 0 = 0
  dstep : ∀ (n : Nat) (nd : Node K), q.nodes[n]? = some nd → Live q n → n ≠ 0 → d n = d nd.parent + 1

/-- what one visit guarantees -/
def NodeSpec (q : Q K) (d : Nat → Nat) (b : Nat) : Prop :=
  ∀ (id : Nat) (c c' : Coll K) (nd : Node K), q.nodes[id]? = some nd → Live q id → id ≠ 0 →
    collectNode q b id c = .ok c' →
    ∃ (F : List Nat) (its : List (WsItem K)), c'.free = F ++ c.free ∧ c'.items = its ++ c.items ∧ GoodF q d (d id) [id] F its

theorem foldLanes_spec {q : Q K} {d : Nat → Nat} (ctx : CCtx q d) (b : Nat) (hb : NodeSpec q d b) (pid : Nat) (pn : Node K)
    (hpn : q.nodes[pid]? = some pn) (hplive : Live q pid) (hpleaf : pn.leaf = false) :
    ∀ (lanes : List Nat) (c c' : Coll K), lanes.Nodup → foldLanes q b pn lanes (.ok c) = .ok c' →
      ∃ (roots F : List Nat) (its : List (WsItem K)),
        (∀ x, x ∈ roots ↔ ∃ l ∈ lanes, pn.children[l]? = some x ∧ x ≠ MAXN) ∧ (∀ r ∈ roots, d r = d pid + 1) ∧
        c'.free = F ++ c.free ∧ c'.items = its ++ c.items ∧ GoodF q d (d pid + 1) roots F its := by
  intro lanes
  induction lanes with
  | nil =>
    intro c c' _ h
    simp only [foldLanes, List.foldl] at h
    cases h
    exact ⟨[], [], [], by simp, by simp, by simp, by simp, GoodF.nil q d _⟩
  | cons l rest ih =>
    intro c c' hnd h
    obtain ⟨hl, hnd'⟩ := List.nodup_cons.mp hnd
    rw [foldLanes_cons] at h
    -- a lane that is skipped
    have hskip : foldLanes q b pn rest (.ok c) = .ok c' → (∀ x, pn.children[l]? = some x → x = MAXN) →
        ∃ (roots F : List Nat) (its : List (WsItem K)),
        (∀ x, x ∈ roots ↔ ∃ l' ∈ l :: rest, pn.children[l']? = some x ∧ x ≠ MAXN) ∧ (∀ r ∈ roots, d r = d pid + 1) ∧
        c'.free = F ++ c.free ∧ c'.items = its ++ c.items ∧ GoodF q d (d pid + 1) roots F its := by
      intro h' hm
      obtain ⟨roots, F, its, a1, a2, a3, a4, a5⟩ := ih c c' hnd' h'
      refine ⟨roots, F, its, ?_, a2, a3, a4, a5⟩
      intro x; rw [a1 x]
      constructor
      · rintro ⟨l', hl', rest'⟩; exact ⟨l', by simp [hl'], rest'⟩
      · rintro ⟨l', hl', e1, e2⟩
        simp only [List.mem_cons] at hl'
        rcases hl' with rfl | hl'
        · exact absurd (hm x e1) e2
        · exact ⟨l', hl', e1, e2⟩
    cases hch : pn.children[l]? with
    | none =>
      simp only [hch] at h
      exact hskip h (fun x hx => (by rw [hch] at hx; cases hx))
    | some ch =>
      simp only [hch] at h
      by_cases hlt : ch < q.nodes.size
      · simp only [hlt, if_true] at h
        have hcm : ch ≠ MAXN := by have := ctx.inv.small; omega
        obtain ⟨ch0, chlive, cn, hcn, cpar, cplane⟩ := ctx.inv.child pid pn hpn hplive hpleaf l ch hch hcm
        cases hr : collectNode q b ch c with
        | force => rw [hr, foldLanes_force] at h; cases h
        | panic => rw [hr, foldLanes_panic] at h; cases h
        | ok c1 =>
          rw [hr] at h
          obtain ⟨F1, its1, b1, b2, g1⟩ := hb ch c c1 cn hcn chlive ch0 hr
          obtain ⟨roots, F, its, a1, a2, a3, a4, g⟩ := ih c1 c' hnd' h
          have hdch : d ch = d pid + 1 := by rw [ctx.dstep ch cn hcn chlive ch0, cpar]
          rw [hdch] at g1
          have hnotin : ch ∉ roots := by
            intro hin
            obtain ⟨l', hl', e1, _⟩ := (a1 ch).1 hin
            obtain ⟨_, _, cn', hcn', _, cplane'⟩ := ctx.inv.child pid pn hpn hplive hpleaf l' ch e1 hcm
            rw [hcn] at hcn'; cases hcn'
            exact hl (by rw [← cplane, cplane']; exact hl')
          refine ⟨roots ++ [ch], F ++ F1, its ++ its1, ?_, ?_, by rw [a3, b1, List.append_assoc],
            by rw [a4, b2, List.append_assoc], ?_⟩
          · intro x
            simp only [List.mem_append, List.mem_singleton, a1 x]
            constructor
            · rintro (⟨l', hl', rest'⟩ | rfl)
              · exact ⟨l', by simp [hl'], rest'⟩
              · exact ⟨l, by simp, hch, hcm⟩
            · rintro ⟨l', hl', e1, e2⟩
              simp only [List.mem_cons] at hl'
              rcases hl' with rfl | hl'
              · rw [hch] at e1; cases e1; exact Or.inr rfl
              · exact Or.inl ⟨l', hl', e1, e2⟩
          · intro r hr'
            simp only [List.mem_append, List.mem_singleton] at hr'
            rcases hr' with hr' | rfl
            · exact a2 r hr'
            · exact hdch
          · exact GoodF.append ctx.inv ctx.dstep g g1 a2 (fun r hr' => by simp at hr'; rw [hr']; exact hdch)
              (fun r hr' hin => by simp at hin; exact hnotin (hin ▸ hr'))
      · simp only [hlt, if_false] at h
        refine hskip h (fun x hx => ?_)
        rw [hch] at hx
        have hxe : ch = x := Option.some.inj hx
        subst hxe
        -- a child that is not the sentinel is a node index
        by_cases hne : ch = MAXN
        · exact hne
        · obtain ⟨_, _, cn, hcn, _⟩ := ctx.inv.child pid pn hpn hplive hpleaf l ch hch hne
          exact absurd (Array.getElem?_eq_some_iff.mp hcn).1 hlt

theorem lanes4_iff (nd : Node K) (P : Nat → Prop) :
    (∃ l ∈ [3, 2, 1, 0], ∃ x, nd.children[l]? = some x ∧ P x) ↔ ∃ l : Nat, ∃ x, nd.children[l]? = some x ∧ P x := by
  constructor
  · rintro ⟨l, _, rest⟩; exact ⟨l, rest⟩
  · rintro ⟨l, x, h, hp⟩
    have : l = 0 ∨ l = 1 ∨ l = 2 ∨ l = 3 := vec4_lane _ l x h
    exact ⟨l, by rcases this with rfl | rfl | rfl | rfl <;> simp, x, h, hp⟩

/-- **every visit of the depth-first pass is well behaved**, for every depth budget -/
theorem nodeSpec_all {q : Q K} {d : Nat → Nat} (ctx : CCtx q d) : ∀ b, NodeSpec q d b := by
  intro b
  induction b with
  | zero =>
    intro id c c' nd _ _ _ h
    simp [collectNode] at h
  | succ b ih =>
    intro id c c' nd hnd hlive hid0 h
    rw [collectNode_succ q b id c nd hnd] at h
    by_cases hleaf : nd.leaf = true
    · simp only [hleaf, if_true, CollRes.ok.injEq] at h
      subst h
      refine ⟨[id], collectLeafLanes q.proxies.size nd [], rfl, ?_, GoodF.leafNode ctx.inv d id nd hnd hlive hid0 hleaf⟩
      dsimp only
      rw [collectLeafLanes_eq, collectLeafLanes_eq _ _ []]
      simp only [List.append_assoc, List.append_nil]
    · have hleaf' : nd.leaf = false := by simpa using hleaf
      simp only [hleaf', Bool.false_eq_true, if_false] at h
      split at h
      · obtain ⟨roots, F, its, a1, a2, a3, a4, g⟩ := foldLanes_spec ctx b ih id nd hnd hlive hleaf' [3, 2, 1, 0] _ c' (by decide) h
        dsimp only at a3 a4
        refine ⟨F ++ [id], its, by rw [a3]; simp, a4, GoodF.lift ctx.inv id nd hnd hlive hid0 hleaf' g ?_⟩
        intro x
        rw [a1 x]
        constructor
        · rintro ⟨l, _, rest⟩; exact ⟨l, rest⟩
        · rintro ⟨l, h1, h2⟩
          have : l = 0 ∨ l = 1 ∨ l = 2 ∨ l = 3 := vec4_lane _ l x h1
          exact ⟨l, by rcases this with rfl | rfl | rfl | rfl <;> simp, h1, h2⟩
      · simp only [CollRes.ok.injEq] at h
        subst h
        exact ⟨[], [⟨id, mergedBox nd.boxes, false⟩], rfl, rfl, GoodF.keptNode d id nd hnd hlive hid0 hleaf'⟩

/-- **the collection pass of `rebalance`** on a state satisfying `Inv`: the nodes pushed to the free list (`F`) and the
workspace entries (`its`, in reverse push order) form a well-behaved forest below the root -/
theorem collectAll_spec {q : Q K} {d : Nat → Nat} (ctx : CCtx q d) (root : Node K) (hroot : q.nodes[0]? = some root)
    (hlive : Live q 0) (hleaf : root.leaf = false) (c : Coll K) (h : collectAll q root = .ok c) :
    ∃ (roots F : List Nat) (its : List (WsItem K)),
      (∀ x, x ∈ roots ↔ ∃ l : Nat, root.children[l]? = some x ∧ x ≠ MAXN) ∧
      c.free = F ++ q.freeList ∧ c.items = its ∧ GoodF q d 1 roots F its := by
  have h' : foldLanes q FULL_REBUILD_DEPTH root [3, 2, 1, 0] (.ok ⟨q.freeList, []⟩) = .ok c := h
  obtain ⟨roots, F, its, a1, a2, a3, a4, g⟩ := foldLanes_spec ctx _ (nodeSpec_all ctx _) 0 root hroot hlive hleaf
    [3, 2, 1, 0] _ c (by decide) h'
  rw [ctx.d0] at g
  refine ⟨roots, F, its, ?_, a3, by simpa using a4, g⟩
  intro x
  rw [a1 x]
  constructor
  · rintro ⟨l, _, rest⟩; exact ⟨l, rest⟩
  · rintro ⟨l, h1, h2⟩
    have : l = 0 ∨ l = 1 ∨ l = 2 ∨ l = 3 := vec4_lane _ l x h1
    exact ⟨l, by rcases this with rfl | rfl | rfl | rfl <;> simp, h1, h2⟩
