import ParryModel.Field
import ParryModel.IsoLemmas
import ParryModel.C09.Theorems
import ParryModel.C08.BvttLemmas
import ParryModel.C08.FieldLemmas
/-!
# C08 property theorems, part 6: the simultaneous two-tree traversal visits every intersecting pair of live leaves

`bvttVisit` (`C08/Model.lean`) is the per-node step shared by `Qbvh::traverse_bvtt_with_stack`,
`traverse_modified_bvtt_with_stack` and — run by rayon on the pushed entries instead of a stack —
`traverse_bvtt_node_parallel`, with the library's `BoundingVolumeIntersectionsSimultaneousVisitor`
(`mask[ii][jj]` = lane box `ii` of the first node intersects the posed lane box `jj` of the second).
`Reach` is the closure of the per-node step: the entries ANY schedule visits; `BvttSet` the pairs reported there.
-/
namespace C08
open Model Model.Qbvh

section structural
variable {K : Type} [Num K]

/-- **`bvtt_step_covers`: the entries descended into by the per-node step cover every intersecting (lane, lane) pair** —
the clause a wrong lane-mask merge breaks.  At an entry `(e1, e2)` with nodes `n1`, `n2`, for every lane `ii` of `n1` and
`jj` of `n2` whose boxes intersect (`mask[ii][jj]`):
* (leaf, internal): the entry `(e1, child jj of n2)` is pushed — for EVERY lane `ii` of the leaf, not only the last one;
* (internal, leaf): `(child ii of n1, e2)` is pushed;
* (internal, internal): `(child ii of n1, child jj of n2)` is pushed;
* (leaf, leaf): the pair of leaf data of the two lanes is reported (if both lanes are occupied).
(Children passing the range guard `child <= nodes.len()`; `P` / `O` are what the step prepends to the stack / output.) -/
theorem bvtt_step_covers (q1 q2 : Q K) (pos : Option (Iso3 K)) (e1 e2 : Nat) (n1 n2 : Node K)
    (h1 : q1.nodes[e1]? = some n1) (h2 : q2.nodes[e2]? = some n2) (stack out : List (Nat × Nat)) :
    ∃ P O : List (Nat × Nat), bvttVisit q1 q2 pos e1 e2 stack out = some (P ++ stack, O ++ out) ∧
      ∀ ii ∈ lanes4, ∀ jj ∈ lanes4, pairMask pos n1 n2 ii jj = true →
        (n1.leaf = true → n2.leaf = false → childOf n2 jj ≤ q2.nodes.size → (e1, childOf n2 jj) ∈ P) ∧
        (n1.leaf = false → n2.leaf = true → childOf n1 ii ≤ q1.nodes.size → (childOf n1 ii, e2) ∈ P) ∧
        (n1.leaf = false → n2.leaf = false → childOf n1 ii ≤ q1.nodes.size → childOf n2 jj ≤ q2.nodes.size →
          (childOf n1 ii, childOf n2 jj) ∈ P) ∧
        (n1.leaf = true → n2.leaf = true → ∀ p1 p2 : Proxy, q1.proxies[childOf n1 ii]? = some p1 →
          q2.proxies[childOf n2 jj]? = some p2 → (p1.data, p2.data) ∈ O) := by
  obtain ⟨P, O, e, hP, hO⟩ := bvttVisit_spec q1 q2 pos e1 e2 n1 n2 h1 h2 stack out
  refine ⟨P, O, e, ?_⟩
  intro ii hii jj hjj hm
  refine ⟨fun a b c => ?_, fun a b c => ?_, fun a b c d => ?_, fun a b p1 p2 c d => ?_⟩
  · exact (hP _).2 (Or.inl ⟨a, b, jj, hjj, ⟨ii, hii, hm⟩, c, rfl⟩)
  · exact (hP _).2 (Or.inr (Or.inl ⟨a, b, ii, hii, ⟨jj, hjj, hm⟩, c, rfl⟩))
  · exact (hP _).2 (Or.inr (Or.inr ⟨a, b, ii, hii, jj, hjj, hm, c, d, rfl⟩))
  · exact (hO _).2 ⟨a, b, ii, hii, jj, hjj, p1, p2, c, d, hm, rfl⟩

/-- **`bvtt_schedule_independent`**: when the sequential stack traversal returns, the set of pairs it reports is the
closure semantics `BvttSet` — the pairs reported at the entries reachable from `(0, 0)` by per-node steps, in whatever
order they are visited.  The parallel variant visits exactly these entries (fork-join over the pushed entries), so its
visited pair set is the same for every rayon schedule and thread count. -/
theorem bvtt_schedule_independent (q1 q2 : Q K) (pos : Option (Iso3 K)) (res : List (Nat × Nat))
    (h : traverseBvtt q1 q2 pos = some res) : ∀ x, x ∈ res ↔ BvttSet q1 q2 pos x :=
  traverseBvtt_spec q1 q2 pos res h

/-- **`bvtt_sound`: only pairs of live leaves are visited**, and only pairs whose stored lane boxes intersect.  On two
trees satisfying `Inv` (fewer than `u32::MAX` nodes), every pair in `BvttSet` — hence every pair reported by the
sequential or the parallel traversal — is `(pr1.data, pr2.data)` for proxies attached to leaf lanes whose boxes intersect
(second one posed).  ("Each pair once" is checked by the oracle on every output; not proved.) -/
theorem bvtt_sound (q1 q2 : Q K) (pos : Option (Iso3 K)) (h1 : Inv q1) (h2 : Inv q2) (s1 : q1.nodes.size < MAXN)
    (s2 : q2.nodes.size < MAXN) (x : Nat × Nat) (hx : BvttSet q1 q2 pos x) :
    ∃ (c1 c2 : Nat) (pr1 pr2 : Proxy) (n1 n2 : Node K) (b1 b2 : Aabb3 K),
      q1.proxies[c1]? = some pr1 ∧ pr1.node ≠ MAXN ∧ q2.proxies[c2]? = some pr2 ∧ pr2.node ≠ MAXN ∧
      x = (pr1.data, pr2.data) ∧ q1.nodes[pr1.node]? = some n1 ∧ n1.boxes[pr1.lane]? = some b1 ∧
      q2.nodes[pr2.node]? = some n2 ∧ n2.boxes[pr2.lane]? = some b2 ∧ boxIntersects b1 (posedBox pos b2) = true := by
  obtain ⟨e, hr, n1, n2, a1, a2, l1, l2, ii, hii, jj, hjj, p1, p2, c1, c2, hm, rfl⟩ := hx
  have hpos1 : 0 < q1.nodes.size := by
    cases hr with
    | refl => exact (Array.getElem?_eq_some_iff.mp a1).1
    | step s _ => obtain ⟨m1, _, b1, _⟩ := s; exact (Array.getElem?_eq_some_iff.mp b1).1
  have hpos2 : 0 < q2.nodes.size := by
    cases hr with
    | refl => exact (Array.getElem?_eq_some_iff.mp a2).1
    | step s _ => obtain ⟨_, m2, _, b2, _⟩ := s; exact (Array.getElem?_eq_some_iff.mp b2).1
  have root_live : ∀ {q : Q K}, Inv q → 0 < q.nodes.size → Live q 0 := by
    intro q h hp
    rcases h.root with h0 | ⟨_, hl⟩
    · omega
    · exact hl
  have hg := reach_good pos h1 h2 s1 s2 hr ⟨root_live h1 hpos1, hpos1, root_live h2 hpos2, hpos2⟩
  obtain ⟨g1, _, g2, _⟩ := hg
  obtain ⟨d1, d2, d3⟩ := lane_proxy_attached h1 e.1 n1 a1 g1 l1 ii hii p1 c1
  obtain ⟨f1, f2, f3⟩ := lane_proxy_attached h2 e.2 n2 a2 g2 l2 jj hjj p2 c2
  have hi4 : ii < 4 := by simp [lanes4] at hii; omega
  have hj4 : jj < 4 := by simp [lanes4] at hjj; omega
  refine ⟨_, _, p1, p2, n1, n2, n1.boxes[ii], n2.boxes[jj], c1, d3, c2, f3, rfl, by rw [d1]; exact a1, by rw [d2]; simp [hi4],
    by rw [f1]; exact a2, by rw [f2]; simp [hj4], ?_⟩
  simpa [pairMask, hi4, hj4] using hm

/-- the `modified` traversal (which prunes on the CHANGED flags of the first tree) only reports pairs of `BvttSet` -/
theorem bvtt_modified_subset (q1 q2 : Q K) (pos : Option (Iso3 K)) (res : List (Nat × Nat))
    (h : traverseModifiedBvtt q1 q2 pos = some res) : ∀ x ∈ res, BvttSet q1 q2 pos x := by
  intro x hx
  unfold traverseModifiedBvtt at h
  split at h
  · cases h; simp at hx
  · split at h
    · cases h; simp at hx
    · rcases bvttModLoop_sound q1 q2 pos _ _ _ _ h x hx with h' | ⟨e, he, e', hr, hrep⟩
      · simp at h'
      · simp only [List.mem_singleton] at he; subst he; exact ⟨e', hr, hrep⟩

/-- **`bvtt_complete`, abstract form**: on two trees satisfying `Inv` and `BoxInv` (w.r.t. the users' current leaf boxes
`cur1`, `cur2`), for every pair of attached leaves whose current boxes intersect (second one posed), the pair of their data
is in `BvttSet` — it is visited by the simultaneous traversal under every schedule.  `BvttLaws`: containment is a
preorder, `intersects` and posing are monotone for containment (proved for every ordered field below). -/
theorem bvtt_complete_set {pos : Option (Iso3 K)} (bl : BvttLaws K pos) (q1 q2 : Q K) (cur1 cur2 : Nat → Aabb3 K)
    (h1 : Inv q1) (h2 : Inv q2) (b1 : BoxInv q1 cur1) (b2 : BoxInv q2 cur2) (p1 p2 : Nat) (pr1 pr2 : Proxy)
    (hp1 : q1.proxies[p1]? = some pr1) (hp2 : q2.proxies[p2]? = some pr2) (a1 : pr1.node ≠ MAXN) (a2 : pr2.node ≠ MAXN)
    (hint : boxIntersects (cur1 pr1.data) (posedBox pos (cur2 pr2.data)) = true) :
    BvttSet q1 q2 pos (pr1.data, pr2.data) :=
  descend bl q1 q2 p1 p2 pr1 pr2 hp1 hp2 _ _ hint 0 (pathTo_root bl.laws h1 cur1 b1 p1 pr1 hp1 a1) 0
    (pathTo_root bl.laws h2 cur2 b2 p2 pr2 hp2 a2)

end structural

section boxes
variable {K : Type} [Field K] [LinearOrder K] [IsStrictOrderedRing K] (sq : K → K)

/-- one lane of `SimdAabb::intersects` is monotone for containment in both arguments -/
theorem boxIntersects_mono2 (a a' b b' : Aabb3 K) :
    letI := fieldNum K sq
    boxContains a a' = true → boxContains b b' = true → boxIntersects a' b' = true → boxIntersects a b = true := by
  letI := fieldNum K sq
  intro h1 h2 h3
  rw [boxContains_iff'] at h1 h2
  simp only [boxIntersects, Bool.and_eq_true, decide_eq_true_eq] at h3 ⊢
  obtain ⟨⟨a1, a2, a3⟩, a4, a5, a6⟩ := h1
  obtain ⟨⟨b1, b2, b3⟩, b4, b5, b6⟩ := h2
  obtain ⟨⟨⟨⟨⟨p1, p2⟩, p3⟩, p4⟩, p5⟩, p6⟩ := h3
  refine ⟨⟨⟨⟨⟨?_, ?_⟩, ?_⟩, ?_⟩, ?_⟩, ?_⟩ <;> linarith

/-- the laws of the traversal argument without a relative pose -/
theorem bvttLaws_none : @BvttLaws K (fieldNum K sq) none := by
  letI := fieldNum K sq
  exact ⟨boxLaws_fieldNum sq, boxIntersects_mono2 sq, fun b b' h => h⟩

private theorem lin_bound' (r1 r2 r3 d1 d2 d3 h1 h2 h3 : K)
    (e1 : |d1| ≤ h1) (e2 : |d2| ≤ h2) (e3 : |d3| ≤ h3) :
    |r1 * d1 + r2 * d2 + r3 * d3| ≤ |r1| * h1 + |r2| * h2 + |r3| * h3 := by
  have a1 : |r1 * d1| ≤ |r1| * h1 := by rw [abs_mul]; exact mul_le_mul_of_nonneg_left e1 (abs_nonneg _)
  have a2 : |r2 * d2| ≤ |r2| * h2 := by rw [abs_mul]; exact mul_le_mul_of_nonneg_left e2 (abs_nonneg _)
  have a3 : |r3 * d3| ≤ |r3| * h3 := by rw [abs_mul]; exact mul_le_mul_of_nonneg_left e3 (abs_nonneg _)
  calc |r1 * d1 + r2 * d2 + r3 * d3| ≤ |r1 * d1 + r2 * d2| + |r3 * d3| := abs_add_le _ _
    _ ≤ |r1 * d1| + |r2 * d2| + |r3 * d3| := by linarith [abs_add_le (r1 * d1) (r2 * d2)]
    _ ≤ _ := by linarith

/-- one coordinate of `transform_by`: centre term ± absolute-value term, for a box containing another -/
private theorem coord_mono (r1 r2 r3 t l1 h1 l2 h2 l3 h3 l1' h1' l2' h2' l3' h3' : K)
    (a1 : l1 ≤ l1') (a2 : l2 ≤ l2') (a3 : l3 ≤ l3') (a4 : h1' ≤ h1) (a5 : h2' ≤ h2) (a6 : h3' ≤ h3) :
    (r1 * ((l1 + h1) * (1/2)) + r2 * ((l2 + h2) * (1/2)) + r3 * ((l3 + h3) * (1/2)) + t) -
        (|r1| * ((h1 - l1) * (1/2)) + |r2| * ((h2 - l2) * (1/2)) + |r3| * ((h3 - l3) * (1/2))) ≤
      (r1 * ((l1' + h1') * (1/2)) + r2 * ((l2' + h2') * (1/2)) + r3 * ((l3' + h3') * (1/2)) + t) -
        (|r1| * ((h1' - l1') * (1/2)) + |r2| * ((h2' - l2') * (1/2)) + |r3| * ((h3' - l3') * (1/2))) ∧
    (r1 * ((l1' + h1') * (1/2)) + r2 * ((l2' + h2') * (1/2)) + r3 * ((l3' + h3') * (1/2)) + t) +
        (|r1| * ((h1' - l1') * (1/2)) + |r2| * ((h2' - l2') * (1/2)) + |r3| * ((h3' - l3') * (1/2))) ≤
      (r1 * ((l1 + h1) * (1/2)) + r2 * ((l2 + h2) * (1/2)) + r3 * ((l3 + h3) * (1/2)) + t) +
        (|r1| * ((h1 - l1) * (1/2)) + |r2| * ((h2 - l2) * (1/2)) + |r3| * ((h3 - l3) * (1/2))) := by
  have d1 : |(l1 + h1) * (1/2) - (l1' + h1') * (1/2)| ≤ (h1 - l1) * (1/2) - (h1' - l1') * (1/2) := by
    rw [abs_le]; constructor <;> linarith
  have d2 : |(l2 + h2) * (1/2) - (l2' + h2') * (1/2)| ≤ (h2 - l2) * (1/2) - (h2' - l2') * (1/2) := by
    rw [abs_le]; constructor <;> linarith
  have d3 : |(l3 + h3) * (1/2) - (l3' + h3') * (1/2)| ≤ (h3 - l3) * (1/2) - (h3' - l3') * (1/2) := by
    rw [abs_le]; constructor <;> linarith
  have b := abs_le.1 (lin_bound' r1 r2 r3 _ _ _ _ _ _ d1 d2 d3)
  constructor <;> nlinarith [b.1, b.2]

/-- **`Aabb::transform_by` is monotone for containment** (unit quaternion): a bigger box has a bigger transformed box -/
theorem transformBy_mono (m : Iso3 K) (hq : m.qi * m.qi + m.qj * m.qj + m.qk * m.qk + m.qw * m.qw = 1) (b b' : Aabb3 K) :
    letI := fieldNum K sq
    boxContains b b' = true → boxContains (b.transformBy m) (b'.transformBy m) = true := by
  letI := fieldNum K sq
  intro h
  rw [boxContains_iff'] at h ⊢
  obtain ⟨⟨a1, a2, a3⟩, a4, a5, a6⟩ := h
  have hl : ((mkRat 1 2 : Rat) : K) = 1/2 := by norm_num
  obtain ⟨cx, cy, cz⟩ := C09.rot_eq_mat sq m (@Aabb3.center K (fieldNum K sq) b) hq
  obtain ⟨cx', cy', cz'⟩ := C09.rot_eq_mat sq m (@Aabb3.center K (fieldNum K sq) b') hq
  simp only [Aabb3.transformBy, Iso3.act, V3.add, V3.neg, cx, cy, cz, cx', cy', cz']
  simp only [Iso3.absTransform, Aabb3.halfExtents, Aabb3.center, V3.center, V3.add, V3.sub, V3.smul, fieldNum_nabs, fieldNum_lit, hl]
  generalize (@Iso3.mat K (fieldNum K sq) m).1.x = r00; generalize (@Iso3.mat K (fieldNum K sq) m).1.y = r01
  generalize (@Iso3.mat K (fieldNum K sq) m).1.z = r02
  generalize (@Iso3.mat K (fieldNum K sq) m).2.1.x = r10; generalize (@Iso3.mat K (fieldNum K sq) m).2.1.y = r11
  generalize (@Iso3.mat K (fieldNum K sq) m).2.1.z = r12
  generalize (@Iso3.mat K (fieldNum K sq) m).2.2.x = r20; generalize (@Iso3.mat K (fieldNum K sq) m).2.2.y = r21
  generalize (@Iso3.mat K (fieldNum K sq) m).2.2.z = r22
  have kx := coord_mono r00 r01 r02 m.t.x _ _ _ _ _ _ _ _ _ _ _ _ a1 a2 a3 a4 a5 a6
  have ky := coord_mono r10 r11 r12 m.t.y _ _ _ _ _ _ _ _ _ _ _ _ a1 a2 a3 a4 a5 a6
  have kz := coord_mono r20 r21 r22 m.t.z _ _ _ _ _ _ _ _ _ _ _ _ a1 a2 a3 a4 a5 a6
  refine ⟨⟨?_, ?_, ?_⟩, ?_, ?_, ?_⟩
  · have := kx.1; linarith
  · have := ky.1; linarith
  · have := kz.1; linarith
  · have := kx.2; linarith
  · have := ky.2; linarith
  · have := kz.2; linarith

/-- the laws of the traversal argument with a relative pose given by a unit quaternion -/
theorem bvttLaws_pose (m : Iso3 K) (hq : m.qi * m.qi + m.qj * m.qj + m.qk * m.qk + m.qw * m.qw = 1) :
    @BvttLaws K (fieldNum K sq) (some m) := by
  letI := fieldNum K sq
  exact ⟨boxLaws_fieldNum sq, boxIntersects_mono2 sq, fun b b' h => transformBy_mono sq m hq b b' h⟩

/-- **`bvtt_complete`: the simultaneous traversal of two valid trees visits every intersecting pair of live leaves.**
Exact arithmetic over any linearly ordered field; relative pose absent or given by a unit quaternion.  If both trees
satisfy `Inv` and `BoxInv` (the state after `refit`) and the sequential traversal `traverse_bvtt` with
`BoundingVolumeIntersectionsSimultaneousVisitor` returns `res`, then for every pair of attached leaves whose CURRENT boxes
intersect (the second one posed) the pair of their data is in `res`.  By `bvtt_schedule_independent` the same holds for
the visited set of the parallel traversal under every schedule. -/
theorem bvtt_complete (q1 q2 : Q K) (pos : Option (Iso3 K)) (cur1 cur2 : Nat → Aabb3 K) (res : List (Nat × Nat)) :
    letI := fieldNum K sq
    (∀ m, pos = some m → m.qi * m.qi + m.qj * m.qj + m.qk * m.qk + m.qw * m.qw = 1) →
    Inv q1 → Inv q2 → BoxInv q1 cur1 → BoxInv q2 cur2 → traverseBvtt q1 q2 pos = some res →
    ∀ (p1 p2 : Nat) (pr1 pr2 : Proxy), q1.proxies[p1]? = some pr1 → q2.proxies[p2]? = some pr2 →
      pr1.node ≠ MAXN → pr2.node ≠ MAXN → boxIntersects (cur1 pr1.data) (posedBox pos (cur2 pr2.data)) = true →
      (pr1.data, pr2.data) ∈ res := by
  letI := fieldNum K sq
  intro hq h1 h2 b1 b2 hres p1 p2 pr1 pr2 hp1 hp2 a1 a2 hint
  have bl : @BvttLaws K (fieldNum K sq) pos := by
    cases pos with
    | none => exact bvttLaws_none sq
    | some m => exact bvttLaws_pose sq m (hq m rfl)
  exact (traverseBvtt_spec q1 q2 pos res hres _).2
    (bvtt_complete_set bl q1 q2 cur1 cur2 h1 h2 b1 b2 p1 p2 pr1 pr2 hp1 hp2 a1 a2 hint)

end boxes

/-! ## Decided witnesses (exact rational arithmetic, kernel evaluation of the model) -/
section examples

/-- unit box number `i` of a 4-wide grid with pitch 3 -/
def cellB (i : Nat) : Aabb3 ℚ :=
  ⟨⟨3 * (i % 4 : Nat), 3 * (i / 4 : Nat), 0⟩, ⟨3 * (i % 4 : Nat) + 1, 3 * (i / 4 : Nat) + 1, 1⟩⟩

/-- a tree with two leaves — one leaf node whose lanes 2 and 3 are empty (invalid boxes) -/
def smallTree : Option (Q ℚ) := rebuild Q.empty [(0, cellB 1), (1, cellB 5)] 0
/-- a deeper tree with six leaves (root, one internal node, four leaf nodes) -/
def deepTree : Option (Q ℚ) := rebuild Q.empty ((List.range 6).map fun i => (i, cellB i)) 0

/-- **trees of different depth, shallow one first** (the (leaf, internal) arm decides): both overlapping pairs are found
although the LAST lane of the shallow tree's leaf node is empty — with `bitmask = mask[ii]` instead of `bitmask |= mask[ii]`
(seeded/C08-agentb-m3) nothing would be descended into -/
theorem bvtt_shallow_first :
    (smallTree.bind fun a => deepTree.bind fun b => traverseBvtt a b none) = some [(1, 5), (0, 1)] := by
  decide +kernel

/-- the same two trees in the other order (the (internal, leaf) arm decides) -/
theorem bvtt_deep_first :
    (smallTree.bind fun a => deepTree.bind fun b => traverseBvtt b a none) = some [(5, 1), (1, 0)] := by
  decide +kernel

end examples

end C08
