import ParryModel.C09.Model
/-!
# C08 model: the QBVH state machine (`src/partitioning/qbvh/{qbvh,update}.rs`)

Literal transliteration of `Qbvh<u32>`: `nodes` (4 children with the `u32::MAX` sentinel, parent `(index, lane)`,
LEAF/CHANGED/DIRTY flags, four lane boxes = the non-SIMD `SimdAabb`), `proxies`, `dirty_nodes`, `free_list`, `root_aabb`.
Every Rust `v[i]` is `a[i]?` with an explicit panic branch (`none` of the outer `Option`), every `v.get(i)` is `a[i]?`,
updates are `setIfInBounds`.  `Vec` used as a stack (`dirty_nodes`, `free_list`) is a `List` whose **head is the top**
(last pushed, first popped).  Indices are `Nat` (the `as u32` truncations are not modelled: sizes `< 2^32`).
-/
namespace Model
namespace Qbvh
variable {K : Type} [Num K]

/-- `u32::MAX`: the "no child" / "detached" sentinel -/
def MAXN : Nat := 4294967295

/-- `Real::MAX` (`f64::MAX = 2^1024 - 2^971`) -/
@[irreducible] def big : K := Num.ofRat (((2 : Int) ^ 1024 - (2 : Int) ^ 971 : Int) : Rat)

/-- `Aabb::new_invalid()` : mins = +MAX, maxs = -MAX -/
def invalidBox : Aabb3 K := ⟨⟨big, big, big⟩, ⟨-big, -big, -big⟩⟩

/-- one `QbvhNode` -/
structure Node (K : Type) where
  boxes : Vector (Aabb3 K) 4
  children : Vector Nat 4
  parent : Nat
  plane : Nat
  leaf : Bool
  changed : Bool
  dirty : Bool

/-- one `QbvhProxy<u32>` -/
structure Proxy where
  node : Nat
  lane : Nat
  data : Nat
deriving BEq, Repr

structure Q (K : Type) where
  rootAabb : Aabb3 K
  nodes : Array (Node K)
  dirtyNodes : List Nat
  freeList : List Nat
  proxies : Array Proxy

/-- `Qbvh::new()` -/
def Q.empty : Q K := ⟨invalidBox, #[], [], [], #[]⟩

/-- `QbvhProxy::invalid()` -/
def invalidProxy : Proxy := ⟨MAXN, 0, MAXN⟩

/-- `QbvhNode::empty()` -/
def emptyNode : Node K :=
  ⟨Vector.replicate 4 invalidBox, Vector.replicate 4 MAXN, MAXN, 0, false, false, false⟩
/-- `QbvhNode::empty_leaf_with_parent(NodeIndex::new(p, l))` -/
def emptyLeaf (p l : Nat) : Node K := { (emptyNode : Node K) with parent := p, plane := l, leaf := true }

/-! ## `SimdAabb` on four scalar lanes -/

/-- `SimdAabb::to_merged_aabb`: `simd_horizontal_min/max` = left fold over the lanes -/
def mergedBox (b : Vector (Aabb3 K) 4) : Aabb3 K :=
  ⟨⟨nmin (nmin (nmin b[0].mins.x b[1].mins.x) b[2].mins.x) b[3].mins.x,
    nmin (nmin (nmin b[0].mins.y b[1].mins.y) b[2].mins.y) b[3].mins.y,
    nmin (nmin (nmin b[0].mins.z b[1].mins.z) b[2].mins.z) b[3].mins.z⟩,
   ⟨nmax (nmax (nmax b[0].maxs.x b[1].maxs.x) b[2].maxs.x) b[3].maxs.x,
    nmax (nmax (nmax b[0].maxs.y b[1].maxs.y) b[2].maxs.y) b[3].maxs.y,
    nmax (nmax (nmax b[0].maxs.z b[1].maxs.z) b[2].maxs.z) b[3].maxs.z⟩⟩

/-- one lane of `SimdAabb::loosen(margin)`: `mins -= margin; maxs += margin` -/
def loosenBox (m : K) (b : Aabb3 K) : Aabb3 K :=
  ⟨⟨b.mins.x - m, b.mins.y - m, b.mins.z - m⟩, ⟨b.maxs.x + m, b.maxs.y + m, b.maxs.z + m⟩⟩

/-- one lane of `SimdAabb::contains` (dim3) -/
def boxContains (a b : Aabb3 K) : Bool :=
  decide (a.mins.x ≤ b.mins.x) && decide (a.mins.y ≤ b.mins.y) && decide (a.mins.z ≤ b.mins.z) &&
  decide (b.maxs.x ≤ a.maxs.x) && decide (b.maxs.y ≤ a.maxs.y) && decide (b.maxs.z ≤ a.maxs.z)

/-- `a.contains(&b).all()` -/
def containsAll (a b : Vector (Aabb3 K) 4) : Bool :=
  boxContains a[0] b[0] && boxContains a[1] b[1] && boxContains a[2] b[2] && boxContains a[3] b[3]

/-! ## `Qbvh::remove` -/

/-- `Qbvh::remove(data)`.  Outer `none` = index panic (`node.children[lane]` with `lane ≥ 4`);
the `Bool` is `is_some()` of the Rust return value. -/
def remove (q : Q K) (id : Nat) : Option (Q K × Bool) :=
  match q.proxies[id]? with
  | none => some (q, false)
  | some pr =>
    match q.nodes[pr.node]? with
    | none => some (q, false)
    | some nd =>
      if pr.lane < 4 then
        let nd1 : Node K := { nd with children := nd.children.setIfInBounds pr.lane MAXN }
        let nd2 : Node K := { nd1 with dirty := true }
        let dl := if nd.dirty then q.dirtyNodes else pr.node :: q.dirtyNodes
        some ({ q with nodes := q.nodes.setIfInBounds pr.node nd2,
                       dirtyNodes := dl,
                       proxies := q.proxies.setIfInBounds id invalidProxy }, true)
      else none

/-! ## `Qbvh::pre_update_or_insert` -/

/-- first block: create the root and its first leaf when the tree is empty -/
def ensureRoot (q : Q K) : Q K :=
  if q.nodes.size = 0 then
    { q with nodes := #[{ (emptyNode : Node K) with children := #v[1, MAXN, MAXN, MAXN] }, emptyLeaf 0 0] }
  else q

/-- `proxies.resize(id + 1, invalid)` when too short, then `proxy.data = data` -/
def ensureProxy (q : Q K) (id : Nat) : Q K :=
  let ps := if q.proxies.size ≤ id then q.proxies ++ Array.replicate (id + 1 - q.proxies.size) invalidProxy
            else q.proxies
  match ps[id]? with
  | some pr => { q with proxies := ps.setIfInBounds id { pr with data := id } }
  | none => { q with proxies := ps }

/-- first lane `kk` with `children[kk] == u32::MAX` -/
def firstFree (ch : Vector Nat 4) : Option Nat :=
  if ch[0] = MAXN then some 0 else if ch[1] = MAXN then some 1
  else if ch[2] = MAXN then some 2 else if ch[3] = MAXN then some 3 else none

/-- "Missing node, create it": push an empty leaf with parent `(0, ii)` and store its index in the root's lane `ii` -/
def addRootLeaf (q : Q K) (root : Node K) (ii : Nat) : Q K :=
  { q with nodes := (q.nodes.push (emptyLeaf 0 ii)).setIfInBounds 0
              { root with children := root.children.setIfInBounds ii q.nodes.size } }

/-- "Insert into this node if there is room": lane `kk` of leaf `child` (= `cn`) takes proxy `id` -/
def attachProxy (q : Q K) (id child kk : Nat) (cn : Node K) : Q K :=
  let cn1 : Node K := { cn with children := cn.children.setIfInBounds kk id, dirty := true }
  let dl := if cn.dirty then q.dirtyNodes else child :: q.dirtyNodes
  let ps := match q.proxies[id]? with
    | some pr => q.proxies.setIfInBounds id { pr with node := child, lane := kk }
    | none => q.proxies
  { q with nodes := q.nodes.setIfInBounds child cn1, dirtyNodes := dl, proxies := ps }

/-- the `for ii in 0..SIMD_WIDTH` loop over the root's lanes (second path).
`none` = index panic; `(q, true)` = the proxy was attached and the function returned. -/
def attachLoop (id : Nat) : List Nat → Q K → Option (Q K × Bool)
  | [], q => some (q, false)
  | ii :: rest, q =>
    match q.nodes[0]? with
    | none => none
    | some root =>
      match root.children[ii]? with
      | none => none
      | some child0 =>
        let q1 : Q K := if child0 = MAXN then addRootLeaf q root ii else q
        let child := if child0 = MAXN then q.nodes.size else child0
        match q1.nodes[child]? with
        | none => none
        | some cn =>
          if !cn.leaf then attachLoop id rest q1
          else match firstFree cn.children with
            | none => attachLoop id rest q1
            | some kk => some (attachProxy q1 id child kk cn, true)

/-- `if let Some(child_node) = self.nodes.get_mut(child_id) { child_node.parent.index = parent_index }` -/
def reparent (ns : Array (Node K)) (c L : Nat) : Array (Node K) :=
  match ns[c]? with
  | some cn => ns.setIfInBounds c { cn with parent := L }
  | none => ns

/-- the node array after the root split: children of the old root re-parented to the new slot `L = nodes.len()`,
the old root copied to `L` with parent `(0,0)`, a new leaf `L+1` with parent `(0,1)` holding `id`,
and the root's children replaced by `[L, L+1, MAX, MAX]` -/
def splitNodes (q : Q K) (root : Node K) (id : Nat) : Array (Node K) :=
  let L := q.nodes.size
  let oldRoot : Node K := { root with parent := 0, plane := 0 }
  let ns1 := reparent (reparent (reparent (reparent q.nodes root.children[0] L) root.children[1] L)
                root.children[2] L) root.children[3] L
  let newLeaf : Node K := { (emptyLeaf 0 1 : Node K) with children := #v[id, MAXN, MAXN, MAXN], dirty := true }
  let ns2 := (ns1.push oldRoot).push newLeaf
  match ns2[0]? with
  | some r0 => ns2.setIfInBounds 0 { r0 with children := #v[L, L + 1, MAXN, MAXN] }
  | none => ns2

/-- third path as on the pinned tree: the four root lanes are full — move the old root to a new slot and grow a
new root.  Only the new leaf is queued for refit. -/
def splitRootPinned (q : Q K) (id : Nat) : Option (Q K) :=
  match q.nodes[0]? with
  | none => none
  | some root =>
    let L := q.nodes.size
    let ps := match q.proxies[id]? with
      | some pr => q.proxies.setIfInBounds id { pr with node := L + 1, lane := 0 }
      | none => q.proxies
    some { q with nodes := splitNodes q root id, dirtyNodes := (L + 1) :: q.dirtyNodes, proxies := ps }

/-- the correction (fixes/C08-root-split-refit.diff): after the split the root's lane boxes are stale (lane 0 now
holds the whole old root), so the root must be queued for refit; if the old root was already queued (index 0 stays
in `dirty_nodes`), its moved copy `L` carries the DIRTY flag and needs its own entry. -/
def scheduleRoot (wasDirty : Bool) (L : Nat) (q1 : Q K) : Q K :=
  if wasDirty then { q1 with dirtyNodes := L :: q1.dirtyNodes }
  else match q1.nodes[0]? with
    | some r => { q1 with nodes := q1.nodes.setIfInBounds 0 { r with dirty := true }, dirtyNodes := 0 :: q1.dirtyNodes }
    | none => q1

/-- third path. `fixRoot = false` is the pinned-tree behaviour; `fixRoot = true` adds `scheduleRoot`. -/
def splitRoot (fixRoot : Bool) (q : Q K) (id : Nat) : Option (Q K) :=
  match q.nodes[0]? with
  | none => none
  | some root =>
    (splitRootPinned q id).map fun q1 => if fixRoot then scheduleRoot root.dirty q.nodes.size q1 else q1

/-- `node.set_dirty(true); self.dirty_nodes.push(n)` -/
def markDirty (q : Q K) (n : Nat) (nd : Node K) : Q K :=
  { q with nodes := q.nodes.setIfInBounds n { nd with dirty := true }, dirtyNodes := n :: q.dirtyNodes }

/-- `Qbvh::pre_update_or_insert(data)`; `none` = index panic. -/
def preUpdateOrInsert (fixRoot : Bool) (q : Q K) (id : Nat) : Option (Q K) :=
  let q1 := ensureProxy (ensureRoot q) id
  match q1.proxies[id]? with
  | none => none
  | some pr =>
    if pr.node = MAXN then
      match attachLoop id [0, 1, 2, 3] q1 with
      | none => none
      | some (q2, true) => some q2
      | some (q2, false) => splitRoot fixRoot q2 id
    else
      match q1.nodes[pr.node]? with
      | none => none
      | some nd =>
        if nd.dirty then some q1 else some (markDirty q1 pr.node nd)

/-! ## `Qbvh::refit` -/

/-- the `new_aabbs` array of one node: leaf lanes from `aabb_builder(&proxy.data)`, internal lanes from
the child's `to_merged_aabb()`; missing children give `Aabb::new_invalid()` -/
def freshBoxes (q : Q K) (cur : Nat → Aabb3 K) (nd : Node K) : Vector (Aabb3 K) 4 :=
  nd.children.map fun c =>
    if nd.leaf then
      match q.proxies[c]? with
      | some pr => cur pr.data
      | none => invalidBox
    else
      match q.nodes[c]? with
      | some cn => mergedBox cn.boxes
      | none => invalidBox

/-- `if let Some(parent) = self.nodes.get_mut(parent_id) { if !parent.is_dirty() { push; set_dirty(true) } }` -/
def flagParent (q1 : Q K) (p : Nat) (parents : List Nat) : Q K × List Nat :=
  match q1.nodes[p]? with
  | some pn =>
    if !pn.dirty then
      ({ q1 with nodes := q1.nodes.setIfInBounds p { pn with dirty := true } }, p :: parents)
    else (q1, parents)
  | none => (q1, parents)

/-- body of the inner `while let Some(id) = self.dirty_nodes.pop()` loop.
State: the tree, `workspace.dirty_parent_nodes` (head = last pushed), `num_changed`. -/
def refitNode (cur : Nat → Aabb3 K) (margin : K) (first : Bool) (st : Q K × List Nat × Nat) (id : Nat) :
    Q K × List Nat × Nat :=
  let (q, parents, num) := st
  match q.nodes[id]? with
  | none => (q, parents, num)
  | some nd =>
    let fresh := freshBoxes q cur nd
    if !first || !(containsAll nd.boxes fresh) then
      let nd2 : Node K := { nd with dirty := false, changed := true, boxes := fresh.map (loosenBox margin) }
      let q1 : Q K := { q with nodes := q.nodes.setIfInBounds id nd2 }
      let r := flagParent q1 nd2.parent parents
      (r.1, r.2, num + 1)
    else ({ q with nodes := q.nodes.setIfInBounds id { nd with dirty := false } }, parents, num)

/-- one pass of the outer `while !self.dirty_nodes.is_empty()` loop: drain the work list, then swap -/
def refitRound (cur : Nat → Aabb3 K) (margin : K) (first : Bool) (q : Q K) (num : Nat) : Q K × Nat :=
  let r := q.dirtyNodes.foldl (refitNode cur margin first) ({ q with dirtyNodes := [] }, [], num)
  ({ r.1 with dirtyNodes := r.2.1 }, r.2.2)

/-- the outer loop with explicit fuel; `none` = the fuel ran out with work left (the Rust loop has no cap) -/
def refitLoop (cur : Nat → Aabb3 K) (margin : K) : Nat → Bool → Q K → Nat → Option (Q K × Nat)
  | 0, _, q, num => if q.dirtyNodes.isEmpty then some (q, num) else none
  | fuel + 1, first, q, num =>
    if q.dirtyNodes.isEmpty then some (q, num)
    else
      let r := refitRound cur margin first q num
      refitLoop cur margin fuel false r.1 r.2

/-- `Qbvh::refit` as on the pinned tree: the two loops only, `root_aabb` is left as it was.  Fuel `nodes.size + 2` passes. -/
def refitPinned (q : Q K) (cur : Nat → Aabb3 K) (margin : K) : Option (Q K × Nat) :=
  refitLoop cur margin (q.nodes.size + 2) true q 0

/-- the correction (fixes/C08-refit-root-aabb.diff), last statement of `refit`:
`if let Some(root) = self.nodes.first() { self.root_aabb = root.simd_aabb.to_merged_aabb(); }` — on the pinned tree
`root_aabb` is written by `clear_and_rebuild` and `rebalance` only and is stale after insert / remove / refit. -/
def syncRootAabb (q : Q K) : Q K :=
  match q.nodes[0]? with
  | some r => { q with rootAabb := mergedBox r.boxes }
  | none => q

/-- `Qbvh::refit(margin, workspace, aabb_builder)` → `(tree, num_changed)` (corrected: `root_aabb` follows the root node) -/
def refit (q : Q K) (cur : Nat → Aabb3 K) (margin : K) : Option (Q K × Nat) :=
  (refitPinned q cur margin).map fun r => (syncRootAabb r.1, r.2)

/-! ## Histories -/

inductive Op (K : Type) where
  /-- the leaf's current box becomes `box`, then `pre_update_or_insert(id)` -/
  | insert (id : Nat) (box : Aabb3 K)
  | remove (id : Nat)
  | refit (margin : K)

/-- the tree together with the user's current leaf boxes (what `aabb_builder` reads) -/
structure World (K : Type) where
  q : Q K
  cur : Nat → Aabb3 K

def World.empty : World K := ⟨Q.empty, fun _ => invalidBox⟩

/-- one operation; `none` = panic or non-termination -/
def step (fixRoot : Bool) (w : World K) : Op K → Option (World K)
  | .insert id box =>
    let cur' := fun d => if d = id then box else w.cur d
    (preUpdateOrInsert fixRoot w.q id).map fun q' => ⟨q', cur'⟩
  | .remove id => (remove w.q id).map fun r => ⟨r.1, w.cur⟩
  | .refit m => (refit w.q w.cur m).map fun r => ⟨r.1, w.cur⟩

def run (fixRoot : Bool) : World K → List (Op K) → Option (World K)
  | w, [] => some w
  | w, op :: ops => match step fixRoot w op with
    | none => none
    | some w' => run fixRoot w' ops

/-! ## The invariant as an executable check (`check_topology`, strengthened) -/

/-- follow parent pointers to the root: number of steps, `none` if the root is not reached within the fuel -/
def climb (q : Q K) : Nat → Nat → Option Nat
  | _, 0 => some 0
  | 0, _ + 1 => none
  | fuel + 1, n + 1 =>
    match q.nodes[n + 1]? with
    | none => none
    | some nd => (climb q fuel nd.parent).map (· + 1)

def isLive (q : Q K) (n : Nat) : Bool := !(q.freeList.contains n)

/-- I0: the root, if any, is a live internal node -/
def checkRoot (q : Q K) : Bool :=
  q.nodes.size == 0 ||
    (match q.nodes[0]? with
     | some r => !r.leaf
     | none => false) && isLive q 0

/-- I1: every non-sentinel child of a live internal node is a live, non-root node pointing back -/
def checkChildren (q : Q K) : Bool :=
  (List.range q.nodes.size).all fun n =>
    match q.nodes[n]? with
    | none => true
    | some nd =>
      !isLive q n || nd.leaf ||
      (List.range 4).all fun l =>
        match nd.children[l]? with
        | none => true
        | some c =>
          c == MAXN ||
          (c != 0 && isLive q c &&
            match q.nodes[c]? with
            | some cn => cn.parent == n && cn.plane == l
            | none => false)

/-- I2: every live non-root node is the `plane`-th child of its live internal parent -/
def checkParents (q : Q K) : Bool :=
  (List.range q.nodes.size).all fun n =>
    match q.nodes[n]? with
    | none => true
    | some nd =>
      !isLive q n || n == 0 ||
      (isLive q nd.parent &&
        match q.nodes[nd.parent]? with
        | some pn => !pn.leaf && pn.children[nd.plane]? == some n
        | none => false)

/-- I3a: every non-sentinel lane of a live leaf names a proxy pointing back at that lane -/
def checkLeafProxy (q : Q K) : Bool :=
  (List.range q.nodes.size).all fun n =>
    match q.nodes[n]? with
    | none => true
    | some nd =>
      !isLive q n || !nd.leaf ||
      (List.range 4).all fun l =>
        match nd.children[l]? with
        | none => true
        | some p =>
          p == MAXN ||
          match q.proxies[p]? with
          | some pr => pr.node == n && pr.lane == l
          | none => false

/-- I3b: every attached proxy points at a lane of a live leaf that names it -/
def checkProxyLeaf (q : Q K) : Bool :=
  (List.range q.proxies.size).all fun p =>
    match q.proxies[p]? with
    | none => true
    | some pr =>
      pr.node == MAXN ||
      (isLive q pr.node &&
        match q.nodes[pr.node]? with
        | some nd => nd.leaf && nd.children[pr.lane]? == some p
        | none => false)

/-- I4: from every live node the parent chain reaches the root (no cycles) -/
def checkDepth (q : Q K) : Bool :=
  (List.range q.nodes.size).all fun n => !isLive q n || (climb q q.nodes.size n).isSome

/-- I5: the free list has no duplicates -/
def checkFree : List Nat → Bool
  | [] => true
  | x :: xs => !(xs.contains x) && checkFree xs

/-- I5': free-list entries are node indices -/
def checkFreeBound (q : Q K) : Bool := q.freeList.all fun n => decide (n < q.nodes.size)

def checkInv (q : Q K) : Bool :=
  checkRoot q && checkChildren q && checkParents q && checkLeafProxy q && checkProxyLeaf q && checkDepth q &&
  checkFree q.freeList && checkFreeBound q && decide (q.nodes.size ≤ MAXN) && decide (q.proxies.size ≤ MAXN)

/-- the root carries `NodeIndex::invalid()` as its parent (what stops `refit` at the root) -/
def checkRootParent (q : Q K) : Bool :=
  match q.nodes[0]? with
  | some r => r.parent == MAXN
  | none => true

/-- D: a node flagged DIRTY is queued in `dirty_nodes` -/
def checkDirty (q : Q K) : Bool :=
  (List.range q.nodes.size).all fun n =>
    match q.nodes[n]? with
    | none => true
    | some nd => !nd.dirty || q.dirtyNodes.contains n

/-- lane boxes of node `n` are up to date: every occupied lane's box contains what is below it
(leaf: the current box of the proxy; internal: every occupied lane box of the child) -/
def goodNode (q : Q K) (cur : Nat → Aabb3 K) (nd : Node K) : Bool :=
  (List.range 4).all fun l =>
    match nd.children[l]?, nd.boxes[l]? with
    | some c, some b =>
      c == MAXN ||
      (if nd.leaf then
        match q.proxies[c]? with
        | some pr => boxContains b (cur pr.data)
        | none => true
      else
        match q.nodes[c]? with
        | some cn =>
          (List.range 4).all fun l' =>
            match cn.children[l']?, cn.boxes[l']? with
            | some c', some b' => c' == MAXN || boxContains b b'
            | _, _ => true
        | none => true)
    | _, _ => true

/-- B (semantic form): every live node is good -/
def checkBox (q : Q K) (cur : Nat → Aabb3 K) : Bool :=
  (List.range q.nodes.size).all fun n =>
    match q.nodes[n]? with
    | none => true
    | some nd => !isLive q n || goodNode q cur nd

/-- B (the form `refit` itself tests, `C08.BoxInv`): the lane boxes of every live node contain the boxes refit
would compute for it now (occupied lanes: what is below; empty lanes: the invalid box) -/
def checkFresh (q : Q K) (cur : Nat → Aabb3 K) : Bool :=
  (List.range q.nodes.size).all fun n =>
    match q.nodes[n]? with
    | none => true
    | some nd => !isLive q n || containsAll nd.boxes (freshBoxes q cur nd)

/-- attached proxies carry their own index as data (`proxy.data = data`, `data.index() = id`) -/
def checkData (q : Q K) : Bool :=
  (List.range q.proxies.size).all fun p =>
    match q.proxies[p]? with
    | none => true
    | some pr => pr.node == MAXN || pr.data == p

/-- T: every live node is up to date or queued for refit (`C08.Tracked`) -/
def checkTracked (q : Q K) (cur : Nat → Aabb3 K) : Bool :=
  (List.range q.nodes.size).all fun n =>
    match q.nodes[n]? with
    | none => true
    | some nd => !isLive q n || containsAll nd.boxes (freshBoxes q cur nd) || (nd.dirty && q.dirtyNodes.contains n)

/-- depth-first collection of the proxies reachable from node `n` through valid children (fuel = tree height bound) -/
def collect (q : Q K) : Nat → Nat → List Nat
  | 0, _ => []
  | fuel + 1, n =>
    match q.nodes[n]? with
    | none => []
    | some nd =>
      if nd.leaf then nd.children.toList.filter (· != MAXN)
      else nd.children.toList.flatMap fun c => if c == MAXN then [] else collect q fuel c

/-! ## `Qbvh::intersect_aabb` (traversal.rs) -/

/-- one lane of `SimdAabb::intersects` (dim3) -/
def boxIntersects (a b : Aabb3 K) : Bool :=
  decide (a.mins.x ≤ b.maxs.x) && decide (b.mins.x ≤ a.maxs.x) &&
  decide (a.mins.y ≤ b.maxs.y) && decide (b.mins.y ≤ a.maxs.y) &&
  decide (a.mins.z ≤ b.maxs.z) && decide (b.mins.z ≤ a.maxs.z)

/-- the `for ii in 0..SIMD_WIDTH` body for one popped node: new stack (head = top) and output (reversed) -/
def intersectLanes (q : Q K) (b : Aabb3 K) (nd : Node K) (stack out : List Nat) : List Nat × List Nat :=
  [0, 1, 2, 3].foldl (fun (so : List Nat × List Nat) ii =>
    match nd.boxes[ii]?, nd.children[ii]? with
    | some bx, some c =>
      if boxIntersects bx b then
        if nd.leaf then
          match q.proxies[c]? with
          | some pr => (so.1, pr.data :: so.2)
          | none => so
        else if c ≤ q.nodes.size then (c :: so.1, so.2) else so
      else so
    | _, _ => so) (stack, out)

/-- `Qbvh::intersect_aabb`: outer `none` = index panic (`self.nodes[inode]`) or fuel exhausted;
result = `out` in push order -/
def intersectLoop (q : Q K) (b : Aabb3 K) : Nat → List Nat → List Nat → Option (List Nat)
  | _, [], out => some out.reverse
  | 0, _ :: _, _ => none
  | fuel + 1, inode :: stack, out =>
    match q.nodes[inode]? with
    | none => none
    | some nd =>
      let r := intersectLanes q b nd stack out
      intersectLoop q b fuel r.1 r.2

def intersectAabb (q : Q K) (b : Aabb3 K) : Option (List Nat) :=
  if q.nodes.size = 0 then some [] else intersectLoop q b (4 * q.nodes.size + 8) [0] []

/-! ## `Qbvh::traverse_bvtt_with_stack` with `BoundingVolumeIntersectionsSimultaneousVisitor` (traversal.rs) -/

/-- one lane of `SimdAabb::transform_by` (the visitor's `right_bv.transform_by(pos12)`) -/
def posedBox (pos : Option (Iso3 K)) (b : Aabb3 K) : Aabb3 K :=
  match pos with
  | some m => b.transformBy m
  | none => b

/-- `left_bv.intersects_permutations(right_bv)`: `mask ii jj` -/
def pairMask (pos : Option (Iso3 K)) (n1 n2 : Node K) (ii jj : Nat) : Bool :=
  match n1.boxes[ii]?, n2.boxes[jj]? with
  | some a, some b => boxIntersects a (posedBox pos b)
  | _, _ => false

def lanes4 : List Nat := [0, 1, 2, 3]

/-- one popped entry `(e1, e2)`: the leaf pairs reported by the visitor (appended to `out`, reversed) and the entries pushed
(head = top of the stack).  `none` = index panic. -/
def bvttVisit (q1 q2 : Q K) (pos : Option (Iso3 K)) (e1 e2 : Nat) (stack : List (Nat × Nat)) (out : List (Nat × Nat)) :
    Option (List (Nat × Nat) × List (Nat × Nat)) :=
  match q1.nodes[e1]?, q2.nodes[e2]? with
  | some n1, some n2 =>
    let child (nd : Node K) (l : Nat) : Nat := (nd.children[l]?).getD MAXN
    -- visitor: leaf/leaf → callback on every occupied lane pair whose boxes intersect
    let out1 :=
      if n1.leaf && n2.leaf then
        lanes4.foldl (fun o ii =>
          match q1.proxies[child n1 ii]? with
          | none => o
          | some p1 =>
            lanes4.foldl (fun o jj =>
              match q2.proxies[child n2 jj]? with
              | none => o
              | some p2 => if pairMask pos n1 n2 ii jj then (p1.data, p2.data) :: o else o) o) out
      else out
    let stack1 :=
      if n1.leaf && n2.leaf then stack
      else if n1.leaf then
        lanes4.foldl (fun st jj =>
          if lanes4.any (fun ii => pairMask pos n1 n2 ii jj) && decide (child n2 jj ≤ q2.nodes.size) then (e1, child n2 jj) :: st else st) stack
      else if n2.leaf then
        lanes4.foldl (fun st ii =>
          if lanes4.any (fun jj => pairMask pos n1 n2 ii jj) && decide (child n1 ii ≤ q1.nodes.size) then (child n1 ii, e2) :: st else st) stack
      else
        lanes4.foldl (fun st ii =>
          lanes4.foldl (fun st jj =>
            if pairMask pos n1 n2 ii jj && decide (child n1 ii ≤ q1.nodes.size) && decide (child n2 jj ≤ q2.nodes.size)
            then (child n1 ii, child n2 jj) :: st else st) st) stack
    some (stack1, out1)
  | _, _ => none

/-- the `while let Some(entry) = stack.pop()` loop; `none` = index panic or fuel exhausted -/
def bvttLoop (q1 q2 : Q K) (pos : Option (Iso3 K)) : Nat → List (Nat × Nat) → List (Nat × Nat) → Option (List (Nat × Nat))
  | _, [], out => some out.reverse
  | 0, _ :: _, _ => none
  | fuel + 1, (e1, e2) :: stack, out =>
    match bvttVisit q1 q2 pos e1 e2 stack out with
    | none => none
    | some r => bvttLoop q1 q2 pos fuel r.1 r.2

/-- `q1.traverse_bvtt(&q2, &mut BoundingVolumeIntersectionsSimultaneousVisitor::…)`: the reported pairs in order -/
def traverseBvtt (q1 q2 : Q K) (pos : Option (Iso3 K)) : Option (List (Nat × Nat)) :=
  if q1.nodes.size = 0 || q2.nodes.size = 0 then some []
  else bvttLoop q1 q2 pos (16 * (q1.nodes.size + 1) * (q2.nodes.size + 1)) [(0, 0)] []

end Qbvh
end Model
