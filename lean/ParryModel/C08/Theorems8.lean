import ParryModel.Field
import ParryModel.C08.TopoLemmas
import ParryModel.C08.FieldLemmas
import ParryModel.C08.Theorems7
/-!
# C08 property theorems, part 8: the observation points — `check_topology`, `node_aabb` / `leaf_data`, `scaled`
-/
namespace C08
open Model Model.Qbvh

section structural
variable {K : Type} [Num K]

/-- **`checkTopology_passes`: `Inv ⇒ check_topology` passes.**  The maintainers' validator `Qbvh::check_topology`
(transliterated with every `assert!`: no node reached twice, parent ↔ child indices, CHANGED propagated to the parent,
no proxy reached twice, proxy back-references, as many proxies reached as are attached; with `check_aabbs`: the parent's
lane box contains the merged box of the node and a leaf lane's box contains `aabb_builder(leaf)`) returns normally on
every state satisfying `Inv` and `ChangedUp`, and with `check_aabbs = true` on every such state satisfying `BoxInv`.
Its loop needs no fuel: every pop marks a fresh slot of `node_id_found`. -/
theorem checkTopology_passes (q : Q K) (cur : Nat → Aabb3 K) (aabbs : Bool) (hinv : Inv q) (hch : ChangedUp q)
    (hbox : aabbs = true → BoxInv q cur) : checkTopology q cur aabbs = true := by
  unfold checkTopology
  by_cases hpos : q.nodes.size = 0
  · simp [hpos]
  · rw [if_neg hpos]
    obtain ⟨d, hd⟩ := hinv.depth
    have hd' : IsDepth q d := hd
    have I0 : CtInv q [0] [] (Array.replicate q.nodes.size false) (Array.replicate q.proxies.size false) := by
      refine ⟨Front.root hinv (by omega), by simp, ?_, by simp, ?_, ?_⟩
      · intro n
        simp only [List.not_mem_nil, iff_false]
        rw [Array.getElem?_replicate]
        split <;> simp
      · intro x
        rw [Array.getElem?_replicate]
        constructor
        · intro h; split at h <;> simp at h
        · rintro ⟨_, _, _, h⟩; simp at h
      · intro n hn; exact Or.inr ⟨0, by simp, hn⟩
    obtain ⟨pf, e1, e2, e3⟩ := ctLoop_spec hinv hd' cur aabbs hch hbox (q.nodes.size + 1) [0] [] _ _ I0 (by simp)
    rw [e1]
    simp only [countTrue, countAttached, beq_iff_eq]
    exact count_eq_of_marks pf q.proxies e2 e3

/-- the executable CHANGED-closure check evaluated by the witnesses is sound -/
theorem checkChangedUp_implies (q : Q K) (h : checkChangedUp q = true) : ChangedUp q := checkChangedUp_sound q h

/-! ### accessors -/

/-- **`leaf_data(proxy.node)` is the leaf itself**: for every attached proxy `p` (`Inv`, `DataOk`) -/
theorem leafData_attached (q : Q K) (hinv : Inv q) (hdata : DataOk q) (p : Nat) (pr : Proxy) (hp : q.proxies[p]? = some pr)
    (hne : pr.node ≠ MAXN) : leafData q pr.node pr.lane = some (some p) := by
  obtain ⟨_, nd, hnd, hleaf, hch⟩ := hinv.proxyLeaf p pr hp hne
  unfold leafData
  simp [hnd, hleaf, hch, hp, hdata p pr hp hne]

/-- **`node_aabb(proxy.node)` is the stored lane box of the leaf** -/
theorem nodeAabb_attached (q : Q K) (hinv : Inv q) (p : Nat) (pr : Proxy) (hp : q.proxies[p]? = some pr)
    (hne : pr.node ≠ MAXN) :
    ∃ (nd : Node K) (bx : Aabb3 K), q.nodes[pr.node]? = some nd ∧ nd.boxes[pr.lane]? = some bx ∧
      nodeAabb q pr.node pr.lane = some (some bx) := by
  obtain ⟨_, nd, hnd, _, hch⟩ := hinv.proxyLeaf p pr hp hne
  have hl4 : pr.lane < 4 := by rcases vec4_lane _ _ _ hch with h | h | h | h <;> omega
  refine ⟨nd, nd.boxes[pr.lane], hnd, by simp [hl4], ?_⟩
  unfold nodeAabb
  simp [hnd, hl4]

/-- a detached proxy (`NodeIndex::invalid()`) answers `None` to both accessors -/
theorem accessors_detached (q : Q K) (hinv : Inv q) : nodeAabb q MAXN 0 = some none ∧ leafData q MAXN 0 = some none := by
  have : q.nodes[MAXN]? = none := Array.getElem?_eq_none (by have := hinv.small; omega)
  simp [nodeAabb, leafData, this]

/-! ### `scaled` -/

theorem scaled_nodes_get (q : Q K) (s : V3 K) (n : Nat) :
    (scaled q s).nodes[n]? = (q.nodes[n]?).map fun nd => { nd with boxes := nd.boxes.map (scaleBox s) } := by
  simp [scaled]

/-- **`scaled` does not touch the topology**: the scaled tree satisfies `Inv` (and `DataOk`) whenever the tree does -/
theorem scaled_preserves_inv (q : Q K) (s : V3 K) (hinv : Inv q) : Inv (scaled q s) ∧ TopoEq q (scaled q s) := by
  have e : TopoEq q (scaled q s) := by
    refine ⟨rfl, by simp [scaled], ?_, rfl, fun _ pr h => ⟨pr, h, rfl, rfl⟩⟩
    intro n nd' hn
    rw [scaled_nodes_get] at hn
    cases hq : q.nodes[n]? with
    | none => simp [hq] at hn
    | some nd =>
      simp only [hq, Option.map_some, Option.some.injEq] at hn
      subst hn
      exact ⟨nd, rfl, rfl, rfl, rfl, rfl⟩
  exact ⟨hinv.of_topoEq e, e⟩

/-- a path of containing lane boxes is mapped to a path of containing lane boxes, whenever scaling is monotone for
containment of the target box -/
theorem scaled_pathTo (q : Q K) (s : V3 K) (p : Nat) (t : Aabb3 K)
    (hmono : ∀ bx : Aabb3 K, boxContains bx t = true → boxContains (scaleBox s bx) (scaleBox s t) = true) :
    ∀ a, PathTo q p t a → PathTo (scaled q s) p (scaleBox s t) a := by
  intro a h
  induction h with
  | leaf a nd l bx hn hl hc hb hcont =>
    refine PathTo.leaf a { nd with boxes := nd.boxes.map (scaleBox s) } l (scaleBox s bx) ?_ hl hc ?_ (hmono bx hcont)
    · rw [scaled_nodes_get, hn]; rfl
    · simp only [Vector.getElem?_map, hb, Option.map_some]
  | inner a nd l c bx hn hl hc hlt hb hcont _ ih =>
    refine PathTo.inner a { nd with boxes := nd.boxes.map (scaleBox s) } l c (scaleBox s bx) ?_ hl hc ?_ ?_ (hmono bx hcont) ih
    · rw [scaled_nodes_get, hn]; rfl
    · simpa [scaled] using hlt
    · simp only [Vector.getElem?_map, hb, Option.map_some]

end structural

section boxes
variable {K : Type} [Field K] [LinearOrder K] [IsStrictOrderedRing K] (sq : K → K)

/-- a proper box: `mins ≤ maxs` on every axis (points and flat boxes included) -/
def ProperBox (b : Aabb3 K) : Prop := b.mins.x ≤ b.maxs.x ∧ b.mins.y ≤ b.maxs.y ∧ b.mins.z ≤ b.maxs.z

private theorem scale_axis (s lo hi lo' hi' : K) (h1 : lo ≤ lo') (h2 : lo' ≤ hi') (h3 : hi' ≤ hi) :
    min (lo * s) (hi * s) ≤ min (lo' * s) (hi' * s) ∧ max (lo' * s) (hi' * s) ≤ max (lo * s) (hi * s) := by
  rcases le_total 0 s with hs | hs
  · have a1 : lo * s ≤ lo' * s := mul_le_mul_of_nonneg_right h1 hs
    have a2 : lo' * s ≤ hi' * s := mul_le_mul_of_nonneg_right h2 hs
    have a3 : hi' * s ≤ hi * s := mul_le_mul_of_nonneg_right h3 hs
    constructor
    · exact le_min (min_le_of_left_le a1) (min_le_of_left_le (a1.trans a2))
    · exact max_le (le_max_of_le_right (a2.trans a3)) (le_max_of_le_right a3)
  · have a1 : lo' * s ≤ lo * s := mul_le_mul_of_nonpos_right h1 hs
    have a2 : hi' * s ≤ lo' * s := mul_le_mul_of_nonpos_right h2 hs
    have a3 : hi * s ≤ hi' * s := mul_le_mul_of_nonpos_right h3 hs
    constructor
    · exact le_min (min_le_of_right_le (a3.trans a2)) (min_le_of_right_le a3)
    · exact max_le (le_max_of_le_left a1) (le_max_of_le_left (a2.trans a1))

/-- **`Aabb::scaled` is monotone for containment of proper boxes, for EVERY scale vector** (negative components mirror,
zero components flatten: the bounds are re-sorted by `inf` / `sup`) -/
theorem scaleBox_mono (s : V3 K) (b t : Aabb3 K) :
    letI := fieldNum K sq
    ProperBox t → boxContains b t = true → boxContains (scaleBox s b) (scaleBox s t) = true := by
  letI := fieldNum K sq
  intro ht hc
  rw [boxContains_iff'] at hc ⊢
  obtain ⟨⟨a1, a2, a3⟩, a4, a5, a6⟩ := hc
  obtain ⟨t1, t2, t3⟩ := ht
  have hx := scale_axis s.x b.mins.x b.maxs.x t.mins.x t.maxs.x a1 t1 a4
  have hy := scale_axis s.y b.mins.y b.maxs.y t.mins.y t.maxs.y a2 t2 a5
  have hz := scale_axis s.z b.mins.z b.maxs.z t.mins.z t.maxs.z a3 t3 a6
  simp only [scaleBox, V3.cmul, V3.inf, V3.sup, fieldNum_nmin, fieldNum_nmax]
  exact ⟨⟨hx.1, hy.1, hz.1⟩, hx.2, hy.2, hz.2⟩

/-- **`scaled_complete`: the scaled tree serves the scaled leaves.**  Exact arithmetic, every scale vector.  If the tree
satisfies `Inv` and `BoxInv` for the current boxes `cur` (the state after `refit`) and the current box of leaf `p` is
proper, then on `Qbvh::scaled(scale)` — which rescales the stored boxes in place, without rebuilding — `intersect_aabb`
reports `p` for every query box that intersects `Aabb::scaled(cur p)`.  (Box-to-box containment is NOT preserved:
`Aabb::scaled` turns the invalid box of an empty lane into a proper huge one, see `scaled_unit_breaks_fresh_form`.) -/
theorem scaled_complete (q : Q K) (cur : Nat → Aabb3 K) (s : V3 K) (b : Aabb3 K) (ids : List Nat) :
    letI := fieldNum K sq
    Inv q → BoxInv q cur → q.nodes.size < MAXN → intersectAabb (scaled q s) b = some ids →
    ∀ (p : Nat) (pr : Proxy), q.proxies[p]? = some pr → pr.node ≠ MAXN → ProperBox (cur pr.data) →
      boxIntersects (scaleBox s (cur pr.data)) b = true → pr.data ∈ ids := by
  letI := fieldNum K sq
  intro hinv hbox hsz h p pr hp hne hprop hint
  have hpath := pathTo_root (boxLaws_fieldNum sq) hinv cur hbox p pr hp hne
  have hpath' := scaled_pathTo q s p (cur pr.data) (fun bx hc => scaleBox_mono sq s bx _ hprop hc) 0 hpath
  refine intersectAabb_complete_path (scaled q s) b (scaled_preserves_inv q s hinv).1 (by simpa [scaled] using hsz) ids h p pr
    (by simpa [scaled] using hp) _ hpath' ?_
  intro bx hc
  exact boxIntersects_mono2 sq bx _ b b hc ((boxLaws_fieldNum sq).refl b) hint

end boxes

/-! ## Decided witnesses -/
section examples

/-- unit box number `i` of a 4-wide grid with pitch 3 -/
def gridB (i : Nat) : Aabb3 ℚ :=
  ⟨⟨3 * (i % 4 : Nat), 3 * (i / 4 : Nat), 0⟩, ⟨3 * (i % 4 : Nat) + 1, 3 * (i / 4 : Nat) + 1, 1⟩⟩

/-- sixteen leaves fill the four root lanes; refit; the 17th leaf splits the root and is removed again before the next
refit (the history of `corpus/C08.txt`, `Theorems.lean` `histSplit`) -/
def histSplitT : List (Op ℚ) :=
  (List.range 16).map (fun i => Op.insert i (gridB i)) ++
    [Op.refit 0, Op.insert 16 (gridB 40), Op.remove 16, Op.refit 0]

/-- the validator accepts the final state of the root-split history (and its CHANGED flags are closed upwards): a
non-trivial instance of the hypotheses of `checkTopology_passes` -/
theorem check_topology_witness :
    (run true (World.empty : World ℚ) histSplitT).map (fun w => (checkInv w.q, checkChangedUp w.q,
      checkTopology w.q w.cur false, checkTopology w.q w.cur true)) = some (true, true, true, true) := by
  decide +kernel

/-- on the pinned root split the validator with `check_aabbs` rejects the same history (the defect of
`pinned_root_split_loses_boxes` as seen by the maintainers' own checker) -/
theorem check_topology_rejects_pinned_root_split :
    (run false (World.empty : World ℚ) histSplitT).map (fun w => (checkTopology w.q w.cur false, checkTopology w.q w.cur true))
      = some (true, false) := by
  decide +kernel

/-- **`Qbvh::scaled` by the unit scale is not the identity on empty lanes**: the two-leaf tree `smallTree` (lanes 2 and 3
of its leaf node are empty, `Aabb::new_invalid()`) satisfies the box invariant in the form `refit` and `check_topology`
test (`checkFresh`, `checkTopology … true`); after `scaled((1, 1, 1))` the empty lanes hold `[-MAX, MAX]^3`, both checks
fail, while the invariant and the semantic containment on occupied lanes (`checkBox`) still hold -/
theorem scaled_unit_breaks_fresh_form :
    (smallTree.map fun q =>
      let cur : Nat → Aabb3 ℚ := fun i => cellB (if i = 0 then 1 else 5)
      let q' := scaled q ⟨1, 1, 1⟩
      (checkFresh q cur, checkTopology q cur true, checkInv q', checkBox q' cur, checkFresh q' cur, checkTopology q' cur true))
      = some (true, true, true, true, false, false) := by
  decide +kernel

/-- after `insert, refit` on a new tree `root_aabb()` contains the leaf with the corrected `refit` and is still
`Aabb::new_invalid()` on the pinned tree (`refitPinned`) -/
theorem refit_root_aabb_witness :
    ((preUpdateOrInsert true (Q.empty : Q ℚ) 0).bind fun q1 =>
      let cur : Nat → Aabb3 ℚ := fun _ => cellB 1
      (refit q1 cur 0).bind fun r => (refitPinned q1 cur 0).map fun r0 =>
        (boxContains r.1.rootAabb (cellB 1), boxContains r0.1.rootAabb (cellB 1))) = some (true, false) := by
  decide +kernel

end examples

end C08
