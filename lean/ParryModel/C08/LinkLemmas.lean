import ParryModel.C07.Link
import ParryModel.C07.Theorems
import ParryModel.C08.RefitLemmas
/-!
# C08 → C07: the abstract tree unfolded from a QBVH state satisfying `Inv` (and `BoxInv`) meets the hypotheses of the
C07 traversal theorems, and its leaves are exactly the attached proxies.
-/
namespace C08
open Model Model.Qbvh Model.Bvh Model.Bvh.Tree
set_option linter.unusedSectionVars false
variable {K : Type} [Num K]

theorem mem_lanesOf (q : Q K) (f n : Nat) (t : Bvh.Tree (Aabb3 K) Nat) :
    t ∈ lanesOf q (f + 1) n ↔ ∃ (nd : Node K) (l c : Nat) (bx : Aabb3 K), q.nodes[n]? = some nd ∧
      nd.children[l]? = some c ∧ nd.boxes[l]? = some bx ∧
      ((nd.leaf = true ∧ ∃ pr : Proxy, q.proxies[c]? = some pr ∧ t = Bvh.Tree.leaf bx pr.data) ∨
       (nd.leaf = false ∧ c < q.nodes.size ∧ t = Bvh.Tree.node bx (lanesOf q f c))) := by
  constructor
  · intro h
    unfold lanesOf at h
    split at h
    · simp at h
    · rename_i nd hnd
      simp only [List.mem_filterMap] at h
      obtain ⟨l, _, hl⟩ := h
      split at hl
      · rename_i c bx hc hb
        refine ⟨nd, l, c, bx, hnd, hc, hb, ?_⟩
        split at hl
        · rename_i hleaf
          left
          cases hp : q.proxies[c]? with
          | none => rw [hp] at hl; simp at hl
          | some pr => rw [hp] at hl; simp at hl; exact ⟨hleaf, pr, rfl, hl.symm⟩
        · rename_i hleaf
          right
          split at hl
          · rename_i hlt
            simp at hl
            exact ⟨by simpa using hleaf, hlt, hl.symm⟩
          · simp at hl
      · simp at hl
  · rintro ⟨nd, l, c, bx, hnd, hc, hb, hcase⟩
    unfold lanesOf
    simp only [hnd, List.mem_filterMap]
    have hl : l ∈ [0, 1, 2, 3] := by
      rcases vec4_lane _ _ _ hc with rfl | rfl | rfl | rfl <;> simp
    refine ⟨l, hl, ?_⟩
    simp only [hc, hb]
    rcases hcase with ⟨hleaf, pr, hpr, rfl⟩ | ⟨hleaf, hlt, rfl⟩
    · simp [hleaf, hpr]
    · simp [hleaf, hlt]

theorem leaves_subset_leavesList {B L : Type} (t : Bvh.Tree B L) (ts : List (Bvh.Tree B L)) (h : t ∈ ts) :
    ∀ p ∈ leaves t, p ∈ leavesList ts := by
  induction ts with
  | nil => simp at h
  | cons x xs ih =>
    intro p hp
    simp only [leavesList, List.mem_append]
    simp only [List.mem_cons] at h
    rcases h with rfl | h
    · exact Or.inl hp
    · exact Or.inr (ih h p hp)

theorem mem_leavesList {B L : Type} (ts : List (Bvh.Tree B L)) (p : B × L) (h : p ∈ leavesList ts) :
    ∃ t ∈ ts, p ∈ leaves t := by
  induction ts with
  | nil => simp [leavesList] at h
  | cons x xs ih =>
    simp only [leavesList, List.mem_append] at h
    rcases h with h | h
    · exact ⟨x, by simp, h⟩
    · obtain ⟨t, ht, hp⟩ := ih h; exact ⟨t, by simp [ht], hp⟩

/-- more fuel only adds leaves -/
theorem lanesOf_mono (q : Q K) : ∀ (f n : Nat) (p : Aabb3 K × Nat), p ∈ leavesList (lanesOf q f n) →
    p ∈ leavesList (lanesOf q (f + 1) n) := by
  intro f
  induction f with
  | zero => intro n p h; simp [lanesOf, leavesList] at h
  | succ f ih =>
    intro n p h
    obtain ⟨t, ht, hp⟩ := mem_leavesList _ p h
    obtain ⟨nd, l, c, bx, hnd, hc, hb, hcase⟩ := (mem_lanesOf q f n t).1 ht
    rcases hcase with ⟨hleaf, pr, hpr, rfl⟩ | ⟨hleaf, hlt, rfl⟩
    · exact leaves_subset_leavesList _ _
        ((mem_lanesOf q (f + 1) n _).2 ⟨nd, l, c, bx, hnd, hc, hb, Or.inl ⟨hleaf, pr, hpr, rfl⟩⟩) p hp
    · have : p ∈ leaves (Bvh.Tree.node bx (lanesOf q (f + 1) c)) := by
        simp only [leaves] at hp ⊢; exact ih c p hp
      exact leaves_subset_leavesList _ _
        ((mem_lanesOf q (f + 1) n _).2 ⟨nd, l, c, bx, hnd, hc, hb, Or.inr ⟨hleaf, hlt, rfl⟩⟩) p this

theorem lanesOf_mono_le (q : Q K) (n : Nat) (p : Aabb3 K × Nat) : ∀ (f f' : Nat), f ≤ f' →
    p ∈ leavesList (lanesOf q f n) → p ∈ leavesList (lanesOf q f' n) := by
  intro f f' hle
  induction hle with
  | refl => exact id
  | step _ ih => intro h; exact lanesOf_mono q _ n p (ih h)

/-- the leaves below a live node are below the root, `d` levels higher -/
theorem lanesOf_climb (q : Q K) (h : Inv q) (d : Nat → Nat) (hd0 : d 0 = 0)
    (hd : ∀ (n : Nat) (nd : Node K), q.nodes[n]? = some nd → Live q n → n ≠ 0 → d n = d nd.parent + 1) :
    ∀ (k m : Nat) (md : Node K), q.nodes[m]? = some md → Live q m → d m = k →
      ∀ (f : Nat) (p : Aabb3 K × Nat), p ∈ leavesList (lanesOf q f m) → p ∈ leavesList (lanesOf q (f + k) 0) := by
  intro k
  induction k with
  | zero =>
    intro m md hm hlive hk f p hp
    by_cases hm0 : m = 0
    · subst hm0; exact hp
    · have := hd m md hm hlive hm0; omega
  | succ k ih =>
    intro m md hm hlive hk f p hp
    have hm0 : m ≠ 0 := by intro e; subst e; omega
    obtain ⟨plive, pn, hpn, pleaf, pch⟩ := h.par m md hm hlive hm0
    have hdp : d md.parent = k := by have := hd m md hm hlive hm0; omega
    have hmlt : m < q.nodes.size := (Array.getElem?_eq_some_iff.mp hm).1
    obtain ⟨bx, hbx⟩ : ∃ bx, pn.boxes[md.plane]? = some bx := by
      have : md.plane < 4 := by rcases vec4_lane _ _ _ pch with e | e | e | e <;> omega
      exact ⟨pn.boxes[md.plane], by simp [this]⟩
    have hmem : Bvh.Tree.node bx (lanesOf q f m) ∈ lanesOf q (f + 1) md.parent :=
      (mem_lanesOf q f md.parent _).2 ⟨pn, md.plane, m, bx, hpn, pch, hbx, Or.inr ⟨pleaf, hmlt, rfl⟩⟩
    have h1 : p ∈ leavesList (lanesOf q (f + 1) md.parent) :=
      leaves_subset_leavesList _ _ hmem p (by simpa [leaves] using hp)
    have := ih md.parent pn hpn plive hdp (f + 1) p h1
    have e : f + 1 + k = f + (k + 1) := by omega
    rw [e] at this; exact this

/-- **every attached proxy is a leaf of the unfolded tree** (under its lane box), for every fuel above its depth -/
theorem live_leaf_in_tree (q : Q K) (h : Inv q) :
    ∃ d : Nat → Nat, ∀ (p : Nat) (pr : Proxy), q.proxies[p]? = some pr → pr.node ≠ MAXN →
      ∃ (nd : Node K) (bx : Aabb3 K), q.nodes[pr.node]? = some nd ∧ nd.boxes[pr.lane]? = some bx ∧
        ∀ fuel : Nat, d pr.node < fuel → (bx, pr.data) ∈ leavesList (lanesOf q fuel 0) := by
  obtain ⟨d, hd0, hd⟩ := h.depth
  refine ⟨d, ?_⟩
  intro p pr hpr hne
  obtain ⟨plive, nd, hnd, hleaf, hch⟩ := h.proxyLeaf p pr hpr hne
  have hl : pr.lane < 4 := by rcases vec4_lane _ _ _ hch with e | e | e | e <;> omega
  refine ⟨nd, nd.boxes[pr.lane], hnd, by simp [hl], ?_⟩
  intro fuel hf
  have hmem : Bvh.Tree.leaf nd.boxes[pr.lane] pr.data ∈ lanesOf q (0 + 1) pr.node :=
    (mem_lanesOf q 0 pr.node _).2 ⟨nd, pr.lane, p, nd.boxes[pr.lane], hnd, hch, by simp [hl],
      Or.inl ⟨hleaf, pr, hpr, rfl⟩⟩
  have h1 : (nd.boxes[pr.lane], pr.data) ∈ leavesList (lanesOf q 1 pr.node) :=
    leaves_subset_leavesList _ _ hmem _ (by simp [leaves])
  have h2 := lanesOf_climb q h d hd0 hd (d pr.node) pr.node nd hnd plive rfl 1 _ h1
  exact lanesOf_mono_le q 0 _ _ _ (by omega) h2

/-- **every leaf of the unfolded tree is an attached proxy** (a removed leaf is unreachable) -/
theorem tree_leaf_attached (q : Q K) (h : Inv q) : ∀ (f n : Nat), Live q n → n < q.nodes.size →
    ∀ (bx : Aabb3 K) (dt : Nat), (bx, dt) ∈ leavesList (lanesOf q f n) →
      ∃ (p : Nat) (pr : Proxy) (nd : Node K), q.proxies[p]? = some pr ∧ pr.node ≠ MAXN ∧ pr.data = dt ∧
        q.nodes[pr.node]? = some nd ∧ nd.boxes[pr.lane]? = some bx := by
  intro f
  induction f with
  | zero => intro n _ _ bx dt hm; simp [lanesOf, leavesList] at hm
  | succ f ih =>
    intro n hlive hnlt bx dt hm
    obtain ⟨t, ht, hp⟩ := mem_leavesList _ _ hm
    obtain ⟨nd, l, c, bx', hnd, hc, hb, hcase⟩ := (mem_lanesOf q f n t).1 ht
    rcases hcase with ⟨hleaf, pr, hpr, rfl⟩ | ⟨hleaf, hlt, rfl⟩
    · simp only [leaves, List.mem_singleton, Prod.mk.injEq] at hp
      obtain ⟨rfl, rfl⟩ := hp
      have hcM : c ≠ MAXN := by
        have := (Array.getElem?_eq_some_iff.mp hpr).1; have := h.psmall; omega
      obtain ⟨pr', hpr', e1, e2⟩ := h.leafProxy n nd hnd hlive hleaf l c hc hcM
      rw [hpr] at hpr'; cases hpr'
      have hnM : pr.node ≠ MAXN := by rw [e1]; have := h.small; omega
      exact ⟨c, pr, nd, hpr, hnM, rfl, by rw [e1]; exact hnd, by rw [e2]; exact hb⟩
    · have hcM : c ≠ MAXN := by have := h.small; omega
      obtain ⟨_, clive, _⟩ := h.child n nd hnd hlive hleaf l c hc hcM
      simp only [leaves] at hp
      exact ih c clive hlt bx dt hp

theorem nestedList_iff {B L : Type} (contains : B → B → Prop) (b : B) (ts : List (Bvh.Tree B L)) :
    C07.NestedList contains b ts ↔ ∀ t ∈ ts, contains b t.box ∧ C07.Nested contains t := by
  induction ts with
  | nil => simp [C07.NestedList]
  | cons x xs ih => simp [C07.NestedList, ih, and_assoc]

/-- completeness of the depth-first traversal over a forest of nested trees (the lanes of the root) -/
theorem dfs_complete_forest {B L : Type} (contains : B → B → Prop) (pred : B → Bool)
    (hm : C07.MonotonePred contains pred) (ts : List (Bvh.Tree B L)) (hn : ∀ t ∈ ts, C07.Nested contains t)
    (b : B) (d : L) (hmem : (b, d) ∈ leavesList ts) (hp : pred b = true) : d ∈ dfsList pred ts := by
  induction ts with
  | nil => simp [leavesList] at hmem
  | cons x xs ih =>
    simp only [leavesList, List.mem_append] at hmem
    simp only [dfsList, List.mem_append]
    rcases hmem with h | h
    · exact Or.inl (C07.dfs_complete contains pred hm x (hn x (by simp)) b d h hp)
    · exact Or.inr (ih (fun t ht => hn t (by simp [ht])) h)

/-- the subtrees under the lanes of a live node are nested, given `BoxInv` -/
theorem lanesOf_nested (laws : BoxLaws K) (q : Q K) (cur : Nat → Aabb3 K) (h : Inv q) (hb : BoxInv q cur) :
    ∀ (f n : Nat), Live q n → ∀ t ∈ lanesOf q f n, C07.Nested (fun a b : Aabb3 K => boxContains a b = true) t := by
  intro f
  induction f with
  | zero => intro n _ t ht; simp [lanesOf] at ht
  | succ f ih =>
    intro n hlive t ht
    obtain ⟨nd, l, c, bx, hnd, hc, hbx, hcase⟩ := (mem_lanesOf q f n t).1 ht
    rcases hcase with ⟨_, pr, _, rfl⟩ | ⟨hleaf, hlt, rfl⟩
    · simp [C07.Nested]
    · have hcM : c ≠ MAXN := by have := h.small; omega
      obtain ⟨_, clive, cn, hcn, _, _⟩ := h.child n nd hnd hlive hleaf l c hc hcM
      have hsem := (goodNode_semantic laws q cur nd (hb n nd hnd hlive) l c bx hc hbx).2 hleaf cn hcn
      simp only [C07.Nested]
      rw [nestedList_iff]
      intro t' ht'
      refine ⟨?_, ih c clive t' ht'⟩
      -- the box of a subtree under `c` is a lane box of `c`
      cases f with
      | zero => simp [lanesOf] at ht'
      | succ f' =>
        obtain ⟨nd', l', c', bx', hnd', _, hbx', hcase'⟩ := (mem_lanesOf q f' c t').1 ht'
        rw [hcn] at hnd'; cases hnd'
        have hbox : t'.box = bx' := by
          rcases hcase' with ⟨_, pr, _, rfl⟩ | ⟨_, _, rfl⟩ <;> rfl
        rw [hbox]; exact hsem l' bx' hbx'

end C08
