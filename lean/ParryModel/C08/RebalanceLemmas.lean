import ParryModel.C08.CollectLemmas
import ParryModel.C08.RebuildBoxLemmas
/-!
# C08: `rebalance` preserves the structural invariant (core Lean only)
-/
namespace C08
open Model Model.Qbvh
set_option linter.unusedSectionVars false
set_option linter.unusedVariables false
set_option linter.unusedSimpArgs false
variable {K : Type} [Num K]

/-- the workspace built from a well-behaved collection is well formed -/
theorem wsOk_of_goodF {q : Q K} (hinv : Inv q) {d : Nat → Nat} {D : Nat} {roots F : List Nat} {its : List (WsItem K)}
    (g : GoodF q d D roots F its) : WsOk its.reverse.toArray q.nodes.size q.proxies.size := by
  have hget : ∀ (i : Nat) (a : WsItem K), its.reverse.toArray[i]? = some a → a ∈ its := by
    intro i a h
    have : a ∈ its.reverse := by
      simp only [List.getElem?_toArray] at h
      exact List.mem_of_getElem? h
    simpa using this
  refine ⟨?_, ?_, ?_⟩
  · intro i j a b hi hj e1 e2
    simp only [List.getElem?_toArray] at hi hj
    have hp : its.reverse.Pairwise (fun a b => ¬ (a.isLeaf = b.isLeaf ∧ a.orig = b.orig)) := by
      rw [List.pairwise_reverse]
      exact g.pair.imp (fun h ⟨x, y⟩ => h ⟨x.symm, y.symm⟩)
    rw [List.pairwise_iff_getElem] at hp
    obtain ⟨hil, hia⟩ := List.getElem?_eq_some_iff.1 hi
    obtain ⟨hjl, hjb⟩ := List.getElem?_eq_some_iff.1 hj
    rcases Nat.lt_trichotomy i j with h | h | h
    · exact absurd ⟨by rw [hia, hjb]; exact e1, by rw [hia, hjb]; exact e2⟩ (hp i j hil hjl h)
    · exact h
    · exact absurd ⟨by rw [hia, hjb]; exact e1.symm, by rw [hia, hjb]; exact e2.symm⟩ (hp j i hjl hil h)
  · intro i a h hl
    obtain ⟨x, y, _⟩ := g.leaf a (hget i a h) hl
    exact ⟨x, y⟩
  · intro i a h hl
    obtain ⟨_, _, x, _⟩ := g.kept a (hget i a h) hl
    exact ⟨x, by have := hinv.small; omega⟩

/-! ## a rank function from any strictly decreasing measure -/

/-- number of parent steps to the root, with fuel -/
def chainLen (q : Q K) : Nat → Nat → Nat
  | 0, _ => 0
  | f + 1, n =>
    if n = 0 then 0 else
      match q.nodes[n]? with
      | some nd => chainLen q f nd.parent + 1
      | none => 0

theorem chainLen_succ (q : Q K) (f n : Nat) (nd : Node K) (hn : n ≠ 0) (hnd : q.nodes[n]? = some nd) :
    chainLen q (f + 1) n = chainLen q f nd.parent + 1 := by
  rw [chainLen]; simp only [hn, if_false, hnd]

theorem chainLen_stable (q : Q K) (μ : Nat → Nat)
    (h : ∀ (n : Nat) (nd : Node K), q.nodes[n]? = some nd → Live q n → n ≠ 0 →
      Live q nd.parent ∧ (nd.parent = 0 ∨ ∃ pn : Node K, q.nodes[nd.parent]? = some pn) ∧ μ nd.parent < μ n) :
    ∀ (m n : Nat), μ n ≤ m → Live q n → (n = 0 ∨ ∃ nd : Node K, q.nodes[n]? = some nd) →
      ∀ f, m < f → chainLen q f n = chainLen q (m + 1) n := by
  intro m
  induction m with
  | zero =>
    intro n hm hl hex f hf
    cases f with
    | zero => omega
    | succ f' =>
      by_cases hn : n = 0
      · simp [chainLen, hn]
      · rcases hex with hex | ⟨nd, hnd⟩
        · exact absurd hex hn
        · have := (h n nd hnd hl hn).2.2; omega
  | succ m' ih =>
    intro n hm hl hex f hf
    cases f with
    | zero => omega
    | succ f' =>
      by_cases hn : n = 0
      · simp [chainLen, hn]
      · rcases hex with hex | ⟨nd, hnd⟩
        · exact absurd hex hn
        · obtain ⟨pl, pex, plt⟩ := h n nd hnd hl hn
          rw [chainLen_succ q f' n nd hn hnd, chainLen_succ q (m' + 1) n nd hn hnd,
            ih nd.parent (by omega) pl pex f' (by omega)]

theorem depth_of_measure (q : Q K) (μ : Nat → Nat)
    (h : ∀ (n : Nat) (nd : Node K), q.nodes[n]? = some nd → Live q n → n ≠ 0 →
      Live q nd.parent ∧ (nd.parent = 0 ∨ ∃ pn : Node K, q.nodes[nd.parent]? = some pn) ∧ μ nd.parent < μ n) :
    ∃ d : Nat → Nat, d 0 = 0 ∧ ∀ (n : Nat) (nd : Node K), q.nodes[n]? = some nd → Live q n → n ≠ 0 →
      d n = d nd.parent + 1 := by
  refine ⟨fun n => chainLen q (μ n + 1) n, by simp [chainLen], ?_⟩
  intro n nd hnd hl hn
  obtain ⟨pl, pex, plt⟩ := h n nd hnd hl hn
  show chainLen q (μ n + 1) n = chainLen q (μ nd.parent + 1) nd.parent + 1
  rw [chainLen_succ q (μ n) n nd hn hnd,
    chainLen_stable q μ h (μ nd.parent) nd.parent (Nat.le_refl _) pl pex (μ n) plt]

theorem exists_bound (f : Nat → Nat) : ∀ n : Nat, ∃ M, ∀ i, i < n → f i < M := by
  intro n
  induction n with
  | zero => exact ⟨0, fun i hi => by omega⟩
  | succ n ih =>
    obtain ⟨M, hM⟩ := ih
    refine ⟨M + f n + 1, fun i hi => ?_⟩
    by_cases h : i < n
    · have := hM i h; omega
    · have : i = n := by omega
      subst this; omega

/-- the root written at the end of `rebalance` -/
def rebalRoot (aabb : Aabb3 K) (id : Nat) : Node K :=
  ⟨#v[aabb, invalidBox, invalidBox, invalidBox], #v[id, MAXN, MAXN, MAXN], MAXN, 0, false, false, false⟩

/-- what `rebalance` guarantees on its ordinary path -/
structure RebalanceOut (margin : K) (q q' : Q K) : Prop where
  inv : Inv q'
  rootPar : ∀ r : Node K, q'.nodes[0]? = some r → r.parent = MAXN
  dirtyList : q'.dirtyNodes = q.dirtyNodes
  psize : q'.proxies.size = q.proxies.size
  attached : ∀ (p : Nat) (pr' : Proxy), q'.proxies[p]? = some pr' →
    ∃ pr : Proxy, q.proxies[p]? = some pr ∧ pr'.data = pr.data ∧ (pr'.node = MAXN ↔ pr.node = MAXN)
  clean : (∀ (n : Nat) (nd : Node K), q.nodes[n]? = some nd → nd.dirty = false) →
    ∀ (n : Nat) (nd : Node K), q'.nodes[n]? = some nd → nd.dirty = false
  boxInv : BoxCtx K margin → ∀ cur : Nat → Aabb3 K, BoxInv q cur → BoxInv q' cur

theorem rebalance_okPath {q : Q K} (hinv : Inv q) (margin : K) (root : Node K) (hroot : q.nodes[0]? = some root)
    (c : Coll K) (hc : collectAll q root = .ok c) (q1 : Q K) (id : Nat) (aabb : Aabb3 K)
    (hrec : rebalRec c.items.reverse.toArray margin c.items.reverse.toArray.size { q with freeList := c.free }
      (Array.range c.items.reverse.toArray.size) 0 0 = some (q1, id, aabb))
    (hsmall : q1.nodes.size ≤ MAXN) :
    RebalanceOut margin q { q1 with rootAabb := aabb, nodes := q1.nodes.setIfInBounds 0 (rebalRoot aabb id) } := by
  -- the root is a live internal node
  have hpos : 0 < q.nodes.size := (Array.getElem?_eq_some_iff.mp hroot).1
  obtain ⟨⟨root', hroot', hrleaf⟩, hlive0⟩ : (∃ r : Node K, q.nodes[0]? = some r ∧ r.leaf = false) ∧ Live q 0 := by
    rcases hinv.root with h | h
    · omega
    · exact h
  rw [hroot] at hroot'; cases hroot'
  obtain ⟨d, hd0, hd⟩ := hinv.depth
  have ctx : CCtx q d := ⟨hinv, hd0, hd⟩
  obtain ⟨roots, F, its, hroots, hfree, hitems, g⟩ := collectAll_spec ctx root hroot hlive0 hrleaf c hc
  rw [hitems] at hrec
  generalize hws : its.reverse.toArray = ws at hrec
  have wok : WsOk ws q.nodes.size q.proxies.size := hws ▸ wsOk_of_goodF hinv g
  have hwsmem : ∀ (i : Nat) (a : WsItem K), ws[i]? = some a → a ∈ its := by
    intro i a h
    rw [← hws] at h
    have : a ∈ its.reverse := by
      simp only [List.getElem?_toArray] at h
      exact List.mem_of_getElem? h
    simpa using this
  have hwsidx : ∀ a ∈ its, ∃ i, i < ws.size ∧ ws[i]? = some a := by
    intro a ha
    have : a ∈ its.reverse := by simpa using ha
    obtain ⟨i, hi, e⟩ := List.getElem_of_mem this
    refine ⟨i, by rw [← hws]; simpa using hi, ?_⟩
    rw [← hws]; simp only [List.getElem?_toArray]; rw [List.getElem?_eq_getElem hi, e]
  -- the start state of the recursion
  have hF0 : 0 ∉ F := fun h => (g.free 0 h).2.1 rfl
  have hFlive : ∀ n ∈ F, Live q n := fun n h => (g.free n h).1
  have hFlt : ∀ n ∈ F, n < q.nodes.size := fun n h => (g.free n h).2.2.1
  have hst : StOk ws q.nodes.size q.proxies.size { q with freeList := c.free } := by
    refine ⟨Nat.le_refl _, rfl, ?_, ?_, ?_⟩
    · show c.free.Nodup
      rw [hfree, List.nodup_append]
      exact ⟨g.nodup, hinv.freeNodup, fun a ha b hb e => hFlive a ha (e ▸ hb)⟩
    · intro n hn
      have hn' : n ∈ c.free := hn
      rw [hfree, List.mem_append] at hn'
      rcases hn' with h | h
      · exact hFlt n h
      · exact hinv.freeBound n h
    · intro i a ha hl hm
      have hm' : a.orig ∈ c.free := hm
      rw [hfree, List.mem_append] at hm'
      obtain ⟨lv, _, _, _, nf, _⟩ := g.kept a (hwsmem i a ha) hl
      rcases hm' with h | h
      · exact nf h
      · exact lv h
  have hidxnd : (Array.range ws.size).toList.Nodup := by simp [List.nodup_range]
  have hidxr : ∀ i ∈ Array.range ws.size, i < ws.size := by intro i hi; simpa using hi
  have o := rebalRec_spec ws q.nodes.size q.proxies.size wok margin _ _ _ _ _ _ hrec hst hidxnd hidxr
  dsimp only at o
  -- the sets involved
  have hKp : ∀ k, KeptIn ws (Array.range ws.size) k ↔ ∃ it ∈ its, it.isLeaf = false ∧ it.orig = k := by
    intro k
    constructor
    · rintro ⟨i, _, it, e, e1, e2⟩; exact ⟨it, hwsmem i it e, e1, e2⟩
    · rintro ⟨it, hit, e1, e2⟩
      obtain ⟨i, hi, e⟩ := hwsidx it hit
      exact ⟨i, by simpa using hi, it, e, e1, e2⟩
  have hS : ∀ p, LeafIn ws (Array.range ws.size) p ↔ ∃ it ∈ its, it.isLeaf = true ∧ it.orig = p := by
    intro k
    constructor
    · rintro ⟨i, _, it, e, e1, e2⟩; exact ⟨it, hwsmem i it e, e1, e2⟩
    · rintro ⟨it, hit, e1, e2⟩
      obtain ⟨i, hi, e⟩ := hwsidx it hit
      exact ⟨i, by simpa using hi, it, e, e1, e2⟩
  -- frame
  obtain ⟨popped, hpop⟩ := o.frame.fl
  have hpop' : c.free = popped ++ q1.freeList := hpop
  have hfl1 : ∀ n, n ∈ q1.freeList → n ∈ F ∨ n ∈ q.freeList := by
    intro n hn
    have : n ∈ c.free := by rw [hpop']; simp [hn]
    rw [hfree, List.mem_append] at this; exact this
  have hsz1 : q.nodes.size ≤ q1.nodes.size := o.frame.nsize
  have hAl0 : ¬ Al { q with freeList := c.free } q1 0 := by
    rintro (⟨x, _⟩ | ⟨x, _⟩)
    · have x' : 0 ∈ c.free := x
      rw [hfree, List.mem_append] at x'
      exact x'.elim hF0 hlive0
    · have : q.nodes.size ≤ 0 := x
      omega
  have hAlive : ∀ n, Al { q with freeList := c.free } q1 n → n ∉ q1.freeList := by
    rintro n (⟨_, y⟩ | ⟨x, _⟩) hm
    · exact y hm
    · have x' : q.nodes.size ≤ n := x
      rcases hfl1 n hm with h | h
      · have := hFlt n h; omega
      · have := hinv.freeBound n h; omega
  have hUnotA : ∀ n, Live q n → n ∉ F → n < q.nodes.size → ¬ Al { q with freeList := c.free } q1 n := by
    rintro n hl hf hlt (⟨x, _⟩ | ⟨x, _⟩)
    · have x' : n ∈ c.free := x
      rw [hfree, List.mem_append] at x'
      exact x'.elim hf hl
    · have : q.nodes.size ≤ n := x
      omega
  have hKeptFacts : ∀ k, (∃ it ∈ its, it.isLeaf = false ∧ it.orig = k) →
      Live q k ∧ k ≠ 0 ∧ k < q.nodes.size ∧ k ∉ F ∧ ∃ nd : Node K, q.nodes[k]? = some nd ∧ nd.leaf = false ∧
        (k ∈ roots ∨ nd.parent ∈ F) := by
    rintro k ⟨it, hit, hl, rfl⟩
    obtain ⟨a, b, c', _, e, nd, f1, f2, _, f4⟩ := g.kept it hit hl
    exact ⟨a, b, c', e, nd, f1, f2, f4⟩
  -- the final state
  have hpos1 : 0 < q1.nodes.size := by omega
  generalize hq' : ({ q1 with rootAabb := aabb, nodes := q1.nodes.setIfInBounds 0 (rebalRoot aabb id) } : Q K) = q'
  have e'n : q'.nodes = q1.nodes.setIfInBounds 0 (rebalRoot aabb id) := by rw [← hq']
  have e'p : q'.proxies = q1.proxies := by rw [← hq']
  have e'f : q'.freeList = q1.freeList := by rw [← hq']
  have e'd : q'.dirtyNodes = q1.dirtyNodes := by rw [← hq']
  have hsz' : q'.nodes.size = q1.nodes.size := by rw [e'n]; simp
  have hn0' : q'.nodes[0]? = some (rebalRoot aabb id) := by
    rw [e'n]; simp [Array.getElem?_setIfInBounds, hpos1]
  have hnne : ∀ m, m ≠ 0 → q'.nodes[m]? = q1.nodes[m]? := by
    intro m hm; rw [e'n]; simp [Array.getElem?_setIfInBounds, Ne.symm hm]
  have hlive' : ∀ n, Live q' n ↔ n ∉ q1.freeList := by intro n; simp [Live, e'f]
  -- the subtree built by the recursion, seen in the final state
  have sub' : SubS q' (Al { q with freeList := c.free } q1) (fun k => ∃ it ∈ its, it.isLeaf = false ∧ it.orig = k)
      (fun p => ∃ it ∈ its, it.isLeaf = true ∧ it.orig = p) id 0 0 := by
    refine (o.sub.congr (fun _ => Iff.rfl) hKp hS).frame ?_ (fun p _ => by rw [e'p])
    intro n hn
    apply hnne
    rintro rfl
    rcases hn with hn | hn
    · exact hAl0 hn
    · exact (hKeptFacts 0 hn).2.1 rfl
  -- old nodes that were not freed
  have hU : ∀ (n : Nat) (nd : Node K), q.nodes[n]? = some nd → Live q n → n ≠ 0 → n ∉ F →
      ((¬ ∃ it ∈ its, it.isLeaf = false ∧ it.orig = n) → q'.nodes[n]? = some nd) ∧
      ((∃ it ∈ its, it.isLeaf = false ∧ it.orig = n) → ∃ nd' : Node K, q'.nodes[n]? = some nd' ∧
        nd'.children = nd.children ∧ nd'.leaf = nd.leaf ∧ nd'.dirty = nd.dirty ∧ nd'.boxes = nd.boxes) := by
    intro n nd hnd hl hn0 hnF
    have hlt := (Array.getElem?_eq_some_iff.mp hnd).1
    have hna := hUnotA n hl hnF hlt
    refine ⟨fun hk => ?_, fun hk => ?_⟩
    · rw [hnne n hn0, o.nodeSame n hna (fun h => hk ((hKp n).1 h))]; exact hnd
    · obtain ⟨x, x', a1, a2, a3, a4, a5, a6, _⟩ := o.keptSame n ((hKp n).2 hk)
      have a1' : q.nodes[n]? = some x := a1
      rw [hnd] at a1'; cases a1'
      exact ⟨x', by rw [hnne n hn0]; exact a2, a3, a4, a6, a5⟩
  -- children of untouched internal nodes are untouched, and not re-parented
  have hUchild : ∀ (n : Nat) (nd : Node K), q.nodes[n]? = some nd → Live q n → n ≠ 0 → n ∉ F → nd.leaf = false →
      ∀ (l c' : Nat), nd.children[l]? = some c' → c' ≠ MAXN →
        c' ≠ 0 ∧ Live q c' ∧ c' ∉ F ∧ (¬ ∃ it ∈ its, it.isLeaf = false ∧ it.orig = c') ∧
          ∃ cn : Node K, q.nodes[c']? = some cn ∧ cn.parent = n ∧ cn.plane = l := by
    intro n nd hnd hl hn0 hnF hleaf l c' hc hcm
    obtain ⟨c0, clive, cn, hcn, cpar, cplane⟩ := hinv.child n nd hnd hl hleaf l c' hc hcm
    have hnotroot : c' ∉ roots := by
      intro hr
      obtain ⟨l', h1, _⟩ := (hroots c').1 hr
      obtain ⟨_, _, cn', hcn', cpar', _⟩ := hinv.child 0 root hroot hlive0 hrleaf l' c' h1 hcm
      rw [hcn] at hcn'; cases hcn'
      exact hn0 (by rw [← cpar, cpar'])
    refine ⟨c0, clive, ?_, ?_, cn, hcn, cpar, cplane⟩
    · intro hf
      rcases (g.free c' hf).2.2.2.2 with h | ⟨x, h1, h2⟩
      · exact hnotroot h
      · rw [hcn] at h1; cases h1; rw [cpar] at h2; exact hnF h2
    · intro hk
      obtain ⟨_, _, _, _, x, h1, _, h2⟩ := hKeptFacts c' hk
      rw [hcn] at h1; cases h1
      rcases h2 with h | h
      · exact hnotroot h
      · rw [cpar] at h; exact hnF h
  -- the parent of an untouched node that is not re-parented is untouched
  have hUpar : ∀ (n : Nat) (nd : Node K), q.nodes[n]? = some nd → Live q n → n ≠ 0 → n ∉ F →
      (¬ ∃ it ∈ its, it.isLeaf = false ∧ it.orig = n) → nd.parent ≠ 0 ∧ nd.parent ∉ F := by
    intro n nd hnd hl hn0 hnF hk
    have hlt := (Array.getElem?_eq_some_iff.mp hnd).1
    have hnm : n ≠ MAXN := by have := hinv.small; omega
    obtain ⟨pl, pn, hpn, pleaf, pch⟩ := hinv.par n nd hnd hl hn0
    refine ⟨?_, ?_⟩
    · intro hp0
      rw [hp0, hroot] at hpn; cases hpn
      rcases g.roots n ((hroots n).2 ⟨nd.plane, pch, hnm⟩) with h | h
      · exact hnF h
      · exact hk h
    · intro hpF
      rcases (g.closed nd.parent hpF pn hpn).1 pleaf nd.plane n pch hnm with h | h
      · exact hnF h
      · exact hk h
  have hLiveA : ∀ n, Al { q with freeList := c.free } q1 n → Live q' n := fun n h => (hlive' n).2 (hAlive n h)
  have hLiveU : ∀ n, Live q n → n ∉ F → Live q' n := by
    intro n hl hf
    rw [hlive']
    intro hm
    exact (hfl1 n hm).elim hf hl
  have hLive0 : Live q' 0 := hLiveU 0 hlive0 hF0
  have hLiveK : ∀ k, (∃ it ∈ its, it.isLeaf = false ∧ it.orig = k) → Live q' k := by
    intro k hk
    obtain ⟨a, _, _, b, _⟩ := hKeptFacts k hk
    exact hLiveU k a b
  have hclass : ∀ (n : Nat) (nd' : Node K), q'.nodes[n]? = some nd' → Live q' n → n ≠ 0 →
      Al { q with freeList := c.free } q1 n ∨ (Live q n ∧ n ∉ F ∧ ∃ nd : Node K, q.nodes[n]? = some nd) := by
    intro n nd' hnd' hl hn0
    have hlt : n < q1.nodes.size := by rw [← hsz']; exact (Array.getElem?_eq_some_iff.mp hnd').1
    have hnf : n ∉ q1.freeList := (hlive' n).1 hl
    by_cases hlt0 : n < q.nodes.size
    · by_cases hfr : n ∈ q.freeList
      · exact Or.inl (Or.inl ⟨by show n ∈ c.free; rw [hfree]; simp [hfr], hnf⟩)
      · by_cases hF : n ∈ F
        · exact Or.inl (Or.inl ⟨by show n ∈ c.free; rw [hfree]; simp [hF], hnf⟩)
        · exact Or.inr ⟨hfr, hF, q.nodes[n], by simp [hlt0]⟩
    · exact Or.inl (Or.inr ⟨by show q.nodes.size ≤ n; omega, hlt⟩)
  -- the root of the rebuilt part
  have hidroot : id ≠ MAXN → id ≠ 0 ∧ Live q' id ∧ ∃ cn : Node K, q'.nodes[id]? = some cn ∧ cn.parent = 0 ∧ cn.plane = 0 := by
    intro hne
    rcases sub'.rootOk with ⟨e, _⟩ | ⟨hT, cn, e1, e2, e3⟩
    · exact absurd e hne
    · rcases hT with hT | hT
      · exact ⟨fun e => hAl0 (e ▸ hT), hLiveA id hT, cn, e1, e2, e3⟩
      · exact ⟨(hKeptFacts id hT).2.1, hLiveK id hT, cn, e1, e2, e3⟩
  have hrootch : ∀ (l c' : Nat), (rebalRoot aabb id).children[l]? = some c' → c' ≠ MAXN → l = 0 ∧ c' = id := by
    intro l c' hc hcm
    simp only [rebalRoot] at hc
    rcases vec4_lane _ l c' hc with rfl | rfl | rfl | rfl <;> simp at hc <;> subst hc
    · exact ⟨rfl, rfl⟩
    all_goals exact absurd rfl hcm
  -- parents of the nodes of the rebuilt part
  have hparT : ∀ n, (Al { q with freeList := c.free } q1 n ∨ ∃ it ∈ its, it.isLeaf = false ∧ it.orig = n) →
      ∃ nd pn : Node K, q'.nodes[n]? = some nd ∧ Live q' nd.parent ∧ q'.nodes[nd.parent]? = some pn ∧ pn.leaf = false ∧
        pn.children[nd.plane]? = some n ∧ (nd.parent = 0 ∨ Al { q with freeList := c.free } q1 nd.parent) := by
    intro n hT
    by_cases hid : n = id
    · subst hid
      rcases sub'.rootOk with ⟨_, he⟩ | ⟨_, cn, e1, e2, e3⟩
      · exact absurd hT (he n)
      · exact ⟨cn, rebalRoot aabb n, e1, by rw [e2]; exact hLive0, by rw [e2]; exact hn0', rfl, by rw [e3]; rfl, Or.inl e2⟩
    · obtain ⟨nd, pn, a1, a2, a3, a4, a5⟩ := sub'.par n hT hid
      exact ⟨nd, pn, a1, hLiveA _ a2, a3, a4, a5, Or.inr a2⟩
  -- proxies that were not re-pointed
  have hproxSame : ∀ p, (¬ ∃ it ∈ its, it.isLeaf = true ∧ it.orig = p) → q'.proxies[p]? = q.proxies[p]? := by
    intro p hp
    rw [e'p, o.proxySame p (fun h => hp ((hS p).1 h))]
  -- a proxy attached to an untouched leaf was not re-pointed
  have hSF : ∀ p, (∃ it ∈ its, it.isLeaf = true ∧ it.orig = p) → ∃ pr : Proxy, q.proxies[p]? = some pr ∧ pr.node ∈ F := by
    rintro p ⟨it, hit, hl, rfl⟩
    obtain ⟨_, hm, n, hn, nd, l, x1, x2, x3, _⟩ := g.leaf it hit hl
    obtain ⟨pr, p1, p2, _⟩ := hinv.leafProxy n nd x1 (hFlive n hn) x2 l it.orig x3 hm
    exact ⟨pr, p1, by rw [p2]; exact hn⟩
  -- the measure for the rank function
  obtain ⟨μs, hμs⟩ := sub'.rank
  obtain ⟨M, hM⟩ := exists_bound μs q'.nodes.size
  have hInv : Inv q' := by
    refine ⟨?_, ?_, ?_, ?_, ?_, ?_, ?_, ?_, ?_, ?_⟩
    · right; exact ⟨⟨_, hn0', rfl⟩, hLive0⟩
    · intro n nd hnd hl hleaf l c' hc hcm
      by_cases hn0 : n = 0
      · subst hn0
        rw [hn0'] at hnd; cases hnd
        obtain ⟨rfl, rfl⟩ := hrootch l c' hc hcm
        obtain ⟨a, b, cn, e1, e2, e3⟩ := hidroot hcm
        exact ⟨a, b, cn, e1, e2, e3⟩
      · rcases hclass n nd hnd hl hn0 with hA | ⟨hlq, hnF, nd0, hnd0⟩
        · obtain ⟨hT, _, cn, e1, e2, e3⟩ := sub'.child n nd hA hnd hleaf l c' hc hcm
          rcases hT with hT | hT
          · exact ⟨fun e => hAl0 (e ▸ hT), hLiveA c' hT, cn, e1, e2, e3⟩
          · exact ⟨(hKeptFacts c' hT).2.1, hLiveK c' hT, cn, e1, e2, e3⟩
        · obtain ⟨u1, u2⟩ := hU n nd0 hnd0 hlq hn0 hnF
          have hsame : nd.children = nd0.children ∧ nd.leaf = nd0.leaf := by
            by_cases hk : ∃ it ∈ its, it.isLeaf = false ∧ it.orig = n
            · obtain ⟨x, e, a1, a2, _⟩ := u2 hk
              rw [hnd] at e; cases e; exact ⟨a1, a2⟩
            · have e := u1 hk
              rw [hnd] at e; cases e; exact ⟨rfl, rfl⟩
          obtain ⟨c0, clive, cF, ck, cn, hcn, cpar, cplane⟩ := hUchild n nd0 hnd0 hlq hn0 hnF (by rw [← hsame.2]; exact hleaf)
            l c' (by rw [← hsame.1]; exact hc) hcm
          exact ⟨c0, hLiveU c' clive cF, cn, (hU c' cn hcn clive c0 cF).1 ck, cpar, cplane⟩
    · intro n nd hnd hl hn0
      rcases hclass n nd hnd hl hn0 with hA | ⟨hlq, hnF, nd0, hnd0⟩
      · obtain ⟨x, pn, a1, a2, a3, a4, a5, _⟩ := hparT n (Or.inl hA)
        rw [hnd] at a1; cases a1
        exact ⟨a2, pn, a3, a4, a5⟩
      · by_cases hk : ∃ it ∈ its, it.isLeaf = false ∧ it.orig = n
        · obtain ⟨x, pn, a1, a2, a3, a4, a5, _⟩ := hparT n (Or.inr hk)
          rw [hnd] at a1; cases a1
          exact ⟨a2, pn, a3, a4, a5⟩
        · have e := (hU n nd0 hnd0 hlq hn0 hnF).1 hk
          rw [hnd] at e; cases e
          obtain ⟨pl, pn, hpn, pleaf, pch⟩ := hinv.par n nd hnd0 hlq hn0
          obtain ⟨p0, pF⟩ := hUpar n nd hnd0 hlq hn0 hnF hk
          obtain ⟨u1, u2⟩ := hU nd.parent pn hpn pl p0 pF
          refine ⟨hLiveU _ pl pF, ?_⟩
          by_cases hkp : ∃ it ∈ its, it.isLeaf = false ∧ it.orig = nd.parent
          · obtain ⟨x, e, a1, a2, _⟩ := u2 hkp
            exact ⟨x, e, by rw [a2]; exact pleaf, by rw [a1]; exact pch⟩
          · exact ⟨pn, u1 hkp, pleaf, pch⟩
    · intro n nd hnd hl hleaf l p hc hcm
      by_cases hn0 : n = 0
      · subst hn0; rw [hn0'] at hnd; cases hnd; simp [rebalRoot] at hleaf
      · rcases hclass n nd hnd hl hn0 with hA | ⟨hlq, hnF, nd0, hnd0⟩
        · exact (sub'.leafProxy n nd hA hnd hleaf l p hc hcm).2
        · have hk : ¬ ∃ it ∈ its, it.isLeaf = false ∧ it.orig = n := by
            intro hk
            obtain ⟨x, e, _, a2, _⟩ := (hU n nd0 hnd0 hlq hn0 hnF).2 hk
            rw [hnd] at e; cases e
            obtain ⟨_, _, _, _, y, f1, f2, _⟩ := hKeptFacts n hk
            rw [hnd0] at f1; cases f1
            rw [a2, f2] at hleaf; cases hleaf
          have e := (hU n nd0 hnd0 hlq hn0 hnF).1 hk
          rw [hnd] at e; cases e
          obtain ⟨pr, p1, p2, p3⟩ := hinv.leafProxy n nd hnd0 hlq hleaf l p hc hcm
          refine ⟨pr, ?_, p2, p3⟩
          rw [hproxSame p]; exact p1
          intro hs
          obtain ⟨pr', e1, e2⟩ := hSF p hs
          rw [p1] at e1; cases e1
          rw [p2] at e2; exact hnF e2
    · intro p pr hp hne
      by_cases hs : ∃ it ∈ its, it.isLeaf = true ∧ it.orig = p
      · obtain ⟨pr', nd, a1, a2, a3, a4, a5⟩ := sub'.proxyLeaf p hs
        rw [hp] at a1; cases a1
        exact ⟨hLiveA _ a2, nd, a3, a4, a5⟩
      · have hp0 : q.proxies[p]? = some pr := by rw [← hproxSame p hs]; exact hp
        obtain ⟨ml, nd, hnd, mleaf, mch⟩ := hinv.proxyLeaf p pr hp0 hne
        have hm0 : pr.node ≠ 0 := by
          intro e; rw [e, hroot] at hnd; cases hnd; rw [hrleaf] at mleaf; cases mleaf
        have hpm : p ≠ MAXN := by
          have := (Array.getElem?_eq_some_iff.mp hp0).1; have := hinv.psmall; omega
        have hmF : pr.node ∉ F := by
          intro hF
          exact hs ((g.closed pr.node hF nd hnd).2 mleaf pr.lane p mch hpm)
        have hk : ¬ ∃ it ∈ its, it.isLeaf = false ∧ it.orig = pr.node := by
          intro hk
          obtain ⟨_, _, _, _, y, f1, f2, _⟩ := hKeptFacts pr.node hk
          rw [hnd] at f1; cases f1; rw [f2] at mleaf; cases mleaf
        exact ⟨hLiveU _ ml hmF, nd, (hU pr.node nd hnd ml hm0 hmF).1 hk, mleaf, mch⟩
    · -- no cycles: a measure that decreases along parent pointers
      classical
      apply depth_of_measure q' (fun n => if n = 0 then 0
        else if (Al { q with freeList := c.free } q1 n ∨ ∃ it ∈ its, it.isLeaf = false ∧ it.orig = n) then μs n + 1
        else M + 1 + d n)
      intro n nd hnd hl hn0
      have hlt' : n < q'.nodes.size := (Array.getElem?_eq_some_iff.mp hnd).1
      have hTcase : (Al { q with freeList := c.free } q1 n ∨ ∃ it ∈ its, it.isLeaf = false ∧ it.orig = n) →
          Live q' nd.parent ∧ (nd.parent = 0 ∨ ∃ pn : Node K, q'.nodes[nd.parent]? = some pn) ∧
          (if nd.parent = 0 then 0
            else if (Al { q with freeList := c.free } q1 nd.parent ∨ ∃ it ∈ its, it.isLeaf = false ∧ it.orig = nd.parent) then μs nd.parent + 1
            else M + 1 + d nd.parent) <
          (if n = 0 then 0
            else if (Al { q with freeList := c.free } q1 n ∨ ∃ it ∈ its, it.isLeaf = false ∧ it.orig = n) then μs n + 1
            else M + 1 + d n) := by
        intro hT
        obtain ⟨x, pn, a1, a2, a3, a4, a5, a6⟩ := hparT n hT
        rw [hnd] at a1; cases a1
        refine ⟨a2, Or.inr ⟨pn, a3⟩, ?_⟩
        simp only [hn0, if_false, hT, if_true]
        rcases a6 with a6 | a6
        · simp [a6]
        · have hp0 : nd.parent ≠ 0 := fun e => hAl0 (e ▸ a6)
          simp only [hp0, if_false, a6, true_or, if_true]
          have hne : n ≠ id := by
            intro e
            rcases sub'.rootOk with ⟨_, he⟩ | ⟨_, cn, e1, e2, _⟩
            · exact he n hT
            · rw [← e, hnd] at e1; cases e1; exact hp0 e2
          have := hμs n hT hne nd hnd
          omega
      rcases hclass n nd hnd hl hn0 with hA | ⟨hlq, hnF, nd0, hnd0⟩
      · exact hTcase (Or.inl hA)
      · by_cases hk : ∃ it ∈ its, it.isLeaf = false ∧ it.orig = n
        · exact hTcase (Or.inr hk)
        · have e := (hU n nd0 hnd0 hlq hn0 hnF).1 hk
          rw [hnd] at e; cases e
          obtain ⟨pl, pn, hpn, pleaf, pch⟩ := hinv.par n nd hnd0 hlq hn0
          obtain ⟨p0, pF⟩ := hUpar n nd hnd0 hlq hn0 hnF hk
          have hplt : nd.parent < q.nodes.size := (Array.getElem?_eq_some_iff.mp hpn).1
          have hnlt : n < q.nodes.size := (Array.getElem?_eq_some_iff.mp hnd0).1
          have hpex : ∃ pn' : Node K, q'.nodes[nd.parent]? = some pn' := by
            by_cases hkp : ∃ it ∈ its, it.isLeaf = false ∧ it.orig = nd.parent
            · obtain ⟨x, e, _⟩ := (hU nd.parent pn hpn pl p0 pF).2 hkp; exact ⟨x, e⟩
            · exact ⟨pn, (hU nd.parent pn hpn pl p0 pF).1 hkp⟩
          refine ⟨hLiveU _ pl pF, Or.inr hpex, ?_⟩
          have hnA : ¬ Al { q with freeList := c.free } q1 n := hUnotA n hlq hnF hnlt
          have hpA : ¬ Al { q with freeList := c.free } q1 nd.parent := hUnotA _ pl pF hplt
          have hdn := hd n nd hnd0 hlq hn0
          simp only [hn0, if_false, p0, hnA, hk, or_self, hpA, false_or]
          split
          · have : nd.parent < q'.nodes.size := by rw [hsz']; omega
            have := hM nd.parent this
            omega
          · omega
    · rw [e'f]
      have : c.free.Nodup := hst.flNodup
      rw [hpop'] at this
      exact (List.nodup_append.1 this).2.1
    · intro n hn
      rw [e'f] at hn
      rw [hsz']
      rcases hfl1 n hn with h | h
      · have := hFlt n h; omega
      · have := hinv.freeBound n h; omega
    · rw [hsz']; exact hsmall
    · rw [e'p, o.frame.psize]; exact hinv.psmall
  refine ⟨hInv, ?_, by rw [e'd]; exact o.frame.dirty, by rw [e'p]; exact o.frame.psize, ?_, ?_, ?_⟩
  · intro r hr; rw [hn0'] at hr; cases hr; rfl
  · intro p pr' hp
    by_cases hs : ∃ it ∈ its, it.isLeaf = true ∧ it.orig = p
    · obtain ⟨pr, x', a1, a2, a3⟩ := o.proxyData p ((hS p).2 hs)
      have a2' : q'.proxies[p]? = some x' := by rw [e'p]; exact a2
      rw [hp] at a2'; cases a2'
      refine ⟨pr, a1, a3, ?_⟩
      obtain ⟨y, nd, b1, b2, _⟩ := sub'.proxyLeaf p hs
      rw [hp] at b1; cases b1
      obtain ⟨z, c1, c2⟩ := hSF p hs
      have a1' : q.proxies[p]? = some pr := a1
      rw [a1'] at c1; cases c1
      have h1 : pr'.node ≠ MAXN := by have := o.alLt _ b2; omega
      have h2 : pr.node ≠ MAXN := by have := hFlt _ c2; have := hinv.small; omega
      exact ⟨fun e => absurd e h1, fun e => absurd e h2⟩
    · exact ⟨pr', by rw [← hproxSame p hs]; exact hp, rfl, Iff.rfl⟩
  · intro hclean n nd hnd
    by_cases hn0 : n = 0
    · subst hn0; rw [hn0'] at hnd; cases hnd; rfl
    · rw [hnne n hn0] at hnd
      by_cases hA : Al { q with freeList := c.free } q1 n
      · exact o.alClean n nd hA hnd
      · by_cases hk : ∃ it ∈ its, it.isLeaf = false ∧ it.orig = n
        · obtain ⟨x, x', a1, a2, _, _, _, a6, _⟩ := o.keptSame n ((hKp n).2 hk)
          rw [hnd] at a2; cases a2
          rw [a6]; exact hclean n x a1
        · rw [o.nodeSame n hA (fun h => hk ((hKp n).1 h))] at hnd
          exact hclean n nd hnd

  · -- boxes
    intro bc cur hb
    have hpre : BoxPre ws cur { q with freeList := c.free } (Array.range ws.size) := by
      intro i _ it e
      have hit := hwsmem i it e
      refine ⟨fun hl => ?_, fun hl => ?_⟩
      · obtain ⟨_, _, _, _, _, nd, e1, _, e3, _⟩ := g.kept it hit hl
        exact ⟨nd, e1, e3⟩
      · obtain ⟨_, hm, n, hn, nd, l, x1, x2, x3, x4⟩ := g.leaf it hit hl
        obtain ⟨pr, p1, _⟩ := hinv.leafProxy n nd x1 (hFlive n hn) x2 l it.orig x3 hm
        refine ⟨pr, p1, ?_⟩
        have hg := hb n nd x1 (hFlive n hn)
        have := containsAll_lane _ _ hg l it.box _ x4 (fresh_leaf_lane q cur nd l it.orig x2 x3)
        rw [p1] at this; exact this
    have bp := o.box bc cur hpre hsmall hinv.psmall
    have hps' : q'.proxies.size ≤ MAXN := by rw [e'p, o.frame.psize]; exact hinv.psmall
    have hps1 : q1.proxies.size ≤ MAXN := by rw [o.frame.psize]; exact hinv.psmall
    intro n nd hnd hl
    by_cases hn0 : n = 0
    · subst hn0
      rw [hn0'] at hnd; cases hnd
      unfold GoodNode
      apply containsAll_of_lanes
      intro j x y hx hy
      simp only [freshBoxes, rebalRoot, Bool.false_eq_true, if_false] at hx hy
      obtain ⟨c', hc', rfl⟩ := map_get4' _ _ _ _ hy
      rcases vec4_lane _ j x hx with rfl | rfl | rfl | rfl <;> simp at hx hc' <;> subst hx hc'
      · rcases bp.ret with ⟨e1, e2⟩ | ⟨x, e1, e2⟩
        · rw [e1, e2, Array.getElem?_eq_none (by omega)]; exact bc.laws.refl _
        · have hid0 : id ≠ 0 := by
            intro e
            have hm : id ≠ MAXN := by have := (Array.getElem?_eq_some_iff.mp e1).1; omega
            exact (hidroot hm).1 e
          rw [hnne id hid0, e1]; exact e2
      · rw [Array.getElem?_eq_none (by omega)]; exact bc.laws.refl _
      · rw [Array.getElem?_eq_none (by omega)]; exact bc.laws.refl _
      · rw [Array.getElem?_eq_none (by omega)]; exact bc.laws.refl _
    · rcases hclass n nd hnd hl hn0 with hA | ⟨hlq, hnF, nd0, hnd0⟩
      · have hnd1 : q1.nodes[n]? = some nd := by rw [← hnne n hn0]; exact hnd
        refine goodNode_frameS cur o.sub ?_ (fun p _ => by rw [e'p]) hsmall (by rw [hsz']; exact hsmall) hps1 hps'
          n nd hA hnd1 (bp.good n nd hA hnd1)
        intro m hm
        apply hnne
        rintro rfl
        rcases hm with hm | hm
        · exact hAl0 hm
        · exact (hKeptFacts 0 ((hKp 0).1 hm)).2.1 rfl
      · obtain ⟨u1, u2⟩ := hU n nd0 hnd0 hlq hn0 hnF
        have hsame : nd.children = nd0.children ∧ nd.leaf = nd0.leaf ∧ nd.boxes = nd0.boxes := by
          by_cases hk : ∃ it ∈ its, it.isLeaf = false ∧ it.orig = n
          · obtain ⟨x, e, a1, a2, _, a4⟩ := u2 hk
            rw [hnd] at e; cases e; exact ⟨a1, a2, a4⟩
          · have e := u1 hk
            rw [hnd] at e; cases e; exact ⟨rfl, rfl, rfl⟩
        have hg := hb n nd0 hnd0 hlq
        unfold GoodNode at hg ⊢
        rw [hsame.2.2, freshBoxes_congr q q' cur cur nd0 nd hsame.1 hsame.2.1 ?_ ?_]
        · exact hg
        · intro hleaf l c' hc
          by_cases hcm : c' = MAXN
          · subst hcm
            rw [Array.getElem?_eq_none (by omega), Array.getElem?_eq_none (by have := hinv.psmall; omega)]
          · obtain ⟨pr, p1, p2, _⟩ := hinv.leafProxy n nd0 hnd0 hlq hleaf l c' hc hcm
            rw [hproxSame c']
            intro hs
            obtain ⟨pr', e1, e2⟩ := hSF c' hs
            rw [p1] at e1; cases e1
            rw [p2] at e2; exact hnF e2
        · intro hleaf l c' hc
          by_cases hcm : c' = MAXN
          · subst hcm
            rw [Array.getElem?_eq_none (by rw [hsz']; omega), Array.getElem?_eq_none (by have := hinv.small; omega)]
          · obtain ⟨c0, clive, cF, ck, cn, hcn, _, _⟩ := hUchild n nd0 hnd0 hlq hn0 hnF hleaf l c' hc hcm
            rw [(hU c' cn hcn clive c0 cF).1 ck, hcn]

/-! ## `rebalance` as a whole -/

theorem foldLanes_noPanic (q : Q K) (b : Nat) (nd : Node K)
    (hb : ∀ (id : Nat) (c : Coll K), id < q.nodes.size → collectNode q b id c ≠ .panic) :
    ∀ (lanes : List Nat) (r : CollRes K), r ≠ .panic → foldLanes q b nd lanes r ≠ .panic := by
  intro lanes
  induction lanes with
  | nil => intro r hr; exact hr
  | cons l rest ih =>
    intro r hr
    cases r with
    | panic => exact absurd rfl hr
    | force => rw [foldLanes_force]; exact fun h => by cases h
    | ok c =>
      rw [foldLanes_cons]
      apply ih
      cases hch : nd.children[l]? with
      | none => exact fun h => by cases h
      | some ch =>
        dsimp only
        split
        · rename_i hlt; exact hb ch c hlt
        · exact fun h => by cases h

theorem collectNode_noPanic (q : Q K) : ∀ (b id : Nat) (c : Coll K), id < q.nodes.size → collectNode q b id c ≠ .panic := by
  intro b
  induction b with
  | zero => intro id c _ h; simp [collectNode] at h
  | succ b ih =>
    intro id c hlt
    rw [collectNode_succ q b id c q.nodes[id] (by simp [hlt])]
    split
    · exact fun h => by cases h
    · split
      · exact foldLanes_noPanic q b _ ih _ _ (fun h => by cases h)
      · exact fun h => by cases h

theorem collectAll_noPanic (q : Q K) (root : Node K) : collectAll q root ≠ .panic :=
  foldLanes_noPanic q FULL_REBUILD_DEPTH root (collectNode_noPanic q _) _ _ (fun h => by cases h)

/-- the leaves handed to `clear_and_rebuild` on the full-rebuild path: the attached proxies, in index order -/
theorem allLeaves_spec {q : Q K} (hinv : Inv q) (hdata : DataOk q) :
    ∀ (l : List Proxy) (k : Nat), (∀ i : Nat, i < l.length → q.proxies[k + i]? = l[i]?) →
      ∃ items : List (Nat × Aabb3 K), allLeaves q l = some items ∧ items.length ≤ l.length ∧
        (∀ it ∈ items, k ≤ it.1 ∧ it.1 < k + l.length) ∧ (items.map (·.1)).Pairwise (· < ·) ∧
        (∀ it ∈ items, ∃ (pr : Proxy) (nd : Node K), q.proxies[it.1]? = some pr ∧ pr.node ≠ MAXN ∧
          q.nodes[pr.node]? = some nd ∧ nd.boxes[pr.lane]? = some it.2) := by
  intro l
  induction l with
  | nil => intro k _; exact ⟨[], rfl, by simp, by simp, by simp, by simp⟩
  | cons pr rest ih =>
    intro k h
    obtain ⟨items, e, a1, a2, a3, a4⟩ := ih (k + 1) (fun i hi => by
      have := h (i + 1) (by simp; omega)
      simp only [List.getElem?_cons_succ] at this
      rw [← this]; congr 1; omega)
    have hpr : q.proxies[k]? = some pr := by
      have := h 0 (by simp)
      simpa using this
    unfold allLeaves
    cases hn : q.nodes[pr.node]? with
    | none =>
      simp only [hn]
      exact ⟨items, e, by simp; omega, fun it hit => by have := a2 it hit; simp; omega, a3, a4⟩
    | some nd =>
      have hne : pr.node ≠ MAXN := by
        intro e'
        have := (Array.getElem?_eq_some_iff.mp hn).1
        have := hinv.small; omega
      obtain ⟨_, nd', hnd', _, hch⟩ := hinv.proxyLeaf k pr hpr hne
      rw [hn] at hnd'; cases hnd'
      have hl4 : pr.lane < 4 := by rcases vec4_lane _ _ _ hch with h | h | h | h <;> omega
      simp only [hn, show nd.boxes[pr.lane]? = some nd.boxes[pr.lane] by simp [hl4], e, Option.map_some]
      refine ⟨_, rfl, by simp; omega, ?_, ?_, ?_⟩
      · intro it hit
        simp only [List.mem_cons] at hit
        rcases hit with rfl | hit
        · rw [hdata k pr hpr hne]; simp
        · have := a2 it hit; simp; omega
      · simp only [List.map_cons, List.pairwise_cons]
        refine ⟨?_, a3⟩
        intro x hx
        obtain ⟨it, hit, rfl⟩ := List.mem_map.1 hx
        rw [hdata k pr hpr hne]
        have := a2 it hit; omega
      · intro it hit
        simp only [List.mem_cons] at hit
        rcases hit with rfl | hit
        · refine ⟨pr, nd, ?_, hne, hn, by simp [hl4]⟩
          rw [hdata k pr hpr hne]; exact hpr
        · exact a4 it hit

/-- what `rebalance` guarantees -/
structure RebalanceRes (margin : K) (q q' : Q K) : Prop where
  inv : Inv q'
  rootPar : ∀ r : Node K, q'.nodes[0]? = some r → r.parent = MAXN
  dirtyList : q'.dirtyNodes = q.dirtyNodes
  data : DataOk q → DataOk q'
  clean : (∀ (n : Nat) (nd : Node K), q.nodes[n]? = some nd → nd.dirty = false) →
    ∀ (n : Nat) (nd : Node K), q'.nodes[n]? = some nd → nd.dirty = false
  boxInv : BoxCtx K margin → DilateLaws K 0 (fun _ => True) → ∀ cur : Nat → Aabb3 K, BoxInv q cur → BoxInv q' cur

/-- the box invariant only gets easier when the leaves' current boxes shrink -/
theorem boxInv_mono (laws : BoxLaws K) {q : Q K} (hinv : Inv q) (cur cur' : Nat → Aabb3 K) (h : BoxInv q cur')
    (hc : ∀ (p : Nat) (pr : Proxy), q.proxies[p]? = some pr → pr.node ≠ MAXN →
      boxContains (cur' pr.data) (cur pr.data) = true) : BoxInv q cur := by
  intro n nd hnd hl
  have hg := h n nd hnd hl
  unfold GoodNode at hg ⊢
  apply containsAll_of_lanes
  intro l x y hx hy
  have hl4 : l < 4 := by rcases vec4_lane _ l x hx with h | h | h | h <;> omega
  have hch : nd.children[l]? = some nd.children[l] := by simp [hl4]
  cases hleaf : nd.leaf with
  | false =>
    rw [fresh_internal_lane q cur nd l _ hleaf hch] at hy
    exact containsAll_lane _ _ hg l x y hx (by rw [fresh_internal_lane q cur' nd l _ hleaf hch]; exact hy)
  | true =>
    rw [fresh_leaf_lane q cur nd l _ hleaf hch] at hy
    have hy' := fresh_leaf_lane q cur' nd l _ hleaf hch
    cases hp : q.proxies[nd.children[l]]? with
    | none =>
      rw [hp] at hy hy'
      exact containsAll_lane _ _ hg l x y hx (by rw [hy']; exact hy)
    | some pr =>
      rw [hp] at hy hy'
      simp only [Option.some.injEq] at hy
      subst hy
      have h1 := containsAll_lane _ _ hg l x _ hx hy'
      have hcm : nd.children[l] ≠ MAXN := by
        intro e
        have := (Array.getElem?_eq_some_iff.mp hp).1
        have := hinv.psmall
        omega
      obtain ⟨pr', e1, e2, _⟩ := hinv.leafProxy n nd hnd hl hleaf l _ hch hcm
      rw [hp] at e1; cases e1
      have hne : pr.node ≠ MAXN := by
        rw [e2]
        have := (Array.getElem?_eq_some_iff.mp hnd).1
        have := hinv.small
        omega
      exact laws.trans _ _ _ h1 (hc _ pr hp hne)

/-- **`rebalance` never panics, terminates, and preserves the structural invariant** — on both paths (re-split of the
collected entries with free-list reuse; full rebuild when a changed subtree is deeper than `FULL_REBUILD_DEPTH`).
`hfit`: the node count after the call fits `u32` (the `as u32` casts are not modelled). -/
theorem rebalance_spec (q : Q K) (margin : K) (hinv : Inv q) (hdata : DataOk q) (hp : 4 * q.proxies.size + 2 ≤ MAXN)
    (hfit : ∀ q' : Q K, rebalance q margin = some q' → q'.nodes.size ≤ MAXN) :
    ∃ q' : Q K, rebalance q margin = some q' ∧ RebalanceRes margin q q' := by
  unfold rebalance at hfit ⊢
  cases hroot : q.nodes[0]? with
  | none =>
    refine ⟨q, rfl, hinv, ?_, rfl, id, id, fun _ _ _ h => h⟩
    intro r hr; rw [hroot] at hr; cases hr
  | some root =>
    simp only [hroot] at hfit ⊢
    cases hc : collectAll q root with
    | panic => exact absurd hc (collectAll_noPanic q root)
    | force =>
      simp only [hc] at hfit ⊢
      obtain ⟨items, e, a1, a2, a3, a4⟩ := allLeaves_spec hinv hdata q.proxies.toList 0 (fun i hi => by simp)
      simp only [e] at hfit ⊢
      have hlen : items.length ≤ q.proxies.size := by simpa using a1
      have hnd : (items.map (·.1)).Nodup := a3.imp (fun h => Nat.ne_of_lt h)
      have hid : ∀ it ∈ items, it.1 < MAXN := by
        intro it hit
        have := (a2 it hit).2
        simp only [Array.length_toList] at this
        omega
      obtain ⟨q', e', out⟩ := rebuild_spec q items 0 hnd hid (by omega)
      refine ⟨q', e', out.inv, out.rootPar, out.dirtyList, ?_, fun _ => out.clean, ?_⟩
      · intro _ p pr hpr hne
        obtain ⟨pr', h1, h2⟩ := out.data p ((out.attached p pr hpr).1 hne)
        rw [hpr] at h1; cases h1; exact h2
      · intro bc d0 cur hb
        have hb' := rebuild_box bc.laws (fun _ => True) q q' items 0 d0 cur hnd hid (by omega) (fun _ _ => trivial) e'
        refine boxInv_mono bc.laws out.inv cur _ hb' ?_
        intro p pr hpr hne
        have hp' := (out.attached p pr hpr).1 hne
        obtain ⟨pr', h1, h2⟩ := out.data p hp'
        rw [hpr] at h1; cases h1
        rw [h2]
        obtain ⟨b, hb1, hb2⟩ := curAfter_mem items p hp'
        rw [hb2 cur]
        obtain ⟨pr0, nd0, e1, e2, e3, e4⟩ := a4 (p, b) hb1
        dsimp only at e1 e4
        obtain ⟨plive, nd1, f1, f2, f3⟩ := hinv.proxyLeaf p pr0 e1 e2
        rw [e3] at f1; cases f1
        have hg := hb pr0.node nd0 e3 plive
        have := containsAll_lane _ _ hg pr0.lane b _ e4 (fresh_leaf_lane q cur nd0 pr0.lane p f2 f3)
        rw [e1] at this
        dsimp only at this
        rw [hdata p pr0 e1 e2] at this
        exact this
    | ok c =>
      simp only [hc] at hfit ⊢
      -- the recursion terminates
      have hpos : 0 < q.nodes.size := (Array.getElem?_eq_some_iff.mp hroot).1
      obtain ⟨⟨_, _, hrleaf⟩, hlive0⟩ : (∃ r : Node K, q.nodes[0]? = some r ∧ r.leaf = false) ∧ Live q 0 := by
        rcases hinv.root with h | h
        · omega
        · exact h
      rename_i root' hroot'
      rw [hroot] at hroot'; cases hroot'
      obtain ⟨d, hd0, hd⟩ := hinv.depth
      have ctx : CCtx q d := ⟨hinv, hd0, hd⟩
      obtain ⟨roots, F, its, hroots, hfree, hitems, g⟩ := collectAll_spec ctx root hroot hlive0 hrleaf c hc
      have wok : WsOk c.items.reverse.toArray q.nodes.size q.proxies.size := by
        rw [hitems]; exact wsOk_of_goodF hinv g
      have hst : StOk c.items.reverse.toArray q.nodes.size q.proxies.size { q with freeList := c.free } := by
        refine ⟨Nat.le_refl _, rfl, ?_, ?_, ?_⟩
        · show c.free.Nodup
          rw [hfree, List.nodup_append]
          exact ⟨g.nodup, hinv.freeNodup, fun a ha b hb e => (g.free a ha).1 (e ▸ hb)⟩
        · intro n hn
          have hn' : n ∈ c.free := hn
          rw [hfree, List.mem_append] at hn'
          rcases hn' with h | h
          · exact (g.free n h).2.2.1
          · exact hinv.freeBound n h
        · intro i a ha hl hm
          have hm' : a.orig ∈ c.free := hm
          rw [hfree, List.mem_append] at hm'
          have hai : a ∈ its := by
            rw [hitems] at ha
            have : a ∈ its.reverse := by
              simp only [List.getElem?_toArray] at ha
              exact List.mem_of_getElem? ha
            simpa using this
          obtain ⟨lv, _, _, _, nf, _⟩ := g.kept a hai hl
          rcases hm' with h | h
          · exact nf h
          · exact lv h
      obtain ⟨⟨q1, id, aabb⟩, hrec⟩ := rebalRec_total c.items.reverse.toArray q.nodes.size q.proxies.size wok margin
        (Array.range c.items.reverse.toArray.size).size { q with freeList := c.free }
        (Array.range c.items.reverse.toArray.size) 0 0 (Nat.le_refl _) hst (by simp [List.nodup_range])
        (by intro i hi; simpa using hi)
      have o := rebalRec_spec _ _ _ wok margin _ _ _ _ _ _ hrec hst (by simp [List.nodup_range]) (by intro i hi; simpa using hi)
      have hpos1 : 0 < q1.nodes.size := by
        have := o.frame.nsize
        have h' : q.nodes.size ≤ q1.nodes.size := this
        omega
      simp only [hrec, hpos1, if_true] at hfit ⊢
      have hrec' : rebalRec c.items.reverse.toArray margin c.items.reverse.toArray.size { q with freeList := c.free }
          (Array.range c.items.reverse.toArray.size) 0 0 = some (q1, id, aabb) := by
        simpa using hrec
      have hsmall : q1.nodes.size ≤ MAXN := by
        have := hfit _ rfl
        simpa using this
      have out := rebalance_okPath hinv margin root hroot c hc q1 id aabb hrec' hsmall
      refine ⟨_, rfl, out.inv, out.rootPar, out.dirtyList, ?_, out.clean, fun bc _ => out.boxInv bc⟩
      intro hd' p pr' hp' hne
      obtain ⟨pr, h1, h2, h3⟩ := out.attached p pr' hp'
      rw [h2]
      exact hd' p pr h1 (fun e => hne (h3.2 e))
