import ParryModel.C08.RebalLemmas
/-!
# C08: what a call of `do_recurse_rebalance` guarantees (core Lean only)
-/
namespace C08
open Model Model.Qbvh
set_option linter.unusedSectionVars false
set_option linter.unusedVariables false
set_option linter.unusedSimpArgs false
variable {K : Type} [Num K]

/-- the property proved by induction over the recursion -/
def RebalP (ws : Array (WsItem K)) (margin : K) (N0 P0 : Nat) (q : Q K) (indices : Array Nat) (par plane : Nat)
    (r : Q K × Nat × Aabb3 K) : Prop :=
  StOk ws N0 P0 q → indices.toList.Nodup → (∀ i ∈ indices, i < ws.size) →
    RebalOut ws margin q indices par plane r.1 r.2.1 r.2.2

theorem keptIn_split {ws : Array (WsItem K)} {indices s0 s1 s2 s3 : Array Nat}
    (hmem : ∀ x, x ∈ indices ↔ (x ∈ s0 ∨ x ∈ s1 ∨ x ∈ s2 ∨ x ∈ s3)) (k : Nat) :
    KeptIn ws indices k ↔ (KeptIn ws s0 k ∨ KeptIn ws s1 k ∨ KeptIn ws s2 k ∨ KeptIn ws s3 k) := by
  constructor
  · rintro ⟨i, hi, rest⟩
    rcases (hmem i).1 hi with h | h | h | h
    · exact Or.inl ⟨i, h, rest⟩
    · exact Or.inr (Or.inl ⟨i, h, rest⟩)
    · exact Or.inr (Or.inr (Or.inl ⟨i, h, rest⟩))
    · exact Or.inr (Or.inr (Or.inr ⟨i, h, rest⟩))
  · rintro (⟨i, hi, rest⟩ | ⟨i, hi, rest⟩ | ⟨i, hi, rest⟩ | ⟨i, hi, rest⟩)
    · exact ⟨i, (hmem i).2 (Or.inl hi), rest⟩
    · exact ⟨i, (hmem i).2 (Or.inr (Or.inl hi)), rest⟩
    · exact ⟨i, (hmem i).2 (Or.inr (Or.inr (Or.inl hi))), rest⟩
    · exact ⟨i, (hmem i).2 (Or.inr (Or.inr (Or.inr hi))), rest⟩

theorem leafIn_split {ws : Array (WsItem K)} {indices s0 s1 s2 s3 : Array Nat}
    (hmem : ∀ x, x ∈ indices ↔ (x ∈ s0 ∨ x ∈ s1 ∨ x ∈ s2 ∨ x ∈ s3)) (k : Nat) :
    LeafIn ws indices k ↔ (LeafIn ws s0 k ∨ LeafIn ws s1 k ∨ LeafIn ws s2 k ∨ LeafIn ws s3 k) := by
  constructor
  · rintro ⟨i, hi, rest⟩
    rcases (hmem i).1 hi with h | h | h | h
    · exact Or.inl ⟨i, h, rest⟩
    · exact Or.inr (Or.inl ⟨i, h, rest⟩)
    · exact Or.inr (Or.inr (Or.inl ⟨i, h, rest⟩))
    · exact Or.inr (Or.inr (Or.inr ⟨i, h, rest⟩))
  · rintro (⟨i, hi, rest⟩ | ⟨i, hi, rest⟩ | ⟨i, hi, rest⟩ | ⟨i, hi, rest⟩)
    · exact ⟨i, (hmem i).2 (Or.inl hi), rest⟩
    · exact ⟨i, (hmem i).2 (Or.inr (Or.inl hi)), rest⟩
    · exact ⟨i, (hmem i).2 (Or.inr (Or.inr (Or.inl hi))), rest⟩
    · exact ⟨i, (hmem i).2 (Or.inr (Or.inr (Or.inr hi))), rest⟩

/-- kept entries of disjoint slices are different nodes -/
theorem keptIn_disjoint {ws : Array (WsItem K)} {N0 P0 : Nat} (wok : WsOk ws N0 P0) {s t : Array Nat}
    (hd : ∀ p, p ∈ s → p ∉ t) (k : Nat) : KeptIn ws s k → ¬ KeptIn ws t k := by
  rintro ⟨i, hi, it, e, e1, e2⟩ ⟨j, hj, jt, f, f1, f2⟩
  have := wok.inj i j it jt e f (by rw [e1, f1]) (by rw [e2, f2])
  subst this
  exact hd i hi hj

theorem leafIn_disjoint {ws : Array (WsItem K)} {N0 P0 : Nat} (wok : WsOk ws N0 P0) {s t : Array Nat}
    (hd : ∀ p, p ∈ s → p ∉ t) (k : Nat) : LeafIn ws s k → ¬ LeafIn ws t k := by
  rintro ⟨i, hi, it, e, e1, e2⟩ ⟨j, hj, jt, f, f1, f2⟩
  have := wok.inj i j it jt e f (by rw [e1, f1]) (by rw [e2, f2])
  subst this
  exact hd i hi hj

theorem rebalRec_spec (ws : Array (WsItem K)) (N0 P0 : Nat) (wok : WsOk ws N0 P0) (margin : K) (fuel : Nat) (q : Q K)
    (indices : Array Nat) (par plane : Nat) (r : Q K × Nat × Aabb3 K)
    (h : rebalRec ws margin fuel q indices par plane = some r) : RebalP ws margin N0 P0 q indices par plane r := by
  refine rebalRec_induct ws margin (RebalP ws margin N0 P0) ?_ ?_ fuel q indices par plane r h
  · intro q indices par plane r hsz h hst hnd _
    exact rebalLeaf_spec ws N0 P0 wok margin q indices par plane r hsz h hst hnd
  · intro q indices par plane center d0 d1 q0 nid s0 s1 s2 s3 q1 q2 q3 q4 c0 c1 c2 c3 b0 b1 b2 b3 nd hsz hcd hal hsp
      p0 p1 p2 p3 _ _ _ _ hnd4 hst hnodup hrange
    obtain ⟨fA, pA, aA, lA, sA, nA⟩ := allocOpen_spec q par plane N0 hst.flNodup hst.flLt hst.n0 q0 nid hal
    have st0 := hst.frame fA
    -- the split
    have hrange' : ∀ x ∈ indices, x < (ws.map (·.box)).size := by intro x hx; simpa using hrange x hx
    have hperm : (s0 ++ s1 ++ (s2 ++ s3)).Perm indices := by
      obtain ⟨t0, t1, t2, t3, e, pm, _⟩ := splitDataset_spec (ws.map (·.box)) d0 d1 center indices hrange'
      rw [hsp] at e
      simp only [Option.some.injEq, Prod.mk.injEq] at e
      obtain ⟨rfl, rfl, rfl, rfl⟩ := e
      exact pm
    have hnd' : (s0 ++ s1 ++ (s2 ++ s3)).toList.Nodup := (Array.perm_iff_toList_perm.1 hperm).nodup_iff.2 hnodup
    simp only [Array.toList_append, List.nodup_append, List.mem_append, Array.mem_toList_iff] at hnd'
    obtain ⟨⟨n0, n1, d01⟩, ⟨n2, n3, d23⟩, dd⟩ := hnd'
    have hmem : ∀ x, x ∈ indices ↔ (x ∈ s0 ∨ x ∈ s1 ∨ x ∈ s2 ∨ x ∈ s3) := by
      intro x
      rw [← hperm.mem_iff]
      simp only [Array.mem_append, or_assoc]
    have r0 : ∀ x ∈ s0, x < ws.size := fun x hx => hrange x ((hmem x).2 (Or.inl hx))
    have r1 : ∀ x ∈ s1, x < ws.size := fun x hx => hrange x ((hmem x).2 (Or.inr (Or.inl hx)))
    have r2 : ∀ x ∈ s2, x < ws.size := fun x hx => hrange x ((hmem x).2 (Or.inr (Or.inr (Or.inl hx))))
    have r3 : ∀ x ∈ s3, x < ws.size := fun x hx => hrange x ((hmem x).2 (Or.inr (Or.inr (Or.inr hx))))
    have x01 : ∀ p, p ∈ s0 → p ∉ s1 := fun p a b => d01 p a p b rfl
    have x02 : ∀ p, p ∈ s0 → p ∉ s2 := fun p a b => dd p (Or.inl a) p (Or.inl b) rfl
    have x03 : ∀ p, p ∈ s0 → p ∉ s3 := fun p a b => dd p (Or.inl a) p (Or.inr b) rfl
    have x12 : ∀ p, p ∈ s1 → p ∉ s2 := fun p a b => dd p (Or.inr a) p (Or.inl b) rfl
    have x13 : ∀ p, p ∈ s1 → p ∉ s3 := fun p a b => dd p (Or.inr a) p (Or.inr b) rfl
    have x23 : ∀ p, p ∈ s2 → p ∉ s3 := fun p a b => d23 p a p b rfl
    have x10 : ∀ p, p ∈ s1 → p ∉ s0 := fun p a b => x01 p b a
    have x20 : ∀ p, p ∈ s2 → p ∉ s0 := fun p a b => x02 p b a
    have x30 : ∀ p, p ∈ s3 → p ∉ s0 := fun p a b => x03 p b a
    have x21 : ∀ p, p ∈ s2 → p ∉ s1 := fun p a b => x12 p b a
    have x31 : ∀ p, p ∈ s3 → p ∉ s1 := fun p a b => x13 p b a
    have x32 : ∀ p, p ∈ s3 → p ∉ s2 := fun p a b => x23 p b a
    -- the four calls
    have o0 := p0 st0 n0 r0
    have st1 := st0.frame o0.frame
    have o1 := p1 st1 n1 r1
    have st2 := st1.frame o1.frame
    have o2 := p2 st2 n2 r2
    have st3 := st2.frame o2.frame
    have o3 := p3 st3 n3 r3
    have st4 := st3.frame o3.frame
    dsimp only at o0 o1 o2 o3 ⊢
    -- frames between any two of the six states
    have f01 := o0.frame; have f12 := o1.frame; have f23 := o2.frame; have f34 := o3.frame
    have f02 := f01.trans f12; have f03 := f02.trans f23; have f04 := f03.trans f34
    have f13 := f12.trans f23; have f14 := f13.trans f34; have f24 := f23.trans f34
    -- allocated sets are pairwise disjoint
    have dA0 : ∀ n, Al q q0 n → ¬ Al q0 q1 n := Al.disjoint fA f01 hst.flNodup hst.flLt hst.n0
    have dA1 : ∀ n, Al q q0 n → ¬ Al q1 q2 n := Al.disjoint' hst fA f01 f12
    have dA2 : ∀ n, Al q q0 n → ¬ Al q2 q3 n := Al.disjoint' hst fA f02 f23
    have dA3 : ∀ n, Al q q0 n → ¬ Al q3 q4 n := Al.disjoint' hst fA f03 f34
    have d0_1 : ∀ n, Al q0 q1 n → ¬ Al q1 q2 n := Al.disjoint f01 f12 st0.flNodup st0.flLt st0.n0
    have d0_2 : ∀ n, Al q0 q1 n → ¬ Al q2 q3 n := Al.disjoint' st0 f01 f12 f23
    have d0_3 : ∀ n, Al q0 q1 n → ¬ Al q3 q4 n := Al.disjoint' st0 f01 f13 f34
    have d1_2 : ∀ n, Al q1 q2 n → ¬ Al q2 q3 n := Al.disjoint f12 f23 st1.flNodup st1.flLt st1.n0
    have d1_3 : ∀ n, Al q1 q2 n → ¬ Al q3 q4 n := Al.disjoint' st1 f12 f23 f34
    have d2_3 : ∀ n, Al q2 q3 n → ¬ Al q3 q4 n := Al.disjoint f23 f34 st2.flNodup st2.flLt st2.n0
    -- kept nodes are never allocated
    have kA : ∀ ix k, KeptIn ws ix k → ¬ Al q q0 k := fun ix k hk => kept_not_al wok hst ix k hk
    have k0 : ∀ ix k, KeptIn ws ix k → ¬ Al q0 q1 k := fun ix k hk => kept_not_al wok st0 ix k hk
    have k1 : ∀ ix k, KeptIn ws ix k → ¬ Al q1 q2 k := fun ix k hk => kept_not_al wok st1 ix k hk
    have k2 : ∀ ix k, KeptIn ws ix k → ¬ Al q2 q3 k := fun ix k hk => kept_not_al wok st2 ix k hk
    have k3 : ∀ ix k, KeptIn ws ix k → ¬ Al q3 q4 k := fun ix k hk => kept_not_al wok st3 ix k hk
    -- kept / proxy entries of different slices are different
    have kk := fun (s t : Array Nat) (hd : ∀ p, p ∈ s → p ∉ t) => keptIn_disjoint wok hd
    have ll := fun (s t : Array Nat) (hd : ∀ p, p ∈ s → p ∉ t) => leafIn_disjoint wok hd
    -- the final state
    have hlt4 : nid < q4.nodes.size := Nat.lt_of_lt_of_le lA f04.nsize
    generalize hcl : closedNode nd c0 c1 c2 c3 (loosened4 margin b0 b1 b2 b3) = cl
    have hclb : cl.boxes = loosened4 margin b0 b1 b2 b3 := by rw [← hcl]; rfl
    have hne : ∀ m, m ≠ nid → (q4.nodes.setIfInBounds nid cl)[m]? = q4.nodes[m]? := by
      intro m hm; simp [Array.getElem?_setIfInBounds, Ne.symm hm]
    have hN5 : (q4.nodes.setIfInBounds nid cl)[nid]? = some cl := by
      simp [Array.getElem?_setIfInBounds, hlt4]
    have hnidA : Al q q0 nid := (aA nid).2 rfl
    -- node `nid` is still the placeholder when the calls return
    have hopen : nd = openNode par plane := by
      have e3 := o3.nodeSame nid (dA3 nid hnidA) (fun hk => kA _ _ hk hnidA)
      have e2 := o2.nodeSame nid (dA2 nid hnidA) (fun hk => kA _ _ hk hnidA)
      have e1 := o1.nodeSame nid (dA1 nid hnidA) (fun hk => kA _ _ hk hnidA)
      have e0 := o0.nodeSame nid (dA0 nid hnidA) (fun hk => kA _ _ hk hnidA)
      rw [e3, e2, e1, e0, nA] at hnd4
      exact (Option.some.inj hnd4).symm
    -- allocation between `q` and the final state
    have hAl5 : ∀ n, Al q { q4 with nodes := q4.nodes.setIfInBounds nid cl } n ↔
        (n = nid ∨ Al q0 q1 n ∨ Al q1 q2 n ∨ Al q2 q3 n ∨ Al q3 q4 n) := by
      intro n
      have e1 : Al q { q4 with nodes := q4.nodes.setIfInBounds nid cl } n ↔ Al q q4 n := by
        unfold Al; simp
      rw [e1, Al.trans_iff fA f04 hst.flNodup hst.flLt hst.n0, aA n,
        Al.trans_iff f01 f14 st0.flNodup st0.flLt st0.n0, Al.trans_iff f12 f24 st1.flNodup st1.flLt st1.n0,
        Al.trans_iff f23 f34 st2.flNodup st2.flLt st2.n0]
    generalize hq5 : ({ q4 with nodes := q4.nodes.setIfInBounds nid cl } : Q K) = q5 at hAl5 ⊢
    have e5n : q5.nodes = q4.nodes.setIfInBounds nid cl := by rw [← hq5]
    have e5p : q5.proxies = q4.proxies := by rw [← hq5]
    have e5f : q5.freeList = q4.freeList := by rw [← hq5]
    have e5d : q5.dirtyNodes = q4.dirtyNodes := by rw [← hq5]
    have hne5 : ∀ m, m ≠ nid → q5.nodes[m]? = q4.nodes[m]? := by intro m hm; rw [e5n]; exact hne m hm
    have hN55 : q5.nodes[nid]? = some cl := by rw [e5n]; exact hN5
    -- nodes and proxies of each part are the same in the final state as when the part was finished
    have hT0 : ∀ n, (Al q0 q1 n ∨ KeptIn ws s0 n) → q5.nodes[n]? = q1.nodes[n]? := by
      intro n hn
      have hnn : n ≠ nid := by
        rintro rfl; rcases hn with hn | hn
        · exact dA0 _ hnidA hn
        · exact kA _ _ hn hnidA
      rw [hne5 n hnn]
      rcases hn with hn | hn
      · rw [o3.nodeSame n (d0_3 n hn) (fun hk => k0 _ _ hk hn), o2.nodeSame n (d0_2 n hn) (fun hk => k0 _ _ hk hn),
          o1.nodeSame n (d0_1 n hn) (fun hk => k0 _ _ hk hn)]
      · rw [o3.nodeSame n (k3 _ _ hn) (kk s0 s3 x03 n hn), o2.nodeSame n (k2 _ _ hn) (kk s0 s2 x02 n hn),
          o1.nodeSame n (k1 _ _ hn) (kk s0 s1 x01 n hn)]
    have hT1 : ∀ n, (Al q1 q2 n ∨ KeptIn ws s1 n) → q5.nodes[n]? = q2.nodes[n]? := by
      intro n hn
      have hnn : n ≠ nid := by
        rintro rfl; rcases hn with hn | hn
        · exact dA1 _ hnidA hn
        · exact kA _ _ hn hnidA
      rw [hne5 n hnn]
      rcases hn with hn | hn
      · rw [o3.nodeSame n (d1_3 n hn) (fun hk => k1 _ _ hk hn), o2.nodeSame n (d1_2 n hn) (fun hk => k1 _ _ hk hn)]
      · rw [o3.nodeSame n (k3 _ _ hn) (kk s1 s3 x13 n hn), o2.nodeSame n (k2 _ _ hn) (kk s1 s2 x12 n hn)]
    have hT2 : ∀ n, (Al q2 q3 n ∨ KeptIn ws s2 n) → q5.nodes[n]? = q3.nodes[n]? := by
      intro n hn
      have hnn : n ≠ nid := by
        rintro rfl; rcases hn with hn | hn
        · exact dA2 _ hnidA hn
        · exact kA _ _ hn hnidA
      rw [hne5 n hnn]
      rcases hn with hn | hn
      · rw [o3.nodeSame n (d2_3 n hn) (fun hk => k2 _ _ hk hn)]
      · rw [o3.nodeSame n (k3 _ _ hn) (kk s2 s3 x23 n hn)]
    have hT3 : ∀ n, (Al q3 q4 n ∨ KeptIn ws s3 n) → q5.nodes[n]? = q4.nodes[n]? := by
      intro n hn
      have hnn : n ≠ nid := by
        rintro rfl; rcases hn with hn | hn
        · exact dA3 _ hnidA hn
        · exact kA _ _ hn hnidA
      exact hne5 n hnn
    have hS0 : ∀ p, LeafIn ws s0 p → q5.proxies[p]? = q1.proxies[p]? := by
      intro p hp
      rw [e5p, o3.proxySame p (ll s0 s3 x03 p hp), o2.proxySame p (ll s0 s2 x02 p hp), o1.proxySame p (ll s0 s1 x01 p hp)]
    have hS1 : ∀ p, LeafIn ws s1 p → q5.proxies[p]? = q2.proxies[p]? := by
      intro p hp
      rw [e5p, o3.proxySame p (ll s1 s3 x13 p hp), o2.proxySame p (ll s1 s2 x12 p hp)]
    have hS2 : ∀ p, LeafIn ws s2 p → q5.proxies[p]? = q3.proxies[p]? := by
      intro p hp
      rw [e5p, o3.proxySame p (ll s2 s3 x23 p hp)]
    have hS3 : ∀ p, LeafIn ws s3 p → q5.proxies[p]? = q4.proxies[p]? := by
      intro p hp; rw [e5p]
    -- the new internal node
    have hclf : cl.leaf = false ∧ cl.parent = par ∧ cl.plane = plane ∧ cl.children = #v[c0, c1, c2, c3] ∧ cl.dirty = false := by
      rw [← hcl, hopen]; exact ⟨rfl, rfl, rfl, rfl, rfl⟩
    have hsub := SubS.combine cl hN55 hclf.1 hclf.2.1 hclf.2.2.1 hclf.2.2.2.1
      (o0.sub.frame hT0 hS0) (o1.sub.frame hT1 hS1) (o2.sub.frame hT2 hS2) (o3.sub.frame hT3 hS3)
      (fun hh => hh.elim (dA0 _ hnidA) (fun hk => kA _ _ hk hnidA))
      (fun hh => hh.elim (dA1 _ hnidA) (fun hk => kA _ _ hk hnidA))
      (fun hh => hh.elim (dA2 _ hnidA) (fun hk => kA _ _ hk hnidA))
      (fun hh => hh.elim (dA3 _ hnidA) (fun hk => kA _ _ hk hnidA))
      (fun n hh => hh.elim (fun a b => b.elim (d0_1 n a) (fun hk => k0 _ _ hk a))
        (fun a b => b.elim (k1 _ _ a) (kk s0 s1 x01 n a)))
      (fun n hh => hh.elim (fun a b => b.elim (d0_2 n a) (fun hk => k0 _ _ hk a))
        (fun a b => b.elim (k2 _ _ a) (kk s0 s2 x02 n a)))
      (fun n hh => hh.elim (fun a b => b.elim (d0_3 n a) (fun hk => k0 _ _ hk a))
        (fun a b => b.elim (k3 _ _ a) (kk s0 s3 x03 n a)))
      (fun n hh => hh.elim (fun a b => b.elim (d1_2 n a) (fun hk => k1 _ _ hk a))
        (fun a b => b.elim (k2 _ _ a) (kk s1 s2 x12 n a)))
      (fun n hh => hh.elim (fun a b => b.elim (d1_3 n a) (fun hk => k1 _ _ hk a))
        (fun a b => b.elim (k3 _ _ a) (kk s1 s3 x13 n a)))
      (fun n hh => hh.elim (fun a b => b.elim (d2_3 n a) (fun hk => k2 _ _ hk a))
        (fun a b => b.elim (k3 _ _ a) (kk s2 s3 x23 n a)))
    have hframe : RFrame q q5 := by
      have f := fA.trans f04
      obtain ⟨pp, e⟩ := f.fl
      exact ⟨by rw [e5p]; exact f.psize, by rw [e5n]; simpa using f.nsize, ⟨pp, by rw [e5f]; exact e⟩, by rw [e5d]; exact f.dirty⟩
    refine ⟨hframe, ?_, ?_, ?_, ?_, ?_, ?_, ?_, ?_⟩
    · intro n hn hk
      rw [hAl5 n] at hn
      rw [keptIn_split hmem n] at hk
      have hnn : n ≠ nid := fun e => hn (Or.inl e)
      rw [hne5 n hnn, o3.nodeSame n (fun a => hn (Or.inr (Or.inr (Or.inr (Or.inr a))))) (fun a => hk (Or.inr (Or.inr (Or.inr a)))),
        o2.nodeSame n (fun a => hn (Or.inr (Or.inr (Or.inr (Or.inl a))))) (fun a => hk (Or.inr (Or.inr (Or.inl a)))),
        o1.nodeSame n (fun a => hn (Or.inr (Or.inr (Or.inl a)))) (fun a => hk (Or.inr (Or.inl a))),
        o0.nodeSame n (fun a => hn (Or.inr (Or.inl a))) (fun a => hk (Or.inl a)), sA n hnn]
    · intro k hk
      have hknid : k ≠ nid := by rintro rfl; exact kA _ _ hk hnidA
      rcases (keptIn_split hmem k).1 hk with hk' | hk' | hk' | hk'
      · obtain ⟨x, x', a1, a2, rest⟩ := o0.keptSame k hk'
        exact ⟨x, x', by rw [← sA k hknid]; exact a1, by rw [hT0 k (Or.inr hk')]; exact a2, rest⟩
      · obtain ⟨x, x', a1, a2, rest⟩ := o1.keptSame k hk'
        refine ⟨x, x', ?_, by rw [hT1 k (Or.inr hk')]; exact a2, rest⟩
        rw [← sA k hknid, ← o0.nodeSame k (k0 _ _ hk') (kk s1 s0 x10 k hk')]; exact a1
      · obtain ⟨x, x', a1, a2, rest⟩ := o2.keptSame k hk'
        refine ⟨x, x', ?_, by rw [hT2 k (Or.inr hk')]; exact a2, rest⟩
        rw [← sA k hknid, ← o0.nodeSame k (k0 _ _ hk') (kk s2 s0 x20 k hk'),
          ← o1.nodeSame k (k1 _ _ hk') (kk s2 s1 x21 k hk')]; exact a1
      · obtain ⟨x, x', a1, a2, rest⟩ := o3.keptSame k hk'
        refine ⟨x, x', ?_, by rw [hT3 k (Or.inr hk')]; exact a2, rest⟩
        rw [← sA k hknid, ← o0.nodeSame k (k0 _ _ hk') (kk s3 s0 x30 k hk'),
          ← o1.nodeSame k (k1 _ _ hk') (kk s3 s1 x31 k hk'), ← o2.nodeSame k (k2 _ _ hk') (kk s3 s2 x32 k hk')]; exact a1
    · intro p hp
      rw [leafIn_split hmem p] at hp
      rw [e5p, o3.proxySame p (fun a => hp (Or.inr (Or.inr (Or.inr a)))), o2.proxySame p (fun a => hp (Or.inr (Or.inr (Or.inl a)))),
        o1.proxySame p (fun a => hp (Or.inr (Or.inl a))), o0.proxySame p (fun a => hp (Or.inl a)), pA]
    · intro p hp
      rcases (leafIn_split hmem p).1 hp with hp' | hp' | hp' | hp'
      · obtain ⟨x, x', a1, a2, a3⟩ := o0.proxyData p hp'
        exact ⟨x, x', by rw [← pA]; exact a1, by rw [hS0 p hp']; exact a2, a3⟩
      · obtain ⟨x, x', a1, a2, a3⟩ := o1.proxyData p hp'
        refine ⟨x, x', ?_, by rw [hS1 p hp']; exact a2, a3⟩
        rw [← pA, ← o0.proxySame p (ll s1 s0 x10 p hp')]; exact a1
      · obtain ⟨x, x', a1, a2, a3⟩ := o2.proxyData p hp'
        refine ⟨x, x', ?_, by rw [hS2 p hp']; exact a2, a3⟩
        rw [← pA, ← o0.proxySame p (ll s2 s0 x20 p hp'), ← o1.proxySame p (ll s2 s1 x21 p hp')]; exact a1
      · obtain ⟨x, x', a1, a2, a3⟩ := o3.proxyData p hp'
        refine ⟨x, x', ?_, by rw [hS3 p hp']; exact a2, a3⟩
        rw [← pA, ← o0.proxySame p (ll s3 s0 x30 p hp'), ← o1.proxySame p (ll s3 s1 x31 p hp'),
          ← o2.proxySame p (ll s3 s2 x32 p hp')]; exact a1
    · exact hsub.congr (fun n => (hAl5 n).symm) (fun n => (keptIn_split hmem n).symm) (fun n => (leafIn_split hmem n).symm)
    · intro n x hn hx
      rcases (hAl5 n).1 hn with rfl | hn' | hn' | hn' | hn'
      · rw [hN55] at hx; cases hx; exact hclf.2.2.2.2
      · exact o0.alClean n x hn' (by rw [← hT0 n (Or.inl hn')]; exact hx)
      · exact o1.alClean n x hn' (by rw [← hT1 n (Or.inl hn')]; exact hx)
      · exact o2.alClean n x hn' (by rw [← hT2 n (Or.inl hn')]; exact hx)
      · exact o3.alClean n x hn' (by rw [← hT3 n (Or.inl hn')]; exact hx)
    · intro n hn
      have hs5 : q5.nodes.size = q4.nodes.size := by rw [e5n]; simp
      rw [hs5]
      rcases (hAl5 n).1 hn with rfl | hn' | hn' | hn' | hn'
      · exact hlt4
      · exact Nat.lt_of_lt_of_le (o0.alLt n hn') f14.nsize
      · exact Nat.lt_of_lt_of_le (o1.alLt n hn') f24.nsize
      · exact Nat.lt_of_lt_of_le (o2.alLt n hn') f34.nsize
      · exact o3.alLt n hn'

    · -- boxes
      intro bc cur hpre hsmall hpsmall
      have hs5 : q5.nodes.size = q4.nodes.size := by rw [e5n]; simp
      have z01 := f01.nsize; have z12 := f12.nsize; have z23 := f23.nsize; have z34 := f34.nsize
      have zA := fA.nsize
      have w1 : q1.nodes.size ≤ MAXN := by omega
      have w2 : q2.nodes.size ≤ MAXN := by omega
      have w3 : q3.nodes.size ≤ MAXN := by omega
      have w4 : q4.nodes.size ≤ MAXN := by omega
      have y0 : q0.proxies.size ≤ MAXN := by rw [fA.psize]; exact hpsmall
      have y1 : q1.proxies.size ≤ MAXN := by rw [f01.psize]; exact y0
      have y2 : q2.proxies.size ≤ MAXN := by rw [f12.psize]; exact y1
      have y3 : q3.proxies.size ≤ MAXN := by rw [f23.psize]; exact y2
      have y4 : q4.proxies.size ≤ MAXN := by rw [f34.psize]; exact y3
      have y5 : q5.proxies.size ≤ MAXN := by rw [e5p]; exact y4
      -- the workspace boxes, seen from the state in which each call starts
      have pre0 : BoxPre ws cur q0 s0 := by
        intro i hi it e
        obtain ⟨g1, g2⟩ := hpre i ((hmem i).2 (Or.inl hi)) it e
        refine ⟨fun hl => ?_, fun hl => ?_⟩
        · obtain ⟨x, e1, e2⟩ := g1 hl
          have hk : KeptIn ws s0 it.orig := ⟨i, hi, it, e, hl, rfl⟩
          exact ⟨x, by rw [sA _ (fun e' => kA _ _ hk (by rw [e']; exact hnidA))]; exact e1, e2⟩
        · obtain ⟨x, e1, e2⟩ := g2 hl
          exact ⟨x, by rw [pA]; exact e1, e2⟩
      have pre1 : BoxPre ws cur q1 s1 := by
        intro i hi it e
        obtain ⟨g1, g2⟩ := hpre i ((hmem i).2 (Or.inr (Or.inl hi))) it e
        refine ⟨fun hl => ?_, fun hl => ?_⟩
        · obtain ⟨x, e1, e2⟩ := g1 hl
          have hk : KeptIn ws s1 it.orig := ⟨i, hi, it, e, hl, rfl⟩
          refine ⟨x, ?_, e2⟩
          rw [o0.nodeSame _ (k0 _ _ hk) (kk s1 s0 x10 _ hk), sA _ (fun e' => kA _ _ hk (by rw [e']; exact hnidA))]; exact e1
        · obtain ⟨x, e1, e2⟩ := g2 hl
          have hk : LeafIn ws s1 it.orig := ⟨i, hi, it, e, hl, rfl⟩
          exact ⟨x, by rw [o0.proxySame _ (ll s1 s0 x10 _ hk), pA]; exact e1, e2⟩
      have pre2 : BoxPre ws cur q2 s2 := by
        intro i hi it e
        obtain ⟨g1, g2⟩ := hpre i ((hmem i).2 (Or.inr (Or.inr (Or.inl hi)))) it e
        refine ⟨fun hl => ?_, fun hl => ?_⟩
        · obtain ⟨x, e1, e2⟩ := g1 hl
          have hk : KeptIn ws s2 it.orig := ⟨i, hi, it, e, hl, rfl⟩
          refine ⟨x, ?_, e2⟩
          rw [o1.nodeSame _ (k1 _ _ hk) (kk s2 s1 x21 _ hk), o0.nodeSame _ (k0 _ _ hk) (kk s2 s0 x20 _ hk),
            sA _ (fun e' => kA _ _ hk (by rw [e']; exact hnidA))]; exact e1
        · obtain ⟨x, e1, e2⟩ := g2 hl
          have hk : LeafIn ws s2 it.orig := ⟨i, hi, it, e, hl, rfl⟩
          exact ⟨x, by rw [o1.proxySame _ (ll s2 s1 x21 _ hk), o0.proxySame _ (ll s2 s0 x20 _ hk), pA]; exact e1, e2⟩
      have pre3 : BoxPre ws cur q3 s3 := by
        intro i hi it e
        obtain ⟨g1, g2⟩ := hpre i ((hmem i).2 (Or.inr (Or.inr (Or.inr hi)))) it e
        refine ⟨fun hl => ?_, fun hl => ?_⟩
        · obtain ⟨x, e1, e2⟩ := g1 hl
          have hk : KeptIn ws s3 it.orig := ⟨i, hi, it, e, hl, rfl⟩
          refine ⟨x, ?_, e2⟩
          rw [o2.nodeSame _ (k2 _ _ hk) (kk s3 s2 x32 _ hk), o1.nodeSame _ (k1 _ _ hk) (kk s3 s1 x31 _ hk),
            o0.nodeSame _ (k0 _ _ hk) (kk s3 s0 x30 _ hk), sA _ (fun e' => kA _ _ hk (by rw [e']; exact hnidA))]; exact e1
        · obtain ⟨x, e1, e2⟩ := g2 hl
          have hk : LeafIn ws s3 it.orig := ⟨i, hi, it, e, hl, rfl⟩
          exact ⟨x, by rw [o2.proxySame _ (ll s3 s2 x32 _ hk), o1.proxySame _ (ll s3 s1 x31 _ hk),
            o0.proxySame _ (ll s3 s0 x30 _ hk), pA]; exact e1, e2⟩
      have bp0 := o0.box bc cur pre0 w1 y0
      have bp1 := o1.box bc cur pre1 w2 y1
      have bp2 := o2.box bc cur pre2 w3 y2
      have bp3 := o3.box bc cur pre3 w4 y3
      -- a lane of the new internal node
      have hlane : ∀ (qi qj : Q K) (As Ks Ss : Nat → Prop) (c : Nat) (k : Nat) (b : Aabb3 K), SubS qj As Ks Ss c nid k →
          BoxPost cur qi qj c b → (∀ n, (As n ∨ Ks n) → q5.nodes[n]? = qj.nodes[n]?) → qj.nodes.size ≤ MAXN →
          boxContains (loosenBox margin b) (match q5.nodes[c]? with
            | some cn => mergedBox cn.boxes
            | none => invalidBox) = true := by
        intro qi qj As Ks Ss c k b hs hb hT hqj
        rcases hb.ret with ⟨rfl, rfl⟩ | ⟨x, e1, e2⟩
        · rw [Array.getElem?_eq_none (by omega)]
          exact bc.laws.loosen _ _ bc.hm
        · have hc : As c ∨ Ks c := by
            rcases hs.rootOk with ⟨e, _⟩ | ⟨h, _⟩
            · subst e
              have := (Array.getElem?_eq_some_iff.mp e1).1
              omega
            · exact h
          rw [hT c hc, e1]
          exact bc.laws.trans _ _ _ (bc.laws.loosen _ _ bc.hm) e2
      refine ⟨Or.inr ⟨cl, hN55, by rw [hclb]; exact bc.laws.refl _⟩, ?_⟩
      intro n x hn hx
      rcases (hAl5 n).1 hn with rfl | hn' | hn' | hn' | hn'
      · rw [hN55] at hx; cases hx
        unfold GoodNode
        apply containsAll_of_lanes
        intro j bx y hbx hy
        rw [hclb] at hbx
        simp only [loosened4] at hbx
        obtain ⟨b, hb, rfl⟩ := map_get4' _ _ _ _ hbx
        simp only [freshBoxes, hclf.1, Bool.false_eq_true, if_false, hclf.2.2.2.1] at hy
        obtain ⟨c, hc, rfl⟩ := map_get4' _ _ _ _ hy
        rcases vec4_lane _ j b hb with rfl | rfl | rfl | rfl <;> simp at hb hc <;> subst hb hc
        · exact hlane _ _ _ _ _ _ _ _ o0.sub bp0 hT0 w1
        · exact hlane _ _ _ _ _ _ _ _ o1.sub bp1 hT1 w2
        · exact hlane _ _ _ _ _ _ _ _ o2.sub bp2 hT2 w3
        · exact hlane _ _ _ _ _ _ _ _ o3.sub bp3 hT3 w4
      · have e := hT0 n (Or.inl hn')
        exact goodNode_frameS cur o0.sub hT0 hS0 w1 (by omega) y1 y5 n x hn' (by rw [← e]; exact hx)
          (bp0.good n x hn' (by rw [← e]; exact hx))
      · have e := hT1 n (Or.inl hn')
        exact goodNode_frameS cur o1.sub hT1 hS1 w2 (by omega) y2 y5 n x hn' (by rw [← e]; exact hx)
          (bp1.good n x hn' (by rw [← e]; exact hx))
      · have e := hT2 n (Or.inl hn')
        exact goodNode_frameS cur o2.sub hT2 hS2 w3 (by omega) y3 y5 n x hn' (by rw [← e]; exact hx)
          (bp2.good n x hn' (by rw [← e]; exact hx))
      · have e := hT3 n (Or.inl hn')
        exact goodNode_frameS cur o3.sub hT3 hS3 w4 (by omega) y4 y5 n x hn' (by rw [← e]; exact hx)
          (bp3.good n x hn' (by rw [← e]; exact hx))

/-! ## termination: the fuel suffices -/

theorem rebalLeafLoop_some (ws : Array (WsItem K)) (myLeaf myInternal : Nat) :
    ∀ (l : List Nat) (k : Nat) (a : LeafAcc K), l.length + k ≤ 4 →
      (∀ i ∈ l, ∃ it : WsItem K, ws[i]? = some it ∧ (it.isLeaf = true → it.orig < a.q.proxies.size) ∧
        (it.isLeaf = false → it.orig < a.q.nodes.size)) →
      ∃ a', rebalLeafLoop ws myLeaf myInternal l k a = some a' := by
  intro l
  induction l with
  | nil => intro k a _ _; exact ⟨a, rfl⟩
  | cons id rest ih =>
    intro k a hk h
    obtain ⟨it, e, h1, h2⟩ := h id (by simp)
    simp only [List.length_cons] at hk
    unfold rebalLeafLoop
    simp only [e, show k < 4 by omega, if_true]
    cases hlf : it.isLeaf with
    | true =>
      have hlt := h1 hlf
      simp only [if_true, show a.q.proxies[it.orig]? = some a.q.proxies[it.orig] by simp [hlt]]
      apply ih _ _ (by omega)
      intro i hi
      obtain ⟨it', e', g1, g2⟩ := h i (by simp [hi])
      exact ⟨it', e', by simpa using g1, g2⟩
    | false =>
      have hlt := h2 hlf
      simp only [Bool.false_eq_true, if_false, show a.q.nodes[it.orig]? = some a.q.nodes[it.orig] by simp [hlt]]
      apply ih _ _ (by omega)
      intro i hi
      obtain ⟨it', e', g1, g2⟩ := h i (by simp [hi])
      exact ⟨it', e', g1, by simpa using g2⟩

theorem rebalLeaf_total (ws : Array (WsItem K)) (N0 P0 : Nat) (wok : WsOk ws N0 P0) (q : Q K) (indices : Array Nat)
    (par plane : Nat) (hsz : indices.size ≤ 4) (hst : StOk ws N0 P0 q) (hnd : indices.toList.Nodup)
    (hrange : ∀ i ∈ indices, i < ws.size) : ∃ r, rebalLeaf ws q indices par plane = some r := by
  obtain ⟨⟨hasLeaf, hasInternal⟩, hfl⟩ := leafFlags_some ws indices.toList (false, false)
    (fun i hi => hrange i (by simpa using hi))
  obtain ⟨hall, hL, hI⟩ := leafFlags_spec ws _ _ _ _ _ hfl
  simp only [Bool.false_eq_true, false_or] at hL hI
  unfold rebalLeaf
  simp only [hfl]
  cases ha : (if hasInternal = true then allocNode q else (q, MAXN)) with | mk qa I =>
  dsimp only
  cases hb : (if hasLeaf = true then allocNode qa else (qa, MAXN)) with | mk qb L =>
  dsimp only
  have A2 : Alloc2Out q hasInternal hasLeaf qb I L := by
    have := alloc2_spec q N0 hst.flNodup hst.flLt hst.n0 hasInternal hasLeaf
    simp only [alloc2, ha, hb] at this
    exact this
  have hlen4 : indices.toList.length ≤ 4 := by simpa using hsz
  obtain ⟨a, hloop⟩ := rebalLeafLoop_some ws L I indices.toList 0
    { q := qb, leafAabb := invalidBox, internalAabb := invalidBox, leafBoxes := Vector.replicate 4 invalidBox,
      internalBoxes := Vector.replicate 4 invalidBox, proxyIds := Vector.replicate 4 MAXN,
      internalIds := Vector.replicate 4 MAXN, laneWithLeaf := MAXN } (by omega) (by
      intro i hi
      obtain ⟨it, e⟩ := hall i hi
      refine ⟨it, e, fun hlf => ?_, fun hlf => ?_⟩
      · dsimp only; rw [A2.prox, hst.p0]; exact (wok.leafLt i it e hlf).1
      · dsimp only
        have := (wok.keptLt i it e hlf).1
        have := hst.n0; have := A2.frame.nsize
        omega)
  simp only [hloop]
  have o := rebalLeafLoop_spec ws N0 P0 wok L I _ _ _ _ hloop hnd
  have hlane : ¬ ((hasInternal && hasLeaf && !decide (a.laneWithLeaf < 4)) = true) := by
    intro hc
    simp only [Bool.and_eq_true, Bool.not_eq_true', decide_eq_false_iff_not] at hc
    obtain ⟨⟨_, hh⟩, hlt⟩ := hc
    rcases o.lane with ⟨i, hi, _, e⟩ | ⟨hno, _⟩
    · omega
    · exact hno (hL.1 hh)
  simp only [hlane, if_false]
  have hIlt : hasInternal = true → I < a.q.nodes.size := fun hh => by rw [o.nsize]; exact A2.ltI hh
  have hLlt : hasLeaf = true → L < a.q.nodes.size := fun hh => by rw [o.nsize]; exact A2.ltL hh
  cases hasInternal <;> cases hasLeaf
  · exact ⟨_, rfl⟩
  · simp only [Bool.false_eq_true, if_false, if_true, writeNode, hLlt rfl]; exact ⟨_, rfl⟩
  · simp only [Bool.false_eq_true, if_false, if_true, writeNode, hIlt rfl]; exact ⟨_, rfl⟩
  · simp only [if_true, writeNode, hIlt rfl, Array.size_setIfInBounds, hLlt rfl]; exact ⟨_, rfl⟩

/-- **`do_recurse_rebalance` terminates: the fuel = number of indices suffices**, and no index panics, on every state
whose free list holds old, pairwise different node indices and every duplicate-free slice of a well-formed workspace. -/
theorem rebalRec_total (ws : Array (WsItem K)) (N0 P0 : Nat) (wok : WsOk ws N0 P0) (margin : K) :
    ∀ (fuel : Nat) (q : Q K) (indices : Array Nat) (par plane : Nat), indices.size ≤ fuel → StOk ws N0 P0 q →
      indices.toList.Nodup → (∀ i ∈ indices, i < ws.size) →
      ∃ r, rebalRec ws margin fuel q indices par plane = some r := by
  intro fuel
  induction fuel with
  | zero =>
    intro q indices par plane hf hst hnd hrange
    unfold rebalRec
    have hsz : indices.size ≤ 4 := by omega
    simp only [hsz, if_true]
    exact rebalLeaf_total ws N0 P0 wok q indices par plane hsz hst hnd hrange
  | succ fuel ih =>
    intro q indices par plane hf hst hnd hrange
    unfold rebalRec
    by_cases hsz : indices.size ≤ 4
    · simp only [hsz, if_true]
      exact rebalLeaf_total ws N0 P0 wok q indices par plane hsz hst hnd hrange
    · have hrange' : ∀ x ∈ indices, x < (ws.map (·.box)).size := by intro x hx; simpa using hrange x hx
      obtain ⟨c, d0, d1, hcd⟩ := centerDims_some (ws.map (·.box)) indices hrange'
      obtain ⟨s0, s1, s2, s3, hsp, perm, hlt⟩ := splitDataset_spec (ws.map (·.box)) d0 d1 c indices hrange'
      obtain ⟨l0, l1, l2, l3⟩ := hlt (by omega)
      have hnd' : (s0 ++ s1 ++ (s2 ++ s3)).toList.Nodup := (Array.perm_iff_toList_perm.1 perm).nodup_iff.2 hnd
      simp only [Array.toList_append, List.nodup_append, List.mem_append, Array.mem_toList_iff] at hnd'
      obtain ⟨⟨n0, n1, _⟩, ⟨n2, n3, _⟩, _⟩ := hnd'
      have hmem : ∀ x, (x ∈ s0 ∨ x ∈ s1 ∨ x ∈ s2 ∨ x ∈ s3) → x ∈ indices := by
        intro x hx
        apply perm.mem_iff.1
        simp only [Array.mem_append]
        rcases hx with h | h | h | h <;> simp [h]
      -- the placeholder
      obtain ⟨⟨q0, nid⟩, hal⟩ : ∃ r, allocOpen q par plane = some r := by
        unfold allocOpen allocWrite
        cases hf' : q.freeList with
        | nil => exact ⟨_, rfl⟩
        | cons n rest =>
          have hnlt : n < q.nodes.size := by have := hst.flLt n (by simp [hf']); have := hst.n0; omega
          simp only [writeNode, hnlt, if_true, Option.map_some]; exact ⟨_, rfl⟩
      obtain ⟨fA, pA, aA, lA, sA, nA⟩ := allocOpen_spec q par plane N0 hst.flNodup hst.flLt hst.n0 q0 nid hal
      have st0 := hst.frame fA
      have hal' : allocWrite q ⟨Vector.replicate 4 invalidBox, Vector.replicate 4 0, par, plane, false, false, false⟩ = some (q0, nid) := hal
      simp only [hsz, if_false, hcd, hal', hsp]
      obtain ⟨⟨q1, c0, b0⟩, e0⟩ := ih q0 s0 nid 0 (by omega) st0 n0 (fun x hx => hrange x (hmem x (Or.inl hx)))
      have o0 := rebalRec_spec ws N0 P0 wok margin _ _ _ _ _ _ e0 st0 n0 (fun x hx => hrange x (hmem x (Or.inl hx)))
      have st1 := st0.frame o0.frame
      obtain ⟨⟨q2, c1, b1⟩, e1⟩ := ih q1 s1 nid 1 (by omega) st1 n1 (fun x hx => hrange x (hmem x (Or.inr (Or.inl hx))))
      have o1 := rebalRec_spec ws N0 P0 wok margin _ _ _ _ _ _ e1 st1 n1 (fun x hx => hrange x (hmem x (Or.inr (Or.inl hx))))
      have st2 := st1.frame o1.frame
      obtain ⟨⟨q3, c2, b2⟩, e2⟩ := ih q2 s2 nid 2 (by omega) st2 n2 (fun x hx => hrange x (hmem x (Or.inr (Or.inr (Or.inl hx)))))
      have o2 := rebalRec_spec ws N0 P0 wok margin _ _ _ _ _ _ e2 st2 n2 (fun x hx => hrange x (hmem x (Or.inr (Or.inr (Or.inl hx)))))
      have st3 := st2.frame o2.frame
      obtain ⟨⟨q4, c3, b3⟩, e3⟩ := ih q3 s3 nid 3 (by omega) st3 n3 (fun x hx => hrange x (hmem x (Or.inr (Or.inr (Or.inr hx)))))
      have o3 := rebalRec_spec ws N0 P0 wok margin _ _ _ _ _ _ e3 st3 n3 (fun x hx => hrange x (hmem x (Or.inr (Or.inr (Or.inr hx)))))
      simp only [e0, e1, e2, e3]
      have hlt4 : nid < q4.nodes.size := by
        have a0 := o0.frame.nsize; have a1 := o1.frame.nsize; have a2 := o2.frame.nsize; have a3 := o3.frame.nsize
        dsimp only at a0 a1 a2 a3
        omega
      simp only [show q4.nodes[nid]? = some q4.nodes[nid] by simp [hlt4]]
      exact ⟨_, rfl⟩
