import ParryModel.C08.TermLemmas
/-!
# C08: the two facts behind the termination of `refit` — the root carries the invalid parent index, queued indices are
not on the free list — as invariants of the update operations on states with a NON-EMPTY free list (core-style proofs).
-/
namespace C08
open Model Model.Qbvh
set_option linter.unusedSectionVars false
set_option linter.unusedVariables false
set_option linter.unusedSimpArgs false
variable {K : Type} [Num K]

/-- the root carries `NodeIndex::invalid()` as parent; no queued index is on the free list -/
structure Aux2 (q : Q K) : Prop where
  rootPar : ∀ r : Node K, q.nodes[0]? = some r → r.parent = MAXN
  dirtyLive : ∀ n ∈ q.dirtyNodes, Live q n

/-- a step that keeps the free list and the root's parent, and queues only live nodes -/
structure AuxStep (q q' : Q K) : Prop where
  free : q'.freeList = q.freeList
  root : ∀ r' : Node K, q'.nodes[0]? = some r' → (∃ r : Node K, q.nodes[0]? = some r ∧ r'.parent = r.parent) ∨ r'.parent = MAXN
  dirty : ∀ n ∈ q'.dirtyNodes, n ∈ q.dirtyNodes ∨ Live q' n

theorem AuxStep.refl (q : Q K) : AuxStep q q := ⟨rfl, fun r h => Or.inl ⟨r, h, rfl⟩, fun n h => Or.inl h⟩

theorem AuxStep.trans {a b c : Q K} (h1 : AuxStep a b) (h2 : AuxStep b c) : AuxStep a c := by
  refine ⟨by rw [h2.free, h1.free], ?_, ?_⟩
  · intro r'' hr
    rcases h2.root r'' hr with ⟨r', e1, e2⟩ | e
    · rcases h1.root r' e1 with ⟨r, f1, f2⟩ | f
      · exact Or.inl ⟨r, f1, by rw [e2, f2]⟩
      · exact Or.inr (by rw [e2, f])
    · exact Or.inr e
  · intro n hn
    rcases h2.dirty n hn with h | h
    · rcases h1.dirty n h with h' | h'
      · exact Or.inl h'
      · exact Or.inr (by simpa [Live, h2.free] using h')
    · exact Or.inr h

theorem Aux2.step {q q' : Q K} (a : Aux2 q) (s : AuxStep q q') : Aux2 q' := by
  refine ⟨?_, ?_⟩
  · intro r' hr
    rcases s.root r' hr with ⟨r, e1, e2⟩ | e
    · rw [e2]; exact a.rootPar r e1
    · exact e
  · intro n hn
    rcases s.dirty n hn with h | h
    · have := a.dirtyLive n h
      simpa [Live, s.free] using this
    · exact h

theorem auxStep_of_topoEq {q q' : Q K} (e : TopoEq q q') (hd : ∀ n ∈ q'.dirtyNodes, n ∈ q.dirtyNodes ∨ Live q' n) :
    AuxStep q q' :=
  ⟨e.free, fun r' hr' => by
    obtain ⟨r, hr, _, hp, _⟩ := e.node 0 r' hr'
    exact Or.inl ⟨r, hr, hp⟩, hd⟩

theorem auxStep_remove (q q' : Q K) (id : Nat) (b : Bool) (hinv : Inv q) (hr : remove q id = some (q', b)) : AuxStep q q' := by
  unfold remove at hr
  split at hr
  · cases hr; exact AuxStep.refl q
  · rename_i pr hpr
    split at hr
    · cases hr; exact AuxStep.refl q
    · rename_i nd hnd
      split at hr
      · cases hr
        have hne : pr.node ≠ MAXN := by
          have := (Array.getElem?_eq_some_iff.mp hnd).1; have := hinv.small; omega
        have hlive := (hinv.proxyLeaf id pr hpr hne).1
        refine ⟨rfl, ?_, ?_⟩
        · intro r' hr'
          simp only [Array.getElem?_setIfInBounds] at hr'
          split at hr'
          · rename_i e
            split at hr'
            · cases hr'; left; exact ⟨nd, by rw [← e]; exact hnd, rfl⟩
            · cases hr'
          · exact Or.inl ⟨r', hr', rfl⟩
        · intro n hn
          dsimp only at hn
          split at hn
          · exact Or.inl hn
          · simp only [List.mem_cons] at hn
            rcases hn with rfl | hn
            · exact Or.inr hlive
            · exact Or.inl hn
      · cases hr

theorem auxStep_ensureRoot (q : Q K) : AuxStep q (ensureRoot q) := by
  unfold ensureRoot
  split
  · refine ⟨rfl, ?_, fun n h => Or.inl h⟩
    intro r' hr'
    simp at hr'; subst hr'; right; rfl
  · exact AuxStep.refl q

theorem auxStep_ensureProxy (q : Q K) (id : Nat) : AuxStep q (ensureProxy q id) := by
  refine ⟨?_, ?_, ?_⟩
  · unfold ensureProxy; simp only; split <;> rfl
  · intro r' hr'
    rw [ensureProxy_nodes] at hr'
    exact Or.inl ⟨r', hr', rfl⟩
  · intro n hn
    left
    unfold ensureProxy at hn; simp only at hn; split at hn <;> exact hn

theorem auxStep_addRootLeaf (q : Q K) (root : Node K) (ii : Nat) (hroot : q.nodes[0]? = some root) :
    AuxStep q (addRootLeaf q root ii) := by
  have hpos : 0 < q.nodes.size := (Array.getElem?_eq_some_iff.mp hroot).1
  refine ⟨rfl, ?_, fun n h => Or.inl h⟩
  intro r' hr'
  unfold addRootLeaf at hr'
  simp only [Array.getElem?_setIfInBounds, Array.size_push] at hr'
  simp at hr'
  subst hr'
  exact Or.inl ⟨root, hroot, rfl⟩

theorem auxStep_attachProxy (q : Q K) (id child kk : Nat) (cn : Node K) (hcn : q.nodes[child]? = some cn)
    (hlive : Live q child) : AuxStep q (attachProxy q id child kk cn) := by
  refine ⟨rfl, ?_, ?_⟩
  · intro r' hr'
    unfold attachProxy at hr'
    simp only [Array.getElem?_setIfInBounds] at hr'
    split at hr'
    · rename_i e
      split at hr'
      · cases hr'; left; exact ⟨cn, by rw [← e]; exact hcn, rfl⟩
      · cases hr'
    · exact Or.inl ⟨r', hr', rfl⟩
  · intro n hn
    unfold attachProxy at hn
    dsimp only at hn
    split at hn
    · exact Or.inl hn
    · simp only [List.mem_cons] at hn
      rcases hn with rfl | hn
      · exact Or.inr hlive
      · exact Or.inl hn

theorem auxStep_attachLoop (id : Nat) (pr : Proxy) (lanes : List Nat) :
    ∀ (q q' : Q K) (b : Bool), Inv q → q.proxies[id]? = some pr → pr.node = MAXN → (∀ l ∈ lanes, l < 4) →
      q.nodes.size + lanes.length ≤ MAXN → attachLoop id lanes q = some (q', b) → AuxStep q q' := by
  induction lanes with
  | nil =>
    intro q q' b _ _ _ _ _ h
    simp only [attachLoop, Option.some.injEq, Prod.mk.injEq] at h; rw [← h.1]; exact AuxStep.refl q
  | cons ii rest ih =>
    intro q q' b hinv hpr hdet hl hsz h
    simp only [List.length_cons] at hsz
    unfold attachLoop at h
    split at h
    · cases h
    · split at h
      · cases h
      · rename_i _ root hroot _ child0 hchild0
        obtain ⟨_, _, hch, _⟩ := root_facts q root hinv hroot
        have hnew : Live q q.nodes.size := fun hm => Nat.lt_irrefl _ (hinv.freeBound _ hm)
        -- the state after the optional creation of a root leaf
        have s1 : AuxStep q (if child0 = MAXN then addRootLeaf q root ii else q) := by
          split
          · exact auxStep_addRootLeaf q root ii hroot
          · exact AuxStep.refl q
        have i1 : Inv (if child0 = MAXN then addRootLeaf q root ii else q) := by
          split
          · rename_i e; subst e
            exact inv_addRootLeaf q root ii hinv hroot hchild0 (by omega)
          · exact hinv
        have p1 : (if child0 = MAXN then addRootLeaf q root ii else q).proxies = q.proxies := by split <;> rfl
        have z1 : (if child0 = MAXN then addRootLeaf q root ii else q).nodes.size ≤ q.nodes.size + 1 := by
          split
          · simp [addRootLeaf]
          · omega
        have l1 : Live (if child0 = MAXN then addRootLeaf q root ii else q) (if child0 = MAXN then q.nodes.size else child0) := by
          split
          · exact hnew
          · rename_i e; exact (hch ii child0 hchild0 e).2.1
        simp only at h
        split at h
        · cases h
        · rename_i cn hcn
          have hrec : ∀ (q'' : Q K) (b' : Bool), attachLoop id rest (if child0 = MAXN then addRootLeaf q root ii else q) = some (q'', b') →
              AuxStep q q'' := fun q'' b' h' =>
            s1.trans (ih _ q'' b' i1 (by rw [p1]; exact hpr) hdet (fun l hm => hl l (by simp [hm])) (by omega) h')
          split at h
          · exact hrec _ _ h
          · split at h
            · exact hrec _ _ h
            · simp only [Option.some.injEq, Prod.mk.injEq] at h
              rw [← h.1]
              exact s1.trans (auxStep_attachProxy _ id _ _ cn hcn l1)

theorem auxStep_splitRoot (fixRoot : Bool) (q q' : Q K) (id : Nat) (h : Inv q)
    (hs : splitRoot fixRoot q id = some q') : AuxStep q q' := by
  unfold splitRoot at hs
  split at hs
  · cases hs
  · rename_i root hroot
    obtain ⟨_, hlive0, _, h00⟩ := root_facts q root h hroot
    have v := splitView q root id hroot h00
    have hfresh : ∀ n, q.nodes.size ≤ n → n ∉ q.freeList := fun n hn hm => by have := h.freeBound n hm; omega
    cases hp : splitRootPinned q id with
    | none => rw [hp] at hs; cases hs
    | some q1 =>
      rw [hp] at hs
      simp only [Option.map_some, Option.some.injEq] at hs
      have a1 : AuxStep q q1 := by
        unfold splitRootPinned at hp
        simp only [hroot, Option.some.injEq] at hp
        subst hp
        refine ⟨rfl, ?_, ?_⟩
        · intro r' hr'
          have : (splitNodes q root id)[0]? = some r' := hr'
          rw [v.g0] at this; cases this
          exact Or.inl ⟨root, hroot, rfl⟩
        · intro n hn
          simp only [List.mem_cons] at hn
          rcases hn with rfl | hn
          · exact Or.inr (hfresh _ (by omega))
          · exact Or.inl hn
      have hf1 : q1.freeList = q.freeList := a1.free
      have hsz1 : q1.nodes.size = q.nodes.size + 2 := by
        unfold splitRootPinned at hp
        simp only [hroot, Option.some.injEq] at hp
        subst hp
        exact size_splitNodes q root id
      subst hs
      split
      · refine a1.trans ?_
        unfold scheduleRoot
        split
        · refine ⟨rfl, fun r hr => Or.inl ⟨r, hr, rfl⟩, ?_⟩
          intro n hn
          simp only [List.mem_cons] at hn
          rcases hn with rfl | hn
          · exact Or.inr (by simpa [Live, hf1] using hfresh _ (Nat.le_refl _))
          · exact Or.inl hn
        · split
          · rename_i r hr
            refine ⟨rfl, ?_, ?_⟩
            · intro r' hr'
              simp only [Array.getElem?_setIfInBounds] at hr'
              have hpos : 0 < q1.nodes.size := (Array.getElem?_eq_some_iff.mp hr).1
              simp only [if_true, hpos] at hr'
              cases hr'
              exact Or.inl ⟨r, hr, rfl⟩
            · intro n hn
              simp only [List.mem_cons] at hn
              rcases hn with rfl | hn
              · exact Or.inr (by simpa [Live, hf1] using hlive0)
              · exact Or.inl hn
          · exact AuxStep.refl _
      · exact a1

theorem auxStep_preUpdateOrInsert (fixRoot : Bool) (q q' : Q K) (id : Nat) (h : Inv q) (hid : id < MAXN)
    (hsz : q.nodes.size + 8 ≤ MAXN) (hq : preUpdateOrInsert fixRoot q id = some q') : AuxStep q q' := by
  have s1 : AuxStep q (ensureProxy (ensureRoot q) id) := (auxStep_ensureRoot q).trans (auxStep_ensureProxy _ id)
  have h1 : Inv (ensureProxy (ensureRoot q) id) := inv_ensureProxy _ id (inv_ensureRoot q h) hid
  obtain ⟨hpos, hle⟩ := ensureRoot_size q
  have hnodes := ensureProxy_nodes (ensureRoot q) id
  obtain ⟨pr, hpr⟩ := ensureProxy_get (ensureRoot q) id
  unfold preUpdateOrInsert at hq
  simp only [hpr] at hq
  by_cases hdet : pr.node = MAXN
  · simp only [hdet, if_true] at hq
    obtain ⟨q2, b, e1, e2, e3, e4⟩ := inv_attachLoop id pr [0, 1, 2, 3] _ h1 hpr hdet (by simp)
      (by rw [hnodes]; exact hpos) (by rw [hnodes]; simp; omega)
    have s2 := auxStep_attachLoop id pr [0, 1, 2, 3] _ q2 b h1 hpr hdet (by simp) (by rw [hnodes]; simp; omega) e1
    rw [e1] at hq
    cases b with
    | true => simp only [Option.some.injEq] at hq; rw [← hq]; exact s1.trans s2
    | false => simp only at hq; exact (s1.trans s2).trans (auxStep_splitRoot fixRoot q2 q' id e2 hq)
  · simp only [hdet, if_false] at hq
    obtain ⟨plive, nd, hnd, _, _⟩ := h1.proxyLeaf id pr hpr hdet
    simp only [hnd] at hq
    split at hq
    · simp only [Option.some.injEq] at hq; rw [← hq]; exact s1
    · simp only [Option.some.injEq] at hq; rw [← hq]
      refine s1.trans (auxStep_of_topoEq (topoEq_markDirty _ _ _ hnd) ?_)
      intro n hn
      simp only [markDirty, List.mem_cons] at hn
      rcases hn with rfl | hn
      · exact Or.inr (by simpa [Live, markDirty] using plive)
      · exact Or.inl hn

/-- `refit` returns with an empty work list -/
theorem refitLoop_dirty_nil (cur : Nat → Aabb3 K) (margin : K) (fuel : Nat) :
    ∀ (first : Bool) (q : Q K) (num : Nat) (r : Q K × Nat), refitLoop cur margin fuel first q num = some r →
      r.1.dirtyNodes = [] := by
  induction fuel with
  | zero =>
    intro first q num r h
    unfold refitLoop at h
    split at h
    · cases h; rename_i he; simpa using he
    · cases h
  | succ fuel ih =>
    intro first q num r h
    unfold refitLoop at h
    split at h
    · cases h; rename_i he; simpa using he
    · exact ih _ _ _ _ h

theorem aux2_refit (q : Q K) (cur : Nat → Aabb3 K) (margin : K) (r : Q K × Nat) (a : Aux2 q)
    (h : refit q cur margin = some r) : Aux2 r.1 := by
  have e := topoEq_refit q cur margin r h
  refine ⟨?_, ?_⟩
  · intro r' hr'
    obtain ⟨x, hx, _, hp, _⟩ := e.node 0 r' hr'
    rw [hp]; exact a.rootPar x hx
  · intro n hn
    obtain ⟨r0, h0, rfl⟩ := refit_eq q cur margin r h
    simp only [syncRootAabb_dirtyNodes] at hn
    rw [refitLoop_dirty_nil cur margin _ _ _ _ _ h0] at hn
    cases hn

theorem aux2_empty : Aux2 (Q.empty : Q K) := ⟨fun r hr => by simp [Q.empty] at hr, fun n hn => by simp [Q.empty] at hn⟩

/-- `refit` terminates on every state satisfying `Inv` and `Aux2` (whatever is on the free list) -/
theorem refit_total2 (q : Q K) (h : Inv q) (a : Aux2 q) (cur : Nat → Aabb3 K) (margin : K) :
    ∃ r : Q K × Nat, refit q cur margin = some r := by
  refine refit_total q h ?_ (fun n hn _ _ => a.dirtyLive n hn) cur margin
  intro r hr
  rw [a.rootPar r hr]
  exact Array.getElem?_eq_none (by have := h.small; omega)
