import ParryModel.Field
import ParryModel.C08.FieldLemmas
import ParryModel.C08.RebalanceLemmas
import ParryModel.C08.Theorems3
/-!
# C08 property theorems, part 4: boxes under `rebalance`, and full histories ending valid

Exact arithmetic over any linearly ordered field (`fieldNum K sq`), corrected root split (`fixRoot = true`).
-/
namespace C08
open Model Model.Qbvh

section boxes
variable {K : Type} [Field K] [LinearOrder K] [IsStrictOrderedRing K] (sq : K → K)

/-- the order facts used by `do_recurse_rebalance` hold over every linearly ordered field, for every margin `≥ 0` -/
theorem boxCtx_fieldNum (m : K) (hm : 0 ≤ m) : @BoxCtx K (fieldNum K sq) m := by
  letI := fieldNum K sq
  exact ⟨boxLaws_fieldNum sq, fun a b => (mergeBox_contains sq a b).1, fun a b => (mergeBox_contains sq a b).2, hm⟩

/-- **`rebalance_preserves_inv`, boxes: `rebalance` preserves the box invariant** ("This assumes that the leaf AABBs have
already been updated with `refit`").  If every live node's lane boxes contain what is below them (`BoxInv`: what `refit`
establishes) then after `rebalance(margin)` with `margin ≥ 0` the same holds for the rebalanced tree — on both paths:
new leaves take over the old lane boxes of their proxies, new internal nodes the (loosened) merged boxes of their
children, kept subtrees are untouched; on the full-rebuild path the tree is rebuilt (dilation 0) from the old lane boxes.
Together with `Inv` for the new tree. -/
theorem rebalance_preserves_boxInv (q q' : Q K) (margin : K) (cur : Nat → Aabb3 K) :
    letI := fieldNum K sq
    0 ≤ margin → Inv q → DataOk q → 4 * q.proxies.size + 2 ≤ MAXN → q'.nodes.size ≤ MAXN →
      rebalance q margin = some q' → BoxInv q cur → Inv q' ∧ BoxInv q' cur := by
  letI := fieldNum K sq
  intro hm hinv hd hp hfit hr hb
  obtain ⟨q'', e, out⟩ := rebalance_spec q margin hinv hd hp (fun x hx => by rw [hr] at hx; cases hx; exact hfit)
  rw [hr] at e; cases e
  exact ⟨out.inv, out.boxInv (boxCtx_fieldNum sq margin hm) (dilateLaws_zero sq) cur hb⟩

/-- the tree is settled: every stored box is up to date and no node carries the DIRTY flag (the state after `refit`) -/
def Settled (q : Q K) (cur : Nat → Aabb3 K) : Prop :=
  letI := fieldNum K sq
  BoxInv q cur ∧ ∀ (n : Nat) (nd : Node K), q.nodes[n]? = some nd → nd.dirty = false

/-- well-formed operations: ids below the sentinel, margins and dilation factors `≥ 0`, rebuilt leaves with pairwise
different ids and valid boxes -/
def Op2OkB : Op2 K → Prop
  | .base (.insert id _) => id < MAXN
  | .base (.refit m) => 0 ≤ m
  | .base _ => True
  | .rebalance m => 0 ≤ m
  | .rebuild items dil => (items.map (·.1)).Nodup ∧ (∀ it ∈ items, it.1 < MAXN) ∧ 4 * items.length + 2 ≤ MAXN ∧ 0 ≤ dil ∧
      letI := fieldNum K sq
      ∀ it ∈ items, ValidBox it.2

/-- operations after which the tree is settled -/
def settles : Op2 K → Bool
  | .base (.refit _) => true
  | .rebalance _ => true
  | .rebuild _ _ => true
  | _ => false

def isRebalance : Op2 K → Bool
  | .rebalance _ => true
  | _ => false

/-- `rebalance` is only called on a settled tree — right after `refit`, `clear_and_rebuild` or another `rebalance` — as its
documentation requires (`s` = the tree is settled before the first operation) -/
def WellPlaced : Bool → List (Op2 K) → Prop
  | _, [] => True
  | s, op :: rest => (isRebalance op = true → s = true) ∧ WellPlaced (settles op) rest

/-- **one operation of a full history keeps every out-of-date node queued** (`Full`), and leaves the tree settled if it
is a `refit`, a `clear_and_rebuild`, or a `rebalance` of a settled tree -/
theorem step2_preserves_full (w w' : World K) (op : Op2 K) (s : Bool) :
    letI := fieldNum K sq
    Full w.q w.cur → (s = true → Settled sq w.q w.cur) → Op2OkB sq op → (isRebalance op = true → s = true) →
      SmallState w.q → w'.q.nodes.size ≤ MAXN → step2 true w op = some w' →
      Full w'.q w'.cur ∧ (settles op = true → Settled sq w'.q w'.cur) := by
  letI := fieldNum K sq
  intro hf hs hok hplace hsm hfit hstep
  cases op with
  | base op =>
    cases op with
    | insert id box =>
      simp only [step2, step] at hstep
      cases hq : preUpdateOrInsert true w.q id with
      | none => rw [hq] at hstep; cases hstep
      | some q' =>
        rw [hq] at hstep; simp only [Option.map_some, Option.some.injEq] at hstep; subst hstep
        exact ⟨full_preUpdateOrInsert (boxLaws_fieldNum sq) w.q q' w.cur id box hf hok hsm.1 hq, fun h => by cases h⟩
    | remove id =>
      simp only [step2, step] at hstep
      cases hq : remove w.q id with
      | none => rw [hq] at hstep; cases hstep
      | some r =>
        rw [hq] at hstep; simp only [Option.map_some, Option.some.injEq] at hstep; subst hstep
        exact ⟨full_remove w.q r.1 w.cur id r.2 hf hq, fun h => by cases h⟩
    | refit m =>
      simp only [step2, step] at hstep
      cases hq : refit w.q w.cur m with
      | none => rw [hq] at hstep; cases hstep
      | some r =>
        rw [hq] at hstep; simp only [Option.map_some, Option.some.injEq] at hstep; subst hstep
        obtain ⟨_, hb, _, hc⟩ := refit_establishes (boxLaws_fieldNum sq) w.q w.cur m hok hf.inv hf.tracked hf.dq r hq
        exact ⟨(full_refit (boxLaws_fieldNum sq) w.q w.cur m hok hf r hq).1, fun _ => ⟨hb, hc⟩⟩
  | rebalance m =>
    simp only [step2] at hstep
    cases hq : rebalance w.q m with
    | none => rw [hq] at hstep; cases hstep
    | some q' =>
      rw [hq] at hstep; simp only [Option.map_some, Option.some.injEq] at hstep; subst hstep
      obtain ⟨hb, hc⟩ := hs (hplace rfl)
      obtain ⟨q'', e, out⟩ := rebalance_spec w.q m hf.inv hf.data hsm.2 (fun x hx => by rw [hq] at hx; cases hx; exact hfit)
      rw [hq] at e; cases e
      have hb' := out.boxInv (boxCtx_fieldNum sq m hok) (dilateLaws_zero sq) w.cur hb
      have hc' := out.clean hc
      exact ⟨⟨out.inv, tracked_of_boxInv _ _ hb', dirtyQueued_of_clean _ hc', out.data hf.data⟩, fun _ => ⟨hb', hc'⟩⟩
  | rebuild items dil =>
    simp only [step2] at hstep
    obtain ⟨h1, h2, h3, h4, h5⟩ := hok
    obtain ⟨q'', e, out⟩ := rebuild_spec w.q items dil h1 h2 h3
    rw [e] at hstep; simp only [Option.map_some, Option.some.injEq] at hstep; subst hstep
    have hb' := rebuild_box (boxLaws_fieldNum sq) _ w.q q'' items dil (dilateLaws_fieldNum sq dil h4) w.cur h1 h2 h3
      (fun it hit => Or.inl (h5 it hit)) e
    refine ⟨⟨out.inv, tracked_of_boxInv _ _ hb', dirtyQueued_of_clean _ out.clean, ?_⟩, fun _ => ⟨hb', out.clean⟩⟩
    intro p pr hpr hne
    obtain ⟨pr', a1, a2⟩ := out.data p ((out.attached p pr hpr).1 hne)
    rw [hpr] at a1; cases a1; exact a2

/-- the flag "the tree is settled" after a list of operations -/
def lastFlag (s : Bool) (ops : List (Op2 K)) : Bool := ops.foldl (fun _ op => settles op) s

/-- `Full` holds after every well-placed full history, and the tree is settled when the last operation settles it -/
theorem run2_preserves_full (ops : List (Op2 K)) :
    letI := fieldNum K sq
    ∀ (s : Bool) (w w' : World K), Full w.q w.cur → (s = true → Settled sq w.q w.cur) → (∀ op ∈ ops, Op2OkB sq op) →
      WellPlaced s ops → AllSmall true w ops → run2 true w ops = some w' →
      Full w'.q w'.cur ∧ (lastFlag s ops = true → Settled sq w'.q w'.cur) := by
  letI := fieldNum K sq
  induction ops with
  | nil =>
    intro s w w' hf hs _ _ _ hr
    simp only [run2] at hr; cases hr
    exact ⟨hf, hs⟩
  | cons op ops ih =>
    intro s w w' hf hs hok hwp hsm hr
    simp only [run2] at hr
    cases hst : step2 true w op with
    | none => rw [hst] at hr; cases hr
    | some w1 =>
      rw [hst] at hr
      have hsm1 := hsm.2 w1 hst
      have hsz1 : w1.q.nodes.size ≤ MAXN := by have := hsm1.head.1; omega
      obtain ⟨hf1, hs1⟩ := step2_preserves_full sq w w1 op s hf hs (hok op (by simp)) hwp.1 hsm.1 hsz1 hst
      exact ih (settles op) w1 w' hf1 hs1 (fun o ho => hok o (by simp [ho])) hwp.2 hsm1 hr

/-- **Headline for full histories: after any finite history of `pre_update_or_insert` / `remove` / `refit` / `rebalance` /
`clear_and_rebuild` calls that ends with a `refit`, the tree is structurally valid and every stored box contains the
boxes below it and the current box of its leaf.**  Conditions: ids `< u32::MAX`, margins and dilation factors `≥ 0`,
rebuilt leaves with pairwise different ids and valid boxes, `rebalance` only called on a settled tree (right after
`refit`, `clear_and_rebuild` or `rebalance` — as its documentation requires), all intermediate sizes fit `u32`
(`AllSmall`); corrected root split.  If the run of the model completes, then `Inv` and `BoxInv` hold at the end.
(Completion is proved separately: `full_history_total` / `every_full_history_ends_valid` in `Theorems5.lean`.) -/
theorem full_history_valid_after_refit (ops : List (Op2 K)) (m : K) (w' : World K) :
    letI := fieldNum K sq
    (∀ op ∈ ops, Op2OkB sq op) → 0 ≤ m → WellPlaced false (ops ++ [.base (.refit m)]) →
      AllSmall true World.empty (ops ++ [.base (.refit m)]) →
      run2 true World.empty (ops ++ [.base (.refit m)]) = some w' → Inv w'.q ∧ BoxInv w'.q w'.cur := by
  letI := fieldNum K sq
  intro hok hm hwp hsm hr
  have hok' : ∀ op ∈ ops ++ [Op2.base (Op.refit m)], Op2OkB sq op := by
    intro op hop
    simp only [List.mem_append, List.mem_singleton] at hop
    rcases hop with hop | rfl
    · exact hok op hop
    · exact hm
  obtain ⟨hf, hs⟩ := run2_preserves_full sq _ false World.empty w' (full_empty _) (fun h => by cases h) hok' hwp hsm hr
  have hlast : lastFlag false (ops ++ [Op2.base (Op.refit m)]) = true := by
    simp [lastFlag, List.foldl_append, settles]
  exact ⟨hf.inv, (hs hlast).1⟩

end boxes

/-! ## the hypotheses are satisfiable -/
section examples

/-- `histPark` of `Theorems3.lean` (build six leaves, remove three, refit, rebalance) followed by a refit is well
placed (the rebalance comes right after a refit) and consists of well-formed operations; the decided witnesses
`rebalance_parks_free_list` / `rebuild_clears_free_list` show that the model run completes on it with all executable
invariants true -/
example : WellPlaced (K := ℚ) false (histPark ++ [.base (.refit 0)]) ∧ ∀ op ∈ histPark, Op2OkB (K := ℚ) (fun x => x) op := by
  refine ⟨by simp [histPark, WellPlaced, isRebalance, settles], ?_⟩
  intro op hop
  simp only [histPark, List.mem_cons, List.not_mem_nil, or_false] at hop
  rcases hop with rfl | rfl | rfl | rfl | rfl | rfl
  · refine ⟨by decide, ?_, by decide, le_refl _, ?_⟩
    · intro it hit
      simp only [List.mem_map, List.mem_range] at hit
      obtain ⟨i, hi, rfl⟩ := hit
      show i < MAXN
      unfold MAXN; omega
    · intro it hit
      simp only [List.mem_map, List.mem_range] at hit
      obtain ⟨i, hi, rfl⟩ := hit
      simp [ValidBox, gridCell]
  · trivial
  · trivial
  · trivial
  · exact le_refl (0 : ℚ)
  · exact le_refl (0 : ℚ)

end examples

end C08
