import ParryModel.Field
import ParryModel.C08.Theorems5
import ParryModel.C08.SizeLemmas
/-!
# C08 property theorems, part 10: the `as u32` size guard

`Qbvh` stores node and proxy indices as `u32` (`self.nodes.len() as u32`, `proxy_id as u32`, `nid as u32`, the sentinel
`u32::MAX`); the model works with `Nat` and is exact as long as every count fits.  The earlier history theorems carried
this as hypotheses about the *results* of the run (`hfit`: the node count after `rebalance` fits; `AllSmall`: every state
met along the run is small).  Here these hypotheses are discharged:

* `rebalance_preserves_inv_sized`: `rebalance` needs a bound on its INPUT only (`4·nodes + 3·proxies ≤ u32::MAX`), and
  its output is bounded explicitly (`rebalance_node_count`);
* `u32Guard`: a computable guard on the history alone (a running upper bound of the two counts), proved to imply
  `AllSmall` (`u32Guard_allSmall`: the guard is preserved by every operation), so that the headline theorems hold with the
  guard as their only size condition (`run2_preserves_inv_guarded`, `every_full_history_ends_valid_guarded`).
-/
namespace C08
open Model Model.Qbvh

section guard
variable {K : Type} [Num K]

/-- **node count after `rebalance`**, from any state satisfying the invariant — nothing is assumed about the result.
Re-split path: at most `nodes + proxies` workspace entries, each allocating fewer than three nodes; full-rebuild path:
`4n + 2`. -/
theorem rebalance_node_count (q q' : Q K) (margin : K) (h : Inv q) (hd : DataOk q) (hp : 4 * q.proxies.size + 2 ≤ MAXN)
    (hr : rebalance q margin = some q') :
    q'.nodes.size ≤ max (4 * q.nodes.size + 3 * q.proxies.size) (4 * q.proxies.size + 2) ∧
      q'.proxies.size ≤ q.proxies.size :=
  rebalance_sizes q margin h hd hp q' hr

/-- **`rebalance` never panics, terminates and preserves the invariant under a size bound on its INPUT only**
(`rebalance_preserves_inv` without `hfit`): if `4·nodes + 3·proxies` fits `u32` before the call, every `as u32` cast of
the call is exact, the call completes and `Inv`, `DataOk` hold afterwards, with the node count bounded explicitly. -/
theorem rebalance_preserves_inv_sized (q : Q K) (margin : K) (h : Inv q) (hd : DataOk q)
    (hn : 4 * q.nodes.size + 3 * q.proxies.size ≤ MAXN) (hp : 4 * q.proxies.size + 2 ≤ MAXN) :
    ∃ q' : Q K, rebalance q margin = some q' ∧ Inv q' ∧ DataOk q' ∧ q'.dirtyNodes = q.dirtyNodes ∧
      q'.nodes.size ≤ max (4 * q.nodes.size + 3 * q.proxies.size) (4 * q.proxies.size + 2) ∧
      q'.proxies.size ≤ q.proxies.size := by
  obtain ⟨q', e, a1, a2, a3, _⟩ := rebalance_preserves_inv q margin h hd hp (fun x hx => by
    have := (rebalance_sizes q margin h hd hp x hx).1
    omega)
  have := rebalance_sizes q margin h hd hp q' e
  exact ⟨q', e, a1, a2, a3, this.1, this.2⟩

/-- one more than the largest id of a list of leaves (`0` for the empty list) -/
def idBound (items : List (Nat × Aabb3 K)) : Nat := items.foldl (fun m it => max m (it.1 + 1)) 0

/-- upper bounds of (node count, proxy count) after one operation, from upper bounds before it:
`pre_update_or_insert` pushes at most 8 nodes (the proved bound; the code pushes at most 2 + 2) and resizes the proxies
to `id + 1`; `remove` / `refit` change no count; `rebalance` — `rebalance_node_count`; `clear_and_rebuild` — `4n + 2`
nodes and `max(n, largest id + 1)` proxies. -/
def sizeStep : Nat × Nat → Op2 K → Nat × Nat
  | (N, P), .base (.insert id _) => (N + 8, max P (id + 1))
  | (N, P), .base _ => (N, P)
  | (N, P), .rebalance _ => (max (4 * N + 3 * P) (4 * P + 2), P)
  | (_, _), .rebuild items _ => (4 * items.length + 2, max items.length (idBound items))

/-- **the `as u32` guard of a history**: starting from upper bounds `(N, P)` of the node and proxy counts, the running
bounds `sizeStep` stay small (`N + 8 ≤ u32::MAX`, `4·P + 2 ≤ u32::MAX`) before every operation and at the end.
Computable from the operations alone (ids and list lengths); no model run is needed to evaluate it. -/
def u32Guard : Nat × Nat → List (Op2 K) → Bool
  | (N, P), [] => decide (N + 8 ≤ MAXN ∧ 4 * P + 2 ≤ MAXN)
  | (N, P), op :: ops => decide (N + 8 ≤ MAXN ∧ 4 * P + 2 ≤ MAXN) && u32Guard (sizeStep (N, P) op) ops

theorem u32Guard_head (N P : Nat) (ops : List (Op2 K)) (h : u32Guard (N, P) ops = true) :
    N + 8 ≤ MAXN ∧ 4 * P + 2 ≤ MAXN := by
  cases ops with
  | nil => simpa [u32Guard] using h
  | cons op ops =>
    simp only [u32Guard, Bool.and_eq_true, decide_eq_true_eq] at h
    exact h.1

theorem idBound_spec (items : List (Nat × Aabb3 K)) : ∀ it ∈ items, it.1 < idBound items := by
  have key : ∀ (l : List (Nat × Aabb3 K)) (m : Nat),
      m ≤ l.foldl (fun m it => max m (it.1 + 1)) m ∧ ∀ it ∈ l, it.1 < l.foldl (fun m it => max m (it.1 + 1)) m := by
    intro l
    induction l with
    | nil => intro m; exact ⟨Nat.le_refl _, by simp⟩
    | cons a t ih =>
      intro m
      obtain ⟨h1, h2⟩ := ih (max m (a.1 + 1))
      simp only [List.foldl_cons]
      refine ⟨by omega, ?_⟩
      intro it hit
      rcases List.mem_cons.1 hit with rfl | hit
      · omega
      · exact h2 it hit
  exact (key items 0).2

/-- **one operation respects the running bounds**: on a state satisfying the invariant whose counts are below `(N, P)`
with `(N, P)` small, the counts after the operation are below `sizeStep (N, P) op`. -/
theorem sizeStep_sound (fixRoot : Bool) (w w' : World K) (op : Op2 K) (N P : Nat) (h : Inv w.q) (hd : DataOk w.q)
    (hok : Op2Ok op) (hN : w.q.nodes.size ≤ N) (hP : w.q.proxies.size ≤ P) (hs : N + 8 ≤ MAXN ∧ 4 * P + 2 ≤ MAXN)
    (hstep : step2 fixRoot w op = some w') :
    w'.q.nodes.size ≤ (sizeStep (N, P) op).1 ∧ w'.q.proxies.size ≤ (sizeStep (N, P) op).2 := by
  cases op with
  | base op =>
    cases op with
    | insert id box =>
      simp only [step2, step] at hstep
      obtain ⟨q', e, _, hsz⟩ := inv_preUpdateOrInsert fixRoot w.q id h hok (by omega)
      rw [e] at hstep; simp only [Option.map_some, Option.some.injEq] at hstep; subst hstep
      have := preUpdateOrInsert_psize fixRoot w.q q' id e
      simp only [sizeStep]
      omega
    | remove id =>
      simp only [step2, step] at hstep
      obtain ⟨q', b, e, _⟩ := inv_remove w.q id h
      rw [e] at hstep; simp only [Option.map_some, Option.some.injEq] at hstep; subst hstep
      have := remove_psize w.q q' id b e
      simp only [sizeStep]
      omega
    | refit m =>
      simp only [step2, step] at hstep
      cases hq : refit w.q w.cur m with
      | none => rw [hq] at hstep; cases hstep
      | some r =>
        rw [hq] at hstep; simp only [Option.map_some, Option.some.injEq] at hstep; subst hstep
        have t := topoEq_refit w.q w.cur m r hq
        have := t.size; have := t.psize
        simp only [sizeStep]
        omega
  | rebalance m =>
    simp only [step2] at hstep
    cases hq : rebalance w.q m with
    | none => rw [hq] at hstep; cases hstep
    | some q' =>
      rw [hq] at hstep; simp only [Option.map_some, Option.some.injEq] at hstep; subst hstep
      have := rebalance_sizes w.q m h hd (by omega) q' hq
      simp only [sizeStep]
      omega
  | rebuild items dil =>
    simp only [step2] at hstep
    obtain ⟨q'', e, out⟩ := rebuild_spec w.q items dil hok.1 hok.2.1 hok.2.2
    rw [e] at hstep; simp only [Option.map_some, Option.some.injEq] at hstep; subst hstep
    have := out.count
    have := rebuild_psize w.q q'' items dil e (max items.length (idBound items)) (by omega)
      (fun it hit => by have := idBound_spec items it hit; omega)
    simp only [sizeStep]
    omega

/-- **the guard is preserved: `u32Guard` implies `AllSmall`.**  From any state satisfying the invariant whose counts are
below `(N, P)`: if the guard of the history holds, then every state met along the run of the model is small — i.e. every
`as u32` cast executed along the history is exact. -/
theorem u32Guard_allSmall (fixRoot : Bool) (ops : List (Op2 K)) :
    ∀ (w : World K) (N P : Nat), Inv w.q → DataOk w.q → (∀ op ∈ ops, Op2Ok op) → w.q.nodes.size ≤ N →
      w.q.proxies.size ≤ P → u32Guard (N, P) ops = true → AllSmall fixRoot w ops := by
  induction ops with
  | nil =>
    intro w N P _ _ _ hN hP hg
    have := u32Guard_head N P [] hg
    exact ⟨by omega, by omega⟩
  | cons op ops ih =>
    intro w N P h hd hok hN hP hg
    have hs := u32Guard_head N P _ hg
    have hsm : SmallState w.q := ⟨by omega, by omega⟩
    refine ⟨hsm, ?_⟩
    intro w' hstep
    simp only [u32Guard, Bool.and_eq_true, decide_eq_true_eq] at hg
    have hb := sizeStep_sound fixRoot w w' op N P h hd (hok op (by simp)) hN hP hs hstep
    cases hss : sizeStep (N, P) op with | mk N' P' =>
    rw [hss] at hb hg
    have hs' := u32Guard_head N' P' ops hg.2
    obtain ⟨h', hd'⟩ := step2_preserves_inv fixRoot w w' op h hd (hok op (by simp)) hsm (by have := hb.1; omega) hstep
    exact ih w' N' P' h' hd' (fun o ho => hok o (by simp [ho])) hb.1 hb.2 hg.2

/-- **the invariant holds after every finite history of the five operations whose `u32` guard holds** — the guard is a
condition on the operations alone (`run2_preserves_inv` with `AllSmall` discharged). -/
theorem run2_preserves_inv_guarded (fixRoot : Bool) (ops : List (Op2 K)) (w' : World K)
    (hok : ∀ op ∈ ops, Op2Ok op) (hg : u32Guard (0, 0) ops = true) (hr : run2 fixRoot World.empty ops = some w') :
    Inv w'.q ∧ DataOk w'.q :=
  run2_preserves_inv fixRoot ops World.empty w' inv_empty dataOk_empty hok
    (u32Guard_allSmall fixRoot ops World.empty 0 0 inv_empty dataOk_empty hok (by simp [World.empty, Q.empty])
      (by simp [World.empty, Q.empty]) hg) hr

end guard

section boxes
variable {K : Type} [Field K] [LinearOrder K] [IsStrictOrderedRing K] (sq : K → K)

/-- **Headline with the size guard**: `every_full_history_ends_valid` where the only size condition is the computable
`u32Guard` of the history — every finite history of the five operations followed by a `refit`, whose guard holds,
COMPLETES in the model and ends structurally valid with every stored box containing what is below it. -/
theorem every_full_history_ends_valid_guarded (ops : List (Op2 K)) (m : K) :
    letI := fieldNum K sq
    (∀ op ∈ ops, Op2OkB sq op) → 0 ≤ m → WellPlaced false (ops ++ [.base (.refit m)]) →
      WellPlacedT false (ops ++ [.base (.refit m)]) → u32Guard (0, 0) (ops ++ [.base (.refit m)]) = true →
      ∃ w' : World K, run2 true World.empty (ops ++ [.base (.refit m)]) = some w' ∧ Inv w'.q ∧ BoxInv w'.q w'.cur := by
  letI := fieldNum K sq
  intro hok hm hwp hwt hg
  have hokS : ∀ op ∈ ops ++ [Op2.base (Op.refit m)], Op2Ok op := by
    intro op hop
    simp only [List.mem_append, List.mem_singleton] at hop
    rcases hop with hop | rfl
    · have := hok op hop
      cases op with
      | base o =>
        cases o with
        | insert id box => exact this
        | remove id => trivial
        | refit m' => trivial
      | rebalance m' => trivial
      | rebuild items dil => exact ⟨this.1, this.2.1, this.2.2.1⟩
    · trivial
  exact every_full_history_ends_valid sq ops m hok hm hwp hwt
    (u32Guard_allSmall true _ World.empty 0 0 inv_empty dataOk_empty hokS (by simp [World.empty, Q.empty])
      (by simp [World.empty, Q.empty]) hg)

end boxes

/-! ## the guard is satisfiable, and it is a real restriction -/
section examples

/-- the guard holds on `histPark` (build six leaves, remove three, refit, rebalance) followed by a refit -/
example : u32Guard (K := ℚ) (0, 0) (histPark ++ [.base (.refit 0)]) = true := by decide +kernel

/-- running bounds along `histPark`: 26 nodes / 6 proxies after the rebuild, 122 nodes after the rebalance -/
example : histPark.foldl sizeStep (0, 0) = (122, 6) := by decide +kernel

/-- the guard rejects an id whose proxy table would not fit (`proxies.resize(id + 1)` with `4·(id+1)+2 > u32::MAX`) -/
example : u32Guard (K := ℚ) (0, 0) [.base (.insert 2000000000 ⟨⟨0, 0, 0⟩, ⟨1, 1, 1⟩⟩)] = false := by decide +kernel

end examples

end C08
