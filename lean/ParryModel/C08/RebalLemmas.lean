import ParryModel.C08.BuildLemmas
import ParryModel.C08.RefitLemmas
/-!
# C08: `do_recurse_rebalance` — induction principle, frame facts, termination (core Lean only)
-/
namespace C08
open Model Model.Qbvh
set_option linter.unusedSectionVars false
set_option linter.unusedVariables false
set_option linter.unusedSimpArgs false
variable {K : Type} [Num K]

/-- the internal node after the recursive calls of `do_recurse_rebalance` -/
def loosened4 (m : K) (b0 b1 b2 b3 : Aabb3 K) : Vector (Aabb3 K) 4 :=
  (#v[b0, b1, b2, b3] : Vector (Aabb3 K) 4).map (loosenBox m)

/-- allocation of the placeholder node in the recursive case: pop the free list or push -/
def allocOpen (q : Q K) (par plane : Nat) : Option (Q K × Nat) := allocWrite q (openNode par plane)

/-- **Induction principle for `do_recurse_rebalance`** -/
theorem rebalRec_induct (ws : Array (WsItem K)) (margin : K)
    (P : Q K → Array Nat → Nat → Nat → Q K × Nat × Aabb3 K → Prop)
    (hleaf : ∀ (q : Q K) (indices : Array Nat) (par plane : Nat) (r : Q K × Nat × Aabb3 K), indices.size ≤ 4 →
      rebalLeaf ws q indices par plane = some r → P q indices par plane r)
    (hnode : ∀ (q : Q K) (indices : Array Nat) (par plane : Nat) (center : V3 K) (d0 d1 : Nat) (q0 : Q K) (nid : Nat)
      (s0 s1 s2 s3 : Array Nat) (q1 q2 q3 q4 : Q K) (c0 c1 c2 c3 : Nat) (b0 b1 b2 b3 : Aabb3 K) (nd : Node K),
      ¬ indices.size ≤ 4 → centerDims (ws.map (·.box)) indices = some (center, d0, d1) →
      allocOpen q par plane = some (q0, nid) →
      splitDataset (ws.map (·.box)) true d0 d1 center indices = some (s0, s1, s2, s3) →
      P q0 s0 nid 0 (q1, c0, b0) → P q1 s1 nid 1 (q2, c1, b1) → P q2 s2 nid 2 (q3, c2, b2) → P q3 s3 nid 3 (q4, c3, b3) →
      (∃ f, rebalRec ws margin f q0 s0 nid 0 = some (q1, c0, b0)) →
      (∃ f, rebalRec ws margin f q1 s1 nid 1 = some (q2, c1, b1)) →
      (∃ f, rebalRec ws margin f q2 s2 nid 2 = some (q3, c2, b2)) →
      (∃ f, rebalRec ws margin f q3 s3 nid 3 = some (q4, c3, b3)) →
      q4.nodes[nid]? = some nd →
      P q indices par plane
        ({ q4 with nodes := q4.nodes.setIfInBounds nid (closedNode nd c0 c1 c2 c3 (loosened4 margin b0 b1 b2 b3)) },
          nid, mergedBox (loosened4 margin b0 b1 b2 b3))) :
    ∀ (fuel : Nat) (q : Q K) (indices : Array Nat) (par plane : Nat) (r : Q K × Nat × Aabb3 K),
      rebalRec ws margin fuel q indices par plane = some r → P q indices par plane r := by
  intro fuel
  induction fuel with
  | zero =>
    intro q indices par plane r h
    unfold rebalRec at h
    split at h
    · rename_i hsz; exact hleaf q indices par plane r hsz h
    · cases h
  | succ fuel ih =>
    intro q indices par plane r h
    unfold rebalRec at h
    split at h
    · rename_i hsz; exact hleaf q indices par plane r hsz h
    · rename_i hsz
      simp only at h
      split at h
      · cases h
      · rename_i center d0 d1 hcd
        split at h
        · cases h
        · rename_i q0 nid hal
          split at h
          · cases h
          · rename_i s0 s1 s2 s3 hsp
            split at h
            · cases h
            · rename_i q1 c0 b0 h0
              split at h
              · cases h
              · rename_i q2 c1 b1 h1
                split at h
                · cases h
                · rename_i q3 c2 b2 h2
                  split at h
                  · cases h
                  · rename_i q4 c3 b3 h3
                    split at h
                    · cases h
                    · rename_i nd hnd
                      cases h
                      exact hnode q indices par plane center d0 d1 q0 nid s0 s1 s2 s3 q1 q2 q3 q4 c0 c1 c2 c3 b0 b1 b2 b3 nd
                        hsz hcd hal hsp (ih _ _ _ _ _ h0) (ih _ _ _ _ _ h1) (ih _ _ _ _ _ h2) (ih _ _ _ _ _ h3)
                        ⟨fuel, h0⟩ ⟨fuel, h1⟩ ⟨fuel, h2⟩ ⟨fuel, h3⟩ hnd

/-! ## subtrees over sets of nodes -/

/-- In state `q` the nodes of `Al` (freshly written ones) together with the re-parented old subtree roots `Kp` form a
tree below `root`, which hangs in lane `plane` of `par`; the leaves in `Al` hold exactly the proxies of `S`.
`root = MAXN` is the empty tree.  `rank`: parent pointers inside strictly decrease some measure (no cycles). -/
structure SubS (q : Q K) (Al Kp S : Nat → Prop) (root par plane : Nat) : Prop where
  rootOk : (root = MAXN ∧ ∀ n, ¬ (Al n ∨ Kp n)) ∨
    ((Al root ∨ Kp root) ∧ ∃ nd : Node K, q.nodes[root]? = some nd ∧ nd.parent = par ∧ nd.plane = plane)
  par : ∀ n, (Al n ∨ Kp n) → n ≠ root → ∃ nd pn : Node K, q.nodes[n]? = some nd ∧ Al nd.parent ∧
    q.nodes[nd.parent]? = some pn ∧ pn.leaf = false ∧ pn.children[nd.plane]? = some n
  child : ∀ (n : Nat) (nd : Node K), Al n → q.nodes[n]? = some nd → nd.leaf = false →
    ∀ (l c : Nat), nd.children[l]? = some c → c ≠ MAXN →
      (Al c ∨ Kp c) ∧ c ≠ root ∧ ∃ cn : Node K, q.nodes[c]? = some cn ∧ cn.parent = n ∧ cn.plane = l
  leafProxy : ∀ (n : Nat) (nd : Node K), Al n → q.nodes[n]? = some nd → nd.leaf = true →
    ∀ (l p : Nat), nd.children[l]? = some p → p ≠ MAXN →
      S p ∧ ∃ pr : Proxy, q.proxies[p]? = some pr ∧ pr.node = n ∧ pr.lane = l
  proxyLeaf : ∀ p, S p → ∃ (pr : Proxy) (nd : Node K), q.proxies[p]? = some pr ∧ Al pr.node ∧
    q.nodes[pr.node]? = some nd ∧ nd.leaf = true ∧ nd.children[pr.lane]? = some p
  rank : ∃ μ : Nat → Nat, ∀ n, (Al n ∨ Kp n) → n ≠ root → ∀ nd : Node K, q.nodes[n]? = some nd → μ nd.parent < μ n

/-- `SubS` only looks at the nodes of `Al ∪ Kp` and the proxies of `S` -/
theorem SubS.frame {q q' : Q K} {Al Kp S : Nat → Prop} {root par plane : Nat} (h : SubS q Al Kp S root par plane)
    (hn : ∀ n, (Al n ∨ Kp n) → q'.nodes[n]? = q.nodes[n]?) (hp : ∀ p, S p → q'.proxies[p]? = q.proxies[p]?) :
    SubS q' Al Kp S root par plane := by
  refine ⟨?_, ?_, ?_, ?_, ?_, ?_⟩
  · rcases h.rootOk with h0 | ⟨a, nd, e, r⟩
    · exact Or.inl h0
    · exact Or.inr ⟨a, nd, by rw [hn _ a]; exact e, r⟩
  · intro n hT hne
    obtain ⟨nd, pn, a1, a2, a3, a4, a5⟩ := h.par n hT hne
    exact ⟨nd, pn, by rw [hn n hT]; exact a1, a2, by rw [hn _ (Or.inl a2)]; exact a3, a4, a5⟩
  · intro n nd hA hnd hl l c hc hcm
    obtain ⟨a1, a2, cn, a3, a4, a5⟩ := h.child n nd hA (by rw [← hn n (Or.inl hA)]; exact hnd) hl l c hc hcm
    exact ⟨a1, a2, cn, by rw [hn c a1]; exact a3, a4, a5⟩
  · intro n nd hA hnd hl l p hc hcm
    obtain ⟨a1, pr, a2, a3, a4⟩ := h.leafProxy n nd hA (by rw [← hn n (Or.inl hA)]; exact hnd) hl l p hc hcm
    exact ⟨a1, pr, by rw [hp p a1]; exact a2, a3, a4⟩
  · intro p hs
    obtain ⟨pr, nd, a1, a2, a3, a4, a5⟩ := h.proxyLeaf p hs
    exact ⟨pr, nd, by rw [hp p hs]; exact a1, a2, by rw [hn _ (Or.inl a2)]; exact a3, a4, a5⟩
  · obtain ⟨μ, hμ⟩ := h.rank
    exact ⟨μ, fun n hT hne nd hnd => hμ n hT hne nd (by rw [← hn n hT]; exact hnd)⟩

theorem SubS.congr {q : Q K} {Al Kp S Al' Kp' S' : Nat → Prop} {root par plane : Nat} (h : SubS q Al Kp S root par plane)
    (e1 : ∀ n, Al n ↔ Al' n) (e2 : ∀ n, Kp n ↔ Kp' n) (e3 : ∀ n, S n ↔ S' n) : SubS q Al' Kp' S' root par plane := by
  have a1 : Al = Al' := funext fun n => propext (e1 n)
  have a2 : Kp = Kp' := funext fun n => propext (e2 n)
  have a3 : S = S' := funext fun n => propext (e3 n)
  subst a1 a2 a3; exact h

/-- four disjoint subtrees (possibly empty) hanging in the four lanes of a new internal node `nid` make one subtree -/
theorem SubS.combine {q : Q K} {nid par plane r0 r1 r2 r3 : Nat}
    {A0 A1 A2 A3 K0 K1 K2 K3 S0 S1 S2 S3 : Nat → Prop} (nd : Node K)
    (hnd : q.nodes[nid]? = some nd) (hleaf : nd.leaf = false) (hpar : nd.parent = par) (hplane : nd.plane = plane)
    (hch : nd.children = #v[r0, r1, r2, r3])
    (h0 : SubS q A0 K0 S0 r0 nid 0) (h1 : SubS q A1 K1 S1 r1 nid 1) (h2 : SubS q A2 K2 S2 r2 nid 2)
    (h3 : SubS q A3 K3 S3 r3 nid 3)
    (n0 : ¬ (A0 nid ∨ K0 nid)) (n1 : ¬ (A1 nid ∨ K1 nid)) (n2 : ¬ (A2 nid ∨ K2 nid)) (n3 : ¬ (A3 nid ∨ K3 nid))
    (d01 : ∀ n, (A0 n ∨ K0 n) → ¬ (A1 n ∨ K1 n)) (d02 : ∀ n, (A0 n ∨ K0 n) → ¬ (A2 n ∨ K2 n))
    (d03 : ∀ n, (A0 n ∨ K0 n) → ¬ (A3 n ∨ K3 n)) (d12 : ∀ n, (A1 n ∨ K1 n) → ¬ (A2 n ∨ K2 n))
    (d13 : ∀ n, (A1 n ∨ K1 n) → ¬ (A3 n ∨ K3 n)) (d23 : ∀ n, (A2 n ∨ K2 n) → ¬ (A3 n ∨ K3 n)) :
    SubS q (fun n => n = nid ∨ A0 n ∨ A1 n ∨ A2 n ∨ A3 n) (fun n => K0 n ∨ K1 n ∨ K2 n ∨ K3 n)
      (fun p => S0 p ∨ S1 p ∨ S2 p ∨ S3 p) nid par plane := by
  have k0 : nd.children[0]? = some r0 := by rw [hch]; rfl
  have k1 : nd.children[1]? = some r1 := by rw [hch]; rfl
  have k2 : nd.children[2]? = some r2 := by rw [hch]; rfl
  have k3 : nd.children[3]? = some r3 := by rw [hch]; rfl
  have hlane : ∀ (l c : Nat), nd.children[l]? = some c →
      (l = 0 ∧ c = r0) ∨ (l = 1 ∧ c = r1) ∨ (l = 2 ∧ c = r2) ∨ (l = 3 ∧ c = r3) := by
    intro l c hc
    rw [hch] at hc
    rcases vec4_lane _ l c hc with rfl | rfl | rfl | rfl <;> simp at hc <;> simp [hc]
  -- which of the four parts a node lies in
  have hcase : ∀ n, ((n = nid ∨ A0 n ∨ A1 n ∨ A2 n ∨ A3 n) ∨ (K0 n ∨ K1 n ∨ K2 n ∨ K3 n)) → n ≠ nid →
      (A0 n ∨ K0 n) ∨ (A1 n ∨ K1 n) ∨ (A2 n ∨ K2 n) ∨ (A3 n ∨ K3 n) := by
    intro n h hne
    rcases h with (h | h | h | h | h) | (h | h | h | h)
    · exact absurd h hne
    · exact Or.inl (Or.inl h)
    · exact Or.inr (Or.inl (Or.inl h))
    · exact Or.inr (Or.inr (Or.inl (Or.inl h)))
    · exact Or.inr (Or.inr (Or.inr (Or.inl h)))
    · exact Or.inl (Or.inr h)
    · exact Or.inr (Or.inl (Or.inr h))
    · exact Or.inr (Or.inr (Or.inl (Or.inr h)))
    · exact Or.inr (Or.inr (Or.inr (Or.inr h)))
  -- one part seen from the whole: the parent clause
  have hparOne : ∀ (A Kp S : Nat → Prop) (r k : Nat), SubS q A Kp S r nid k → nd.children[k]? = some r →
      (∀ n, A n → (n = nid ∨ A0 n ∨ A1 n ∨ A2 n ∨ A3 n)) →
      ∀ n, (A n ∨ Kp n) → ∃ x pn : Node K, q.nodes[n]? = some x ∧ (x.parent = nid ∨ A0 x.parent ∨ A1 x.parent ∨ A2 x.parent ∨ A3 x.parent) ∧
        q.nodes[x.parent]? = some pn ∧ pn.leaf = false ∧ pn.children[x.plane]? = some n := by
    intro A Kp S r k hs hk hsub n hT
    by_cases hr : n = r
    · subst hr
      rcases hs.rootOk with ⟨_, he⟩ | ⟨_, x, e, e1, e2⟩
      · exact absurd hT (he n)
      · exact ⟨x, nd, e, Or.inl e1, by rw [e1]; exact hnd, hleaf, by rw [e2]; exact hk⟩
    · obtain ⟨x, pn, a1, a2, a3, a4, a5⟩ := hs.par n hT hr
      exact ⟨x, pn, a1, hsub _ a2, a3, a4, a5⟩
  -- the child clause of one part
  have hchildOne : ∀ (A Kp S : Nat → Prop) (r k : Nat), SubS q A Kp S r nid k → ¬ (A nid ∨ Kp nid) →
      (∀ n, (A n ∨ Kp n) → ((n = nid ∨ A0 n ∨ A1 n ∨ A2 n ∨ A3 n) ∨ (K0 n ∨ K1 n ∨ K2 n ∨ K3 n))) →
      ∀ (n : Nat) (x : Node K), A n → q.nodes[n]? = some x → x.leaf = false → ∀ (l c : Nat), x.children[l]? = some c → c ≠ MAXN →
        ((c = nid ∨ A0 c ∨ A1 c ∨ A2 c ∨ A3 c) ∨ (K0 c ∨ K1 c ∨ K2 c ∨ K3 c)) ∧ c ≠ nid ∧
          ∃ cn : Node K, q.nodes[c]? = some cn ∧ cn.parent = n ∧ cn.plane = l := by
    intro A Kp S r k hs hnid hsub n x hA hx hxl l c hc hcm
    obtain ⟨a1, _, rest⟩ := hs.child n x hA hx hxl l c hc hcm
    exact ⟨hsub c a1, fun e => hnid (e ▸ a1), rest⟩
  have sub0 : ∀ n, (A0 n ∨ K0 n) → ((n = nid ∨ A0 n ∨ A1 n ∨ A2 n ∨ A3 n) ∨ (K0 n ∨ K1 n ∨ K2 n ∨ K3 n)) := by
    intro n h; rcases h with h | h
    · exact Or.inl (Or.inr (Or.inl h))
    · exact Or.inr (Or.inl h)
  have sub1 : ∀ n, (A1 n ∨ K1 n) → ((n = nid ∨ A0 n ∨ A1 n ∨ A2 n ∨ A3 n) ∨ (K0 n ∨ K1 n ∨ K2 n ∨ K3 n)) := by
    intro n h; rcases h with h | h
    · exact Or.inl (Or.inr (Or.inr (Or.inl h)))
    · exact Or.inr (Or.inr (Or.inl h))
  have sub2 : ∀ n, (A2 n ∨ K2 n) → ((n = nid ∨ A0 n ∨ A1 n ∨ A2 n ∨ A3 n) ∨ (K0 n ∨ K1 n ∨ K2 n ∨ K3 n)) := by
    intro n h; rcases h with h | h
    · exact Or.inl (Or.inr (Or.inr (Or.inr (Or.inl h))))
    · exact Or.inr (Or.inr (Or.inr (Or.inl h)))
  have sub3 : ∀ n, (A3 n ∨ K3 n) → ((n = nid ∨ A0 n ∨ A1 n ∨ A2 n ∨ A3 n) ∨ (K0 n ∨ K1 n ∨ K2 n ∨ K3 n)) := by
    intro n h; rcases h with h | h
    · exact Or.inl (Or.inr (Or.inr (Or.inr (Or.inr h))))
    · exact Or.inr (Or.inr (Or.inr (Or.inr h)))
  refine ⟨Or.inr ⟨Or.inl (Or.inl rfl), nd, hnd, hpar, hplane⟩, ?_, ?_, ?_, ?_, ?_⟩
  · intro n hT hne
    rcases hcase n hT hne with h | h | h | h
    · exact hparOne A0 K0 S0 r0 0 h0 k0 (fun n a => (sub0 n (Or.inl a)).elim id (fun _ => Or.inr (Or.inl a))) n h
    · exact hparOne A1 K1 S1 r1 1 h1 k1 (fun n a => Or.inr (Or.inr (Or.inl a))) n h
    · exact hparOne A2 K2 S2 r2 2 h2 k2 (fun n a => Or.inr (Or.inr (Or.inr (Or.inl a)))) n h
    · exact hparOne A3 K3 S3 r3 3 h3 k3 (fun n a => Or.inr (Or.inr (Or.inr (Or.inr a)))) n h
  · intro n x hA hx hxl l c hc hcm
    rcases hA with rfl | hA | hA | hA | hA
    · rw [hnd] at hx; cases hx
      have rootOf : ∀ (A Kp S : Nat → Prop) (r k : Nat), SubS q A Kp S r n k → r ≠ MAXN → ¬ (A n ∨ Kp n) →
          (∀ m, (A m ∨ Kp m) → ((m = n ∨ A0 m ∨ A1 m ∨ A2 m ∨ A3 m) ∨ (K0 m ∨ K1 m ∨ K2 m ∨ K3 m))) →
          ((r = n ∨ A0 r ∨ A1 r ∨ A2 r ∨ A3 r) ∨ (K0 r ∨ K1 r ∨ K2 r ∨ K3 r)) ∧ r ≠ n ∧
            ∃ cn : Node K, q.nodes[r]? = some cn ∧ cn.parent = n ∧ cn.plane = k := by
        intro A Kp S r k hs hr hnid hsub
        rcases hs.rootOk with ⟨e, _⟩ | ⟨a, cn, e, e1, e2⟩
        · exact absurd e hr
        · exact ⟨hsub r a, fun e' => hnid (e' ▸ a), cn, e, e1, e2⟩
      rcases hlane l c hc with ⟨rfl, rfl⟩ | ⟨rfl, rfl⟩ | ⟨rfl, rfl⟩ | ⟨rfl, rfl⟩
      · exact rootOf _ _ _ _ _ h0 hcm n0 sub0
      · exact rootOf _ _ _ _ _ h1 hcm n1 sub1
      · exact rootOf _ _ _ _ _ h2 hcm n2 sub2
      · exact rootOf _ _ _ _ _ h3 hcm n3 sub3
    · exact hchildOne _ _ _ _ _ h0 n0 sub0 n x hA hx hxl l c hc hcm
    · exact hchildOne _ _ _ _ _ h1 n1 sub1 n x hA hx hxl l c hc hcm
    · exact hchildOne _ _ _ _ _ h2 n2 sub2 n x hA hx hxl l c hc hcm
    · exact hchildOne _ _ _ _ _ h3 n3 sub3 n x hA hx hxl l c hc hcm
  · intro n x hA hx hxl l p hc hcm
    rcases hA with rfl | hA | hA | hA | hA
    · rw [hnd] at hx; cases hx; rw [hleaf] at hxl; cases hxl
    · obtain ⟨s, rest⟩ := h0.leafProxy n x hA hx hxl l p hc hcm; exact ⟨Or.inl s, rest⟩
    · obtain ⟨s, rest⟩ := h1.leafProxy n x hA hx hxl l p hc hcm; exact ⟨Or.inr (Or.inl s), rest⟩
    · obtain ⟨s, rest⟩ := h2.leafProxy n x hA hx hxl l p hc hcm; exact ⟨Or.inr (Or.inr (Or.inl s)), rest⟩
    · obtain ⟨s, rest⟩ := h3.leafProxy n x hA hx hxl l p hc hcm; exact ⟨Or.inr (Or.inr (Or.inr s)), rest⟩
  · intro p hs
    rcases hs with s | s | s | s
    · obtain ⟨pr, x, a1, a2, rest⟩ := h0.proxyLeaf p s; exact ⟨pr, x, a1, Or.inr (Or.inl a2), rest⟩
    · obtain ⟨pr, x, a1, a2, rest⟩ := h1.proxyLeaf p s; exact ⟨pr, x, a1, Or.inr (Or.inr (Or.inl a2)), rest⟩
    · obtain ⟨pr, x, a1, a2, rest⟩ := h2.proxyLeaf p s; exact ⟨pr, x, a1, Or.inr (Or.inr (Or.inr (Or.inl a2))), rest⟩
    · obtain ⟨pr, x, a1, a2, rest⟩ := h3.proxyLeaf p s; exact ⟨pr, x, a1, Or.inr (Or.inr (Or.inr (Or.inr a2))), rest⟩
  · obtain ⟨μ0, m0⟩ := h0.rank
    obtain ⟨μ1, m1⟩ := h1.rank
    obtain ⟨μ2, m2⟩ := h2.rank
    obtain ⟨μ3, m3⟩ := h3.rank
    classical
    refine ⟨fun n => if n = nid then 0 else if (A0 n ∨ K0 n) then μ0 n + 1 else if (A1 n ∨ K1 n) then μ1 n + 1
      else if (A2 n ∨ K2 n) then μ2 n + 1 else μ3 n + 1, ?_⟩
    intro n hT hne x hx
    -- the value of the measure on each part
    have v0 : ∀ m, (A0 m ∨ K0 m) → (if m = nid then 0 else if (A0 m ∨ K0 m) then μ0 m + 1 else if (A1 m ∨ K1 m) then μ1 m + 1
        else if (A2 m ∨ K2 m) then μ2 m + 1 else μ3 m + 1) = μ0 m + 1 := by
      intro m hm
      have : m ≠ nid := fun e => n0 (e ▸ hm)
      simp [this, hm]
    have v1 : ∀ m, (A1 m ∨ K1 m) → (if m = nid then 0 else if (A0 m ∨ K0 m) then μ0 m + 1 else if (A1 m ∨ K1 m) then μ1 m + 1
        else if (A2 m ∨ K2 m) then μ2 m + 1 else μ3 m + 1) = μ1 m + 1 := by
      intro m hm
      have : m ≠ nid := fun e => n1 (e ▸ hm)
      have h0' : ¬ (A0 m ∨ K0 m) := fun h => d01 m h hm
      simp [this, hm, h0']
    have v2 : ∀ m, (A2 m ∨ K2 m) → (if m = nid then 0 else if (A0 m ∨ K0 m) then μ0 m + 1 else if (A1 m ∨ K1 m) then μ1 m + 1
        else if (A2 m ∨ K2 m) then μ2 m + 1 else μ3 m + 1) = μ2 m + 1 := by
      intro m hm
      have : m ≠ nid := fun e => n2 (e ▸ hm)
      have h0' : ¬ (A0 m ∨ K0 m) := fun h => d02 m h hm
      have h1' : ¬ (A1 m ∨ K1 m) := fun h => d12 m h hm
      simp [this, hm, h0', h1']
    have v3 : ∀ m, (A3 m ∨ K3 m) → (if m = nid then 0 else if (A0 m ∨ K0 m) then μ0 m + 1 else if (A1 m ∨ K1 m) then μ1 m + 1
        else if (A2 m ∨ K2 m) then μ2 m + 1 else μ3 m + 1) = μ3 m + 1 := by
      intro m hm
      have : m ≠ nid := fun e => n3 (e ▸ hm)
      have h0' : ¬ (A0 m ∨ K0 m) := fun h => d03 m h hm
      have h1' : ¬ (A1 m ∨ K1 m) := fun h => d13 m h hm
      have h2' : ¬ (A2 m ∨ K2 m) := fun h => d23 m h hm
      simp [this, hm, h0', h1', h2']
    -- one part
    have one : ∀ (A Kp S : Nat → Prop) (r k : Nat) (μ : Nat → Nat), SubS q A Kp S r nid k →
        (∀ m, (A m ∨ Kp m) → m ≠ r → ∀ y : Node K, q.nodes[m]? = some y → μ y.parent < μ m) →
        (∀ m, (A m ∨ Kp m) → (if m = nid then 0 else if (A0 m ∨ K0 m) then μ0 m + 1 else if (A1 m ∨ K1 m) then μ1 m + 1
          else if (A2 m ∨ K2 m) then μ2 m + 1 else μ3 m + 1) = μ m + 1) →
        (A n ∨ Kp n) →
        (if x.parent = nid then 0 else if (A0 x.parent ∨ K0 x.parent) then μ0 x.parent + 1 else if (A1 x.parent ∨ K1 x.parent) then μ1 x.parent + 1
          else if (A2 x.parent ∨ K2 x.parent) then μ2 x.parent + 1 else μ3 x.parent + 1) <
        (if n = nid then 0 else if (A0 n ∨ K0 n) then μ0 n + 1 else if (A1 n ∨ K1 n) then μ1 n + 1
          else if (A2 n ∨ K2 n) then μ2 n + 1 else μ3 n + 1) := by
      intro A Kp S r k μ hs hm hv hn
      rw [hv n hn]
      by_cases hr : n = r
      · subst hr
        rcases hs.rootOk with ⟨_, he⟩ | ⟨_, y, e, e1, _⟩
        · exact absurd hn (he n)
        · rw [hx] at e; cases e
          simp [e1]
      · obtain ⟨y, pn, a1, a2, _⟩ := hs.par n hn hr
        rw [hx] at a1; cases a1
        rw [hv _ (Or.inl a2)]
        have := hm n hn hr x hx
        omega
    rcases hcase n hT hne with h | h | h | h
    · exact one _ _ _ _ _ μ0 h0 m0 v0 h
    · exact one _ _ _ _ _ μ1 h1 m1 v1 h
    · exact one _ _ _ _ _ μ2 h2 m2 v2 h
    · exact one _ _ _ _ _ μ3 h3 m3 v3 h

/-! ## the workspace and the nodes a call allocates -/

/-- `k` is a kept old subtree root (pseudo-leaf) of the slice -/
def KeptIn (ws : Array (WsItem K)) (indices : Array Nat) (k : Nat) : Prop :=
  ∃ i ∈ indices, ∃ it : WsItem K, ws[i]? = some it ∧ it.isLeaf = false ∧ it.orig = k

/-- `p` is a proxy of the slice -/
def LeafIn (ws : Array (WsItem K)) (indices : Array Nat) (p : Nat) : Prop :=
  ∃ i ∈ indices, ∃ it : WsItem K, ws[i]? = some it ∧ it.isLeaf = true ∧ it.orig = p

/-- node `n` was allocated between the states `q` and `q'`: popped from the free list or pushed -/
def Al (q q' : Q K) (n : Nat) : Prop :=
  (n ∈ q.freeList ∧ n ∉ q'.freeList) ∨ (q.nodes.size ≤ n ∧ n < q'.nodes.size)

/-- facts about the workspace that never change during the recursion (`N0` = node count before the rebalance,
`P0` = number of proxies): entries of one kind have pairwise different ids; proxies are in range; kept nodes are old
nodes below the sentinel -/
structure WsOk (ws : Array (WsItem K)) (N0 P0 : Nat) : Prop where
  inj : ∀ (i j : Nat) (a b : WsItem K), ws[i]? = some a → ws[j]? = some b → a.isLeaf = b.isLeaf → a.orig = b.orig → i = j
  leafLt : ∀ (i : Nat) (a : WsItem K), ws[i]? = some a → a.isLeaf = true → a.orig < P0 ∧ a.orig ≠ MAXN
  keptLt : ∀ (i : Nat) (a : WsItem K), ws[i]? = some a → a.isLeaf = false → a.orig < N0 ∧ a.orig ≠ MAXN

/-- what every state of the recursion satisfies: the free list is duplicate-free, holds old indices only and none of
the kept nodes; no node index reaches the sentinel -/
structure StOk (ws : Array (WsItem K)) (N0 P0 : Nat) (q : Q K) : Prop where
  n0 : N0 ≤ q.nodes.size
  p0 : q.proxies.size = P0
  flNodup : q.freeList.Nodup
  flLt : ∀ n ∈ q.freeList, n < N0
  keptFree : ∀ (i : Nat) (a : WsItem K), ws[i]? = some a → a.isLeaf = false → a.orig ∉ q.freeList

/-- the frame of a call: sizes grow, the free list loses a prefix, the other lists are untouched -/
structure RFrame (q q' : Q K) : Prop where
  psize : q'.proxies.size = q.proxies.size
  nsize : q.nodes.size ≤ q'.nodes.size
  fl : ∃ popped : List Nat, q.freeList = popped ++ q'.freeList
  dirty : q'.dirtyNodes = q.dirtyNodes

theorem RFrame.refl (q : Q K) : RFrame q q := ⟨rfl, Nat.le_refl _, ⟨[], rfl⟩, rfl⟩

theorem RFrame.trans {a b c : Q K} (h1 : RFrame a b) (h2 : RFrame b c) : RFrame a c := by
  obtain ⟨p1, e1⟩ := h1.fl
  obtain ⟨p2, e2⟩ := h2.fl
  exact ⟨by rw [h2.psize, h1.psize], Nat.le_trans h1.nsize h2.nsize, ⟨p1 ++ p2, by rw [e1, e2, List.append_assoc]⟩,
    by rw [h2.dirty, h1.dirty]⟩

theorem StOk.frame {ws : Array (WsItem K)} {N0 P0 : Nat} {q q' : Q K} (h : StOk ws N0 P0 q) (f : RFrame q q') :
    StOk ws N0 P0 q' := by
  obtain ⟨p, e⟩ := f.fl
  have hsub : ∀ n, n ∈ q'.freeList → n ∈ q.freeList := fun n hn => by rw [e]; simp [hn]
  refine ⟨Nat.le_trans h.n0 f.nsize, by rw [f.psize, h.p0], ?_, fun n hn => h.flLt n (hsub n hn),
    fun i a ha hl hm => h.keptFree i a ha hl (hsub _ hm)⟩
  have := h.flNodup
  rw [e] at this
  exact (List.nodup_append.1 this).2.1

/-- allocation in two consecutive calls -/
theorem Al.trans_iff {a b c : Q K} {N0 : Nat} (h1 : RFrame a b) (h2 : RFrame b c) (hn : a.freeList.Nodup)
    (hl : ∀ n ∈ a.freeList, n < N0) (h0 : N0 ≤ a.nodes.size) (n : Nat) : Al a c n ↔ (Al a b n ∨ Al b c n) := by
  obtain ⟨p1, e1⟩ := h1.fl
  obtain ⟨p2, e2⟩ := h2.fl
  have s1 := h1.nsize; have s2 := h2.nsize
  unfold Al
  constructor
  · rintro (⟨x, y⟩ | ⟨x, y⟩)
    · by_cases hb : n ∈ b.freeList
      · exact Or.inr (Or.inl ⟨hb, y⟩)
      · exact Or.inl (Or.inl ⟨x, hb⟩)
    · by_cases hb : n < b.nodes.size
      · exact Or.inl (Or.inr ⟨x, hb⟩)
      · exact Or.inr (Or.inr ⟨by omega, y⟩)
  · rintro ((⟨x, y⟩ | ⟨x, y⟩) | (⟨x, y⟩ | ⟨x, y⟩))
    · exact Or.inl ⟨x, fun hc => y (by rw [e2]; simp [hc])⟩
    · exact Or.inr ⟨x, by omega⟩
    · exact Or.inl ⟨by rw [e1]; simp [x], y⟩
    · exact Or.inr ⟨by omega, y⟩

/-- nodes allocated by two consecutive calls are different -/
theorem Al.disjoint {a b c : Q K} {N0 : Nat} (h1 : RFrame a b) (h2 : RFrame b c) (hn : a.freeList.Nodup)
    (hl : ∀ n ∈ a.freeList, n < N0) (h0 : N0 ≤ a.nodes.size) (n : Nat) : Al a b n → ¬ Al b c n := by
  obtain ⟨p1, e1⟩ := h1.fl
  have s1 := h1.nsize
  unfold Al
  rintro (⟨x, y⟩ | ⟨x, y⟩) (⟨x', y'⟩ | ⟨x', y'⟩)
  · exact y x'
  · have := hl n x; omega
  · have := hl n (by rw [e1]; simp [x']); omega
  · omega

/-! ## the leaf case of `do_recurse_rebalance` -/

/-- `i` names a kept entry with node id `n` -/
def IsKept (ws : Array (WsItem K)) (i n : Nat) : Prop := ∃ it : WsItem K, ws[i]? = some it ∧ it.isLeaf = false ∧ it.orig = n
/-- `i` names a proxy entry with proxy id `p` -/
def IsLeafItem (ws : Array (WsItem K)) (i p : Nat) : Prop := ∃ it : WsItem K, ws[i]? = some it ∧ it.isLeaf = true ∧ it.orig = p

theorem leafFlags_spec (ws : Array (WsItem K)) : ∀ (l : List Nat) (hl hi hl' hi' : Bool),
    leafFlags ws l (hl, hi) = some (hl', hi') →
      (∀ i ∈ l, ∃ it, ws[i]? = some it) ∧
      (hl' = true ↔ (hl = true ∨ ∃ i ∈ l, ∃ p, IsLeafItem ws i p)) ∧
      (hi' = true ↔ (hi = true ∨ ∃ i ∈ l, ∃ n, IsKept ws i n)) := by
  intro l
  induction l with
  | nil =>
    intro hl hi hl' hi' h
    simp only [leafFlags, Option.some.injEq, Prod.mk.injEq] at h
    obtain ⟨rfl, rfl⟩ := h
    simp
  | cons i rest ih =>
    intro hl hi hl' hi' h
    unfold leafFlags at h
    cases hw : ws[i]? with
    | none => simp [hw] at h
    | some it =>
      simp only [hw] at h
      obtain ⟨a1, a2, a3⟩ := ih _ _ _ _ h
      refine ⟨?_, ?_, ?_⟩
      · intro j hj
        simp only [List.mem_cons] at hj
        rcases hj with rfl | hj
        · exact ⟨it, hw⟩
        · exact a1 j hj
      · rw [a2]
        constructor
        · rintro (h1 | ⟨j, hj, p, hp⟩)
          · simp only [Bool.or_eq_true] at h1
            rcases h1 with h1 | h1
            · exact Or.inl h1
            · exact Or.inr ⟨i, by simp, it.orig, it, hw, h1, rfl⟩
          · exact Or.inr ⟨j, by simp [hj], p, hp⟩
        · rintro (h1 | ⟨j, hj, p, hp⟩)
          · exact Or.inl (by simp [h1])
          · simp only [List.mem_cons] at hj
            rcases hj with rfl | hj
            · obtain ⟨it', e, e1, _⟩ := hp
              rw [hw] at e; cases e
              exact Or.inl (by simp [e1])
            · exact Or.inr ⟨j, hj, p, hp⟩
      · rw [a3]
        constructor
        · rintro (h1 | ⟨j, hj, p, hp⟩)
          · simp only [Bool.or_eq_true, Bool.not_eq_true'] at h1
            rcases h1 with h1 | h1
            · exact Or.inl h1
            · exact Or.inr ⟨i, by simp, it.orig, it, hw, h1, rfl⟩
          · exact Or.inr ⟨j, by simp [hj], p, hp⟩
        · rintro (h1 | ⟨j, hj, p, hp⟩)
          · exact Or.inl (by simp [h1])
          · simp only [List.mem_cons] at hj
            rcases hj with rfl | hj
            · obtain ⟨it', e, e1, _⟩ := hp
              rw [hw] at e; cases e
              exact Or.inl (by simp [e1])
            · exact Or.inr ⟨j, hj, p, hp⟩

theorem leafFlags_some (ws : Array (WsItem K)) : ∀ (l : List Nat) (r : Bool × Bool), (∀ i ∈ l, i < ws.size) →
    ∃ r', leafFlags ws l r = some r' := by
  intro l
  induction l with
  | nil => intro r _; exact ⟨r, rfl⟩
  | cons i rest ih =>
    intro r h
    obtain ⟨hl, hi⟩ := r
    have hi' : i < ws.size := h i (by simp)
    simp only [leafFlags, show ws[i]? = some ws[i] by simp [hi']]
    exact ih _ (fun j hj => h j (by simp [hj]))

/-- what the lane-filling loop of the leaf case does, for the entries `l` placed in lanes `k, k+1, …` -/
structure LoopOut (ws : Array (WsItem K)) (myLeaf myInternal : Nat) (l : List Nat) (k : Nat) (a a' : LeafAcc K) : Prop where
  free : a'.q.freeList = a.q.freeList
  dirty : a'.q.dirtyNodes = a.q.dirtyNodes
  nsize : a'.q.nodes.size = a.q.nodes.size
  psize : a'.q.proxies.size = a.q.proxies.size
  nodeSame : ∀ n, (¬ ∃ i ∈ l, IsKept ws i n) → a'.q.nodes[n]? = a.q.nodes[n]?
  proxySame : ∀ p, (¬ ∃ i ∈ l, IsLeafItem ws i p) → a'.q.proxies[p]? = a.q.proxies[p]?
  lanesSame : ∀ j, j < k ∨ k + l.length ≤ j →
    a'.proxyIds[j]? = a.proxyIds[j]? ∧ a'.internalIds[j]? = a.internalIds[j]? ∧
    a'.leafBoxes[j]? = a.leafBoxes[j]? ∧ a'.internalBoxes[j]? = a.internalBoxes[j]?
  item : ∀ (i : Nat) (h : i < l.length), k + i < 4 ∧ ∃ it : WsItem K, ws[l[i]]? = some it ∧
    (it.isLeaf = true → a'.proxyIds[k + i]? = some it.orig ∧ a'.leafBoxes[k + i]? = some it.box ∧
      a'.internalIds[k + i]? = a.internalIds[k + i]? ∧ a'.internalBoxes[k + i]? = a.internalBoxes[k + i]? ∧
      ∃ pr : Proxy, a.q.proxies[it.orig]? = some pr ∧ a'.q.proxies[it.orig]? = some { pr with node := myLeaf, lane := k + i }) ∧
    (it.isLeaf = false → a'.internalIds[k + i]? = some it.orig ∧ a'.internalBoxes[k + i]? = some it.box ∧
      a'.proxyIds[k + i]? = a.proxyIds[k + i]? ∧ a'.leafBoxes[k + i]? = a.leafBoxes[k + i]? ∧
      ∃ cn : Node K, a.q.nodes[it.orig]? = some cn ∧ a'.q.nodes[it.orig]? = some { cn with parent := myInternal, plane := k + i })
  lane : (∃ (i : Nat) (h : i < l.length), (∃ p, IsLeafItem ws l[i] p) ∧ a'.laneWithLeaf = k + i) ∨
    ((¬ ∃ i ∈ l, ∃ p, IsLeafItem ws i p) ∧ a'.laneWithLeaf = a.laneWithLeaf)

theorem rebalLeafLoop_spec (ws : Array (WsItem K)) (N0 P0 : Nat) (wok : WsOk ws N0 P0) (myLeaf myInternal : Nat) :
    ∀ (l : List Nat) (k : Nat) (a a' : LeafAcc K), rebalLeafLoop ws myLeaf myInternal l k a = some a' → l.Nodup →
      LoopOut ws myLeaf myInternal l k a a' := by
  intro l
  induction l with
  | nil =>
    intro k a a' h _
    simp only [rebalLeafLoop, Option.some.injEq] at h
    subst h
    exact ⟨rfl, rfl, rfl, rfl, fun _ _ => rfl, fun _ _ => rfl, fun _ _ => ⟨rfl, rfl, rfl, rfl⟩,
      fun i h => by simp at h, Or.inr ⟨by simp, rfl⟩⟩
  | cons id rest ih =>
    intro k a a' h hnd
    obtain ⟨hid, hnd'⟩ := List.nodup_cons.mp hnd
    unfold rebalLeafLoop at h
    cases hw : ws[id]? with
    | none => simp [hw] at h
    | some it =>
      simp only [hw] at h
      by_cases hk : k < 4
      · simp only [hk, if_true] at h
        cases hlf : it.isLeaf with
        | true =>
          simp only [hlf, if_true] at h
          cases hp : a.q.proxies[it.orig]? with
          | none => simp [hp] at h
          | some pr =>
            simp only [hp] at h
            have o := ih _ _ _ h hnd'
            have hplt : it.orig < a.q.proxies.size := (Array.getElem?_eq_some_iff.mp hp).1
            -- entries of `rest` that are proxies have another id
            have hother : ∀ i ∈ rest, ¬ IsLeafItem ws i it.orig := by
              intro i hi ⟨it', e1, e2, e3⟩
              have := wok.inj i id it' it e1 hw (by rw [e2, hlf]) e3
              exact hid (this ▸ hi)
            refine ⟨o.free, o.dirty, o.nsize, by rw [o.psize]; simp, ?_, ?_, ?_, ?_, ?_⟩
            · intro n hn
              rw [o.nodeSame n (fun ⟨i, hi, hk'⟩ => hn ⟨i, by simp [hi], hk'⟩)]
            · intro p hpn
              rw [o.proxySame p (fun ⟨i, hi, hk'⟩ => hpn ⟨i, by simp [hi], hk'⟩)]
              have : it.orig ≠ p := fun e => hpn ⟨id, by simp, it, hw, hlf, e⟩
              simp [Array.getElem?_setIfInBounds, this]
            · intro j hj
              simp only [List.length_cons] at hj
              obtain ⟨b1, b2, b3, b4⟩ := o.lanesSame j (by omega)
              have hjk : k ≠ j := by omega
              rw [b1, b2, b3, b4]
              simp [Vector.getElem?_setIfInBounds, hjk]
            · intro i hi
              cases i with
              | zero =>
                obtain ⟨b1, b2, b3, b4⟩ := o.lanesSame k (by omega)
                refine ⟨by omega, it, by simpa using hw, ?_, ?_⟩
                · intro _
                  refine ⟨?_, ?_, ?_, ?_, pr, hp, ?_⟩
                  · show a'.proxyIds[k]? = some it.orig
                    rw [b1]; simp [Vector.getElem?_setIfInBounds, hk]
                  · show a'.leafBoxes[k]? = some it.box
                    rw [b3]; simp [Vector.getElem?_setIfInBounds, hk]
                  · show a'.internalIds[k]? = a.internalIds[k]?
                    rw [b2]
                  · show a'.internalBoxes[k]? = a.internalBoxes[k]?
                    rw [b4]
                  · rw [o.proxySame it.orig (fun ⟨i, hi, hk'⟩ => hother i hi hk')]
                    simp [Array.getElem?_setIfInBounds, hplt]
                · intro hc; rw [hlf] at hc; cases hc
              | succ i =>
                simp only [List.length_cons] at hi
                obtain ⟨b1, it2, b2, b3, b4⟩ := o.item i (by omega)
                have hne : rest[i] ≠ id := fun e => hid (e ▸ List.getElem_mem _)
                refine ⟨by omega, it2, by simpa using b2, ?_, ?_⟩
                · intro hl2
                  obtain ⟨c1, c2, c3, c4, pr2, c5, c6⟩ := b3 hl2
                  have hjk : k ≠ k + 1 + i := by omega
                  have horig : it.orig ≠ it2.orig := by
                    intro e
                    exact hne (wok.inj _ _ it2 it b2 hw (by rw [hl2, hlf]) e.symm)
                  refine ⟨by simpa [Nat.add_assoc, Nat.add_comm 1 i] using c1, by simpa [Nat.add_assoc, Nat.add_comm 1 i] using c2,
                    ?_, ?_, pr2, ?_, by simpa [Nat.add_assoc, Nat.add_comm 1 i] using c6⟩
                  · have := c3; simp only [Nat.add_assoc, Nat.add_comm 1 i] at this ⊢; exact this
                  · have := c4; simp only [Nat.add_assoc, Nat.add_comm 1 i] at this ⊢; exact this
                  · simpa [Array.getElem?_setIfInBounds, horig] using c5
                · intro hl2
                  obtain ⟨c1, c2, c3, c4, cn, c5, c6⟩ := b4 hl2
                  have hjk : k ≠ k + 1 + i := by omega
                  refine ⟨by simpa [Nat.add_assoc, Nat.add_comm 1 i] using c1, by simpa [Nat.add_assoc, Nat.add_comm 1 i] using c2,
                    ?_, ?_, cn, c5, by simpa [Nat.add_assoc, Nat.add_comm 1 i] using c6⟩
                  · have := c3
                    simp only [Vector.getElem?_setIfInBounds, hjk, if_false] at this
                    simp only [Nat.add_assoc, Nat.add_comm 1 i] at this ⊢; exact this
                  · have := c4
                    simp only [Vector.getElem?_setIfInBounds, hjk, if_false] at this
                    simp only [Nat.add_assoc, Nat.add_comm 1 i] at this ⊢; exact this
            · rcases o.lane with ⟨i, hi, hp', e⟩ | ⟨hno, e⟩
              · exact Or.inl ⟨i + 1, by simp; omega, by simpa using hp', by rw [e]; omega⟩
              · exact Or.inl ⟨0, by simp, ⟨it.orig, it, by simpa using hw, hlf, rfl⟩, by rw [e]; rfl⟩
        | false =>
          simp only [hlf, Bool.false_eq_true, if_false] at h
          cases hp : a.q.nodes[it.orig]? with
          | none => simp [hp] at h
          | some cn =>
            simp only [hp] at h
            have o := ih _ _ _ h hnd'
            have hplt : it.orig < a.q.nodes.size := (Array.getElem?_eq_some_iff.mp hp).1
            have hother : ∀ i ∈ rest, ¬ IsKept ws i it.orig := by
              intro i hi ⟨it', e1, e2, e3⟩
              have := wok.inj i id it' it e1 hw (by rw [e2, hlf]) e3
              exact hid (this ▸ hi)
            refine ⟨o.free, o.dirty, by rw [o.nsize]; simp, o.psize, ?_, ?_, ?_, ?_, ?_⟩
            · intro n hn
              rw [o.nodeSame n (fun ⟨i, hi, hk'⟩ => hn ⟨i, by simp [hi], hk'⟩)]
              have : it.orig ≠ n := fun e => hn ⟨id, by simp, it, hw, hlf, e⟩
              simp [Array.getElem?_setIfInBounds, this]
            · intro p hpn
              rw [o.proxySame p (fun ⟨i, hi, hk'⟩ => hpn ⟨i, by simp [hi], hk'⟩)]
            · intro j hj
              simp only [List.length_cons] at hj
              obtain ⟨b1, b2, b3, b4⟩ := o.lanesSame j (by omega)
              have hjk : k ≠ j := by omega
              rw [b1, b2, b3, b4]
              simp [Vector.getElem?_setIfInBounds, hjk]
            · intro i hi
              cases i with
              | zero =>
                obtain ⟨b1, b2, b3, b4⟩ := o.lanesSame k (by omega)
                refine ⟨by omega, it, by simpa using hw, ?_, ?_⟩
                · intro hc; rw [hlf] at hc; cases hc
                · intro _
                  refine ⟨?_, ?_, ?_, ?_, cn, hp, ?_⟩
                  · show a'.internalIds[k]? = some it.orig
                    rw [b2]; simp [Vector.getElem?_setIfInBounds, hk]
                  · show a'.internalBoxes[k]? = some it.box
                    rw [b4]; simp [Vector.getElem?_setIfInBounds, hk]
                  · show a'.proxyIds[k]? = a.proxyIds[k]?
                    rw [b1]
                  · show a'.leafBoxes[k]? = a.leafBoxes[k]?
                    rw [b3]
                  · rw [o.nodeSame it.orig (fun ⟨i, hi, hk'⟩ => hother i hi hk')]
                    simp [Array.getElem?_setIfInBounds, hplt]
              | succ i =>
                simp only [List.length_cons] at hi
                obtain ⟨b1, it2, b2, b3, b4⟩ := o.item i (by omega)
                have hne : rest[i] ≠ id := fun e => hid (e ▸ List.getElem_mem _)
                refine ⟨by omega, it2, by simpa using b2, ?_, ?_⟩
                · intro hl2
                  obtain ⟨c1, c2, c3, c4, pr2, c5, c6⟩ := b3 hl2
                  have hjk : k ≠ k + 1 + i := by omega
                  refine ⟨by simpa [Nat.add_assoc, Nat.add_comm 1 i] using c1, by simpa [Nat.add_assoc, Nat.add_comm 1 i] using c2,
                    ?_, ?_, pr2, c5, by simpa [Nat.add_assoc, Nat.add_comm 1 i] using c6⟩
                  · have := c3
                    simp only [Vector.getElem?_setIfInBounds, hjk, if_false] at this
                    simp only [Nat.add_assoc, Nat.add_comm 1 i] at this ⊢; exact this
                  · have := c4
                    simp only [Vector.getElem?_setIfInBounds, hjk, if_false] at this
                    simp only [Nat.add_assoc, Nat.add_comm 1 i] at this ⊢; exact this
                · intro hl2
                  obtain ⟨c1, c2, c3, c4, cn2, c5, c6⟩ := b4 hl2
                  have horig : it.orig ≠ it2.orig := by
                    intro e
                    exact hne (wok.inj _ _ it2 it b2 hw (by rw [hl2, hlf]) e.symm)
                  refine ⟨by simpa [Nat.add_assoc, Nat.add_comm 1 i] using c1, by simpa [Nat.add_assoc, Nat.add_comm 1 i] using c2,
                    ?_, ?_, cn2, ?_, by simpa [Nat.add_assoc, Nat.add_comm 1 i] using c6⟩
                  · have := c3; simp only [Nat.add_assoc, Nat.add_comm 1 i] at this ⊢; exact this
                  · have := c4; simp only [Nat.add_assoc, Nat.add_comm 1 i] at this ⊢; exact this
                  · simpa [Array.getElem?_setIfInBounds, horig] using c5
            · rcases o.lane with ⟨i, hi, hp', e⟩ | ⟨hno, e⟩
              · exact Or.inl ⟨i + 1, by simp; omega, by simpa using hp', by rw [e]; omega⟩
              · refine Or.inr ⟨?_, e⟩
                rintro ⟨i, hi, p, hp'⟩
                simp only [List.mem_cons] at hi
                rcases hi with rfl | hi
                · obtain ⟨it', e1, e2, _⟩ := hp'
                  rw [hw] at e1; cases e1; rw [hlf] at e2; cases e2
                · exact hno ⟨i, hi, p, hp'⟩
      · simp [hk] at h

/-! ### elementary subtrees -/

theorem SubS.empty (q : Q K) (par plane : Nat) :
    SubS q (fun _ => False) (fun _ => False) (fun _ => False) MAXN par plane :=
  ⟨Or.inl ⟨rfl, fun _ h => h.elim id id⟩, fun _ h => (h.elim id id).elim, fun _ _ h => h.elim, fun _ _ h => h.elim,
    fun _ h => h.elim, ⟨fun _ => 0, fun _ h => (h.elim id id).elim⟩⟩

/-- a kept old subtree root, re-parented -/
theorem SubS.kept (q : Q K) (k par plane : Nat) (nd : Node K) (h : q.nodes[k]? = some nd) (hp : nd.parent = par)
    (hl : nd.plane = plane) : SubS q (fun _ => False) (fun n => n = k) (fun _ => False) k par plane := by
  refine ⟨Or.inr ⟨Or.inr rfl, nd, h, hp, hl⟩, ?_, fun _ _ h => h.elim, fun _ _ h => h.elim, fun _ h => h.elim,
    ⟨fun _ => 0, ?_⟩⟩
  · intro n hn hne
    rcases hn with hn | hn
    · exact hn.elim
    · exact absurd hn hne
  · intro n hn hne
    rcases hn with hn | hn
    · exact hn.elim
    · exact absurd hn hne

/-- one new leaf node holding the proxies of `S` -/
theorem SubS.leafNode (q : Q K) (L par plane : Nat) (S : Nat → Prop) (nd : Node K) (h : q.nodes[L]? = some nd)
    (hleaf : nd.leaf = true) (hp : nd.parent = par) (hl : nd.plane = plane)
    (h1 : ∀ (l p : Nat), nd.children[l]? = some p → p ≠ MAXN →
      S p ∧ ∃ pr : Proxy, q.proxies[p]? = some pr ∧ pr.node = L ∧ pr.lane = l)
    (h2 : ∀ p, S p → ∃ pr : Proxy, q.proxies[p]? = some pr ∧ pr.node = L ∧ nd.children[pr.lane]? = some p) :
    SubS q (fun n => n = L) (fun _ => False) S L par plane := by
  refine ⟨Or.inr ⟨Or.inl rfl, nd, h, hp, hl⟩, ?_, ?_, ?_, ?_, ⟨fun _ => 0, ?_⟩⟩
  · intro n hn hne
    rcases hn with hn | hn
    · exact absurd hn hne
    · exact hn.elim
  · intro n x hn hx hxl
    subst hn; rw [h] at hx; cases hx; rw [hleaf] at hxl; cases hxl
  · intro n x hn hx _ l p hc hcm
    subst hn; rw [h] at hx; cases hx
    exact h1 l p hc hcm
  · intro p hs
    obtain ⟨pr, a1, a2, a3⟩ := h2 p hs
    exact ⟨pr, nd, a1, a2, by rw [a2]; exact h, hleaf, a3⟩
  · intro n hn hne
    rcases hn with hn | hn
    · exact absurd hn hne
    · exact hn.elim

/-! ### allocation -/

/-- `free_list.pop().unwrap_or_else(push)` allocates exactly one node -/
theorem allocNode_spec (q : Q K) (N0 : Nat) (hn : q.freeList.Nodup) (hl : ∀ n ∈ q.freeList, n < N0) (h0 : N0 ≤ q.nodes.size) :
    RFrame q (allocNode q).1 ∧ (allocNode q).1.proxies = q.proxies ∧ (∀ m, Al q (allocNode q).1 m ↔ m = (allocNode q).2) ∧
      (allocNode q).2 < (allocNode q).1.nodes.size ∧
      (∀ m, m ≠ (allocNode q).2 → (allocNode q).1.nodes[m]? = q.nodes[m]?) := by
  unfold allocNode
  cases hf : q.freeList with
  | nil =>
    refine ⟨⟨rfl, by simp, ⟨[], by simp [hf]⟩, rfl⟩, rfl, ?_, by simp, ?_⟩
    · intro m
      simp only [Al, hf, List.not_mem_nil, false_and, false_or, Array.size_push]
      omega
    · intro m hm
      dsimp only at hm ⊢
      by_cases hlt : m < q.nodes.size
      · simp [Array.getElem?_push, Nat.ne_of_lt hlt]
      · rw [Array.getElem?_eq_none (by simp; omega), Array.getElem?_eq_none (by omega)]
  | cons n rest =>
    have hnr : n ∉ rest := by rw [hf] at hn; exact (List.nodup_cons.1 hn).1
    have hnlt : n < q.nodes.size := by have := hl n (by simp [hf]); omega
    refine ⟨⟨rfl, Nat.le_refl _, ⟨[n], by simp [hf]⟩, rfl⟩, rfl, ?_, hnlt, fun _ _ => rfl⟩
    intro m
    simp only [Al, hf, List.mem_cons]
    constructor
    · rintro (⟨a | a, b⟩ | ⟨a, b⟩)
      · exact a
      · exact absurd a b
      · omega
    · intro e; subst e; exact Or.inl ⟨Or.inl rfl, hnr⟩

/-- the two allocations at the start of the leaf case (internal id first, then leaf id) -/
def alloc2 (q : Q K) (hasInternal hasLeaf : Bool) : Q K × Nat × Nat :=
  let a := if hasInternal then allocNode q else (q, MAXN)
  let b := if hasLeaf then allocNode a.1 else (a.1, MAXN)
  (b.1, a.2, b.2)

structure Alloc2Out (q : Q K) (hasInternal hasLeaf : Bool) (qb : Q K) (I L : Nat) : Prop where
  frame : RFrame q qb
  prox : qb.proxies = q.proxies
  al : ∀ m, Al q qb m ↔ ((hasInternal = true ∧ m = I) ∨ (hasLeaf = true ∧ m = L))
  ltI : hasInternal = true → I < qb.nodes.size
  ltL : hasLeaf = true → L < qb.nodes.size
  ne : hasInternal = true → hasLeaf = true → I ≠ L
  same : ∀ m, ¬ Al q qb m → qb.nodes[m]? = q.nodes[m]?
  noI : hasInternal = false → I = MAXN
  noL : hasLeaf = false → L = MAXN

theorem alloc2_spec (q : Q K) (N0 : Nat) (hn : q.freeList.Nodup) (hl : ∀ n ∈ q.freeList, n < N0) (h0 : N0 ≤ q.nodes.size)
    (hasInternal hasLeaf : Bool) :
    Alloc2Out q hasInternal hasLeaf (alloc2 q hasInternal hasLeaf).1 (alloc2 q hasInternal hasLeaf).2.1
      (alloc2 q hasInternal hasLeaf).2.2 := by
  obtain ⟨f1, p1, a1, l1, s1⟩ := allocNode_spec q N0 hn hl h0
  have st1 : (allocNode q).1.freeList.Nodup ∧ (∀ n ∈ (allocNode q).1.freeList, n < N0) ∧ N0 ≤ (allocNode q).1.nodes.size := by
    obtain ⟨p, e⟩ := f1.fl
    refine ⟨?_, fun n hn' => hl n (by rw [e]; simp [hn']), Nat.le_trans h0 f1.nsize⟩
    rw [e] at hn; exact (List.nodup_append.1 hn).2.1
  obtain ⟨f2, p2, a2, l2, s2⟩ := allocNode_spec (allocNode q).1 N0 st1.1 st1.2.1 st1.2.2
  have ff : ∀ {P : Prop}, false = true → P := fun h => Bool.noConfusion h
  have tf : ∀ {P : Prop}, true = false → P := fun h => Bool.noConfusion h
  cases hasInternal <;> cases hasLeaf
  · -- nothing allocated
    simp only [alloc2, Bool.false_eq_true, if_false]
    refine ⟨RFrame.refl q, rfl, ?_, ff, ff, ff, fun _ _ => rfl,
      fun _ => rfl, fun _ => rfl⟩
    intro m
    simp only [Al, Bool.false_eq_true, false_and, or_false, iff_false, not_or, not_and]
    exact ⟨fun a b => b a, fun a => by omega⟩
  · -- leaf only
    obtain ⟨f1', p1', a1', l1', s1'⟩ := allocNode_spec q N0 hn hl h0
    simp only [alloc2, Bool.false_eq_true, if_false, if_true]
    refine ⟨f1', p1', ?_, ff, fun _ => l1', ff, ?_, fun _ => rfl, tf⟩
    · intro m; rw [a1' m]; simp
    · intro m hm; exact s1' m (fun e => hm ((a1' m).2 e))
  · -- internal only
    simp only [alloc2, Bool.false_eq_true, if_false, if_true]
    refine ⟨f1, p1, ?_, fun _ => l1, ff, fun _ => ff, ?_, tf, fun _ => rfl⟩
    · intro m; rw [a1 m]; simp
    · intro m hm; exact s1 m (fun e => hm ((a1 m).2 e))
  · -- both
    simp only [alloc2, if_true]
    have hdis := Al.disjoint f1 f2 hn hl h0
    have htr := Al.trans_iff f1 f2 hn hl h0
    refine ⟨f1.trans f2, by rw [p2, p1], ?_, fun _ => Nat.lt_of_lt_of_le l1 f2.nsize, fun _ => l2, ?_, ?_,
      tf, tf⟩
    · intro m; rw [htr m, a1 m, a2 m]; simp
    · intro _ _ e
      exact hdis _ ((a1 _).2 rfl) ((a2 _).2 e)
    · intro m hm
      rw [htr m, a1 m, a2 m] at hm
      rw [s2 m (fun e => hm (Or.inr e)), s1 m (fun e => hm (Or.inl e))]

theorem map_get4' {α β} (f : α → β) (v : Vector α 4) (l : Nat) (y : β) (h : (v.map f)[l]? = some y) :
    ∃ x, v[l]? = some x ∧ y = f x := by
  rcases vec4_lane _ l y h with rfl | rfl | rfl | rfl <;> simp at h <;> exact ⟨_, by simp, h.symm⟩

theorem vec4_eq {α} (v : Vector α 4) (a b c d : α) (h0 : v[0]? = some a) (h1 : v[1]? = some b) (h2 : v[2]? = some c)
    (h3 : v[3]? = some d) : v = #v[a, b, c, d] := by
  apply Vector.ext
  intro i hi
  have : i = 0 ∨ i = 1 ∨ i = 2 ∨ i = 3 := by omega
  rcases this with rfl | rfl | rfl | rfl <;> simp at h0 h1 h2 h3 ⊢ <;> assumption

/-- the order facts about boxes used by `do_recurse_rebalance` (`loosen(margin)` with `margin ≥ 0`, `Aabb::merge`) -/
structure BoxCtx (K : Type) [Num K] (margin : K) : Prop where
  laws : BoxLaws K
  mergeL : ∀ a b : Aabb3 K, boxContains (mergeBox a b) a = true
  mergeR : ∀ a b : Aabb3 K, boxContains (mergeBox a b) b = true
  hm : (0 : K) ≤ margin

/-- the boxes stored in the workspace: a kept entry carries the merged box of its node, a proxy entry a box containing
the current box of its leaf -/
def BoxPre (ws : Array (WsItem K)) (cur : Nat → Aabb3 K) (q : Q K) (indices : Array Nat) : Prop :=
  ∀ i ∈ indices, ∀ it : WsItem K, ws[i]? = some it →
    (it.isLeaf = false → ∃ nd : Node K, q.nodes[it.orig]? = some nd ∧ it.box = mergedBox nd.boxes) ∧
    (it.isLeaf = true → ∃ pr : Proxy, q.proxies[it.orig]? = some pr ∧ boxContains it.box (cur pr.data) = true)

/-- the box facts a call guarantees: the returned box contains the merged box of the node returned, and every node
written by the call is up to date -/
structure BoxPost (cur : Nat → Aabb3 K) (q q' : Q K) (id : Nat) (bx : Aabb3 K) : Prop where
  ret : (id = MAXN ∧ bx = invalidBox) ∨ (∃ nd : Node K, q'.nodes[id]? = some nd ∧ boxContains bx (mergedBox nd.boxes) = true)
  good : ∀ (n : Nat) (nd : Node K), Al q q' n → q'.nodes[n]? = some nd → GoodNode q' cur nd

/-- postcondition of a call of `do_recurse_rebalance` on the slice `indices` -/
structure RebalOut (ws : Array (WsItem K)) (margin : K) (q : Q K) (indices : Array Nat) (par plane : Nat) (q' : Q K) (id : Nat)
    (bx : Aabb3 K) : Prop where
  frame : RFrame q q'
  nodeSame : ∀ n, ¬ Al q q' n → ¬ KeptIn ws indices n → q'.nodes[n]? = q.nodes[n]?
  keptSame : ∀ k, KeptIn ws indices k → ∃ nd nd' : Node K, q.nodes[k]? = some nd ∧ q'.nodes[k]? = some nd' ∧
    nd'.children = nd.children ∧ nd'.leaf = nd.leaf ∧ nd'.boxes = nd.boxes ∧ nd'.dirty = nd.dirty ∧ nd'.changed = nd.changed
  proxySame : ∀ p, ¬ LeafIn ws indices p → q'.proxies[p]? = q.proxies[p]?
  proxyData : ∀ p, LeafIn ws indices p → ∃ pr pr' : Proxy, q.proxies[p]? = some pr ∧ q'.proxies[p]? = some pr' ∧ pr'.data = pr.data
  sub : SubS q' (Al q q') (KeptIn ws indices) (LeafIn ws indices) id par plane
  alClean : ∀ (n : Nat) (nd : Node K), Al q q' n → q'.nodes[n]? = some nd → nd.dirty = false
  alLt : ∀ n, Al q q' n → n < q'.nodes.size
  box : BoxCtx K margin → ∀ cur : Nat → Aabb3 K, BoxPre ws cur q indices → q'.nodes.size ≤ MAXN → q.proxies.size ≤ MAXN →
    BoxPost cur q q' id bx

/-- the two running boxes of the leaf case contain what has been merged into them -/
theorem rebalLeafLoop_boxes (ws : Array (WsItem K)) (margin : K) (bc : BoxCtx K margin) (myLeaf myInternal : Nat) :
    ∀ (l : List Nat) (k : Nat) (a a' : LeafAcc K), rebalLeafLoop ws myLeaf myInternal l k a = some a' →
      boxContains a'.leafAabb a.leafAabb = true ∧ boxContains a'.internalAabb a.internalAabb = true ∧
      ∀ (i : Nat) (h : i < l.length) (it : WsItem K), ws[l[i]]? = some it →
        (it.isLeaf = true → boxContains a'.leafAabb it.box = true) ∧
        (it.isLeaf = false → boxContains a'.internalAabb it.box = true) := by
  intro l
  induction l with
  | nil =>
    intro k a a' h
    simp only [rebalLeafLoop, Option.some.injEq] at h
    subst h
    exact ⟨bc.laws.refl _, bc.laws.refl _, fun i h => by simp at h⟩
  | cons id rest ih =>
    intro k a a' h
    unfold rebalLeafLoop at h
    cases hw : ws[id]? with
    | none => simp [hw] at h
    | some it =>
      simp only [hw] at h
      by_cases hk : k < 4
      · simp only [hk, if_true] at h
        cases hlf : it.isLeaf with
        | true =>
          simp only [hlf, if_true] at h
          cases hp : a.q.proxies[it.orig]? with
          | none => simp [hp] at h
          | some pr =>
            simp only [hp] at h
            obtain ⟨b1, b2, b3⟩ := ih _ _ _ h
            dsimp only at b1 b2
            refine ⟨bc.laws.trans _ _ _ b1 (bc.mergeL _ _), b2, ?_⟩
            intro i hi it' hit'
            cases i with
            | zero =>
              simp only [List.getElem_cons_zero] at hit'
              rw [hw] at hit'; cases hit'
              exact ⟨fun _ => bc.laws.trans _ _ _ b1 (bc.mergeR _ _), fun hc => (by rw [hlf] at hc; cases hc)⟩
            | succ i =>
              simp only [List.length_cons] at hi
              exact b3 i (by omega) it' (by simpa using hit')
        | false =>
          simp only [hlf, Bool.false_eq_true, if_false] at h
          cases hp : a.q.nodes[it.orig]? with
          | none => simp [hp] at h
          | some cn =>
            simp only [hp] at h
            obtain ⟨b1, b2, b3⟩ := ih _ _ _ h
            dsimp only at b1 b2
            refine ⟨b1, bc.laws.trans _ _ _ b2 (bc.mergeL _ _), ?_⟩
            intro i hi it' hit'
            cases i with
            | zero =>
              simp only [List.getElem_cons_zero] at hit'
              rw [hw] at hit'; cases hit'
              exact ⟨fun hc => (by rw [hlf] at hc; cases hc), fun _ => bc.laws.trans _ _ _ b2 (bc.mergeR _ _)⟩
            | succ i =>
              simp only [List.length_cons] at hi
              exact b3 i (by omega) it' (by simpa using hit')
      · simp [hk] at h

theorem rebalLeaf_spec (ws : Array (WsItem K)) (N0 P0 : Nat) (wok : WsOk ws N0 P0) (margin : K) (q : Q K) (indices : Array Nat)
    (par plane : Nat) (r : Q K × Nat × Aabb3 K) (hsz : indices.size ≤ 4)
    (h : rebalLeaf ws q indices par plane = some r) (hst : StOk ws N0 P0 q) (hnd : indices.toList.Nodup) :
    RebalOut ws margin q indices par plane r.1 r.2.1 r.2.2 := by
  unfold rebalLeaf at h
  cases hfl : leafFlags ws indices.toList (false, false) with
  | none => simp [hfl] at h
  | some fl =>
    obtain ⟨hasLeaf, hasInternal⟩ := fl
    simp only [hfl] at h
    obtain ⟨hall, hL, hI⟩ := leafFlags_spec ws _ _ _ _ _ hfl
    simp only [Bool.false_eq_true, false_or] at hL hI
    cases ha : (if hasInternal = true then allocNode q else (q, MAXN)) with | mk qa I =>
    rw [ha] at h
    dsimp only at h
    cases hb : (if hasLeaf = true then allocNode qa else (qa, MAXN)) with | mk qb L =>
    rw [hb] at h
    dsimp only at h
    have A2 : Alloc2Out q hasInternal hasLeaf qb I L := by
      have := alloc2_spec q N0 hst.flNodup hst.flLt hst.n0 hasInternal hasLeaf
      simp only [alloc2, ha, hb] at this
      exact this
    cases hloop : rebalLeafLoop ws L I indices.toList 0
        { q := qb, leafAabb := invalidBox, internalAabb := invalidBox, leafBoxes := Vector.replicate 4 invalidBox,
          internalBoxes := Vector.replicate 4 invalidBox, proxyIds := Vector.replicate 4 MAXN,
          internalIds := Vector.replicate 4 MAXN, laneWithLeaf := MAXN } with
    | none => simp [hloop] at h
    | some a =>
      simp only [hloop] at h
      have o := rebalLeafLoop_spec ws N0 P0 wok L I _ _ _ _ hloop hnd
      split at h
      · cases h
      · rename_i hlw
        -- the final state, lane by lane
        generalize hnI : (⟨if hasLeaf = true then a.internalBoxes.setIfInBounds a.laneWithLeaf a.leafAabb else a.internalBoxes,
            if hasLeaf = true then a.internalIds.setIfInBounds a.laneWithLeaf L else a.internalIds,
            par, plane, false, false, false⟩ : Node K) = nodeI at h
        generalize hnL : (⟨a.leafBoxes, a.proxyIds, if hasInternal = true then I else par,
            if hasInternal = true then a.laneWithLeaf else plane, true, false, false⟩ : Node K) = nodeL at h
        have hfin : (∀ m : Nat, r.1.nodes[m]? = if hasLeaf = true ∧ m = L then some nodeL else if hasInternal = true ∧ m = I then some nodeI
              else a.q.nodes[m]?) ∧
            r.1.proxies = a.q.proxies ∧ r.1.freeList = a.q.freeList ∧ r.1.dirtyNodes = a.q.dirtyNodes ∧
            r.1.nodes.size = a.q.nodes.size ∧ r.2.1 = (if hasInternal = true then I else L) ∧
            r.2.2 = (if hasInternal = true then (if hasLeaf = true then mergeBox a.internalAabb a.leafAabb else a.internalAabb)
              else a.leafAabb) := by
          have hIlt : hasInternal = true → I < a.q.nodes.size := fun hh => by rw [o.nsize]; exact A2.ltI hh
          have hLlt : hasLeaf = true → L < a.q.nodes.size := fun hh => by rw [o.nsize]; exact A2.ltL hh
          cases hasInternal <;> cases hasLeaf
          · simp only [Bool.false_eq_true, if_false, Option.some.injEq] at h
            subst h
            simp
          · simp only [Bool.false_eq_true, if_false, if_true, writeNode, hLlt rfl, Option.some.injEq] at h
            subst h
            refine ⟨?_, rfl, rfl, rfl, by simp, rfl, rfl⟩
            intro m
            simp only [Array.getElem?_setIfInBounds, Bool.false_eq_true, false_and, if_false, true_and]
            by_cases hm : L = m
            · subst hm; simp [hLlt rfl]
            · simp [hm, Ne.symm hm]
          · simp only [Bool.false_eq_true, if_false, if_true, writeNode, hIlt rfl, Option.some.injEq] at h
            subst h
            refine ⟨?_, rfl, rfl, rfl, by simp, rfl, rfl⟩
            intro m
            simp only [Array.getElem?_setIfInBounds, Bool.false_eq_true, false_and, if_false, true_and]
            by_cases hm : I = m
            · subst hm; simp [hIlt rfl]
            · simp [hm, Ne.symm hm]
          · have hne := A2.ne rfl rfl
            simp only [if_true, writeNode, hIlt rfl, Array.size_setIfInBounds, hLlt rfl, Option.some.injEq] at h
            subst h
            refine ⟨?_, rfl, rfl, rfl, by simp, rfl, rfl⟩
            intro m
            simp only [Array.getElem?_setIfInBounds, true_and, Array.size_setIfInBounds]
            by_cases hm : L = m
            · subst hm; simp [hLlt rfl]
            · by_cases hm2 : I = m
              · subst hm2; simp [hIlt rfl, hm, Ne.symm hm]
              · simp [hm, hm2, Ne.symm hm, Ne.symm hm2]
        obtain ⟨hG, hprox2, hfree2, hdirty2, hsize2, hid, hbx⟩ := hfin
        clear h
        have cI : nodeI.children = (if hasLeaf = true then a.internalIds.setIfInBounds a.laneWithLeaf L else a.internalIds) := by
          rw [← hnI]
        have pI : nodeI.parent = par ∧ nodeI.plane = plane ∧ nodeI.leaf = false ∧ nodeI.dirty = false := by
          rw [← hnI]; exact ⟨rfl, rfl, rfl, rfl⟩
        have bI : nodeI.boxes = (if hasLeaf = true then a.internalBoxes.setIfInBounds a.laneWithLeaf a.leafAabb else a.internalBoxes) := by
          rw [← hnI]
        have bL : nodeL.boxes = a.leafBoxes := by rw [← hnL]
        have cL : nodeL.children = a.proxyIds ∧ nodeL.parent = (if hasInternal = true then I else par) ∧
            nodeL.plane = (if hasInternal = true then a.laneWithLeaf else plane) ∧ nodeL.leaf = true ∧ nodeL.dirty = false := by
          rw [← hnL]; exact ⟨rfl, rfl, rfl, rfl, rfl⟩
        clear hnI hnL
        -- bookkeeping
        have hlen4 : indices.toList.length ≤ 4 := by simpa using hsz
        have hpos : ∀ i, i ∈ indices → ∃ (j : Nat) (hj : j < indices.toList.length), indices.toList[j] = i := by
          intro i hi
          exact List.getElem_of_mem (by simpa using hi)
        have hAl : ∀ m, Al q r.1 m ↔ ((hasInternal = true ∧ m = I) ∨ (hasLeaf = true ∧ m = L)) := by
          intro m
          rw [← A2.al m]
          unfold Al
          rw [hfree2, o.free, hsize2, o.nsize]
        have hKeptNotAl : ∀ k, KeptIn ws indices k → ¬ Al q r.1 k := by
          rintro k ⟨i, _, it, e, e1, rfl⟩ (⟨x, _⟩ | ⟨x, _⟩)
          · exact hst.keptFree i it e e1 x
          · have := (wok.keptLt i it e e1).1; have := hst.n0; omega
        have hitem := o.item
        simp only [Nat.zero_add] at hitem
        -- an entry is of one kind only
        have hkind : ∀ i n p, IsKept ws i n → IsLeafItem ws i p → False := by
          rintro i n p ⟨it, e, e1, _⟩ ⟨it', e', e1', _⟩
          rw [e] at e'; cases e'; rw [e1] at e1'; cases e1'
        -- the lane holding the new leaf
        have hlw : hasLeaf = true → ∃ (i : Nat) (hi : i < indices.toList.length), (∃ p, IsLeafItem ws indices.toList[i] p) ∧ a.laneWithLeaf = i := by
          intro hh
          rcases o.lane with ⟨i, hi, hp, e⟩ | ⟨hno, _⟩
          · exact ⟨i, hi, hp, by simpa using e⟩
          · exact absurd (hL.1 hh) hno
        have hnL : hasLeaf = true → r.1.nodes[L]? = some nodeL := by
          intro hh; rw [hG L]; simp [hh]
        -- the new leaf node and its proxies
        have hLeafNode : hasLeaf = true → SubS r.1 (fun n => n = L) (fun _ => False) (LeafIn ws indices) L nodeL.parent nodeL.plane := by
          intro hh
          refine SubS.leafNode r.1 L _ _ _ nodeL (hnL hh) cL.2.2.2.1 rfl rfl ?_ ?_
          · intro l' p hc hcm
            rw [cL.1] at hc
            by_cases hlt : l' < indices.toList.length
            · obtain ⟨_, it, e, f1, f2⟩ := hitem l' hlt
              cases hlf : it.isLeaf with
              | true =>
                obtain ⟨c1, _, _, _, pr, c5, c6⟩ := f1 hlf
                rw [c1] at hc; cases hc
                exact ⟨⟨indices.toList[l'], by simpa using List.getElem_mem hlt, it, e, hlf, rfl⟩, _,
                  by rw [hprox2]; exact c6, rfl, rfl⟩
              | false =>
                obtain ⟨_, _, c3, _⟩ := f2 hlf
                rw [c3] at hc
                exact absurd (replicate4_get _ _ _ hc) hcm
            · obtain ⟨c1, _⟩ := o.lanesSame l' (Or.inr (by omega))
              rw [c1] at hc
              exact absurd (replicate4_get _ _ _ hc) hcm
          · rintro p ⟨i, hi, it, e, hlf, rfl⟩
            obtain ⟨j, hj, ej⟩ := hpos i hi
            obtain ⟨_, it', e', f1, _⟩ := hitem j hj
            rw [ej, e] at e'; cases e'
            obtain ⟨c1, _, _, _, pr, c5, c6⟩ := f1 hlf
            exact ⟨_, by rw [hprox2]; exact c6, rfl, by rw [cL.1]; exact c1⟩
        have hKeptL : ∀ k, KeptIn ws indices k ↔ ∃ i ∈ indices.toList, IsKept ws i k := by
          intro k
          constructor
          · rintro ⟨i, hi, it, e⟩; exact ⟨i, by simpa using hi, it, e⟩
          · rintro ⟨i, hi, it, e⟩; exact ⟨i, by simpa using hi, it, e⟩
        have hLeafL : ∀ k, LeafIn ws indices k ↔ ∃ i ∈ indices.toList, IsLeafItem ws i k := by
          intro k
          constructor
          · rintro ⟨i, hi, it, e⟩; exact ⟨i, by simpa using hi, it, e⟩
          · rintro ⟨i, hi, it, e⟩; exact ⟨i, by simpa using hi, it, e⟩
        -- nodes of the final state that are not freshly allocated
        have hOld : ∀ m, ¬ Al q r.1 m → r.1.nodes[m]? = a.q.nodes[m]? := by
          intro m hm
          rw [hAl m] at hm
          rw [hG m]
          have h1 : ¬ (hasLeaf = true ∧ m = L) := fun hh => hm (Or.inr hh)
          have h2 : ¬ (hasInternal = true ∧ m = I) := fun hh => hm (Or.inl hh)
          simp only [h1, h2, if_false]
        have hframe : RFrame q r.1 := by
          obtain ⟨pp, e⟩ := A2.frame.fl
          refine ⟨by rw [hprox2, o.psize, A2.prox], ?_, ⟨pp, by rw [hfree2, o.free]; exact e⟩, by rw [hdirty2, o.dirty]; exact A2.frame.dirty⟩
          rw [hsize2, o.nsize]; exact A2.frame.nsize
        have hsubst : SubS r.1 (Al q r.1) (KeptIn ws indices) (LeafIn ws indices) r.2.1 par plane := by
          by_cases hhI : hasInternal = true
          · -- an internal node with up to four lanes
            have hnI : r.1.nodes[I]? = some nodeI := by
              rw [hG I]
              by_cases hx : hasLeaf = true ∧ I = L
              · exact absurd hx.2 (A2.ne hhI hx.1)
              · simp [hx, hhI]
            have hlaneSub : ∀ j, j < 4 → ∃ rj, nodeI.children[j]? = some rj ∧
                SubS r.1 (fun n => hasLeaf = true ∧ j = a.laneWithLeaf ∧ n = L)
                  (fun n => ∃ hj : j < indices.toList.length, IsKept ws indices.toList[j] n)
                  (fun p => hasLeaf = true ∧ j = a.laneWithLeaf ∧ LeafIn ws indices p) rj I j := by
              intro j hj4
              -- lane `j` is not the lane of the new leaf when it holds a kept entry
              have hnotlw : ∀ (hj : j < indices.toList.length) (n : Nat), IsKept ws indices.toList[j] n →
                  ¬ (hasLeaf = true ∧ j = a.laneWithLeaf) := by
                rintro hj n hk ⟨hh, e⟩
                obtain ⟨i, hi, ⟨p, hp⟩, e'⟩ := hlw hh
                have : i = j := by omega
                subst this
                exact hkind _ _ _ hk hp
              by_cases c1 : ∃ (hj : j < indices.toList.length) (n : Nat), IsKept ws indices.toList[j] n
              · obtain ⟨hj, k, hk⟩ := c1
                obtain ⟨_, it, e, _, f2⟩ := hitem j hj
                have hlf : it.isLeaf = false := by
                  obtain ⟨it', e', e1, _⟩ := hk; rw [e] at e'; cases e'; exact e1
                have hko : it.orig = k := by
                  obtain ⟨it', e', _, e2⟩ := hk; rw [e] at e'; cases e'; exact e2
                obtain ⟨c1', _, _, _, cn, c5, c6⟩ := f2 hlf
                have hnal := hKeptNotAl k ⟨indices.toList[j], by simpa using List.getElem_mem hj, it, e, hlf, hko⟩
                refine ⟨k, ?_, ?_⟩
                · rw [cI]
                  by_cases hh : hasLeaf = true
                  · have : a.laneWithLeaf ≠ j := fun e' => hnotlw hj k hk ⟨hh, e'.symm⟩
                    simp only [hh, if_true, Vector.getElem?_setIfInBounds, this, if_false]
                    rw [c1', hko]
                  · rw [if_neg hh, c1', hko]
                · refine (SubS.kept r.1 k I j _ (by rw [hOld k hnal, ← hko]; exact c6) rfl rfl).congr ?_ ?_ ?_
                  · intro n
                    constructor
                    · exact fun hf => hf.elim
                    · rintro ⟨hh, e', _⟩; exact hnotlw hj k hk ⟨hh, e'⟩
                  · intro n
                    constructor
                    · intro e'; subst e'; exact ⟨hj, hk⟩
                    · rintro ⟨_, it', e', _, e2⟩
                      rw [e] at e'; cases e'; rw [← e2, hko]
                  · intro n
                    constructor
                    · exact fun hf => hf.elim
                    · rintro ⟨hh, e', _⟩; exact hnotlw hj k hk ⟨hh, e'⟩
              · by_cases c2 : hasLeaf = true ∧ j = a.laneWithLeaf
                · obtain ⟨hh, ej⟩ := c2
                  refine ⟨L, ?_, ?_⟩
                  · rw [cI]; simp only [hh, if_true, Vector.getElem?_setIfInBounds, ← ej, if_true, hj4]
                  · have := hLeafNode hh
                    rw [cL.2.1, cL.2.2.1] at this
                    simp only [hhI, if_true, ← ej] at this
                    refine this.congr ?_ ?_ ?_
                    · intro n; exact ⟨fun e' => ⟨hh, ej, e'⟩, fun e' => e'.2.2⟩
                    · intro n
                      constructor
                      · exact fun hf => hf.elim
                      · rintro ⟨hj, hk⟩; exact c1 ⟨hj, n, hk⟩
                    · intro n; exact ⟨fun e' => ⟨hh, ej, e'⟩, fun e' => e'.2.2⟩
                · refine ⟨MAXN, ?_, ?_⟩
                  · have hbase : a.internalIds[j]? = some MAXN := by
                      by_cases hj : j < indices.toList.length
                      · obtain ⟨_, it, e, f1, f2⟩ := hitem j hj
                        cases hlf : it.isLeaf with
                        | true =>
                          obtain ⟨_, _, c3, _⟩ := f1 hlf
                          rw [c3]; simp [hj4]
                        | false =>
                          exact absurd ⟨hj, it.orig, it, e, hlf, rfl⟩ c1
                      · obtain ⟨_, c2', _⟩ := o.lanesSame j (Or.inr (by omega))
                        rw [c2']; simp [hj4]
                    rw [cI]
                    by_cases hh : hasLeaf = true
                    · have : a.laneWithLeaf ≠ j := fun e' => c2 ⟨hh, e'.symm⟩
                      simp only [hh, if_true, Vector.getElem?_setIfInBounds, this, if_false]
                      exact hbase
                    · rw [if_neg hh]; exact hbase
                  · refine (SubS.empty r.1 I j).congr ?_ ?_ ?_
                    · intro n
                      exact ⟨fun hf => hf.elim, fun e' => c2 ⟨e'.1, e'.2.1⟩⟩
                    · intro n
                      exact ⟨fun hf => hf.elim, fun ⟨hj, hk⟩ => c1 ⟨hj, n, hk⟩⟩
                    · intro n
                      exact ⟨fun hf => hf.elim, fun e' => c2 ⟨e'.1, e'.2.1⟩⟩
            obtain ⟨r0, k0, s0⟩ := hlaneSub 0 (by omega)
            obtain ⟨r1, k1, s1⟩ := hlaneSub 1 (by omega)
            obtain ⟨r2, k2, s2⟩ := hlaneSub 2 (by omega)
            obtain ⟨r3, k3, s3⟩ := hlaneSub 3 (by omega)
            have hch := vec4_eq _ _ _ _ _ k0 k1 k2 k3
            -- side conditions of `combine`
            have hLal : hasLeaf = true → Al q r.1 L := fun hh => (hAl L).2 (Or.inr ⟨hh, rfl⟩)
            have hIal : Al q r.1 I := (hAl I).2 (Or.inl ⟨hhI, rfl⟩)
            have hkeptOf : ∀ j n, (∃ hj : j < indices.toList.length, IsKept ws indices.toList[j] n) → KeptIn ws indices n := by
              rintro j n ⟨hj, it, e⟩
              exact ⟨indices.toList[j], by simpa using List.getElem_mem hj, it, e⟩
            have hnid : ∀ j, ¬ ((hasLeaf = true ∧ j = a.laneWithLeaf ∧ I = L) ∨
                (∃ hj : j < indices.toList.length, IsKept ws indices.toList[j] I)) := by
              rintro j (⟨hh, _, e⟩ | hk)
              · exact A2.ne hhI hh e
              · exact hKeptNotAl I (hkeptOf j I hk) hIal
            have hdis : ∀ i j, i ≠ j → ∀ n, ((hasLeaf = true ∧ i = a.laneWithLeaf ∧ n = L) ∨
                (∃ hj : i < indices.toList.length, IsKept ws indices.toList[i] n)) →
                ¬ ((hasLeaf = true ∧ j = a.laneWithLeaf ∧ n = L) ∨
                (∃ hj : j < indices.toList.length, IsKept ws indices.toList[j] n)) := by
              rintro i j hij n (⟨hh, e1, rfl⟩ | ⟨hi, hk⟩) (⟨hh', e2, e3⟩ | ⟨hj, hk'⟩)
              · omega
              · exact hKeptNotAl _ (hkeptOf j _ ⟨hj, hk'⟩) (hLal hh)
              · subst e3; exact hKeptNotAl _ (hkeptOf i _ ⟨hi, hk⟩) (hLal hh')
              · obtain ⟨it, e, e1, e2⟩ := hk
                obtain ⟨it', e', e1', e2'⟩ := hk'
                have := wok.inj _ _ it it' e e' (by rw [e1, e1']) (by rw [e2, e2'])
                have := (List.getElem_inj hnd).1 this
                exact hij this
            have hcomb := SubS.combine nodeI hnI pI.2.2.1 pI.1 pI.2.1 hch s0 s1 s2 s3 (hnid 0) (hnid 1) (hnid 2) (hnid 3)
              (hdis 0 1 (by omega)) (hdis 0 2 (by omega)) (hdis 0 3 (by omega)) (hdis 1 2 (by omega)) (hdis 1 3 (by omega))
              (hdis 2 3 (by omega))
            rw [hid]; simp only [hhI, if_true]
            refine hcomb.congr ?_ ?_ ?_
            · intro n
              rw [hAl n]
              simp only [hhI, true_and]
              constructor
              · rintro (e | ⟨hh, _, e⟩ | ⟨hh, _, e⟩ | ⟨hh, _, e⟩ | ⟨hh, _, e⟩)
                · exact Or.inl e
                all_goals exact Or.inr ⟨hh, e⟩
              · rintro (e | ⟨hh, e⟩)
                · exact Or.inl e
                · obtain ⟨i, hi, _, e'⟩ := hlw hh
                  have : i = 0 ∨ i = 1 ∨ i = 2 ∨ i = 3 := by omega
                  rcases this with rfl | rfl | rfl | rfl
                  · exact Or.inr (Or.inl ⟨hh, e'.symm, e⟩)
                  · exact Or.inr (Or.inr (Or.inl ⟨hh, e'.symm, e⟩))
                  · exact Or.inr (Or.inr (Or.inr (Or.inl ⟨hh, e'.symm, e⟩)))
                  · exact Or.inr (Or.inr (Or.inr (Or.inr ⟨hh, e'.symm, e⟩)))
            · intro n
              constructor
              · rintro (hk | hk | hk | hk)
                · exact hkeptOf 0 n hk
                · exact hkeptOf 1 n hk
                · exact hkeptOf 2 n hk
                · exact hkeptOf 3 n hk
              · rintro ⟨i, hi, it, e⟩
                obtain ⟨j, hj, ej⟩ := hpos i hi
                have : j = 0 ∨ j = 1 ∨ j = 2 ∨ j = 3 := by omega
                rcases this with rfl | rfl | rfl | rfl
                · exact Or.inl ⟨hj, it, by rw [ej]; exact e⟩
                · exact Or.inr (Or.inl ⟨hj, it, by rw [ej]; exact e⟩)
                · exact Or.inr (Or.inr (Or.inl ⟨hj, it, by rw [ej]; exact e⟩))
                · exact Or.inr (Or.inr (Or.inr ⟨hj, it, by rw [ej]; exact e⟩))
            · intro n
              constructor
              · rintro (⟨_, _, e⟩ | ⟨_, _, e⟩ | ⟨_, _, e⟩ | ⟨_, _, e⟩) <;> exact e
              · intro hl
                have hh : hasLeaf = true := hL.2 (by
                  obtain ⟨i, hi, it, e⟩ := hl
                  exact ⟨i, by simpa using hi, it.orig, it, e.1, e.2.1, rfl⟩)
                obtain ⟨i, hi, _, e'⟩ := hlw hh
                have : i = 0 ∨ i = 1 ∨ i = 2 ∨ i = 3 := by omega
                rcases this with rfl | rfl | rfl | rfl
                · exact Or.inl ⟨hh, e'.symm, hl⟩
                · exact Or.inr (Or.inl ⟨hh, e'.symm, hl⟩)
                · exact Or.inr (Or.inr (Or.inl ⟨hh, e'.symm, hl⟩))
                · exact Or.inr (Or.inr (Or.inr ⟨hh, e'.symm, hl⟩))
          · -- no kept entry
            have hnoKept : ∀ n, ¬ KeptIn ws indices n := by
              rintro n ⟨i, hi, it, e, e1, e2⟩
              exact hhI (hI.2 ⟨i, by simpa using hi, n, it, e, e1, e2⟩)
            rw [hid]; simp only [hhI, if_false]
            by_cases hh : hasLeaf = true
            · have := hLeafNode hh
              rw [cL.2.1, cL.2.2.1] at this
              simp only [hhI, if_false] at this
              refine this.congr ?_ ?_ ?_
              · intro n; rw [hAl n]; simp [hhI, hh]
              · intro n; exact ⟨fun hf => hf.elim, fun e => hnoKept n e⟩
              · intro n; exact Iff.rfl
            · have hLm : L = MAXN := A2.noL (by simpa using hh)
              rw [hLm]
              refine (SubS.empty r.1 par plane).congr ?_ ?_ ?_
              · intro n; rw [hAl n]; simp [hhI, hh]
              · intro n; exact ⟨fun hf => hf.elim, fun e => hnoKept n e⟩
              · intro n
                refine ⟨fun hf => hf.elim, ?_⟩
                rintro ⟨i, hi, it, e, e1, e2⟩
                exact hh (hL.2 ⟨i, by simpa using hi, n, it, e, e1, e2⟩)
        refine ⟨hframe, ?_, ?_, ?_, ?_, hsubst, ?_, ?_, ?_⟩
        · intro m hm hk
          rw [hOld m hm, o.nodeSame m (fun hh => hk ((hKeptL m).2 hh))]
          exact A2.same m (fun hh => hm ((hAl m).2 ((A2.al m).1 hh)))
        · intro k hk
          obtain ⟨i, hi, it, e, hlf, rfl⟩ := hk
          obtain ⟨j, hj, ej⟩ := hpos i hi
          obtain ⟨_, it', e', _, f2⟩ := hitem j hj
          rw [ej, e] at e'; cases e'
          obtain ⟨_, _, _, _, cn, c5, c6⟩ := f2 hlf
          have hnal := hKeptNotAl it.orig ⟨i, hi, it, e, hlf, rfl⟩
          refine ⟨cn, { cn with parent := I, plane := j }, ?_, by rw [hOld _ hnal]; exact c6, rfl, rfl, rfl, rfl, rfl⟩
          rw [← A2.same _ (fun hh => hnal ((hAl _).2 ((A2.al _).1 hh)))]; exact c5
        · intro p hp
          rw [hprox2, o.proxySame p (fun hh => hp ((hLeafL p).2 hh)), A2.prox]
        · rintro p ⟨i, hi, it, e, hlf, rfl⟩
          obtain ⟨j, hj, ej⟩ := hpos i hi
          obtain ⟨_, it', e', f1, _⟩ := hitem j hj
          rw [ej, e] at e'; cases e'
          obtain ⟨_, _, _, _, pr, c5, c6⟩ := f1 hlf
          exact ⟨pr, { pr with node := L, lane := j }, by rw [← A2.prox]; exact c5, by rw [hprox2]; exact c6, rfl⟩
        · intro n nd hn hnd'
          rw [hG n] at hnd'
          rcases (hAl n).1 hn with ⟨hh, rfl⟩ | ⟨hh, rfl⟩
          · by_cases hx : hasLeaf = true ∧ n = L
            · simp only [hx, and_self, if_true, Option.some.injEq] at hnd'; subst hnd'; exact cL.2.2.2.2
            · simp only [hx, if_false, hh, true_and, if_true, Option.some.injEq] at hnd'; subst hnd'; exact pI.2.2.2
          · simp only [hh, true_and, if_true, Option.some.injEq] at hnd'; subst hnd'; exact cL.2.2.2.2
        · intro n hn
          rw [hsize2, o.nsize]
          rcases (hAl n).1 hn with ⟨hh, rfl⟩ | ⟨hh, rfl⟩
          · exact A2.ltI hh
          · exact A2.ltL hh

        · -- boxes
          intro bc cur hpre hsmall hpsmall
          obtain ⟨la, ia, lb⟩ := rebalLeafLoop_boxes ws margin bc L I _ _ _ _ hloop
          dsimp only at la ia
          have hps2 : r.1.proxies.size ≤ MAXN := by rw [hprox2, o.psize, A2.prox]; exact hpsmall
          -- every lane of the leaf boxes is contained in the running leaf box
          have hleafLanes : ∀ (l' : Nat) (b : Aabb3 K), a.leafBoxes[l']? = some b → boxContains a.leafAabb b = true := by
            intro l' b hb
            by_cases hlt : l' < indices.toList.length
            · obtain ⟨_, it, e, f1, f2⟩ := hitem l' hlt
              cases hlf : it.isLeaf with
              | true =>
                obtain ⟨_, c2, _⟩ := f1 hlf
                rw [c2] at hb; cases hb
                exact (lb l' hlt it e).1 hlf
              | false =>
                obtain ⟨_, _, _, c4, _⟩ := f2 hlf
                rw [c4] at hb
                rw [replicate4_get _ _ _ hb]; exact la
            · obtain ⟨_, _, c3, _⟩ := o.lanesSame l' (Or.inr (by omega))
              rw [c3] at hb
              rw [replicate4_get _ _ _ hb]; exact la
          have hleafMerged : boxContains a.leafAabb (mergedBox nodeL.boxes) = true := by
            rw [bL]; exact bc.laws.mergedLeast _ _ hleafLanes
          -- the new leaf is up to date
          have hgoodL : hasLeaf = true → GoodNode r.1 cur nodeL := by
            intro hh
            unfold GoodNode
            apply containsAll_of_lanes
            intro l' x y hx hy
            rw [bL] at hx
            simp only [freshBoxes, cL.2.2.2.1, if_true, cL.1] at hy
            obtain ⟨c', hc', rfl⟩ := map_get4' _ _ _ _ hy
            by_cases hlt : l' < indices.toList.length
            · obtain ⟨_, it, e, f1, f2⟩ := hitem l' hlt
              cases hlf : it.isLeaf with
              | true =>
                obtain ⟨c1, c2, _, _, pr, c5, c6⟩ := f1 hlf
                rw [c1] at hc'; cases hc'
                rw [c2] at hx; cases hx
                rw [hprox2, c6]
                dsimp only
                obtain ⟨pr0, e0, g0⟩ := (hpre indices.toList[l'] (by simpa using List.getElem_mem hlt) it e).2 hlf
                have : q.proxies[it.orig]? = some pr := by rw [← A2.prox]; exact c5
                rw [e0] at this; cases this
                exact g0
              | false =>
                obtain ⟨_, _, c3, c4, _⟩ := f2 hlf
                rw [c3] at hc'; rw [c4] at hx
                rw [replicate4_get _ _ _ hc', replicate4_get _ _ _ hx, Array.getElem?_eq_none (by omega)]
                exact bc.laws.refl _
            · obtain ⟨c1, _, c3, _⟩ := o.lanesSame l' (Or.inr (by omega))
              rw [c1] at hc'; rw [c3] at hx
              rw [replicate4_get _ _ _ hc', replicate4_get _ _ _ hx, Array.getElem?_eq_none (by omega)]
              exact bc.laws.refl _
          -- lane by lane: the boxes and children of the new internal node
          have hlaneI : hasInternal = true → ∀ (j : Nat) (x : Aabb3 K) (c' : Nat), nodeI.boxes[j]? = some x →
              nodeI.children[j]? = some c' →
              boxContains (if hasLeaf = true then mergeBox a.internalAabb a.leafAabb else a.internalAabb) x = true ∧
              boxContains x (match r.1.nodes[c']? with
                | some cn => mergedBox cn.boxes
                | none => invalidBox) = true := by
            intro hhI j x c' hx hc'
            have hj4 : j < 4 := by rcases vec4_lane _ j x hx with h | h | h | h <;> omega
            have hret : ∀ y, boxContains a.internalAabb y = true →
                boxContains (if hasLeaf = true then mergeBox a.internalAabb a.leafAabb else a.internalAabb) y = true := by
              intro y hy
              split
              · exact bc.laws.trans _ _ _ (bc.mergeL _ _) hy
              · exact hy
            rw [bI] at hx; rw [cI] at hc'
            by_cases c2 : hasLeaf = true ∧ j = a.laneWithLeaf
            · obtain ⟨hh, ej⟩ := c2
              simp only [hh, if_true, Vector.getElem?_setIfInBounds, ← ej, hj4] at hx hc'
              cases hx; cases hc'
              rw [hnL hh, if_pos hh]
              exact ⟨bc.mergeR _ _, hleafMerged⟩
            · have hx' : a.internalBoxes[j]? = some x := by
                by_cases hh : hasLeaf = true
                · have : a.laneWithLeaf ≠ j := fun e' => c2 ⟨hh, e'.symm⟩
                  simpa only [hh, if_true, Vector.getElem?_setIfInBounds, this, if_false] using hx
                · rw [if_neg hh] at hx; exact hx
              have hc'' : a.internalIds[j]? = some c' := by
                by_cases hh : hasLeaf = true
                · have : a.laneWithLeaf ≠ j := fun e' => c2 ⟨hh, e'.symm⟩
                  simpa only [hh, if_true, Vector.getElem?_setIfInBounds, this, if_false] using hc'
                · rw [if_neg hh] at hc'; exact hc'
              have hinvalid : a.internalBoxes[j]? = some invalidBox → a.internalIds[j]? = some MAXN →
                  boxContains (if hasLeaf = true then mergeBox a.internalAabb a.leafAabb else a.internalAabb) x = true ∧
                  boxContains x (match r.1.nodes[c']? with
                    | some cn => mergedBox cn.boxes
                    | none => invalidBox) = true := by
                intro h1 h2
                rw [hx'] at h1; cases h1
                rw [hc''] at h2; cases h2
                rw [Array.getElem?_eq_none (by omega)]
                exact ⟨hret _ ia, bc.laws.refl _⟩
              by_cases hlt : j < indices.toList.length
              · obtain ⟨_, it, e, f1, f2⟩ := hitem j hlt
                cases hlf : it.isLeaf with
                | true =>
                  obtain ⟨_, _, c3, c4, _⟩ := f1 hlf
                  exact hinvalid (by rw [c4]; simp [hj4]) (by rw [c3]; simp [hj4])
                | false =>
                  obtain ⟨c1, c2', _, _, cn, c5, c6⟩ := f2 hlf
                  rw [c1] at hc''; cases hc''
                  rw [c2'] at hx'; cases hx'
                  have hk : KeptIn ws indices it.orig :=
                    ⟨indices.toList[j], by simpa using List.getElem_mem hlt, it, e, hlf, rfl⟩
                  rw [hOld _ (hKeptNotAl _ hk), c6]
                  dsimp only
                  obtain ⟨nd0, e0, g0⟩ := (hpre indices.toList[j] (by simpa using List.getElem_mem hlt) it e).1 hlf
                  have : q.nodes[it.orig]? = some cn := by
                    rw [← A2.same _ (fun hh => hKeptNotAl _ hk ((hAl _).2 ((A2.al _).1 hh)))]; exact c5
                  rw [e0] at this; cases this
                  rw [g0]
                  refine ⟨hret _ ?_, bc.laws.refl _⟩
                  rw [← g0]; exact (lb j hlt it e).2 hlf
              · obtain ⟨_, c2', _, c4⟩ := o.lanesSame j (Or.inr (by omega))
                exact hinvalid (by rw [c4]; simp [hj4]) (by rw [c2']; simp [hj4])
          refine ⟨?_, ?_⟩
          · rw [hid, hbx]
            by_cases hhI : hasInternal = true
            · simp only [hhI, if_true]
              right
              have hnI : r.1.nodes[I]? = some nodeI := by
                rw [hG I]
                by_cases hx : hasLeaf = true ∧ I = L
                · exact absurd hx.2 (A2.ne hhI hx.1)
                · simp [hx, hhI]
              refine ⟨nodeI, hnI, bc.laws.mergedLeast _ _ ?_⟩
              intro j x hx
              have hj4 : j < 4 := by rcases vec4_lane _ j x hx with h | h | h | h <;> omega
              exact (hlaneI hhI j x nodeI.children[j] hx (by simp [hj4])).1
            · simp only [hhI, if_false]
              by_cases hh : hasLeaf = true
              · exact Or.inr ⟨nodeL, hnL hh, hleafMerged⟩
              · left
                refine ⟨A2.noL (by simpa using hh), ?_⟩
                -- nothing was merged: the slice is empty
                have hnil : indices.toList = [] := by
                  cases hl : indices.toList with
                  | nil => rfl
                  | cons i rest =>
                    exfalso
                    obtain ⟨it, e⟩ := hall i (by simp [hl])
                    cases hlf : it.isLeaf with
                    | true => exact hh (hL.2 ⟨i, by simp [hl], it.orig, it, e, hlf, rfl⟩)
                    | false => exact hhI (hI.2 ⟨i, by simp [hl], it.orig, it, e, hlf, rfl⟩)
                rw [hnil] at hloop
                simp only [rebalLeafLoop, Option.some.injEq] at hloop
                rw [← hloop]
                simp
          · intro n nd hn hnd'
            rw [hG n] at hnd'
            rcases (hAl n).1 hn with ⟨hh, rfl⟩ | ⟨hh, rfl⟩
            · by_cases hx : hasLeaf = true ∧ n = L
              · exact absurd hx.2 (A2.ne hh hx.1)
              · simp only [hx, if_false, hh, true_and, if_true, Option.some.injEq] at hnd'; subst hnd'
                unfold GoodNode
                apply containsAll_of_lanes
                intro j x y hx' hy
                simp only [freshBoxes, pI.2.2.1, Bool.false_eq_true, if_false] at hy
                obtain ⟨c', hc', rfl⟩ := map_get4' _ _ _ _ hy
                exact (hlaneI hh j x c' hx' hc').2
            · simp only [hh, true_and, if_true, Option.some.injEq] at hnd'; subst hnd'
              exact hgoodL hh

/-! ## the recursive case -/

theorem allocOpen_spec (q : Q K) (par plane : Nat) (N0 : Nat) (hn : q.freeList.Nodup) (hl : ∀ n ∈ q.freeList, n < N0)
    (h0 : N0 ≤ q.nodes.size) (q0 : Q K) (nid : Nat) (h : allocOpen q par plane = some (q0, nid)) :
    RFrame q q0 ∧ q0.proxies = q.proxies ∧ (∀ m, Al q q0 m ↔ m = nid) ∧ nid < q0.nodes.size ∧
      (∀ m, m ≠ nid → q0.nodes[m]? = q.nodes[m]?) ∧ q0.nodes[nid]? = some (openNode par plane) := by
  unfold allocOpen allocWrite at h
  cases hf : q.freeList with
  | nil =>
    simp only [hf, Option.some.injEq, Prod.mk.injEq] at h
    obtain ⟨rfl, rfl⟩ := h
    refine ⟨⟨rfl, by simp, ⟨[], by simp [hf]⟩, rfl⟩, rfl, ?_, by simp, ?_, by simp⟩
    · intro m
      simp only [Al, hf, List.not_mem_nil, false_and, false_or, Array.size_push]
      omega
    · intro m hm
      by_cases hlt : m < q.nodes.size
      · simp [Array.getElem?_push, Nat.ne_of_lt hlt]
      · rw [Array.getElem?_eq_none (by simp; omega), Array.getElem?_eq_none (by omega)]
  | cons n rest =>
    have hnr : n ∉ rest := by rw [hf] at hn; exact (List.nodup_cons.1 hn).1
    have hnlt : n < q.nodes.size := by have := hl n (by simp [hf]); omega
    simp only [hf, writeNode, hnlt, if_true, Option.map_some, Option.some.injEq, Prod.mk.injEq] at h
    obtain ⟨rfl, rfl⟩ := h
    refine ⟨⟨rfl, by simp, ⟨[n], by simp [hf]⟩, rfl⟩, rfl, ?_, by simpa using hnlt, ?_, by simp [Array.getElem?_setIfInBounds, hnlt]⟩
    · intro m
      simp only [Al, hf, List.mem_cons, Array.size_setIfInBounds]
      constructor
      · rintro (⟨a | a, b⟩ | ⟨a, b⟩)
        · exact a
        · exact absurd a b
        · omega
      · intro e; subst e; exact Or.inl ⟨Or.inl rfl, hnr⟩
    · intro m hm
      simp [Array.getElem?_setIfInBounds, Ne.symm hm]

/-- kept nodes are never allocated -/
theorem kept_not_al {ws : Array (WsItem K)} {N0 P0 : Nat} (wok : WsOk ws N0 P0) {q q' : Q K} (st : StOk ws N0 P0 q)
    (ix : Array Nat) (k : Nat) (hk : KeptIn ws ix k) : ¬ Al q q' k := by
  obtain ⟨i, _, it, e, e1, rfl⟩ := hk
  rintro (⟨x, _⟩ | ⟨x, _⟩)
  · exact st.keptFree i it e e1 x
  · have := (wok.keptLt i it e e1).1; have := st.n0; omega

/-- nodes allocated by two calls that are not necessarily consecutive are different -/
theorem Al.disjoint' {ws : Array (WsItem K)} {N0 P0 : Nat} {a b c d : Q K} (st : StOk ws N0 P0 a)
    (h1 : RFrame a b) (h2 : RFrame b c) (h3 : RFrame c d) (n : Nat) : Al a b n → ¬ Al c d n := by
  intro x y
  have stb := st.frame h1
  have : Al b d n := (Al.trans_iff h2 h3 stb.flNodup stb.flLt stb.n0 n).2 (Or.inr y)
  exact Al.disjoint h1 (h2.trans h3) st.flNodup st.flLt st.n0 n x this

/-- `GoodNode` of a freshly written node survives changes that leave its subtree's nodes and proxies alone -/
theorem goodNode_frameS {q q' : Q K} {A Kp S : Nat → Prop} {root par plane : Nat} (cur : Nat → Aabb3 K)
    (sub : SubS q A Kp S root par plane)
    (hn : ∀ n, (A n ∨ Kp n) → q'.nodes[n]? = q.nodes[n]?) (hp : ∀ p, S p → q'.proxies[p]? = q.proxies[p]?)
    (hs : q.nodes.size ≤ MAXN) (hs' : q'.nodes.size ≤ MAXN) (hps : q.proxies.size ≤ MAXN) (hps' : q'.proxies.size ≤ MAXN)
    (n : Nat) (nd : Node K) (hA : A n) (hnd : q.nodes[n]? = some nd) (g : GoodNode q cur nd) : GoodNode q' cur nd := by
  unfold GoodNode at g ⊢
  rw [freshBoxes_congr q q' cur cur nd nd rfl rfl ?_ ?_]
  · exact g
  · intro hleaf l c hc
    by_cases hcm : c = MAXN
    · subst hcm
      rw [Array.getElem?_eq_none (by omega), Array.getElem?_eq_none (by omega)]
    · rw [hp c (sub.leafProxy n nd hA hnd hleaf l c hc hcm).1]
  · intro hleaf l c hc
    by_cases hcm : c = MAXN
    · subst hcm
      rw [Array.getElem?_eq_none (by omega), Array.getElem?_eq_none (by omega)]
    · rw [hn c (sub.child n nd hA hnd hleaf l c hc hcm).1]
