import ParryModel.Field
import ParryModel.C08.FieldLemmas
import ParryModel.C08.LinkLemmas
/-!
# C08 property theorems, part 16 (round fu5): best-first search on a valid, refitted QBVH finds the nearest live leaf

The best-first clause of the property was oracle-only in C08.  Here it is a theorem: the C07 best-first search
(`Bvh.Tree.bestFirst`, the transliteration of `traverse_best_first_node` proved optimal in `C07.bestFirst_optimal`) run on
the tree unfolded from a QBVH state (`lanesOf q fuel 0` under a virtual root) with the point-distance weights of the
harness visitor — internal lanes: squared distance from the query point to the STORED lane box; leaf lanes: squared
distance to the leaf's CURRENT box — returns an attached leaf whose current box is nearest among all attached leaves,
provided the state satisfies `Inv` and `BoxInv` (what every history ending with `refit` establishes).
-/
namespace C08
open Model Model.Qbvh Model.Bvh Model.Bvh.Tree

section bestfirst
variable {K : Type} [Field K] [LinearOrder K] [IsStrictOrderedRing K] (sq : K → K)

/-- squared distance from `pt` to the box `b` (`0` inside) -/
def boxDist2 (pt : V3 K) (b : Aabb3 K) : K :=
  letI := fieldNum K sq
  (C07.pointShift3 sq b pt).normSq

/-- weight of a leaf lane: the distance to the leaf's current box (the stored lane box when it does not contain the
current box — never the case on a state satisfying `BoxInv`) -/
def leafDist2 (cur : Nat → Aabb3 K) (pt : V3 K) (b : Aabb3 K) (d : Nat) : K :=
  letI := fieldNum K sq
  if boxContains b (cur d) = true then boxDist2 sq pt (cur d) else boxDist2 sq pt b

private theorem sub3_of_contains (A a : Aabb3 K) :
    letI := fieldNum K sq
    boxContains A a = true → C07.Sub3 A a := by
  letI := fieldNum K sq
  intro h
  rw [boxContains_iff'] at h
  obtain ⟨⟨a1, a2, a3⟩, a4, a5, a6⟩ := h
  exact ⟨⟨a1, a4⟩, ⟨a2, a5⟩, a3, a6⟩

private theorem boxDist2_nonneg (pt : V3 K) (b : Aabb3 K) : 0 ≤ boxDist2 sq pt b := by
  letI := fieldNum K sq
  simp only [boxDist2, V3.normSq, V3.dot]
  nlinarith [mul_self_nonneg (C07.pointShift3 sq b pt).x, mul_self_nonneg (C07.pointShift3 sq b pt).y,
    mul_self_nonneg (C07.pointShift3 sq b pt).z]

private theorem lbList_of_forall {B L C : Type} [LinearOrder C] (boxCost : B → C) (leafCost : B → L → C) :
    ∀ ts : List (Bvh.Tree B L), (∀ t ∈ ts, C07.LB boxCost leafCost t) → C07.LBList boxCost leafCost ts
  | [], _ => by simp only [C07.LBList]
  | t :: ts, h => by
    simp only [C07.LBList]
    exact ⟨h t (by simp), lbList_of_forall boxCost leafCost ts (fun u hu => h u (by simp [hu]))⟩

/-- **best-first search returns the nearest live leaf.**  For every state satisfying `Inv` and `BoxInv`, every query
point and every fuel: the search on the unfolded tree terminates; if it returns `(c, d)` then `d` is the data of an
attached proxy, `c` is the squared distance from the query point to the CURRENT box of `d`, and no attached leaf within
the unfolded depth is nearer; if it returns nothing then no leaf is in the unfolded tree. -/
theorem best_first_finds_nearest_leaf (q : Q K) (cur : Nat → Aabb3 K) (pt : V3 K) (fuel : Nat) :
    letI := fieldNum K sq
    Inv q → BoxInv q cur →
    ∃ res : Option (K × Nat),
      Bvh.Tree.bestFirst C07.ltb (boxDist2 sq pt) (leafDist2 sq cur pt) (Bvh.Tree.node (⟨pt, pt⟩ : Aabb3 K) (lanesOf q fuel 0)) = some res ∧
      (∀ (c : K) (d : Nat), res = some (c, d) →
        (∃ (p : Nat) (pr : Proxy), q.proxies[p]? = some pr ∧ pr.node ≠ MAXN ∧ pr.data = d) ∧
        c = boxDist2 sq pt (cur d) ∧
        ∀ (bx : Aabb3 K) (d' : Nat), (bx, d') ∈ Bvh.Tree.leavesList (lanesOf q fuel 0) → c ≤ boxDist2 sq pt (cur d')) ∧
      (res = none → Bvh.Tree.leavesList (lanesOf q fuel 0) = []) := by
  letI := fieldNum K sq
  intro h hb
  have hlive0 : q.nodes.size = 0 ∨ Live q 0 := by
    rcases h.root with h0 | ⟨_, hl⟩
    · exact Or.inl h0
    · exact Or.inr hl
  -- every leaf of the unfolded tree sits under a lane box containing its current box
  have hleafBox : ∀ (bx : Aabb3 K) (dt : Nat), (bx, dt) ∈ Bvh.Tree.leavesList (lanesOf q fuel 0) →
      (∃ (p : Nat) (pr : Proxy), q.proxies[p]? = some pr ∧ pr.node ≠ MAXN ∧ pr.data = dt) ∧
        boxContains bx (cur dt) = true := by
    intro bx dt hm
    rcases hlive0 with h0 | hl
    · cases fuel with
      | zero => simp [lanesOf, Bvh.Tree.leavesList] at hm
      | succ f =>
        have : q.nodes[0]? = none := Array.getElem?_eq_none (by omega)
        simp [lanesOf, this, Bvh.Tree.leavesList] at hm
    · have hpos : 0 < q.nodes.size := by
        cases fuel with
        | zero => simp [lanesOf, Bvh.Tree.leavesList] at hm
        | succ f =>
          by_contra hc
          have : q.nodes[0]? = none := Array.getElem?_eq_none (by omega)
          simp [lanesOf, this, Bvh.Tree.leavesList] at hm
      obtain ⟨p, pr, nd, hpr, hne, hd, hnd, hbx⟩ := tree_leaf_attached q h fuel 0 hl hpos bx dt hm
      obtain ⟨plive, nd', hnd', hleaf, hch⟩ := h.proxyLeaf p pr hpr hne
      rw [hnd] at hnd'; cases hnd'
      have hcont := (goodNode_semantic (boxLaws_fieldNum sq) q cur nd (hb pr.node nd hnd plive) pr.lane p bx hch hbx).1 hleaf pr hpr
      rw [hd] at hcont
      exact ⟨⟨p, pr, hpr, hne, hd⟩, hcont⟩
  -- the lower-bound hypothesis of `bestFirst_optimal`
  have hanti : ∀ A a : Aabb3 K, boxContains A a = true → boxDist2 sq pt A ≤ boxDist2 sq pt a := by
    intro A a hc
    exact C07.distPoint3_antitone_sq sq A a pt (sub3_of_contains sq A a hc)
  have hleaf : ∀ (b : Aabb3 K) (d : Nat), boxDist2 sq pt b ≤ leafDist2 sq cur pt b d := by
    intro b d
    unfold leafDist2
    by_cases hc : boxContains b (cur d) = true
    · simp only [hc, if_true]; exact hanti b (cur d) hc
    · simp only [hc]; exact le_refl _
  have hLBs : C07.LBList (boxDist2 sq pt) (leafDist2 sq cur pt) (lanesOf q fuel 0) := by
    apply lbList_of_forall
    intro t ht
    rcases hlive0 with h0 | hl
    · cases fuel with
      | zero => simp [lanesOf] at ht
      | succ f =>
        have : q.nodes[0]? = none := Array.getElem?_eq_none (by omega)
        simp [lanesOf, this] at ht
    · exact C07.LB_of_nested _ _ _ hanti hleaf t (lanesOf_nested (boxLaws_fieldNum sq) q cur h hb fuel 0 hl t ht)
  have hLB : C07.LB (boxDist2 sq pt) (leafDist2 sq cur pt) (Bvh.Tree.node (⟨pt, pt⟩ : Aabb3 K) (lanesOf q fuel 0)) := by
    simp only [C07.LB]
    refine ⟨?_, hLBs⟩
    intro p hp
    have h0 : boxDist2 sq pt ⟨pt, pt⟩ = 0 := by
      simp [boxDist2, C07.pointShift3, V3.normSq, V3.dot, V3.sup, V3.sub, V3.zero, fieldNum_nmax]
    rw [h0]
    obtain ⟨b, d⟩ := p
    exact le_trans (boxDist2_nonneg sq pt b) (hleaf b d)
  obtain ⟨res, hres, hsome, hnone⟩ := C07.bestFirst_optimal (boxDist2 sq pt) (leafDist2 sq cur pt) _ hLB
  refine ⟨res, hres, ?_, ?_⟩
  · intro c d hr
    obtain ⟨⟨b, hmem, hcost⟩, hmin⟩ := hsome c d hr
    simp only [Bvh.Tree.leaves] at hmem hmin
    obtain ⟨hatt, hcont⟩ := hleafBox b d hmem
    refine ⟨hatt, ?_, ?_⟩
    · rw [← hcost]; simp only [leafDist2, hcont, if_true]
    · intro bx d' hm'
      have := hmin (bx, d') hm'
      obtain ⟨_, hcont'⟩ := hleafBox bx d' hm'
      simpa only [leafDist2, hcont', if_true] using this
  · intro hn
    have := hnone hn
    simpa only [Bvh.Tree.leaves] using this

end bestfirst
end C08
