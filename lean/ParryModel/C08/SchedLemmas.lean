import ParryModel.C08.DfsLemmas
/-!
# C08: schedules.  A traversal as a nondeterministic work-list — ANY pending entry may be visited next — visits the same
set of entries whatever the choices: the closure of the successor relation from the initial entries.
-/
namespace C08
open Model Model.Qbvh
set_option linter.unusedSectionVars false
set_option linter.unusedVariables false

/-- reflexive-transitive closure -/
inductive Star {α : Type} (succ : α → α → Prop) : α → α → Prop
  | refl (x : α) : Star succ x x
  | step {x y z : α} : succ x y → Star succ y z → Star succ x z

/-- **a nondeterministic work-list run**: `Run succ pending visited` — starting with the entries `pending`, repeatedly take
ANY pending entry `x` (not necessarily the last pushed), visit it, and add its successors to the pending entries at any
position; `visited` lists the entries in the order visited.  A LIFO stack (the sequential traversals), a FIFO queue, and
the rayon fork-join recursion of `traverse_depth_first_node_parallel` / `traverse_bvtt_node_parallel` under any number of
threads and any work-stealing order are all runs. -/
inductive Run {α : Type} (succ : α → α → Prop) : List α → List α → Prop
  | done : Run succ [] []
  | pick (pre post : List α) (x : α) (new visited : List α) (hnew : ∀ y, y ∈ new ↔ succ x y)
      (h : Run succ (pre ++ new ++ post) visited) : Run succ (pre ++ x :: post) (x :: visited)

/-- **schedule independence**: whatever entry is picked at each step, the set of visited entries is the closure of the
successor relation from the initial entries -/
theorem Run.visited_iff {α : Type} {succ : α → α → Prop} {pending visited : List α} (h : Run succ pending visited) :
    ∀ y, y ∈ visited ↔ ∃ x ∈ pending, Star succ x y := by
  induction h with
  | done => intro y; simp
  | pick pre post x new visited hnew _ ih =>
    intro y
    constructor
    · intro hy
      rcases List.mem_cons.1 hy with rfl | hy
      · exact ⟨y, by simp, Star.refl _⟩
      · obtain ⟨z, hz, hs⟩ := (ih y).1 hy
        simp only [List.mem_append] at hz
        rcases hz with (hz | hz) | hz
        · exact ⟨z, by simp [hz], hs⟩
        · exact ⟨x, by simp, Star.step ((hnew z).1 hz) hs⟩
        · exact ⟨z, by simp [hz], hs⟩
    · rintro ⟨z, hz, hs⟩
      simp only [List.mem_append, List.mem_cons] at hz
      rcases hz with hz | rfl | hz
      · exact List.mem_cons_of_mem _ ((ih y).2 ⟨z, by simp [hz], hs⟩)
      · cases hs with
        | refl => simp
        | step h1 h2 => exact List.mem_cons_of_mem _ ((ih y).2 ⟨_, by simp [(hnew _).2 h1], h2⟩)
      · exact List.mem_cons_of_mem _ ((ih y).2 ⟨z, by simp [hz], hs⟩)

variable {K : Type} [Num K]

theorem mreach_iff_star (q : Q K) (maskOf : Node K → Vector Bool 4) (a b : Nat) :
    MReach q maskOf a b ↔ Star (MStep q maskOf) a b := by
  constructor
  · intro h
    induction h with
    | refl => exact Star.refl _
    | step s _ ih => exact Star.step s ih
  · intro h
    induction h with
    | refl => exact MReach.refl _
    | step s _ ih => exact MReach.step s ih

theorem reach_iff_star (q1 q2 : Q K) (pos : Option (Iso3 K)) (a b : Nat × Nat) :
    Reach q1 q2 pos a b ↔ Star (StepTo q1 q2 pos) a b := by
  constructor
  · intro h
    induction h with
    | refl => exact Star.refl _
    | step s _ ih => exact Star.step s ih
  · intro h
    induction h with
    | refl => exact Reach.refl _
    | step s _ ih => exact Reach.step s ih

end C08
