import ParryModel.C08.TrackedLemmas
import ParryModel.C08.BuildLemmas
/-!
# C08: `DataOk` (attached proxies carry their own index as data) is preserved by the three update operations,
for every scalar type (core Lean only; `DataOk` only looks at the proxy array).
-/
namespace C08
open Model Model.Qbvh
set_option linter.unusedSectionVars false
set_option linter.unusedVariables false
set_option linter.unusedSimpArgs false
variable {K : Type} [Num K]

/-- `ps'` differs from `ps` at most in the node/lane of entry `id` -/
def SameData (id : Nat) (ps ps' : Array Proxy) : Prop :=
  ∀ (p : Nat) (pr' : Proxy), ps'[p]? = some pr' → ∃ pr : Proxy, ps[p]? = some pr ∧ pr'.data = pr.data ∧ (p ≠ id → pr' = pr)

theorem SameData.refl (id : Nat) (ps : Array Proxy) : SameData id ps ps := fun _ pr h => ⟨pr, h, rfl, fun _ => rfl⟩

theorem SameData.trans {id : Nat} {a b c : Array Proxy} (h1 : SameData id a b) (h2 : SameData id b c) : SameData id a c := by
  intro p pr' hp
  obtain ⟨x, e1, e2, e3⟩ := h2 p pr' hp
  obtain ⟨y, f1, f2, f3⟩ := h1 p x e1
  exact ⟨y, f1, by rw [e2, f2], fun hne => by rw [e3 hne, f3 hne]⟩

theorem sameData_setNode (id : Nat) (ps : Array Proxy) (n l : Nat) :
    SameData id ps (match ps[id]? with
      | some pr => ps.setIfInBounds id { pr with node := n, lane := l }
      | none => ps) := by
  cases h : ps[id]? with
  | none => exact SameData.refl id ps
  | some pr =>
    intro p pr' hp
    simp only [Array.getElem?_setIfInBounds] at hp
    split at hp
    · rename_i e; subst e
      split at hp
      · cases hp; exact ⟨pr, h, rfl, fun hne => absurd rfl hne⟩
      · cases hp
    · exact ⟨pr', hp, rfl, fun _ => rfl⟩

theorem sameData_attachLoop (id : Nat) : ∀ (lanes : List Nat) (q : Q K) (r : Q K × Bool),
    attachLoop id lanes q = some r → SameData id q.proxies r.1.proxies := by
  intro lanes
  induction lanes with
  | nil => intro q r h; simp only [attachLoop, Option.some.injEq] at h; subst h; exact SameData.refl _ _
  | cons ii rest ih =>
    intro q r h
    unfold attachLoop at h
    split at h
    · cases h
    · rename_i root _
      split at h
      · cases h
      · rename_i child0 _
        dsimp only at h
        have hq1 : (if child0 = MAXN then addRootLeaf q root ii else q).proxies = q.proxies := by
          split <;> rfl
        split at h
        · cases h
        · rename_i cn _
          split at h
          · have := ih _ _ h; rw [hq1] at this; exact this
          · split at h
            · have := ih _ _ h; rw [hq1] at this; exact this
            · rename_i kk _
              simp only [Option.some.injEq] at h
              subst h
              have := sameData_setNode id (if child0 = MAXN then addRootLeaf q root ii else q).proxies
                (if child0 = MAXN then q.nodes.size else child0) kk
              simp only [attachProxy]
              rw [hq1] at this ⊢
              exact this

theorem sameData_splitRoot (fixRoot : Bool) (q q' : Q K) (id : Nat) (h : splitRoot fixRoot q id = some q') :
    SameData id q.proxies q'.proxies := by
  have hsch : ∀ (b : Bool) (L : Nat) (x : Q K), (scheduleRoot b L x).proxies = x.proxies := by
    intro b L x
    unfold scheduleRoot
    split
    · rfl
    · split <;> rfl
  unfold splitRoot at h
  split at h
  · cases h
  · rename_i root _
    cases hp : splitRootPinned q id with
    | none => simp [hp] at h
    | some q1 =>
      simp only [hp, Option.map_some, Option.some.injEq] at h
      have h1 : SameData id q.proxies q1.proxies := by
        unfold splitRootPinned at hp
        split at hp
        · cases hp
        · simp only [Option.some.injEq] at hp
          subst hp
          exact sameData_setNode id q.proxies (q.nodes.size + 1) 0
      subst h
      split
      · rw [hsch]; exact h1
      · exact h1

theorem ensureProxy_spec (q : Q K) (id : Nat) (p : Nat) (pr' : Proxy) (h : (ensureProxy q id).proxies[p]? = some pr') :
    (p = id ∧ pr'.data = id ∧ ((∃ pr, q.proxies[id]? = some pr ∧ pr'.node = pr.node) ∨ pr'.node = MAXN)) ∨
      (p ≠ id ∧ (q.proxies[p]? = some pr' ∨ pr'.node = MAXN)) := by
  unfold ensureProxy at h
  dsimp only at h
  generalize hps : (if q.proxies.size ≤ id then q.proxies ++ Array.replicate (id + 1 - q.proxies.size) invalidProxy
    else q.proxies) = ps at h
  have hold : ∀ (i : Nat) (x : Proxy), ps[i]? = some x → q.proxies[i]? = some x ∨ x.node = MAXN := by
    intro i x hx
    subst hps
    split at hx
    · rw [getElem?_append_replicate] at hx
      split at hx
      · exact Or.inl hx
      · split at hx
        · cases hx; exact Or.inr rfl
        · cases hx
    · exact Or.inl hx
  split at h
  · rename_i pr hpr
    simp only [Array.getElem?_setIfInBounds] at h
    split at h
    · rename_i e; subst e
      split at h
      · cases h
        refine Or.inl ⟨rfl, rfl, ?_⟩
        rcases hold _ pr hpr with h1 | h1
        · exact Or.inl ⟨pr, h1, rfl⟩
        · exact Or.inr h1
      · cases h
    · rename_i e
      exact Or.inr ⟨Ne.symm e, hold p pr' h⟩
  · rename_i hnone
    by_cases e : p = id
    · subst e; rw [hnone] at h; cases h
    · exact Or.inr ⟨e, hold p pr' h⟩

/-- **`pre_update_or_insert` keeps `DataOk`** -/
theorem dataOk_preUpdateOrInsert (fixRoot : Bool) (q q' : Q K) (id : Nat) (hd : DataOk q)
    (h : preUpdateOrInsert fixRoot q id = some q') : DataOk q' := by
  unfold preUpdateOrInsert at h
  dsimp only at h
  have hbase : ∀ (x : Q K), SameData id (ensureProxy (ensureRoot q) id).proxies x.proxies → DataOk x := by
    intro x hs p pr' hp hne
    obtain ⟨pr, e1, e2, e3⟩ := hs p pr' hp
    have hroot : (ensureRoot q).proxies = q.proxies := by unfold ensureRoot; split <;> rfl
    rcases ensureProxy_spec (ensureRoot q) id p pr e1 with ⟨rfl, a1, _⟩ | ⟨a0, a1⟩
    · rw [e2, a1]
    · have := e3 a0
      subst this
      rcases a1 with a1 | a1
      · rw [hroot] at a1; exact hd p pr' a1 hne
      · exact absurd a1 hne
  split at h
  · cases h
  · rename_i pr hpr
    split at h
    · split at h
      · cases h
      · rename_i q2 hat
        cases h
        exact hbase _ (sameData_attachLoop id _ _ _ hat)
      · rename_i q2 hat
        exact hbase _ ((sameData_attachLoop id _ _ _ hat).trans (sameData_splitRoot fixRoot _ _ id h))
    · split at h
      · cases h
      · rename_i nd hnd
        split at h
        · cases h; exact hbase _ (SameData.refl _ _)
        · cases h; exact hbase _ (SameData.refl _ _)

/-- **`remove` keeps `DataOk`** -/
theorem dataOk_remove (q q' : Q K) (id : Nat) (b : Bool) (hd : DataOk q) (h : remove q id = some (q', b)) : DataOk q' := by
  unfold remove at h
  split at h
  · cases h; exact hd
  · split at h
    · cases h; exact hd
    · split at h
      · simp only [Option.some.injEq, Prod.mk.injEq] at h
        obtain ⟨rfl, _⟩ := h
        intro p pr hp hne
        simp only [Array.getElem?_setIfInBounds] at hp
        split at hp
        · split at hp
          · cases hp; exact absurd rfl hne
          · cases hp
        · exact hd p pr hp hne
      · cases h

/-- **`refit` keeps `DataOk`** (it does not touch the proxies) -/
theorem dataOk_refit (q : Q K) (cur : Nat → Aabb3 K) (margin : K) (r : Q K × Nat) (hd : DataOk q)
    (h : refit q cur margin = some r) : DataOk r.1 := by
  obtain ⟨r0, h0, rfl⟩ := refit_eq q cur margin r h
  have := refitLoop_proxies cur margin _ _ _ _ _ h0
  intro p pr hp hne
  simp only [syncRootAabb_proxies] at hp
  rw [this] at hp
  exact hd p pr hp hne
