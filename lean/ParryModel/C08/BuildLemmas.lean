import ParryModel.C08.Model2
import ParryModel.C08.Lemmas
/-!
# C08: lemmas about `split_indices_wrt_dim` / `CenterDataSplitter` and the recursive builder of `clear_and_rebuild`
(core Lean only).
-/
namespace C08
open Model Model.Qbvh
set_option linter.unusedSectionVars false
set_option linter.unusedVariables false
set_option linter.unusedSimpArgs false
variable {K : Type} [Num K]

/-! ## `split_indices_wrt_dim` -/

/-- the partition loop never panics on in-range indices, permutes the slice and returns a cut inside it -/
theorem splitLoop_spec (aabbs : Array (Aabb3 K)) (sp : V3 K) (dim : Nat) :
    ∀ (k : Nat) (a : Array Nat) (icurr ilast : Nat), icurr + k = ilast → ilast ≤ a.size →
      (∀ x ∈ a, x < aabbs.size) →
      ∃ (a' : Array Nat) (c : Nat), splitLoop aabbs sp dim k a icurr ilast = some (a', c) ∧ a'.Perm a ∧ c ≤ a.size := by
  intro k
  induction k with
  | zero => intro a icurr ilast h1 h2 _; exact ⟨a, icurr, rfl, Array.Perm.refl _, by omega⟩
  | succ k ih =>
    intro a icurr ilast h1 h2 hr
    have hic : icurr < a.size := by omega
    have hx : a[icurr] < aabbs.size := hr _ (Array.getElem_mem hic)
    have e1 : a[icurr]? = some a[icurr] := by simp [hic]
    have e2 : aabbs[a[icurr]]? = some aabbs[a[icurr]] := by simp [hx]
    simp only [splitLoop, e1, e2]
    split
    · have hp : (a.swapIfInBounds icurr (ilast - 1)).Perm a := by
        rw [Array.swapIfInBounds_def]
        simp only [hic, show ilast - 1 < a.size by omega, dite_true]
        exact Array.swap_perm _ _
      obtain ⟨a', c, e, p, hc⟩ := ih (a.swapIfInBounds icurr (ilast - 1)) icurr (ilast - 1) (by omega)
        (by rw [hp.size_eq]; omega) (fun x hx => hr x (hp.mem_iff.1 hx))
      exact ⟨a', c, e, p.trans hp, by rw [← hp.size_eq]; exact hc⟩
    · exact ih a (icurr + 1) ilast (by omega) h2 hr

/-- **`split_indices_wrt_dim`**: on in-range indices it never panics; the two halves together are a permutation of the
slice; with the fallback enabled both halves of a slice of length `≥ 2` are non-empty. -/
theorem splitWrtDim_spec (aabbs : Array (Aabb3 K)) (sp : V3 K) (dim : Nat) (fallback : Bool) (indices : Array Nat)
    (hr : ∀ x ∈ indices, x < aabbs.size) :
    ∃ (l r : Array Nat), splitWrtDim aabbs sp dim fallback indices = some (l, r) ∧ (l ++ r).Perm indices ∧
      (fallback = true → 2 ≤ indices.size → 0 < l.size ∧ 0 < r.size) := by
  obtain ⟨a', c, e, p, hc⟩ := splitLoop_spec aabbs sp dim indices.size indices 0 indices.size (by omega) (Nat.le_refl _) hr
  have hs := p.size_eq
  have hcut : ∀ cut : Nat, (a'.extract 0 cut ++ a'.extract cut a'.size) = a' := by
    intro cut
    rw [Array.extract_append_extract, Nat.zero_min, Array.extract_eq_self_of_le (Nat.le_max_right _ _)]
  refine ⟨a'.extract 0 (if (fallback && (c == 0 || c == a'.size)) = true then a'.size / 2 else c),
    a'.extract (if (fallback && (c == 0 || c == a'.size)) = true then a'.size / 2 else c) a'.size,
    by simp only [splitWrtDim, e], ?_, ?_⟩
  · rw [hcut]; exact p
  · intro hf h2
    subst hf
    simp only [Bool.true_and, Array.size_extract]
    by_cases h : (c == 0 || c == a'.size) = true
    · simp only [h, if_true]; omega
    · simp only [h]
      simp only [Bool.or_eq_true, beq_iff_eq, not_or] at h
      simp only [Bool.false_eq_true, if_false]
      omega

/-- **`CenterDataSplitter::split_dataset_wo_workspace`** (fallback enabled): never panics on in-range indices; the four
sub-slices together are a permutation of the slice, and each of them is strictly shorter than a slice of length `≥ 2`. -/
theorem splitDataset_spec (aabbs : Array (Aabb3 K)) (d0 d1 : Nat) (center : V3 K) (indices : Array Nat)
    (hr : ∀ x ∈ indices, x < aabbs.size) :
    ∃ (s0 s1 s2 s3 : Array Nat), splitDataset aabbs true d0 d1 center indices = some (s0, s1, s2, s3) ∧
      (s0 ++ s1 ++ (s2 ++ s3)).Perm indices ∧
      (2 ≤ indices.size → s0.size < indices.size ∧ s1.size < indices.size ∧ s2.size < indices.size ∧ s3.size < indices.size) := by
  obtain ⟨l, r, e, p, hne⟩ := splitWrtDim_spec aabbs center d0 true indices hr
  have hl : ∀ x ∈ l, x < aabbs.size := fun x hx => hr x (p.mem_iff.1 (by simp [hx]))
  have hrr : ∀ x ∈ r, x < aabbs.size := fun x hx => hr x (p.mem_iff.1 (by simp [hx]))
  obtain ⟨lb, lt, e1, p1, _⟩ := splitWrtDim_spec aabbs center d1 true l hl
  obtain ⟨rb, rt, e2, p2, _⟩ := splitWrtDim_spec aabbs center d1 true r hrr
  refine ⟨lb, lt, rb, rt, by simp only [splitDataset, e, e1, e2], (p1.append p2).trans p, ?_⟩
  intro h2
  obtain ⟨h3, h4⟩ := hne rfl h2
  have s0 := p.size_eq
  have s1 := p1.size_eq
  have s2 := p2.size_eq
  simp only [Array.size_append] at s0 s1 s2
  omega

/-! ## the centre / variance loops never panic on in-range indices -/

theorem centerLoop_some (aabbs : Array (Aabb3 K)) (denom : K) :
    ∀ (l : List Nat) (c : V3 K), (∀ x ∈ l, x < aabbs.size) → ∃ c', centerLoop aabbs denom l c = some c' := by
  intro l
  induction l with
  | nil => intro c _; exact ⟨c, rfl⟩
  | cons i rest ih =>
    intro c h
    have hi : i < aabbs.size := h i (by simp)
    simp only [centerLoop, show aabbs[i]? = some aabbs[i] by simp [hi]]
    exact ih _ (fun x hx => h x (by simp [hx]))

theorem varianceLoop_some (aabbs : Array (Aabb3 K)) (center : V3 K) (denom : K) :
    ∀ (l : List Nat) (v : V3 K), (∀ x ∈ l, x < aabbs.size) → ∃ v', varianceLoop aabbs center denom l v = some v' := by
  intro l
  induction l with
  | nil => intro c _; exact ⟨c, rfl⟩
  | cons i rest ih =>
    intro c h
    have hi : i < aabbs.size := h i (by simp)
    simp only [varianceLoop, show aabbs[i]? = some aabbs[i] by simp [hi]]
    exact ih _ (fun x hx => h x (by simp [hx]))

theorem centerDims_some (aabbs : Array (Aabb3 K)) (indices : Array Nat) (hr : ∀ x ∈ indices, x < aabbs.size) :
    ∃ c d0 d1, centerDims aabbs indices = some (c, d0, d1) := by
  have hl : ∀ x ∈ indices.toList, x < aabbs.size := fun x hx => hr x (by simpa using hx)
  obtain ⟨c, hc⟩ := centerLoop_some aabbs ((1 : K) / ofNat indices.size) indices.toList V3.zero hl
  obtain ⟨v, hv⟩ := varianceLoop_some aabbs c ((1 : K) / ofNat (indices.size - 1)) indices.toList V3.zero hl
  exact ⟨c, (imin3 v + 1) % 3, (imin3 v + 2) % 3, by simp only [centerDims, hc, hv]⟩

/-! ## the leaf case of `do_recurse_build_generic` -/

theorem buildLeafLoop_some (aabbs : Array (Aabb3 K)) (myId : Nat) :
    ∀ (l : List Nat) (k : Nat) (bx : Vector (Aabb3 K) 4) (ids : Vector Nat 4) (ps : Array Proxy),
      l.length + k ≤ 4 → (∀ x ∈ l, x < aabbs.size ∧ x < ps.size) →
      ∃ r, buildLeafLoop aabbs myId l k (bx, ids, ps) = some r := by
  intro l
  induction l with
  | nil => intro k bx ids ps _ _; exact ⟨_, rfl⟩
  | cons id rest ih =>
    intro k bx ids ps hk h
    obtain ⟨h1, h2⟩ := h id (by simp)
    simp only [List.length_cons] at hk
    simp only [buildLeafLoop, show aabbs[id]? = some aabbs[id] by simp [h1], show ps[id]? = some ps[id] by simp [h2],
      show k < 4 by omega, if_true]
    exact ih _ _ _ _ (by omega) (fun x hx => by simpa using h x (by simp [hx]))

/-- what the lane-filling loop of a leaf does: lanes `k … k+len-1` receive the indices (and their boxes) in order, the
other lanes are untouched, exactly the listed proxies are re-pointed at `(myId, lane)` (their `data` is kept) -/
theorem buildLeafLoop_spec (aabbs : Array (Aabb3 K)) (myId : Nat) :
    ∀ (l : List Nat) (k : Nat) (bx : Vector (Aabb3 K) 4) (ids : Vector Nat 4) (ps : Array Proxy)
      (bx' : Vector (Aabb3 K) 4) (ids' : Vector Nat 4) (ps' : Array Proxy),
      buildLeafLoop aabbs myId l k (bx, ids, ps) = some (bx', ids', ps') → l.Nodup →
      ps'.size = ps.size ∧
      (∀ p, p ∉ l → ps'[p]? = ps[p]?) ∧
      (∀ j, j < k ∨ k + l.length ≤ j → ids'[j]? = ids[j]? ∧ bx'[j]? = bx[j]?) ∧
      (∀ (i : Nat) (h : i < l.length), k + i < 4 ∧ ids'[k + i]? = some l[i] ∧
        (∃ b, aabbs[l[i]]? = some b ∧ bx'[k + i]? = some b) ∧
        ∃ pr, ps[l[i]]? = some pr ∧ ps'[l[i]]? = some { pr with node := myId, lane := k + i }) := by
  intro l
  induction l with
  | nil =>
    intro k bx ids ps bx' ids' ps' h _
    simp only [buildLeafLoop, Option.some.injEq, Prod.mk.injEq] at h
    obtain ⟨rfl, rfl, rfl⟩ := h
    exact ⟨rfl, fun _ _ => rfl, fun _ _ => ⟨rfl, rfl⟩, fun i h => by simp at h⟩
  | cons id rest ih =>
    intro k bx ids ps bx' ids' ps' h hnd
    obtain ⟨hid, hnd'⟩ := List.nodup_cons.mp hnd
    unfold buildLeafLoop at h
    cases hb : aabbs[id]? with
    | none => simp [hb] at h
    | some b =>
      cases hp : ps[id]? with
      | none => simp [hb, hp] at h
      | some pr =>
        simp only [hb, hp] at h
        by_cases hk : k < 4
        · simp only [hk, if_true] at h
          obtain ⟨h1, h2, h3, h4⟩ := ih _ _ _ _ _ _ _ h hnd'
          have hidlt : id < ps.size := (Array.getElem?_eq_some_iff.mp hp).1
          refine ⟨by rw [h1]; simp, ?_, ?_, ?_⟩
          · intro p hpn
            have hp1 : p ≠ id := fun e => hpn (by simp [e])
            rw [h2 p (fun hm => hpn (by simp [hm]))]
            simp [Array.getElem?_setIfInBounds, Ne.symm hp1]
          · intro j hj
            simp only [List.length_cons] at hj
            obtain ⟨a1, a2⟩ := h3 j (by omega)
            have hjk : k ≠ j := by omega
            rw [a1, a2]
            simp [Vector.getElem?_setIfInBounds, hjk]
          · intro i hi
            cases i with
            | zero =>
              obtain ⟨a1, a2⟩ := h3 k (by omega)
              refine ⟨by omega, ?_, ⟨b, by simpa using hb, ?_⟩, pr, by simpa using hp, ?_⟩
              · show ids'[k]? = some id
                rw [a1]; simp [Vector.getElem?_setIfInBounds, hk]
              · show bx'[k]? = some b
                rw [a2]; simp [Vector.getElem?_setIfInBounds, hk]
              · simp only [List.getElem_cons_zero, Nat.add_zero]
                rw [h2 id hid]
                simp [Array.getElem?_setIfInBounds, hidlt]
            | succ i =>
              simp only [List.length_cons] at hi
              obtain ⟨a1, a2, a3, pr2, a4, a5⟩ := h4 i (by omega)
              have hne : rest[i] ≠ id := fun e => hid (e ▸ List.getElem_mem _)
              refine ⟨by omega, ?_, ?_, pr2, ?_, ?_⟩
              · simpa [Nat.add_assoc, Nat.add_comm 1 i] using a2
              · simpa [Nat.add_assoc, Nat.add_comm 1 i] using a3
              · simpa [Array.getElem?_setIfInBounds, Ne.symm hne] using a4
              · simpa [Nat.add_assoc, Nat.add_comm 1 i] using a5
        · simp [hk] at h

/-! ## `do_recurse_build_generic`: induction principle -/

/-- the placeholder node pushed before the four recursive calls -/
def openNode (par plane : Nat) : Node K :=
  ⟨Vector.replicate 4 invalidBox, Vector.replicate 4 0, par, plane, false, false, false⟩

/-- the leaf pushed by the leaf case -/
def builtLeaf (dil : K) (bx : Vector (Aabb3 K) 4) (ids : Vector Nat 4) (par plane : Nat) : Node K :=
  ⟨bx.map (dilateBox dil), ids, par, plane, true, false, false⟩

/-- lane boxes of an internal node: the four child boxes, dilated -/
def dilated4 (dil : K) (b0 b1 b2 b3 : Aabb3 K) : Vector (Aabb3 K) 4 :=
  (#v[b0, b1, b2, b3] : Vector (Aabb3 K) 4).map (dilateBox dil)

/-- the internal node after the recursive calls -/
def closedNode (nd : Node K) (c0 c1 c2 c3 : Nat) (boxes : Vector (Aabb3 K) 4) : Node K :=
  { nd with children := #v[c0, c1, c2, c3], boxes := boxes }

/-- **Induction principle for `do_recurse_build_generic`**: a property of (input state, slice, parent, result) holds for
every successful call if it holds for the leaf case and is inherited from the four recursive calls. -/
theorem buildRec_induct (aabbs : Array (Aabb3 K)) (dil : K)
    (P : Q K → Array Nat → Nat → Nat → Q K × Nat × Aabb3 K → Prop)
    (hleaf : ∀ (q : Q K) (indices : Array Nat) (par plane : Nat) (bx : Vector (Aabb3 K) 4) (ids : Vector Nat 4)
      (ps : Array Proxy), indices.size ≤ 4 →
      buildLeafLoop aabbs q.nodes.size indices.toList 0
        (Vector.replicate 4 invalidBox, Vector.replicate 4 MAXN, q.proxies) = some (bx, ids, ps) →
      P q indices par plane
        ({ q with nodes := q.nodes.push (builtLeaf dil bx ids par plane), proxies := ps }, q.nodes.size,
          mergedBox (bx.map (dilateBox dil))))
    (hnode : ∀ (q : Q K) (indices : Array Nat) (par plane : Nat) (center : V3 K) (d0 d1 : Nat)
      (s0 s1 s2 s3 : Array Nat) (q1 q2 q3 q4 : Q K) (c0 c1 c2 c3 : Nat) (b0 b1 b2 b3 : Aabb3 K) (nd : Node K),
      ¬ indices.size ≤ 4 → centerDims aabbs indices = some (center, d0, d1) →
      splitDataset aabbs true d0 d1 center indices = some (s0, s1, s2, s3) →
      P { q with nodes := q.nodes.push (openNode par plane) } s0 q.nodes.size 0 (q1, c0, b0) →
      P q1 s1 q.nodes.size 1 (q2, c1, b1) → P q2 s2 q.nodes.size 2 (q3, c2, b2) → P q3 s3 q.nodes.size 3 (q4, c3, b3) →
      (∃ f, buildRec aabbs dil f { q with nodes := q.nodes.push (openNode par plane) } s0 q.nodes.size 0 = some (q1, c0, b0)) →
      (∃ f, buildRec aabbs dil f q1 s1 q.nodes.size 1 = some (q2, c1, b1)) →
      (∃ f, buildRec aabbs dil f q2 s2 q.nodes.size 2 = some (q3, c2, b2)) →
      (∃ f, buildRec aabbs dil f q3 s3 q.nodes.size 3 = some (q4, c3, b3)) →
      q4.nodes[q.nodes.size]? = some nd →
      P q indices par plane
        ({ q4 with nodes := q4.nodes.setIfInBounds q.nodes.size (closedNode nd c0 c1 c2 c3 (dilated4 dil b0 b1 b2 b3)) },
          q.nodes.size,
          mergedBox (dilated4 dil b0 b1 b2 b3))) :
    ∀ (fuel : Nat) (q : Q K) (indices : Array Nat) (par plane : Nat) (r : Q K × Nat × Aabb3 K),
      buildRec aabbs dil fuel q indices par plane = some r → P q indices par plane r := by
  intro fuel
  induction fuel with
  | zero =>
    intro q indices par plane r h
    unfold buildRec at h
    split at h
    · rename_i hsz
      dsimp only at h
      split at h
      · cases h
      · rename_i bx ids ps hl
        cases h
        exact hleaf q indices par plane bx ids ps hsz hl
    · cases h
  | succ fuel ih =>
    intro q indices par plane r h
    unfold buildRec at h
    split at h
    · rename_i hsz
      dsimp only at h
      split at h
      · cases h
      · rename_i bx ids ps hl
        cases h
        exact hleaf q indices par plane bx ids ps hsz hl
    · rename_i hsz
      simp only at h
      split at h
      · cases h
      · rename_i center d0 d1 hcd
        split at h
        · cases h
        · rename_i s0 s1 s2 s3 hsp
          split at h
          · cases h
          · rename_i q1 c0 b0 h0
            split at h
            · cases h
            · rename_i q2 c1 b1 h1
              split at h
              · cases h
              · rename_i q3 c2 b2 h2
                split at h
                · cases h
                · rename_i q4 c3 b3 h3
                  split at h
                  · cases h
                  · rename_i nd hnd
                    cases h
                    exact hnode q indices par plane center d0 d1 s0 s1 s2 s3 q1 q2 q3 q4 c0 c1 c2 c3 b0 b1 b2 b3 nd hsz hcd hsp
                      (ih _ _ _ _ _ h0) (ih _ _ _ _ _ h1) (ih _ _ _ _ _ h2) (ih _ _ _ _ _ h3)
                      ⟨fuel, h0⟩ ⟨fuel, h1⟩ ⟨fuel, h2⟩ ⟨fuel, h3⟩ hnd

/-! ## frame facts and totality -/

/-- what a successful call leaves alone: proxies keep their number, nodes below the old length are untouched, the
node built is the first new slot, the lists are untouched -/
structure BuildFrame (q q' : Q K) (id : Nat) : Prop where
  psize : q'.proxies.size = q.proxies.size
  lt : q.nodes.size < q'.nodes.size
  id : id = q.nodes.size
  old : ∀ i, i < q.nodes.size → q'.nodes[i]? = q.nodes[i]?
  free : q'.freeList = q.freeList
  dirty : q'.dirtyNodes = q.dirtyNodes
  rootBox : q'.rootAabb = q.rootAabb

theorem buildRec_frame (aabbs : Array (Aabb3 K)) (dil : K) (fuel : Nat) (q : Q K) (indices : Array Nat) (par plane : Nat)
    (r : Q K × Nat × Aabb3 K) (h : buildRec aabbs dil fuel q indices par plane = some r) : BuildFrame q r.1 r.2.1 := by
  refine buildRec_induct aabbs dil (fun q _ _ _ r => BuildFrame q r.1 r.2.1) ?_ ?_ fuel q indices par plane r h
  · intro q indices par plane bx ids ps hsz hl
    have hspec := buildLeafLoop_some aabbs q.nodes.size
    refine ⟨?_, by simp, rfl, ?_, rfl, rfl, rfl⟩
    · -- the loop keeps the number of proxies (no `Nodup` needed for the size)
      have : ∀ (l : List Nat) (k : Nat) (bx : Vector (Aabb3 K) 4) (ids : Vector Nat 4) (ps : Array Proxy)
          (r : Vector (Aabb3 K) 4 × Vector Nat 4 × Array Proxy),
          buildLeafLoop aabbs q.nodes.size l k (bx, ids, ps) = some r → r.2.2.size = ps.size := by
        intro l
        induction l with
        | nil => intro k bx ids ps r h; simp only [buildLeafLoop, Option.some.injEq] at h; subst h; rfl
        | cons id rest ih =>
          intro k bx ids ps r h
          unfold buildLeafLoop at h
          split at h
          · split at h
            · have := ih _ _ _ _ _ h; simpa using this
            · cases h
          · cases h
      exact this _ _ _ _ _ _ hl
    · intro i hi
      simp [Array.getElem?_push, Nat.ne_of_lt hi]
  · intro q indices par plane center d0 d1 s0 s1 s2 s3 q1 q2 q3 q4 c0 c1 c2 c3 b0 b1 b2 b3 nd hsz hcd hsp f0 f1 f2 f3 _ _ _ _ hnd
    dsimp only at f0 f1 f2 f3 ⊢
    have e0 := f0.lt; have e1 := f1.lt; have e2 := f2.lt; have e3 := f3.lt
    simp only [Array.size_push] at e0
    refine ⟨?_, ?_, rfl, ?_, ?_, ?_, ?_⟩
    · simp [f3.psize, f2.psize, f1.psize, f0.psize]
    · simp; omega
    · intro i hi
      have hne : q.nodes.size ≠ i := by omega
      simp only [Array.getElem?_setIfInBounds, hne, if_false]
      rw [f3.old i (by omega), f2.old i (by omega), f1.old i (by omega), f0.old i (by simp; omega)]
      simp [Array.getElem?_push, Nat.ne_of_lt hi]
    · simp [f3.free, f2.free, f1.free, f0.free]
    · simp [f3.dirty, f2.dirty, f1.dirty, f0.dirty]
    · simp [f3.rootBox, f2.rootBox, f1.rootBox, f0.rootBox]

/-- **The fuel suffices** (`multiple_identical_aabb_stack_overflow` as a theorem): with fuel ≥ the number of indices,
`do_recurse_build_generic` terminates without an index panic on every slice whose entries index `aabbs` and `proxies` —
whatever the boxes are (identical, degenerate, all centres equal: the fallback split halves the slice). -/
theorem buildRec_total (aabbs : Array (Aabb3 K)) (dil : K) :
    ∀ (fuel : Nat) (q : Q K) (indices : Array Nat) (par plane : Nat), indices.size ≤ fuel →
      (∀ x ∈ indices, x < aabbs.size ∧ x < q.proxies.size) →
      ∃ r, buildRec aabbs dil fuel q indices par plane = some r := by
  intro fuel
  induction fuel with
  | zero =>
    intro q indices par plane hf hr
    unfold buildRec
    have hsz : indices.size ≤ 4 := by omega
    obtain ⟨⟨bx, ids, ps⟩, e⟩ := buildLeafLoop_some aabbs q.nodes.size indices.toList 0 (Vector.replicate 4 invalidBox)
      (Vector.replicate 4 MAXN) q.proxies (by simpa using hsz) (fun x hx => hr x (by simpa using hx))
    simp only [hsz, if_true, e]
    exact ⟨_, rfl⟩
  | succ fuel ih =>
    intro q indices par plane hf hr
    unfold buildRec
    by_cases hsz : indices.size ≤ 4
    · obtain ⟨⟨bx, ids, ps⟩, e⟩ := buildLeafLoop_some aabbs q.nodes.size indices.toList 0 (Vector.replicate 4 invalidBox)
        (Vector.replicate 4 MAXN) q.proxies (by simpa using hsz) (fun x hx => hr x (by simpa using hx))
      simp only [hsz, if_true, e]
      exact ⟨_, rfl⟩
    · have hra : ∀ x ∈ indices, x < aabbs.size := fun x hx => (hr x hx).1
      obtain ⟨c, d0, d1, hcd⟩ := centerDims_some aabbs indices hra
      obtain ⟨s0, s1, s2, s3, hsp, perm, hlt⟩ := splitDataset_spec aabbs d0 d1 c indices hra
      obtain ⟨l0, l1, l2, l3⟩ := hlt (by omega)
      have hmem : ∀ x, (x ∈ s0 ∨ x ∈ s1 ∨ x ∈ s2 ∨ x ∈ s3) → x ∈ indices := by
        intro x hx
        apply perm.mem_iff.1
        simp only [Array.mem_append]
        rcases hx with h | h | h | h <;> simp [h]
      simp only [hsz, if_false, hcd, hsp]
      obtain ⟨r0, e0⟩ := ih { q with nodes := q.nodes.push (openNode par plane) } s0 q.nodes.size 0 (by omega)
        (fun x hx => hr x (hmem x (Or.inl hx)))
      have f0 := buildRec_frame aabbs dil fuel _ s0 _ _ r0 e0
      obtain ⟨r1, e1⟩ := ih r0.1 s1 q.nodes.size 1 (by omega)
        (fun x hx => by rw [f0.psize]; exact hr x (hmem x (Or.inr (Or.inl hx))))
      have f1 := buildRec_frame aabbs dil fuel _ s1 _ _ r1 e1
      obtain ⟨r2, e2⟩ := ih r1.1 s2 q.nodes.size 2 (by omega)
        (fun x hx => by rw [f1.psize, f0.psize]; exact hr x (hmem x (Or.inr (Or.inr (Or.inl hx)))))
      have f2 := buildRec_frame aabbs dil fuel _ s2 _ _ r2 e2
      obtain ⟨r3, e3⟩ := ih r2.1 s3 q.nodes.size 3 (by omega)
        (fun x hx => by rw [f2.psize, f1.psize, f0.psize]; exact hr x (hmem x (Or.inr (Or.inr (Or.inr hx)))))
      have f3 := buildRec_frame aabbs dil fuel _ s3 _ _ r3 e3
      obtain ⟨q1, c0, b0⟩ := r0
      obtain ⟨q2, c1, b1⟩ := r1
      obtain ⟨q3, c2, b2⟩ := r2
      obtain ⟨q4, c3, b3⟩ := r3
      have e0' : buildRec aabbs dil fuel { q with nodes := q.nodes.push ⟨Vector.replicate 4 invalidBox, Vector.replicate 4 0, par, plane, false, false, false⟩ } s0 q.nodes.size 0 = some (q1, c0, b0) := e0
      simp only [e0', e1, e2, e3]
      have hlt4 : q.nodes.size < q4.nodes.size := by
        dsimp only at f0 f1 f2 f3
        have a0 := f0.lt; have a1 := f1.lt; have a2 := f2.lt; have a3 := f3.lt
        simp only [Array.size_push] at a0
        omega
      simp only [show q4.nodes[q.nodes.size]? = some q4.nodes[q.nodes.size] by simp [hlt4]]
      exact ⟨_, rfl⟩

/-! ## the subtree built by a call -/

/-- The nodes `N ≤ n < M` of `q` are a closed subtree whose root `N` hangs in lane `plane` of `par`, and whose leaves
hold exactly the proxies in `S`:
parent pointers of non-root nodes stay inside the range, point to a smaller index and are mirrored by the parent's lane;
children of internal nodes stay inside the range and point back; leaf lanes and the proxies of `S` point at each other. -/
structure SubOk (q : Q K) (N M par plane : Nat) (S : Nat → Prop) : Prop where
  lt : N < M
  le : M ≤ q.nodes.size
  rootPar : ∀ nd : Node K, q.nodes[N]? = some nd → nd.parent = par ∧ nd.plane = plane
  par : ∀ (n : Nat) (nd : Node K), N < n → n < M → q.nodes[n]? = some nd → N ≤ nd.parent ∧ nd.parent < n ∧
    ∃ pn : Node K, q.nodes[nd.parent]? = some pn ∧ pn.leaf = false ∧ pn.children[nd.plane]? = some n
  child : ∀ (n : Nat) (nd : Node K), N ≤ n → n < M → q.nodes[n]? = some nd → nd.leaf = false →
    ∀ (l c : Nat), nd.children[l]? = some c → c ≠ MAXN →
      N < c ∧ c < M ∧ ∃ cn : Node K, q.nodes[c]? = some cn ∧ cn.parent = n ∧ cn.plane = l
  leafProxy : ∀ (n : Nat) (nd : Node K), N ≤ n → n < M → q.nodes[n]? = some nd → nd.leaf = true →
    ∀ (l p : Nat), nd.children[l]? = some p → p ≠ MAXN →
      S p ∧ ∃ pr : Proxy, q.proxies[p]? = some pr ∧ pr.node = n ∧ pr.lane = l
  proxyLeaf : ∀ p : Nat, S p → ∃ pr : Proxy, q.proxies[p]? = some pr ∧ N ≤ pr.node ∧ pr.node < M ∧
    ∃ nd : Node K, q.nodes[pr.node]? = some nd ∧ nd.leaf = true ∧ nd.children[pr.lane]? = some p

/-- `SubOk` only looks at the nodes of the range and the proxies of `S` -/
theorem SubOk.frame {q q' : Q K} {N M par plane : Nat} {S : Nat → Prop} (h : SubOk q N M par plane S)
    (hn : ∀ i, N ≤ i → i < M → q'.nodes[i]? = q.nodes[i]?) (hp : ∀ p, S p → q'.proxies[p]? = q.proxies[p]?)
    (hsz : M ≤ q'.nodes.size) : SubOk q' N M par plane S := by
  have hlt := h.lt
  refine ⟨h.lt, hsz, ?_, ?_, ?_, ?_, ?_⟩
  · intro nd hnd
    exact h.rootPar nd (by rw [← hn N (Nat.le_refl _) hlt]; exact hnd)
  · intro n nd h1 h2 hnd
    obtain ⟨a1, a2, pn, a3, a4, a5⟩ := h.par n nd h1 h2 (by rw [← hn n (by omega) h2]; exact hnd)
    exact ⟨a1, a2, pn, by rw [hn _ a1 (by omega)]; exact a3, a4, a5⟩
  · intro n nd h1 h2 hnd hl l c hc hcm
    obtain ⟨a1, a2, cn, a3, a4, a5⟩ := h.child n nd h1 h2 (by rw [← hn n h1 h2]; exact hnd) hl l c hc hcm
    exact ⟨a1, a2, cn, by rw [hn _ (by omega) a2]; exact a3, a4, a5⟩
  · intro n nd h1 h2 hnd hl l p hc hcm
    obtain ⟨a1, pr, a2, a3, a4⟩ := h.leafProxy n nd h1 h2 (by rw [← hn n h1 h2]; exact hnd) hl l p hc hcm
    exact ⟨a1, pr, by rw [hp p a1]; exact a2, a3, a4⟩
  · intro p hs
    obtain ⟨pr, a1, a2, a3, nd, a4, a5, a6⟩ := h.proxyLeaf p hs
    exact ⟨pr, by rw [hp p hs]; exact a1, a2, a3, nd, by rw [hn _ a2 a3]; exact a4, a5, a6⟩

theorem SubOk.congrS {q : Q K} {N M par plane : Nat} {S S' : Nat → Prop} (h : SubOk q N M par plane S)
    (e : ∀ p, S p ↔ S' p) : SubOk q N M par plane S' :=
  ⟨h.lt, h.le, h.rootPar, h.par, h.child,
    fun n nd h1 h2 hnd hl l p hc hcm =>
      let ⟨a1, a2⟩ := h.leafProxy n nd h1 h2 hnd hl l p hc hcm
      ⟨(e p).1 a1, a2⟩,
    fun p hs => h.proxyLeaf p ((e p).2 hs)⟩

/-- four consecutive subtrees hanging in the four lanes of node `N` make one subtree -/
theorem SubOk.combine {q : Q K} {N R1 R2 R3 M par plane : Nat} {S0 S1 S2 S3 : Nat → Prop} (nd : Node K)
    (hnd : q.nodes[N]? = some nd) (hleaf : nd.leaf = false) (hpar : nd.parent = par) (hplane : nd.plane = plane)
    (hch : nd.children = #v[N + 1, R1, R2, R3])
    (h0 : SubOk q (N + 1) R1 N 0 S0) (h1 : SubOk q R1 R2 N 1 S1) (h2 : SubOk q R2 R3 N 2 S2) (h3 : SubOk q R3 M N 3 S3) :
    SubOk q N M par plane (fun p => S0 p ∨ S1 p ∨ S2 p ∨ S3 p) := by
  have l0 := h0.lt; have l1 := h1.lt; have l2 := h2.lt; have l3 := h3.lt
  have hget : ∀ (i : Nat), i < R1 → N + 1 ≤ i → True := fun _ _ _ => trivial
  -- which of the four ranges a node lies in
  have hcase : ∀ n, N < n → n < M → (N + 1 ≤ n ∧ n < R1) ∨ (R1 ≤ n ∧ n < R2) ∨ (R2 ≤ n ∧ n < R3) ∨ (R3 ≤ n ∧ n < M) := by
    intro n a b; omega
  have hnode_some : ∀ i, i < q.nodes.size → ∃ x, q.nodes[i]? = some x := fun i hi => ⟨q.nodes[i], by simp [hi]⟩
  -- lane `l` of the new node
  have hlane : ∀ (l c : Nat), nd.children[l]? = some c →
      (l = 0 ∧ c = N + 1) ∨ (l = 1 ∧ c = R1) ∨ (l = 2 ∧ c = R2) ∨ (l = 3 ∧ c = R3) := by
    intro l c hc
    rw [hch] at hc
    rcases vec4_lane _ l c hc with rfl | rfl | rfl | rfl <;> simp at hc <;> simp [hc]
  -- a generic step: the facts of one range, seen from the whole
  have hsub : ∀ (R R' k : Nat) (S : Nat → Prop), SubOk q R R' N k S → N < R → R' ≤ M → nd.children[k]? = some R →
      (∀ (n : Nat) (x : Node K), R ≤ n → n < R' → q.nodes[n]? = some x → N ≤ x.parent ∧ x.parent < n ∧
        ∃ pn : Node K, q.nodes[x.parent]? = some pn ∧ pn.leaf = false ∧ pn.children[x.plane]? = some n) := by
    intro R R' k S hs hR hR' hk n x a b hx
    by_cases hroot : n = R
    · subst hroot
      obtain ⟨e1, e2⟩ := hs.rootPar x hx
      exact ⟨by omega, by omega, nd, by rw [e1]; exact hnd, hleaf, by rw [e2]; exact hk⟩
    · obtain ⟨a1, a2, rest⟩ := hs.par n x (by omega) b hx
      exact ⟨by omega, a2, rest⟩
  have k0 : nd.children[0]? = some (N + 1) := by rw [hch]; rfl
  have k1 : nd.children[1]? = some R1 := by rw [hch]; rfl
  have k2 : nd.children[2]? = some R2 := by rw [hch]; rfl
  have k3 : nd.children[3]? = some R3 := by rw [hch]; rfl
  refine ⟨by omega, h3.le, ?_, ?_, ?_, ?_, ?_⟩
  · intro x hx; rw [hnd] at hx; cases hx; exact ⟨hpar, hplane⟩
  · intro n x a b hx
    rcases hcase n a b with ⟨c1, c2⟩ | ⟨c1, c2⟩ | ⟨c1, c2⟩ | ⟨c1, c2⟩
    · exact hsub _ _ _ _ h0 (by omega) (by omega) k0 n x c1 c2 hx
    · exact hsub _ _ _ _ h1 (by omega) (by omega) k1 n x c1 c2 hx
    · exact hsub _ _ _ _ h2 (by omega) (by omega) k2 n x c1 c2 hx
    · exact hsub _ _ _ _ h3 (by omega) (by omega) k3 n x c1 c2 hx
  · intro n x a b hx hxl l c hc hcm
    by_cases hN : n = N
    · subst hN
      rw [hnd] at hx; cases hx
      have root_of : ∀ (R R' k : Nat) (S : Nat → Prop), SubOk q R R' n k S → n < R → R' ≤ M →
          n < R ∧ R < M ∧ ∃ cn : Node K, q.nodes[R]? = some cn ∧ cn.parent = n ∧ cn.plane = k := by
        intro R R' k S hs hR hR'
        have := hs.lt
        obtain ⟨cn, hcn⟩ := hnode_some R (by have := hs.le; omega)
        obtain ⟨e1, e2⟩ := hs.rootPar cn hcn
        exact ⟨hR, by omega, cn, hcn, e1, e2⟩
      rcases hlane l c hc with ⟨rfl, rfl⟩ | ⟨rfl, rfl⟩ | ⟨rfl, rfl⟩ | ⟨rfl, rfl⟩
      · exact root_of _ _ _ _ h0 (by omega) (by omega)
      · exact root_of _ _ _ _ h1 (by omega) (by omega)
      · exact root_of _ _ _ _ h2 (by omega) (by omega)
      · exact root_of _ _ _ _ h3 (by omega) (by omega)
    · have widen : ∀ (R R' k : Nat) (S : Nat → Prop), SubOk q R R' N k S → N < R → R' ≤ M → R ≤ n → n < R' →
          N < c ∧ c < M ∧ ∃ cn : Node K, q.nodes[c]? = some cn ∧ cn.parent = n ∧ cn.plane = l := by
        intro R R' k S hs hR hR' c1 c2
        obtain ⟨a1, a2, rest⟩ := hs.child n x c1 c2 hx hxl l c hc hcm
        exact ⟨by omega, by omega, rest⟩
      rcases hcase n (by omega) b with ⟨c1, c2⟩ | ⟨c1, c2⟩ | ⟨c1, c2⟩ | ⟨c1, c2⟩
      · exact widen _ _ _ _ h0 (by omega) (by omega) c1 c2
      · exact widen _ _ _ _ h1 (by omega) (by omega) c1 c2
      · exact widen _ _ _ _ h2 (by omega) (by omega) c1 c2
      · exact widen _ _ _ _ h3 (by omega) (by omega) c1 c2
  · intro n x a b hx hxl l p hc hcm
    by_cases hN : n = N
    · subst hN; rw [hnd] at hx; cases hx; rw [hleaf] at hxl; cases hxl
    · rcases hcase n (by omega) b with ⟨c1, c2⟩ | ⟨c1, c2⟩ | ⟨c1, c2⟩ | ⟨c1, c2⟩
      · obtain ⟨s, rest⟩ := h0.leafProxy n x c1 c2 hx hxl l p hc hcm; exact ⟨Or.inl s, rest⟩
      · obtain ⟨s, rest⟩ := h1.leafProxy n x c1 c2 hx hxl l p hc hcm; exact ⟨Or.inr (Or.inl s), rest⟩
      · obtain ⟨s, rest⟩ := h2.leafProxy n x c1 c2 hx hxl l p hc hcm; exact ⟨Or.inr (Or.inr (Or.inl s)), rest⟩
      · obtain ⟨s, rest⟩ := h3.leafProxy n x c1 c2 hx hxl l p hc hcm; exact ⟨Or.inr (Or.inr (Or.inr s)), rest⟩
  · intro p hs
    rcases hs with s | s | s | s
    · obtain ⟨pr, a1, a2, a3, rest⟩ := h0.proxyLeaf p s; exact ⟨pr, a1, by omega, by omega, rest⟩
    · obtain ⟨pr, a1, a2, a3, rest⟩ := h1.proxyLeaf p s; exact ⟨pr, a1, by omega, by omega, rest⟩
    · obtain ⟨pr, a1, a2, a3, rest⟩ := h2.proxyLeaf p s; exact ⟨pr, a1, by omega, by omega, rest⟩
    · obtain ⟨pr, a1, a2, a3, rest⟩ := h3.proxyLeaf p s; exact ⟨pr, a1, by omega, by omega, rest⟩

/-- what a successful call builds (for a duplicate-free slice): a closed subtree over exactly the proxies of the slice;
the other proxies are untouched and the `data` of every proxy is kept -/
def BuildSub (aabbs : Array (Aabb3 K)) (q : Q K) (indices : Array Nat) (par plane : Nat) (r : Q K × Nat × Aabb3 K) : Prop :=
  indices.toList.Nodup → (∀ x ∈ indices, x < aabbs.size) →
    SubOk r.1 q.nodes.size r.1.nodes.size par plane (fun p => p ∈ indices) ∧
    (∀ p, p ∉ indices → r.1.proxies[p]? = q.proxies[p]?) ∧
    (∀ p, p ∈ indices → ∃ pr pr' : Proxy, q.proxies[p]? = some pr ∧ r.1.proxies[p]? = some pr' ∧ pr'.data = pr.data)

theorem replicate4_get {α} (x y : α) (j : Nat) (h : (Vector.replicate 4 x)[j]? = some y) : y = x := by
  rcases vec4_lane _ j y h with rfl | rfl | rfl | rfl <;> simp at h <;> exact h.symm

theorem buildRec_sub (aabbs : Array (Aabb3 K)) (dil : K) (fuel : Nat) (q : Q K) (indices : Array Nat) (par plane : Nat)
    (r : Q K × Nat × Aabb3 K) (h : buildRec aabbs dil fuel q indices par plane = some r) :
    BuildSub aabbs q indices par plane r := by
  refine buildRec_induct aabbs dil (BuildSub aabbs) ?_ ?_ fuel q indices par plane r h
  · -- leaf
    intro q indices par plane bx ids ps hsz hl hnd _
    obtain ⟨h1, h2, h3, h4⟩ := buildLeafLoop_spec aabbs q.nodes.size indices.toList 0 _ _ _ _ _ _ hl hnd
    have hN : ({ q with nodes := q.nodes.push (builtLeaf dil bx ids par plane), proxies := ps } : Q K).nodes[q.nodes.size]? =
        some (builtLeaf dil bx ids par plane) := by simp
    have hmem : ∀ p, p ∈ indices → ∃ i, ∃ hi : i < indices.toList.length, indices.toList[i] = p := by
      intro p hp
      have : p ∈ indices.toList := by simpa using hp
      obtain ⟨i, hi, e⟩ := List.getElem_of_mem this
      exact ⟨i, hi, e⟩
    refine ⟨⟨by simp, by simp, ?_, ?_, ?_, ?_, ?_⟩, ?_, ?_⟩
    · intro nd hnd'; rw [hN] at hnd'; cases hnd'; exact ⟨rfl, rfl⟩
    · intro n nd a b; simp at b; omega
    · intro n nd a b hx hxl
      have : n = q.nodes.size := by simp at b; omega
      subst this; rw [hN] at hx; cases hx; simp [builtLeaf] at hxl
    · intro n nd a b hx hxl l p hc hcm
      have : n = q.nodes.size := by simp at b; omega
      subst this; rw [hN] at hx; cases hx
      simp only [builtLeaf] at hc
      by_cases hlt : l < indices.toList.length
      · obtain ⟨_, a2, _, pr, a4, a5⟩ := h4 l hlt
        simp only [Nat.zero_add] at a2 a5
        rw [a2] at hc; cases hc
        exact ⟨by simpa using List.getElem_mem hlt, _, a5, rfl, rfl⟩
      · obtain ⟨a1, _⟩ := h3 l (Or.inr (by omega))
        rw [a1] at hc
        exact absurd (replicate4_get _ _ _ hc) hcm
    · intro p hp
      obtain ⟨i, hi, e⟩ := hmem p hp
      obtain ⟨a1, a2, _, pr, a4, a5⟩ := h4 i hi
      simp only [Nat.zero_add] at a1 a2 a5
      rw [e] at a5 a2
      exact ⟨_, a5, Nat.le_refl _, by simp, _, hN, rfl, a2⟩
    · intro p hp
      exact h2 p (by simpa using hp)
    · intro p hp
      obtain ⟨i, hi, e⟩ := hmem p hp
      obtain ⟨_, _, _, pr, a4, a5⟩ := h4 i hi
      rw [e] at a4 a5
      exact ⟨pr, _, a4, a5, rfl⟩
  · -- four recursive calls
    intro q indices par plane center d0 d1 s0 s1 s2 s3 q1 q2 q3 q4 c0 c1 c2 c3 b0 b1 b2 b3 nd hsz hcd hsp
      p0 p1 p2 p3 ⟨g0, e0⟩ ⟨g1, e1⟩ ⟨g2, e2⟩ ⟨g3, e3⟩ hnd hnodup hrange
    have f0 := buildRec_frame aabbs dil g0 _ _ _ _ _ e0
    have f1 := buildRec_frame aabbs dil g1 _ _ _ _ _ e1
    have f2 := buildRec_frame aabbs dil g2 _ _ _ _ _ e2
    have f3 := buildRec_frame aabbs dil g3 _ _ _ _ _ e3
    dsimp only at f0 f1 f2 f3
    have z0 := f0.lt; have z1 := f1.lt; have z2 := f2.lt; have z3 := f3.lt
    simp only [Array.size_push] at z0
    -- the split is a permutation of a duplicate-free slice
    have hperm : (s0 ++ s1 ++ (s2 ++ s3)).Perm indices := by
      obtain ⟨t0, t1, t2, t3, e, pm, _⟩ := splitDataset_spec aabbs d0 d1 center indices hrange
      rw [hsp] at e
      simp only [Option.some.injEq, Prod.mk.injEq] at e
      obtain ⟨rfl, rfl, rfl, rfl⟩ := e
      exact pm
    have hnd4 : (s0 ++ s1 ++ (s2 ++ s3)).toList.Nodup := (Array.perm_iff_toList_perm.1 hperm).nodup_iff.2 hnodup
    simp only [Array.toList_append, List.nodup_append, List.mem_append, Array.mem_toList_iff] at hnd4
    obtain ⟨⟨n0, n1, d01⟩, ⟨n2, n3, d23⟩, dd⟩ := hnd4
    have hmem : ∀ x, x ∈ indices ↔ (x ∈ s0 ∨ x ∈ s1 ∨ x ∈ s2 ∨ x ∈ s3) := by
      intro x
      rw [← hperm.mem_iff]
      simp only [Array.mem_append, or_assoc]
    have r0 : ∀ x ∈ s0, x < aabbs.size := fun x hx => hrange x ((hmem x).2 (Or.inl hx))
    have r1 : ∀ x ∈ s1, x < aabbs.size := fun x hx => hrange x ((hmem x).2 (Or.inr (Or.inl hx)))
    have r2 : ∀ x ∈ s2, x < aabbs.size := fun x hx => hrange x ((hmem x).2 (Or.inr (Or.inr (Or.inl hx))))
    have r3 : ∀ x ∈ s3, x < aabbs.size := fun x hx => hrange x ((hmem x).2 (Or.inr (Or.inr (Or.inr hx))))
    obtain ⟨t0, u0, v0⟩ := p0 n0 r0
    obtain ⟨t1, u1, v1⟩ := p1 n1 r1
    obtain ⟨t2, u2, v2⟩ := p2 n2 r2
    obtain ⟨t3, u3, v3⟩ := p3 n3 r3
    dsimp only at t0 t1 t2 t3 u0 u1 u2 u3 v0 v1 v2 v3
    simp only [Array.size_push] at t0
    -- disjointness in usable form
    have x01 : ∀ p, p ∈ s0 → p ∉ s1 := fun p a b => d01 p a p b rfl
    have x02 : ∀ p, p ∈ s0 → p ∉ s2 := fun p a b => dd p (Or.inl a) p (Or.inl b) rfl
    have x03 : ∀ p, p ∈ s0 → p ∉ s3 := fun p a b => dd p (Or.inl a) p (Or.inr b) rfl
    have x12 : ∀ p, p ∈ s1 → p ∉ s2 := fun p a b => dd p (Or.inr a) p (Or.inl b) rfl
    have x13 : ∀ p, p ∈ s1 → p ∉ s3 := fun p a b => dd p (Or.inr a) p (Or.inr b) rfl
    have x23 : ∀ p, p ∈ s2 → p ∉ s3 := fun p a b => d23 p a p b rfl
    -- the final state
    have hsz5 : ∀ (nd' : Node K), ({ q4 with nodes := q4.nodes.setIfInBounds q.nodes.size nd' } : Q K).nodes.size = q4.nodes.size := by
      intro nd'; simp
    -- node `N` is still the placeholder
    have hopen : nd = openNode par plane := by
      have := f3.old q.nodes.size (by omega)
      rw [f2.old _ (by omega), f1.old _ (by omega), f0.old _ (by simp)] at this
      rw [hnd] at this
      simpa using this
    subst hopen
    have hc0 : c0 = q.nodes.size + 1 := by have := f0.id; simpa using this
    have hc1 : c1 = q1.nodes.size := f1.id
    have hc2 : c2 = q2.nodes.size := f2.id
    have hc3 : c3 = q3.nodes.size := f3.id
    subst hc0 hc1 hc2 hc3
    -- nodes other than `N` are those of `q4`
    have hne : ∀ i, i ≠ q.nodes.size → (q4.nodes.setIfInBounds q.nodes.size
        (closedNode (openNode par plane) (q.nodes.size + 1) q1.nodes.size q2.nodes.size q3.nodes.size (dilated4 dil b0 b1 b2 b3)))[i]? = q4.nodes[i]? := by
      intro i hi
      simp [Array.getElem?_setIfInBounds, Ne.symm hi]
    have hN5 : (q4.nodes.setIfInBounds q.nodes.size
        (closedNode (openNode par plane) (q.nodes.size + 1) q1.nodes.size q2.nodes.size q3.nodes.size (dilated4 dil b0 b1 b2 b3)))[q.nodes.size]? =
        some (closedNode (openNode par plane) (q.nodes.size + 1) q1.nodes.size q2.nodes.size q3.nodes.size (dilated4 dil b0 b1 b2 b3)) := by
      simp [Array.getElem?_setIfInBounds]; omega
    refine ⟨?_, ?_, ?_⟩
    · dsimp only
      rw [Array.size_setIfInBounds]
      refine SubOk.congrS (SubOk.combine (q := _) _ hN5 rfl rfl rfl rfl
        (t0.frame ?_ ?_ ?_) (t1.frame ?_ ?_ ?_) (t2.frame ?_ ?_ ?_) (t3.frame ?_ ?_ ?_)) (fun p => ((hmem p).symm))
      · intro i a b
        dsimp only
        rw [hne i (by omega), f3.old i (by omega), f2.old i (by omega), f1.old i (by omega)]
      · intro p hp
        dsimp only
        rw [u3 p (x03 p hp), u2 p (x02 p hp), u1 p (x01 p hp)]
      · simp; omega
      · intro i a b
        dsimp only
        rw [hne i (by omega), f3.old i (by omega), f2.old i (by omega)]
      · intro p hp
        dsimp only
        rw [u3 p (x13 p hp), u2 p (x12 p hp)]
      · simp; omega
      · intro i a b
        dsimp only
        rw [hne i (by omega), f3.old i (by omega)]
      · intro p hp
        dsimp only
        rw [u3 p (x23 p hp)]
      · simp; omega
      · intro i a b
        dsimp only
        rw [hne i (by omega)]
      · intro p hp; rfl
      · simp
    · intro p hp
      dsimp only
      rw [u3 p (fun hh => hp ((hmem p).2 (Or.inr (Or.inr (Or.inr hh))))),
        u2 p (fun hh => hp ((hmem p).2 (Or.inr (Or.inr (Or.inl hh))))),
        u1 p (fun hh => hp ((hmem p).2 (Or.inr (Or.inl hh)))),
        u0 p (fun hh => hp ((hmem p).2 (Or.inl hh)))]
    · intro p hp
      dsimp only
      rcases (hmem p).1 hp with hh | hh | hh | hh
      · obtain ⟨pr, pr', a1, a2, a3⟩ := v0 p hh
        exact ⟨pr, pr', a1, by rw [u3 p (x03 p hh), u2 p (x02 p hh), u1 p (x01 p hh)]; exact a2, a3⟩
      · obtain ⟨pr, pr', a1, a2, a3⟩ := v1 p hh
        exact ⟨pr, pr', by rw [← u0 p (fun h0 => x01 p h0 hh)]; exact a1,
          by rw [u3 p (x13 p hh), u2 p (x12 p hh)]; exact a2, a3⟩
      · obtain ⟨pr, pr', a1, a2, a3⟩ := v2 p hh
        exact ⟨pr, pr', by rw [← u0 p (fun h0 => x02 p h0 hh), ← u1 p (fun h0 => x12 p h0 hh)]; exact a1,
          by rw [u3 p (x23 p hh)]; exact a2, a3⟩
      · obtain ⟨pr, pr', a1, a2, a3⟩ := v3 p hh
        exact ⟨pr, pr', by rw [← u0 p (fun h0 => x03 p h0 hh), ← u1 p (fun h0 => x13 p h0 hh), ← u2 p (fun h0 => x23 p h0 hh)]; exact a1,
          a2, a3⟩

/-! ## the proxy-filling loop of `clear_and_rebuild` -/

theorem getElem?_append_replicate {α} (a : Array α) (k : Nat) (x : α) (p : Nat) :
    (a ++ Array.replicate k x)[p]? = if p < a.size then a[p]? else if p < a.size + k then some x else none := by
  by_cases h : p < a.size
  · simp [Array.getElem?_append, h]
  · rw [Array.getElem?_append_right (by omega)]
    simp only [Array.getElem?_replicate, h, if_false]
    by_cases h2 : p < a.size + k
    · simp [h2]; omega
    · simp [h2]; omega

/-- `v.resize(n, x)` for `n > len`, as a function -/
theorem getD_append_replicate {α} (a : Array α) (k : Nat) (x : α) (p : Nat) :
    ((a ++ Array.replicate k x)[p]?).getD x = (a[p]?).getD x := by
  rw [getElem?_append_replicate]
  by_cases h : p < a.size
  · simp [h]
  · simp only [h, if_false]
    have : a[p]? = none := by simp; omega
    rw [this]
    split <;> rfl

/-- all proxies detached (`node = u32::MAX`, lane 0) -/
def AllDetached (ps : Array Proxy) : Prop := ∀ (p : Nat) (pr : Proxy), ps[p]? = some pr → pr.node = MAXN ∧ pr.lane = 0

theorem curAfter_cons (it : Nat × Aabb3 K) (rest : List (Nat × Aabb3 K)) (cur : Nat → Aabb3 K) :
    curAfter (it :: rest) cur = curAfter rest (fun d => if d = it.1 then it.2 else cur d) := rfl

theorem fillProxies_spec :
    ∀ (items : List (Nat × Aabb3 K)) (ps : Array Proxy) (bs : Array (Aabb3 K)) (ix : Array Nat)
      (ps' : Array Proxy) (bs' : Array (Aabb3 K)) (ix' : Array Nat),
      fillProxies items (ps, bs, ix) = (ps', bs', ix') → ps.size = bs.size →
      ps'.size = bs'.size ∧ ps.size ≤ ps'.size ∧ ix'.toList = ix.toList ++ items.map (·.1) ∧
      (AllDetached ps → AllDetached ps') ∧
      (∀ B, ps.size ≤ B → (∀ it ∈ items, it.1 < B) → ps'.size ≤ B) ∧
      ((∀ x ∈ ix, ∃ pr, ps[x]? = some pr ∧ pr.data = x) → ∀ x ∈ ix', ∃ pr, ps'[x]? = some pr ∧ pr.data = x) ∧
      (∀ p, p < ps'.size → bs'[p]? = some (curAfter items (fun d => (bs[d]?).getD invalidBox) p)) := by
  intro items
  induction items with
  | nil =>
    intro ps bs ix ps' bs' ix' h hs
    simp only [fillProxies, Prod.mk.injEq] at h
    obtain ⟨rfl, rfl, rfl⟩ := h
    refine ⟨hs, Nat.le_refl _, by simp, id, fun B h _ => h, id, ?_⟩
    intro p hp
    simp [curAfter, hs ▸ hp]
  | cons it rest ih =>
    intro ps bs ix ps' bs' ix' h hs
    obtain ⟨index, box⟩ := it
    simp only [fillProxies] at h
    -- the state after one iteration
    generalize hps1 : (if ps.size ≤ index then ps ++ Array.replicate (index + 1 - ps.size) invalidProxy else ps) = ps1 at h
    generalize hbs1 : (if ps.size ≤ index then bs ++ Array.replicate (index + 1 - bs.size) invalidBox else bs) = bs1 at h
    have hsz1 : ps1.size = bs1.size := by
      subst hps1 hbs1; split
      · simp; omega
      · exact hs
    have hlt1 : index < ps1.size := by
      subst hps1; split
      · simp; omega
      · omega
    have hge1 : ps.size ≤ ps1.size := by
      subst hps1; split
      · simp
      · exact Nat.le_refl _
    have hget1 : ps1[index]? = some ps1[index] := by simp [hlt1]
    rw [hget1] at h
    dsimp only at h
    have hone : AllDetached ps → ∀ (p : Nat) (pr : Proxy), ps1[p]? = some pr → pr.node = MAXN ∧ pr.lane = 0 := by
      intro hd p pr hp
      subst hps1
      split at hp
      · rw [getElem?_append_replicate] at hp
        split at hp
        · exact hd p pr hp
        · split at hp
          · cases hp; exact ⟨rfl, rfl⟩
          · cases hp
      · exact hd p pr hp
    have hold1 : ∀ p : Nat, p < ps.size → ps1[p]? = ps[p]? := by
      intro p hp; subst hps1; split
      · rw [getElem?_append_replicate]; simp [hp]
      · rfl
    have hboxold : ∀ p : Nat, (bs1[p]?).getD invalidBox = (bs[p]?).getD invalidBox := by
      intro p
      subst hbs1
      split
      · exact getD_append_replicate _ _ _ _
      · rfl
    obtain ⟨a1, a2, a3, a4, a5, a6, a7⟩ := ih _ _ _ _ _ _ h (by simp [hsz1])
    simp only [Array.size_setIfInBounds] at a1 a2 a5 a7
    refine ⟨a1, by omega, ?_, ?_, ?_, ?_, ?_⟩
    · rw [a3]; simp
    · intro hd
      apply a4
      intro p pr hp
      simp only [Array.getElem?_setIfInBounds] at hp
      split at hp
      · rename_i e; subst e
        simp only [hlt1, if_true, Option.some.injEq] at hp
        subst hp
        exact hone hd index ps1[index] hget1
      · exact hone hd p pr hp
    · intro B hB hall
      apply a5 B
      · have := hall (index, box) (by simp)
        subst hps1; split
        · simp; omega
        · exact hB
      · intro it hit; exact hall it (by simp [hit])
    · intro hdat
      apply a6
      intro x hx
      simp only [Array.mem_push] at hx
      simp only [Array.getElem?_setIfInBounds]
      by_cases hxi : index = x
      · subst hxi; simp [hlt1]
      · simp only [hxi, if_false]
        rcases hx with hx | hx
        · obtain ⟨pr, e1, e2⟩ := hdat x hx
          have : x < ps.size := (Array.getElem?_eq_some_iff.mp e1).1
          exact ⟨pr, by rw [hold1 x this]; exact e1, e2⟩
        · exact absurd hx.symm hxi
    · intro p hp
      rw [a7 p hp, curAfter_cons]
      have : (fun d => ((bs1.setIfInBounds index box)[d]?).getD invalidBox) =
          (fun d => if d = index then box else (bs[d]?).getD invalidBox) := by
        funext d
        simp only [Array.getElem?_setIfInBounds]
        by_cases hd : index = d
        · subst hd; simp [hsz1 ▸ hlt1]
        · simp only [hd, if_false, Ne.symm hd]
          exact hboxold d
      rw [this]

/-! ## node count -/

/-- bound on the number of nodes built for a slice of length `n`: one leaf for `n ≤ 4` (also for the empty slice);
otherwise every internal node has four children of which at least two are non-empty -/
def nodeBound (n : Nat) : Nat := if n = 0 then 1 else 4 * n - 3

theorem buildRec_count (aabbs : Array (Aabb3 K)) (dil : K) (fuel : Nat) (q : Q K) (indices : Array Nat) (par plane : Nat)
    (r : Q K × Nat × Aabb3 K) (h : buildRec aabbs dil fuel q indices par plane = some r)
    (hr : ∀ x ∈ indices, x < aabbs.size) : r.1.nodes.size ≤ q.nodes.size + nodeBound indices.size := by
  revert hr
  refine buildRec_induct aabbs dil (fun q indices _ _ r => (∀ x ∈ indices, x < aabbs.size) →
    r.1.nodes.size ≤ q.nodes.size + nodeBound indices.size) ?_ ?_ fuel q indices par plane r h
  · intro q indices par plane bx ids ps hsz hl _
    simp only [Array.size_push, nodeBound]
    split <;> omega
  · intro q indices par plane center d0 d1 s0 s1 s2 s3 q1 q2 q3 q4 c0 c1 c2 c3 b0 b1 b2 b3 nd hsz hcd hsp
      p0 p1 p2 p3 _ _ _ _ hnd hrange
    obtain ⟨t0, t1, t2, t3, e, pm, hlt⟩ := splitDataset_spec aabbs d0 d1 center indices hrange
    rw [hsp] at e
    simp only [Option.some.injEq, Prod.mk.injEq] at e
    obtain ⟨rfl, rfl, rfl, rfl⟩ := e
    have hmem : ∀ x, (x ∈ s0 ∨ x ∈ s1 ∨ x ∈ s2 ∨ x ∈ s3) → x ∈ indices := by
      intro x hx
      apply pm.mem_iff.1
      simp only [Array.mem_append]
      rcases hx with h | h | h | h <;> simp [h]
    have a0 := p0 (fun x hx => hrange x (hmem x (Or.inl hx)))
    have a1 := p1 (fun x hx => hrange x (hmem x (Or.inr (Or.inl hx))))
    have a2 := p2 (fun x hx => hrange x (hmem x (Or.inr (Or.inr (Or.inl hx)))))
    have a3 := p3 (fun x hx => hrange x (hmem x (Or.inr (Or.inr (Or.inr hx)))))
    obtain ⟨l0, l1, l2, l3⟩ := hlt (by omega)
    have hsum := pm.size_eq
    simp only [Array.size_append] at hsum
    simp only [Array.size_push, Array.size_setIfInBounds, nodeBound] at a0 a1 a2 a3 ⊢
    split at a0 <;> split at a1 <;> split at a2 <;> split at a3 <;> split <;> omega

/-! ## a rank function from "parents have smaller indices" -/

/-- number of parent steps from `n` to the root when parent indices decrease -/
def depthOf (q : Q K) : Nat → Nat
  | 0 => 0
  | n + 1 =>
    match q.nodes[n + 1]? with
    | some nd => if h : nd.parent < n + 1 then depthOf q nd.parent + 1 else 0
    | none => 0
termination_by n => n
decreasing_by exact h

theorem depthOf_step (q : Q K) (n : Nat) (nd : Node K) (hn : n ≠ 0) (hnd : q.nodes[n]? = some nd) (hlt : nd.parent < n) :
    depthOf q n = depthOf q nd.parent + 1 := by
  cases n with
  | zero => exact absurd rfl hn
  | succ m =>
    rw [depthOf]
    simp only [hnd, hlt, dite_true]

/-- the builder creates nodes without the DIRTY flag -/
theorem buildRec_clean (aabbs : Array (Aabb3 K)) (dil : K) (fuel : Nat) (q : Q K) (indices : Array Nat) (par plane : Nat)
    (r : Q K × Nat × Aabb3 K) (h : buildRec aabbs dil fuel q indices par plane = some r)
    (hq : ∀ (n : Nat) (nd : Node K), q.nodes[n]? = some nd → nd.dirty = false) :
    ∀ (n : Nat) (nd : Node K), r.1.nodes[n]? = some nd → nd.dirty = false := by
  revert hq
  refine buildRec_induct aabbs dil (fun q _ _ _ r => (∀ (n : Nat) (nd : Node K), q.nodes[n]? = some nd → nd.dirty = false) →
    ∀ (n : Nat) (nd : Node K), r.1.nodes[n]? = some nd → nd.dirty = false) ?_ ?_ fuel q indices par plane r h
  · intro q indices par plane bx ids ps hsz hl hq n nd hnd
    dsimp only at hnd
    rw [Array.getElem?_push] at hnd
    split at hnd
    · cases hnd; rfl
    · exact hq n nd hnd
  · intro q indices par plane center d0 d1 s0 s1 s2 s3 q1 q2 q3 q4 c0 c1 c2 c3 b0 b1 b2 b3 nd hsz hcd hsp
      p0 p1 p2 p3 _ _ _ _ hnd hq n x hx
    have h4 := p3 (p2 (p1 (p0 (by
      intro m y hy
      dsimp only at hy
      rw [Array.getElem?_push] at hy
      split at hy
      · cases hy; rfl
      · exact hq m y hy))))
    dsimp only at h4 hx
    rw [Array.getElem?_setIfInBounds] at hx
    split at hx
    · split at hx
      · cases hx; exact h4 _ nd hnd
      · cases hx
    · exact h4 n x hx
