import ParryModel.C08.Lemmas
/-!
# C08: `refit` establishes the box invariant — the work-list loop invariant (core Lean only).
The order facts about boxes that the argument needs are collected in `BoxLaws`; `Theorems.lean` proves them for
every linearly ordered field.
-/
namespace C08
open Model Model.Qbvh
set_option linter.unusedSectionVars false
variable {K : Type} [Num K]

/-- the order facts about `boxContains`, `loosenBox`, `mergedBox` used by the refit argument -/
structure BoxLaws (K : Type) [Num K] : Prop where
  refl : ∀ a : Aabb3 K, boxContains a a = true
  trans : ∀ a b c : Aabb3 K, boxContains a b = true → boxContains b c = true → boxContains a c = true
  loosen : ∀ (m : K) (b : Aabb3 K), (0 : K) ≤ m → boxContains (loosenBox m b) b = true
  merged : ∀ (v : Vector (Aabb3 K) 4) (l : Nat) (b : Aabb3 K), v[l]? = some b → boxContains (mergedBox v) b = true
  mergedLeast : ∀ (v : Vector (Aabb3 K) 4) (x : Aabb3 K),
    (∀ (l : Nat) (b : Aabb3 K), v[l]? = some b → boxContains x b = true) → boxContains x (mergedBox v) = true

/-- **a node is up to date**: its four lane boxes contain the boxes `refit` would compute for it right now
(`node.simd_aabb.contains(&new_simd_aabb).all()` in `refit`): leaf lanes contain the current box of their proxy,
internal lanes contain the merged box of the child node, empty lanes contain the invalid box. -/
def GoodNode (q : Q K) (cur : Nat → Aabb3 K) (nd : Node K) : Prop :=
  containsAll nd.boxes (freshBoxes q cur nd) = true

/-- **B**: every live node is up to date -/
def BoxInv (q : Q K) (cur : Nat → Aabb3 K) : Prop :=
  ∀ (n : Nat) (nd : Node K), q.nodes[n]? = some nd → Live q n → GoodNode q cur nd

/-- **T**: every live node is up to date, or flagged DIRTY and queued for refit -/
def Tracked (q : Q K) (cur : Nat → Aabb3 K) : Prop :=
  ∀ (n : Nat) (nd : Node K), q.nodes[n]? = some nd → Live q n →
    GoodNode q cur nd ∨ (nd.dirty = true ∧ n ∈ q.dirtyNodes)

/-- **D**: a node flagged DIRTY is in the work list -/
def DirtyQueued (q : Q K) : Prop :=
  ∀ (n : Nat) (nd : Node K), q.nodes[n]? = some nd → nd.dirty = true → n ∈ q.dirtyNodes

/-- loop invariant of the inner loop of `refit`: `W` = what is left of `dirty_nodes`, `P` = `dirty_parent_nodes` -/
structure J (cur : Nat → Aabb3 K) (W : List Nat) (q : Q K) (P : List Nat) : Prop where
  inv : Inv q
  good : ∀ (n : Nat) (nd : Node K), q.nodes[n]? = some nd → Live q n →
    GoodNode q cur nd ∨ (nd.dirty = true ∧ n ∈ W ++ P)
  dirty : ∀ (n : Nat) (nd : Node K), q.nodes[n]? = some nd → nd.dirty = true → n ∈ W ++ P

theorem containsAll_lane (a b : Vector (Aabb3 K) 4) (h : containsAll a b = true) (l : Nat) (x y : Aabb3 K)
    (hx : a[l]? = some x) (hy : b[l]? = some y) : boxContains x y = true := by
  unfold containsAll at h
  simp only [Bool.and_eq_true] at h
  rcases vec4_lane _ _ _ hx with rfl | rfl | rfl | rfl <;> simp at hx hy <;> subst hx <;> subst hy <;> simp [h]

theorem containsAll_of_lanes (a b : Vector (Aabb3 K) 4)
    (h : ∀ (l : Nat) (x y : Aabb3 K), a[l]? = some x → b[l]? = some y → boxContains x y = true) :
    containsAll a b = true := by
  unfold containsAll
  simp only [Bool.and_eq_true]
  exact ⟨⟨⟨h 0 _ _ (by simp) (by simp), h 1 _ _ (by simp) (by simp)⟩, h 2 _ _ (by simp) (by simp)⟩,
    h 3 _ _ (by simp) (by simp)⟩

/-- a child of a live internal node is not that node -/
theorem child_ne_self (q : Q K) (h : Inv q) (n : Nat) (nd : Node K) (hn : q.nodes[n]? = some nd) (hl : Live q n)
    (hleaf : nd.leaf = false) (l c : Nat) (hc : nd.children[l]? = some c) (hcm : c ≠ MAXN) : c ≠ n := by
  obtain ⟨c0, clive, cn, hcn, cp, _⟩ := h.child n nd hn hl hleaf l c hc hcm
  obtain ⟨d, _, hd⟩ := h.depth
  intro e
  subst e
  have := hd c cn hcn clive c0
  rw [cp] at this; omega

/-- `freshBoxes` only looks at the proxies and current boxes of the lanes (leaf) or at the boxes of the child nodes
(internal node) -/
theorem freshBoxes_congr (q q' : Q K) (cur cur' : Nat → Aabb3 K) (nd nd' : Node K)
    (hch : nd'.children = nd.children) (hlf : nd'.leaf = nd.leaf)
    (hp : nd.leaf = true → ∀ (l c : Nat), nd.children[l]? = some c →
      (q'.proxies[c]?).map (fun pr => cur' pr.data) = (q.proxies[c]?).map (fun pr => cur pr.data))
    (hn : nd.leaf = false → ∀ (l c : Nat), nd.children[l]? = some c →
      (q'.nodes[c]?).map (fun cn => cn.boxes) = (q.nodes[c]?).map (fun cn => cn.boxes)) :
    freshBoxes q' cur' nd' = freshBoxes q cur nd := by
  unfold freshBoxes
  rw [hch, hlf]
  apply Vector.ext
  intro l hl
  simp only [Vector.getElem_map]
  have hc : nd.children[l]? = some nd.children[l] := by simp [hl]
  cases hleaf : nd.leaf with
  | true =>
    simp only [if_true]
    have := hp hleaf l _ hc
    cases h1 : q'.proxies[nd.children[l]]? <;> cases h2 : q.proxies[nd.children[l]]? <;> simp [h1, h2] at this ⊢
    exact this
  | false =>
    simp only [Bool.false_eq_true, if_false]
    have := hn hleaf l _ hc
    cases h1 : q'.nodes[nd.children[l]]? <;> cases h2 : q.nodes[nd.children[l]]? <;> simp [h1, h2] at this ⊢
    rw [this]

/-- the semantic reading of `GoodNode`: an occupied lane box contains what is below it -/
theorem goodNode_semantic (laws : BoxLaws K) (q : Q K) (cur : Nat → Aabb3 K) (nd : Node K) (hg : GoodNode q cur nd)
    (l c : Nat) (b : Aabb3 K) (hc : nd.children[l]? = some c) (hb : nd.boxes[l]? = some b) :
    (nd.leaf = true → ∀ pr : Proxy, q.proxies[c]? = some pr → boxContains b (cur pr.data) = true) ∧
    (nd.leaf = false → ∀ cn : Node K, q.nodes[c]? = some cn →
      ∀ (l' : Nat) (b' : Aabb3 K), cn.boxes[l']? = some b' → boxContains b b' = true) := by
  have hl : l < 4 := by rcases vec4_lane _ _ _ hc with e | e | e | e <;> omega
  obtain ⟨y, hy⟩ : ∃ y, (freshBoxes q cur nd)[l]? = some y := ⟨(freshBoxes q cur nd)[l], by simp [hl]⟩
  have hxy := containsAll_lane _ _ hg l b y hb hy
  unfold freshBoxes at hy
  rw [Vector.getElem?_map, hc] at hy
  simp only [Option.map_some, Option.some.injEq] at hy
  constructor
  · intro hleaf pr hpr
    simp only [hleaf, if_true, hpr] at hy
    subst hy; exact hxy
  · intro hleaf cn hcn l' b' hb'
    simp only [hleaf, Bool.false_eq_true, if_false, hcn] at hy
    subst hy
    exact laws.trans _ _ _ hxy (laws.merged cn.boxes l' b' hb')

/-- `J` with one node exempted from the `good` clause -/
structure JX (cur : Nat → Aabb3 K) (W : List Nat) (q : Q K) (P : List Nat) (exc : Nat) : Prop where
  inv : Inv q
  good : ∀ (n : Nat) (nd : Node K), q.nodes[n]? = some nd → Live q n → n ≠ exc →
    GoodNode q cur nd ∨ (nd.dirty = true ∧ n ∈ W ++ P)
  dirty : ∀ (n : Nat) (nd : Node K), q.nodes[n]? = some nd → nd.dirty = true → n ∈ W ++ P

theorem mem_tail_of_ne {W P : List Nat} {n id : Nat} (hne : n ≠ id) (hm : n ∈ (id :: W) ++ P) : n ∈ W ++ P := by
  simp only [List.cons_append, List.mem_cons] at hm
  rcases hm with e | e
  · exact absurd e hne
  · exact e

/-- overwrite node `id` by a clean node with the same topology whose lane boxes contain the fresh ones -/
theorem J_setNode (cur : Nat → Aabb3 K) (id : Nat) (W P : List Nat) (q : Q K) (nd nd' : Node K)
    (hJ : J cur (id :: W) q P) (hnd : q.nodes[id]? = some nd)
    (t1 : nd'.children = nd.children) (t2 : nd'.parent = nd.parent) (t3 : nd'.plane = nd.plane) (t4 : nd'.leaf = nd.leaf)
    (hclean : nd'.dirty = false)
    (hbx : containsAll nd'.boxes (freshBoxes q cur nd) = true) :
    JX cur W { q with nodes := q.nodes.setIfInBounds id nd' } P nd.parent ∧
    (nd'.boxes = nd.boxes → J cur W { q with nodes := q.nodes.setIfInBounds id nd' } P) := by
  have hlt : id < q.nodes.size := (Array.getElem?_eq_some_iff.mp hnd).1
  have hidM : id ≠ MAXN := by have := hJ.inv.small; omega
  have hte : TopoEq q { q with nodes := q.nodes.setIfInBounds id nd' } := TopoEq.setNode q id nd nd' q.dirtyNodes hnd t1 t2 t3 t4
  have hinv : Inv ({ q with nodes := q.nodes.setIfInBounds id nd' } : Q K) := hJ.inv.of_topoEq hte
  have hget : ∀ n : Nat, (q.nodes.setIfInBounds id nd')[n]? = if id = n then some nd' else q.nodes[n]? := by
    intro n; simp only [Array.getElem?_setIfInBounds]; split
    · simp [hlt]
    · rfl
  have hgetne : ∀ c : Nat, c ≠ id → (q.nodes.setIfInBounds id nd')[c]? = q.nodes[c]? := by
    intro c hc; rw [hget]; simp [Ne.symm hc]
  -- the new node is good in the new state
  have hgood_id : Live q id → GoodNode ({ q with nodes := q.nodes.setIfInBounds id nd' } : Q K) cur nd' := by
    intro hlive
    unfold GoodNode
    rw [freshBoxes_congr q ({ q with nodes := q.nodes.setIfInBounds id nd' } : Q K) cur cur nd nd' t1 t4 (fun _ _ _ _ => rfl)]
    · exact hbx
    · intro hleaf l c hc
      have hcne : c ≠ id := by
        by_cases hcm : c = MAXN
        · rw [hcm]; exact Ne.symm hidM
        · exact child_ne_self q hJ.inv id nd hnd hlive hleaf l c hc hcm
      show ((q.nodes.setIfInBounds id nd')[c]?).map _ = _
      rw [hgetne c hcne]
  -- other nodes
  have hgood_other : ∀ (n : Nat) (ndn : Node K), n ≠ id → q.nodes[n]? = some ndn → Live q n →
      (n ≠ nd.parent ∨ nd'.boxes = nd.boxes) → GoodNode q cur ndn →
      GoodNode ({ q with nodes := q.nodes.setIfInBounds id nd' } : Q K) cur ndn := by
    intro n ndn hne hn hlive hor hg
    unfold GoodNode
    rw [freshBoxes_congr q ({ q with nodes := q.nodes.setIfInBounds id nd' } : Q K) cur cur ndn ndn rfl rfl (fun _ _ _ _ => rfl)]
    · exact hg
    · intro hleaf l c hc
      show ((q.nodes.setIfInBounds id nd')[c]?).map _ = _
      by_cases hcid : c = id
      · subst hcid
        rcases hor with hpar | hsame
        · exfalso
          obtain ⟨_, _, cn0, hcn0, cp, _⟩ := hJ.inv.child n ndn hn hlive hleaf l c hc hidM
          rw [hnd] at hcn0; cases hcn0
          exact hpar cp.symm
        · rw [hget]; simp [hnd, hsame]
      · rw [hgetne c hcid]
  have hdirty : ∀ (n : Nat) (ndn : Node K), (q.nodes.setIfInBounds id nd')[n]? = some ndn → ndn.dirty = true → n ∈ W ++ P := by
    intro n ndn hn hd
    rw [hget] at hn
    split at hn
    · cases hn; rw [hclean] at hd; cases hd
    · rename_i hne
      exact mem_tail_of_ne (Ne.symm hne) (hJ.dirty n ndn hn hd)
  have hgoodall : ∀ (n : Nat) (ndn : Node K), (q.nodes.setIfInBounds id nd')[n]? = some ndn → Live q n →
      (n ≠ nd.parent ∨ nd'.boxes = nd.boxes) →
      GoodNode ({ q with nodes := q.nodes.setIfInBounds id nd' } : Q K) cur ndn ∨ (ndn.dirty = true ∧ n ∈ W ++ P) := by
    intro n ndn hn hlive hor
    rw [hget] at hn
    split at hn
    · rename_i e; subst e; cases hn
      exact Or.inl (hgood_id hlive)
    · rename_i hne
      rcases hJ.good n ndn hn hlive with g | ⟨d1, d2⟩
      · exact Or.inl (hgood_other n ndn (Ne.symm hne) hn hlive hor g)
      · exact Or.inr ⟨d1, mem_tail_of_ne (Ne.symm hne) d2⟩
  constructor
  · exact ⟨hinv, fun n ndn hn hlive hne => hgoodall n ndn hn hlive (Or.inl hne), hdirty⟩
  · intro hsame
    exact ⟨hinv, fun n ndn hn hlive => hgoodall n ndn hn hlive (Or.inr hsame), hdirty⟩

theorem mem_append_cons_of_mem {W P : List Nat} {n p : Nat} (h : n ∈ W ++ P) : n ∈ W ++ p :: P := by
  simp only [List.mem_append, List.mem_cons] at *
  rcases h with h | h
  · exact Or.inl h
  · exact Or.inr (Or.inr h)

/-- the "mark the parent dirty" step of `refit` discharges the exemption -/
theorem J_flagParent (cur : Nat → Aabb3 K) (W P : List Nat) (q : Q K) (p : Nat) (hJ : JX cur W q P p) :
    J cur W (flagParent q p P).1 (flagParent q p P).2 := by
  unfold flagParent
  split
  · rename_i pn hpn
    split
    · rename_i hnd
      have hnd' : pn.dirty = false := by cases h : pn.dirty <;> simp_all
      have hlt : p < q.nodes.size := (Array.getElem?_eq_some_iff.mp hpn).1
      have hte := TopoEq.setNode q p pn ({ pn with dirty := true } : Node K) q.dirtyNodes hpn rfl rfl rfl rfl
      have hget : ∀ n : Nat, (q.nodes.setIfInBounds p ({ pn with dirty := true } : Node K))[n]? =
          if p = n then some ({ pn with dirty := true } : Node K) else q.nodes[n]? := by
        intro n; simp only [Array.getElem?_setIfInBounds]; split
        · simp [hlt]
        · rfl
      refine ⟨hJ.inv.of_topoEq hte, ?_, ?_⟩
      · intro n ndn hn hlive
        simp only at hn
        rw [hget] at hn
        split at hn
        · rename_i e; subst e; cases hn
          exact Or.inr ⟨rfl, by simp⟩
        · rename_i hne
          rcases hJ.good n ndn hn hlive (Ne.symm hne) with g | ⟨d1, d2⟩
          · left
            unfold GoodNode
            rw [freshBoxes_congr q ({ q with nodes := q.nodes.setIfInBounds p ({ pn with dirty := true } : Node K) } : Q K) cur cur ndn ndn rfl rfl (fun _ _ _ _ => rfl)]
            · exact g
            · intro hleaf l c hc
              show ((q.nodes.setIfInBounds p ({ pn with dirty := true } : Node K))[c]?).map _ = _
              rw [hget]
              split
              · rename_i e; subst e; simp [hpn]
              · rfl
          · exact Or.inr ⟨d1, mem_append_cons_of_mem d2⟩
      · intro n ndn hn hd
        simp only at hn
        rw [hget] at hn
        split at hn
        · rename_i e; subst e; simp
        · exact mem_append_cons_of_mem (hJ.dirty n ndn hn hd)
    · rename_i hd
      have hd' : pn.dirty = true := by cases h : pn.dirty <;> simp_all
      refine ⟨hJ.inv, ?_, hJ.dirty⟩
      intro n ndn hn hlive
      by_cases hne : n = p
      · subst hne; rw [hpn] at hn; cases hn
        exact Or.inr ⟨hd', hJ.dirty n pn hpn hd'⟩
      · exact hJ.good n ndn hn hlive hne
  · rename_i hnone
    refine ⟨hJ.inv, ?_, hJ.dirty⟩
    intro n ndn hn hlive
    have hne : n ≠ p := by intro e; subst e; rw [hnone] at hn; cases hn
    exact hJ.good n ndn hn hlive hne

theorem J_skip (cur : Nat → Aabb3 K) (id : Nat) (W P : List Nat) (q : Q K) (hJ : J cur (id :: W) q P)
    (hnone : q.nodes[id]? = none) : J cur W q P := by
  have hmem : ∀ n : Nat, n ≠ id → n ∈ (id :: W) ++ P → n ∈ W ++ P := by
    intro n hne hm
    simp only [List.cons_append, List.mem_cons] at hm
    rcases hm with e | e
    · exact absurd e hne
    · exact e
  refine ⟨hJ.inv, ?_, ?_⟩
  · intro n nd hn hlive
    have hne : n ≠ id := by intro e; subst e; rw [hnone] at hn; cases hn
    rcases hJ.good n nd hn hlive with g | ⟨d1, d2⟩
    · exact Or.inl g
    · exact Or.inr ⟨d1, hmem n hne d2⟩
  · intro n nd hn hd
    have hne : n ≠ id := by intro e; subst e; rw [hnone] at hn; cases hn
    exact hmem n hne (hJ.dirty n nd hn hd)

/-- one iteration of the inner loop of `refit` maintains the loop invariant -/
theorem J_step (laws : BoxLaws K) (cur : Nat → Aabb3 K) (margin : K) (hm : (0 : K) ≤ margin) (first : Bool)
    (id : Nat) (W P : List Nat) (q : Q K) (num : Nat) (hJ : J cur (id :: W) q P) :
    J cur W (refitNode cur margin first (q, P, num) id).1 (refitNode cur margin first (q, P, num) id).2.1 := by
  unfold refitNode
  simp only
  split
  · rename_i hnone; exact J_skip cur id W P q hJ hnone
  · rename_i nd hnd
    split
    · -- the boxes are replaced by the fresh ones, loosened
      have hbx : containsAll ((freshBoxes q cur nd).map (loosenBox margin)) (freshBoxes q cur nd) = true := by
        apply containsAll_of_lanes
        intro l x y hx hy
        rw [Vector.getElem?_map, hy] at hx
        simp only [Option.map_some, Option.some.injEq] at hx
        subst hx
        exact laws.loosen margin y hm
      have := (J_setNode cur id W P q nd
        ({ nd with dirty := false, changed := true, boxes := (freshBoxes q cur nd).map (loosenBox margin) } : Node K)
        hJ hnd rfl rfl rfl rfl rfl hbx).1
      exact J_flagParent cur W P _ nd.parent this
    · -- the old boxes already contain the fresh ones: only the flag is cleared
      rename_i hcond
      have hc : containsAll nd.boxes (freshBoxes q cur nd) = true := by
        cases h : containsAll nd.boxes (freshBoxes q cur nd) <;> simp_all
      exact (J_setNode cur id W P q nd ({ nd with dirty := false } : Node K)
        hJ hnd rfl rfl rfl rfl rfl hc).2 rfl

theorem J_foldl (laws : BoxLaws K) (cur : Nat → Aabb3 K) (margin : K) (hm : (0 : K) ≤ margin) (first : Bool) (W : List Nat) :
    ∀ (st : Q K × List Nat × Nat), J cur W st.1 st.2.1 →
      J cur [] (W.foldl (refitNode cur margin first) st).1 (W.foldl (refitNode cur margin first) st).2.1 := by
  induction W with
  | nil => intro st h; exact h
  | cons id W ih =>
    intro st h
    obtain ⟨q, P, num⟩ := st
    exact ih _ (J_step laws cur margin hm first id W P q num h)

/-- `J` with an empty work list and an empty parent list is the goal -/
theorem J_done (cur : Nat → Aabb3 K) (q : Q K) (h : J cur [] q []) :
    BoxInv q cur ∧ ∀ (n : Nat) (nd : Node K), q.nodes[n]? = some nd → nd.dirty = false := by
  constructor
  · intro n nd hn hlive
    rcases h.good n nd hn hlive with g | ⟨_, d2⟩
    · exact g
    · simp at d2
  · intro n nd hn
    cases hd : nd.dirty with
    | false => rfl
    | true => have := h.dirty n nd hn hd; simp at this

theorem J_congr_dirtyList (cur : Nat → Aabb3 K) (W P : List Nat) (q : Q K) (dl : List Nat) (h : J cur W q P) :
    J cur W { q with dirtyNodes := dl } P := by
  refine ⟨h.inv.of_topoEq (topoEq_dirtyList q dl), ?_, h.dirty⟩
  intro n nd hn hlive
  rcases h.good n nd hn hlive with g | d
  · exact Or.inl g
  · exact Or.inr d

theorem J_round (laws : BoxLaws K) (cur : Nat → Aabb3 K) (margin : K) (hm : (0 : K) ≤ margin) (first : Bool)
    (q : Q K) (num : Nat) (h : J cur q.dirtyNodes q []) :
    J cur (refitRound cur margin first q num).1.dirtyNodes (refitRound cur margin first q num).1 [] := by
  unfold refitRound
  simp only
  have h0 : J cur q.dirtyNodes ({ q with dirtyNodes := [] } : Q K) [] := J_congr_dirtyList cur _ _ q [] h
  have h1 := J_foldl laws cur margin hm first q.dirtyNodes (({ q with dirtyNodes := [] } : Q K), [], num) h0
  have h2 := J_congr_dirtyList cur _ _ _
    (q.dirtyNodes.foldl (refitNode cur margin first) (({ q with dirtyNodes := [] } : Q K), [], num)).2.1 h1
  refine ⟨h2.inv, ?_, ?_⟩
  · intro n nd hn hlive
    rcases h2.good n nd hn hlive with g | ⟨d1, d2⟩
    · exact Or.inl g
    · exact Or.inr ⟨d1, by simpa using d2⟩
  · intro n nd hn hd
    simpa using h2.dirty n nd hn hd

theorem J_loop (laws : BoxLaws K) (cur : Nat → Aabb3 K) (margin : K) (hm : (0 : K) ≤ margin) (fuel : Nat) :
    ∀ (first : Bool) (q : Q K) (num : Nat) (r : Q K × Nat), J cur q.dirtyNodes q [] →
      refitLoop cur margin fuel first q num = some r → J cur [] r.1 [] ∧ r.1.dirtyNodes = [] := by
  induction fuel with
  | zero =>
    intro first q num r h hr
    unfold refitLoop at hr
    split at hr
    · rename_i he
      cases hr
      have : q.dirtyNodes = [] := by simpa using he
      rw [this] at h; exact ⟨h, this⟩
    · cases hr
  | succ fuel ih =>
    intro first q num r h hr
    unfold refitLoop at hr
    split at hr
    · rename_i he
      cases hr
      have : q.dirtyNodes = [] := by simpa using he
      rw [this] at h; exact ⟨h, this⟩
    · exact ih _ _ _ _ (J_round laws cur margin hm first q num h) hr

/-- `BoxInv` does not look at `root_aabb` -/
theorem boxInv_syncRootAabb (q : Q K) (cur : Nat → Aabb3 K) (h : BoxInv q cur) : BoxInv (syncRootAabb q) cur := by
  intro n nd hn hl
  have hf : freshBoxes (syncRootAabb q) cur nd = freshBoxes q cur nd := by
    unfold freshBoxes; simp only [syncRootAabb_nodes, syncRootAabb_proxies]
  have := h n nd (by simpa using hn) (by simpa [Live] using hl)
  unfold GoodNode at this ⊢
  rw [hf]; exact this

/-- **`refit` establishes the box invariant**: from a state satisfying `Inv`, `Tracked` and `DirtyQueued`, with a
non-negative margin, whenever the loop finishes the result satisfies `BoxInv`, the work list is empty, no node is
flagged DIRTY, and the topology invariant still holds. -/
theorem refit_establishes (laws : BoxLaws K) (q : Q K) (cur : Nat → Aabb3 K) (margin : K) (hm : (0 : K) ≤ margin)
    (hinv : Inv q) (ht : Tracked q cur) (hd : DirtyQueued q) (r : Q K × Nat) (hr : refit q cur margin = some r) :
    Inv r.1 ∧ BoxInv r.1 cur ∧ r.1.dirtyNodes = [] ∧ (∀ (n : Nat) (nd : Node K), r.1.nodes[n]? = some nd → nd.dirty = false) := by
  have h0 : J cur q.dirtyNodes q [] := by
    refine ⟨hinv, ?_, ?_⟩
    · intro n nd hn hlive
      rcases ht n nd hn hlive with g | ⟨d1, d2⟩
      · exact Or.inl g
      · exact Or.inr ⟨d1, by simpa using d2⟩
    · intro n nd hn hdirty; simpa using hd n nd hn hdirty
  obtain ⟨r0, hr0, rfl⟩ := refit_eq q cur margin r hr
  obtain ⟨hJ, hempty⟩ := J_loop laws cur margin hm _ _ _ _ _ h0 hr0
  obtain ⟨hb, hnd⟩ := J_done cur r0.1 hJ
  exact ⟨hJ.inv.of_topoEq (topoEq_syncRootAabb _), boxInv_syncRootAabb _ _ hb, by simpa using hempty,
    fun n nd hn => hnd n nd (by simpa using hn)⟩

theorem tracked_of_boxInv (q : Q K) (cur : Nat → Aabb3 K) (h : BoxInv q cur) : Tracked q cur :=
  fun n nd hn hl => Or.inl (h n nd hn hl)

theorem dirtyQueued_of_clean (q : Q K) (h : ∀ (n : Nat) (nd : Node K), q.nodes[n]? = some nd → nd.dirty = false) :
    DirtyQueued q := by
  intro n nd hn hd; rw [h n nd hn] at hd; cases hd

end C08
