import ParryModel.Field
import ParryModel.C08.Lemmas
import ParryModel.C08.RefitLemmas
/-!
# C08 property theorems: the QBVH stays valid under any history

`Inv` (in `C08/Lemmas.lean`) is the structural invariant of the tree — a strengthening of the maintainers'
`check_topology`; `Model.Qbvh.checkInv` is its executable form, evaluated by the oracle on every dumped Rust state.
All statements are about the model functions of `C08/Model.lean`.  The structural theorems hold for **every** scalar
type `K` (no law of `K` is used, so they hold for the `Float` instance as well as for exact arithmetic); the box
theorems are stated at the lawful instance `fieldNum K sq`.

`fixRoot = false` is the behaviour of the pinned tree, `fixRoot = true` the corrected root split; the structural
theorems hold for both.
-/
namespace C08
open Model Model.Qbvh

section structural
variable {K : Type} [Num K]

/-- the empty tree (`Qbvh::new()`) satisfies the invariant -/
theorem empty_inv : Inv (Q.empty : Q K) := inv_empty

/-- **`remove` preserves the invariant, for every state and every argument, and never panics.**
(`b` is `is_some()` of the Rust return value.) -/
theorem remove_preserves_inv (q : Q K) (id : Nat) (h : Inv q) :
    ∃ (q' : Q K) (b : Bool), remove q id = some (q', b) ∧ Inv q' :=
  let ⟨q', b, e, h', _⟩ := inv_remove q id h
  ⟨q', b, e, h'⟩

/-- **`pre_update_or_insert` preserves the invariant, for every state and every leaf id, on all three paths
(update of an attached leaf, room under the root, root split), and never panics.**
Hypotheses: the id is a real `u32` below the sentinel, and the node count stays below `u32::MAX` (the `as u32`
truncations are not modelled). -/
theorem preUpdateOrInsert_preserves_inv (fixRoot : Bool) (q : Q K) (id : Nat) (h : Inv q) (hid : id < MAXN)
    (hsz : q.nodes.size + 8 ≤ MAXN) :
    ∃ q' : Q K, preUpdateOrInsert fixRoot q id = some q' ∧ Inv q' :=
  let ⟨q', e, h', _⟩ := inv_preUpdateOrInsert fixRoot q id h hid hsz
  ⟨q', e, h'⟩

/-- the third path in isolation: **the root split preserves the invariant** (the proxy being inserted is detached) -/
theorem splitRoot_preserves_inv (fixRoot : Bool) (q q' : Q K) (id : Nat) (pr : Proxy) (h : Inv q)
    (hpr : q.proxies[id]? = some pr) (hdet : pr.node = MAXN) (hsz : q.nodes.size + 2 ≤ MAXN)
    (hs : splitRoot fixRoot q id = some q') : Inv q' :=
  inv_splitRoot fixRoot q q' id pr h hpr hdet hsz hs

/-- **`refit` does not alter the topology** ("This will not alter the topology of this `Qbvh`"): only boxes, the
CHANGED/DIRTY flags and the work list change; in particular it preserves the invariant. -/
theorem refit_preserves_inv (q : Q K) (cur : Nat → Aabb3 K) (margin : K) (r : Q K × Nat) (h : Inv q)
    (hr : refit q cur margin = some r) : Inv r.1 ∧ TopoEq q r.1 :=
  ⟨h.of_topoEq (topoEq_refit q cur margin r hr), topoEq_refit q cur margin r hr⟩

/-- ids of a history are real `u32`s below the sentinel -/
def OpOk : Op K → Prop
  | .insert id _ => id < MAXN
  | _ => True

/-- one operation of a history preserves the invariant (node count grows by at most 8) -/
theorem step_preserves_inv (fixRoot : Bool) (w w' : World K) (op : Op K) (h : Inv w.q) (hok : OpOk op)
    (hsz : w.q.nodes.size + 8 ≤ MAXN) (hs : step fixRoot w op = some w') :
    Inv w'.q ∧ w'.q.nodes.size ≤ w.q.nodes.size + 8 := by
  cases op with
  | insert id box =>
    obtain ⟨q', e, h', hs'⟩ := inv_preUpdateOrInsert fixRoot w.q id h hok hsz
    simp only [step, e, Option.map_some] at hs
    cases hs; exact ⟨h', hs'⟩
  | remove id =>
    obtain ⟨q', b, e, h', hs'⟩ := inv_remove w.q id h
    simp only [step, e, Option.map_some] at hs
    cases hs; exact ⟨h', by simp [hs']⟩
  | refit m =>
    simp only [step] at hs
    cases hr : refit w.q w.cur m with
    | none => rw [hr] at hs; cases hs
    | some r =>
      rw [hr] at hs; simp only [Option.map_some] at hs; cases hs
      have e := topoEq_refit w.q w.cur m r hr
      exact ⟨h.of_topoEq e, by simp [e.size]⟩

/-- **The invariant holds after every finite history** of `pre_update_or_insert` / `remove` / `refit` calls started from
any state satisfying it (induction over the operation list); in particular from the empty tree.
The size hypothesis says the history is shorter than `2^32 / 8` operations. -/
theorem run_preserves_inv (fixRoot : Bool) (ops : List (Op K)) :
    ∀ (w w' : World K), Inv w.q → (∀ op ∈ ops, OpOk op) → w.q.nodes.size + 8 * ops.length ≤ MAXN →
      run fixRoot w ops = some w' → Inv w'.q := by
  induction ops with
  | nil => intro w w' h _ _ hr; simp only [run] at hr; cases hr; exact h
  | cons op ops ih =>
    intro w w' h hok hsz hr
    simp only [List.length_cons] at hsz
    simp only [run] at hr
    cases hs : step fixRoot w op with
    | none => rw [hs] at hr; cases hr
    | some w1 =>
      rw [hs] at hr
      obtain ⟨h1, hsz1⟩ := step_preserves_inv fixRoot w w1 op h (hok op (by simp)) (by omega) hs
      exact ih w1 w' h1 (fun o ho => hok o (by simp [ho])) (by omega) hr

/-- a history can only stop early inside `refit` (fuel): `pre_update_or_insert` and `remove` steps never fail on a
state satisfying the invariant -/
theorem step_total (fixRoot : Bool) (w : World K) (op : Op K) (h : Inv w.q) (hok : OpOk op)
    (hsz : w.q.nodes.size + 8 ≤ MAXN) (hop : ∀ m, op ≠ .refit m) : ∃ w', step fixRoot w op = some w' := by
  cases op with
  | insert id box =>
    obtain ⟨q', e, _⟩ := inv_preUpdateOrInsert fixRoot w.q id h hok hsz
    exact ⟨⟨q', fun d => if d = id then box else w.cur d⟩, by simp only [step, e, Option.map_some]⟩
  | remove id =>
    obtain ⟨q', b, e, _⟩ := inv_remove w.q id h
    exact ⟨⟨q', w.cur⟩, by simp only [step, e, Option.map_some]⟩
  | refit m => exact absurd rfl (hop m)

end structural

/-! ## Boxes: `refit` establishes the box invariant (exact arithmetic: any linearly ordered field) -/
section boxes
variable {K : Type} [Field K] [LinearOrder K] [IsStrictOrderedRing K] (sq : K → K)

/-- one lane of `SimdAabb::contains` is coordinate-wise containment -/
theorem boxContains_iff (a b : Aabb3 K) :
    letI := fieldNum K sq
    boxContains a b = true ↔
      (a.mins.x ≤ b.mins.x ∧ a.mins.y ≤ b.mins.y ∧ a.mins.z ≤ b.mins.z) ∧
      (b.maxs.x ≤ a.maxs.x ∧ b.maxs.y ≤ a.maxs.y ∧ b.maxs.z ≤ a.maxs.z) := by
  simp [boxContains, and_assoc]

/-- containment is a preorder, `loosen(m)` with `m ≥ 0` is extensive, `to_merged_aabb` is the least box containing
the four lanes — for every linearly ordered field -/
theorem boxLaws_field : @BoxLaws K (fieldNum K sq) := by
  letI := fieldNum K sq
  refine ⟨?_, ?_, ?_, ?_, ?_⟩
  · intro a; rw [boxContains_iff]; simp
  · intro a b c h1 h2
    rw [boxContains_iff] at *
    obtain ⟨⟨a1, a2, a3⟩, a4, a5, a6⟩ := h1
    obtain ⟨⟨b1, b2, b3⟩, b4, b5, b6⟩ := h2
    exact ⟨⟨a1.trans b1, a2.trans b2, a3.trans b3⟩, b4.trans a4, b5.trans a5, b6.trans a6⟩
  · intro m b hm
    rw [boxContains_iff]
    simp only [loosenBox]
    refine ⟨⟨?_, ?_, ?_⟩, ?_, ?_, ?_⟩ <;> linarith
  · intro v l b hb
    rw [boxContains_iff]
    simp only [mergedBox, fieldNum_nmin, fieldNum_nmax]
    rcases vec4_lane _ _ _ hb with rfl | rfl | rfl | rfl <;> simp at hb <;> subst hb <;>
      simp [le_max_iff, min_le_iff]
  · intro v x h
    have h0 := (boxContains_iff sq _ _).1 (h 0 v[0] (by simp))
    have h1 := (boxContains_iff sq _ _).1 (h 1 v[1] (by simp))
    have h2 := (boxContains_iff sq _ _).1 (h 2 v[2] (by simp))
    have h3 := (boxContains_iff sq _ _).1 (h 3 v[3] (by simp))
    rw [boxContains_iff]
    simp only [mergedBox, fieldNum_nmin, fieldNum_nmax, le_min_iff, max_le_iff]
    tauto

/-- **`refit` establishes the box invariant.**  From any state satisfying the structural invariant in which every live
node is either up to date or flagged DIRTY and queued (`Tracked`), and every DIRTY flag is queued (`DirtyQueued`),
for every margin `≥ 0`: if the loop finishes, then afterwards *every live node's lane boxes contain the boxes below
them and the current boxes of their leaves* (`BoxInv`), the work list is empty, no DIRTY flag is left and the
structural invariant still holds. -/
theorem refit_establishes_boxInv (q : Q K) (cur : Nat → Aabb3 K) (margin : K) (hm : 0 ≤ margin) :
    letI := fieldNum K sq
    Inv q → Tracked q cur → DirtyQueued q → ∀ r : Q K × Nat, refit q cur margin = some r →
      Inv r.1 ∧ BoxInv r.1 cur ∧ r.1.dirtyNodes = [] ∧
        (∀ (n : Nat) (nd : Node K), r.1.nodes[n]? = some nd → nd.dirty = false) := by
  letI := fieldNum K sq
  intro hinv ht hd r hr
  exact refit_establishes (boxLaws_field sq) q cur margin hm hinv ht hd r hr

/-- what `BoxInv` means lane by lane: in a live leaf every occupied lane box contains the current box of its proxy;
in a live internal node every lane box contains all four lane boxes of the child node (hence, transitively, everything
below) -/
theorem boxInv_semantic (q : Q K) (cur : Nat → Aabb3 K) :
    letI := fieldNum K sq
    BoxInv q cur → ∀ (n : Nat) (nd : Node K), q.nodes[n]? = some nd → Live q n →
      ∀ (l c : Nat) (b : Aabb3 K), nd.children[l]? = some c → nd.boxes[l]? = some b →
        (nd.leaf = true → ∀ pr : Proxy, q.proxies[c]? = some pr → boxContains b (cur pr.data) = true) ∧
        (nd.leaf = false → ∀ cn : Node K, q.nodes[c]? = some cn →
          ∀ (l' : Nat) (b' : Aabb3 K), cn.boxes[l']? = some b' → boxContains b b' = true) := by
  letI := fieldNum K sq
  intro hb n nd hn hlive l c b hc hbx
  exact goodNode_semantic (boxLaws_field sq) q cur nd (hb n nd hn hlive) l c b hc hbx

end boxes

/-! non-vacuity: a concrete history over `ℚ` reaching the root split, and the invariant evaluated on it -/
section examples
open Model.Qbvh
def unitBoxQ (x : ℚ) : Aabb3 ℚ := ⟨⟨x, 0, 0⟩, ⟨x + 1, 1, 1⟩⟩
def hist17 : List (Op ℚ) :=
  (List.range 17).map (fun i => Op.insert i (unitBoxQ (3 * i))) ++ [Op.remove 3, Op.refit 0, Op.insert 3 (unitBoxQ 100), Op.refit (1/2)]
end examples

end C08
