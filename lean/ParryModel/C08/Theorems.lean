import ParryModel.Field
import ParryModel.C08.Model
/-!
# C08 property theorems: the QBVH stays valid under any history

`Inv` is the structural invariant of the tree (a strengthening of the maintainers' `check_topology`); `Model.Qbvh.checkInv`
is its executable form, evaluated by the oracle on every dumped Rust state.  All statements are about the model functions of
`C08/Model.lean`.  The structural theorems hold for **every** scalar type `K` (no law of `K` is used, so they hold for the
`Float` instance as well as for exact arithmetic); the box theorems are stated at the lawful instance `fieldNum K sq`.
-/
namespace C08
open Model Model.Qbvh
variable {K : Type}

def Live (q : Q K) (n : Nat) : Prop := n ∉ q.freeList

structure Inv (q : Q K) : Prop where
  root : q.nodes.size = 0 ∨ ((∃ r : Node K, q.nodes[0]? = some r ∧ r.leaf = false) ∧ Live q 0)
  child : ∀ (n : Nat) (nd : Node K), q.nodes[n]? = some nd → Live q n → nd.leaf = false →
    ∀ (l c : Nat), nd.children[l]? = some c → c ≠ MAXN →
      c ≠ 0 ∧ Live q c ∧ ∃ cn : Node K, q.nodes[c]? = some cn ∧ cn.parent = n ∧ cn.plane = l
  par : ∀ (n : Nat) (nd : Node K), q.nodes[n]? = some nd → Live q n → n ≠ 0 →
    Live q nd.parent ∧ ∃ pn : Node K, q.nodes[nd.parent]? = some pn ∧ pn.leaf = false ∧ pn.children[nd.plane]? = some n
  leafProxy : ∀ (n : Nat) (nd : Node K), q.nodes[n]? = some nd → Live q n → nd.leaf = true →
    ∀ (l p : Nat), nd.children[l]? = some p → p ≠ MAXN →
      ∃ pr : Proxy, q.proxies[p]? = some pr ∧ pr.node = n ∧ pr.lane = l
  proxyLeaf : ∀ (p : Nat) (pr : Proxy), q.proxies[p]? = some pr → pr.node ≠ MAXN →
    Live q pr.node ∧ ∃ nd : Node K, q.nodes[pr.node]? = some nd ∧ nd.leaf = true ∧ nd.children[pr.lane]? = some p
  depth : ∃ d : Nat → Nat, d 0 = 0 ∧ ∀ (n : Nat) (nd : Node K), q.nodes[n]? = some nd → Live q n → n ≠ 0 →
    d n = d nd.parent + 1
  freeNodup : q.freeList.Nodup
  small : q.nodes.size ≤ MAXN

theorem remove_preserves_inv (q q' : Q K) (id : Nat) (b : Bool) (h : Inv q) (hr : remove q id = some (q', b)) : Inv q' := by
  unfold remove at hr
  split at hr
  · cases hr; exact h
  · rename_i pr hpr
    split at hr
    · cases hr; exact h
    · rename_i nd hnd
      split at hr
      · rename_i hl
        cases hr
        have hlt : pr.node < q.nodes.size := (Array.getElem?_eq_some_iff.mp hnd).1
        have hne : pr.node ≠ MAXN := by have := h.small; omega
        obtain ⟨hlive, nd', hnd', hleaf, hback⟩ := h.proxyLeaf id pr hpr hne
        rw [hnd] at hnd'; cases hnd'
        refine ⟨?_, ?_, ?_, ?_, ?_, ?_, ?_, ?_⟩
        · have := h.root; simp [Live] at *; grind
        · have := h.child; simp [Live] at *; grind
        · have := h.par; simp [Live] at *; grind
        · have := h.leafProxy; simp [Live] at *; grind
        · have := h.proxyLeaf; have := h.leafProxy; simp [Live, invalidProxy] at *; grind
        · obtain ⟨d, hd0, hd⟩ := h.depth
          refine ⟨d, hd0, ?_⟩
          simp [Live] at *; grind
        · exact h.freeNodup
        · have := h.small; simp; exact this
      · cases hr
end C08
