import ParryModel.Field
import ParryModel.C08.Lemmas
import ParryModel.C08.RefitLemmas
import ParryModel.C08.TrackedLemmas
import ParryModel.C08.LinkLemmas
import ParryModel.C08.TermLemmas
import ParryModel.C08.Theorems2
import ParryModel.C08.Theorems3
import ParryModel.C08.Theorems4
import ParryModel.C08.Theorems5
import ParryModel.C08.Theorems6
import ParryModel.C08.Theorems7
import ParryModel.C08.Theorems8
import ParryModel.C08.Theorems9
import ParryModel.C08.Theorems10
import ParryModel.C08.Theorems11
import ParryModel.C08.Theorems12
import ParryModel.C08.Theorems13
import ParryModel.C08.Theorems14
import ParryModel.C08.Theorems15
import ParryModel.C08.Theorems16
import ParryModel.C08.Theorems17
/-!
# C08 property theorems: the QBVH stays valid under any history

`Inv` (in `C08/Lemmas.lean`) is the structural invariant of the tree — a strengthening of the maintainers'
`check_topology`; `Model.Qbvh.checkInv` is its executable form, evaluated by the oracle on every dumped Rust state.
All statements are about the model functions of `C08/Model.lean`.  The structural theorems hold for **every** scalar
type `K` (no law of `K` is used, so they hold for the `Float` instance as well as for exact arithmetic); the box
theorems are stated at the lawful instance `fieldNum K sq`.

`fixRoot = false` is the behaviour of the pinned tree, `fixRoot = true` the corrected root split; the structural
theorems hold for both.
-/
namespace C08
open Model Model.Qbvh

section structural
variable {K : Type} [Num K]

/-- the empty tree (`Qbvh::new()`) satisfies the invariant -/
theorem empty_inv : Inv (Q.empty : Q K) := inv_empty

/-- **`remove` preserves the invariant, for every state and every argument, and never panics.**
(`b` is `is_some()` of the Rust return value.) -/
theorem remove_preserves_inv (q : Q K) (id : Nat) (h : Inv q) :
    ∃ (q' : Q K) (b : Bool), remove q id = some (q', b) ∧ Inv q' :=
  let ⟨q', b, e, h', _⟩ := inv_remove q id h
  ⟨q', b, e, h'⟩

/-- **`pre_update_or_insert` preserves the invariant, for every state and every leaf id, on all three paths
(update of an attached leaf, room under the root, root split), and never panics.**
Hypotheses: the id is a real `u32` below the sentinel, and the node count stays below `u32::MAX` (the `as u32`
truncations are not modelled). -/
theorem preUpdateOrInsert_preserves_inv (fixRoot : Bool) (q : Q K) (id : Nat) (h : Inv q) (hid : id < MAXN)
    (hsz : q.nodes.size + 8 ≤ MAXN) :
    ∃ q' : Q K, preUpdateOrInsert fixRoot q id = some q' ∧ Inv q' :=
  let ⟨q', e, h', _⟩ := inv_preUpdateOrInsert fixRoot q id h hid hsz
  ⟨q', e, h'⟩

/-- **the executable invariant is sound**: a state accepted by `Model.Qbvh.checkInv` — the function the oracle
evaluates on every Rust state dumped by the harness — satisfies `Inv` -/
theorem checkInv_implies_inv (q : Q K) (h : checkInv q = true) : Inv q := checkInv_sound q h

/-- likewise the executable box / work-list / proxy-data checks imply `BoxInv`, `Tracked`, `DirtyQueued`, `DataOk` -/
theorem checks_imply_full (q : Q K) (cur : Nat → Aabb3 K) (h1 : checkInv q = true) (h2 : checkTracked q cur = true)
    (h3 : checkDirty q = true) (h4 : checkData q = true) : Full q cur :=
  ⟨checkInv_sound q h1, checkTracked_sound q cur h2, checkDirty_sound q h3, checkData_sound q h4⟩

theorem checkFresh_implies_boxInv (q : Q K) (cur : Nat → Aabb3 K) (h : checkFresh q cur = true) : BoxInv q cur :=
  checkFresh_sound q cur h

/-- the third path in isolation: **the root split preserves the invariant** (the proxy being inserted is detached) -/
theorem splitRoot_preserves_inv (fixRoot : Bool) (q q' : Q K) (id : Nat) (pr : Proxy) (h : Inv q)
    (hpr : q.proxies[id]? = some pr) (hdet : pr.node = MAXN) (hsz : q.nodes.size + 2 ≤ MAXN)
    (hs : splitRoot fixRoot q id = some q') : Inv q' :=
  inv_splitRoot fixRoot q q' id pr h hpr hdet hsz hs

/-- **`refit` does not alter the topology** ("This will not alter the topology of this `Qbvh`"): only boxes, the
CHANGED/DIRTY flags and the work list change; in particular it preserves the invariant. -/
theorem refit_preserves_inv (q : Q K) (cur : Nat → Aabb3 K) (margin : K) (r : Q K × Nat) (h : Inv q)
    (hr : refit q cur margin = some r) : Inv r.1 ∧ TopoEq q r.1 :=
  ⟨h.of_topoEq (topoEq_refit q cur margin r hr), topoEq_refit q cur margin r hr⟩

/-- ids of a history are real `u32`s below the sentinel -/
def OpOk : Op K → Prop
  | .insert id _ => id < MAXN
  | _ => True

/-- one operation of a history preserves the invariant (node count grows by at most 8) -/
theorem step_preserves_inv (fixRoot : Bool) (w w' : World K) (op : Op K) (h : Inv w.q) (hok : OpOk op)
    (hsz : w.q.nodes.size + 8 ≤ MAXN) (hs : step fixRoot w op = some w') :
    Inv w'.q ∧ w'.q.nodes.size ≤ w.q.nodes.size + 8 := by
  cases op with
  | insert id box =>
    obtain ⟨q', e, h', hs'⟩ := inv_preUpdateOrInsert fixRoot w.q id h hok hsz
    simp only [step, e, Option.map_some] at hs
    cases hs; exact ⟨h', hs'⟩
  | remove id =>
    obtain ⟨q', b, e, h', hs'⟩ := inv_remove w.q id h
    simp only [step, e, Option.map_some] at hs
    cases hs; exact ⟨h', by simp [hs']⟩
  | refit m =>
    simp only [step] at hs
    cases hr : refit w.q w.cur m with
    | none => rw [hr] at hs; cases hs
    | some r =>
      rw [hr] at hs; simp only [Option.map_some] at hs; cases hs
      have e := topoEq_refit w.q w.cur m r hr
      exact ⟨h.of_topoEq e, by simp [e.size]⟩

/-- **The invariant holds after every finite history** of `pre_update_or_insert` / `remove` / `refit` calls started from
any state satisfying it (induction over the operation list); in particular from the empty tree.
The size hypothesis says the history is shorter than `2^32 / 8` operations. -/
theorem run_preserves_inv (fixRoot : Bool) (ops : List (Op K)) :
    ∀ (w w' : World K), Inv w.q → (∀ op ∈ ops, OpOk op) → w.q.nodes.size + 8 * ops.length ≤ MAXN →
      run fixRoot w ops = some w' → Inv w'.q := by
  induction ops with
  | nil => intro w w' h _ _ hr; simp only [run] at hr; cases hr; exact h
  | cons op ops ih =>
    intro w w' h hok hsz hr
    simp only [List.length_cons] at hsz
    simp only [run] at hr
    cases hs : step fixRoot w op with
    | none => rw [hs] at hr; cases hr
    | some w1 =>
      rw [hs] at hr
      obtain ⟨h1, hsz1⟩ := step_preserves_inv fixRoot w w1 op h (hok op (by simp)) (by omega) hs
      exact ih w1 w' h1 (fun o ho => hok o (by simp [ho])) (by omega) hr

/-- a history can only stop early inside `refit` (fuel): `pre_update_or_insert` and `remove` steps never fail on a
state satisfying the invariant -/
theorem step_total (fixRoot : Bool) (w : World K) (op : Op K) (h : Inv w.q) (hok : OpOk op)
    (hsz : w.q.nodes.size + 8 ≤ MAXN) (hop : ∀ m, op ≠ .refit m) : ∃ w', step fixRoot w op = some w' := by
  cases op with
  | insert id box =>
    obtain ⟨q', e, _⟩ := inv_preUpdateOrInsert fixRoot w.q id h hok hsz
    exact ⟨⟨q', fun d => if d = id then box else w.cur d⟩, by simp only [step, e, Option.map_some]⟩
  | remove id =>
    obtain ⟨q', b, e, _⟩ := inv_remove w.q id h
    exact ⟨⟨q', w.cur⟩, by simp only [step, e, Option.map_some]⟩
  | refit m => exact absurd rfl (hop m)

/-- **`refit` terminates.**  On every state satisfying `Inv` whose root carries the invalid parent index and whose free
list is empty (`Aux`: true in every state reached by the three operations), the double work-list loop of `refit`
finishes within the model's fuel `nodes.len() + 2` — each pass moves one level towards the root and the depth of a
live node is smaller than the number of nodes (pigeonhole). -/
theorem refit_terminates (q : Q K) (cur : Nat → Aabb3 K) (margin : K) (h : Inv q) (a : Aux q) :
    ∃ r : Q K × Nat, refit q cur margin = some r :=
  refit_total q h (a.rootInvalid h) (fun n _ _ _ => a.live n) cur margin

/-- one operation never fails (no index panic, no non-termination) and preserves `Inv` and `Aux` -/
theorem step_total_all (fixRoot : Bool) (w : World K) (op : Op K) (h : Inv w.q) (a : Aux w.q) (hok : OpOk op)
    (hsz : w.q.nodes.size + 8 ≤ MAXN) :
    ∃ w' : World K, step fixRoot w op = some w' ∧ Inv w'.q ∧ Aux w'.q ∧ w'.q.nodes.size ≤ w.q.nodes.size + 8 := by
  cases op with
  | insert id box =>
    obtain ⟨q', e, h', hs'⟩ := inv_preUpdateOrInsert fixRoot w.q id h hok hsz
    exact ⟨⟨q', fun d => if d = id then box else w.cur d⟩, by simp only [step, e, Option.map_some], h',
      aux_preUpdateOrInsert fixRoot w.q q' id a h hok hsz e, hs'⟩
  | remove id =>
    obtain ⟨q', b, e, h', hs'⟩ := inv_remove w.q id h
    exact ⟨⟨q', w.cur⟩, by simp only [step, e, Option.map_some], h', aux_remove w.q q' id b a e, by simp [hs']⟩
  | refit m =>
    obtain ⟨r, hr⟩ := refit_terminates w.q w.cur m h a
    have e := topoEq_refit w.q w.cur m r hr
    exact ⟨⟨r.1, w.cur⟩, by simp only [step, hr, Option.map_some], h.of_topoEq e, aux_of_topoEq a e, by simp [e.size]⟩

/-- **Totality of histories: no panic, no hang, always valid.**  Every finite history of `pre_update_or_insert`,
`remove` and `refit` calls (ids `< u32::MAX`, fewer than `2^32/8` operations) started from the empty tree runs to
completion in the model — no index panic, `refit` always terminates — and ends in a state satisfying `Inv`. -/
theorem history_total (fixRoot : Bool) (ops : List (Op K)) (hok : ∀ op ∈ ops, OpOk op) (hlen : 8 * ops.length ≤ MAXN) :
    ∃ w' : World K, run fixRoot World.empty ops = some w' ∧ Inv w'.q := by
  have key : ∀ (ops : List (Op K)) (w : World K), Inv w.q → Aux w.q → (∀ op ∈ ops, OpOk op) →
      w.q.nodes.size + 8 * ops.length ≤ MAXN → ∃ w' : World K, run fixRoot w ops = some w' ∧ Inv w'.q := by
    intro ops
    induction ops with
    | nil => intro w h _ _ _; exact ⟨w, rfl, h⟩
    | cons op ops ih =>
      intro w h a hok hsz
      simp only [List.length_cons] at hsz
      obtain ⟨w1, hs, h1, a1, hs1⟩ := step_total_all fixRoot w op h a (hok op (by simp)) (by omega)
      obtain ⟨w', hr, h'⟩ := ih w1 h1 a1 (fun o ho => hok o (by simp [ho])) (by omega)
      exact ⟨w', by simp only [run, hs]; exact hr, h'⟩
  exact key ops World.empty inv_empty aux_empty hok (by simp [World.empty, Q.empty]; omega)

end structural

/-! ## Boxes: `refit` establishes the box invariant (exact arithmetic: any linearly ordered field) -/
section boxes
variable {K : Type} [Field K] [LinearOrder K] [IsStrictOrderedRing K] (sq : K → K)

/-- one lane of `SimdAabb::contains` is coordinate-wise containment -/
theorem boxContains_iff (a b : Aabb3 K) :
    letI := fieldNum K sq
    boxContains a b = true ↔
      (a.mins.x ≤ b.mins.x ∧ a.mins.y ≤ b.mins.y ∧ a.mins.z ≤ b.mins.z) ∧
      (b.maxs.x ≤ a.maxs.x ∧ b.maxs.y ≤ a.maxs.y ∧ b.maxs.z ≤ a.maxs.z) := by
  simp [boxContains, and_assoc]

/-- containment is a preorder, `loosen(m)` with `m ≥ 0` is extensive, `to_merged_aabb` is the least box containing
the four lanes — for every linearly ordered field -/
theorem boxLaws_field : @BoxLaws K (fieldNum K sq) := by
  letI := fieldNum K sq
  refine ⟨?_, ?_, ?_, ?_, ?_⟩
  · intro a; rw [boxContains_iff]; simp
  · intro a b c h1 h2
    rw [boxContains_iff] at *
    obtain ⟨⟨a1, a2, a3⟩, a4, a5, a6⟩ := h1
    obtain ⟨⟨b1, b2, b3⟩, b4, b5, b6⟩ := h2
    exact ⟨⟨a1.trans b1, a2.trans b2, a3.trans b3⟩, b4.trans a4, b5.trans a5, b6.trans a6⟩
  · intro m b hm
    rw [boxContains_iff]
    simp only [loosenBox]
    refine ⟨⟨?_, ?_, ?_⟩, ?_, ?_, ?_⟩ <;> linarith
  · intro v l b hb
    rw [boxContains_iff]
    simp only [mergedBox, fieldNum_nmin, fieldNum_nmax]
    rcases vec4_lane _ _ _ hb with rfl | rfl | rfl | rfl <;> simp at hb <;> subst hb <;>
      simp [le_max_iff, min_le_iff]
  · intro v x h
    have h0 := (boxContains_iff sq _ _).1 (h 0 v[0] (by simp))
    have h1 := (boxContains_iff sq _ _).1 (h 1 v[1] (by simp))
    have h2 := (boxContains_iff sq _ _).1 (h 2 v[2] (by simp))
    have h3 := (boxContains_iff sq _ _).1 (h 3 v[3] (by simp))
    rw [boxContains_iff]
    simp only [mergedBox, fieldNum_nmin, fieldNum_nmax, le_min_iff, max_le_iff]
    tauto

/-- **`refit` establishes the box invariant.**  From any state satisfying the structural invariant in which every live
node is either up to date or flagged DIRTY and queued (`Tracked`), and every DIRTY flag is queued (`DirtyQueued`),
for every margin `≥ 0`: if the loop finishes, then afterwards *every live node's lane boxes contain the boxes below
them and the current boxes of their leaves* (`BoxInv`), the work list is empty, no DIRTY flag is left and the
structural invariant still holds. -/
theorem refit_establishes_boxInv (q : Q K) (cur : Nat → Aabb3 K) (margin : K) (hm : 0 ≤ margin) :
    letI := fieldNum K sq
    Inv q → Tracked q cur → DirtyQueued q → ∀ r : Q K × Nat, refit q cur margin = some r →
      Inv r.1 ∧ BoxInv r.1 cur ∧ r.1.dirtyNodes = [] ∧
        (∀ (n : Nat) (nd : Node K), r.1.nodes[n]? = some nd → nd.dirty = false) := by
  letI := fieldNum K sq
  intro hinv ht hd r hr
  exact refit_establishes (boxLaws_field sq) q cur margin hm hinv ht hd r hr

/-- what `BoxInv` means lane by lane: in a live leaf every occupied lane box contains the current box of its proxy;
in a live internal node every lane box contains all four lane boxes of the child node (hence, transitively, everything
below) -/
theorem boxInv_semantic (q : Q K) (cur : Nat → Aabb3 K) :
    letI := fieldNum K sq
    BoxInv q cur → ∀ (n : Nat) (nd : Node K), q.nodes[n]? = some nd → Live q n →
      ∀ (l c : Nat) (b : Aabb3 K), nd.children[l]? = some c → nd.boxes[l]? = some b →
        (nd.leaf = true → ∀ pr : Proxy, q.proxies[c]? = some pr → boxContains b (cur pr.data) = true) ∧
        (nd.leaf = false → ∀ cn : Node K, q.nodes[c]? = some cn →
          ∀ (l' : Nat) (b' : Aabb3 K), cn.boxes[l']? = some b' → boxContains b b' = true) := by
  letI := fieldNum K sq
  intro hb n nd hn hlive l c b hc hbx
  exact goodNode_semantic (boxLaws_field sq) q cur nd (hb n nd hn hlive) l c b hc hbx

/-- ids of a history are real `u32`s below the sentinel, margins are non-negative -/
def OpOkB : Op K → Prop
  | .insert id _ => id < MAXN
  | .refit m => 0 ≤ m
  | _ => True

/-- **`remove` keeps every out-of-date node queued** (`Full` = `Inv` ∧ `Tracked` ∧ `DirtyQueued` ∧ `DataOk`) -/
theorem remove_preserves_full (q q' : Q K) (cur : Nat → Aabb3 K) (id : Nat) (b : Bool) :
    letI := fieldNum K sq
    Full q cur → remove q id = some (q', b) → Full q' cur := by
  letI := fieldNum K sq
  exact fun h hr => full_remove q q' cur id b h hr

/-- **`pre_update_or_insert` with the corrected root split keeps every out-of-date node queued**, on all three
paths, when the user's current box of leaf `id` becomes `box`.  (For the pinned root split this is false: see the
decided counter-example `pinned_root_split_loses_boxes` below.) -/
theorem preUpdateOrInsert_preserves_full (q q' : Q K) (cur : Nat → Aabb3 K) (id : Nat) (box : Aabb3 K)
    (hid : id < MAXN) (hsz : q.nodes.size + 8 ≤ MAXN) :
    letI := fieldNum K sq
    Full q cur → preUpdateOrInsert true q id = some q' → Full q' (fun d => if d = id then box else cur d) := by
  letI := fieldNum K sq
  exact fun h hq => full_preUpdateOrInsert (boxLaws_field sq) q q' cur id box h hid hsz hq

/-- one operation of a history (corrected model) preserves `Full`; after a `refit` the box invariant holds -/
theorem step_preserves_full (w w' : World K) (op : Op K) :
    letI := fieldNum K sq
    Full w.q w.cur → OpOkB op → w.q.nodes.size + 8 ≤ MAXN → step true w op = some w' →
      Full w'.q w'.cur ∧ (∀ m, op = .refit m → BoxInv w'.q w'.cur) := by
  letI := fieldNum K sq
  intro h hok hsz hs
  cases op with
  | insert id box =>
    simp only [step] at hs
    cases hq : preUpdateOrInsert true w.q id with
    | none => rw [hq] at hs; cases hs
    | some q' =>
      rw [hq] at hs; simp only [Option.map_some, Option.some.injEq] at hs; subst hs
      exact ⟨full_preUpdateOrInsert (boxLaws_field sq) w.q q' w.cur id box h hok hsz hq, fun m e => by cases e⟩
  | remove id =>
    simp only [step] at hs
    cases hq : remove w.q id with
    | none => rw [hq] at hs; cases hs
    | some r =>
      rw [hq] at hs; simp only [Option.map_some, Option.some.injEq] at hs; subst hs
      exact ⟨full_remove w.q r.1 w.cur id r.2 h hq, fun m e => by cases e⟩
  | refit m =>
    simp only [step] at hs
    cases hr : refit w.q w.cur m with
    | none => rw [hr] at hs; cases hs
    | some r =>
      rw [hr] at hs; simp only [Option.map_some, Option.some.injEq] at hs; subst hs
      obtain ⟨hf, hb⟩ := full_refit (boxLaws_field sq) w.q w.cur m hok h r hr
      exact ⟨hf, fun _ _ => hb⟩

/-- `Full` holds after every finite history of the corrected model (induction over the operation list) -/
theorem run_preserves_full (ops : List (Op K)) :
    letI := fieldNum K sq
    ∀ (w w' : World K), Full w.q w.cur → (∀ op ∈ ops, OpOkB op) → w.q.nodes.size + 8 * ops.length ≤ MAXN →
      run true w ops = some w' → Full w'.q w'.cur := by
  letI := fieldNum K sq
  induction ops with
  | nil => intro w w' h _ _ hr; simp only [run] at hr; cases hr; exact h
  | cons op ops ih =>
    intro w w' h hok hsz hr
    simp only [List.length_cons] at hsz
    simp only [run] at hr
    cases hs : step true w op with
    | none => rw [hs] at hr; cases hr
    | some w1 =>
      rw [hs] at hr
      have hok1 := hok op (by simp)
      obtain ⟨h1, _⟩ := step_preserves_full sq w w1 op h hok1 (by omega) hs
      have hsz1 : w1.q.nodes.size ≤ w.q.nodes.size + 8 := by
        have hokA : OpOk op := by
          cases op <;> simp only [OpOk, OpOkB] at * <;> first | exact hok1 | trivial
        exact (step_preserves_inv true w w1 op h.inv hokA (by omega) hs).2
      exact ih w1 w' h1 (fun o ho => hok o (by simp [ho])) (by omega) hr

/-- **Headline: after any finite history that ends with a `refit`, the tree is structurally valid and every stored
box contains the boxes below it and the current box of its leaf.**  For every list of `pre_update_or_insert` (with the
new current box) / `remove` / `refit` operations (ids `< u32::MAX`, margins `≥ 0`, fewer than `2^32/8` operations)
run by the corrected model from the empty tree: if the run completes, then `Inv` and `BoxInv` hold at the end. -/
theorem history_valid_after_refit (ops : List (Op K)) (m : K) (w' : World K) :
    letI := fieldNum K sq
    (∀ op ∈ ops, OpOkB op) → 0 ≤ m → 8 * (ops.length + 1) ≤ MAXN →
      run true World.empty (ops ++ [Op.refit m]) = some w' → Inv w'.q ∧ BoxInv w'.q w'.cur := by
  letI := fieldNum K sq
  intro hok hm hsz hr
  -- split the run at the last operation
  have key : ∀ (ops : List (Op K)) (w : World K), run true w (ops ++ [Op.refit m]) = some w' →
      ∃ w1, run true w ops = some w1 ∧ step true w1 (Op.refit m) = some w' := by
    intro ops
    induction ops with
    | nil =>
      intro w h
      simp only [List.nil_append, run] at h
      cases hs : step true w (Op.refit m) with
      | none => rw [hs] at h; cases h
      | some w2 => rw [hs] at h; simp only [run] at h; exact ⟨w, rfl, by rw [hs, h]⟩
    | cons op ops ih =>
      intro w h
      simp only [List.cons_append, run] at h
      cases hs : step true w op with
      | none => rw [hs] at h; cases h
      | some w2 =>
        rw [hs] at h
        obtain ⟨w1, a, b⟩ := ih w2 h
        exact ⟨w1, by simp only [run, hs]; exact a, b⟩
  obtain ⟨w1, hrun, hstep⟩ := key ops World.empty hr
  have hf1 : Full w1.q w1.cur := run_preserves_full sq ops World.empty w1 (full_empty _) hok
    (by simp [World.empty, Q.empty]; omega) hrun
  have hsz1 : w1.q.nodes.size + 8 ≤ MAXN := by
    have : ∀ (ops : List (Op K)) (w w1 : World K), Inv w.q → (∀ op ∈ ops, OpOkB op) →
        w.q.nodes.size + 8 * ops.length ≤ MAXN → run true w ops = some w1 → w1.q.nodes.size ≤ w.q.nodes.size + 8 * ops.length := by
      intro ops
      induction ops with
      | nil => intro w w1 _ _ _ h; simp only [run] at h; cases h; simp
      | cons op ops ih =>
        intro w w1 hi hok hsz h
        simp only [List.length_cons] at hsz ⊢
        simp only [run] at h
        cases hs : step true w op with
        | none => rw [hs] at h; cases h
        | some w2 =>
          rw [hs] at h
          have hok1 := hok op (by simp)
          have hokA : OpOk op := by
            cases op <;> simp only [OpOk, OpOkB] at * <;> first | exact hok1 | trivial
          obtain ⟨hi2, hs2⟩ := step_preserves_inv true w w2 op hi hokA (by omega) hs
          have := ih w2 w1 hi2 (fun o ho => hok o (by simp [ho])) (by omega) h
          omega
    have := this ops World.empty w1 inv_empty hok (by simp [World.empty, Q.empty]; omega) hrun
    simp [World.empty, Q.empty] at this; omega
  obtain ⟨hf, hb⟩ := step_preserves_full sq w1 w' (Op.refit m) hf1 hm hsz1 hstep
  exact ⟨hf.inv, hb m rfl⟩

/-- **Headline, unconditional form**: every finite history (ids `< u32::MAX`, margins `≥ 0`, fewer than `2^32/8`
operations) followed by a `refit`, run by the corrected model from the empty tree, **completes** (no panic, no hang) and
ends in a state where the tree is structurally valid (`Inv`) and every stored box contains the boxes below it and the
current box of its leaf (`BoxInv`). -/
theorem every_history_ends_valid (ops : List (Op K)) (m : K) :
    letI := fieldNum K sq
    (∀ op ∈ ops, OpOkB op) → 0 ≤ m → 8 * (ops.length + 1) ≤ MAXN →
      ∃ w' : World K, run true World.empty (ops ++ [Op.refit m]) = some w' ∧ Inv w'.q ∧ BoxInv w'.q w'.cur := by
  letI := fieldNum K sq
  intro hok hm hsz
  have hokA : ∀ op ∈ ops ++ [Op.refit m], OpOk op := by
    intro op hop
    simp only [List.mem_append, List.mem_singleton] at hop
    rcases hop with hop | rfl
    · have := hok op hop
      cases op <;> simp only [OpOk, OpOkB] at * <;> first | exact this | trivial
    · trivial
  obtain ⟨w', hr, _⟩ := history_total true (ops ++ [Op.refit m]) hokA (by simp; omega)
  exact ⟨w', hr, history_valid_after_refit sq ops m w' hok hm hsz hr⟩

end boxes

/-! ## Traversals: a valid tree loses no leaf (link to the C07 theorems) -/
section traversal
variable {K : Type} [Field K] [LinearOrder K] [IsStrictOrderedRing K] (sq : K → K)
include sq
open Model.Bvh

/-- **Every live leaf is reachable, removed leaves are not.**  In a state satisfying `Inv`, the leaves of the tree
unfolded from the root (`lanesOf q fuel 0`, what every traversal walks) are exactly the attached proxies: each attached
proxy occurs (under the box of its lane) as soon as the fuel exceeds its depth, and every leaf of the unfolded tree is
an attached proxy — a proxy detached by `remove` never occurs. -/
theorem leaves_are_live_proxies (q : Q K) :
    letI := fieldNum K sq
    Inv q →
    (∃ d : Nat → Nat, ∀ (p : Nat) (pr : Proxy), q.proxies[p]? = some pr → pr.node ≠ MAXN →
      ∃ (nd : Node K) (bx : Aabb3 K), q.nodes[pr.node]? = some nd ∧ nd.boxes[pr.lane]? = some bx ∧
        ∀ fuel : Nat, d pr.node < fuel → (bx, pr.data) ∈ Tree.leavesList (lanesOf q fuel 0)) ∧
    (∀ (fuel : Nat) (bx : Aabb3 K) (dt : Nat), (bx, dt) ∈ Tree.leavesList (lanesOf q fuel 0) →
      ∃ (p : Nat) (pr : Proxy), q.proxies[p]? = some pr ∧ pr.node ≠ MAXN ∧ pr.data = dt) := by
  letI := fieldNum K sq
  intro h
  refine ⟨live_leaf_in_tree q h, ?_⟩
  intro fuel bx dt hm
  cases fuel with
  | zero => simp [lanesOf, Tree.leavesList] at hm
  | succ f =>
    -- a non-empty unfolding means the root exists, and the root is live
    have hpos : 0 < q.nodes.size := by
      cases hq : q.nodes[0]? with
      | none => simp [lanesOf, hq, Tree.leavesList] at hm
      | some nd => exact (Array.getElem?_eq_some_iff.mp hq).1
    have hlive : Live q 0 := by
      rcases h.root with h0 | ⟨_, hl⟩
      · omega
      · exact hl
    obtain ⟨p, pr, _, hpr, hne, hd, _⟩ := tree_leaf_attached q h (f + 1) 0 hlive hpos bx dt hm
    exact ⟨p, pr, hpr, hne, hd⟩

/-- **`traversal_complete`: after refit no traversal can miss a leaf.**  In a state satisfying `Inv` and `BoxInv`, for
every visitor predicate on boxes that is monotone for containment (true on a box ⇒ true on every box containing it —
ray hit, overlap with a query box, distance below a bound, …): every attached leaf whose *current* box satisfies the
predicate is reported by the depth-first traversal of the unfolded tree (C07 `dfs_complete`), for every fuel above the
leaf's depth. -/
theorem traversal_complete (q : Q K) (cur : Nat → Aabb3 K) (pred : Aabb3 K → Bool) :
    letI := fieldNum K sq
    Inv q → BoxInv q cur → C07.MonotonePred (fun a b : Aabb3 K => boxContains a b = true) pred →
    ∃ d : Nat → Nat, ∀ (p : Nat) (pr : Proxy), q.proxies[p]? = some pr → pr.node ≠ MAXN →
      pred (cur pr.data) = true → ∀ fuel : Nat, d pr.node < fuel →
        pr.data ∈ Tree.dfsList pred (lanesOf q fuel 0) := by
  letI := fieldNum K sq
  intro h hb hm
  obtain ⟨d, hd⟩ := live_leaf_in_tree q h
  refine ⟨d, ?_⟩
  intro p pr hpr hne hp fuel hf
  obtain ⟨nd, bx, hnd, hbx, hin⟩ := hd p pr hpr hne
  obtain ⟨plive, nd', hnd', hleaf, hch⟩ := h.proxyLeaf p pr hpr hne
  rw [hnd] at hnd'; cases hnd'
  -- the lane box contains the current box of the leaf, so the predicate holds on it
  have hcont := (goodNode_semantic (boxLaws_field sq) q cur nd (hb pr.node nd hnd plive) pr.lane p bx hch hbx).1 hleaf pr hpr
  have hpbx : pred bx = true := hm bx (cur pr.data) hcont hp
  have hlive0 : Live q 0 := by
    rcases h.root with h0 | ⟨_, hl⟩
    · have := (Array.getElem?_eq_some_iff.mp hnd).1; omega
    · exact hl
  exact dfs_complete_forest _ pred hm _ (lanesOf_nested (boxLaws_field sq) q cur h hb fuel 0 hlive0) bx pr.data
    (hin fuel hf) hpbx

/-- overlap with a fixed query box is a monotone predicate: `intersect_aabb` is an instance of `traversal_complete` -/
theorem boxIntersects_monotone (qb : Aabb3 K) :
    letI := fieldNum K sq
    C07.MonotonePred (fun a b : Aabb3 K => boxContains a b = true) (fun b => boxIntersects b qb) := by
  letI := fieldNum K sq
  intro a b hc hp
  rw [boxContains_iff] at hc
  simp only [boxIntersects, Bool.and_eq_true, decide_eq_true_eq] at hp ⊢
  obtain ⟨⟨a1, a2, a3⟩, a4, a5, a6⟩ := hc
  obtain ⟨⟨⟨⟨⟨p1, p2⟩, p3⟩, p4⟩, p5⟩, p6⟩ := hp
  refine ⟨⟨⟨⟨⟨?_, ?_⟩, ?_⟩, ?_⟩, ?_⟩, ?_⟩ <;> linarith

end traversal

/-! ## Decided witnesses (exact rational arithmetic, kernel evaluation of the model) -/
section examples

/-- unit box number `i` of a 4-wide grid with pitch 3 -/
def gridBox (i : Nat) : Aabb3 ℚ :=
  ⟨⟨3 * (i % 4 : Nat), 3 * (i / 4 : Nat), 0⟩, ⟨3 * (i % 4 : Nat) + 1, 3 * (i / 4 : Nat) + 1, 1⟩⟩

/-- sixteen leaves fill the four root lanes; refit; the 17th leaf splits the root and is removed again before the
next refit (`corpus/C08.txt`) -/
def histSplit : List (Op ℚ) :=
  (List.range 16).map (fun i => Op.insert i (gridBox i)) ++
    [Op.refit 0, Op.insert 16 (gridBox 40), Op.remove 16, Op.refit 0]

/-- run a history from the empty tree and evaluate the executable invariants on the final state:
`(checkInv, checkFresh, checkBox, number of nodes)` -/
def finalChecks (fixRoot : Bool) (ops : List (Op ℚ)) : Option (Bool × Bool × Bool × Nat) :=
  (run fixRoot World.empty ops).map fun w => (checkInv w.q, checkFresh w.q w.cur, checkBox w.q w.cur, w.q.nodes.size)

/-- **The pinned root split violates the property**: after the history `histSplit` (which ends with a `refit`) the
tree of the pinned model is structurally valid (7 nodes) but the root's lane 0 box — still the box of leaves 0–3 —
does not contain the boxes of leaves 4–15 that now live below it: both box checks are `false`. -/
theorem pinned_root_split_loses_boxes : finalChecks false histSplit = some (true, false, false, 7) := by
  decide +kernel

/-- with the corrected root split the same history ends in a state satisfying all executable invariants
(and this is a non-trivial instance of the hypotheses of `history_valid_after_refit`: the run completes) -/
theorem corrected_root_split_keeps_boxes : finalChecks true histSplit = some (true, true, true, 7) := by
  decide +kernel

/-- a longer history reaching a second root split, with moves, removals and re-insertions, margins 0 and 1/2 -/
def histLong : List (Op ℚ) :=
  (List.range 20).map (fun i => Op.insert i (gridBox i)) ++
    [Op.refit (1/2), Op.remove 3, Op.remove 7, Op.insert 5 (gridBox 33), Op.refit 0] ++
    (List.range 16).map (fun i => Op.insert (20 + i) (gridBox (2 * i))) ++
    [Op.insert 3 (gridBox 3), Op.remove 21, Op.refit (1/2)]

theorem long_history_valid : finalChecks true histLong = some (true, true, true, 13) := by
  decide +kernel

end examples

end C08
