import ParryModel.C08.Model3
import ParryModel.C08.TrackedLemmas
/-!
# C08: the simultaneous two-tree traversal (`traverse_bvtt`): the per-node step, the stack loop as a closure, and the
descent along two root-to-leaf paths
-/
namespace C08
open Model Model.Qbvh
set_option linter.unusedSectionVars false
set_option linter.unusedVariables false
set_option linter.unusedSimpArgs false
variable {K : Type} [Num K]

/-- `node.children[l]`, the sentinel when `l` is not a lane -/
def childOf (nd : Node K) (l : Nat) : Nat := (nd.children[l]?).getD MAXN

/-! ## folds that only push -/

theorem foldl_step {α β : Type} (step : List β → α → List β) (g : α → List β) (h : ∀ st x, step st x = g x ++ st) :
    ∀ (l : List α) (st : List β), l.foldl step st = (l.map g).reverse.flatten ++ st := by
  intro l
  induction l with
  | nil => intro st; simp
  | cons x xs ih =>
    intro st
    simp only [List.foldl_cons, ih, h, List.map_cons, List.reverse_cons, List.flatten_append, List.flatten_cons,
      List.flatten_nil, List.append_nil, List.append_assoc]

theorem mem_foldl_step {α β : Type} (step : List β → α → List β) (g : α → List β) (h : ∀ st x, step st x = g x ++ st)
    (l : List α) (st : List β) :
    ∃ P : List β, l.foldl step st = P ++ st ∧ ∀ y, y ∈ P ↔ ∃ x ∈ l, y ∈ g x := by
  refine ⟨(l.map g).reverse.flatten, foldl_step step g h l st, ?_⟩
  intro y
  simp only [List.mem_flatten, List.mem_reverse, List.mem_map]
  constructor
  · rintro ⟨_, ⟨x, hx, rfl⟩, hy⟩; exact ⟨x, hx, hy⟩
  · rintro ⟨x, hx, hy⟩; exact ⟨_, ⟨x, hx, rfl⟩, hy⟩

/-! ## the per-node step -/

/-- **what the per-node step pushes** at the entry `(e1, e2)` with nodes `n1`, `n2` (the three descending arms) -/
def Pushed (q1 q2 : Q K) (pos : Option (Iso3 K)) (n1 n2 : Node K) (e1 e2 : Nat) (x : Nat × Nat) : Prop :=
  (n1.leaf = true ∧ n2.leaf = false ∧ ∃ jj ∈ lanes4, (∃ ii ∈ lanes4, pairMask pos n1 n2 ii jj = true) ∧
      childOf n2 jj ≤ q2.nodes.size ∧ x = (e1, childOf n2 jj)) ∨
  (n1.leaf = false ∧ n2.leaf = true ∧ ∃ ii ∈ lanes4, (∃ jj ∈ lanes4, pairMask pos n1 n2 ii jj = true) ∧
      childOf n1 ii ≤ q1.nodes.size ∧ x = (childOf n1 ii, e2)) ∨
  (n1.leaf = false ∧ n2.leaf = false ∧ ∃ ii ∈ lanes4, ∃ jj ∈ lanes4, pairMask pos n1 n2 ii jj = true ∧
      childOf n1 ii ≤ q1.nodes.size ∧ childOf n2 jj ≤ q2.nodes.size ∧ x = (childOf n1 ii, childOf n2 jj))

/-- **what the visitor reports** at a (leaf, leaf) entry: the data of every occupied lane pair whose boxes intersect -/
def Reported (q1 q2 : Q K) (pos : Option (Iso3 K)) (n1 n2 : Node K) (x : Nat × Nat) : Prop :=
  n1.leaf = true ∧ n2.leaf = true ∧ ∃ ii ∈ lanes4, ∃ jj ∈ lanes4, ∃ p1 p2 : Proxy,
    q1.proxies[childOf n1 ii]? = some p1 ∧ q2.proxies[childOf n2 jj]? = some p2 ∧ pairMask pos n1 n2 ii jj = true ∧
    x = (p1.data, p2.data)

theorem bvttVisit_spec (q1 q2 : Q K) (pos : Option (Iso3 K)) (e1 e2 : Nat) (n1 n2 : Node K)
    (h1 : q1.nodes[e1]? = some n1) (h2 : q2.nodes[e2]? = some n2) (stack out : List (Nat × Nat)) :
    ∃ P O : List (Nat × Nat), bvttVisit q1 q2 pos e1 e2 stack out = some (P ++ stack, O ++ out) ∧
      (∀ x, x ∈ P ↔ Pushed q1 q2 pos n1 n2 e1 e2 x) ∧ (∀ x, x ∈ O ↔ Reported q1 q2 pos n1 n2 x) := by
  unfold bvttVisit
  simp only [h1, h2]
  -- the reports
  have hout : ∃ O : List (Nat × Nat),
      (if (n1.leaf && n2.leaf) = true then
        lanes4.foldl (fun o ii =>
          match q1.proxies[(n1.children[ii]?).getD MAXN]? with
          | none => o
          | some p1 =>
            lanes4.foldl (fun o jj =>
              match q2.proxies[(n2.children[jj]?).getD MAXN]? with
              | none => o
              | some p2 => if pairMask pos n1 n2 ii jj = true then (p1.data, p2.data) :: o else o) o) out
      else out) = O ++ out ∧ ∀ x, x ∈ O ↔ Reported q1 q2 pos n1 n2 x := by
    by_cases hl : (n1.leaf && n2.leaf) = true
    · simp only [hl, if_true]
      have hl' : n1.leaf = true ∧ n2.leaf = true := by simpa using hl
      obtain ⟨O, e, hm⟩ := mem_foldl_step
        (fun (o : List (Nat × Nat)) ii =>
          match q1.proxies[(n1.children[ii]?).getD MAXN]? with
          | none => o
          | some p1 =>
            lanes4.foldl (fun o jj =>
              match q2.proxies[(n2.children[jj]?).getD MAXN]? with
              | none => o
              | some p2 => if pairMask pos n1 n2 ii jj = true then (p1.data, p2.data) :: o else o) o)
        (fun ii =>
          match q1.proxies[(n1.children[ii]?).getD MAXN]? with
          | none => []
          | some p1 => (lanes4.map fun jj =>
              match q2.proxies[(n2.children[jj]?).getD MAXN]? with
              | none => []
              | some p2 => if pairMask pos n1 n2 ii jj = true then [(p1.data, p2.data)] else []).reverse.flatten)
        (by
          intro st ii
          cases q1.proxies[(n1.children[ii]?).getD MAXN]? with
          | none => simp
          | some p1 =>
            dsimp only
            exact foldl_step _ _ (by
              intro st' jj
              cases q2.proxies[(n2.children[jj]?).getD MAXN]? with
              | none => simp
              | some p2 => dsimp only; split <;> simp) lanes4 st)
        lanes4 out
      refine ⟨O, e, ?_⟩
      intro x
      rw [hm x]
      unfold Reported childOf
      constructor
      · rintro ⟨ii, hii, hx⟩
        cases hp1 : q1.proxies[(n1.children[ii]?).getD MAXN]? with
        | none => simp [hp1] at hx
        | some p1 =>
          simp only [hp1, List.mem_flatten, List.mem_reverse, List.mem_map] at hx
          obtain ⟨_, ⟨jj, hjj, rfl⟩, hx⟩ := hx
          cases hp2 : q2.proxies[(n2.children[jj]?).getD MAXN]? with
          | none => simp [hp2] at hx
          | some p2 =>
            simp only [hp2] at hx
            split at hx
            · rename_i hm'
              simp only [List.mem_singleton] at hx
              exact ⟨hl'.1, hl'.2, ii, hii, jj, hjj, p1, p2, hp1, hp2, hm', hx⟩
            · simp at hx
      · rintro ⟨_, _, ii, hii, jj, hjj, p1, p2, hp1, hp2, hm', rfl⟩
        refine ⟨ii, hii, ?_⟩
        simp only [hp1, List.mem_flatten, List.mem_reverse, List.mem_map]
        exact ⟨_, ⟨jj, hjj, rfl⟩, by simp [hp2, hm']⟩
    · simp only [hl, if_false]
      refine ⟨[], rfl, ?_⟩
      intro x
      simp only [List.not_mem_nil, false_iff]
      rintro ⟨a, b, _⟩
      exact hl (by simp [a, b])
  -- the pushes
  have hstack : ∃ P : List (Nat × Nat),
      (if (n1.leaf && n2.leaf) = true then stack
      else if n1.leaf = true then
        lanes4.foldl (fun st jj =>
          if (lanes4.any (fun ii => pairMask pos n1 n2 ii jj) && decide ((n2.children[jj]?).getD MAXN ≤ q2.nodes.size)) = true
          then (e1, (n2.children[jj]?).getD MAXN) :: st else st) stack
      else if n2.leaf = true then
        lanes4.foldl (fun st ii =>
          if (lanes4.any (fun jj => pairMask pos n1 n2 ii jj) && decide ((n1.children[ii]?).getD MAXN ≤ q1.nodes.size)) = true
          then ((n1.children[ii]?).getD MAXN, e2) :: st else st) stack
      else
        lanes4.foldl (fun st ii =>
          lanes4.foldl (fun st jj =>
            if (pairMask pos n1 n2 ii jj && decide ((n1.children[ii]?).getD MAXN ≤ q1.nodes.size) &&
              decide ((n2.children[jj]?).getD MAXN ≤ q2.nodes.size)) = true
            then ((n1.children[ii]?).getD MAXN, (n2.children[jj]?).getD MAXN) :: st else st) st) stack) = P ++ stack ∧
      ∀ x, x ∈ P ↔ Pushed q1 q2 pos n1 n2 e1 e2 x := by
    unfold Pushed childOf
    cases hl1 : n1.leaf <;> cases hl2 : n2.leaf
    · -- internal / internal
      simp only [Bool.and_self, Bool.false_eq_true, if_false]
      obtain ⟨P, e, hm⟩ := mem_foldl_step
        (fun (st : List (Nat × Nat)) ii =>
          lanes4.foldl (fun st jj =>
            if (pairMask pos n1 n2 ii jj && decide ((n1.children[ii]?).getD MAXN ≤ q1.nodes.size) &&
              decide ((n2.children[jj]?).getD MAXN ≤ q2.nodes.size)) = true
            then ((n1.children[ii]?).getD MAXN, (n2.children[jj]?).getD MAXN) :: st else st) st)
        (fun ii => (lanes4.map fun jj =>
            if (pairMask pos n1 n2 ii jj && decide ((n1.children[ii]?).getD MAXN ≤ q1.nodes.size) &&
              decide ((n2.children[jj]?).getD MAXN ≤ q2.nodes.size)) = true
            then [((n1.children[ii]?).getD MAXN, (n2.children[jj]?).getD MAXN)] else []).reverse.flatten)
        (by
          intro st ii
          exact foldl_step _ _ (by intro st' jj; split <;> simp) lanes4 st)
        lanes4 stack
      refine ⟨P, e, ?_⟩
      intro x
      rw [hm x]
      simp only [List.mem_flatten, List.mem_reverse, List.mem_map]
      constructor
      · rintro ⟨ii, hii, _, ⟨jj, hjj, rfl⟩, hx⟩
        split at hx
        · rename_i hc
          simp only [Bool.and_eq_true, decide_eq_true_eq] at hc
          simp only [List.mem_singleton] at hx
          exact Or.inr (Or.inr ⟨trivial, trivial, ii, hii, jj, hjj, hc.1.1, hc.1.2, hc.2, hx⟩)
        · simp at hx
      · rintro (⟨h, _⟩ | ⟨_, h, _⟩ | ⟨_, _, ii, hii, jj, hjj, a, b, c, rfl⟩)
        · cases h
        · cases h
        · exact ⟨ii, hii, _, ⟨jj, hjj, rfl⟩, by simp [a, b, c]⟩
    · -- internal / leaf
      simp only [Bool.false_and, Bool.false_eq_true, if_false, if_true]
      obtain ⟨P, e, hm⟩ := mem_foldl_step
        (fun (st : List (Nat × Nat)) ii =>
          if (lanes4.any (fun jj => pairMask pos n1 n2 ii jj) && decide ((n1.children[ii]?).getD MAXN ≤ q1.nodes.size)) = true
          then ((n1.children[ii]?).getD MAXN, e2) :: st else st)
        (fun ii =>
          if (lanes4.any (fun jj => pairMask pos n1 n2 ii jj) && decide ((n1.children[ii]?).getD MAXN ≤ q1.nodes.size)) = true
          then [((n1.children[ii]?).getD MAXN, e2)] else [])
        (by intro st ii; split <;> simp) lanes4 stack
      refine ⟨P, e, ?_⟩
      intro x
      rw [hm x]
      constructor
      · rintro ⟨ii, hii, hx⟩
        split at hx
        · rename_i hc
          simp only [Bool.and_eq_true, decide_eq_true_eq, List.any_eq_true] at hc
          simp only [List.mem_singleton] at hx
          exact Or.inr (Or.inl ⟨trivial, trivial, ii, hii, hc.1, hc.2, hx⟩)
        · simp at hx
      · rintro (⟨h, _⟩ | ⟨_, _, ii, hii, a, b, rfl⟩ | ⟨_, h, _⟩)
        · cases h
        rotate_left
        · cases h
        refine ⟨ii, hii, ?_⟩
        have : (lanes4.any (fun jj => pairMask pos n1 n2 ii jj) && decide ((n1.children[ii]?).getD MAXN ≤ q1.nodes.size)) = true := by
          simp only [Bool.and_eq_true, decide_eq_true_eq, List.any_eq_true]; exact ⟨a, b⟩
        simp [this]
    · -- leaf / internal
      simp only [Bool.and_false, Bool.false_eq_true, if_false, if_true]
      obtain ⟨P, e, hm⟩ := mem_foldl_step
        (fun (st : List (Nat × Nat)) jj =>
          if (lanes4.any (fun ii => pairMask pos n1 n2 ii jj) && decide ((n2.children[jj]?).getD MAXN ≤ q2.nodes.size)) = true
          then (e1, (n2.children[jj]?).getD MAXN) :: st else st)
        (fun jj =>
          if (lanes4.any (fun ii => pairMask pos n1 n2 ii jj) && decide ((n2.children[jj]?).getD MAXN ≤ q2.nodes.size)) = true
          then [(e1, (n2.children[jj]?).getD MAXN)] else [])
        (by intro st jj; split <;> simp) lanes4 stack
      refine ⟨P, e, ?_⟩
      intro x
      rw [hm x]
      constructor
      · rintro ⟨jj, hjj, hx⟩
        split at hx
        · rename_i hc
          simp only [Bool.and_eq_true, decide_eq_true_eq, List.any_eq_true] at hc
          simp only [List.mem_singleton] at hx
          exact Or.inl ⟨trivial, trivial, jj, hjj, hc.1, hc.2, hx⟩
        · simp at hx
      · rintro (⟨_, _, jj, hjj, a, b, rfl⟩ | ⟨h, _⟩ | ⟨h, _⟩)
        rotate_left
        · cases h
        · cases h
        refine ⟨jj, hjj, ?_⟩
        have : (lanes4.any (fun ii => pairMask pos n1 n2 ii jj) && decide ((n2.children[jj]?).getD MAXN ≤ q2.nodes.size)) = true := by
          simp only [Bool.and_eq_true, decide_eq_true_eq, List.any_eq_true]; exact ⟨a, b⟩
        simp [this]
    · -- leaf / leaf
      simp only [Bool.and_self, if_true]
      refine ⟨[], rfl, ?_⟩
      intro x
      simp
  obtain ⟨O, eo, ho⟩ := hout
  obtain ⟨P, ep, hp⟩ := hstack
  refine ⟨P, O, ?_, hp, ho⟩
  exact congrArg some (Prod.ext ep eo)

/-! ## the traversal as a closure: entries reachable by per-node steps -/

/-- one per-node step leads from entry `e` to entry `e'` -/
def StepTo (q1 q2 : Q K) (pos : Option (Iso3 K)) (e e' : Nat × Nat) : Prop :=
  ∃ n1 n2 : Node K, q1.nodes[e.1]? = some n1 ∧ q2.nodes[e.2]? = some n2 ∧ Pushed q1 q2 pos n1 n2 e.1 e.2 e'

/-- the pair `x` is reported when the entry `e` is visited -/
def ReportsAt (q1 q2 : Q K) (pos : Option (Iso3 K)) (e x : Nat × Nat) : Prop :=
  ∃ n1 n2 : Node K, q1.nodes[e.1]? = some n1 ∧ q2.nodes[e.2]? = some n2 ∧ Reported q1 q2 pos n1 n2 x

/-- entries reachable from `e` by per-node steps — what ANY schedule of the traversal visits (sequential stack, rayon
fork-join) -/
inductive Reach (q1 q2 : Q K) (pos : Option (Iso3 K)) : Nat × Nat → Nat × Nat → Prop
  | refl (e : Nat × Nat) : Reach q1 q2 pos e e
  | step {e e' e'' : Nat × Nat} : StepTo q1 q2 pos e e' → Reach q1 q2 pos e' e'' → Reach q1 q2 pos e e''

theorem Reach.trans {q1 q2 : Q K} {pos : Option (Iso3 K)} {a b c : Nat × Nat} (h1 : Reach q1 q2 pos a b)
    (h2 : Reach q1 q2 pos b c) : Reach q1 q2 pos a c := by
  induction h1 with
  | refl => exact h2
  | step s _ ih => exact Reach.step s (ih h2)

/-- **the stack loop computes the closure**: when the loop returns, the pairs reported are exactly those already in
`out` and those reported at entries reachable from the entries on the stack -/
theorem bvttLoop_spec (q1 q2 : Q K) (pos : Option (Iso3 K)) :
    ∀ (fuel : Nat) (stack out res : List (Nat × Nat)), bvttLoop q1 q2 pos fuel stack out = some res →
      ∀ x, x ∈ res ↔ (x ∈ out ∨ ∃ e ∈ stack, ∃ e', Reach q1 q2 pos e e' ∧ ReportsAt q1 q2 pos e' x) := by
  intro fuel
  induction fuel with
  | zero =>
    intro stack out res h x
    cases stack with
    | nil => simp only [bvttLoop, Option.some.injEq] at h; subst h; simp
    | cons e st => simp [bvttLoop] at h
  | succ fuel ih =>
    intro stack out res h x
    cases stack with
    | nil => simp only [bvttLoop, Option.some.injEq] at h; subst h; simp
    | cons e st =>
      obtain ⟨e1, e2⟩ := e
      simp only [bvttLoop] at h
      cases hn1 : q1.nodes[e1]? with
      | none => simp [bvttVisit, hn1] at h
      | some n1 =>
        cases hn2 : q2.nodes[e2]? with
        | none => simp [bvttVisit, hn1, hn2] at h
        | some n2 =>
          obtain ⟨P, O, ev, hP, hO⟩ := bvttVisit_spec q1 q2 pos e1 e2 n1 n2 hn1 hn2 st out
          rw [ev] at h
          rw [ih _ _ _ h x]
          constructor
          · rintro (hx | ⟨e, he, e', hr, hrep⟩)
            · rcases List.mem_append.1 hx with hx | hx
              · exact Or.inr ⟨(e1, e2), by simp, (e1, e2), Reach.refl _, n1, n2, hn1, hn2, (hO x).1 hx⟩
              · exact Or.inl hx
            · rcases List.mem_append.1 he with he | he
              · exact Or.inr ⟨(e1, e2), by simp, e', Reach.step ⟨n1, n2, hn1, hn2, (hP e).1 he⟩ hr, hrep⟩
              · exact Or.inr ⟨e, by simp [he], e', hr, hrep⟩
          · rintro (hx | ⟨e, he, e', hr, hrep⟩)
            · exact Or.inl (by simp [hx])
            · simp only [List.mem_cons] at he
              rcases he with rfl | he
              · cases hr with
                | refl =>
                  obtain ⟨m1, m2, a1, a2, a3⟩ := hrep
                  rw [hn1] at a1; rw [hn2] at a2; cases a1; cases a2
                  exact Or.inl (by simp [(hO x).2 a3])
                | step s hr' =>
                  obtain ⟨m1, m2, a1, a2, a3⟩ := s
                  rw [hn1] at a1; rw [hn2] at a2; cases a1; cases a2
                  exact Or.inr ⟨_, by simp [(hP _).2 a3], e', hr', hrep⟩
              · exact Or.inr ⟨e, by simp [he], e', hr, hrep⟩

/-- the set of pairs visited by the two-tree traversal under ANY schedule -/
def BvttSet (q1 q2 : Q K) (pos : Option (Iso3 K)) (x : Nat × Nat) : Prop :=
  ∃ e, Reach q1 q2 pos (0, 0) e ∧ ReportsAt q1 q2 pos e x

theorem traverseBvtt_spec (q1 q2 : Q K) (pos : Option (Iso3 K)) (res : List (Nat × Nat))
    (h : traverseBvtt q1 q2 pos = some res) : ∀ x, x ∈ res ↔ BvttSet q1 q2 pos x := by
  intro x
  unfold traverseBvtt at h
  split at h
  · rename_i h0
    cases h
    simp only [List.not_mem_nil, false_iff]
    rintro ⟨e, hr, n1, n2, a1, a2, _⟩
    -- with an empty tree no entry has both nodes
    have hnone : q1.nodes[(0 : Nat)]? = none ∨ q2.nodes[(0 : Nat)]? = none := by
      simp only [Bool.or_eq_true, decide_eq_true_eq] at h0
      rcases h0 with h0 | h0
      · exact Or.inl (by simp [Array.size_eq_zero_iff.mp h0])
      · exact Or.inr (by simp [Array.size_eq_zero_iff.mp h0])
    cases hr with
    | refl => rcases hnone with h' | h' <;> simp_all
    | step s _ =>
      obtain ⟨m1, m2, b1, b2, _⟩ := s
      rcases hnone with h' | h' <;> simp_all
  · rw [bvttLoop_spec q1 q2 pos _ _ _ _ h x]
    simp only [List.not_mem_nil, false_or, List.mem_singleton]
    constructor
    · rintro ⟨e, rfl, e', hr, hrep⟩; exact ⟨e', hr, hrep⟩
    · rintro ⟨e', hr, hrep⟩; exact ⟨(0, 0), rfl, e', hr, hrep⟩

/-! ## completeness: descending along two root-to-leaf paths -/

/-- the order facts the argument needs: containment laws, `intersects` is monotone for containment in both arguments,
posing a box (`transform_by(pos12)`) is monotone -/
structure BvttLaws (K : Type) [Num K] (pos : Option (Iso3 K)) : Prop where
  laws : BoxLaws K
  imono : ∀ a a' b b' : Aabb3 K, boxContains a a' = true → boxContains b b' = true → boxIntersects a' b' = true →
    boxIntersects a b = true
  pmono : ∀ b b' : Aabb3 K, boxContains b b' = true → boxContains (posedBox pos b) (posedBox pos b') = true

/-- node `a` of `q` has a lane whose box contains `t` and which leads (through lanes whose boxes all contain `t`) to the
leaf lane holding proxy `p` -/
inductive PathTo (q : Q K) (p : Nat) (t : Aabb3 K) : Nat → Prop
  | leaf (a : Nat) (nd : Node K) (l : Nat) (bx : Aabb3 K) (hn : q.nodes[a]? = some nd) (hl : nd.leaf = true)
      (hc : nd.children[l]? = some p) (hb : nd.boxes[l]? = some bx) (hcont : boxContains bx t = true) : PathTo q p t a
  | inner (a : Nat) (nd : Node K) (l c : Nat) (bx : Aabb3 K) (hn : q.nodes[a]? = some nd) (hl : nd.leaf = false)
      (hc : nd.children[l]? = some c) (hlt : c < q.nodes.size) (hb : nd.boxes[l]? = some bx)
      (hcont : boxContains bx t = true) (h : PathTo q p t c) : PathTo q p t a

/-- the lane box at the top of a path -/
theorem PathTo.top {q : Q K} {p : Nat} {t : Aabb3 K} {a : Nat} (h : PathTo q p t a) :
    ∃ (nd : Node K) (l : Nat) (bx : Aabb3 K), q.nodes[a]? = some nd ∧ nd.boxes[l]? = some bx ∧ boxContains bx t = true := by
  cases h with
  | leaf a nd l bx hn _ _ hb hcont => exact ⟨nd, l, bx, hn, hb, hcont⟩
  | inner a nd l c bx hn _ _ _ hb hcont _ => exact ⟨nd, l, bx, hn, hb, hcont⟩

/-- one step up: the parent's lane box contains the merged box of the child, hence `t` -/
theorem PathTo.up (laws : BoxLaws K) {q : Q K} (hinv : Inv q) (cur : Nat → Aabb3 K) (hb : BoxInv q cur) {p : Nat}
    {t : Aabb3 K} {n : Nat} (h : PathTo q p t n) (nd : Node K) (hnd : q.nodes[n]? = some nd) (hlive : Live q n)
    (hn0 : n ≠ 0) : PathTo q p t nd.parent := by
  obtain ⟨plive, pn, hpn, pleaf, pch⟩ := hinv.par n nd hnd hlive hn0
  obtain ⟨nd', l, bx, e1, e2, e3⟩ := h.top
  rw [hnd] at e1; cases e1
  have hl4 : nd.plane < 4 := by rcases vec4_lane _ _ _ pch with h | h | h | h <;> omega
  have hbx : pn.boxes[nd.plane]? = some pn.boxes[nd.plane] := by simp [hl4]
  have hg := hb nd.parent pn hpn plive
  have hfresh := fresh_internal_lane q cur pn nd.plane n pleaf pch
  rw [hnd] at hfresh
  have c1 := containsAll_lane _ _ hg nd.plane _ _ hbx hfresh
  have c2 := laws.merged nd.boxes l bx e2
  exact PathTo.inner nd.parent pn nd.plane n _ hpn pleaf pch (Array.getElem?_eq_some_iff.mp hnd).1 hbx
    (laws.trans _ _ _ c1 (laws.trans _ _ _ c2 e3)) h

/-- **from the root there is a path of containing lane boxes to every attached leaf** (`Inv` + `BoxInv`) -/
theorem pathTo_root (laws : BoxLaws K) {q : Q K} (hinv : Inv q) (cur : Nat → Aabb3 K) (hb : BoxInv q cur) (p : Nat)
    (pr : Proxy) (hp : q.proxies[p]? = some pr) (hne : pr.node ≠ MAXN) : PathTo q p (cur pr.data) 0 := by
  obtain ⟨plive, nd, hnd, hleaf, hch⟩ := hinv.proxyLeaf p pr hp hne
  have hl4 : pr.lane < 4 := by rcases vec4_lane _ _ _ hch with h | h | h | h <;> omega
  have hbx : nd.boxes[pr.lane]? = some nd.boxes[pr.lane] := by simp [hl4]
  have hg := hb pr.node nd hnd plive
  have hfresh := fresh_leaf_lane q cur nd pr.lane p hleaf hch
  rw [hp] at hfresh
  have c1 := containsAll_lane _ _ hg pr.lane _ _ hbx hfresh
  have h0 : PathTo q p (cur pr.data) pr.node := PathTo.leaf pr.node nd pr.lane _ hnd hleaf hch hbx c1
  obtain ⟨d, hd0, hd⟩ := hinv.depth
  have climb : ∀ (k n : Nat), d n = k → Live q n → (∃ x : Node K, q.nodes[n]? = some x) →
      PathTo q p (cur pr.data) n → PathTo q p (cur pr.data) 0 := by
    intro k
    induction k with
    | zero =>
      intro n hk hl ⟨x, hx⟩ h
      by_cases hn0 : n = 0
      · subst hn0; exact h
      · have := hd n x hx hl hn0; omega
    | succ k ih =>
      intro n hk hl ⟨x, hx⟩ h
      by_cases hn0 : n = 0
      · subst hn0; exact h
      · have hdn := hd n x hx hl hn0
        obtain ⟨pl, pn, hpn, _, _⟩ := hinv.par n x hx hl hn0
        exact ih x.parent (by omega) pl ⟨pn, hpn⟩ (h.up laws hinv cur hb x hx hl hn0)
  exact climb (d pr.node) pr.node rfl plive ⟨nd, hnd⟩ h0

theorem childOf_eq (nd : Node K) (l c : Nat) (h : nd.children[l]? = some c) : childOf nd l = c := by
  simp [childOf, h]

theorem lane_mem4 {α} (v : Vector α 4) (l : Nat) (x : α) (h : v[l]? = some x) : l ∈ lanes4 := by
  rcases vec4_lane v l x h with rfl | rfl | rfl | rfl <;> simp [lanes4]

/-- **the descent**: from an entry `(a, b)` whose nodes have paths of containing lane boxes to the leaves `p1`, `p2`, and
targets `t1`, `t2` that intersect (second one posed), the traversal reaches the entry of the two leaf nodes and reports the
pair there -/
theorem descend {pos : Option (Iso3 K)} (bl : BvttLaws K pos) (q1 q2 : Q K) (p1 p2 : Nat) (pr1 pr2 : Proxy)
    (hp1 : q1.proxies[p1]? = some pr1) (hp2 : q2.proxies[p2]? = some pr2) (t1 t2 : Aabb3 K)
    (hint : boxIntersects t1 (posedBox pos t2) = true) :
    ∀ (a : Nat), PathTo q1 p1 t1 a → ∀ (b : Nat), PathTo q2 p2 t2 b →
      ∃ e, Reach q1 q2 pos (a, b) e ∧ ReportsAt q1 q2 pos e (pr1.data, pr2.data) := by
  -- the lane boxes at the top of two paths intersect
  have hmask : ∀ (n1 n2 : Node K) (l1 l2 : Nat) (b1 b2 : Aabb3 K), n1.boxes[l1]? = some b1 → n2.boxes[l2]? = some b2 →
      boxContains b1 t1 = true → boxContains b2 t2 = true → pairMask pos n1 n2 l1 l2 = true := by
    intro n1 n2 l1 l2 b1 b2 e1 e2 c1 c2
    simp only [pairMask, e1, e2]
    exact bl.imono _ _ _ _ c1 (bl.pmono _ _ c2) hint
  intro a h1
  induction h1 with
  | leaf a n1 l1 bx1 hn1 hl1 hc1 hb1 hcont1 =>
    intro b h2
    induction h2 with
    | leaf b n2 l2 bx2 hn2 hl2 hc2 hb2 hcont2 =>
      refine ⟨(a, b), Reach.refl _, n1, n2, hn1, hn2, hl1, hl2, l1, lane_mem4 _ _ _ hb1, l2, lane_mem4 _ _ _ hb2, pr1, pr2, ?_, ?_,
        hmask n1 n2 l1 l2 bx1 bx2 hb1 hb2 hcont1 hcont2, rfl⟩
      · rw [childOf_eq n1 l1 p1 hc1]; exact hp1
      · rw [childOf_eq n2 l2 p2 hc2]; exact hp2
    | inner b n2 l2 c2 bx2 hn2 hl2 hc2 hlt2 hb2 hcont2 _ ih =>
      obtain ⟨e, hr, hrep⟩ := ih
      refine ⟨e, Reach.step ⟨n1, n2, hn1, hn2, Or.inl ⟨hl1, hl2, l2, lane_mem4 _ _ _ hb2,
        ⟨l1, lane_mem4 _ _ _ hb1, hmask n1 n2 l1 l2 bx1 bx2 hb1 hb2 hcont1 hcont2⟩, ?_, ?_⟩⟩ hr, hrep⟩
      · rw [childOf_eq n2 l2 c2 hc2]; omega
      · rw [childOf_eq n2 l2 c2 hc2]
  | inner a n1 l1 c1 bx1 hn1 hl1 hc1 hlt1 hb1 hcont1 _ ih1 =>
    intro b h2
    cases h2 with
    | leaf b n2 l2 bx2 hn2 hl2 hc2 hb2 hcont2 =>
      obtain ⟨e, hr, hrep⟩ := ih1 b (PathTo.leaf b n2 l2 bx2 hn2 hl2 hc2 hb2 hcont2)
      refine ⟨e, Reach.step ⟨n1, n2, hn1, hn2, Or.inr (Or.inl ⟨hl1, hl2, l1, lane_mem4 _ _ _ hb1,
        ⟨l2, lane_mem4 _ _ _ hb2, hmask n1 n2 l1 l2 bx1 bx2 hb1 hb2 hcont1 hcont2⟩, ?_, ?_⟩)⟩ hr, hrep⟩
      · rw [childOf_eq n1 l1 c1 hc1]; omega
      · rw [childOf_eq n1 l1 c1 hc1]
    | inner b n2 l2 c2 bx2 hn2 hl2 hc2 hlt2 hb2 hcont2 h2' =>
      obtain ⟨e, hr, hrep⟩ := ih1 c2 h2'
      refine ⟨e, Reach.step ⟨n1, n2, hn1, hn2, Or.inr (Or.inr ⟨hl1, hl2, l1, lane_mem4 _ _ _ hb1, l2, lane_mem4 _ _ _ hb2,
        hmask n1 n2 l1 l2 bx1 bx2 hb1 hb2 hcont1 hcont2, ?_, ?_, ?_⟩)⟩ hr, hrep⟩
      · rw [childOf_eq n1 l1 c1 hc1]; omega
      · rw [childOf_eq n2 l2 c2 hc2]; omega
      · rw [childOf_eq n1 l1 c1 hc1, childOf_eq n2 l2 c2 hc2]

/-! ## soundness: reachable entries are pairs of live nodes -/

/-- both components of the entry are live node indices -/
def GoodEntry (q1 q2 : Q K) (e : Nat × Nat) : Prop :=
  Live q1 e.1 ∧ e.1 < q1.nodes.size ∧ Live q2 e.2 ∧ e.2 < q2.nodes.size

theorem child_good {q : Q K} (hinv : Inv q) (hsz : q.nodes.size < MAXN) (n : Nat) (nd : Node K) (hnd : q.nodes[n]? = some nd)
    (hlive : Live q n) (hleaf : nd.leaf = false) (l : Nat) (hl : l ∈ lanes4) (hle : childOf nd l ≤ q.nodes.size) :
    Live q (childOf nd l) ∧ childOf nd l < q.nodes.size := by
  have hl4 : l < 4 := by simp [lanes4] at hl; omega
  have hc : nd.children[l]? = some (childOf nd l) := by simp [childOf, hl4]
  have hcm : childOf nd l ≠ MAXN := by omega
  obtain ⟨_, cl, cn, hcn, _⟩ := hinv.child n nd hnd hlive hleaf l _ hc hcm
  exact ⟨cl, (Array.getElem?_eq_some_iff.mp hcn).1⟩

theorem reach_good {q1 q2 : Q K} (pos : Option (Iso3 K)) (h1 : Inv q1) (h2 : Inv q2) (s1 : q1.nodes.size < MAXN)
    (s2 : q2.nodes.size < MAXN) {e e' : Nat × Nat} (hr : Reach q1 q2 pos e e') (hg : GoodEntry q1 q2 e) :
    GoodEntry q1 q2 e' := by
  induction hr with
  | refl => exact hg
  | step s _ ih =>
    apply ih
    obtain ⟨n1, n2, a1, a2, hp⟩ := s
    obtain ⟨l1, z1, l2, z2⟩ := hg
    rcases hp with ⟨_, hl2, jj, hjj, _, hle, rfl⟩ | ⟨hl1, _, ii, hii, _, hle, rfl⟩ | ⟨hl1, hl2, ii, hii, jj, hjj, _, hle1, hle2, rfl⟩
    · obtain ⟨c1, c2⟩ := child_good h2 s2 _ n2 a2 l2 hl2 jj hjj hle
      exact ⟨l1, z1, c1, c2⟩
    · obtain ⟨c1, c2⟩ := child_good h1 s1 _ n1 a1 l1 hl1 ii hii hle
      exact ⟨c1, c2, l2, z2⟩
    · obtain ⟨c1, c2⟩ := child_good h1 s1 _ n1 a1 l1 hl1 ii hii hle1
      obtain ⟨c3, c4⟩ := child_good h2 s2 _ n2 a2 l2 hl2 jj hjj hle2
      exact ⟨c1, c2, c3, c4⟩

/-- a proxy found in a lane of a live leaf is attached to that lane -/
theorem lane_proxy_attached {q : Q K} (hinv : Inv q) (n : Nat) (nd : Node K) (hnd : q.nodes[n]? = some nd) (hlive : Live q n)
    (hleaf : nd.leaf = true) (l : Nat) (hl : l ∈ lanes4) (pr : Proxy) (hp : q.proxies[childOf nd l]? = some pr) :
    pr.node = n ∧ pr.lane = l ∧ pr.node ≠ MAXN := by
  have hl4 : l < 4 := by simp [lanes4] at hl; omega
  have hc : nd.children[l]? = some (childOf nd l) := by simp [childOf, hl4]
  have hcm : childOf nd l ≠ MAXN := by
    intro e
    have := (Array.getElem?_eq_some_iff.mp hp).1
    have := hinv.psmall
    omega
  obtain ⟨pr', e1, e2, e3⟩ := hinv.leafProxy n nd hnd hlive hleaf l _ hc hcm
  rw [hp] at e1; cases e1
  refine ⟨e2, e3, ?_⟩
  rw [e2]
  have := (Array.getElem?_eq_some_iff.mp hnd).1
  have := hinv.small
  omega

/-- the `modified` loop only reports what the complete traversal reports -/
theorem bvttModLoop_sound (q1 q2 : Q K) (pos : Option (Iso3 K)) :
    ∀ (fuel : Nat) (stack out res : List (Nat × Nat)), bvttModLoop q1 q2 pos fuel stack out = some res →
      ∀ x, x ∈ res → (x ∈ out ∨ ∃ e ∈ stack, ∃ e', Reach q1 q2 pos e e' ∧ ReportsAt q1 q2 pos e' x) := by
  intro fuel
  induction fuel with
  | zero =>
    intro stack out res h x
    cases stack with
    | nil => simp only [bvttModLoop, Option.some.injEq] at h; subst h; simp
    | cons e st => simp [bvttModLoop] at h
  | succ fuel ih =>
    intro stack out res h x hx
    cases stack with
    | nil => simp only [bvttModLoop, Option.some.injEq] at h; subst h; left; simpa using hx
    | cons e st =>
      obtain ⟨e1, e2⟩ := e
      simp only [bvttModLoop] at h
      cases hn1 : q1.nodes[e1]? with
      | none => simp [hn1] at h
      | some n1 =>
        cases hn2 : q2.nodes[e2]? with
        | none => simp [hn1, hn2] at h
        | some n2 =>
          simp only [hn1, hn2] at h
          split at h
          · rcases ih _ _ _ h x hx with h' | ⟨e, he, rest⟩
            · exact Or.inl h'
            · exact Or.inr ⟨e, by simp [he], rest⟩
          · obtain ⟨P, O, ev, hP, hO⟩ := bvttVisit_spec q1 q2 pos e1 e2 n1 n2 hn1 hn2 st out
            rw [ev] at h
            rcases ih _ _ _ h x hx with h' | ⟨e, he, e', hr, hrep⟩
            · rcases List.mem_append.1 h' with h'' | h''
              · exact Or.inr ⟨(e1, e2), by simp, (e1, e2), Reach.refl _, n1, n2, hn1, hn2, (hO x).1 h''⟩
              · exact Or.inl h''
            · rcases List.mem_append.1 he with he | he
              · exact Or.inr ⟨(e1, e2), by simp, e', Reach.step ⟨n1, n2, hn1, hn2, (hP e).1 he⟩ hr, hrep⟩
              · exact Or.inr ⟨e, by simp [he], e', hr, hrep⟩
