import ParryModel.Field
import ParryModel.C08.Lemmas
/-!
# C08: `refit` terminates (each pass of the double work-list loop moves one level towards the root), and the
concrete fuel `nodes.len() + 2` of the model suffices (depth `< nodes.len()` by a pigeonhole argument).
-/
namespace C08
open Model Model.Qbvh
set_option linter.unusedSectionVars false
variable {K : Type} [Num K]

/-- the root's parent index is out of range (`NodeIndex::invalid()`), so refit stops at the root -/
def RootParentInvalid (q : Q K) : Prop := ∀ r : Node K, q.nodes[0]? = some r → q.nodes[r.parent]? = none

/-- every queued index that names a node names a live node of depth `< k` -/
def WBound (q : Q K) (d : Nat → Nat) (k : Nat) (W : List Nat) : Prop :=
  ∀ n ∈ W, ∀ nd : Node K, q.nodes[n]? = some nd → Live q n ∧ d n < k

theorem wbound_of_topoEq {q q' : Q K} (e : TopoEq q q') (d : Nat → Nat) (k : Nat) (W : List Nat)
    (h : WBound q d k W) : WBound q' d k W := by
  intro n hn nd' hnd'
  obtain ⟨nd, hnd, _⟩ := e.node n nd' hnd'
  obtain ⟨hl, hd⟩ := h n hn nd hnd
  exact ⟨by simpa [Live, e.free] using hl, hd⟩

/-- one `refitNode` step: the parents pushed so far stay one level above the processed nodes -/
theorem refitNode_parents (q0 : Q K) (h0 : Inv q0) (hr : RootParentInvalid q0) (d : Nat → Nat)
    (hd : ∀ (n : Nat) (nd : Node K), q0.nodes[n]? = some nd → Live q0 n → n ≠ 0 → d n = d nd.parent + 1)
    (cur : Nat → Aabb3 K) (margin : K) (first : Bool) (k : Nat) (q : Q K) (P : List Nat) (num id : Nat)
    (e : TopoEq q0 q) (hid : ∀ nd : Node K, q0.nodes[id]? = some nd → Live q0 id ∧ d id < k + 1)
    (hP : WBound q0 d k P) :
    WBound q0 d k (refitNode cur margin first (q, P, num) id).2.1 := by
  unfold refitNode
  simp only
  split
  · exact hP
  · rename_i nd hnd
    split
    · -- changed: the parent may be pushed
      unfold flagParent
      simp only
      split
      · rename_i pn hpn
        split
        · -- pushed `nd.parent`
          intro n hn ndn hndn
          simp only [List.mem_cons] at hn
          rcases hn with rfl | hn
          · obtain ⟨nd0, hnd0, _, hpar0, _, _⟩ := e.node id nd hnd
            obtain ⟨hlive, hdk⟩ := hid nd0 hnd0
            have hpn' : (q.nodes.setIfInBounds id
                ({ nd with dirty := false, changed := true, boxes := (freshBoxes q cur nd).map (loosenBox margin) } : Node K))[nd.parent]? = some pn := hpn
            by_cases hid0 : id = 0
            · -- the root's parent does not exist
              exfalso
              subst hid0
              have := hr nd0 hnd0
              rw [← hpar0] at this
              have hlt : nd.parent < q.nodes.size := by
                have := (Array.getElem?_eq_some_iff.mp hpn').1; simpa using this
              rw [hndn] at this; cases this
            · obtain ⟨plive, _⟩ := h0.par id nd0 hnd0 hlive hid0
              have := hd id nd0 hnd0 hlive hid0
              rw [hpar0]
              exact ⟨plive, by omega⟩
          · exact hP n hn ndn hndn
        · exact hP
      · exact hP
    · exact hP

theorem refitNode_parents_exist (q0 : Q K) (cur : Nat → Aabb3 K) (margin : K) (first : Bool) (q : Q K) (P : List Nat)
    (num id : Nat) (e : TopoEq q0 q) (hP : ∀ p ∈ P, ∃ nd : Node K, q0.nodes[p]? = some nd) :
    ∀ p ∈ (refitNode cur margin first (q, P, num) id).2.1, ∃ nd : Node K, q0.nodes[p]? = some nd := by
  unfold refitNode
  simp only
  split
  · exact hP
  · rename_i nd hnd
    split
    · unfold flagParent
      simp only
      split
      · rename_i pn hpn
        split
        · intro p hp
          simp only [List.mem_cons] at hp
          rcases hp with rfl | hp
          · have hlt : nd.parent < q0.nodes.size := by
              have := (Array.getElem?_eq_some_iff.mp hpn).1
              rw [← e.size]; simpa using this
            exact ⟨q0.nodes[nd.parent], by simp [hlt]⟩
          · exact hP p hp
        · exact hP
      · exact hP
    · exact hP

theorem foldl_parents (q0 : Q K) (h0 : Inv q0) (hr : RootParentInvalid q0) (d : Nat → Nat)
    (hd : ∀ (n : Nat) (nd : Node K), q0.nodes[n]? = some nd → Live q0 n → n ≠ 0 → d n = d nd.parent + 1)
    (cur : Nat → Aabb3 K) (margin : K) (first : Bool) (k : Nat) :
    ∀ (W : List Nat) (st : Q K × List Nat × Nat), TopoEq q0 st.1 → WBound q0 d (k + 1) W → WBound q0 d k st.2.1 →
      (∀ p ∈ st.2.1, ∃ nd : Node K, q0.nodes[p]? = some nd) →
      WBound q0 d k (W.foldl (refitNode cur margin first) st).2.1 ∧
      (∀ p ∈ (W.foldl (refitNode cur margin first) st).2.1, ∃ nd : Node K, q0.nodes[p]? = some nd) := by
  intro W
  induction W with
  | nil => intro st _ _ hP hE; exact ⟨hP, hE⟩
  | cons id W ih =>
    intro st e hW hP hE
    obtain ⟨q, P, num⟩ := st
    simp only [List.foldl_cons]
    have e' : TopoEq q0 (refitNode cur margin first (q, P, num) id).1 := e.trans (topoEq_refitNode cur margin first (q, P, num) id)
    have hW' : WBound q0 d (k + 1) W := fun n hn => hW n (List.mem_cons_of_mem _ hn)
    exact ih _ e' hW'
      (refitNode_parents q0 h0 hr d hd cur margin first k q P num id e (fun nd hnd => hW id List.mem_cons_self nd hnd) hP)
      (refitNode_parents_exist q0 cur margin first q P num id e hE)

theorem refitLoop_terminates_aux (q0 : Q K) (h0 : Inv q0) (hr : RootParentInvalid q0) (d : Nat → Nat)
    (hd : ∀ (n : Nat) (nd : Node K), q0.nodes[n]? = some nd → Live q0 n → n ≠ 0 → d n = d nd.parent + 1)
    (cur : Nat → Aabb3 K) (margin : K) :
    ∀ (k fuel : Nat) (first : Bool) (q : Q K) (num : Nat), k < fuel → TopoEq q0 q → WBound q0 d k q.dirtyNodes →
      ∃ r : Q K × Nat, refitLoop cur margin fuel first q num = some r := by
  intro k
  induction k with
  | zero =>
    intro fuel first q num hf e hW
    obtain ⟨f, rfl⟩ : ∃ f, fuel = f + 1 := ⟨fuel - 1, by omega⟩
    unfold refitLoop
    split
    · exact ⟨_, rfl⟩
    · -- no queued index names a node: the round pushes nothing
      have hW1 : WBound q0 d (0 + 1) q.dirtyNodes := fun n hn nd hnd => by
        have := (hW n hn nd hnd).2; omega
      obtain ⟨hP, hE⟩ := foldl_parents q0 h0 hr d hd cur margin first 0 q.dirtyNodes
        (({ q with dirtyNodes := [] } : Q K), [], num) (e.trans (topoEq_dirtyList q [])) hW1
        (fun n hn => by simp at hn) (fun p hp => by simp at hp)
      have hempty : (refitRound cur margin first q num).1.dirtyNodes = [] := by
        unfold refitRound
        simp only
        cases hl : (q.dirtyNodes.foldl (refitNode cur margin first) (({ q with dirtyNodes := [] } : Q K), [], num)).2.1 with
        | nil => rfl
        | cons p ps =>
          exfalso
          obtain ⟨nd, hnd⟩ := hE p (by rw [hl]; simp)
          have := (hP p (by rw [hl]; simp) nd hnd).2
          omega
      cases f with
      | zero => unfold refitLoop; simp [hempty]
      | succ f => unfold refitLoop; simp [hempty]
  | succ k ih =>
    intro fuel first q num hf e hW
    obtain ⟨f, rfl⟩ : ∃ f, fuel = f + 1 := ⟨fuel - 1, by omega⟩
    unfold refitLoop
    split
    · exact ⟨_, rfl⟩
    · obtain ⟨hP, _⟩ := foldl_parents q0 h0 hr d hd cur margin first k q.dirtyNodes
        (({ q with dirtyNodes := [] } : Q K), [], num) (e.trans (topoEq_dirtyList q [])) hW
        (fun n hn => by simp at hn) (fun p hp => by simp at hp)
      apply ih f false _ _ (by omega) (e.trans (topoEq_refitRound cur margin first q num))
      unfold refitRound
      exact hP

theorem wbound_exists (q : Q K) (d : Nat → Nat) (W : List Nat)
    (hl : ∀ n ∈ W, ∀ nd : Node K, q.nodes[n]? = some nd → Live q n) : ∃ k, WBound q d k W := by
  induction W with
  | nil => exact ⟨0, fun n hn => by simp at hn⟩
  | cons x xs ih =>
    obtain ⟨k, hk⟩ := ih (fun n hn => hl n (List.mem_cons_of_mem _ hn))
    refine ⟨k + d x + 1, ?_⟩
    intro n hn nd hnd
    simp only [List.mem_cons] at hn
    rcases hn with rfl | hn
    · exact ⟨hl n List.mem_cons_self nd hnd, by omega⟩
    · obtain ⟨a, b⟩ := hk n hn nd hnd; exact ⟨a, by omega⟩

/-- **`refit` terminates**: on a state satisfying `Inv` whose root has an out-of-range parent index and whose queued
indices name live nodes, the double work-list loop finishes for every sufficiently large fuel (each pass moves one
level towards the root) -/
theorem refitLoop_terminates (q : Q K) (h : Inv q) (hr : RootParentInvalid q)
    (hl : ∀ n ∈ q.dirtyNodes, ∀ nd : Node K, q.nodes[n]? = some nd → Live q n)
    (cur : Nat → Aabb3 K) (margin : K) :
    ∃ fuel0 : Nat, ∀ (fuel : Nat), fuel0 ≤ fuel → ∀ (first : Bool) (num : Nat),
      ∃ r : Q K × Nat, refitLoop cur margin fuel first q num = some r := by
  obtain ⟨d, _, hd⟩ := h.depth
  obtain ⟨k, hk⟩ := wbound_exists q d q.dirtyNodes hl
  exact ⟨k + 1, fun fuel hf first num =>
    refitLoop_terminates_aux q h hr d hd cur margin k fuel first q num (by omega) (TopoEq.refl q) hk⟩

/-- a live node of depth `k` has `k + 1` distinct ancestors-or-self, all of them node indices -/
theorem ancestors_list (q : Q K) (h : Inv q) (d : Nat → Nat) (hd0 : d 0 = 0)
    (hd : ∀ (n : Nat) (nd : Node K), q.nodes[n]? = some nd → Live q n → n ≠ 0 → d n = d nd.parent + 1) :
    ∀ (k n : Nat) (nd : Node K), q.nodes[n]? = some nd → Live q n → d n = k →
      ∃ l : List Nat, l.length = k + 1 ∧ l.Nodup ∧ ∀ x ∈ l, x < q.nodes.size ∧ d x ≤ k := by
  intro k
  induction k with
  | zero =>
    intro n nd hn _ hk
    exact ⟨[n], rfl, List.nodup_singleton n, fun x hx => by
      simp only [List.mem_singleton] at hx; subst hx
      exact ⟨(Array.getElem?_eq_some_iff.mp hn).1, by omega⟩⟩
  | succ k ih =>
    intro n nd hn hlive hk
    have hn0 : n ≠ 0 := by intro e; subst e; omega
    obtain ⟨plive, pn, hpn, _, _⟩ := h.par n nd hn hlive hn0
    have hdp : d nd.parent = k := by have := hd n nd hn hlive hn0; omega
    obtain ⟨l, hlen, hnd, hall⟩ := ih nd.parent pn hpn plive hdp
    refine ⟨n :: l, by simp [hlen], List.nodup_cons.2 ⟨?_, hnd⟩, ?_⟩
    · intro hmem; have := (hall n hmem).2; omega
    · intro x hx
      simp only [List.mem_cons] at hx
      rcases hx with rfl | hx
      · exact ⟨(Array.getElem?_eq_some_iff.mp hn).1, by omega⟩
      · obtain ⟨a, b⟩ := hall x hx; exact ⟨a, by omega⟩

/-- pigeonhole: the depth of a live node is smaller than the number of nodes -/
theorem depth_lt_size (q : Q K) (h : Inv q) (d : Nat → Nat) (hd0 : d 0 = 0)
    (hd : ∀ (n : Nat) (nd : Node K), q.nodes[n]? = some nd → Live q n → n ≠ 0 → d n = d nd.parent + 1)
    (n : Nat) (nd : Node K) (hn : q.nodes[n]? = some nd) (hlive : Live q n) : d n < q.nodes.size := by
  obtain ⟨l, hlen, hnodup, hall⟩ := ancestors_list q h d hd0 hd (d n) n nd hn hlive rfl
  have hsub : l ⊆ List.range q.nodes.size := fun x hx => List.mem_range.2 (hall x hx).1
  have := (List.subperm_of_subset hnodup hsub).length_le
  simp only [List.length_range] at this
  omega

/-- **the model's own fuel suffices**: `refit` (fuel `nodes.len() + 2`) returns on every state satisfying `Inv` whose
root has the invalid parent index and whose queued indices name live nodes -/
theorem refit_total (q : Q K) (h : Inv q) (hr : RootParentInvalid q)
    (hl : ∀ n ∈ q.dirtyNodes, ∀ nd : Node K, q.nodes[n]? = some nd → Live q n)
    (cur : Nat → Aabb3 K) (margin : K) : ∃ r : Q K × Nat, refit q cur margin = some r := by
  obtain ⟨d, hd0, hd⟩ := h.depth
  have hk : WBound q d q.nodes.size q.dirtyNodes := fun n hn nd hnd =>
    ⟨hl n hn nd hnd, depth_lt_size q h d hd0 hd n nd hnd (hl n hn nd hnd)⟩
  obtain ⟨r0, h0⟩ := refitLoop_terminates_aux q h hr d hd cur margin q.nodes.size (q.nodes.size + 2) true q 0 (by omega)
    (TopoEq.refl q) hk
  refine ⟨(syncRootAabb r0.1, r0.2), ?_⟩
  unfold refit refitPinned
  rw [h0]; rfl

attribute [local irreducible] splitNodes

/-- the two bookkeeping facts behind totality: the root carries `NodeIndex::invalid()` as parent, nothing is on the
free list (the free list is only filled by `rebalance`) -/
structure Aux (q : Q K) : Prop where
  rootPar : ∀ r : Node K, q.nodes[0]? = some r → r.parent = MAXN
  noFree : q.freeList = []

theorem Aux.rootInvalid {q : Q K} (a : Aux q) (h : Inv q) : RootParentInvalid q := by
  intro r hr
  rw [a.rootPar r hr]
  exact Array.getElem?_eq_none (by have := h.small; omega)

theorem Aux.live {q : Q K} (a : Aux q) (n : Nat) : Live q n := by simp [Live, a.noFree]

theorem aux_of_node0 (q q' : Q K) (a : Aux q) (hf : q'.freeList = q.freeList)
    (h0 : ∀ r' : Node K, q'.nodes[0]? = some r' → (∃ r : Node K, q.nodes[0]? = some r ∧ r'.parent = r.parent) ∨ r'.parent = MAXN) :
    Aux q' := by
  refine ⟨?_, by rw [hf]; exact a.noFree⟩
  intro r' hr'
  rcases h0 r' hr' with ⟨r, hr, e⟩ | e
  · rw [e]; exact a.rootPar r hr
  · exact e

theorem aux_of_topoEq {q q' : Q K} (a : Aux q) (e : TopoEq q q') : Aux q' :=
  aux_of_node0 q q' a e.free (fun r' hr' => by
    obtain ⟨r, hr, _, hp, _⟩ := e.node 0 r' hr'
    exact Or.inl ⟨r, hr, hp⟩)

theorem aux_empty : Aux (Q.empty : Q K) := ⟨fun r hr => by simp [Q.empty] at hr, rfl⟩

theorem aux_remove (q q' : Q K) (id : Nat) (b : Bool) (a : Aux q) (hr : remove q id = some (q', b)) : Aux q' := by
  unfold remove at hr
  split at hr
  · cases hr; exact a
  · rename_i pr hpr
    split at hr
    · cases hr; exact a
    · rename_i nd hnd
      split at hr
      · cases hr
        refine aux_of_node0 q _ a ?_ ?_
        · rfl
        intro r' hr'
        simp only [Array.getElem?_setIfInBounds] at hr'
        split at hr'
        · rename_i e
          split at hr'
          · cases hr'; left; exact ⟨nd, by rw [← e]; exact hnd, rfl⟩
          · cases hr'
        · exact Or.inl ⟨r', hr', rfl⟩
      · cases hr

theorem aux_ensureRoot (q : Q K) (a : Aux q) : Aux (ensureRoot q) := by
  unfold ensureRoot
  split
  · refine aux_of_node0 q _ a ?_ ?_
    · rfl
    intro r' hr'
    simp at hr'; subst hr'; right; rfl
  · exact a

theorem aux_ensureProxy (q : Q K) (id : Nat) (a : Aux q) : Aux (ensureProxy q id) := by
  apply aux_of_node0 q _ a
  · unfold ensureProxy; simp only; split <;> rfl
  · intro r' hr'
    rw [ensureProxy_nodes] at hr'
    exact Or.inl ⟨r', hr', rfl⟩

theorem aux_addRootLeaf (q : Q K) (root : Node K) (ii : Nat) (a : Aux q) (hroot : q.nodes[0]? = some root) :
    Aux (addRootLeaf q root ii) := by
  have hpos : 0 < q.nodes.size := (Array.getElem?_eq_some_iff.mp hroot).1
  refine aux_of_node0 q _ a ?_ ?_
  · rfl
  intro r' hr'
  unfold addRootLeaf at hr'
  simp only [Array.getElem?_setIfInBounds, Array.size_push] at hr'
  simp at hr'
  subst hr'
  exact Or.inl ⟨root, hroot, rfl⟩

theorem aux_attachProxy (q : Q K) (id child kk : Nat) (cn : Node K) (a : Aux q) (hcn : q.nodes[child]? = some cn) :
    Aux (attachProxy q id child kk cn) := by
  refine aux_of_node0 q _ a ?_ ?_
  · rfl
  intro r' hr'
  unfold attachProxy at hr'
  simp only [Array.getElem?_setIfInBounds] at hr'
  split at hr'
  · rename_i e
    split at hr'
    · cases hr'; left; exact ⟨cn, by rw [← e]; exact hcn, rfl⟩
    · cases hr'
  · exact Or.inl ⟨r', hr', rfl⟩

theorem aux_attachLoop (id : Nat) (lanes : List Nat) :
    ∀ (q q' : Q K) (b : Bool), Aux q → attachLoop id lanes q = some (q', b) → Aux q' := by
  induction lanes with
  | nil => intro q q' b a h; simp only [attachLoop, Option.some.injEq, Prod.mk.injEq] at h; rw [← h.1]; exact a
  | cons ii rest ih =>
    intro q q' b a h
    unfold attachLoop at h
    split at h
    · cases h
    · split at h
      · cases h
      · rename_i _ root hroot _ child0 hchild0
        have a1 : Aux (if child0 = MAXN then addRootLeaf q root ii else q) := by
          split
          · exact aux_addRootLeaf q root ii a hroot
          · exact a
        simp only at h
        split at h
        · cases h
        · rename_i cn hcn
          split at h
          · exact ih _ _ _ a1 h
          · split at h
            · exact ih _ _ _ a1 h
            · simp only [Option.some.injEq, Prod.mk.injEq] at h
              rw [← h.1]
              exact aux_attachProxy _ id _ _ cn a1 hcn

theorem aux_splitRoot (fixRoot : Bool) (q q' : Q K) (id : Nat) (a : Aux q) (h : Inv q)
    (hs : splitRoot fixRoot q id = some q') : Aux q' := by
  unfold splitRoot at hs
  split at hs
  · cases hs
  · rename_i root hroot
    obtain ⟨_, _, _, h00⟩ := root_facts q root h hroot
    have v := splitView q root id hroot h00
    have a1 : ∀ q1 : Q K, splitRootPinned q id = some q1 → Aux q1 := by
      intro q1 h1
      unfold splitRootPinned at h1
      simp only [hroot, Option.some.injEq] at h1
      subst h1
      refine aux_of_node0 q _ a ?_ ?_
      · rfl
      intro r' hr'
      have : (splitNodes q root id)[0]? = some r' := hr'
      rw [v.g0] at this; cases this
      exact Or.inl ⟨root, hroot, rfl⟩
    cases hp : splitRootPinned q id with
    | none => rw [hp] at hs; cases hs
    | some q1 =>
      rw [hp] at hs
      simp only [Option.map_some, Option.some.injEq] at hs
      subst hs
      split
      · exact aux_of_topoEq (a1 q1 hp) (topoEq_scheduleRoot _ _ _)
      · exact a1 q1 hp

theorem aux_preUpdateOrInsert (fixRoot : Bool) (q q' : Q K) (id : Nat) (a : Aux q) (h : Inv q) (hid : id < MAXN)
    (hsz : q.nodes.size + 8 ≤ MAXN) (hq : preUpdateOrInsert fixRoot q id = some q') : Aux q' := by
  have a1 : Aux (ensureProxy (ensureRoot q) id) := aux_ensureProxy _ id (aux_ensureRoot q a)
  have h1 : Inv (ensureProxy (ensureRoot q) id) := inv_ensureProxy _ id (inv_ensureRoot q h) hid
  obtain ⟨hpos, hle⟩ := ensureRoot_size q
  have hnodes := ensureProxy_nodes (ensureRoot q) id
  obtain ⟨pr, hpr⟩ := ensureProxy_get (ensureRoot q) id
  unfold preUpdateOrInsert at hq
  simp only [hpr] at hq
  by_cases hdet : pr.node = MAXN
  · simp only [hdet, if_true] at hq
    obtain ⟨q2, b, e1, e2, e3, e4⟩ := inv_attachLoop id pr [0, 1, 2, 3] _ h1 hpr hdet (by simp)
      (by rw [hnodes]; exact hpos) (by rw [hnodes]; simp; omega)
    have a2 := aux_attachLoop id _ _ _ _ a1 e1
    rw [e1] at hq
    cases b with
    | true => simp only [Option.some.injEq] at hq; rw [← hq]; exact a2
    | false => simp only at hq; exact aux_splitRoot fixRoot q2 q' id a2 e2 hq
  · simp only [hdet, if_false] at hq
    obtain ⟨_, nd, hnd, _, _⟩ := h1.proxyLeaf id pr hpr hdet
    simp only [hnd] at hq
    split at hq
    · simp only [Option.some.injEq] at hq; rw [← hq]; exact a1
    · simp only [Option.some.injEq] at hq; rw [← hq]
      exact aux_of_topoEq a1 (topoEq_markDirty _ _ _ hnd)

end C08
