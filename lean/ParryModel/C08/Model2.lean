import ParryModel.C08.Model
/-!
# C08 model, part 2: `clear_and_rebuild` (`build.rs`, `utils.rs`) and `rebalance` (`update.rs`)

Literal transliteration, same conventions as `Model.lean`: every Rust `v[i]` is `a[i]?` with an explicit panic branch
(`none`), `Vec`s used as stacks (`free_list`) are lists whose head is the top, the three parallel workspace vectors
`orig_ids` / `aabbs` / `is_leaf` of `rebalance` are one array of triples.  Index slices (`&mut [usize]`) are `Array Nat`:
`split_indices_wrt_dim` permutes the slice in place and returns the two halves, and the caller never looks at the
unsplit slice again, so returning the two halves as fresh arrays loses nothing.

The recursive builders take fuel; `ParryModel/C08/Theorems2.lean` proves that fuel = number of indices suffices
(every recursive call is on a strictly shorter slice — `multiple_identical_aabb_stack_overflow`).
-/
namespace Model
namespace Qbvh
variable {K : Type} [Num K]

/-! ## `SimdAabb` / `Aabb` primitives -/

/-- one lane of `SimdAabb::dilate_by_factor(factor)`: `is_valid = mins.x <= maxs.x`; `factor = select(is_valid, factor, 0)`;
`dilation = maxs * factor - mins * factor; mins -= dilation; maxs += dilation` -/
def dilateBox (f : K) (b : Aabb3 K) : Aabb3 K :=
  let f' : K := if b.mins.x ≤ b.maxs.x then f else 0
  let dx := b.maxs.x * f' - b.mins.x * f'
  let dy := b.maxs.y * f' - b.mins.y * f'
  let dz := b.maxs.z * f' - b.mins.z * f'
  ⟨⟨b.mins.x - dx, b.mins.y - dy, b.mins.z - dz⟩, ⟨b.maxs.x + dx, b.maxs.y + dy, b.maxs.z + dz⟩⟩

/-- `Aabb::merge` (`mins.inf`, `maxs.sup`) -/
def mergeBox (a b : Aabb3 K) : Aabb3 K := ⟨a.mins.inf b.mins, a.maxs.sup b.maxs⟩

/-- `n as Real` -/
def ofNat (n : Nat) : K := lit (n : Int) 1

/-! ## the centre / variance computation shared by both recursive builders -/

/-- `for i in indices { center += aabbs[i].center().coords * center_denom }`; `none` = index panic -/
def centerLoop (aabbs : Array (Aabb3 K)) (denom : K) : List Nat → V3 K → Option (V3 K)
  | [], c => some c
  | i :: rest, c =>
    match aabbs[i]? with
    | none => none
    | some b => centerLoop aabbs denom rest (c.add (b.center.smul denom))

/-- `for i in indices { let d = aabbs[i].center() - center; variance += d.component_mul(&d) * variance_denom }` -/
def varianceLoop (aabbs : Array (Aabb3 K)) (center : V3 K) (denom : K) : List Nat → V3 K → Option (V3 K)
  | [], v => some v
  | i :: rest, v =>
    match aabbs[i]? with
    | none => none
    | some b =>
      let d := b.center.sub center
      varianceLoop aabbs center denom rest (v.add ((d.cmul d).smul denom))

/-- nalgebra `Vector3::imin` (`argmin`: strict `<`, first minimum wins) -/
def imin3 (v : V3 K) : Nat :=
  let i1 : Nat := if v.y < v.x then 1 else 0
  let m1 : K := if v.y < v.x then v.y else v.x
  if v.z < m1 then 2 else i1

/-- centre of the centres and the two subdivision axes `[(min+1)%3, (min+2)%3]` where `min` is the axis of least
variance; `none` = index panic -/
def centerDims (aabbs : Array (Aabb3 K)) (indices : Array Nat) : Option (V3 K × Nat × Nat) :=
  let cden : K := (1 : K) / ofNat indices.size
  match centerLoop aabbs cden indices.toList V3.zero with
  | none => none
  | some center =>
    let vden : K := (1 : K) / ofNat (indices.size - 1)
    match varianceLoop aabbs center vden indices.toList V3.zero with
    | none => none
    | some variance =>
      let m := imin3 variance
      some (center, (m + 1) % 3, (m + 2) % 3)

/-! ## `split_indices_wrt_dim` and `CenterDataSplitter::split_dataset_wo_workspace` -/

/-- the `for _ in 0..indices.len()` loop: `(indices, icurr)` after `k` more iterations; `none` = index panic -/
def splitLoop (aabbs : Array (Aabb3 K)) (sp : V3 K) (dim : Nat) : Nat → Array Nat → Nat → Nat → Option (Array Nat × Nat)
  | 0, a, icurr, _ => some (a, icurr)
  | k + 1, a, icurr, ilast =>
    match a[icurr]? with
    | none => none
    | some i =>
      match aabbs[i]? with
      | none => none
      | some b =>
        if sp.get dim < b.center.get dim then
          splitLoop aabbs sp dim k (a.swapIfInBounds icurr (ilast - 1)) icurr (ilast - 1)
        else splitLoop aabbs sp dim k a (icurr + 1) ilast

/-- `split_indices_wrt_dim(indices, aabbs, split_point, dim, enable_fallback_split)` → the two halves -/
def splitWrtDim (aabbs : Array (Aabb3 K)) (sp : V3 K) (dim : Nat) (fallback : Bool) (indices : Array Nat) :
    Option (Array Nat × Array Nat) :=
  match splitLoop aabbs sp dim indices.size indices 0 indices.size with
  | none => none
  | some (a, icurr) =>
    let cut := if fallback && (icurr == 0 || icurr == a.size) then a.size / 2 else icurr
    some (a.extract 0 cut, a.extract cut a.size)

/-- `CenterDataSplitter::split_dataset_wo_workspace` → `[left_bottom, left_top, right_bottom, right_top]` -/
def splitDataset (aabbs : Array (Aabb3 K)) (fallback : Bool) (d0 d1 : Nat) (center : V3 K) (indices : Array Nat) :
    Option (Array Nat × Array Nat × Array Nat × Array Nat) :=
  match splitWrtDim aabbs center d0 fallback indices with
  | none => none
  | some (left, right) =>
    match splitWrtDim aabbs center d1 fallback left with
    | none => none
    | some (lb, lt) =>
      match splitWrtDim aabbs center d1 fallback right with
      | none => none
      | some (rb, rt) => some (lb, lt, rb, rt)

/-! ## `Qbvh::clear_and_rebuild` -/

/-- leaf case of `do_recurse_build_generic`: the `for (k, id) in indices.iter().enumerate()` loop.
State: lane boxes, lane ids, proxies. -/
def buildLeafLoop (aabbs : Array (Aabb3 K)) (myId : Nat) :
    List Nat → Nat → Vector (Aabb3 K) 4 × Vector Nat 4 × Array Proxy → Option (Vector (Aabb3 K) 4 × Vector Nat 4 × Array Proxy)
  | [], _, st => some st
  | id :: rest, k, (bx, ids, ps) =>
    match aabbs[id]?, ps[id]? with
    | some b, some pr =>
      if k < 4 then
        buildLeafLoop aabbs myId rest (k + 1)
          (bx.setIfInBounds k b, ids.setIfInBounds k id, ps.setIfInBounds id { pr with node := myId, lane := k })
      else none
    | _, _ => none

/-- `do_recurse_build_generic` with `CenterDataSplitter { enable_fallback_split: true }`.
Returns the tree, the id of the node built and its merged box; `none` = index panic or fuel exhausted. -/
def buildRec (aabbs : Array (Aabb3 K)) (dil : K) : Nat → Q K → Array Nat → Nat → Nat → Option (Q K × Nat × Aabb3 K)
  | fuel, q, indices, par, plane =>
    if indices.size ≤ 4 then
      let myId := q.nodes.size
      match buildLeafLoop aabbs myId indices.toList 0 (Vector.replicate 4 invalidBox, Vector.replicate 4 MAXN, q.proxies) with
      | none => none
      | some (bx, ids, ps) =>
        let node : Node K := ⟨bx.map (dilateBox dil), ids, par, plane, true, false, false⟩
        some ({ q with nodes := q.nodes.push node, proxies := ps }, myId, mergedBox node.boxes)
    else
      match fuel with
      | 0 => none
      | fuel + 1 =>
        match centerDims aabbs indices with
        | none => none
        | some (center, d0, d1) =>
          let id := q.nodes.size
          let node : Node K := ⟨Vector.replicate 4 invalidBox, Vector.replicate 4 0, par, plane, false, false, false⟩
          let q0 : Q K := { q with nodes := q.nodes.push node }
          match splitDataset aabbs true d0 d1 center indices with
          | none => none
          | some (s0, s1, s2, s3) =>
            match buildRec aabbs dil fuel q0 s0 id 0 with
            | none => none
            | some (q1, c0, b0) =>
              match buildRec aabbs dil fuel q1 s1 id 1 with
              | none => none
              | some (q2, c1, b1) =>
                match buildRec aabbs dil fuel q2 s2 id 2 with
                | none => none
                | some (q3, c2, b2) =>
                  match buildRec aabbs dil fuel q3 s3 id 3 with
                  | none => none
                  | some (q4, c3, b3) =>
                    match q4.nodes[id]? with
                    | none => none
                    | some nd =>
                      let boxes : Vector (Aabb3 K) 4 := (#v[b0, b1, b2, b3] : Vector (Aabb3 K) 4).map (dilateBox dil)
                      let nd' : Node K := { nd with children := #v[c0, c1, c2, c3], boxes := boxes }
                      some ({ q4 with nodes := q4.nodes.setIfInBounds id nd' }, id, mergedBox boxes)

/-- the `data_gen.for_each` loop of `clear_and_rebuild_with_splitter`: proxies, aabbs, indices (in push order) -/
def fillProxies : List (Nat × Aabb3 K) → Array Proxy × Array (Aabb3 K) × Array Nat → Array Proxy × Array (Aabb3 K) × Array Nat
  | [], st => st
  | (index, box) :: rest, (ps, bs, ix) =>
    let ps1 := if ps.size ≤ index then ps ++ Array.replicate (index + 1 - ps.size) invalidProxy else ps
    let bs1 := if ps.size ≤ index then bs ++ Array.replicate (index + 1 - bs.size) invalidBox else bs
    let ps2 := match ps1[index]? with
      | some pr => ps1.setIfInBounds index { pr with data := index }
      | none => ps1
    fillProxies rest (ps2, bs1.setIfInBounds index box, ix.push index)

/-- `Qbvh::clear_and_rebuild(data_gen, dilation_factor)` (`CenterDataSplitter::default()`).
`dirty_nodes` is left as it is (the Rust function does not touch it). -/
def rebuild (q : Q K) (items : List (Nat × Aabb3 K)) (dil : K) : Option (Q K) :=
  let n := items.length
  let (ps, aabbs, indices) := fillProxies items (Array.replicate n invalidProxy, Array.replicate n invalidBox, #[])
  let root : Node K := ⟨Vector.replicate 4 invalidBox, #v[1, MAXN, MAXN, MAXN], MAXN, 0, false, false, false⟩
  let q0 : Q K := { q with freeList := [], nodes := #[root], proxies := ps }
  match buildRec aabbs dil indices.size q0 indices 0 0 with
  | none => none
  | some (q1, _, aabb) =>
    match q1.nodes[0]? with
    | none => none
    | some r =>
      some { q1 with rootAabb := aabb,
                     nodes := q1.nodes.setIfInBounds 0 { r with boxes := #v[aabb, invalidBox, invalidBox, invalidBox] } }

/-! ## `Qbvh::rebalance` -/

/-- `MIN_CHANGED_DEPTH` -/
def MIN_CHANGED_DEPTH : Nat := 5
/-- `FULL_REBUILD_DEPTH` -/
def FULL_REBUILD_DEPTH : Nat := 15

/-- one entry of the rebalancing workspace: `orig_ids[i]`, `aabbs[i]`, `is_leaf[i]` -/
structure WsItem (K : Type) where
  orig : Nat
  box : Aabb3 K
  isLeaf : Bool

/-- state of the collection pass: `free_list` (head = top) and the workspace entries in **reverse** push order -/
structure Coll (K : Type) where
  free : List Nat
  items : List (WsItem K)

/-- result of the collection pass -/
inductive CollRes (K : Type) where
  | ok (c : Coll K)
  /-- `force_full_rebuild = true; break` -/
  | force
  /-- `self.nodes[id]` out of bounds -/
  | panic

/-- the proxies of a leaf: `for ii in 0..SIMD_WIDTH { if children[ii] < proxies.len() { push … } }` -/
def collectLeafLanes (np : Nat) (nd : Node K) (items : List (WsItem K)) : List (WsItem K) :=
  [0, 1, 2, 3].foldl (fun acc ii =>
    match nd.children[ii]?, nd.boxes[ii]? with
    | some p, some b => if p < np then ⟨p, b, true⟩ :: acc else acc
    | _, _ => acc) items

/-- The collection pass `while let Some((id, depth)) = workspace.stack.pop()`, written as the depth-first recursion it
performs: the stack is LIFO and the children are pushed in lane order, so after a node its children are processed in the
order lane 3, 2, 1, 0, each with its whole subtree.  `budget = FULL_REBUILD_DEPTH + 1 - depth`: `budget = 0` is
`depth > FULL_REBUILD_DEPTH` (the `break`; the state collected so far is discarded by the caller, which is why `force`
carries none).  The recursion is structural on the code's own depth cap. -/
def collectNode (q : Q K) : Nat → Nat → Coll K → CollRes K
  | 0, _, _ => .force
  | budget + 1, id, c =>
    let depth := FULL_REBUILD_DEPTH + 1 - (budget + 1)
    match q.nodes[id]? with
    | none => .panic
    | some nd =>
      if nd.leaf then
        .ok ⟨id :: c.free, collectLeafLanes q.proxies.size nd c.items⟩
      else if nd.changed || depth < MIN_CHANGED_DEPTH then
        [3, 2, 1, 0].foldl (fun (r : CollRes K) l =>
          match r with
          | .ok c' =>
            match nd.children[l]? with
            | some ch => if ch < q.nodes.size then collectNode q budget ch c' else .ok c'
            | none => .ok c'
          | other => other) (.ok ⟨id :: c.free, c.items⟩)
      else
        .ok ⟨c.free, ⟨id, mergedBox nd.boxes, false⟩ :: c.items⟩

/-- the whole collection pass from the root's children (pushed in lane order at depth 1, popped in reverse) -/
def collectAll (q : Q K) (root : Node K) : CollRes K :=
  [3, 2, 1, 0].foldl (fun (r : CollRes K) l =>
    match r with
    | .ok c' =>
      match root.children[l]? with
      | some ch => if ch < q.nodes.size then collectNode q FULL_REBUILD_DEPTH ch c' else .ok c'
      | none => .ok c'
    | other => other) (.ok ⟨q.freeList, []⟩)

/-- `self.free_list.pop().unwrap_or_else(|| { self.nodes.push(QbvhNode::empty()); self.nodes.len() as u32 - 1 })` -/
def allocNode (q : Q K) : Q K × Nat :=
  match q.freeList with
  | n :: rest => ({ q with freeList := rest }, n)
  | [] => ({ q with nodes := q.nodes.push emptyNode }, q.nodes.size)

/-- accumulator of the leaf case of `do_recurse_rebalance` -/
structure LeafAcc (K : Type) where
  q : Q K
  leafAabb : Aabb3 K
  internalAabb : Aabb3 K
  leafBoxes : Vector (Aabb3 K) 4
  internalBoxes : Vector (Aabb3 K) 4
  proxyIds : Vector Nat 4
  internalIds : Vector Nat 4
  laneWithLeaf : Nat

/-- the `for (k, id) in indices.iter().enumerate()` loop of the leaf case; `none` = index panic -/
def rebalLeafLoop (ws : Array (WsItem K)) (myLeaf myInternal : Nat) : List Nat → Nat → LeafAcc K → Option (LeafAcc K)
  | [], _, a => some a
  | id :: rest, k, a =>
    match ws[id]? with
    | none => none
    | some it =>
      if k < 4 then
        if it.isLeaf then
          match a.q.proxies[it.orig]? with
          | none => none
          | some pr =>
            rebalLeafLoop ws myLeaf myInternal rest (k + 1)
              { a with laneWithLeaf := k, leafAabb := mergeBox a.leafAabb it.box,
                       leafBoxes := a.leafBoxes.setIfInBounds k it.box,
                       proxyIds := a.proxyIds.setIfInBounds k it.orig,
                       q := { a.q with proxies := a.q.proxies.setIfInBounds it.orig { pr with node := myLeaf, lane := k } } }
        else
          match a.q.nodes[it.orig]? with
          | none => none
          | some cn =>
            rebalLeafLoop ws myLeaf myInternal rest (k + 1)
              { a with internalAabb := mergeBox a.internalAabb it.box,
                       internalBoxes := a.internalBoxes.setIfInBounds k it.box,
                       internalIds := a.internalIds.setIfInBounds k it.orig,
                       q := { a.q with nodes := a.q.nodes.setIfInBounds it.orig { cn with parent := myInternal, plane := k } } }
      else none

/-- `self.nodes[i] = node` (panics when out of bounds) -/
def writeNode (q : Q K) (i : Nat) (nd : Node K) : Option (Q K) :=
  if i < q.nodes.size then some { q with nodes := q.nodes.setIfInBounds i nd } else none

/-- `has_leaf` / `has_internal` of the leaf case; `none` = index panic (`workspace.is_leaf[*id]`) -/
def leafFlags (ws : Array (WsItem K)) : List Nat → Bool × Bool → Option (Bool × Bool)
  | [], r => some r
  | id :: rest, (hl, hi) =>
    match ws[id]? with
    | none => none
    | some it => leafFlags ws rest (hl || it.isLeaf, hi || !it.isLeaf)

/-- leaf case of `do_recurse_rebalance` (`indices.len() <= 4`) -/
def rebalLeaf (ws : Array (WsItem K)) (q : Q K) (indices : Array Nat) (par plane : Nat) : Option (Q K × Nat × Aabb3 K) :=
  match leafFlags ws indices.toList (false, false) with
  | none => none
  | some (hasLeaf, hasInternal) =>
    let (qa, myInternal) := if hasInternal then allocNode q else (q, MAXN)
    let (qb, myLeaf) := if hasLeaf then allocNode qa else (qa, MAXN)
    let acc0 : LeafAcc K := ⟨qb, invalidBox, invalidBox, Vector.replicate 4 invalidBox, Vector.replicate 4 invalidBox,
      Vector.replicate 4 MAXN, Vector.replicate 4 MAXN, MAXN⟩
    match rebalLeafLoop ws myLeaf myInternal indices.toList 0 acc0 with
    | none => none
    | some a =>
      -- `if has_internal { if has_leaf { … } … self.nodes[my_internal_id] = internal_node }`
      let internalIds := if hasLeaf then a.internalIds.setIfInBounds a.laneWithLeaf myLeaf else a.internalIds
      let internalBoxes := if hasLeaf then a.internalBoxes.setIfInBounds a.laneWithLeaf a.leafAabb else a.internalBoxes
      let internalAabb := if hasLeaf then mergeBox a.internalAabb a.leafAabb else a.internalAabb
      -- Rust indexes the fixed-size arrays with `new_internal_lane_containing_leaf`: in range whenever `has_leaf`
      if hasInternal && hasLeaf && !(a.laneWithLeaf < 4) then none else
      let q1? := if hasInternal then
          writeNode a.q myInternal ⟨internalBoxes, internalIds, par, plane, false, false, false⟩
        else some a.q
      match q1? with
      | none => none
      | some q1 =>
        let q2? := if hasLeaf then
            writeNode q1 myLeaf ⟨a.leafBoxes, a.proxyIds, if hasInternal then myInternal else par,
              if hasInternal then a.laneWithLeaf else plane, true, false, false⟩
          else some q1
        match q2? with
        | none => none
        | some q2 =>
          if hasInternal then some (q2, myInternal, internalAabb) else some (q2, myLeaf, a.leafAabb)

/-- `if let Some(nid) = self.free_list.pop() { self.nodes[nid] = node; nid } else { self.nodes.push(node); len - 1 }` -/
def allocWrite (q : Q K) (node : Node K) : Option (Q K × Nat) :=
  match q.freeList with
  | nid :: rest => (writeNode { q with freeList := rest } nid node).map fun q' => (q', nid)
  | [] => some ({ q with nodes := q.nodes.push node }, q.nodes.size)

/-- `do_recurse_rebalance(indices, workspace, parent, margin)`; `none` = index panic or fuel exhausted -/
def rebalRec (ws : Array (WsItem K)) (margin : K) : Nat → Q K → Array Nat → Nat → Nat → Option (Q K × Nat × Aabb3 K)
  | fuel, q, indices, par, plane =>
    if indices.size ≤ 4 then rebalLeaf ws q indices par plane
    else
      match fuel with
      | 0 => none
      | fuel + 1 =>
        let aabbs := ws.map (·.box)
        match centerDims aabbs indices with
        | none => none
        | some (center, d0, d1) =>
          let node : Node K := ⟨Vector.replicate 4 invalidBox, Vector.replicate 4 0, par, plane, false, false, false⟩
          match allocWrite q node with
          | none => none
          | some (q0, nid) =>
            match splitDataset aabbs true d0 d1 center indices with
            | none => none
            | some (s0, s1, s2, s3) =>
              match rebalRec ws margin fuel q0 s0 nid 0 with
              | none => none
              | some (q1, c0, b0) =>
                match rebalRec ws margin fuel q1 s1 nid 1 with
                | none => none
                | some (q2, c1, b1) =>
                  match rebalRec ws margin fuel q2 s2 nid 2 with
                  | none => none
                  | some (q3, c2, b2) =>
                    match rebalRec ws margin fuel q3 s3 nid 3 with
                    | none => none
                    | some (q4, c3, b3) =>
                      match q4.nodes[nid]? with
                      | none => none
                      | some nd =>
                        let boxes : Vector (Aabb3 K) 4 := (#v[b0, b1, b2, b3] : Vector (Aabb3 K) 4).map (loosenBox margin)
                        let nd' : Node K := { nd with children := #v[c0, c1, c2, c3], boxes := boxes }
                        some ({ q4 with nodes := q4.nodes.setIfInBounds nid nd' }, nid, mergedBox boxes)

/-- `self.proxies.iter().filter_map(|proxy| self.node_aabb(proxy.node).map(|aabb| (proxy.data, aabb)))`;
`none` = `extract(lane)` out of range -/
def allLeaves (q : Q K) : List Proxy → Option (List (Nat × Aabb3 K))
  | [] => some []
  | pr :: rest =>
    match q.nodes[pr.node]? with
    | none => allLeaves q rest
    | some nd =>
      match nd.boxes[pr.lane]? with
      | none => none
      | some b => (allLeaves q rest).map fun l => (pr.data, b) :: l

/-- `Qbvh::rebalance(margin, workspace)`; `none` = index panic -/
def rebalance (q : Q K) (margin : K) : Option (Q K) :=
  match q.nodes[0]? with
  | none => some q
  | some root =>
    match collectAll q root with
    | .panic => none
    | .force =>
      match allLeaves q q.proxies.toList with
      | none => none
      | some items => rebuild q items 0
    | .ok c =>
      let ws : Array (WsItem K) := c.items.reverse.toArray
      let indices : Array Nat := Array.range ws.size
      match rebalRec ws margin indices.size { q with freeList := c.free } indices 0 0 with
      | none => none
      | some (q1, id, aabb) =>
        if 0 < q1.nodes.size then
          some { q1 with rootAabb := aabb,
                         nodes := q1.nodes.setIfInBounds 0
                           ⟨#v[aabb, invalidBox, invalidBox, invalidBox], #v[id, MAXN, MAXN, MAXN], MAXN, 0, false, false, false⟩ }
        else none

/-! ## Histories with all five operations -/

/-- operations of a full history: the three of `Op` plus `rebalance(margin)` and `clear_and_rebuild(items, dilation)` -/
inductive Op2 (K : Type) where
  | base (op : Op K)
  | rebalance (margin : K)
  | rebuild (items : List (Nat × Aabb3 K)) (dil : K)

/-- the user's current leaf boxes after `clear_and_rebuild(items, _)`: every listed leaf gets the listed box -/
def curAfter (items : List (Nat × Aabb3 K)) (cur : Nat → Aabb3 K) : Nat → Aabb3 K :=
  items.foldl (fun c it d => if d = it.1 then it.2 else c d) cur

/-- one operation; `none` = panic or non-termination -/
def step2 (fixRoot : Bool) (w : World K) : Op2 K → Option (World K)
  | .base op => step fixRoot w op
  | .rebalance m => (rebalance w.q m).map fun q' => ⟨q', w.cur⟩
  | .rebuild items dil => (rebuild w.q items dil).map fun q' => ⟨q', curAfter items w.cur⟩

def run2 (fixRoot : Bool) : World K → List (Op2 K) → Option (World K)
  | w, [] => some w
  | w, op :: ops => match step2 fixRoot w op with
    | none => none
    | some w' => run2 fixRoot w' ops

end Qbvh
end Model
