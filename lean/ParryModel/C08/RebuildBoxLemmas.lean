import ParryModel.C08.RebuildLemmas
/-!
# C08: `clear_and_rebuild` establishes the box invariant (core Lean only; the order facts about `dilate_by_factor`
are collected in `DilateLaws`, proved for every linearly ordered field in `Theorems2.lean`)
-/
namespace C08
open Model Model.Qbvh
set_option linter.unusedSectionVars false
set_option linter.unusedVariables false
set_option linter.unusedSimpArgs false
variable {K : Type} [Num K]

/-- a box with `mins ≤ maxs` on every axis (degenerate boxes — points, flat boxes — included) -/
def ValidBox (b : Aabb3 K) : Prop := b.mins.x ≤ b.maxs.x ∧ b.mins.y ≤ b.maxs.y ∧ b.mins.z ≤ b.maxs.z

/-- valid, or exactly the sentinel `Aabb::new_invalid()` of an empty lane -/
def VoS (b : Aabb3 K) : Prop := ValidBox b ∨ b = invalidBox

/-- the facts about `dilate_by_factor(dil)` the argument needs, for a class `P` of boxes (the leaf boxes given, the
sentinel of empty lanes, and everything built from them): `dilate_by_factor` keeps `P` and enlarges, merging keeps `P`.
Instances (`FieldLemmas.lean`): `P` = "valid or the sentinel" for every factor `≥ 0`; `P` = all boxes for the factor `0`. -/
structure DilateLaws (K : Type) [Num K] (dil : K) (P : Aabb3 K → Prop) : Prop where
  step : ∀ b : Aabb3 K, P b → P (dilateBox dil b) ∧ boxContains (dilateBox dil b) b = true
  inv : P invalidBox
  merged : ∀ v : Vector (Aabb3 K) 4, (∀ (l : Nat) (b : Aabb3 K), v[l]? = some b → P b) → P (mergedBox v)

/-- the user's current box of every leaf of the slice is the (valid) box the builder reads, and the proxy carries its
own index as data -/
def CurOk (P : Aabb3 K → Prop) (aabbs : Array (Aabb3 K)) (cur : Nat → Aabb3 K) (q : Q K) (indices : Array Nat) : Prop :=
  ∀ x ∈ indices, ∃ (pr : Proxy) (b : Aabb3 K), q.proxies[x]? = some pr ∧ pr.data = x ∧ aabbs[x]? = some b ∧ cur x = b ∧ P b

/-- what a successful call guarantees about boxes -/
def BuildBox (P : Aabb3 K → Prop) (aabbs : Array (Aabb3 K)) (cur : Nat → Aabb3 K) (q : Q K) (indices : Array Nat) (par plane : Nat)
    (r : Q K × Nat × Aabb3 K) : Prop :=
  indices.toList.Nodup → CurOk P aabbs cur q indices → q.proxies.size ≤ MAXN → r.1.nodes.size ≤ MAXN →
    P r.2.2 ∧ (∀ nd : Node K, r.1.nodes[q.nodes.size]? = some nd → r.2.2 = mergedBox nd.boxes) ∧
    ∀ (n : Nat) (nd : Node K), q.nodes.size ≤ n → r.1.nodes[n]? = some nd → GoodNode r.1 cur nd

theorem map_get4 {α β} (f : α → β) (v : Vector α 4) (l : Nat) (y : β) (h : (v.map f)[l]? = some y) :
    ∃ x, v[l]? = some x ∧ y = f x := by
  rcases vec4_lane _ l y h with rfl | rfl | rfl | rfl <;> simp at h <;> exact ⟨_, by simp, h.symm⟩

/-- `GoodNode` of a subtree node survives later calls: they leave the subtree's nodes and proxies alone -/
theorem goodNode_frame {q q' : Q K} {N M par plane : Nat} {S : Nat → Prop} (cur : Nat → Aabb3 K)
    (sub : SubOk q N M par plane S)
    (hn : ∀ i, N ≤ i → i < M → q'.nodes[i]? = q.nodes[i]?) (hp : ∀ p, S p → q'.proxies[p]? = q.proxies[p]?)
    (hs : q.nodes.size ≤ q'.nodes.size) (hs' : q'.nodes.size ≤ MAXN)
    (hps : q.proxies.size ≤ MAXN) (hps' : q'.proxies.size ≤ MAXN)
    (n : Nat) (nd : Node K) (a : N ≤ n) (b : n < M) (hnd : q.nodes[n]? = some nd) (g : GoodNode q cur nd) :
    GoodNode q' cur nd := by
  unfold GoodNode at g ⊢
  rw [freshBoxes_congr q q' cur cur nd nd rfl rfl ?_ ?_]
  · exact g
  · intro hleaf l c hc
    by_cases hcm : c = MAXN
    · subst hcm
      rw [Array.getElem?_eq_none (by omega), Array.getElem?_eq_none (by omega)]
    · rw [hp c (sub.leafProxy n nd a b hnd hleaf l c hc hcm).1]
  · intro hleaf l c hc
    by_cases hcm : c = MAXN
    · subst hcm
      rw [Array.getElem?_eq_none (by omega), Array.getElem?_eq_none (by omega)]
    · obtain ⟨a1, a2, _⟩ := sub.child n nd a b hnd hleaf l c hc hcm
      rw [hn c (by omega) a2]

theorem buildRec_box (laws : BoxLaws K) (P : Aabb3 K → Prop) (aabbs : Array (Aabb3 K)) (dil : K) (d : DilateLaws K dil P) (cur : Nat → Aabb3 K)
    (fuel : Nat) (q : Q K) (indices : Array Nat) (par plane : Nat)
    (r : Q K × Nat × Aabb3 K) (h : buildRec aabbs dil fuel q indices par plane = some r) :
    BuildBox P aabbs cur q indices par plane r := by
  refine buildRec_induct aabbs dil (BuildBox P aabbs cur) ?_ ?_ fuel q indices par plane r h
  · -- leaf
    intro q indices par plane bx ids ps hsz hl hnd hcur hps _
    obtain ⟨h1, h2, h3, h4⟩ := buildLeafLoop_spec aabbs q.nodes.size indices.toList 0 _ _ _ _ _ _ hl hnd
    -- lane by lane: the box stored, the id stored, the proxy behind it
    have hlane : ∀ (l : Nat) (x : Aabb3 K) (c : Nat), bx[l]? = some x → ids[l]? = some c →
        P x ∧ boxContains (dilateBox dil x) (match ps[c]? with
          | some pr => cur pr.data
          | none => invalidBox) = true := by
      intro l x c hx hc
      by_cases hlt : l < indices.toList.length
      · obtain ⟨_, a2, ⟨b, a3, a3'⟩, pr, a4, a5⟩ := h4 l hlt
        simp only [Nat.zero_add] at a2 a3' a5
        rw [a2] at hc; cases hc
        rw [a3'] at hx; cases hx
        obtain ⟨pr0, b0, e1, e2, e3, e4, e5⟩ := hcur indices.toList[l] (by simpa using List.getElem_mem hlt)
        rw [a4] at e1; cases e1
        rw [a3] at e3; cases e3
        simp only [a5, e2, e4]
        exact ⟨e5, (d.step x e5).2⟩
      · obtain ⟨a1, a2⟩ := h3 l (Or.inr (by omega))
        rw [a1] at hc; rw [a2] at hx
        have hc' := replicate4_get _ _ _ hc
        have hx' := replicate4_get _ _ _ hx
        subst hc' hx'
        rw [Array.getElem?_eq_none (by omega)]
        exact ⟨d.inv, (d.step _ d.inv).2⟩
    have hN : ({ q with nodes := q.nodes.push (builtLeaf dil bx ids par plane), proxies := ps } : Q K).nodes[q.nodes.size]? =
        some (builtLeaf dil bx ids par plane) := by simp
    have hids : ∀ l, l < 4 → ∃ c, ids[l]? = some c := fun l hl => ⟨ids[l], by simp [hl]⟩
    refine ⟨?_, ?_, ?_⟩
    · apply d.merged
      intro l y hy
      obtain ⟨x, hx, rfl⟩ := map_get4 _ _ _ _ hy
      have hl4 : l < 4 := by rcases vec4_lane _ l x hx with rfl | rfl | rfl | rfl <;> omega
      obtain ⟨c, hc⟩ := hids l hl4
      exact (d.step x (hlane l x c hx hc).1).1
    · intro nd hnd'; rw [hN] at hnd'; cases hnd'; rfl
    · intro n nd a hn
      have hlt := (Array.getElem?_eq_some_iff.mp hn).1
      have : n = q.nodes.size := by simp at hlt; omega
      subst this
      rw [hN] at hn; cases hn
      unfold GoodNode
      apply containsAll_of_lanes
      intro l x y hx hy
      simp only [builtLeaf] at hx
      obtain ⟨x0, hx0, rfl⟩ := map_get4 _ _ _ _ hx
      simp only [freshBoxes, builtLeaf, if_true] at hy
      obtain ⟨c, hc, rfl⟩ := map_get4 _ _ _ _ hy
      exact (hlane l x0 c hx0 hc).2
  · -- four recursive calls
    intro q indices par plane center d0 d1 s0 s1 s2 s3 q1 q2 q3 q4 c0 c1 c2 c3 b0 b1 b2 b3 nd hsz hcd hsp
      p0 p1 p2 p3 ⟨g0, e0⟩ ⟨g1, e1⟩ ⟨g2, e2⟩ ⟨g3, e3⟩ hnd hnodup hcur hps hsmall
    have hrange : ∀ x ∈ indices, x < aabbs.size := by
      intro x hx
      obtain ⟨_, b, _, _, e, _⟩ := hcur x hx
      exact (Array.getElem?_eq_some_iff.mp e).1
    have f0 := buildRec_frame aabbs dil g0 _ _ _ _ _ e0
    have f1 := buildRec_frame aabbs dil g1 _ _ _ _ _ e1
    have f2 := buildRec_frame aabbs dil g2 _ _ _ _ _ e2
    have f3 := buildRec_frame aabbs dil g3 _ _ _ _ _ e3
    dsimp only at f0 f1 f2 f3
    have z0 := f0.lt; have z1 := f1.lt; have z2 := f2.lt; have z3 := f3.lt
    simp only [Array.size_push] at z0
    have hperm : (s0 ++ s1 ++ (s2 ++ s3)).Perm indices := by
      obtain ⟨t0, t1, t2, t3, e, pm, _⟩ := splitDataset_spec aabbs d0 d1 center indices hrange
      rw [hsp] at e
      simp only [Option.some.injEq, Prod.mk.injEq] at e
      obtain ⟨rfl, rfl, rfl, rfl⟩ := e
      exact pm
    have hnd4 : (s0 ++ s1 ++ (s2 ++ s3)).toList.Nodup := (Array.perm_iff_toList_perm.1 hperm).nodup_iff.2 hnodup
    simp only [Array.toList_append, List.nodup_append, List.mem_append, Array.mem_toList_iff] at hnd4
    obtain ⟨⟨n0, n1, d01⟩, ⟨n2, n3, d23⟩, dd⟩ := hnd4
    have hmem : ∀ x, x ∈ indices ↔ (x ∈ s0 ∨ x ∈ s1 ∨ x ∈ s2 ∨ x ∈ s3) := by
      intro x
      rw [← hperm.mem_iff]
      simp only [Array.mem_append, or_assoc]
    have r0 : ∀ x ∈ s0, x < aabbs.size := fun x hx => hrange x ((hmem x).2 (Or.inl hx))
    have r1 : ∀ x ∈ s1, x < aabbs.size := fun x hx => hrange x ((hmem x).2 (Or.inr (Or.inl hx)))
    have r2 : ∀ x ∈ s2, x < aabbs.size := fun x hx => hrange x ((hmem x).2 (Or.inr (Or.inr (Or.inl hx))))
    have r3 : ∀ x ∈ s3, x < aabbs.size := fun x hx => hrange x ((hmem x).2 (Or.inr (Or.inr (Or.inr hx))))
    obtain ⟨t0, u0, _⟩ := buildRec_sub aabbs dil g0 _ _ _ _ _ e0 n0 r0
    obtain ⟨t1, u1, _⟩ := buildRec_sub aabbs dil g1 _ _ _ _ _ e1 n1 r1
    obtain ⟨t2, u2, _⟩ := buildRec_sub aabbs dil g2 _ _ _ _ _ e2 n2 r2
    obtain ⟨t3, u3, _⟩ := buildRec_sub aabbs dil g3 _ _ _ _ _ e3 n3 r3
    dsimp only at t0 t1 t2 t3 u0 u1 u2 u3
    simp only [Array.size_push] at t0
    have x01 : ∀ p, p ∈ s0 → p ∉ s1 := fun p a b => d01 p a p b rfl
    have x02 : ∀ p, p ∈ s0 → p ∉ s2 := fun p a b => dd p (Or.inl a) p (Or.inl b) rfl
    have x03 : ∀ p, p ∈ s0 → p ∉ s3 := fun p a b => dd p (Or.inl a) p (Or.inr b) rfl
    have x12 : ∀ p, p ∈ s1 → p ∉ s2 := fun p a b => dd p (Or.inr a) p (Or.inl b) rfl
    have x13 : ∀ p, p ∈ s1 → p ∉ s3 := fun p a b => dd p (Or.inr a) p (Or.inr b) rfl
    have x23 : ∀ p, p ∈ s2 → p ∉ s3 := fun p a b => d23 p a p b rfl
    have hopen : nd = openNode par plane := by
      have := f3.old q.nodes.size (by omega)
      rw [f2.old _ (by omega), f1.old _ (by omega), f0.old _ (by simp)] at this
      rw [hnd] at this
      simpa using this
    subst hopen
    have hc0 : c0 = q.nodes.size + 1 := by have := f0.id; simpa using this
    have hc1 : c1 = q1.nodes.size := f1.id
    have hc2 : c2 = q2.nodes.size := f2.id
    have hc3 : c3 = q3.nodes.size := f3.id
    subst hc0 hc1 hc2 hc3
    dsimp only at hsmall ⊢
    rw [Array.size_setIfInBounds] at hsmall
    -- sizes
    have ps0 : q1.proxies.size = q.proxies.size := f0.psize
    have ps1 : q2.proxies.size = q.proxies.size := by rw [f1.psize, ps0]
    have ps2 : q3.proxies.size = q.proxies.size := by rw [f2.psize, ps1]
    have ps3 : q4.proxies.size = q.proxies.size := by rw [f3.psize, ps2]
    -- current boxes of the sub-slices
    have cur0 : CurOk P aabbs cur { q with nodes := q.nodes.push (openNode par plane) } s0 :=
      fun x hx => hcur x ((hmem x).2 (Or.inl hx))
    have cur1 : CurOk P aabbs cur q1 s1 := by
      intro x hx
      obtain ⟨pr, b, a1, rest⟩ := hcur x ((hmem x).2 (Or.inr (Or.inl hx)))
      exact ⟨pr, b, by rw [u0 x (fun h0 => x01 x h0 hx)]; exact a1, rest⟩
    have cur2 : CurOk P aabbs cur q2 s2 := by
      intro x hx
      obtain ⟨pr, b, a1, rest⟩ := hcur x ((hmem x).2 (Or.inr (Or.inr (Or.inl hx))))
      exact ⟨pr, b, by rw [u1 x (fun h0 => x12 x h0 hx), u0 x (fun h0 => x02 x h0 hx)]; exact a1, rest⟩
    have cur3 : CurOk P aabbs cur q3 s3 := by
      intro x hx
      obtain ⟨pr, b, a1, rest⟩ := hcur x ((hmem x).2 (Or.inr (Or.inr (Or.inr hx))))
      exact ⟨pr, b, by rw [u2 x (fun h0 => x23 x h0 hx), u1 x (fun h0 => x13 x h0 hx), u0 x (fun h0 => x03 x h0 hx)]; exact a1, rest⟩
    obtain ⟨v0, m0, k0⟩ := p0 n0 cur0 hps (by dsimp only; omega)
    obtain ⟨v1, m1, k1⟩ := p1 n1 cur1 (by omega) (by dsimp only; omega)
    obtain ⟨v2, m2, k2⟩ := p2 n2 cur2 (by omega) (by dsimp only; omega)
    obtain ⟨v3, m3, k3⟩ := p3 n3 cur3 (by omega) (by dsimp only; omega)
    dsimp only at v0 v1 v2 v3 m0 m1 m2 m3 k0 k1 k2 k3
    simp only [Array.size_push] at m0 k0
    -- nodes of the final state
    have hne : ∀ i, i ≠ q.nodes.size → (q4.nodes.setIfInBounds q.nodes.size
        (closedNode (openNode par plane) (q.nodes.size + 1) q1.nodes.size q2.nodes.size q3.nodes.size (dilated4 dil b0 b1 b2 b3)))[i]? = q4.nodes[i]? := by
      intro i hi
      simp [Array.getElem?_setIfInBounds, Ne.symm hi]
    have hN5 : (q4.nodes.setIfInBounds q.nodes.size
        (closedNode (openNode par plane) (q.nodes.size + 1) q1.nodes.size q2.nodes.size q3.nodes.size (dilated4 dil b0 b1 b2 b3)))[q.nodes.size]? =
        some (closedNode (openNode par plane) (q.nodes.size + 1) q1.nodes.size q2.nodes.size q3.nodes.size (dilated4 dil b0 b1 b2 b3)) := by
      simp [Array.getElem?_setIfInBounds]; omega
    have hne' : ∀ (x : Node K) (i : Nat), i ≠ q.nodes.size → (q4.nodes.setIfInBounds q.nodes.size x)[i]? = q4.nodes[i]? := by
      intro x i hi
      simp [Array.getElem?_setIfInBounds, Ne.symm hi]
    -- the four subtree roots, as seen in the final state
    have root0 : ∃ cn, q4.nodes[q.nodes.size + 1]? = some cn ∧ b0 = mergedBox cn.boxes := by
      refine ⟨q1.nodes[q.nodes.size + 1], ?_, m0 _ (by simp [z0])⟩
      rw [f3.old _ (by omega), f2.old _ (by omega), f1.old _ (by omega)]; simp [z0]
    have root1 : ∃ cn, q4.nodes[q1.nodes.size]? = some cn ∧ b1 = mergedBox cn.boxes := by
      refine ⟨q2.nodes[q1.nodes.size], ?_, m1 _ (by simp [z1])⟩
      rw [f3.old _ (by omega), f2.old _ (by omega)]; simp [z1]
    have root2 : ∃ cn, q4.nodes[q2.nodes.size]? = some cn ∧ b2 = mergedBox cn.boxes := by
      refine ⟨q3.nodes[q2.nodes.size], ?_, m2 _ (by simp [z2])⟩
      rw [f3.old _ (by omega)]; simp [z2]
    have root3 : ∃ cn, q4.nodes[q3.nodes.size]? = some cn ∧ b3 = mergedBox cn.boxes :=
      ⟨q4.nodes[q3.nodes.size], by simp [z3], m3 _ (by simp [z3])⟩
    refine ⟨?_, ?_, ?_⟩
    · apply d.merged
      intro l y hy
      simp only [dilated4] at hy
      obtain ⟨x, hx, rfl⟩ := map_get4 _ _ _ _ hy
      rcases vec4_lane _ l x hx with rfl | rfl | rfl | rfl <;> simp at hx <;> subst hx
      · exact (d.step _ v0).1
      · exact (d.step _ v1).1
      · exact (d.step _ v2).1
      · exact (d.step _ v3).1
    · intro nd' hnd'; rw [hN5] at hnd'; cases hnd'; rfl
    · intro n nd' a hn'
      by_cases hN : n = q.nodes.size
      · subst hN
        rw [hN5] at hn'; cases hn'
        unfold GoodNode
        apply containsAll_of_lanes
        intro l x y hx hy
        simp only [closedNode, dilated4] at hx
        obtain ⟨x0, hx0, rfl⟩ := map_get4 _ _ _ _ hx
        simp only [freshBoxes, closedNode, openNode, Bool.false_eq_true, if_false] at hy
        obtain ⟨c, hc, rfl⟩ := map_get4 _ _ _ _ hy
        rcases vec4_lane _ l x0 hx0 with rfl | rfl | rfl | rfl <;> simp at hx0 hc <;> subst hx0 hc
        · obtain ⟨cn, e1, e2⟩ := root0
          rw [hne' _ _ (by omega), e1]; dsimp only; rw [← e2]; exact (d.step _ v0).2
        · obtain ⟨cn, e1, e2⟩ := root1
          rw [hne' _ _ (by omega), e1]; dsimp only; rw [← e2]; exact (d.step _ v1).2
        · obtain ⟨cn, e1, e2⟩ := root2
          rw [hne' _ _ (by omega), e1]; dsimp only; rw [← e2]; exact (d.step _ v2).2
        · obtain ⟨cn, e1, e2⟩ := root3
          rw [hne' _ _ (by omega), e1]; dsimp only; rw [← e2]; exact (d.step _ v3).2
      · have hlt := (Array.getElem?_eq_some_iff.mp hn').1
        rw [Array.size_setIfInBounds] at hlt
        rw [hne n hN] at hn'
        have hcase : (q.nodes.size + 1 ≤ n ∧ n < q1.nodes.size) ∨ (q1.nodes.size ≤ n ∧ n < q2.nodes.size) ∨
            (q2.nodes.size ≤ n ∧ n < q3.nodes.size) ∨ (q3.nodes.size ≤ n ∧ n < q4.nodes.size) := by omega
        rcases hcase with ⟨c1, c2⟩ | ⟨c1, c2⟩ | ⟨c1, c2⟩ | ⟨c1, c2⟩
        · have hn1 : q1.nodes[n]? = some nd' := by
            rw [← f1.old n c2, ← f2.old n (by omega), ← f3.old n (by omega)]; exact hn'
          refine goodNode_frame cur t0 ?_ ?_ (by simp; omega) (by simpa using hsmall) (by omega) (by simp; omega)
            n nd' c1 c2 hn1 (k0 n nd' c1 hn1)
          · intro i a b
            dsimp only
            rw [hne i (by omega), f3.old i (by omega), f2.old i (by omega), f1.old i (by omega)]
          · intro p hp
            dsimp only
            rw [u3 p (x03 p hp), u2 p (x02 p hp), u1 p (x01 p hp)]
        · have hn1 : q2.nodes[n]? = some nd' := by
            rw [← f2.old n c2, ← f3.old n (by omega)]; exact hn'
          refine goodNode_frame cur t1 ?_ ?_ (by simp; omega) (by simpa using hsmall) (by omega) (by simp; omega)
            n nd' c1 c2 hn1 (k1 n nd' c1 hn1)
          · intro i a b
            dsimp only
            rw [hne i (by omega), f3.old i (by omega), f2.old i (by omega)]
          · intro p hp
            dsimp only
            rw [u3 p (x13 p hp), u2 p (x12 p hp)]
        · have hn1 : q3.nodes[n]? = some nd' := by
            rw [← f3.old n c2]; exact hn'
          refine goodNode_frame cur t2 ?_ ?_ (by simp; omega) (by simpa using hsmall) (by omega) (by simp; omega)
            n nd' c1 c2 hn1 (k2 n nd' c1 hn1)
          · intro i a b
            dsimp only
            rw [hne i (by omega), f3.old i (by omega)]
          · intro p hp
            dsimp only
            rw [u3 p (x23 p hp)]
        · refine goodNode_frame cur t3 ?_ ?_ (by simp) (by simpa using hsmall) (by omega) (by simp; omega)
            n nd' c1 c2 hn' (k3 n nd' c1 hn')
          · intro i a b
            dsimp only
            rw [hne i (by omega)]
          · intro p hp; rfl

/-! ## `clear_and_rebuild` -/

theorem curAfter_not_mem : ∀ (items : List (Nat × Aabb3 K)) (c : Nat → Aabb3 K) (p : Nat),
    p ∉ items.map (·.1) → curAfter items c p = c p := by
  intro items
  induction items with
  | nil => intro c p _; rfl
  | cons it rest ih =>
    intro c p hp
    simp only [List.map_cons, List.mem_cons, not_or] at hp
    rw [curAfter_cons, ih _ _ hp.2]
    simp [hp.1]

/-- a listed leaf gets one of the listed boxes (the last one with its id), whatever the boxes were before -/
theorem curAfter_mem : ∀ (items : List (Nat × Aabb3 K)) (p : Nat), p ∈ items.map (·.1) →
    ∃ b, (p, b) ∈ items ∧ ∀ c : Nat → Aabb3 K, curAfter items c p = b := by
  intro items
  induction items with
  | nil => intro p hp; simp at hp
  | cons it rest ih =>
    intro p hp
    by_cases hr : p ∈ rest.map (·.1)
    · obtain ⟨b, hb, hc⟩ := ih p hr
      exact ⟨b, by simp [hb], fun c => by rw [curAfter_cons]; exact hc _⟩
    · have hpe : p = it.1 := by
        simp only [List.map_cons, List.mem_cons] at hp
        rcases hp with h | h
        · exact h
        · exact absurd h hr
      refine ⟨it.2, by rw [hpe]; simp, fun c => ?_⟩
      rw [curAfter_cons, curAfter_not_mem _ _ _ hr]
      simp [hpe]

/-- **`clear_and_rebuild` establishes the box invariant** for valid boxes (degenerate ones included), pairwise different
ids and any dilation factor satisfying `DilateLaws` (every factor `≥ 0` over an ordered field): afterwards every lane box
contains the current box of its leaf / the merged box of its child. -/
theorem rebuild_box (laws : BoxLaws K) (P : Aabb3 K → Prop) (q q' : Q K) (items : List (Nat × Aabb3 K)) (dil : K) (d : DilateLaws K dil P)
    (cur : Nat → Aabb3 K)
    (hnd : (items.map (·.1)).Nodup) (hid : ∀ it ∈ items, it.1 < MAXN) (hlen : 4 * items.length + 2 ≤ MAXN)
    (hvalid : ∀ it ∈ items, P it.2) (h : rebuild q items dil = some q') :
    BoxInv q' (curAfter items cur) := by
  cases hf : fillProxies items (Array.replicate items.length invalidProxy, Array.replicate items.length invalidBox, #[])
    with | mk ps rest =>
  obtain ⟨aabbs, indices⟩ := rest
  obtain ⟨f1, f2, f3, f4, f5, f6, f7⟩ := fillProxies_spec items _ _ _ _ _ _ hf (by simp)
  simp only [Array.toList_empty, List.nil_append, Array.size_replicate] at f1 f2 f3 f5
  have hpsmall : ps.size ≤ MAXN := f5 MAXN (by omega) hid
  have hdata := f6 (by intro x hx; simp at hx)
  have hix : ∀ x, x ∈ indices ↔ x ∈ items.map (·.1) := by
    intro x; rw [← f3]; simp
  have hixnd : indices.toList.Nodup := by rw [f3]; exact hnd
  have hrange : ∀ x ∈ indices, x < aabbs.size ∧ x < ps.size := by
    intro x hx
    obtain ⟨pr, e, _⟩ := hdata x hx
    have := (Array.getElem?_eq_some_iff.mp e).1
    exact ⟨by omega, this⟩
  obtain ⟨⟨q1, c, aabb⟩, hb⟩ := buildRec_total aabbs dil indices.size
    { q with freeList := [], nodes := #[rebuildRoot], proxies := ps } indices 0 0 (Nat.le_refl _) hrange
  have fr := buildRec_frame aabbs dil _ _ _ _ _ _ hb
  obtain ⟨sub, pfr, _⟩ := buildRec_sub aabbs dil _ _ _ _ _ _ hb hixnd (fun x hx => (hrange x hx).1)
  have cnt := buildRec_count aabbs dil _ _ _ _ _ _ hb (fun x hx => (hrange x hx).1)
  dsimp only at fr sub pfr cnt
  have hone : (#[rebuildRoot] : Array (Node K)).size = 1 := rfl
  rw [hone] at sub cnt
  have hsz1 : 1 < q1.nodes.size := by have := fr.lt; rw [hone] at this; exact this
  have hcount : q1.nodes.size ≤ MAXN := by
    have : nodeBound indices.size ≤ 4 * items.length + 1 := by
      have : indices.size = items.length := by
        have := congrArg List.length f3; simpa using this
      unfold nodeBound; split <;> omega
    omega
  have hroot1 : q1.nodes[0]? = some rebuildRoot := by
    have := fr.old 0 (by simp)
    simpa using this
  rw [rebuild_eq q items dil ps aabbs indices hf, hb] at h
  simp only [hroot1, Option.some.injEq] at h
  -- current boxes
  have hcur : CurOk P aabbs (curAfter items cur) { q with freeList := [], nodes := #[rebuildRoot], proxies := ps } indices := by
    intro x hx
    obtain ⟨pr, e, dt⟩ := hdata x hx
    obtain ⟨b, hb1, hb2⟩ := curAfter_mem items x ((hix x).1 hx)
    refine ⟨pr, b, e, dt, ?_, hb2 _, hvalid _ hb1⟩
    rw [f7 x (hrange x hx).2, hb2]
  obtain ⟨vos, m, k⟩ := buildRec_box laws P aabbs dil d (curAfter items cur) _ _ _ _ _ _ hb hixnd hcur hpsmall hcount
  dsimp only at vos m k
  rw [hone] at m k
  have hq' : q' = ({ q1 with rootAabb := aabb, nodes := q1.nodes.setIfInBounds 0 (rebuiltRoot aabb) } : Q K) := h.symm
  have hsize : q'.nodes.size = q1.nodes.size := by rw [hq']; simp
  have hprox : q'.proxies = q1.proxies := by rw [hq']
  have hn0 : q'.nodes[0]? = some (rebuiltRoot aabb) := by
    rw [hq']
    simp only [Array.getElem?_setIfInBounds, if_true]
    rw [if_pos (by omega)]
  have hnpos : ∀ i, i ≠ 0 → q'.nodes[i]? = q1.nodes[i]? := by
    intro i hi; rw [hq']; simp [Array.getElem?_setIfInBounds, Ne.symm hi]
  intro n nd hn _
  by_cases hn0' : n = 0
  · subst hn0'
    rw [hn0] at hn; cases hn
    unfold GoodNode
    apply containsAll_of_lanes
    intro l x y hx hy
    simp only [freshBoxes, rebuiltRoot, rebuildRoot, Bool.false_eq_true, if_false] at hx hy
    obtain ⟨c', hc, rfl⟩ := map_get4 _ _ _ _ hy
    rcases vec4_lane _ l x hx with rfl | rfl | rfl | rfl <;> simp at hx hc <;> subst hx hc
    · rw [hnpos 1 (by omega)]
      have : q1.nodes[1]? = some q1.nodes[1] := by simp [hsz1]
      rw [this]; dsimp only
      rw [← m _ this]; exact laws.refl _
    · rw [Array.getElem?_eq_none (by omega)]; exact laws.refl _
    · rw [Array.getElem?_eq_none (by omega)]; exact laws.refl _
    · rw [Array.getElem?_eq_none (by omega)]; exact laws.refl _
  · have hlt := (Array.getElem?_eq_some_iff.mp hn).1
    rw [hnpos n hn0'] at hn
    refine goodNode_frame (curAfter items cur) sub (fun i a b => hnpos i (by omega)) (fun p _ => by rw [hprox])
      (by omega) (by omega) (by rw [fr.psize]; exact hpsmall) (by rw [hprox, fr.psize]; exact hpsmall)
      n nd (by omega) (by omega) hn (k n nd (by omega) hn)
