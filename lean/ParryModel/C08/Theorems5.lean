import ParryModel.Field
import ParryModel.C08.TotalLemmas
import ParryModel.C08.Theorems4
/-!
# C08 property theorems, part 5: full histories run to completion

`refit` terminates also when `rebalance` has left ids parked in the free list (`Aux2`: the root carries the invalid parent
index and no queued index is on the free list — invariants of all five operations), hence every well-placed history
of the five operations completes in the model: no index panic, no hang.
-/
namespace C08
open Model Model.Qbvh

section structural
variable {K : Type} [Num K]

/-- `dirty_nodes` is known to be empty after the operation (`s` = it was before): `refit` empties it, `rebalance` and
`clear_and_rebuild` do not touch it, the other two may queue a node -/
def flagT (s : Bool) : Op2 K → Bool
  | .base (.refit _) => true
  | .rebalance _ => s
  | .rebuild _ _ => s
  | .base _ => false

def isRebal : Op2 K → Bool
  | .rebalance _ => true
  | _ => false

/-- `rebalance` is only called with an empty `dirty_nodes` list: after a `refit` with nothing but `rebalance` /
`clear_and_rebuild` calls in between ("assumes that the leaf AABBs have already been updated with `refit`") -/
def WellPlacedT : Bool → List (Op2 K) → Prop
  | _, [] => True
  | s, op :: rest => (isRebal op = true → s = true) ∧ WellPlacedT (flagT s op) rest

/-- **`refit` terminates on every reachable state**, also with ids parked in the free list: on a state satisfying `Inv`
whose root carries the invalid parent index and whose queued indices are not on the free list (`Aux2`), the model's fuel
`nodes.len() + 2` suffices. -/
theorem refit_terminates2 (q : Q K) (cur : Nat → Aabb3 K) (margin : K) (h : Inv q) (a : Aux2 q) :
    ∃ r : Q K × Nat, refit q cur margin = some r := refit_total2 q h a cur margin

/-- **Totality of full histories: no panic, no hang, always valid.**  Every finite history of `pre_update_or_insert`,
`remove`, `refit`, `rebalance` and `clear_and_rebuild` calls (ids `< u32::MAX`, pairwise different ids in each rebuild,
`rebalance` only with an empty `dirty_nodes` list, all intermediate sizes fit `u32`) started from a state satisfying `Inv`,
`DataOk`, `Aux2` — in particular from the empty tree — runs to completion in the model and ends in a state satisfying
`Inv` (and `DataOk`, `Aux2`). -/
theorem full_history_total (fixRoot : Bool) (ops : List (Op2 K)) :
    ∀ (s : Bool) (w : World K), Inv w.q → DataOk w.q → Aux2 w.q → (s = true → w.q.dirtyNodes = []) →
      (∀ op ∈ ops, Op2Ok op) → WellPlacedT s ops → AllSmall fixRoot w ops →
      ∃ w' : World K, run2 fixRoot w ops = some w' ∧ Inv w'.q ∧ DataOk w'.q ∧ Aux2 w'.q := by
  induction ops with
  | nil => intro s w h hd a _ _ _ _; exact ⟨w, rfl, h, hd, a⟩
  | cons op ops ih =>
    intro s w h hd a hs hok hwp hsm
    have hok1 := hok op (by simp)
    -- one step: total, keeps the invariants, and the flag is right
    have hstep : ∃ w1 : World K, step2 fixRoot w op = some w1 ∧ Inv w1.q ∧ DataOk w1.q ∧ Aux2 w1.q ∧
        (flagT s op = true → w1.q.dirtyNodes = []) := by
      cases op with
      | base op =>
        cases op with
        | insert id box =>
          obtain ⟨q', e, h', _⟩ := inv_preUpdateOrInsert fixRoot w.q id h hok1 hsm.1.1
          exact ⟨⟨q', fun d => if d = id then box else w.cur d⟩, by simp only [step2, step, e, Option.map_some], h',
            dataOk_preUpdateOrInsert fixRoot w.q q' id hd e, a.step (auxStep_preUpdateOrInsert fixRoot w.q q' id h hok1 hsm.1.1 e),
            fun hf => by cases hf⟩
        | remove id =>
          obtain ⟨q', b, e, h', _⟩ := inv_remove w.q id h
          exact ⟨⟨q', w.cur⟩, by simp only [step2, step, e, Option.map_some], h', dataOk_remove w.q q' id b hd e,
            a.step (auxStep_remove w.q q' id b h e), fun hf => by cases hf⟩
        | refit m =>
          obtain ⟨r, e⟩ := refit_total2 w.q h a w.cur m
          exact ⟨⟨r.1, w.cur⟩, by simp only [step2, step, e, Option.map_some], h.of_topoEq (topoEq_refit w.q w.cur m r e),
            dataOk_refit w.q w.cur m r hd e, aux2_refit w.q w.cur m r a e,
            fun _ => by
              obtain ⟨r0, h0, rfl⟩ := refit_eq w.q w.cur m r e
              simpa using refitLoop_dirty_nil w.cur m _ _ _ _ _ h0⟩
      | rebalance m =>
        have hdn : w.q.dirtyNodes = [] := hs (hwp.1 rfl)
        obtain ⟨q', e, out⟩ := rebalance_spec w.q m h hd hsm.1.2 (fun x hx => by
          have := (hsm.2 ⟨x, w.cur⟩ (by simp only [step2, hx, Option.map_some])).head.1
          dsimp only at this; omega)
        have hdn' : q'.dirtyNodes = [] := by rw [out.dirtyList]; exact hdn
        exact ⟨⟨q', w.cur⟩, by simp only [step2, e, Option.map_some], out.inv, out.data hd,
          ⟨out.rootPar, fun n hn => by rw [hdn'] at hn; cases hn⟩, fun _ => hdn'⟩
      | rebuild items dil =>
        obtain ⟨q', e, out⟩ := rebuild_spec w.q items dil hok1.1 hok1.2.1 hok1.2.2
        refine ⟨⟨q', curAfter items w.cur⟩, by simp only [step2, e, Option.map_some], out.inv, ?_,
          ⟨out.rootPar, fun n _ => by simp [Live, out.noFree]⟩, fun hf => by rw [out.dirtyList]; exact hs hf⟩
        intro p pr hpr hne
        obtain ⟨pr', a1, a2⟩ := out.data p ((out.attached p pr hpr).1 hne)
        rw [hpr] at a1; cases a1; exact a2
    obtain ⟨w1, e1, h1, hd1, a1, hs1⟩ := hstep
    obtain ⟨w', e', rest⟩ := ih (flagT s op) w1 h1 hd1 a1 hs1 (fun o ho => hok o (by simp [ho])) hwp.2 (hsm.2 w1 e1)
    exact ⟨w', by simp only [run2, e1]; exact e', rest⟩

end structural

section boxes
variable {K : Type} [Field K] [LinearOrder K] [IsStrictOrderedRing K] (sq : K → K)

/-- **Headline, unconditional form, for all five operations**: every finite history of `pre_update_or_insert` / `remove`
/ `refit` / `rebalance` / `clear_and_rebuild` calls followed by a `refit`, run by the (corrected) model from the empty
tree, **completes** (no index panic, the recursive builders and `refit` terminate) and ends in a state where the tree is
structurally valid (`Inv`) and every stored box contains the boxes below it and the current box of its leaf (`BoxInv`).
Conditions: ids `< u32::MAX`, margins and dilation factors `≥ 0`, rebuilt leaves with pairwise different ids and valid
boxes, `rebalance` only called on a settled tree with an empty `dirty_nodes` list (`WellPlaced`, `WellPlacedT`: i.e.
after `refit`, as its documentation requires), all intermediate sizes fit `u32` (`AllSmall`). -/
theorem every_full_history_ends_valid (ops : List (Op2 K)) (m : K) :
    letI := fieldNum K sq
    (∀ op ∈ ops, Op2OkB sq op) → 0 ≤ m → WellPlaced false (ops ++ [.base (.refit m)]) →
      WellPlacedT false (ops ++ [.base (.refit m)]) → AllSmall true World.empty (ops ++ [.base (.refit m)]) →
      ∃ w' : World K, run2 true World.empty (ops ++ [.base (.refit m)]) = some w' ∧ Inv w'.q ∧ BoxInv w'.q w'.cur := by
  letI := fieldNum K sq
  intro hok hm hwp hwt hsm
  have hokS : ∀ op ∈ ops ++ [Op2.base (Op.refit m)], Op2Ok op := by
    intro op hop
    simp only [List.mem_append, List.mem_singleton] at hop
    rcases hop with hop | rfl
    · have := hok op hop
      cases op with
      | base o =>
        cases o with
        | insert id box => exact this
        | remove id => trivial
        | refit m' => trivial
      | rebalance m' => trivial
      | rebuild items dil => exact ⟨this.1, this.2.1, this.2.2.1⟩
    · trivial
  obtain ⟨w', hr, _⟩ := full_history_total true _ false World.empty inv_empty dataOk_empty aux2_empty
    (fun hf => by cases hf) hokS hwt hsm
  exact ⟨w', hr, full_history_valid_after_refit sq ops m w' hok hm hwp hsm hr⟩

end boxes

end C08
