import ParryModel.Field
import ParryModel.C08.DfsLemmas
import ParryModel.C08.OnceLemmas
import ParryModel.C08.FieldLemmas
import ParryModel.C08.Theorems6
/-!
# C08 property theorems, part 7: the single-tree traversals on the transliterated functions themselves

`Qbvh::intersect_aabb` (`Model.Qbvh.intersectAabb`, compared bit for bit and in order with the code) and
`Qbvh::traverse_depth_first_node_with_stack` with an arbitrary visitor (`Model.Qbvh.dfsLoop`), through the masked
depth-first visit order `dfsTrace` (`DfsLemmas.lean`):

* every node comes off the stack at most once (`Front`), hence **no leaf is reported twice** and the traversals
  terminate within `nodes.len()` pops — no fuel hypothesis;
* every reported leaf is attached (removed leaves are never reported);
* with `BoxInv`, every attached leaf whose current box intersects the query is reported;
* `ExitEarly` stops the traversal at that visit; otherwise the mask is followed.
-/
namespace C08
open Model Model.Qbvh

section structural
variable {K : Type} [Num K]

/-- the result of `intersect_aabb` as the reports of the visited nodes -/
theorem intersectAabb_eq_trace (q : Q K) (b : Aabb3 K) (hpos : 0 < q.nodes.size) :
    intersectAabb q b = (dfsTrace q (bvMask b) (4 * q.nodes.size + 8) [0]).map fun T => T.flatMap (nodeReports q b) := by
  unfold intersectAabb
  rw [if_neg (by omega), intersectLoop_eq]
  simp

/-- a leaf reported at a live leaf node: it is the proxy attached to that lane -/
private theorem nodeReports_spec {q : Q K} (hinv : Inv q) (b : Aabb3 K) (n : Nat) (hlive : Live q n) (x : Nat)
    (hx : x ∈ nodeReports q b n) :
    ∃ (nd : Node K) (l p : Nat) (pr : Proxy) (bx : Aabb3 K), q.nodes[n]? = some nd ∧ nd.leaf = true ∧ l ∈ lanes4 ∧
      nd.children[l]? = some p ∧ q.proxies[p]? = some pr ∧ pr.data = x ∧ pr.node = n ∧ pr.lane = l ∧ pr.node ≠ MAXN ∧
      nd.boxes[l]? = some bx ∧ boxIntersects bx b = true := by
  unfold nodeReports at hx
  cases hnd : q.nodes[n]? with
  | none => simp [hnd] at hx
  | some nd =>
    rw [hnd] at hx
    obtain ⟨l, hl, hr⟩ := List.mem_filterMap.1 hx
    unfold reportLane at hr
    cases hb : nd.boxes[l]? with
    | none => simp [hb] at hr
    | some bx =>
      cases hc : nd.children[l]? with
      | none => simp [hb, hc] at hr
      | some p =>
        simp only [hb, hc] at hr
        split at hr
        · rename_i hcond
          simp only [Bool.and_eq_true] at hcond
          cases hp : q.proxies[p]? with
          | none => simp [hp] at hr
          | some pr =>
            simp only [hp, Option.map_some, Option.some.injEq] at hr
            have hp' : q.proxies[childOf nd l]? = some pr := by rw [childOf_eq nd l p hc]; exact hp
            obtain ⟨e1, e2, e3⟩ := lane_proxy_attached hinv n nd hnd hlive hcond.2 l hl pr hp'
            exact ⟨nd, l, p, pr, bx, rfl, hcond.2, hl, hc, hp, hr, e1, e2, e3, hb, hcond.1⟩
        · cases hr

/-- **`intersect_aabb` terminates and never indexes out of bounds** on every tree satisfying `Inv` (fewer than
`u32::MAX` nodes): at most `nodes.len()` nodes are popped, whatever the boxes -/
theorem intersectAabb_total (q : Q K) (b : Aabb3 K) (hinv : Inv q) (hsz : q.nodes.size < MAXN) :
    ∃ ids : List Nat, intersectAabb q b = some ids := by
  by_cases hpos : 0 < q.nodes.size
  · obtain ⟨T, hT, _⟩ := dfsTrace_root hinv hsz hpos (bvMask b) (4 * q.nodes.size + 8) (by omega)
    exact ⟨_, by rw [intersectAabb_eq_trace q b hpos, hT]; rfl⟩
  · exact ⟨[], by unfold intersectAabb; rw [if_pos (by omega)]⟩

/-- **`intersect_aabb` reports only attached leaves, through a lane whose stored box intersects the query** — a leaf
detached by `remove` is never reported -/
theorem intersectAabb_sound (q : Q K) (b : Aabb3 K) (hinv : Inv q) (hsz : q.nodes.size < MAXN) (ids : List Nat)
    (h : intersectAabb q b = some ids) (x : Nat) (hx : x ∈ ids) :
    ∃ (p : Nat) (pr : Proxy) (nd : Node K) (bx : Aabb3 K), q.proxies[p]? = some pr ∧ pr.node ≠ MAXN ∧ pr.data = x ∧
      q.nodes[pr.node]? = some nd ∧ nd.boxes[pr.lane]? = some bx ∧ boxIntersects bx b = true := by
  by_cases hpos : 0 < q.nodes.size
  · obtain ⟨T, hT, _, hlive, _⟩ := dfsTrace_root hinv hsz hpos (bvMask b) (4 * q.nodes.size + 8) (by omega)
    rw [intersectAabb_eq_trace q b hpos, hT] at h
    simp only [Option.map_some, Option.some.injEq] at h
    subst h
    obtain ⟨n, hn, hxn⟩ := List.mem_flatMap.1 hx
    obtain ⟨nd, l, p, pr, bx, h1, _, _, _, h5, h6, h7, h8, h9, h10, h11⟩ := nodeReports_spec hinv b n (hlive n hn).1 x hxn
    exact ⟨p, pr, nd, bx, h5, h9, h6, by rw [h7]; exact h1, by rw [h8]; exact h10, h11⟩
  · unfold intersectAabb at h
    rw [if_pos (by omega)] at h
    cases h; simp at hx

/-- **`intersect_aabb` reports no leaf twice** ("exactly once", on the code's own traversal): `Inv` and `DataOk`
(attached proxies carry their own index — an invariant of all five operations) -/
theorem intersectAabb_nodup (q : Q K) (b : Aabb3 K) (hinv : Inv q) (hdata : DataOk q) (hsz : q.nodes.size < MAXN)
    (ids : List Nat) (h : intersectAabb q b = some ids) : ids.Nodup := by
  by_cases hpos : 0 < q.nodes.size
  · obtain ⟨T, hT, hnodup, hlive, _⟩ := dfsTrace_root hinv hsz hpos (bvMask b) (4 * q.nodes.size + 8) (by omega)
    rw [intersectAabb_eq_trace q b hpos, hT] at h
    simp only [Option.map_some, Option.some.injEq] at h
    subst h
    -- a reported leaf determines the node and the lane it was reported from
    have key : ∀ n ∈ T, ∀ x ∈ nodeReports q b n, ∃ pr : Proxy, q.proxies[x]? = some pr ∧ pr.node = n := by
      intro n hn x hx
      obtain ⟨nd, l, p, pr, bx, _, _, _, _, h5, h6, h7, _, h9, _⟩ := nodeReports_spec hinv b n (hlive n hn).1 x hx
      have : pr.data = p := hdata p pr h5 h9
      exact ⟨pr, by rw [← h6, this]; exact h5, h7⟩
    rw [List.nodup_flatMap]
    constructor
    · intro n hn
      unfold nodeReports
      cases hnd : q.nodes[n]? with
      | none => exact List.nodup_nil
      | some nd =>
        apply List.Nodup.filterMap _ lanes4_nodup
        intro l l' x h1 h2
        have m1 : x ∈ nodeReports q b n := by
          unfold nodeReports; rw [hnd]; exact List.mem_filterMap.2 ⟨l, by
            have := h1; unfold reportLane at this
            by_contra hc
            have hl : nd.boxes[l]? = none := by
              cases hb : nd.boxes[l]? with
              | none => rfl
              | some bx => exact absurd (lane_mem4 _ _ _ hb) hc
            simp [hl] at this, h1⟩
        have m2 : x ∈ nodeReports q b n := by
          unfold nodeReports; rw [hnd]; exact List.mem_filterMap.2 ⟨l', by
            have := h2; unfold reportLane at this
            by_contra hc
            have hl : nd.boxes[l']? = none := by
              cases hb : nd.boxes[l']? with
              | none => rfl
              | some bx => exact absurd (lane_mem4 _ _ _ hb) hc
            simp [hl] at this, h2⟩
        -- the proxy `x` is attached to exactly one lane
        have lane_of : ∀ l₀, x ∈ reportLane q b nd l₀ → ∃ pr : Proxy, q.proxies[x]? = some pr ∧ pr.lane = l₀ := by
          intro l₀ h0
          unfold reportLane at h0
          cases hb : nd.boxes[l₀]? with
          | none => simp [hb] at h0
          | some bx =>
            cases hc : nd.children[l₀]? with
            | none => simp [hb, hc] at h0
            | some p =>
              simp only [hb, hc] at h0
              split at h0
              · rename_i hcond
                simp only [Bool.and_eq_true] at hcond
                cases hp : q.proxies[p]? with
                | none => simp [hp] at h0
                | some pr =>
                  simp only [hp, Option.map_some, Option.mem_def, Option.some.injEq] at h0
                  have hp' : q.proxies[childOf nd l₀]? = some pr := by rw [childOf_eq nd l₀ p hc]; exact hp
                  obtain ⟨e1, e2, e3⟩ := lane_proxy_attached hinv n nd hnd (hlive n hn).1 hcond.2 l₀ (lane_mem4 _ _ _ hb) pr hp'
                  have : pr.data = p := hdata p pr hp e3
                  exact ⟨pr, by rw [← h0, this]; exact hp, e2⟩
              · simp at h0
        obtain ⟨pr1, a1, a2⟩ := lane_of l h1
        obtain ⟨pr2, c1, c2⟩ := lane_of l' h2
        rw [a1] at c1; cases c1
        omega
    · refine List.Pairwise.imp_of_mem ?_ hnodup
      · intro n n' hn hn' hne
        intro x hx hx'
        obtain ⟨pr, e1, e2⟩ := key n hn x hx
        obtain ⟨pr', e1', e2'⟩ := key n' hn' x hx'
        rw [e1] at e1'; cases e1'
        exact hne (e2.symm.trans e2')
  · unfold intersectAabb at h
    rw [if_pos (by omega)] at h
    cases h; exact List.nodup_nil

/-- **`intersect_aabb` is complete along a path**: if from the root a path of lane boxes containing `t` leads to the lane of
proxy `p`, and every box containing `t` intersects the query, then `p`'s data is reported -/
theorem intersectAabb_complete_path (q : Q K) (b : Aabb3 K) (hinv : Inv q) (hsz : q.nodes.size < MAXN) (ids : List Nat)
    (h : intersectAabb q b = some ids) (p : Nat) (pr : Proxy) (hp : q.proxies[p]? = some pr) (t : Aabb3 K)
    (hpath : PathTo q p t 0) (hmono : ∀ bx : Aabb3 K, boxContains bx t = true → boxIntersects bx b = true) :
    pr.data ∈ ids := by
  have hpos : 0 < q.nodes.size := by
    obtain ⟨nd, _, _, hn, _⟩ := hpath.top
    exact Nat.lt_of_le_of_lt (Nat.zero_le _) (Array.getElem?_eq_some_iff.mp hn).1
  obtain ⟨T, hT, _, _, hreach⟩ := dfsTrace_root hinv hsz hpos (bvMask b) (4 * q.nodes.size + 8) (by omega)
  rw [intersectAabb_eq_trace q b hpos, hT] at h
  simp only [Option.map_some, Option.some.injEq] at h
  subst h
  have hm : MaskAccepts (bvMask b) t := by
    intro nd l bx hb hc
    rw [bvMask_get, hb]; simp [hmono bx hc]
  obtain ⟨n, nd, l, bx, hr, hn, hleaf, hc, hb, hcont⟩ := mreach_of_path (bvMask b) p t hm 0 hpath
  refine List.mem_flatMap.2 ⟨n, (hreach n).2 hr, ?_⟩
  unfold nodeReports
  rw [hn]
  refine List.mem_filterMap.2 ⟨l, lane_mem4 _ _ _ hb, ?_⟩
  unfold reportLane
  simp [hb, hc, hmono bx hcont, hleaf, hp]

/-- **`intersect_aabb` is complete**, abstract form: on a tree satisfying `Inv` and `BoxInv`, every attached leaf whose
current box `t` is such that every box containing `t` intersects the query is reported -/
theorem intersectAabb_complete_abs (laws : BoxLaws K) (q : Q K) (cur : Nat → Aabb3 K) (b : Aabb3 K) (hinv : Inv q)
    (hbox : BoxInv q cur) (hsz : q.nodes.size < MAXN) (ids : List Nat) (h : intersectAabb q b = some ids)
    (p : Nat) (pr : Proxy) (hp : q.proxies[p]? = some pr) (hne : pr.node ≠ MAXN)
    (hmono : ∀ bx : Aabb3 K, boxContains bx (cur pr.data) = true → boxIntersects bx b = true) : pr.data ∈ ids :=
  intersectAabb_complete_path q b hinv hsz ids h p pr hp (cur pr.data) (pathTo_root laws hinv cur hbox p pr hp hne) hmono

/-! ### `traverse_depth_first_node_with_stack`: early exit -/

/-- **`dfs_exit_early_stops`**: for a visitor whose `MaybeContinue` mask depends on the node only, the traversal visits the
nodes of the full (never exiting) traversal's visit order `T`, in that order, up to and including the first node where
the visitor answers `ExitEarly`, and returns `false` exactly then (`runPrefix`).  On a tree satisfying `Inv` the visit
order exists, has no repetition and consists of the live nodes reachable through mask-accepted lanes. -/
theorem dfs_exit_early_stops {S : Type} (q : Q K) (hinv : Inv q) (hsz : q.nodes.size < MAXN) (hpos : 0 < q.nodes.size)
    (maskOf : Node K → Vector Bool 4)
    (upd : S → Node K → Option (Vector (Option Nat) 4) → S) (stop : S → Node K → Option (Vector (Option Nat) 4) → Bool)
    (visit : S → Node K → Option (Vector (Option Nat) 4) → S × Option (Vector Bool 4))
    (hv : ∀ s nd data, visit s nd data = (upd s nd data, if stop s nd data then none else some (maskOf nd))) (s : S) :
    ∃ T : List Nat, T.Nodup ∧ (∀ n, n ∈ T ↔ MReach q maskOf 0 n) ∧
      traverseDepthFirst q visit 0 s = some (runPrefix q upd stop T s) := by
  obtain ⟨T, hT, hnodup, _, hreach⟩ := dfsTrace_root hinv hsz hpos maskOf (4 * q.nodes.size + 8) (by omega)
  refine ⟨T, hnodup, hreach, ?_⟩
  unfold traverseDepthFirst
  rw [if_neg (by omega)]
  exact dfsLoop_eq_runPrefix q maskOf upd stop visit hv _ _ _ s hT

/-- **`dfs_bv_first_k`: the library's box visitor with a callback that answers `false` at its `limit`-th call.**
`traverse_depth_first_node_with_stack` then reports exactly the first `limit` leaves of the order in which
`intersect_aabb` reports them and returns `false`; when fewer than `limit` leaves intersect, it reports all of them, in
that order, and returns `true`.  (`ExitEarly` stops at once — also in the middle of a leaf node's lanes —,
`MaybeContinue(mask)` descends into exactly the lanes `intersect_aabb` descends into.) -/
theorem dfs_bv_first_k (q : Q K) (b : Aabb3 K) (limit : Nat) (hinv : Inv q) (hsz : q.nodes.size < MAXN) (hlim : 0 < limit)
    (ids : List Nat) (h : intersectAabb q b = some ids) :
    traverseDepthFirst q (bvVisit b limit) 0 ([] : List Nat) =
      some (if ids.length < limit then (ids.reverse, true) else ((ids.take limit).reverse, false)) := by
  by_cases hpos : 0 < q.nodes.size
  · obtain ⟨T, hT, _⟩ := dfsTrace_root hinv hsz hpos (bvMask b) (4 * q.nodes.size + 8) (by omega)
    rw [intersectAabb_eq_trace q b hpos, hT] at h
    simp only [Option.map_some, Option.some.injEq] at h
    subst h
    unfold traverseDepthFirst
    rw [if_neg (by omega)]
    rw [dfsLoop_eq_runPrefix q (bvMask b) (bvUpd b limit) (bvStop b limit) (bvVisit b limit) (bvVisit_eq b limit) _ _ _ [] hT]
    rw [runPrefix_bv q b limit T [] (by simpa using hlim)]
    simp
  · unfold intersectAabb at h
    rw [if_pos (by omega)] at h
    cases h
    unfold traverseDepthFirst
    rw [if_pos (by omega)]
    simp [hlim]

/-- the context variant pushes the same children (with their contexts) -/
private theorem dfsCtxPush_fst {C : Type} (q : Q K) (nd : Node K) (mask : Vector Bool 4) (ctxs : Vector C 4) :
    ∀ (ls : List Nat), (∀ l ∈ ls, l < 4) → ∀ (stack : List (Nat × C)),
      (ls.foldl (fun st ii =>
        match mask[ii]?, nd.children[ii]?, ctxs[ii]? with
        | some true, some c, some cx => if !nd.leaf && decide (c ≤ q.nodes.size) then (c, cx) :: st else st
        | _, _, _ => st) stack).map Prod.fst =
      ls.foldl (fun st ii =>
        match mask[ii]?, nd.children[ii]? with
        | some true, some c => if !nd.leaf && decide (c ≤ q.nodes.size) then c :: st else st
        | _, _ => st) (stack.map Prod.fst) := by
  intro ls
  induction ls with
  | nil => intro _ stack; rfl
  | cons l ls ih =>
    intro hl stack
    have hl4 : l < 4 := hl l (by simp)
    simp only [List.foldl_cons]
    rw [ih (fun x hx => hl x (by simp [hx]))]
    congr 1
    have hcx : ctxs[l]? = some ctxs[l] := by simp [hl4]
    rw [hcx]
    cases hm : mask[l]? with
    | none => rfl
    | some m =>
      cases m with
      | false => rfl
      | true =>
        cases hc : nd.children[l]? with
        | none => rfl
        | some c => by_cases hg : (!nd.leaf && decide (c ≤ q.nodes.size)) = true <;> simp [hg]

/-- **`traverse_depth_first_node_with_stack_and_context` visits the same nodes in the same order as the variant without
context**: for a context visitor whose status and state update do not look at the context, the run is the run of
`traverse_depth_first_node_with_stack` with that visitor (same final state, same returned flag); the contexts are
carried along with the pushed children. -/
theorem dfs_context_same_visits {S C : Type} (q : Q K)
    (visit : S → Node K → Option (Vector (Option Nat) 4) → S × Option (Vector Bool 4))
    (visitC : S → Node K → Option (Vector (Option Nat) 4) → C → S × Option (Vector Bool 4) × Vector C 4)
    (hvc : ∀ s nd data cx, ((visitC s nd data cx).1, (visitC s nd data cx).2.1) = visit s nd data) :
    ∀ (fuel : Nat) (stack : List (Nat × C)) (s : S),
      dfsCtxLoop q visitC fuel stack s = dfsLoop q visit fuel (stack.map Prod.fst) s := by
  intro fuel
  induction fuel with
  | zero => intro stack s; cases stack <;> simp [dfsCtxLoop, dfsLoop]
  | succ fuel ih =>
    intro stack s
    cases stack with
    | nil => simp [dfsCtxLoop, dfsLoop]
    | cons e st =>
      obtain ⟨entry, cx⟩ := e
      simp only [dfsCtxLoop, dfsLoop, List.map_cons]
      cases hnd : q.nodes[entry]? with
      | none => rfl
      | some nd =>
        simp only
        have hv := hvc s nd (leafDataOf q nd) cx
        rcases hr : visitC s nd (leafDataOf q nd) cx with ⟨s1, st1, ctxs⟩
        rw [hr] at hv
        simp only at hv
        rw [← hv]
        cases st1 with
        | none => rfl
        | some mask =>
          simp only
          rw [ih]
          congr 1
          exact dfsCtxPush_fst q nd mask ctxs lanes4 (by simp [lanes4]) st

/-- **`leaves_exactly_once`: every live leaf is reachable from the root exactly once, no removed leaf is reachable.**
In a state satisfying `Inv`, the depth-first collection of the leaves below the root (`collect`, the function the oracle
evaluates on every dumped Rust state) (1) has no repetition — no leaf is reachable twice —, (2) contains only attached
proxies — a leaf detached by `remove` is unreachable —, (3) contains every attached proxy once the fuel exceeds the
number of nodes. -/
theorem leaves_exactly_once (q : Q K) (hinv : Inv q) :
    (∀ fuel, (collect q fuel 0).Nodup) ∧
    (∀ fuel p, p ∈ collect q fuel 0 → ∃ pr : Proxy, q.proxies[p]? = some pr ∧ pr.node ≠ MAXN) ∧
    (∀ (p : Nat) (pr : Proxy), q.proxies[p]? = some pr → pr.node ≠ MAXN → ∀ fuel, q.nodes.size ≤ fuel → p ∈ collect q fuel 0) := by
  obtain ⟨d, hd⟩ := hinv.depth
  have hd' : IsDepth q d := hd
  have top : ∀ fuel, (collect q fuel 0).Nodup ∧ ∀ p ∈ collect q fuel 0, ∃ pr : Proxy, q.proxies[p]? = some pr ∧ pr.node ≠ MAXN := by
    intro fuel
    by_cases hpos : 0 < q.nodes.size
    · have hlive : Live q 0 := by
        rcases hinv.root with h0 | ⟨_, hl⟩
        · omega
        · exact hl
      obtain ⟨h1, h2⟩ := collect_spec hinv hd' fuel 0 hlive hpos
      exact ⟨h1, fun p hp => by obtain ⟨pr, a, b, _⟩ := h2 p hp; exact ⟨pr, a, b⟩⟩
    · have : collect q fuel 0 = [] := by
        cases fuel with
        | zero => rfl
        | succ f =>
          have : q.nodes[0]? = none := Array.getElem?_eq_none (by omega)
          simp [collect, this]
      rw [this]; exact ⟨List.nodup_nil, by simp⟩
  refine ⟨fun fuel => (top fuel).1, fun fuel p hp => (top fuel).2 p hp, ?_⟩
  intro p pr hp hne fuel hf
  obtain ⟨plive, nd, hnd, _, _⟩ := hinv.proxyLeaf p pr hp hne
  have := depth_lt_size q hinv d hd.1 hd.2 pr.node nd hnd plive
  exact collect_complete hinv hd' p pr hp hne fuel (by omega)

/-- the corrected `refit` leaves `root_aabb` equal to the merged box of the root node -/
theorem refit_syncs_root_aabb (q : Q K) (cur : Nat → Aabb3 K) (margin : K) (r : Q K × Nat) (h : refit q cur margin = some r) :
    ∀ root : Node K, r.1.nodes[0]? = some root → r.1.rootAabb = mergedBox root.boxes := by
  obtain ⟨r0, _, rfl⟩ := refit_eq q cur margin r h
  intro root hroot
  simp only [syncRootAabb_nodes] at hroot
  simp only [syncRootAabb, hroot]

/-- **`root_aabb` contains every live leaf**, abstract form: in a state satisfying `Inv` and `BoxInv` whose `root_aabb` is
the merged box of the root node (what `refit` — corrected —, `clear_and_rebuild` and `rebalance` leave behind), the
box returned by `Qbvh::root_aabb()` contains the current box of every attached leaf -/
theorem root_aabb_contains_abs (laws : BoxLaws K) (q : Q K) (cur : Nat → Aabb3 K) (hinv : Inv q) (hbox : BoxInv q cur)
    (hsync : ∀ root : Node K, q.nodes[0]? = some root → q.rootAabb = mergedBox root.boxes)
    (p : Nat) (pr : Proxy) (hp : q.proxies[p]? = some pr) (hne : pr.node ≠ MAXN) :
    boxContains q.rootAabb (cur pr.data) = true := by
  obtain ⟨root, l, bx, hroot, hb, hcont⟩ := (pathTo_root laws hinv cur hbox p pr hp hne).top
  rw [hsync root hroot]
  exact laws.trans _ _ _ (laws.merged root.boxes l bx hb) hcont

end structural

section boxes
variable {K : Type} [Field K] [LinearOrder K] [IsStrictOrderedRing K] (sq : K → K)

/-- **`intersectAabb_complete`: after refit `intersect_aabb` misses no leaf.**  Exact arithmetic over any linearly
ordered field.  On a tree satisfying `Inv` and `BoxInv` (the state after `refit`, `every_full_history_ends_valid`), the
list returned by the transliterated `Qbvh::intersect_aabb` contains every attached leaf whose CURRENT box intersects the
query box.  With `intersectAabb_total` (it returns), `intersectAabb_sound` (only attached leaves) and
`intersectAabb_nodup` (none twice): it returns exactly the live leaves whose lane boxes intersect the query, each once. -/
theorem intersectAabb_complete (q : Q K) (cur : Nat → Aabb3 K) (b : Aabb3 K) (ids : List Nat) :
    letI := fieldNum K sq
    Inv q → BoxInv q cur → q.nodes.size < MAXN → intersectAabb q b = some ids →
    ∀ (p : Nat) (pr : Proxy), q.proxies[p]? = some pr → pr.node ≠ MAXN → boxIntersects (cur pr.data) b = true →
      pr.data ∈ ids := by
  letI := fieldNum K sq
  intro hinv hbox hsz h p pr hp hne hint
  refine intersectAabb_complete_abs (boxLaws_fieldNum sq) q cur b hinv hbox hsz ids h p pr hp hne ?_
  intro bx hc
  exact boxIntersects_mono2 sq bx (cur pr.data) b b hc ((boxLaws_fieldNum sq).refl b) hint

/-- **`refit_root_aabb_contains`: after `refit`, `Qbvh::root_aabb()` contains every live leaf** (the clause violated on
the pinned tree, where `refit` did not write `root_aabb`; fixes/C08-refit-root-aabb.diff).  Exact arithmetic, margin
`≥ 0`: from any state in which every out-of-date node is flagged DIRTY and queued (`Inv`, `Tracked`, `DirtyQueued` —
preserved by every operation, `Full`), the state returned by the corrected `refit` has a `root_aabb` containing the
current box of every attached leaf. -/
theorem refit_root_aabb_contains (q : Q K) (cur : Nat → Aabb3 K) (margin : K) (r : Q K × Nat) :
    letI := fieldNum K sq
    0 ≤ margin → Inv q → Tracked q cur → DirtyQueued q → refit q cur margin = some r →
    ∀ (p : Nat) (pr : Proxy), r.1.proxies[p]? = some pr → pr.node ≠ MAXN →
      boxContains r.1.rootAabb (cur pr.data) = true := by
  letI := fieldNum K sq
  intro hm hinv ht hdq hr p pr hp hne
  obtain ⟨hi, hb, _, _⟩ := refit_establishes (boxLaws_fieldNum sq) q cur margin hm hinv ht hdq r hr
  exact root_aabb_contains_abs (boxLaws_fieldNum sq) r.1 cur hi hb (refit_syncs_root_aabb q cur margin r hr) p pr hp hne

end boxes

end C08
