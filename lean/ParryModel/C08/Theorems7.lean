import ParryModel.Field
import ParryModel.C08.DfsLemmas
import ParryModel.C08.FieldLemmas
import ParryModel.C08.Theorems6
/-!
# C08 property theorems, part 7: the single-tree traversals on the transliterated functions themselves

`Qbvh::intersect_aabb` (`Model.Qbvh.intersectAabb`, compared bit for bit and in order with the code) and
`Qbvh::traverse_depth_first_node_with_stack` with an arbitrary visitor (`Model.Qbvh.dfsLoop`), through the masked
depth-first visit order `dfsTrace` (`DfsLemmas.lean`):

* every node comes off the stack at most once (`Front`), hence **no leaf is reported twice** and the traversals
  terminate within `nodes.len()` pops — no fuel hypothesis;
* every reported leaf is attached (removed leaves are never reported);
* with `BoxInv`, every attached leaf whose current box intersects the query is reported;
* `ExitEarly` stops the traversal at that visit; otherwise the mask is followed.
-/
namespace C08
open Model Model.Qbvh

section structural
variable {K : Type} [Num K]

/-- the result of `intersect_aabb` as the reports of the visited nodes -/
theorem intersectAabb_eq_trace (q : Q K) (b : Aabb3 K) (hpos : 0 < q.nodes.size) :
    intersectAabb q b = (dfsTrace q (bvMask b) (4 * q.nodes.size + 8) [0]).map fun T => T.flatMap (nodeReports q b) := by
  unfold intersectAabb
  rw [if_neg (by omega), intersectLoop_eq]
  simp

/-- a leaf reported at a live leaf node: it is the proxy attached to that lane -/
theorem nodeReports_spec {q : Q K} (hinv : Inv q) (b : Aabb3 K) (n : Nat) (hlive : Live q n) (x : Nat)
    (hx : x ∈ nodeReports q b n) :
    ∃ (nd : Node K) (l p : Nat) (pr : Proxy) (bx : Aabb3 K), q.nodes[n]? = some nd ∧ nd.leaf = true ∧ l ∈ lanes4 ∧
      nd.children[l]? = some p ∧ q.proxies[p]? = some pr ∧ pr.data = x ∧ pr.node = n ∧ pr.lane = l ∧ pr.node ≠ MAXN ∧
      nd.boxes[l]? = some bx ∧ boxIntersects bx b = true := by
  unfold nodeReports at hx
  cases hnd : q.nodes[n]? with
  | none => simp [hnd] at hx
  | some nd =>
    rw [hnd] at hx
    obtain ⟨l, hl, hr⟩ := List.mem_filterMap.1 hx
    unfold reportLane at hr
    cases hb : nd.boxes[l]? with
    | none => simp [hb] at hr
    | some bx =>
      cases hc : nd.children[l]? with
      | none => simp [hb, hc] at hr
      | some p =>
        simp only [hb, hc] at hr
        split at hr
        · rename_i hcond
          simp only [Bool.and_eq_true] at hcond
          cases hp : q.proxies[p]? with
          | none => simp [hp] at hr
          | some pr =>
            simp only [hp, Option.map_some, Option.some.injEq] at hr
            have hp' : q.proxies[childOf nd l]? = some pr := by rw [childOf_eq nd l p hc]; exact hp
            obtain ⟨e1, e2, e3⟩ := lane_proxy_attached hinv n nd hnd hlive hcond.2 l hl pr hp'
            exact ⟨nd, l, p, pr, bx, rfl, hcond.2, hl, hc, hp, hr, e1, e2, e3, hb, hcond.1⟩
        · cases hr

/-- **`intersect_aabb` terminates and never indexes out of bounds** on every tree satisfying `Inv` (fewer than
`u32::MAX` nodes): at most `nodes.len()` nodes are popped, whatever the boxes -/
theorem intersectAabb_total (q : Q K) (b : Aabb3 K) (hinv : Inv q) (hsz : q.nodes.size < MAXN) :
    ∃ ids : List Nat, intersectAabb q b = some ids := by
  by_cases hpos : 0 < q.nodes.size
  · obtain ⟨T, hT, _⟩ := dfsTrace_root hinv hsz hpos (bvMask b) (4 * q.nodes.size + 8) (by omega)
    exact ⟨_, by rw [intersectAabb_eq_trace q b hpos, hT]; rfl⟩
  · exact ⟨[], by unfold intersectAabb; rw [if_pos (by omega)]⟩

/-- **`intersect_aabb` reports only attached leaves, through a lane whose stored box intersects the query** — a leaf
detached by `remove` is never reported -/
theorem intersectAabb_sound (q : Q K) (b : Aabb3 K) (hinv : Inv q) (hsz : q.nodes.size < MAXN) (ids : List Nat)
    (h : intersectAabb q b = some ids) (x : Nat) (hx : x ∈ ids) :
    ∃ (p : Nat) (pr : Proxy) (nd : Node K) (bx : Aabb3 K), q.proxies[p]? = some pr ∧ pr.node ≠ MAXN ∧ pr.data = x ∧
      q.nodes[pr.node]? = some nd ∧ nd.boxes[pr.lane]? = some bx ∧ boxIntersects bx b = true := by
  by_cases hpos : 0 < q.nodes.size
  · obtain ⟨T, hT, _, hlive, _⟩ := dfsTrace_root hinv hsz hpos (bvMask b) (4 * q.nodes.size + 8) (by omega)
    rw [intersectAabb_eq_trace q b hpos, hT] at h
    simp only [Option.map_some, Option.some.injEq] at h
    subst h
    obtain ⟨n, hn, hxn⟩ := List.mem_flatMap.1 hx
    obtain ⟨nd, l, p, pr, bx, h1, _, _, _, h5, h6, h7, h8, h9, h10, h11⟩ := nodeReports_spec hinv b n (hlive n hn).1 x hxn
    exact ⟨p, pr, nd, bx, h5, h9, h6, by rw [h7]; exact h1, by rw [h8]; exact h10, h11⟩
  · unfold intersectAabb at h
    rw [if_pos (by omega)] at h
    cases h; simp at hx

/-- **`intersect_aabb` reports no leaf twice** ("exactly once", on the code's own traversal): `Inv` and `DataOk`
(attached proxies carry their own index — an invariant of all five operations) -/
theorem intersectAabb_nodup (q : Q K) (b : Aabb3 K) (hinv : Inv q) (hdata : DataOk q) (hsz : q.nodes.size < MAXN)
    (ids : List Nat) (h : intersectAabb q b = some ids) : ids.Nodup := by
  by_cases hpos : 0 < q.nodes.size
  · obtain ⟨T, hT, hnodup, hlive, _⟩ := dfsTrace_root hinv hsz hpos (bvMask b) (4 * q.nodes.size + 8) (by omega)
    rw [intersectAabb_eq_trace q b hpos, hT] at h
    simp only [Option.map_some, Option.some.injEq] at h
    subst h
    -- a reported leaf determines the node and the lane it was reported from
    have key : ∀ n ∈ T, ∀ x ∈ nodeReports q b n, ∃ pr : Proxy, q.proxies[x]? = some pr ∧ pr.node = n := by
      intro n hn x hx
      obtain ⟨nd, l, p, pr, bx, _, _, _, _, h5, h6, h7, _, h9, _⟩ := nodeReports_spec hinv b n (hlive n hn).1 x hx
      have : pr.data = p := hdata p pr h5 h9
      exact ⟨pr, by rw [← h6, this]; exact h5, h7⟩
    rw [List.nodup_flatMap]
    constructor
    · intro n hn
      unfold nodeReports
      cases hnd : q.nodes[n]? with
      | none => exact List.nodup_nil
      | some nd =>
        apply List.Nodup.filterMap _ lanes4_nodup
        intro l l' x h1 h2
        have m1 : x ∈ nodeReports q b n := by
          unfold nodeReports; rw [hnd]; exact List.mem_filterMap.2 ⟨l, by
            have := h1; unfold reportLane at this
            by_contra hc
            have hl : nd.boxes[l]? = none := by
              cases hb : nd.boxes[l]? with
              | none => rfl
              | some bx => exact absurd (lane_mem4 _ _ _ hb) hc
            simp [hl] at this, h1⟩
        have m2 : x ∈ nodeReports q b n := by
          unfold nodeReports; rw [hnd]; exact List.mem_filterMap.2 ⟨l', by
            have := h2; unfold reportLane at this
            by_contra hc
            have hl : nd.boxes[l']? = none := by
              cases hb : nd.boxes[l']? with
              | none => rfl
              | some bx => exact absurd (lane_mem4 _ _ _ hb) hc
            simp [hl] at this, h2⟩
        -- the proxy `x` is attached to exactly one lane
        have lane_of : ∀ l₀, x ∈ reportLane q b nd l₀ → ∃ pr : Proxy, q.proxies[x]? = some pr ∧ pr.lane = l₀ := by
          intro l₀ h0
          unfold reportLane at h0
          cases hb : nd.boxes[l₀]? with
          | none => simp [hb] at h0
          | some bx =>
            cases hc : nd.children[l₀]? with
            | none => simp [hb, hc] at h0
            | some p =>
              simp only [hb, hc] at h0
              split at h0
              · rename_i hcond
                simp only [Bool.and_eq_true] at hcond
                cases hp : q.proxies[p]? with
                | none => simp [hp] at h0
                | some pr =>
                  simp only [hp, Option.map_some, Option.mem_def, Option.some.injEq] at h0
                  have hp' : q.proxies[childOf nd l₀]? = some pr := by rw [childOf_eq nd l₀ p hc]; exact hp
                  obtain ⟨e1, e2, e3⟩ := lane_proxy_attached hinv n nd hnd (hlive n hn).1 hcond.2 l₀ (lane_mem4 _ _ _ hb) pr hp'
                  have : pr.data = p := hdata p pr hp e3
                  exact ⟨pr, by rw [← h0, this]; exact hp, e2⟩
              · simp at h0
        obtain ⟨pr1, a1, a2⟩ := lane_of l h1
        obtain ⟨pr2, c1, c2⟩ := lane_of l' h2
        rw [a1] at c1; cases c1
        omega
    · refine List.Pairwise.imp_of_mem ?_ hnodup
      · intro n n' hn hn' hne
        intro x hx hx'
        obtain ⟨pr, e1, e2⟩ := key n hn x hx
        obtain ⟨pr', e1', e2'⟩ := key n' hn' x hx'
        rw [e1] at e1'; cases e1'
        exact hne (e2.symm.trans e2')
  · unfold intersectAabb at h
    rw [if_pos (by omega)] at h
    cases h; exact List.nodup_nil

/-- **`intersect_aabb` is complete**, abstract form: on a tree satisfying `Inv` and `BoxInv`, every attached leaf whose
current box `t` is such that every box containing `t` intersects the query is reported -/
theorem intersectAabb_complete_abs (laws : BoxLaws K) (q : Q K) (cur : Nat → Aabb3 K) (b : Aabb3 K) (hinv : Inv q)
    (hbox : BoxInv q cur) (hsz : q.nodes.size < MAXN) (ids : List Nat) (h : intersectAabb q b = some ids)
    (p : Nat) (pr : Proxy) (hp : q.proxies[p]? = some pr) (hne : pr.node ≠ MAXN)
    (hmono : ∀ bx : Aabb3 K, boxContains bx (cur pr.data) = true → boxIntersects bx b = true) : pr.data ∈ ids := by
  have hpath := pathTo_root laws hinv cur hbox p pr hp hne
  have hpos : 0 < q.nodes.size := by
    obtain ⟨nd, _, _, hn, _⟩ := hpath.top
    exact Nat.lt_of_le_of_lt (Nat.zero_le _) (Array.getElem?_eq_some_iff.mp hn).1
  obtain ⟨T, hT, _, _, hreach⟩ := dfsTrace_root hinv hsz hpos (bvMask b) (4 * q.nodes.size + 8) (by omega)
  rw [intersectAabb_eq_trace q b hpos, hT] at h
  simp only [Option.map_some, Option.some.injEq] at h
  subst h
  have hm : MaskAccepts (bvMask b) (cur pr.data) := by
    intro nd l bx hb hc
    rw [bvMask_get, hb]; simp [hmono bx hc]
  obtain ⟨n, nd, l, bx, hr, hn, hleaf, hc, hb, hcont⟩ := mreach_of_path (bvMask b) p (cur pr.data) hm 0 hpath
  refine List.mem_flatMap.2 ⟨n, (hreach n).2 hr, ?_⟩
  unfold nodeReports
  rw [hn]
  refine List.mem_filterMap.2 ⟨l, lane_mem4 _ _ _ hb, ?_⟩
  unfold reportLane
  simp [hb, hc, hmono bx hcont, hleaf, hp]

/-! ### `traverse_depth_first_node_with_stack`: early exit -/

/-- **`dfs_exit_early_stops`**: for a visitor whose `MaybeContinue` mask depends on the node only, the traversal visits the
nodes of the full (never exiting) traversal's visit order `T`, in that order, up to and including the first node where
the visitor answers `ExitEarly`, and returns `false` exactly then (`runPrefix`).  On a tree satisfying `Inv` the visit
order exists, has no repetition and consists of the live nodes reachable through mask-accepted lanes. -/
theorem dfs_exit_early_stops {S : Type} (q : Q K) (hinv : Inv q) (hsz : q.nodes.size < MAXN) (hpos : 0 < q.nodes.size)
    (maskOf : Node K → Vector Bool 4)
    (upd : S → Node K → Option (Vector (Option Nat) 4) → S) (stop : S → Node K → Option (Vector (Option Nat) 4) → Bool)
    (visit : S → Node K → Option (Vector (Option Nat) 4) → S × Option (Vector Bool 4))
    (hv : ∀ s nd data, visit s nd data = (upd s nd data, if stop s nd data then none else some (maskOf nd))) (s : S) :
    ∃ T : List Nat, T.Nodup ∧ (∀ n, n ∈ T ↔ MReach q maskOf 0 n) ∧
      traverseDepthFirst q visit 0 s = some (runPrefix q upd stop T s) := by
  obtain ⟨T, hT, hnodup, _, hreach⟩ := dfsTrace_root hinv hsz hpos maskOf (4 * q.nodes.size + 8) (by omega)
  refine ⟨T, hnodup, hreach, ?_⟩
  unfold traverseDepthFirst
  rw [if_neg (by omega)]
  exact dfsLoop_eq_runPrefix q maskOf upd stop visit hv _ _ _ s hT

end structural

section boxes
variable {K : Type} [Field K] [LinearOrder K] [IsStrictOrderedRing K] (sq : K → K)

/-- **`intersectAabb_complete`: after refit `intersect_aabb` misses no leaf.**  Exact arithmetic over any linearly
ordered field.  On a tree satisfying `Inv` and `BoxInv` (the state after `refit`, `every_full_history_ends_valid`), the
list returned by the transliterated `Qbvh::intersect_aabb` contains every attached leaf whose CURRENT box intersects the
query box.  With `intersectAabb_total` (it returns), `intersectAabb_sound` (only attached leaves) and
`intersectAabb_nodup` (none twice): it returns exactly the live leaves whose lane boxes intersect the query, each once. -/
theorem intersectAabb_complete (q : Q K) (cur : Nat → Aabb3 K) (b : Aabb3 K) (ids : List Nat) :
    letI := fieldNum K sq
    Inv q → BoxInv q cur → q.nodes.size < MAXN → intersectAabb q b = some ids →
    ∀ (p : Nat) (pr : Proxy), q.proxies[p]? = some pr → pr.node ≠ MAXN → boxIntersects (cur pr.data) b = true →
      pr.data ∈ ids := by
  letI := fieldNum K sq
  intro hinv hbox hsz h p pr hp hne hint
  refine intersectAabb_complete_abs (boxLaws_fieldNum sq) q cur b hinv hbox hsz ids h p pr hp hne ?_
  intro bx hc
  exact boxIntersects_mono2 sq bx (cur pr.data) b b hc ((boxLaws_fieldNum sq).refl b) hint

end boxes

end C08
