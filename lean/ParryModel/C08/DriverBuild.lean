import ParryModel.C08.DriverBase
/-!
C08 round fu5: `bquery <hist> <k> {<box>}^k` — the full state dump of a history (any of the seven operations, in
particular the two `clear_and_rebuild_with_splitter` paths), then `intersect_aabb(box)` on the final tree for every query.
Model: the same dump and the transliterated `intersect_aabb` (ordered).  Oracle: the invariant oracle on every dumped
state (`runOracleCore`, including the exact "pieces tile the leaf" judgement of a cutting build), then brute force over the
leaves live at the end — their ids and current boxes are reconstructed from the DUMP (the callback's record), not from the model.
-/
namespace C08
open Model Model.Qbvh Proto

def pbquery : P (List POp × List (Aabb3 Float)) := do
  let ops ← plist pop
  let qs ← plist pbox
  pend
  pure (ops, qs)

def bqueryModel (ops : List POp) (qs : List (Aabb3 Float)) : String :=
  let dump := runModel ops
  match finalModel ops with
  | none => dump
  | some w =>
    let answers := qs.map fun b =>
      match intersectAabb w.q b with
      | some ids => " ".intercalate ("Q" :: ids.map toString ++ [";"])
      | none => "PANIC ;"
    " ".intercalate ((if dump.isEmpty then [] else [dump]) ++ answers)

def bqueryOracle (ops : List POp) (qs : List (Aabb3 Float)) (out : List String) : String := Id.run do
  let segs := splitSegs out
  if segs.length != ops.length + qs.length then
    if out.contains "PANIC" then return s!"fail panic op={segs.length - 1}"
    return "fail unparsable-output segment-count"
  match runOracleCore ops (segs.take ops.length) with
  | .error why => return why
  | .ok (_, cur, live, settled) =>
    if !settled then return "skip final-state-not-settled"
    let mut k := 0
    for (b, seg) in qs.zip (segs.drop ops.length) do
      match seg with
      | "Q" :: rest =>
        match rest.mapM String.toNat? with
        | none => return s!"fail unparsable-output query={k}"
        | some ids =>
          if ids.eraseDups.length != ids.length then return s!"fail leaf-reported-twice query={k}"
          match ids.find? (fun i => !live.contains i) with
          | some i => return s!"fail dead-leaf-reported {i} query={k}"
          | none =>
            match live.find? (fun i => overlapQ (qbox (cur i)) (qbox b) && !ids.contains i) with
            | some i => return s!"fail overlapping-leaf-missed {i} query={k}"
            | none => pure ()
      | _ => return s!"fail panic query={k}"
      k := k + 1
    return "pass"

def handlerBuild (fn : String) : Option Handler :=
  match fn with
  | "bquery" => some {
      model := fun a => (run pbquery a).map fun (ops, qs) => bqueryModel ops qs
      oracle := fun a o => match run pbquery a with
        | some (ops, qs) => bqueryOracle ops qs o
        | none => "skip bad-args" }
  | _ => none

end C08
