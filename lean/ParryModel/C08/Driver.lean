import ParryModel.C08.DriverBase
import ParryModel.C08.DriverExt
import ParryModel.C08.DriverBuild
/-! C08 protocol handlers: `DriverBase` (histories, two-tree and single-tree traversals) and `DriverExt` (round fu3:
`check_topology`, accessors, `scaled`, early-exit depth-first traversals). -/
namespace C08
open Proto

def handler (fn : String) : Option Handler :=
  match handlerBase fn with
  | some h => some h
  | none =>
    match handlerExt fn with
    | some h => some h
    | none => handlerBuild fn

end C08
