import ParryModel.Field
import ParryModel.C08.Theorems2
import ParryModel.C08.Model5
/-!
# C08 property theorems, part 14 (round fu5): every public build path

`Model5.buildRecG` / `rebuildG` transliterate `do_recurse_build_generic` / `clear_and_rebuild_with_splitter` with the
splitter as a parameter (`CenterDataSplitter { enable_fallback_split }`, `QbvhNonOverlappingDataSplitter` with the cutting
callback).  This file ties the generic model to the one the older theorems are about and states the clauses that are
specific to the cutting splitter.
-/
namespace C08
open Model Model.Qbvh

section structural
variable {K : Type} [Num K]

/-- **The generic recursion instantiated with `CenterDataSplitter { enable_fallback_split: true }` IS `buildRec`.**
For every fuel, state, slice and parent: `buildRecG (.center true)` returns exactly what `buildRec` returns on the tree
component; the builder's `aabbs`, the fresh-id counter and the record of pieces are untouched. -/
theorem buildRecG_center_true (dil : K) :
    ∀ (fuel : Nat) (st : GSt K) (indices : Array Nat) (par plane : Nat),
      buildRecG (.center true) dil fuel st indices par plane =
        (buildRec st.aabbs dil fuel st.q indices par plane).map fun r => ({ st with q := r.1 }, r.2.1, r.2.2) := by
  intro fuel
  induction fuel with
  | zero =>
    intro st indices par plane
    unfold buildRecG buildRec
    by_cases hs : indices.size ≤ 4
    · simp only [hs, if_true]
      cases buildLeafLoop st.aabbs st.q.nodes.size indices.toList 0
          (Vector.replicate 4 invalidBox, Vector.replicate 4 MAXN, st.q.proxies) with
      | none => rfl
      | some x => obtain ⟨bx, ids, ps⟩ := x; rfl
    · simp only [hs, if_false]; rfl
  | succ n ih =>
    intro st indices par plane
    unfold buildRecG buildRec
    by_cases hs : indices.size ≤ 4
    · simp only [hs, if_true]
      cases buildLeafLoop st.aabbs st.q.nodes.size indices.toList 0
          (Vector.replicate 4 invalidBox, Vector.replicate 4 MAXN, st.q.proxies) with
      | none => rfl
      | some x => obtain ⟨bx, ids, ps⟩ := x; rfl
    · simp only [hs, if_false]
      cases hc : centerDims st.aabbs indices with
      | none => rfl
      | some cd =>
        obtain ⟨center, d0, d1⟩ := cd
        simp only
        cases hsp : splitDataset st.aabbs true d0 d1 center indices with
        | none => rfl
        | some parts =>
          obtain ⟨s0, s1, s2, s3⟩ := parts
          simp only [Option.map_some]
          rw [ih]
          cases h0 : buildRec st.aabbs dil n _ s0 st.q.nodes.size 0 with
          | none => rfl
          | some r0 =>
            obtain ⟨q1, c0, b0⟩ := r0
            simp only [Option.map_some]
            rw [ih]
            cases h1 : buildRec st.aabbs dil n q1 s1 st.q.nodes.size 1 with
            | none => rfl
            | some r1 =>
              obtain ⟨q2, c1, b1⟩ := r1
              simp only [Option.map_some]
              rw [ih]
              cases h2 : buildRec st.aabbs dil n q2 s2 st.q.nodes.size 2 with
              | none => rfl
              | some r2 =>
                obtain ⟨q3, c2, b2⟩ := r2
                simp only [Option.map_some]
                rw [ih]
                cases h3 : buildRec st.aabbs dil n q3 s3 st.q.nodes.size 3 with
                | none => rfl
                | some r3 =>
                  obtain ⟨q4, c3, b3⟩ := r3
                  simp only [Option.map_some]
                  cases q4.nodes[st.q.nodes.size]? with
                  | none => rfl
                  | some nd => rfl

/-- **`clear_and_rebuild` = `clear_and_rebuild_with_splitter(.., CenterDataSplitter { enable_fallback_split: true }, ..)`
in the model**: whenever `rebuild` returns a tree, `rebuildG (.center true)` returns the same tree and no pieces — so
every theorem about `rebuild` (`rebuild_inv`, `rebuild_boxInv`, the history theorems) is a theorem about this public
build path too. -/
theorem rebuildG_center_true_eq_rebuild (base : Nat) (q q' : Q K) (items : List (Nat × Aabb3 K)) (dil : K)
    (h : rebuild q items dil = some q') : rebuildG (.center true) base q items dil = some (q', []) := by
  unfold rebuild at h
  unfold rebuildG
  simp only [buildFuel]
  rw [buildRecG_center_true]
  try simp only at h
  split at h
  · cases h
  · next q1 c bb hb =>
    split at h
    · cases h
    · next r0 h0 =>
      simp only [Option.some.injEq] at h
      subst h
      simp only [hb, Option.map_some, h0, List.reverse_nil]

/-- **`rebuild_inv` for the splitter entry point**: `clear_and_rebuild_with_splitter` with the default centre splitter
establishes `Inv` from ANY previous state, for every list of leaves with pairwise different ids and arbitrary boxes. -/
theorem rebuildG_center_true_inv (base : Nat) (q : Q K) (items : List (Nat × Aabb3 K)) (dil : K)
    (hnd : (items.map (·.1)).Nodup) (hid : ∀ it ∈ items, it.1 < MAXN) (hlen : 4 * items.length + 2 ≤ MAXN) :
    ∃ q' : Q K, rebuildG (.center true) base q items dil = some (q', []) ∧ Inv q' ∧ q'.freeList = [] ∧ DataOk q' ∧
      q'.nodes.size ≤ 4 * items.length + 2 := by
  obtain ⟨q', e, inv, nf, _, _, d, c⟩ := rebuild_inv q items dil hnd hid hlen
  exact ⟨q', rebuildG_center_true_eq_rebuild base q q' items dil e, inv, nf, d, c⟩

/-- the callback never cuts a leaf it refuses, and hands out the fresh id it was given -/
theorem userCut_spec (refuse next data : Nat) (dl dr : Nat) (h : userCut refuse next data = some (dl, dr)) :
    dl = data ∧ dr = next ∧ ¬ (refuse > 0 ∧ data % refuse = 0) := by
  unfold userCut at h
  by_cases hc : refuse > 0 ∧ data % refuse = 0
  · simp only [hc, and_self, if_true] at h; cases h
  · simp only [hc, if_false, Option.some.injEq, Prod.mk.injEq] at h
    exact ⟨h.1.symm, h.2.symm, hc⟩

end structural

section boxes
variable {K : Type} [Field K] [LinearOrder K] [IsStrictOrderedRing K] (sq : K → K)

/-- point membership in a box -/
def InBox (b : Aabb3 K) (p : V3 K) : Prop :=
  b.mins.x ≤ p.x ∧ p.x ≤ b.maxs.x ∧ b.mins.y ≤ p.y ∧ p.y ≤ b.maxs.y ∧ b.mins.z ≤ p.z ∧ p.z ≤ b.maxs.z

/-- **`Aabb::canonical_split` tiles the box.**  Exact arithmetic, any axis, any bias, any `epsilon ≥ 0`: when the box is
cut, the plane lies strictly inside it (`mins[axis] < bias < maxs[axis]`), the negative-side piece keeps `mins`, the
positive-side piece keeps `maxs`, and a point is in the box iff it is in one of the two pieces — nothing is lost and
nothing is added (the clause a piece registered with its sibling's box breaks). -/
theorem canonicalSplit_tiles (b l r : Aabb3 K) (axis : Nat) (bias eps : K) (p : V3 K) :
    letI := fieldNum K sq
    0 ≤ eps → canonicalSplit b axis bias eps = some (l, r) →
      b.mins.get axis < bias ∧ bias < b.maxs.get axis ∧ l.mins = b.mins ∧ r.maxs = b.maxs ∧
      (InBox b p ↔ InBox l p ∨ InBox r p) := by
  letI := fieldNum K sq
  intro he h
  unfold canonicalSplit at h
  by_cases h1 : bias - eps ≤ b.mins.get axis
  · simp only [h1, if_true] at h; cases h
  · by_cases h2 : b.maxs.get axis ≤ bias + eps
    · simp only [h1, h2, if_true, if_false] at h; cases h
    · simp only [h1, h2, if_false, Option.some.injEq, Prod.mk.injEq] at h
      obtain ⟨rfl, rfl⟩ := h
      have hlo : b.mins.get axis < bias := by
        have : b.mins.get axis < bias - eps := lt_of_not_ge h1
        linarith
      have hhi : bias < b.maxs.get axis := by
        have : bias + eps < b.maxs.get axis := lt_of_not_ge h2
        linarith
      refine ⟨hlo, hhi, rfl, rfl, ?_⟩
      unfold InBox V3.set
      unfold V3.get at hlo hhi
      by_cases a0 : axis = 0
      · simp only [a0, if_true] at hlo hhi ⊢
        constructor
        · rintro ⟨h1, h2, h3, h4, h5, h6⟩
          rcases le_total p.x bias with hb | hb
          · exact Or.inl ⟨h1, hb, h3, h4, h5, h6⟩
          · exact Or.inr ⟨hb, h2, h3, h4, h5, h6⟩
        · rintro (⟨h1, h2, h3, h4, h5, h6⟩ | ⟨h1, h2, h3, h4, h5, h6⟩)
          · exact ⟨h1, by linarith, h3, h4, h5, h6⟩
          · exact ⟨by linarith, h2, h3, h4, h5, h6⟩
      · by_cases a1 : axis = 1
        · simp only [a1, if_true, one_ne_zero, if_false] at hlo hhi ⊢
          constructor
          · rintro ⟨h1, h2, h3, h4, h5, h6⟩
            rcases le_total p.y bias with hb | hb
            · exact Or.inl ⟨h1, h2, h3, hb, h5, h6⟩
            · exact Or.inr ⟨h1, h2, hb, h4, h5, h6⟩
          · rintro (⟨h1, h2, h3, h4, h5, h6⟩ | ⟨h1, h2, h3, h4, h5, h6⟩)
            · exact ⟨h1, h2, h3, by linarith, h5, h6⟩
            · exact ⟨h1, h2, by linarith, h4, h5, h6⟩
        · simp only [a0, a1, if_false] at hlo hhi ⊢
          constructor
          · rintro ⟨h1, h2, h3, h4, h5, h6⟩
            rcases le_total p.z bias with hb | hb
            · exact Or.inl ⟨h1, h2, h3, h4, h5, hb⟩
            · exact Or.inr ⟨h1, h2, h3, h4, hb, h6⟩
          · rintro (⟨h1, h2, h3, h4, h5, h6⟩ | ⟨h1, h2, h3, h4, h5, h6⟩)
            · exact ⟨h1, h2, h3, h4, h5, by linarith⟩
            · exact ⟨h1, h2, h3, h4, by linarith, h6⟩

end boxes

end C08
