import ParryModel.C08.RefitLemmas
/-!
# C08: `remove` and `pre_update_or_insert` (with the root-split correction) keep every out-of-date node queued
(`Tracked`, `DirtyQueued`, `DataOk`) — core Lean only.
-/
namespace C08
open Model Model.Qbvh
set_option linter.unusedSectionVars false
variable {K : Type} [Num K]

/-- attached proxies carry their own index as `data` (what `aabb_builder` is called with) -/
def DataOk (q : Q K) : Prop :=
  ∀ (p : Nat) (pr : Proxy), q.proxies[p]? = some pr → pr.node ≠ MAXN → pr.data = p

/-- everything the box argument needs between two refits -/
structure Full (q : Q K) (cur : Nat → Aabb3 K) : Prop where
  inv : Inv q
  tracked : Tracked q cur
  dq : DirtyQueued q
  data : DataOk q

/-- `GoodNode` is stable under changes that keep the node's lanes, the proxies attached to it with their current
boxes, and the boxes of its child nodes -/
theorem good_stable (q q' : Q K) (cur cur' : Nat → Aabb3 K) (n : Nat) (nd nd' : Node K) (h : Inv q)
    (hn : q.nodes[n]? = some nd) (hlive : Live q n)
    (e1 : nd'.children = nd.children) (e2 : nd'.leaf = nd.leaf) (e3 : nd'.boxes = nd.boxes)
    (hP : ∀ (c : Nat) (pr : Proxy), q.proxies[c]? = some pr → pr.node = n →
      ∃ pr' : Proxy, q'.proxies[c]? = some pr' ∧ cur' pr'.data = cur pr.data)
    (hPM : q'.proxies.size ≤ MAXN)
    (hN : nd.leaf = false → ∀ (l c : Nat), nd.children[l]? = some c →
      (q'.nodes[c]?).map (fun cn => cn.boxes) = (q.nodes[c]?).map (fun cn => cn.boxes))
    (hg : GoodNode q cur nd) : GoodNode q' cur' nd' := by
  unfold GoodNode at *
  rw [e3, freshBoxes_congr q q' cur cur' nd nd' e1 e2 ?_ hN]
  · exact hg
  · intro hleaf l c hc
    by_cases hcm : c = MAXN
    · subst hcm
      have a : q'.proxies[MAXN]? = none := Array.getElem?_eq_none (by omega)
      have b : q.proxies[MAXN]? = none := Array.getElem?_eq_none (by have := h.psmall; omega)
      rw [a, b]; rfl
    · obtain ⟨pr, hpr, p1, _⟩ := h.leafProxy n nd hn hlive hleaf l c hc hcm
      obtain ⟨pr', hpr', hcur⟩ := hP c pr hpr p1
      rw [hpr, hpr']; simp [hcur]

theorem full_remove (q q' : Q K) (cur : Nat → Aabb3 K) (id : Nat) (b : Bool) (h : Full q cur)
    (hr : remove q id = some (q', b)) : Full q' cur := by
  have hinv' : Inv q' := by
    obtain ⟨q2, b2, e, h2, _⟩ := inv_remove q id h.inv
    rw [e] at hr; cases hr; exact h2
  unfold remove at hr
  split at hr
  · cases hr; exact h
  · rename_i pr hpr
    split at hr
    · cases hr; exact h
    · rename_i nd hnd
      split at hr
      · cases hr
        have hlt : pr.node < q.nodes.size := (Array.getElem?_eq_some_iff.mp hnd).1
        have hne : pr.node ≠ MAXN := by have := h.inv.small; omega
        obtain ⟨hlive, nd', hnd', hleaf, hback⟩ := h.inv.proxyLeaf id pr hpr hne
        rw [hnd] at hnd'; cases hnd'
        have hidlt : id < q.proxies.size := (Array.getElem?_eq_some_iff.mp hpr).1
        -- the new work list contains the old one and the touched node
        have hsub : ∀ n : Nat, n ∈ q.dirtyNodes → n ∈ (if nd.dirty = true then q.dirtyNodes else pr.node :: q.dirtyNodes) := by
          intro n hn; split
          · exact hn
          · exact List.mem_cons_of_mem _ hn
        have hin : pr.node ∈ (if nd.dirty = true then q.dirtyNodes else pr.node :: q.dirtyNodes) := by
          split
          · rename_i hd; exact h.dq pr.node nd hnd hd
          · exact List.mem_cons_self
        have hget : ∀ n : Nat, (q.nodes.setIfInBounds pr.node
              ({ nd with children := nd.children.setIfInBounds pr.lane MAXN, dirty := true } : Node K))[n]? =
            if pr.node = n then some ({ nd with children := nd.children.setIfInBounds pr.lane MAXN, dirty := true } : Node K)
            else q.nodes[n]? := by
          intro n; simp only [Array.getElem?_setIfInBounds]; split
          · simp [hlt]
          · rfl
        refine ⟨hinv', ?_, ?_, ?_⟩
        · -- Tracked
          intro n ndn hn hlive'
          simp only at hn
          rw [hget] at hn
          split at hn
          · rename_i e; subst e; cases hn
            exact Or.inr ⟨rfl, hin⟩
          · rename_i hnn
            rcases h.tracked n ndn hn hlive' with g | ⟨d1, d2⟩
            · left
              apply good_stable q _ cur cur n ndn ndn h.inv hn hlive' rfl rfl rfl _ _ _ g
              · intro c pr0 hpr0 hp0
                have hcid : id ≠ c := by
                  intro e; subst e; rw [hpr] at hpr0; cases hpr0; exact hnn hp0
                exact ⟨pr0, by simp only [Array.getElem?_setIfInBounds, hcid, if_false]; exact hpr0, rfl⟩
              · simp; exact h.inv.psmall
              · intro _ l c _
                simp only
                rw [hget]
                split
                · rename_i e; subst e; simp [hnd]
                · rfl
            · exact Or.inr ⟨d1, hsub n d2⟩
        · -- DirtyQueued
          intro n ndn hn hd
          simp only at hn
          rw [hget] at hn
          split at hn
          · rename_i e; subst e; exact hin
          · exact hsub n (h.dq n ndn hn hd)
        · -- DataOk
          intro p pr0 hp hpn
          simp only [Array.getElem?_setIfInBounds] at hp
          split at hp
          · cases hp; simp [invalidProxy] at hpn
          · exact h.data p pr0 hp hpn
      · cases hr

theorem invalid_contains_merged_invalid (laws : BoxLaws K) :
    boxContains (invalidBox : Aabb3 K) (mergedBox (Vector.replicate 4 invalidBox)) = true := by
  apply laws.mergedLeast
  intro l b hb
  rw [Vector.getElem?_replicate] at hb
  split at hb
  · cases hb; exact laws.refl _
  · cases hb

theorem full_ensureRoot (laws : BoxLaws K) (q : Q K) (cur : Nat → Aabb3 K) (h : Full q cur) : Full (ensureRoot q) cur := by
  have hinv' := inv_ensureRoot q h.inv
  unfold ensureRoot at *
  split
  · rename_i h0
    simp only [h0, if_true] at hinv'
    have hps := h.inv.psmall
    have hcase : ∀ (n : Nat) (nd : Node K), (#[{ (emptyNode : Node K) with children := #v[1, MAXN, MAXN, MAXN] }, emptyLeaf 0 0] : Array (Node K))[n]? = some nd →
        (n = 0 ∧ nd = { (emptyNode : Node K) with children := #v[1, MAXN, MAXN, MAXN] }) ∨ (n = 1 ∧ nd = emptyLeaf 0 0) := by
      intro n nd hn
      have := (Array.getElem?_eq_some_iff.mp hn).1
      have hn' : n = 0 ∨ n = 1 := by simp at this; omega
      rcases hn' with rfl | rfl <;> simp at hn <;> simp [hn]
    have hM : q.proxies[MAXN]? = none := Array.getElem?_eq_none (by omega)
    refine ⟨hinv', ?_, ?_, h.data⟩
    · intro n nd hn hlive
      left
      rcases hcase n nd hn with ⟨rfl, rfl⟩ | ⟨rfl, rfl⟩
      · -- the root: lane 0 holds the (all-invalid) first leaf
        unfold GoodNode
        apply containsAll_of_lanes
        intro l x y hx hy
        simp only [emptyNode, Vector.getElem?_replicate] at hx
        split at hx
        · cases hx
          unfold freshBoxes at hy
          rw [Vector.getElem?_map] at hy
          rename_i hl
          have hl' : l = 0 ∨ l = 1 ∨ l = 2 ∨ l = 3 := by omega
          rcases hl' with rfl | rfl | rfl | rfl
          · simp [emptyLeaf, emptyNode] at hy
            subst hy; exact invalid_contains_merged_invalid laws
          all_goals
            simp [MAXN] at hy
            subst hy; exact laws.refl _
        · cases hx
      · -- the leaf: all lanes empty
        unfold GoodNode
        apply containsAll_of_lanes
        intro l x y hx hy
        simp only [emptyLeaf, emptyNode, Vector.getElem?_replicate] at hx
        split at hx
        · cases hx
          unfold freshBoxes at hy
          rw [Vector.getElem?_map] at hy
          simp only [emptyLeaf, emptyNode, Vector.getElem?_replicate] at hy
          rename_i hl
          simp [hl, hM] at hy
          subst hy; exact laws.refl _
        · cases hx
    · intro n nd hn hd
      rcases hcase n nd hn with ⟨rfl, rfl⟩ | ⟨rfl, rfl⟩ <;> simp [emptyLeaf, emptyNode] at hd
  · exact h

/-- generic transfer: same nodes and work list, proxies and current boxes changed only where no live leaf looks -/
theorem full_of_proxies (q : Q K) (ps : Array Proxy) (cur cur' : Nat → Aabb3 K) (h : Full q cur)
    (hinv' : Inv ({ q with proxies := ps } : Q K))
    (hP : ∀ (c : Nat) (pr : Proxy), q.proxies[c]? = some pr → pr.node ≠ MAXN →
      ∃ pr' : Proxy, ps[c]? = some pr' ∧ cur' pr'.data = cur pr.data)
    (hD : ∀ (p : Nat) (pr : Proxy), ps[p]? = some pr → pr.node ≠ MAXN → pr.data = p) :
    Full ({ q with proxies := ps } : Q K) cur' := by
  refine ⟨hinv', ?_, h.dq, hD⟩
  intro n nd hn hlive
  have hnM : n ≠ MAXN := by
    have hlt : n < q.nodes.size := (Array.getElem?_eq_some_iff.mp hn).1
    have := h.inv.small; omega
  rcases h.tracked n nd hn hlive with g | d
  · left
    apply good_stable q _ cur cur' n nd nd h.inv hn hlive rfl rfl rfl _ hinv'.psmall (fun _ _ _ _ => rfl) g
    intro c pr hpr hp
    exact hP c pr hpr (by rw [hp]; exact hnM)
  · exact Or.inr d

theorem full_ensureProxy (q : Q K) (cur : Nat → Aabb3 K) (id : Nat) (h : Full q cur) (hid : id < MAXN) :
    Full (ensureProxy q id) cur := by
  have hinv' := inv_ensureProxy q id h.inv hid
  unfold ensureProxy at *
  simp only at *
  have key : ∀ ps : Array Proxy, (∀ (p : Nat), p < q.proxies.size → ps[p]? = q.proxies[p]?) →
      (∀ (p : Nat) (pr : Proxy), q.proxies.size ≤ p → ps[p]? = some pr → pr.node = MAXN) →
      Inv (match ps[id]? with
        | some pr => { q with proxies := ps.setIfInBounds id { pr with data := id } }
        | none => { q with proxies := ps }) →
      Full (match ps[id]? with
        | some pr => { q with proxies := ps.setIfInBounds id { pr with data := id } }
        | none => { q with proxies := ps }) cur := by
    intro ps hps hps' hinv'
    split at hinv'
    · rename_i pr hpr
      apply full_of_proxies q _ cur cur h hinv'
      · intro c pr0 hpr0 hne
        have hlt := (Array.getElem?_eq_some_iff.mp hpr0).1
        have e := hps c hlt
        simp only [Array.getElem?_setIfInBounds]
        by_cases hc : id = c
        · subst hc
          rw [e, hpr0] at hpr; cases hpr
          have hsz := (Array.getElem?_eq_some_iff.mp (e.trans hpr0)).1
          refine ⟨⟨pr.node, pr.lane, id⟩, by simp [hsz], ?_⟩
          simp only; rw [h.data id pr hpr0 hne]
        · simp only [hc, if_false]; exact ⟨pr0, by rw [e]; exact hpr0, rfl⟩
      · intro p pr0 hp hne
        simp only [Array.getElem?_setIfInBounds] at hp
        by_cases hc : id = p
        · subst hc
          have hsz := (Array.getElem?_eq_some_iff.mp hpr).1
          simp [hsz] at hp; subst hp; rfl
        · simp only [hc, if_false] at hp
          by_cases hlt : p < q.proxies.size
          · rw [hps p hlt] at hp; exact h.data p pr0 hp hne
          · exact absurd (hps' p pr0 (by omega) hp) hne
    · rename_i hnone
      apply full_of_proxies q _ cur cur h hinv'
      · intro c pr0 hpr0 hne
        have hlt := (Array.getElem?_eq_some_iff.mp hpr0).1
        exact ⟨pr0, by rw [hps c hlt]; exact hpr0, rfl⟩
      · intro p pr0 hp hne
        by_cases hlt : p < q.proxies.size
        · rw [hps p hlt] at hp; exact h.data p pr0 hp hne
        · exact absurd (hps' p pr0 (by omega) hp) hne
  apply key _ _ _ hinv'
  · intro p hp; split
    · simp [Array.getElem?_append, hp]
    · rfl
  · intro p pr hp hpr; split at hpr
    · simp [Array.getElem?_append, Array.getElem?_replicate] at hpr
      have : ¬ p < q.proxies.size := by omega
      simp [this] at hpr; rw [← hpr.2]; rfl
    · have := (Array.getElem?_eq_some_iff.mp hpr).1; omega

theorem ensureProxy_data (q : Q K) (id : Nat) (pr : Proxy) (h : (ensureProxy q id).proxies[id]? = some pr) :
    pr.data = id := by
  unfold ensureProxy at h
  simp only at h
  split at h
  · rename_i pr0 hpr0
    have hsz := (Array.getElem?_eq_some_iff.mp hpr0).1
    simp [hsz] at h; rw [← h]
  · rename_i hnone; rw [hnone] at h; cases h

/-- the user's current box of a *detached* leaf may change freely -/
theorem full_cur_detached (q : Q K) (cur : Nat → Aabb3 K) (id : Nat) (box : Aabb3 K) (h : Full q cur)
    (hdet : ∀ pr : Proxy, q.proxies[id]? = some pr → pr.node = MAXN) :
    Full q (fun d => if d = id then box else cur d) := by
  have := full_of_proxies q q.proxies cur (fun d => if d = id then box else cur d) h h.inv ?_ h.data
  · exact this
  · intro c pr hpr hne
    refine ⟨pr, hpr, ?_⟩
    have hd := h.data c pr hpr hne
    have : c ≠ id := by intro e; subst e; exact hne (hdet pr hpr)
    simp only [hd, this, if_false]

/-- first path: the leaf is attached; its node is flagged and queued, the current box changes -/
theorem full_update_attached (q : Q K) (cur : Nat → Aabb3 K) (id : Nat) (box : Aabb3 K) (pr : Proxy) (nd : Node K)
    (h : Full q cur) (hpr : q.proxies[id]? = some pr) (hne : pr.node ≠ MAXN) (hnd : q.nodes[pr.node]? = some nd) :
    Full (if nd.dirty then q else markDirty q pr.node nd) (fun d => if d = id then box else cur d) := by
  have hlt : pr.node < q.nodes.size := (Array.getElem?_eq_some_iff.mp hnd).1
  -- every other live leaf keeps its current boxes
  have hother : ∀ (n : Nat) (ndn : Node K) (q' : Q K), q.nodes[n]? = some ndn → Live q n → n ≠ pr.node →
      q'.proxies = q.proxies →
      (ndn.leaf = false → ∀ (l c : Nat), ndn.children[l]? = some c →
        (q'.nodes[c]?).map (fun cn => cn.boxes) = (q.nodes[c]?).map (fun cn => cn.boxes)) →
      GoodNode q cur ndn → GoodNode q' (fun d => if d = id then box else cur d) ndn := by
    intro n ndn q' hn hlive hnn hps hN g
    apply good_stable q q' cur _ n ndn ndn h.inv hn hlive rfl rfl rfl _ (by rw [hps]; exact h.inv.psmall) hN g
    intro c pr0 hpr0 hp0
    refine ⟨pr0, by rw [hps]; exact hpr0, ?_⟩
    have hnM : pr0.node ≠ MAXN := by
      have hlt' : n < q.nodes.size := (Array.getElem?_eq_some_iff.mp hn).1
      have := h.inv.small; rw [hp0]; omega
    have hd := h.data c pr0 hpr0 hnM
    have : c ≠ id := by intro e; subst e; rw [hpr] at hpr0; cases hpr0; exact hnn hp0.symm
    simp only [hd, this, if_false]
  split
  · -- already dirty: by `DirtyQueued` it is queued
    rename_i hd
    refine ⟨h.inv, ?_, h.dq, h.data⟩
    intro n ndn hn hlive
    by_cases hnn : n = pr.node
    · subst hnn; rw [hnd] at hn; cases hn
      exact Or.inr ⟨hd, h.dq _ nd hnd hd⟩
    · rcases h.tracked n ndn hn hlive with g | d
      · exact Or.inl (hother n ndn q hn hlive hnn rfl (fun _ _ _ _ => rfl) g)
      · exact Or.inr d
  · rename_i hd
    have hget : ∀ n : Nat, (q.nodes.setIfInBounds pr.node ({ nd with dirty := true } : Node K))[n]? =
        if pr.node = n then some ({ nd with dirty := true } : Node K) else q.nodes[n]? := by
      intro n; simp only [Array.getElem?_setIfInBounds]; split
      · simp [hlt]
      · rfl
    unfold markDirty
    refine ⟨h.inv.of_topoEq (topoEq_markDirty q pr.node nd hnd), ?_, ?_, h.data⟩
    · intro n ndn hn hlive
      simp only at hn
      rw [hget] at hn
      split at hn
      · rename_i e; subst e; cases hn
        exact Or.inr ⟨rfl, List.mem_cons_self⟩
      · rename_i hnn
        rcases h.tracked n ndn hn hlive with g | ⟨d1, d2⟩
        · left
          apply hother n ndn ({ q with nodes := q.nodes.setIfInBounds pr.node ({ nd with dirty := true } : Node K), dirtyNodes := pr.node :: q.dirtyNodes } : Q K) hn hlive (Ne.symm hnn) rfl _ g
          intro _ l c _
          simp only
          rw [hget]; split
          · rename_i e; subst e; simp [hnd]
          · rfl
        · exact Or.inr ⟨d1, List.mem_cons_of_mem _ d2⟩
    · intro n ndn hn hdn
      simp only at hn
      rw [hget] at hn
      split at hn
      · rename_i e; subst e; exact List.mem_cons_self
      · exact List.mem_cons_of_mem _ (h.dq n ndn hn hdn)

theorem full_attachProxy (q : Q K) (cur : Nat → Aabb3 K) (id child kk : Nat) (cn : Node K) (pr : Proxy) (h : Full q cur)
    (hcn : q.nodes[child]? = some cn) (hleaf : cn.leaf = true) (hlive : Live q child)
    (hkk : cn.children[kk]? = some MAXN) (hpr : q.proxies[id]? = some pr) (hdet : pr.node = MAXN)
    (hdata : pr.data = id) :
    Full (attachProxy q id child kk cn) cur := by
  have hinv' := inv_attachProxy q id child kk cn pr h.inv hcn hleaf hlive hkk hpr hdet
  have hlt : child < q.nodes.size := (Array.getElem?_eq_some_iff.mp hcn).1
  have hidlt : id < q.proxies.size := (Array.getElem?_eq_some_iff.mp hpr).1
  unfold attachProxy at hinv' ⊢
  simp only [hpr] at hinv' ⊢
  have hget : ∀ n : Nat, (q.nodes.setIfInBounds child
        ({ cn with children := cn.children.setIfInBounds kk id, dirty := true } : Node K))[n]? =
      if child = n then some ({ cn with children := cn.children.setIfInBounds kk id, dirty := true } : Node K)
      else q.nodes[n]? := by
    intro n; simp only [Array.getElem?_setIfInBounds]; split
    · simp [hlt]
    · rfl
  have hsub : ∀ n : Nat, n ∈ q.dirtyNodes → n ∈ (if cn.dirty = true then q.dirtyNodes else child :: q.dirtyNodes) := by
    intro n hn; split
    · exact hn
    · exact List.mem_cons_of_mem _ hn
  have hin : child ∈ (if cn.dirty = true then q.dirtyNodes else child :: q.dirtyNodes) := by
    split
    · rename_i hd; exact h.dq child cn hcn hd
    · exact List.mem_cons_self
  refine ⟨hinv', ?_, ?_, ?_⟩
  · intro n ndn hn hlive'
    simp only at hn
    rw [hget] at hn
    split at hn
    · rename_i e; subst e; cases hn; exact Or.inr ⟨rfl, hin⟩
    · rename_i hnn
      rcases h.tracked n ndn hn hlive' with g | ⟨d1, d2⟩
      · left
        apply good_stable q _ cur cur n ndn ndn h.inv hn hlive' rfl rfl rfl _ hinv'.psmall _ g
        · intro c pr0 hpr0 hp0
          have hnM : pr0.node ≠ MAXN := by
            have hlt' : n < q.nodes.size := (Array.getElem?_eq_some_iff.mp hn).1
            have := h.inv.small; rw [hp0]; omega
          have hcid : id ≠ c := by
            intro e; subst e; rw [hpr] at hpr0; cases hpr0; exact hnM hdet
          exact ⟨pr0, by simp only [Array.getElem?_setIfInBounds, hcid, if_false]; exact hpr0, rfl⟩
        · intro _ l c _
          simp only
          rw [hget]; split
          · rename_i e; subst e; simp [hcn]
          · rfl
      · exact Or.inr ⟨d1, hsub n d2⟩
  · intro n ndn hn hd
    simp only at hn
    rw [hget] at hn
    split at hn
    · rename_i e; subst e; exact hin
    · exact hsub n (h.dq n ndn hn hd)
  · intro p pr0 hp hpn
    simp only [Array.getElem?_setIfInBounds] at hp
    split at hp
    · rename_i e; subst e
      simp [hidlt] at hp; subst hp; exact hdata
    · exact h.data p pr0 hp hpn

theorem fresh_internal_lane (q : Q K) (cur : Nat → Aabb3 K) (nd : Node K) (l c : Nat) (hleaf : nd.leaf = false)
    (hc : nd.children[l]? = some c) :
    (freshBoxes q cur nd)[l]? = some (match q.nodes[c]? with
      | some cn => mergedBox cn.boxes
      | none => invalidBox) := by
  unfold freshBoxes
  rw [Vector.getElem?_map, hc]
  simp only [Option.map_some, hleaf, Bool.false_eq_true, if_false]
  cases q.nodes[c]? <;> rfl

theorem fresh_leaf_lane (q : Q K) (cur : Nat → Aabb3 K) (nd : Node K) (l c : Nat) (hleaf : nd.leaf = true)
    (hc : nd.children[l]? = some c) :
    (freshBoxes q cur nd)[l]? = some (match q.proxies[c]? with
      | some pr => cur pr.data
      | none => invalidBox) := by
  unfold freshBoxes
  rw [Vector.getElem?_map, hc]
  simp only [Option.map_some, hleaf, if_true]
  cases q.proxies[c]? <;> rfl

theorem full_addRootLeaf (laws : BoxLaws K) (q : Q K) (cur : Nat → Aabb3 K) (root : Node K) (ii : Nat) (h : Full q cur)
    (hroot : q.nodes[0]? = some root) (hch : root.children[ii]? = some MAXN) (hsz : q.nodes.size + 1 ≤ MAXN) :
    Full (addRootLeaf q root ii) cur := by
  have hinv' := inv_addRootLeaf q root ii h.inv hroot hch hsz
  have hpos : 0 < q.nodes.size := (Array.getElem?_eq_some_iff.mp hroot).1
  obtain ⟨hrleaf, hrlive, hrc, h00⟩ := root_facts q root h.inv hroot
  have hii : ii < 4 := by rcases vec4_lane _ _ _ hch with rfl | rfl | rfl | rfl <;> omega
  have hpM : q.proxies[MAXN]? = none := Array.getElem?_eq_none (by have := h.inv.psmall; omega)
  unfold addRootLeaf at hinv' ⊢
  have hget : ∀ n : Nat, ((q.nodes.push (emptyLeaf 0 ii)).setIfInBounds 0
        ({ root with children := root.children.setIfInBounds ii q.nodes.size } : Node K))[n]? =
      if n = 0 then some ({ root with children := root.children.setIfInBounds ii q.nodes.size } : Node K)
      else if n = q.nodes.size then some (emptyLeaf 0 ii) else q.nodes[n]? := by
    intro n
    simp only [Array.getElem?_setIfInBounds, Array.getElem?_push, Array.size_push]
    by_cases h0 : n = 0
    · subst h0; simp
    · have : ¬ (0 = n) := fun e => h0 e.symm
      simp only [this, h0, if_false]
  -- boxes of every existing node are unchanged
  have hboxes : ∀ c : Nat, c ≠ q.nodes.size →
      (((q.nodes.push (emptyLeaf 0 ii)).setIfInBounds 0
        ({ root with children := root.children.setIfInBounds ii q.nodes.size } : Node K))[c]?).map (fun cn => cn.boxes) =
      (q.nodes[c]?).map (fun cn => cn.boxes) := by
    intro c hc
    rw [hget]
    by_cases h0 : c = 0
    · subst h0; simp [hroot]
    · simp only [h0, hc, if_false]
  have hrleaf' : ({ root with children := root.children.setIfInBounds ii q.nodes.size } : Node K).leaf = false := hrleaf
  refine ⟨hinv', ?_, ?_, h.data⟩
  · intro n ndn hn hlive
    simp only at hn
    rw [hget] at hn
    split at hn
    · -- the root
      rename_i e; subst e; cases hn
      rcases h.tracked 0 root hroot hrlive with g | d
      · left
        unfold GoodNode at *
        apply containsAll_of_lanes
        intro l x y hx hy
        simp only at hx
        have hl : l < 4 := by rcases vec4_lane _ _ _ hx with e | e | e | e <;> omega
        obtain ⟨y0, hy0⟩ : ∃ y0, (freshBoxes q cur root)[l]? = some y0 := ⟨(freshBoxes q cur root)[l], by simp [hl]⟩
        have hxy0 := containsAll_lane _ _ g l x y0 hx hy0
        by_cases hli : l = ii
        · subst hli
          rw [fresh_internal_lane q cur root l MAXN hrleaf hch] at hy0
          have hnM : q.nodes[MAXN]? = none := Array.getElem?_eq_none (by omega)
          rw [hnM] at hy0; simp only [Option.some.injEq] at hy0; subst hy0
          rw [fresh_internal_lane _ cur _ l q.nodes.size hrleaf' (by simp [hl])] at hy
          simp only at hy
          rw [hget] at hy
          have : q.nodes.size ≠ 0 := by omega
          simp only [this, if_false, if_true, Option.some.injEq] at hy
          subst hy
          exact laws.trans _ _ _ hxy0 (invalid_contains_merged_invalid laws)
        · cases hc : root.children[l]? with
          | none => simp [hl] at hc
          | some c =>
            rw [fresh_internal_lane q cur root l c hrleaf hc] at hy0
            rw [fresh_internal_lane _ cur _ l c hrleaf'
              (by simp only [Vector.getElem?_setIfInBounds, Ne.symm hli, if_false]; exact hc)] at hy
            simp only [Option.some.injEq] at hy hy0
            have hcL : c ≠ q.nodes.size := by
              by_cases hcm : c = MAXN
              · omega
              · obtain ⟨_, _, cn, hcn, _⟩ := hrc l c hc hcm
                have := (Array.getElem?_eq_some_iff.mp hcn).1; omega
            have hb := hboxes c hcL
            cases h1 : ((q.nodes.push (emptyLeaf 0 ii)).setIfInBounds 0
                ({ root with children := root.children.setIfInBounds ii q.nodes.size } : Node K))[c]? <;>
              cases h2 : q.nodes[c]? <;> simp [h1, h2] at hb hy hy0
            · subst hy; subst hy0; exact hxy0
            · subst hy; subst hy0; rw [hb]; exact hxy0
      · exact Or.inr d
    · split at hn
      · -- the new leaf: all lanes empty, all boxes invalid
        cases hn
        left
        unfold GoodNode
        apply containsAll_of_lanes
        intro l x y hx hy
        simp only [emptyLeaf, emptyNode, Vector.getElem?_replicate] at hx
        split at hx
        · cases hx
          unfold freshBoxes at hy
          rw [Vector.getElem?_map] at hy
          simp only [emptyLeaf, emptyNode, Vector.getElem?_replicate] at hy
          rename_i hl
          simp [hl, hpM] at hy
          subst hy; exact laws.refl _
        · cases hx
      · rename_i hn0 hnL
        have hlive' : Live q n := hlive
        rcases h.tracked n ndn hn hlive' with g | d
        · left
          apply good_stable q _ cur cur n ndn ndn h.inv hn hlive' rfl rfl rfl _ hinv'.psmall _ g
          · intro c pr0 hpr0 _; exact ⟨pr0, hpr0, rfl⟩
          · intro hleaf l c hc
            simp only
            apply hboxes
            by_cases hcm : c = MAXN
            · omega
            · obtain ⟨_, _, cn, hcn, _⟩ := h.inv.child n ndn hn hlive' hleaf l c hc hcm
              have := (Array.getElem?_eq_some_iff.mp hcn).1; omega
        · exact Or.inr d
  · intro n ndn hn hd
    simp only at hn
    rw [hget] at hn
    split at hn
    · rename_i e; subst e; cases hn; exact h.dq 0 root hroot hd
    · split at hn
      · cases hn; simp [emptyLeaf, emptyNode] at hd
      · exact h.dq n ndn hn hd

theorem full_attachLoop (laws : BoxLaws K) (cur : Nat → Aabb3 K) (id : Nat) (pr : Proxy) (lanes : List Nat) :
    ∀ (q : Q K), Full q cur → q.proxies[id]? = some pr → pr.node = MAXN → pr.data = id → (∀ l ∈ lanes, l < 4) →
      0 < q.nodes.size → q.nodes.size + lanes.length ≤ MAXN →
      ∀ (q' : Q K) (b : Bool), attachLoop id lanes q = some (q', b) → Full q' cur := by
  induction lanes with
  | nil => intro q h _ _ _ _ _ _ q' b hr; simp only [attachLoop, Option.some.injEq, Prod.mk.injEq] at hr; rw [← hr.1]; exact h
  | cons ii rest ih =>
    intro q h hpr hdet hdata hl hpos hsz q' b hr
    have hii : ii < 4 := hl ii (by simp)
    have hl' : ∀ l ∈ rest, l < 4 := fun l hm => hl l (by simp [hm])
    simp only [List.length_cons] at hsz
    obtain ⟨root, hroot⟩ : ∃ root : Node K, q.nodes[0]? = some root := ⟨q.nodes[0], by simp [hpos]⟩
    obtain ⟨hrleaf, hrlive, hrc, h00⟩ := root_facts q root h.inv hroot
    obtain ⟨child0, hchild0⟩ : ∃ c : Nat, root.children[ii]? = some c := ⟨root.children[ii], by simp [hii]⟩
    unfold attachLoop at hr
    simp only [hroot, hchild0] at hr
    by_cases hmiss : child0 = MAXN
    · subst hmiss
      simp only [if_true] at hr
      have h1 := full_addRootLeaf laws q cur root ii h hroot hchild0 (by omega)
      have hnew : (addRootLeaf q root ii).nodes[q.nodes.size]? = some (emptyLeaf 0 ii) := by
        unfold addRootLeaf
        simp only [Array.getElem?_setIfInBounds, Array.getElem?_push]
        have : (0:Nat) ≠ q.nodes.size := by omega
        simp [this]
      simp only [hnew] at hr
      have hff : firstFree (emptyLeaf 0 ii : Node K).children = some 0 := by
        simp [firstFree, emptyLeaf, emptyNode]
      have hlf : (emptyLeaf 0 ii : Node K).leaf = true := rfl
      simp only [hlf, hff, Bool.not_true, Bool.false_eq_true, if_false, Option.some.injEq, Prod.mk.injEq] at hr
      have hprox1 : (addRootLeaf q root ii).proxies[id]? = some pr := hpr
      have hlive1 : Live (addRootLeaf q root ii) q.nodes.size := fun hm => Nat.lt_irrefl _ (h.inv.freeBound _ hm)
      rw [← hr.1]
      exact full_attachProxy _ cur id q.nodes.size 0 _ pr h1 hnew hlf hlive1 (by simp [emptyLeaf, emptyNode]) hprox1 hdet hdata
    · simp only [hmiss, if_false] at hr
      obtain ⟨c0, clive, cn, hcn, cp, cl⟩ := hrc ii child0 hchild0 hmiss
      simp only [hcn] at hr
      by_cases hleaf : cn.leaf = true
      · simp only [hleaf, Bool.not_true, Bool.false_eq_true, if_false] at hr
        cases hff : firstFree cn.children with
        | none =>
          simp only [hff] at hr
          exact ih q h hpr hdet hdata hl' hpos (by omega) q' b hr
        | some kk =>
          simp only [hff, Option.some.injEq, Prod.mk.injEq] at hr
          rw [← hr.1]
          exact full_attachProxy q cur id child0 kk cn pr h hcn hleaf clive (firstFree_spec _ _ hff) hpr hdet hdata
      · have hleaf' : cn.leaf = false := by cases hc : cn.leaf <;> simp_all
        simp only [hleaf', Bool.not_false, if_true] at hr
        exact ih q h hpr hdet hdata hl' hpos (by omega) q' b hr

attribute [local irreducible] splitNodes

/-- the corrected root split keeps every out-of-date node queued -/
theorem full_splitRoot (q q' : Q K) (cur : Nat → Aabb3 K) (id : Nat) (pr : Proxy) (h : Full q cur)
    (hpr : q.proxies[id]? = some pr) (hdet : pr.node = MAXN) (hdata : pr.data = id) (hsz : q.nodes.size + 2 ≤ MAXN)
    (hs : splitRoot true q id = some q') : Full q' cur := by
  have hinv' := inv_splitRoot true q q' id pr h.inv hpr hdet hsz hs
  unfold splitRoot splitRootPinned at hs
  split at hs
  · cases hs
  · rename_i root hroot
    simp only [hpr, Option.map_some, if_true, Option.some.injEq] at hs
    have hpos : 0 < q.nodes.size := (Array.getElem?_eq_some_iff.mp hroot).1
    obtain ⟨hrleaf, hrlive, hrc, h00⟩ := root_facts q root h.inv hroot
    have v := splitView q root id hroot h00
    have hidlt : id < q.proxies.size := (Array.getElem?_eq_some_iff.mp hpr).1
    have hL : Live q q.nodes.size := fun hm => Nat.lt_irrefl _ (h.inv.freeBound _ hm)
    have hL1 : Live q (q.nodes.size + 1) := fun hm => by have := h.inv.freeBound _ hm; omega
    -- description of the final state
    obtain ⟨ns, dl, hq', hns0, hnsne, hdl, hroot_dq⟩ : ∃ (ns : Array (Node K)) (dl : List Nat),
        q' = { q with nodes := ns, dirtyNodes := dl,
                      proxies := q.proxies.setIfInBounds id (⟨q.nodes.size + 1, 0, pr.data⟩ : Proxy) } ∧
        (∃ r0 : Node K, ns[0]? = some r0 ∧ r0.dirty = true ∧ r0.boxes = root.boxes ∧
            r0.children = (newRoot q root).children ∧ r0.leaf = root.leaf) ∧
        (∀ n : Nat, n ≠ 0 → ns[n]? = (splitNodes q root id)[n]?) ∧
        (∀ n : Nat, n ∈ q.dirtyNodes ∨ n = q.nodes.size + 1 → n ∈ dl) ∧
        (0 ∈ dl ∧ (root.dirty = true → q.nodes.size ∈ dl)) := by
      unfold scheduleRoot at hs
      split at hs
      · rename_i hd
        refine ⟨_, _, hs.symm, ⟨_, v.g0, by simp [newRoot, hd], rfl, rfl, rfl⟩, fun _ _ => rfl, ?_, ?_, ?_⟩
        · intro n hn; rcases hn with hn | hn
          · simp [hn]
          · simp [hn]
        · have := h.dq 0 root hroot hd; simp [this]
        · intro _; simp
      · rename_i hd
        simp only [v.g0] at hs
        refine ⟨_, _, hs.symm, ?_, ?_, ?_, ?_, ?_⟩
        · have hsz0 : 0 < (splitNodes q root id).size := by rw [size_splitNodes]; omega
          exact ⟨({ newRoot q root with dirty := true } : Node K), by simp [hsz0], rfl, rfl, rfl, rfl⟩
        · intro n hn
          simp only [Array.getElem?_setIfInBounds, Ne.symm hn, if_false]
        · intro n hn; rcases hn with hn | hn
          · simp [hn]
          · simp [hn]
        · simp
        · intro hd'; exact absurd hd' hd
    subst hq'
    obtain ⟨r0, hr0, hr0d, hr0b, hr0c, hr0l⟩ := hns0
    have hsmall := h.inv.small
    -- boxes of old nodes are unchanged; indices beyond the new nodes are empty
    have hbox : ∀ c : Nat, c ≠ 0 → c ≠ q.nodes.size → c ≠ q.nodes.size + 1 →
        (ns[c]?).map (fun cn => cn.boxes) = (q.nodes[c]?).map (fun cn => cn.boxes) := by
      intro c c0 c1 c2
      rw [hnsne c c0]
      cases hq : q.nodes[c]? with
      | none =>
        cases hsn : (splitNodes q root id)[c]? with
        | none => rfl
        | some nd =>
          exfalso
          rcases v.inv c nd hsn with ⟨e, _⟩ | ⟨e, _⟩ | ⟨e, _⟩ | ⟨_, _, nd0, hnd0, _⟩
          · exact c0 e
          · exact c1 e
          · exact c2 e
          · rw [hq] at hnd0; cases hnd0
      | some cn =>
        by_cases hrc' : IsRootChild root c
        · rw [v.gc c cn hq c0 hrc']; rfl
        · rw [v.go c cn hq c0 hrc']
    -- a valid child of a live internal old node is an old non-root node
    have hchild_old : ∀ (n : Nat) (ndn : Node K), q.nodes[n]? = some ndn → Live q n → ndn.leaf = false →
        ∀ (l c : Nat), ndn.children[l]? = some c → c ≠ 0 ∧ c ≠ q.nodes.size ∧ c ≠ q.nodes.size + 1 := by
      intro n ndn hn hlive hleaf l c hc
      by_cases hcm : c = MAXN
      · subst hcm; refine ⟨by simp [MAXN], by omega, by omega⟩
      · obtain ⟨c0, _, cn, hcn, _⟩ := h.inv.child n ndn hn hlive hleaf l c hc hcm
        have := (Array.getElem?_eq_some_iff.mp hcn).1
        exact ⟨c0, by omega, by omega⟩
    -- proxies attached to a node of the old tree are untouched
    have hprox_old : ∀ (n : Nat) (c : Nat) (pr0 : Proxy), q.proxies[c]? = some pr0 → pr0.node = n → n ≠ MAXN →
        ∃ pr' : Proxy, (q.proxies.setIfInBounds id (⟨q.nodes.size + 1, 0, pr.data⟩ : Proxy))[c]? = some pr' ∧
          cur pr'.data = cur pr0.data := by
      intro n c pr0 hpr0 hp0 hnM
      have hcid : id ≠ c := by
        intro e; subst e; rw [hpr] at hpr0; cases hpr0; exact hnM (hp0 ▸ hdet)
      exact ⟨pr0, by simp only [Array.getElem?_setIfInBounds, hcid, if_false]; exact hpr0, rfl⟩
    -- transfer of goodness for a node of the old tree (possibly re-parented or moved)
    have hgood_old : ∀ (n : Nat) (ndn nd' : Node K), q.nodes[n]? = some ndn → Live q n →
        nd'.children = ndn.children → nd'.leaf = ndn.leaf → nd'.boxes = ndn.boxes → GoodNode q cur ndn →
        GoodNode ({ q with nodes := ns, dirtyNodes := dl, proxies := q.proxies.setIfInBounds id (⟨q.nodes.size + 1, 0, pr.data⟩ : Proxy) } : Q K) cur nd' := by
      intro n ndn nd' hn hlive e1 e2 e3 g
      have hnM : n ≠ MAXN := by have := (Array.getElem?_eq_some_iff.mp hn).1; omega
      apply good_stable q _ cur cur n ndn nd' h.inv hn hlive e1 e2 e3 _ hinv'.psmall _ g
      · intro c pr0 hpr0 hp0; exact hprox_old n c pr0 hpr0 hp0 hnM
      · intro hleaf l c hc
        obtain ⟨c0, c1, c2⟩ := hchild_old n ndn hn hlive hleaf l c hc
        exact hbox c c0 c1 c2
    refine ⟨hinv', ?_, ?_, ?_⟩
    · -- Tracked
      intro n ndn hn hlive
      have hlive' : Live q n := hlive
      simp only at hn
      by_cases hn0 : n = 0
      · subst hn0; rw [hr0] at hn; cases hn
        exact Or.inr ⟨hr0d, hroot_dq.1⟩
      · rw [hnsne n hn0] at hn
        rcases v.inv n ndn hn with ⟨e, _⟩ | ⟨e1, e2⟩ | ⟨e1, e2⟩ | ⟨_, hnlt, nd0, hq, hcase⟩
        · exact absurd e hn0
        · -- the moved old root
          subst e1; subst e2
          rcases h.tracked 0 root hroot hrlive with g | ⟨d1, _⟩
          · exact Or.inl (hgood_old 0 root (movedRoot root) hroot hrlive rfl rfl rfl g)
          · exact Or.inr ⟨d1, hroot_dq.2 d1⟩
        · subst e1; subst e2
          exact Or.inr ⟨rfl, hdl _ (Or.inr rfl)⟩
        · rcases h.tracked n nd0 hq hlive' with g | ⟨d1, d2⟩
          · left
            rcases hcase with ⟨_, e⟩ | ⟨_, e⟩ <;> subst e
            · exact hgood_old n nd0 _ hq hlive' rfl rfl rfl g
            · exact hgood_old n ndn ndn hq hlive' rfl rfl rfl g
          · right
            have hdn : ndn.dirty = true := by
              rcases hcase with ⟨_, e⟩ | ⟨_, e⟩ <;> subst e <;> exact d1
            exact ⟨hdn, hdl n (Or.inl d2)⟩
    · -- DirtyQueued
      intro n ndn hn hd
      simp only at hn
      by_cases hn0 : n = 0
      · subst hn0; exact hroot_dq.1
      · rw [hnsne n hn0] at hn
        rcases v.inv n ndn hn with ⟨e, _⟩ | ⟨e1, e2⟩ | ⟨e1, e2⟩ | ⟨_, hnlt, nd0, hq, hcase⟩
        · exact absurd e hn0
        · subst e1; subst e2; exact hroot_dq.2 hd
        · subst e1; exact hdl _ (Or.inr rfl)
        · have hdn : nd0.dirty = true := by
            rcases hcase with ⟨_, e⟩ | ⟨_, e⟩ <;> subst e <;> exact hd
          exact hdl n (Or.inl (h.dq n nd0 hq hdn))
    · -- DataOk
      intro p pr0 hp hpn
      simp only [Array.getElem?_setIfInBounds] at hp
      split at hp
      · rename_i e; subst e
        simp [hidlt] at hp; subst hp; exact hdata
      · exact h.data p pr0 hp hpn

/-- **`pre_update_or_insert` (corrected root split) keeps every out-of-date node queued**, on all three paths, when
the user's current box of leaf `id` becomes `box` -/
theorem full_preUpdateOrInsert (laws : BoxLaws K) (q q' : Q K) (cur : Nat → Aabb3 K) (id : Nat) (box : Aabb3 K)
    (h : Full q cur) (hid : id < MAXN) (hsz : q.nodes.size + 8 ≤ MAXN)
    (hq : preUpdateOrInsert true q id = some q') : Full q' (fun d => if d = id then box else cur d) := by
  have h1 : Full (ensureProxy (ensureRoot q) id) cur := full_ensureProxy _ cur id (full_ensureRoot laws q cur h) hid
  obtain ⟨hpos, hle⟩ := ensureRoot_size q
  have hnodes := ensureProxy_nodes (ensureRoot q) id
  obtain ⟨pr, hpr⟩ := ensureProxy_get (ensureRoot q) id
  have hdata := ensureProxy_data (ensureRoot q) id pr hpr
  unfold preUpdateOrInsert at hq
  simp only [hpr] at hq
  by_cases hdet : pr.node = MAXN
  · simp only [hdet, if_true] at hq
    have h2 := full_cur_detached _ cur id box h1 (fun pr0 hp0 => by rw [hpr] at hp0; cases hp0; exact hdet)
    obtain ⟨q2, b, e1, e2, e3, e4⟩ := inv_attachLoop id pr [0, 1, 2, 3] _ h1.inv hpr hdet (by simp)
      (by rw [hnodes]; exact hpos) (by rw [hnodes]; simp; omega)
    have e5 := attachLoop_size_mono id _ _ _ _ e1
    have hf2 := full_attachLoop laws _ id pr [0, 1, 2, 3] _ h2 hpr hdet hdata (by simp)
      (by rw [hnodes]; exact hpos) (by rw [hnodes]; simp; omega) q2 b e1
    rw [hnodes] at e4 e5; simp at e4
    rw [e1] at hq
    cases b with
    | true => simp only [Option.some.injEq] at hq; rw [← hq]; exact hf2
    | false =>
      simp only at hq
      have hpr2 : q2.proxies[id]? = some pr := by rw [e3 rfl]; exact hpr
      exact full_splitRoot q2 q' _ id pr hf2 hpr2 hdet hdata (by omega) hq
  · simp only [hdet, if_false] at hq
    obtain ⟨plive, nd, hnd, _, _⟩ := h1.inv.proxyLeaf id pr hpr hdet
    simp only [hnd] at hq
    have := full_update_attached _ cur id box pr nd h1 hpr hdet hnd
    split at hq
    · rename_i hd; simp only [Option.some.injEq] at hq; rw [← hq]; simpa [hd] using this
    · rename_i hd; simp only [Option.some.injEq] at hq; rw [← hq]; simpa [hd] using this


/-! ### `refit` leaves the proxies alone -/

theorem flagParent_proxies (q : Q K) (p : Nat) (ps : List Nat) : (flagParent q p ps).1.proxies = q.proxies := by
  unfold flagParent; split
  · split <;> rfl
  · rfl

theorem refitNode_proxies (cur : Nat → Aabb3 K) (margin : K) (first : Bool) (st : Q K × List Nat × Nat) (id : Nat) :
    (refitNode cur margin first st id).1.proxies = st.1.proxies := by
  obtain ⟨q, parents, num⟩ := st
  unfold refitNode
  simp only
  split
  · rfl
  · split
    · rw [flagParent_proxies]
    · rfl

theorem foldl_refitNode_proxies (cur : Nat → Aabb3 K) (margin : K) (first : Bool) (l : List Nat) :
    ∀ st : Q K × List Nat × Nat, (l.foldl (refitNode cur margin first) st).1.proxies = st.1.proxies := by
  induction l with
  | nil => intro st; rfl
  | cons a l ih => intro st; simp only [List.foldl_cons]; rw [ih, refitNode_proxies]

theorem refitLoop_proxies (cur : Nat → Aabb3 K) (margin : K) (fuel : Nat) :
    ∀ (first : Bool) (q : Q K) (num : Nat) (r : Q K × Nat), refitLoop cur margin fuel first q num = some r →
      r.1.proxies = q.proxies := by
  induction fuel with
  | zero =>
    intro first q num r h
    unfold refitLoop at h
    split at h
    · cases h; rfl
    · cases h
  | succ fuel ih =>
    intro first q num r h
    unfold refitLoop at h
    split at h
    · cases h; rfl
    · rw [ih _ _ _ _ h]
      unfold refitRound
      simp only
      rw [foldl_refitNode_proxies]

/-- `refit` re-establishes `Full` (with `BoxInv`) from `Full` -/
theorem full_refit (laws : BoxLaws K) (q : Q K) (cur : Nat → Aabb3 K) (margin : K) (hm : (0 : K) ≤ margin)
    (h : Full q cur) (r : Q K × Nat) (hr : refit q cur margin = some r) : Full r.1 cur ∧ BoxInv r.1 cur := by
  obtain ⟨hi, hb, _, hc⟩ := refit_establishes laws q cur margin hm h.inv h.tracked h.dq r hr
  refine ⟨⟨hi, tracked_of_boxInv _ _ hb, dirtyQueued_of_clean _ hc, ?_⟩, hb⟩
  have hp : r.1.proxies = q.proxies := by
    obtain ⟨r0, h0, rfl⟩ := refit_eq q cur margin r hr
    simpa using refitLoop_proxies cur margin _ _ _ _ _ h0
  intro p pr hpr hne
  rw [hp] at hpr
  exact h.data p pr hpr hne

theorem full_empty (cur : Nat → Aabb3 K) : Full (Q.empty : Q K) cur := by
  refine ⟨inv_empty, ?_, ?_, ?_⟩
  · intro n nd hn; simp [Q.empty] at hn
  · intro n nd hn; simp [Q.empty] at hn
  · intro p pr hp; simp [Q.empty] at hp

/-! ### the executable box / work-list checks are sound -/

theorem contains_iff_mem (l : List Nat) (n : Nat) : l.contains n = true ↔ n ∈ l := by simp

theorem checkFresh_sound (q : Q K) (cur : Nat → Aabb3 K) (h : checkFresh q cur = true) : BoxInv q cur := by
  intro n nd hn hlive
  have hlt := (Array.getElem?_eq_some_iff.mp hn).1
  have := (all_range_iff _ _).1 h n hlt
  simp only [hn, Bool.or_eq_true, Bool.not_eq_true'] at this
  rcases this with hl | hg
  · exact absurd ((isLive_iff q n).2 hlive) (by simp [hl])
  · exact hg

theorem checkTracked_sound (q : Q K) (cur : Nat → Aabb3 K) (h : checkTracked q cur = true) : Tracked q cur := by
  intro n nd hn hlive
  have hlt := (Array.getElem?_eq_some_iff.mp hn).1
  have := (all_range_iff _ _).1 h n hlt
  simp only [hn, Bool.or_eq_true, Bool.not_eq_true', Bool.and_eq_true] at this
  rcases this with (hl | hg) | ⟨hd, hm⟩
  · exact absurd ((isLive_iff q n).2 hlive) (by simp [hl])
  · exact Or.inl hg
  · exact Or.inr ⟨hd, (contains_iff_mem _ _).1 hm⟩

theorem checkDirty_sound (q : Q K) (h : checkDirty q = true) : DirtyQueued q := by
  intro n nd hn hd
  have hlt := (Array.getElem?_eq_some_iff.mp hn).1
  have := (all_range_iff _ _).1 h n hlt
  simp only [hn, Bool.or_eq_true, Bool.not_eq_true'] at this
  rcases this with hl | hm
  · rw [hd] at hl; cases hl
  · exact (contains_iff_mem _ _).1 hm

theorem checkData_sound (q : Q K) (h : checkData q = true) : DataOk q := by
  intro p pr hp hne
  have hlt := (Array.getElem?_eq_some_iff.mp hp).1
  have := (all_range_iff _ _).1 h p hlt
  simp only [hp, Bool.or_eq_true, beq_iff_eq] at this
  rcases this with e | e
  · exact absurd e hne
  · exact e

end C08
